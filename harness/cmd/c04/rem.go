package main

import (
	"fmt"
	"math/rand"
	"runtime"
	"strings"
	"sync"
	"sync/atomic"

	"github.com/pinealctx/neptune/cache"
	"github.com/pinealctx/neptune/cache/tiny"
	"verifharness/vh"
)

// Concurrent SetAndGetRemoved only.  ng goroutines insert the pairwise distinct fresh keys lo..lo+m-1 (goroutine g takes
// the keys with (k-lo) mod ng = g; value = key; size 1 + k mod 3, tiny: 1) into one small cache and keep, without copying,
// every removed list they are given.  After all goroutines have returned the kept lists are re-read.  In every
// linearisation each inserted value is reported removed by exactly one call or is still cached, and a list the cache
// returned never changes: case_holds checks exactly that (C04_Check.rem_ok, C04_Rem.v).

type remSpec struct {
	Variant string `json:"variant"`
	Cap     int64  `json:"cap"`
	KK      int    `json:"kk"`
	NG      int    `json:"ng"`
	Lo      int64  `json:"lo"`
	M       int    `json:"m"`
}

func remSize(variant string, k int64) int64 {
	if variant == "tiny" {
		return 1
	}
	return 1 + k%3
}

func runRem(s remSpec) (held [][]heldSlice, snap snapshot, panics int32) {
	// one adapter per goroutine (each keeps its own slices) over one shared cache
	var mk func() lruAPI
	if s.Variant == "tiny" {
		c := tiny.NewLRUCache(s.Cap)
		mk = func() lruAPI { return &tinyLRU{c: c, kk: s.KK} }
	} else {
		c := cache.NewLRUCache(s.Cap)
		mk = func() lruAPI { return &stdLRU{c: c, kk: s.KK} }
	}
	held = make([][]heldSlice, s.NG)
	ads := make([]lruAPI, s.NG)
	var ready int32
	var wg sync.WaitGroup
	for g := 0; g < s.NG; g++ {
		ads[g] = mk()
		ads[g].Hold(true, false)
		wg.Add(1)
		go func(g int) {
			defer wg.Done()
			defer func() {
				if r := recover(); r != nil {
					atomic.AddInt32(&panics, 1)
				}
			}()
			atomic.AddInt32(&ready, 1)
			for spins := 0; atomic.LoadInt32(&ready) < int32(s.NG); spins++ {
				if spins > 2000 {
					runtime.Gosched()
				}
			}
			for j := g; j < s.M; j += s.NG {
				k := s.Lo + int64(j)
				ads[g].SetAndGetRemoved(k, k, remSize(s.Variant, k))
				beat()
			}
		}(g)
	}
	wg.Wait() // the barrier: every call has returned; only now are the kept lists looked at again
	for g := range ads {
		held[g] = ads[g].Held()
	}
	snap = takeSnap(mk())
	return
}

func remCase(s remSpec) vh.Case {
	held, snap, panics := runRem(s)
	var hs, changed []string
	count := map[int64]int{}
	for g, hl := range held {
		for _, h := range hl {
			if sameInts(h.AtReturn, h.Now) {
				hs = append(hs, "hq "+zlist(h.AtReturn))
			} else {
				hs = append(hs, "hp "+zlist(h.AtReturn)+" "+zlist(h.Now))
				if len(changed) < 5 {
					changed = append(changed, fmt.Sprintf("goroutine %d: a removed list held %v when its call returned and holds %v after the barrier", g, h.AtReturn, h.Now))
				}
			}
			for _, x := range h.AtReturn {
				count[x]++
			}
		}
	}
	for _, k := range snap.Keys {
		count[k]++
	}
	var lost, twice []int64
	for j := 0; j < s.M; j++ {
		switch k := s.Lo + int64(j); {
		case count[k] == 0:
			lost = append(lost, k)
		case count[k] > 1:
			twice = append(twice, k)
		}
	}
	if len(changed) > 0 || len(lost) > 0 || len(twice) > 0 || panics > 0 {
		stat.remAnomalies++
	}
	stat.remRounds++
	coq := fmt.Sprintf("(CRem %s %s %s %d [%s] %s %s)%%Z", coqVariant(s.Variant), z(s.Cap), z(s.Lo), s.M, strings.Join(hs, ";"), vh.CoqBool(panics > 0), coqSnap(snap))
	return vh.Case{Coq: coq, Class: "rem/" + s.Variant, Nontrivial: s.NG > 1 && snap.Stats[3] > 0,
		Desc: map[string]interface{}{"kind": "concurrent SetAndGetRemoved of distinct fresh keys (value = key); removed lists kept by the callers and re-read after all calls returned",
			"cache": s.Variant, "capacity": s.Cap, "goroutines": s.NG, "keys": fmt.Sprintf("%d..%d", s.Lo, s.Lo+int64(s.M)-1), "calls_that_panicked": panics,
			"kept_lists_that_changed(first 5)": changed, "values_neither_reported_removed_nor_cached": lost, "values_reported_more_than_once": twice,
			"final": descSnap(snap)}}
}

func genRem(rnd *rand.Rand, variant string) remSpec {
	return remSpec{Variant: variant, Cap: int64(1 + rnd.Intn(6)), KK: rnd.Intn(3), NG: 2 + rnd.Intn(7), Lo: int64(rnd.Intn(1000)), M: 30 + rnd.Intn(60)}
}
