package main

import (
	"fmt"
	"math/big"
	"math/rand"
	"runtime"
	"strings"
	"sync"
	"sync/atomic"

	"github.com/pinealctx/neptune/remap"
	"verifharness/vh"
)

// Same-key bursts.  N goroutines are released from a barrier and walk the same small universe of initially
// absent keys in the same order, each issuing one call per key (SetIfAbsent mostly; Set / SetAndGetRemoved /
// Get / Delete mixes), so that calls on the same key collide.  Nothing is observed during the burst.  After
// all goroutines have returned (quiescence = WaitGroup, not a sleep) the harness reads Keys(), Items(), Stats(),
// the four single accessors and Exist / Peek of every key of the universe (wide caches: Exist / Peek only).
// case_holds then checks what the ideal cache guarantees for EVERY linearisation of the burst, so no
// linearisation has to be found: Keys() has no duplicates, Length = len(Keys()), Size = sum of the listed items'
// sizes (tiny: = Length) <= Capacity, every listed item was written by some call of the burst, a key Exists /
// Peeks iff it is listed (with the listed value), and when the distinct keys written fit into the capacity
// nothing is evicted and (without Delete) every written key is present.
//
// Value written by goroutine g to key k: k*64 + g.  All writes to one key carry the same size.

const (
	bSetIfAbsent      = iota // 0
	bSet                     // 1
	bGet                     // 2
	bDelete                  // 3
	bSetAndGetRemoved        // 4
	bPeek                    // 5
)

// goroutines re-synchronise every burstSync keys
const burstSync = 2

type burstSpec struct {
	Variant string  `json:"variant"`
	Class   string  `json:"class"`
	Cap     int64   `json:"cap"`
	KK      int     `json:"kk"`
	Wide    bool    `json:"wide,omitempty"`
	XHash   bool    `json:"xhash,omitempty"`
	N       uint64  `json:"n,omitempty"`
	Univ    []int64 `json:"univ"`
	Sizes   []int64 `json:"sizes"`
	Progs   [][]int `json:"progs"` // Progs[g][j] = what goroutine g does to Univ[j]
}

type burstProbe struct {
	K     int64
	Exist bool
	Ok    bool
	Val   int64
}

func burstVal(g int, k int64) int64 { return k*64 + int64(g) }

// burstAPI is what a burst needs of a cache (single or wide)
type burstAPI interface {
	Get(k int64) (int64, bool)
	Peek(k int64) (int64, bool)
	Exist(k int64) bool
	Set(k, v, sz int64)
	Delete(k int64) bool
}

func runBurst(s burstSpec) (probe []burstProbe, snap *snapshot, panics int32) {
	var c burstAPI
	var single lruAPI
	if s.Wide {
		c = newWide(s.Variant, s.XHash, s.Cap, s.N, s.KK)
	} else {
		single = newLRU(s.Variant, s.Cap, s.KK, false)
		c = single
	}
	arrived := make([]int32, len(s.Univ)/burstSync+1)
	var wg sync.WaitGroup
	ng := len(s.Progs)
	for g := 0; g < ng; g++ {
		wg.Add(1)
		go func(g int) {
			defer wg.Done()
			defer func() {
				if r := recover(); r != nil {
					atomic.AddInt32(&panics, 1)
				}
			}()
			resync := func(slot int) { // spin barrier: keeps the goroutines in lockstep so that calls on one key collide
				atomic.AddInt32(&arrived[slot], 1)
				for spins := 0; atomic.LoadInt32(&arrived[slot]) < int32(ng); spins++ {
					if spins > 2000 {
						runtime.Gosched()
					}
				}
			}
			for j, code := range s.Progs[g] {
				if j%burstSync == 0 {
					resync(j / burstSync)
				}
				k := s.Univ[j]
				beat()
				switch code {
				case bSetIfAbsent:
					if single != nil {
						single.SetIfAbsent(k, burstVal(g, k), s.Sizes[j])
					} else {
						c.Set(k, burstVal(g, k), s.Sizes[j]) // the facades have no SetIfAbsent
					}
				case bSet:
					c.Set(k, burstVal(g, k), s.Sizes[j])
				case bGet:
					c.Get(k)
				case bDelete:
					c.Delete(k)
				case bSetAndGetRemoved:
					if single != nil {
						single.SetAndGetRemoved(k, burstVal(g, k), s.Sizes[j])
					} else {
						c.Set(k, burstVal(g, k), s.Sizes[j])
					}
				case bPeek:
					c.Peek(k)
				}
			}
		}(g)
	}
	wg.Wait()
	if single != nil {
		sn := takeSnap(single)
		snap = &sn
	}
	for _, k := range s.Univ {
		ex := c.Exist(k)
		v, ok := c.Peek(k)
		probe = append(probe, burstProbe{k, ex, ok, v})
	}
	return
}

func burstCase(s burstSpec) vh.Case {
	probe, snap, panics := runBurst(s)
	// compact notation (C04_Check.v): the universe is lo..lo+K-1 = zrange lo K; a row of op codes / the sizes are the base-8
	// digits (least significant first) of one number = digs d K
	nk := len(s.Univ)
	digs := func(get func(j int) int64) string {
		d := new(big.Int)
		for j := nk - 1; j >= 0; j-- {
			d.Mul(d, big.NewInt(8))
			d.Add(d, big.NewInt(get(j)))
		}
		return fmt.Sprintf("(digs 0x%s %d)", d.Text(16), nk)
	}
	rows := make([]string, len(s.Progs))
	for g := range s.Progs {
		row := s.Progs[g]
		rows[g] = digs(func(j int) int64 { return int64(row[j]) })
	}
	hits := 0
	for _, p := range probe {
		if p.Exist && p.Ok {
			hits++
		}
	}
	// the probe agrees with Items() (every listed key found with the listed value, every other key missed): written as
	// expected_probe it u; otherwise spelled out
	agrees := snap != nil
	if snap != nil {
		listed := map[int64]int64{}
		first := map[int64]bool{}
		for _, it := range snap.Items {
			if !first[it[0]] {
				first[it[0]] = true
				listed[it[0]] = it[1]
			}
		}
		for _, p := range probe {
			v, in := listed[p.K]
			if in != p.Exist || in != p.Ok || (in && v != p.Val) {
				agrees = false
			}
		}
	}
	probeTerm := "(expected_probe it u)"
	if !agrees {
		ps := make([]string, len(probe))
		for i, p := range probe {
			switch {
			case p.Exist && p.Ok:
				ps[i] = "pH " + z(p.K) + " " + z(p.Val)
			case !p.Exist && !p.Ok:
				ps[i] = "pM " + z(p.K)
			case p.Ok:
				ps[i] = "pX " + z(p.K) + " " + vh.CoqBool(p.Exist) + " (Some " + z(p.Val) + ")"
			default:
				ps[i] = "pX " + z(p.K) + " " + vh.CoqBool(p.Exist) + " None"
			}
		}
		probeTerm = "[" + strings.Join(ps, ";") + "]"
	}
	wide := "None"
	if s.Wide {
		tab := "None"
		if s.XHash || s.KK != kkInt64 {
			r := remap.NewReMap(remap.WithPrime(s.N))
			ent := make([]string, len(s.Univ))
			for i, k := range s.Univ {
				ent[i] = fmt.Sprintf("(%s,%d%%nat)", z(k), r.XHashIndex(mkKey(s.KK, k)))
			}
			tab = "(Some [" + strings.Join(ent, ";") + "])"
		}
		wide = fmt.Sprintf("(Some (%d, %s))", s.N, tab)
	}
	sn := "None"
	items := "[]"
	desc := map[string]interface{}{"kind": "same-key burst, observed at quiescence", "cache": s.Variant, "capacity": s.Cap, "goroutines": len(s.Progs),
		"keys": len(s.Univ), "universe": fmt.Sprintf("%d..%d", s.Univ[0], s.Univ[len(s.Univ)-1]), "calls_that_panicked": panics,
		"op_codes": "0 SetIfAbsent 1 Set 2 Get 3 Delete 4 SetAndGetRemoved 5 Peek (wide facades: 0 and 4 are issued as Set)", "keys_found_by_exist_and_peek": hits}
	if s.Wide {
		desc["shards"] = s.N
		desc["xhash"] = s.XHash
	}
	if snap != nil {
		same := len(snap.Keys) == len(snap.Items) && snap.Stats == snap.Single
		for i := 0; same && i < len(snap.Keys); i++ {
			same = snap.Keys[i] == snap.Items[i][0]
		}
		if same {
			sn = "(Some (S1 it " + quad(snap.Stats) + "))"
		} else {
			sn = "(Some (S2 " + zlist(snap.Keys) + " it " + quad(snap.Stats) + " " + quad(snap.Single) + "))"
		}
		items = pairs(snap.Items)
		desc["keys()"] = fmt.Sprint(snap.Keys)
		desc["stats(len,size,cap,evictions)"] = fmt.Sprint(snap.Stats)
		seen := map[int64]int{}
		dups := []int64{}
		for _, k := range snap.Keys {
			seen[k]++
			if seen[k] == 2 {
				dups = append(dups, k)
			}
		}
		desc["keys_listed_more_than_once"] = dups
		missing := []int64{}
		for _, p := range probe {
			if seen[p.K] > 0 && !(p.Exist && p.Ok) {
				missing = append(missing, p.K)
			}
		}
		desc["keys_listed_but_not_found"] = missing
		if len(dups) > 0 || len(missing) > 0 {
			stat.burstAnomalies++
		}
	}
	if panics > 0 {
		stat.burstAnomalies++
	}
	stat.burstRounds++
	stat.burstCalls += len(s.Progs) * len(s.Univ)
	coq := fmt.Sprintf("(let u := zrange %s %d in let it : list (Z * Z) := %s in\n CBurst %s %s %s u %s [%s] %s %s %s)%%Z",
		z(s.Univ[0]), nk, items, coqVariant(s.Variant), z(s.Cap), wide, digs(func(j int) int64 { return s.Sizes[j] }),
		strings.Join(rows, ";\n "), vh.CoqBool(panics > 0), probeTerm, sn)
	return vh.Case{Coq: coq, Class: s.Class, Nontrivial: len(s.Progs) > 1 && hits > 0, Desc: desc}
}

// genBurst: one round.  big = volume knob (keys per round).
func genBurst(rnd *rand.Rand, variant string, wide bool) burstSpec {
	s := burstSpec{Variant: variant, KK: kkInt64, Wide: wide}
	if rnd.Intn(4) == 0 {
		s.KK = kkString
	}
	ng := 8 + rnd.Intn(9)
	nk := 24 + rnd.Intn(56)
	lo := int64(1 + rnd.Intn(1000))
	need := int64(0)
	for j := 0; j < nk; j++ {
		s.Univ = append(s.Univ, lo+int64(j))
		sz := int64(1)
		if variant != "tiny" {
			sz = pick(rnd, []int64{1, 1, 1, 2, 3, 0})
		}
		s.Sizes = append(s.Sizes, sz)
		need += sz
	}
	mix := rnd.Intn(4) // 0: the dominant call only; 1,2: writes and reads; 3: with Delete
	dominant := []int{bSetIfAbsent, bSetIfAbsent, bSetIfAbsent, bSetAndGetRemoved, bSetAndGetRemoved, bSet}[rnd.Intn(6)]
	for g := 0; g < ng; g++ {
		row := make([]int, nk)
		for j := range row {
			r := rnd.Intn(100)
			switch {
			case mix == 0 || r < 62:
				row[j] = dominant
			case r < 70:
				row[j] = bSetIfAbsent
			case r < 76:
				row[j] = bSet
			case r < 82:
				row[j] = bSetAndGetRemoved
			case r < 90:
				row[j] = bGet
			case r < 94 || mix != 3:
				row[j] = bPeek
			default:
				row[j] = bDelete
			}
		}
		s.Progs = append(s.Progs, row)
	}
	kind := "single"
	if wide {
		kind = "wide"
		s.N = uint64(pick(rnd, []int64{1, 2, 3, 5}))
		s.XHash = rnd.Intn(2) == 0
	}
	// two thirds of the rounds: everything fits (nothing may be evicted, every written key must be there);
	// one third: a capacity that forces evictions during the burst
	if rnd.Intn(3) < 2 {
		s.Cap = need + int64(rnd.Intn(4))
		if wide {
			s.Cap = need * int64(s.N) // every shard can hold the whole universe
		}
	} else {
		s.Cap = need/2 + int64(rnd.Intn(3))
	}
	s.Class = "burst/" + variant + "/" + kind
	return s
}
