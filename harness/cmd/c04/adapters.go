package main

import (
	"fmt"

	"github.com/pinealctx/neptune/cache"
	"github.com/pinealctx/neptune/cache/tiny"
	"github.com/pinealctx/neptune/remap"
)

// ---- operations and outcomes -------------------------------------------------

const (
	opGet = iota
	opPeek
	opExist
	opSet
	opSetAndGetRemoved
	opSetIfAbsent
	opDelete
	opClear
	opSetCapacity
	// accessors (concurrent runs only)
	opKeys
	opItems
	opStats
	opLen
	opSize
	opCap
	opEvs
)

var opNames = []string{"Get", "Peek", "Exist", "Set", "SetAndGetRemoved", "SetIfAbsent", "Delete", "Clear", "SetCapacity",
	"Keys", "Items", "Stats", "Length", "Size", "Capacity", "Evictions"}

// opRec is one call: K = key (or the new capacity for SetCapacity), V = value id, Sz = Size() of the value.
type opRec struct {
	Code int   `json:"c"`
	K    int64 `json:"k"`
	V    int64 `json:"v"`
	Sz   int64 `json:"s"`
	// F != 0 (class fault, on a Peek of cache.LRUCache): immediately BEFORE the Peek the harness issues a call whose
	// value's Size() panics and recovers from it: 1 Set(K, panicking value), 2 SetAndGetRemoved(K, panicking value),
	// 3 Set(K, nil Value).  A call that panics in the user's callback has not returned: the cache must be as it was,
	// which the Peek's outcome and the snapshot after it are compared against (the model's Peek changes nothing).
	F int `json:"f,omitempty"`
}

const (
	rkVal = iota
	rkBool
	rkUnit
	rkList
	rkKeys
	rkItems
	rkStats
	rkNum
)

// outcome of one call
type outcome struct {
	Panic bool
	Kind  int
	Ok    bool // rkVal: hit?
	Val   int64
	B     bool
	List  []int64
	Items [][2]int64
	Stats [4]int64
}

type snapshot struct {
	Keys   []int64
	Items  [][2]int64
	Stats  [4]int64 // Stats()
	Single [4]int64 // Length(), Size(), Capacity(), Evictions()
}

// ---- keys and values ------------------------------------------------------------

// key kinds: the caches take interface{} keys; the model only needs their identity
const (
	kkInt64 = iota
	kkString
	kkStruct
)

type skey struct{ A int64 }

func mkKey(kind int, k int64) interface{} {
	switch kind {
	case kkString:
		return fmt.Sprintf("key-%d", k)
	case kkStruct:
		return skey{k}
	}
	return k
}

func unKey(x interface{}) int64 {
	switch v := x.(type) {
	case int64:
		return v
	case string:
		var k int64
		if _, err := fmt.Sscanf(v, "key-%d", &k); err != nil {
			return -999999
		}
		return k
	case skey:
		return v.A
	}
	return -999998
}

// sval is what goes into cache.LRUCache: an id and the size it claims
type sval struct {
	id int64
	sz int
}

func (s sval) Size() int { return s.sz }

// a value whose Size() panics (a bug in user code, or a nil receiver)
type panicVal struct{ id int64 }

func (panicVal) Size() int { panic("Size() of this value panics") }

// faultCall issues the faulted call of o.F on a cache.LRUCache; it reports whether the call panicked (it must:
// every implementation needs Size() to account for the value)
func faultCall(c lruAPI, o opRec) (panicked, applicable bool) {
	a, ok := c.(*stdLRU)
	if !ok || o.F == 0 {
		return false, false
	}
	defer func() {
		if recover() != nil {
			panicked = true
		}
	}()
	switch o.F {
	case 1:
		a.c.Set(mkKey(a.kk, o.K), panicVal{o.K})
	case 2:
		a.c.SetAndGetRemoved(mkKey(a.kk, o.K), panicVal{o.K})
	default:
		a.c.Set(mkKey(a.kk, o.K), nil)
	}
	return false, true
}

func stdVal(v cache.Value) int64 {
	if s, ok := v.(sval); ok {
		return s.id
	}
	return -999997
}
func tinyVal(v interface{}) int64 {
	if s, ok := v.(int64); ok {
		return s
	}
	return -999997
}

// ---- the single caches behind one interface -----------------------------------------

type lruAPI interface {
	Get(k int64) (int64, bool)
	Peek(k int64) (int64, bool)
	Exist(k int64) bool
	Set(k, v, sz int64)
	SetAndGetRemoved(k, v, sz int64) []int64
	SetIfAbsent(k, v, sz int64)
	Delete(k int64) bool
	Clear()
	SetCapacity(c int64)
	Stats() [4]int64
	Length() int64
	Size() int64
	Capacity() int64
	Evictions() int64
	Keys() []int64
	Items() [][2]int64
	// Hold(removed, listings): from now on keep the slices the cache returns exactly as returned (no copy), together with
	// a deep copy taken at return time; Held re-reads every kept slice now
	Hold(removed, listings bool)
	Held() []heldSlice
}

// heldSlice is one slice the caller kept: what it contained when the call returned and what it contains now
type heldSlice struct {
	What     string
	AtReturn []int64
	Now      []int64
}

type holder struct {
	holdRemoved, holdListings bool
	kept                      []keptSlice
}

type keptSlice struct {
	what     string
	atReturn []int64
	reread   func() []int64
}

func (h *holder) Hold(removed, listings bool) { h.holdRemoved, h.holdListings = removed, listings }
func (h *holder) Held() []heldSlice {
	out := make([]heldSlice, len(h.kept))
	for i, k := range h.kept {
		out[i] = heldSlice{k.what, k.atReturn, k.reread()}
	}
	return out
}
func (h *holder) keep(what string, reread func() []int64) {
	h.kept = append(h.kept, keptSlice{what, reread(), reread})
}

type stdLRU struct {
	c  *cache.LRUCache
	kk int
	holder
}

func (a *stdLRU) Get(k int64) (int64, bool) {
	v, ok := a.c.Get(mkKey(a.kk, k))
	if !ok {
		return 0, false
	}
	return stdVal(v), true
}
func (a *stdLRU) Peek(k int64) (int64, bool) {
	v, ok := a.c.Peek(mkKey(a.kk, k))
	if !ok {
		return 0, false
	}
	return stdVal(v), true
}
func (a *stdLRU) Exist(k int64) bool { return a.c.Exist(mkKey(a.kk, k)) }
func (a *stdLRU) Set(k, v, sz int64) { a.c.Set(mkKey(a.kk, k), sval{v, int(sz)}) }
func (a *stdLRU) SetAndGetRemoved(k, v, sz int64) []int64 {
	r := a.c.SetAndGetRemoved(mkKey(a.kk, k), sval{v, int(sz)})
	dec := func() []int64 {
		out := make([]int64, len(r))
		for i, x := range r {
			out[i] = stdVal(x)
		}
		return out
	}
	if a.holdRemoved && len(r) > 0 {
		a.keep("SetAndGetRemoved", dec)
	}
	return dec()
}
func (a *stdLRU) SetIfAbsent(k, v, sz int64) { a.c.SetIfAbsent(mkKey(a.kk, k), sval{v, int(sz)}) }
func (a *stdLRU) Delete(k int64) bool        { return a.c.Delete(mkKey(a.kk, k)) }
func (a *stdLRU) Clear()                     { a.c.Clear() }
func (a *stdLRU) SetCapacity(c int64)        { a.c.SetCapacity(c) }
func (a *stdLRU) Stats() [4]int64 {
	l, s, c, e := a.c.Stats()
	return [4]int64{l, s, c, e}
}
func (a *stdLRU) Length() int64    { return a.c.Length() }
func (a *stdLRU) Size() int64      { return a.c.Size() }
func (a *stdLRU) Capacity() int64  { return a.c.Capacity() }
func (a *stdLRU) Evictions() int64 { return a.c.Evictions() }
func (a *stdLRU) Keys() []int64 {
	ks := a.c.Keys()
	dec := func() []int64 {
		out := make([]int64, len(ks))
		for i, k := range ks {
			out[i] = unKey(k)
		}
		return out
	}
	if a.holdListings && len(ks) > 0 {
		a.keep("Keys", dec)
	}
	return dec()
}
func (a *stdLRU) Items() [][2]int64 {
	it := a.c.Items()
	if a.holdListings && len(it) > 0 {
		a.keep("Items", func() []int64 {
			flat := make([]int64, 0, 2*len(it))
			for _, x := range it {
				flat = append(flat, unKey(x.Key), stdVal(x.Value))
			}
			return flat
		})
	}
	out := make([][2]int64, len(it))
	for i, x := range it {
		out[i] = [2]int64{unKey(x.Key), stdVal(x.Value)}
	}
	return out
}

type tinyLRU struct {
	c  *tiny.LRUCache
	kk int
	holder
}

func (a *tinyLRU) Get(k int64) (int64, bool) {
	v, ok := a.c.Get(mkKey(a.kk, k))
	if !ok {
		return 0, false
	}
	return tinyVal(v), true
}
func (a *tinyLRU) Peek(k int64) (int64, bool) {
	v, ok := a.c.Peek(mkKey(a.kk, k))
	if !ok {
		return 0, false
	}
	return tinyVal(v), true
}
func (a *tinyLRU) Exist(k int64) bool { return a.c.Exist(mkKey(a.kk, k)) }
func (a *tinyLRU) Set(k, v, sz int64) { a.c.Set(mkKey(a.kk, k), v) }
func (a *tinyLRU) SetAndGetRemoved(k, v, sz int64) []int64 {
	r := a.c.SetAndGetRemoved(mkKey(a.kk, k), v)
	dec := func() []int64 {
		out := make([]int64, len(r))
		for i, x := range r {
			out[i] = tinyVal(x)
		}
		return out
	}
	if a.holdRemoved && len(r) > 0 {
		a.keep("SetAndGetRemoved", dec)
	}
	return dec()
}
func (a *tinyLRU) SetIfAbsent(k, v, sz int64) { a.c.SetIfAbsent(mkKey(a.kk, k), v) }
func (a *tinyLRU) Delete(k int64) bool        { return a.c.Delete(mkKey(a.kk, k)) }
func (a *tinyLRU) Clear()                     { a.c.Clear() }
func (a *tinyLRU) SetCapacity(c int64)        { a.c.SetCapacity(c) }
func (a *tinyLRU) Stats() [4]int64 {
	l, s, c, e := a.c.Stats()
	return [4]int64{l, s, c, e}
}
func (a *tinyLRU) Length() int64    { return a.c.Length() }
func (a *tinyLRU) Size() int64      { return a.c.Size() }
func (a *tinyLRU) Capacity() int64  { return a.c.Capacity() }
func (a *tinyLRU) Evictions() int64 { return a.c.Evictions() }
func (a *tinyLRU) Keys() []int64 {
	ks := a.c.Keys()
	dec := func() []int64 {
		out := make([]int64, len(ks))
		for i, k := range ks {
			out[i] = unKey(k)
		}
		return out
	}
	if a.holdListings && len(ks) > 0 {
		a.keep("Keys", dec)
	}
	return dec()
}
func (a *tinyLRU) Items() [][2]int64 {
	it := a.c.Items()
	if a.holdListings && len(it) > 0 {
		a.keep("Items", func() []int64 {
			flat := make([]int64, 0, 2*len(it))
			for _, x := range it {
				flat = append(flat, unKey(x.Key), tinyVal(x.Value))
			}
			return flat
		})
	}
	out := make([][2]int64, len(it))
	for i, x := range it {
		out[i] = [2]int64{unKey(x.Key), tinyVal(x.Value)}
	}
	return out
}

// newLRU builds the real cache.  Every second history goes through the NewSingle... facade constructor.
func newLRU(variant string, capacity int64, kk int, viaFacade bool) lruAPI {
	if variant == "tiny" {
		if viaFacade {
			return &tinyLRU{c: tiny.NewSingleLRUCache(capacity).(*tiny.LRUCache), kk: kk}
		}
		return &tinyLRU{c: tiny.NewLRUCache(capacity), kk: kk}
	}
	if viaFacade {
		return &stdLRU{c: cache.NewSingleLRUCache(capacity).(*cache.LRUCache), kk: kk}
	}
	return &stdLRU{c: cache.NewLRUCache(capacity), kk: kk}
}

// ---- the wide caches behind one interface ---------------------------------------------

type wideAPI interface {
	Get(k int64) (int64, bool)
	Peek(k int64) (int64, bool)
	Exist(k int64) bool
	Set(k, v, sz int64)
	Delete(k int64) bool
}

type stdWide struct {
	f  cache.LRUFacade
	kk int
}

func (a *stdWide) Get(k int64) (int64, bool) {
	v, ok := a.f.Get(mkKey(a.kk, k))
	if !ok {
		return 0, false
	}
	return stdVal(v), true
}
func (a *stdWide) Peek(k int64) (int64, bool) {
	v, ok := a.f.Peek(mkKey(a.kk, k))
	if !ok {
		return 0, false
	}
	return stdVal(v), true
}
func (a *stdWide) Exist(k int64) bool  { return a.f.Exist(mkKey(a.kk, k)) }
func (a *stdWide) Set(k, v, sz int64)  { a.f.Set(mkKey(a.kk, k), sval{v, int(sz)}) }
func (a *stdWide) Delete(k int64) bool { return a.f.Delete(mkKey(a.kk, k)) }

type tinyWide struct {
	f  tiny.LRU
	kk int
}

func (a *tinyWide) Get(k int64) (int64, bool) {
	v, ok := a.f.Get(mkKey(a.kk, k))
	if !ok {
		return 0, false
	}
	return tinyVal(v), true
}
func (a *tinyWide) Peek(k int64) (int64, bool) {
	v, ok := a.f.Peek(mkKey(a.kk, k))
	if !ok {
		return 0, false
	}
	return tinyVal(v), true
}
func (a *tinyWide) Exist(k int64) bool  { return a.f.Exist(mkKey(a.kk, k)) }
func (a *tinyWide) Set(k, v, sz int64)  { a.f.Set(mkKey(a.kk, k), v) }
func (a *tinyWide) Delete(k int64) bool { return a.f.Delete(mkKey(a.kk, k)) }

func newWide(variant string, xhash bool, capacity int64, n uint64, kk int) wideAPI {
	opt := remap.WithPrime(n)
	if variant == "tiny" {
		if xhash {
			return &tinyWide{tiny.NewWideXHashLRU(capacity, opt), kk}
		}
		return &tinyWide{tiny.NeWideLRU(capacity, opt), kk}
	}
	if xhash {
		return &stdWide{cache.NewWideXHashLRUCache(capacity, opt), kk}
	}
	return &stdWide{cache.NeWideLRUCache(capacity, opt), kk}
}

// ---- running one call with panic recovery -----------------------------------------------

func doOp(c lruAPI, o opRec) (out outcome) {
	noteCall(o)
	defer beat()
	defer func() {
		if r := recover(); r != nil {
			out = outcome{Panic: true}
		}
	}()
	switch o.Code {
	case opGet:
		v, ok := c.Get(o.K)
		return outcome{Kind: rkVal, Ok: ok, Val: v}
	case opPeek:
		v, ok := c.Peek(o.K)
		return outcome{Kind: rkVal, Ok: ok, Val: v}
	case opExist:
		return outcome{Kind: rkBool, B: c.Exist(o.K)}
	case opSet:
		c.Set(o.K, o.V, o.Sz)
		return outcome{Kind: rkUnit}
	case opSetAndGetRemoved:
		return outcome{Kind: rkList, List: c.SetAndGetRemoved(o.K, o.V, o.Sz)}
	case opSetIfAbsent:
		c.SetIfAbsent(o.K, o.V, o.Sz)
		return outcome{Kind: rkUnit}
	case opDelete:
		return outcome{Kind: rkBool, B: c.Delete(o.K)}
	case opClear:
		c.Clear()
		return outcome{Kind: rkUnit}
	case opSetCapacity:
		c.SetCapacity(o.K)
		return outcome{Kind: rkUnit}
	case opKeys:
		return outcome{Kind: rkKeys, List: c.Keys()}
	case opItems:
		return outcome{Kind: rkItems, Items: c.Items()}
	case opStats:
		return outcome{Kind: rkStats, Stats: c.Stats()}
	case opLen:
		return outcome{Kind: rkNum, Val: c.Length()}
	case opSize:
		return outcome{Kind: rkNum, Val: c.Size()}
	case opCap:
		return outcome{Kind: rkNum, Val: c.Capacity()}
	case opEvs:
		return outcome{Kind: rkNum, Val: c.Evictions()}
	}
	panic("unknown op code")
}

func doWideOp(c wideAPI, o opRec) (out outcome) {
	defer beat()
	defer func() {
		if r := recover(); r != nil {
			out = outcome{Panic: true}
		}
	}()
	switch o.Code {
	case opGet:
		v, ok := c.Get(o.K)
		return outcome{Kind: rkVal, Ok: ok, Val: v}
	case opPeek:
		v, ok := c.Peek(o.K)
		return outcome{Kind: rkVal, Ok: ok, Val: v}
	case opExist:
		return outcome{Kind: rkBool, B: c.Exist(o.K)}
	case opSet:
		c.Set(o.K, o.V, o.Sz)
		return outcome{Kind: rkUnit}
	case opDelete:
		return outcome{Kind: rkBool, B: c.Delete(o.K)}
	}
	panic("unknown wide op code")
}

func takeSnap(c lruAPI) snapshot {
	return snapshot{Keys: c.Keys(), Items: c.Items(), Stats: c.Stats(),
		Single: [4]int64{c.Length(), c.Size(), c.Capacity(), c.Evictions()}}
}
