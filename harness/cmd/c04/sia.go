package main

import (
	"fmt"
	"math/big"
	"math/rand"
	"runtime"
	"strings"
	"sync"
	"sync/atomic"

	"verifharness/vh"
)

// SetIfAbsent-only bursts.  ng goroutines walk the same fresh keys; for every key each goroutine calls
// SetIfAbsent(k, k*64+g) (size g+1) and at once Get(k) or Peek(k), recording whose value it saw.  A spin barrier before
// every key makes the SetIfAbsent calls on one key collide.  The capacity holds every key with the largest value, so
// nothing evicts.  In every linearisation the first SetIfAbsent of a key wins and is never replaced: case_holds checks
// that per key all recorded reads and the value present at quiescence are one and the same, every key is present, and
// Size = the sum of the winners' sizes.

type siaSpec struct {
	Variant string `json:"variant"`
	Cap     int64  `json:"cap"`
	KK      int    `json:"kk"`
	NG      int    `json:"ng"`
	Lo      int64  `json:"lo"`
	K       int    `json:"k"`
}

const siaMiss = 63

func runSia(s siaSpec) (obs [][]int, probe []burstProbe, snap snapshot, panics int32) {
	c := newLRU(s.Variant, s.Cap, s.KK, false)
	arrived := make([]int32, s.K)
	obs = make([][]int, s.NG)
	var wg sync.WaitGroup
	for g := 0; g < s.NG; g++ {
		obs[g] = make([]int, s.K)
		wg.Add(1)
		go func(g int) {
			defer wg.Done()
			defer func() {
				if r := recover(); r != nil {
					atomic.AddInt32(&panics, 1)
				}
			}()
			for j := 0; j < s.K; j++ {
				obs[g][j] = siaMiss
			}
			sz := int64(1)
			if s.Variant != "tiny" {
				sz = int64(g + 1)
			}
			for j := 0; j < s.K; j++ {
				k := s.Lo + int64(j)
				atomic.AddInt32(&arrived[j], 1)
				for spins := 0; atomic.LoadInt32(&arrived[j]) < int32(s.NG); spins++ {
					if spins > 2000 {
						runtime.Gosched()
					}
				}
				beat()
				c.SetIfAbsent(k, burstVal(g, k), sz)
				var v int64
				var ok bool
				if (g+j)%2 == 0 {
					v, ok = c.Get(k)
				} else {
					v, ok = c.Peek(k)
				}
				if w := v - k*64; ok && w >= 0 && w < int64(s.NG) {
					obs[g][j] = int(w)
				}
			}
		}(g)
	}
	wg.Wait()
	snap = takeSnap(c)
	for j := 0; j < s.K; j++ {
		k := s.Lo + int64(j)
		ex := c.Exist(k)
		v, ok := c.Peek(k)
		probe = append(probe, burstProbe{k, ex, ok, v})
	}
	return
}

func siaCase(s siaSpec) vh.Case {
	obs, probe, snap, panics := runSia(s)
	rows := make([]string, s.NG)
	for g := range obs {
		d := new(big.Int)
		for j := s.K - 1; j >= 0; j-- {
			d.Lsh(d, 6)
			d.Add(d, big.NewInt(int64(obs[g][j])))
		}
		rows[g] = fmt.Sprintf("(digs64 0x%s %d)", d.Text(16), s.K)
	}
	listed := map[int64]int64{}
	for _, it := range snap.Items {
		if _, in := listed[it[0]]; !in {
			listed[it[0]] = it[1]
		}
	}
	agrees := true
	for _, p := range probe {
		v, in := listed[p.K]
		if in != p.Exist || in != p.Ok || (in && v != p.Val) {
			agrees = false
		}
	}
	probeTerm := "(expected_probe it u)"
	if !agrees {
		ps := make([]string, len(probe))
		for i, p := range probe {
			o := "None"
			if p.Ok {
				o = "(Some " + z(p.Val) + ")"
			}
			ps[i] = "pX " + z(p.K) + " " + vh.CoqBool(p.Exist) + " " + o
		}
		probeTerm = "[" + strings.Join(ps, ";") + "]"
	}
	same := len(snap.Keys) == len(snap.Items) && snap.Stats == snap.Single
	for i := 0; same && i < len(snap.Keys); i++ {
		same = snap.Keys[i] == snap.Items[i][0]
	}
	sn := "(S1 it " + quad(snap.Stats) + ")"
	if !same {
		sn = "(S2 " + zlist(snap.Keys) + " it " + quad(snap.Stats) + " " + quad(snap.Single) + ")"
	}
	// advisory, for the description: reads that disagree with the value finally present
	var replaced []string
	for j := 0; j < s.K; j++ {
		k := s.Lo + int64(j)
		fin, in := listed[k]
		for g := range obs {
			if !in || obs[g][j] == siaMiss || int64(obs[g][j]) != fin-k*64 {
				seen := "a miss"
				if obs[g][j] != siaMiss {
					seen = fmt.Sprintf("the value of goroutine %d", obs[g][j])
				}
				end := "is absent"
				if in {
					end = fmt.Sprintf("holds the value of goroutine %d", fin-k*64)
				}
				if len(replaced) < 6 {
					replaced = append(replaced, fmt.Sprintf("key %d: goroutine %d read %s right after its SetIfAbsent, at quiescence the key %s", k, g, seen, end))
				}
			}
		}
	}
	if len(replaced) > 0 || panics > 0 {
		stat.siaAnomalies++
	}
	stat.siaRounds++
	stat.burstCalls += 2 * s.NG * s.K
	itTerm := pairs(snap.Items)
	byValue := true
	for _, it := range snap.Items {
		if it[1] < 0 || it[1]>>6 != it[0] {
			byValue = false
		}
	}
	if byValue { // every listed key is value/64: write the values alone
		vs := make([]int64, len(snap.Items))
		for i, it := range snap.Items {
			vs[i] = it[1]
		}
		itTerm = "vit " + zlist(vs)
	}
	coq := fmt.Sprintf("(let u := zrange %s %d in let it : list (Z * Z) := %s in\n CSia %s %s %d u [%s] %s %s %s)%%Z",
		z(s.Lo), s.K, itTerm, coqVariant(s.Variant), z(s.Cap), s.NG, strings.Join(rows, ";\n "), vh.CoqBool(panics > 0), probeTerm, sn)
	return vh.Case{Coq: coq, Class: "sia/" + s.Variant, Nontrivial: s.NG > 1,
		Desc: map[string]interface{}{"kind": "SetIfAbsent-only burst: each goroutine does SetIfAbsent(k, k*64+g) then Get/Peek(k) for every key", "cache": s.Variant,
			"capacity": s.Cap, "goroutines": s.NG, "keys": s.K, "universe": fmt.Sprintf("%d..%d", s.Lo, s.Lo+int64(s.K)-1), "calls_that_panicked": panics,
			"reads_that_disagree_with_the_final_value(first 6)": replaced, "stats(len,size,cap,evictions)": fmt.Sprint(snap.Stats)}}
}

func genSia(rnd *rand.Rand, variant string) siaSpec {
	s := siaSpec{Variant: variant, KK: rnd.Intn(3), NG: 6 + rnd.Intn(11), Lo: int64(1 + rnd.Intn(1000)), K: 40 + rnd.Intn(41)}
	maxSz := int64(s.NG)
	if variant == "tiny" {
		maxSz = 1
	}
	s.Cap = int64(s.K)*maxSz + int64(rnd.Intn(3))
	return s
}
