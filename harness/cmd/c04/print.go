package main

import (
	"fmt"
	"strings"
)

// Coq printing.  Every case term is wrapped in ( ... )%Z, so numerals are read in Z_scope; nat-valued
// positions carry an explicit %nat.  Observations are written with the abbreviations of C04_Check.v
// (st, ws, ce, S1/S2, Q, kv, rP/rU/rM/rV/rB/rL): function application elaborates much faster than nested pairs.

func z(v int64) string {
	if v < 0 {
		return fmt.Sprintf("(%d)", v)
	}
	return fmt.Sprintf("%d", v)
}

func zlist(xs []int64) string {
	s := make([]string, len(xs))
	for i, x := range xs {
		s[i] = z(x)
	}
	return "[" + strings.Join(s, ";") + "]"
}

func pairs(xs [][2]int64) string {
	s := make([]string, len(xs))
	for i, x := range xs {
		s[i] = "kv " + z(x[0]) + " " + z(x[1])
	}
	return "[" + strings.Join(s, ";") + "]"
}

func quad(q [4]int64) string {
	return "(Q " + z(q[0]) + " " + z(q[1]) + " " + z(q[2]) + " " + z(q[3]) + ")"
}

func coqOp(o opRec) string {
	switch o.Code {
	case opGet:
		return "Get " + z(o.K)
	case opPeek:
		return "Peek " + z(o.K)
	case opExist:
		return "Exist " + z(o.K)
	case opSet:
		return "Set_ " + z(o.K) + " " + z(o.V) + " " + z(o.Sz)
	case opSetAndGetRemoved:
		return "SetAndGetRemoved " + z(o.K) + " " + z(o.V) + " " + z(o.Sz)
	case opSetIfAbsent:
		return "SetIfAbsent " + z(o.K) + " " + z(o.V) + " " + z(o.Sz)
	case opDelete:
		return "Delete " + z(o.K)
	case opClear:
		return "Clear"
	case opSetCapacity:
		return "SetCapacity " + z(o.K)
	}
	panic("coqOp: not one of the nine operations")
}

func coqWop(o opRec) string {
	switch o.Code {
	case opGet:
		return "WGet " + z(o.K)
	case opPeek:
		return "WPeek " + z(o.K)
	case opExist:
		return "WExist " + z(o.K)
	case opSet:
		return "WSet " + z(o.K) + " " + z(o.V) + " " + z(o.Sz)
	case opDelete:
		return "WDelete " + z(o.K)
	}
	panic("coqWop: not a facade operation")
}

func coqCop(o opRec) string {
	switch o.Code {
	case opKeys:
		return "CKeys"
	case opItems:
		return "CItems"
	case opStats:
		return "CStats"
	case opLen:
		return "CLen"
	case opSize:
		return "CSize"
	case opCap:
		return "CCap"
	case opEvs:
		return "CEvs"
	}
	return "COp (" + coqOp(o) + ")"
}

// gout
func coqOut(r outcome) string {
	if r.Panic {
		return "rP"
	}
	switch r.Kind {
	case rkVal:
		if r.Ok {
			return "(rV " + z(r.Val) + ")"
		}
		return "rM"
	case rkBool:
		if r.B {
			return "(rB true)"
		}
		return "(rB false)"
	case rkUnit:
		return "rU"
	case rkList:
		return "(rL " + zlist(r.List) + ")"
	}
	panic("coqOut: accessor outcome")
}

func coqCres(r outcome) string {
	if !r.Panic {
		switch r.Kind {
		case rkKeys:
			return "CRKeys " + zlist(r.List)
		case rkItems:
			return "CRItems " + pairs(r.Items)
		case rkStats:
			return "CRStats " + quad(r.Stats)
		case rkNum:
			return "CRNum " + z(r.Val)
		}
	}
	return "CRes " + coqOut(r)
}

// S1 when Keys() lists exactly the keys of Items() and the single accessors repeat Stats(); S2 spells all four out
func coqSnap(s snapshot) string {
	same := len(s.Keys) == len(s.Items) && s.Stats == s.Single
	if same {
		for i := range s.Keys {
			if s.Keys[i] != s.Items[i][0] {
				same = false
				break
			}
		}
	}
	if same {
		return "(S1 " + pairs(s.Items) + " " + quad(s.Stats) + ")"
	}
	return "(S2 " + zlist(s.Keys) + " " + pairs(s.Items) + " " + quad(s.Stats) + " " + quad(s.Single) + ")"
}

func coqVariant(v string) string {
	if v == "tiny" {
		return "VTiny"
	}
	return "VStd"
}

// ---- readable forms for replays / evidence samples ----

func descOp(o opRec) string {
	if o.F != 0 {
		what := []string{"", "Set(%d, value whose Size() panics)", "SetAndGetRemoved(%d, value whose Size() panics)", "Set(%d, nil Value)"}[o.F]
		return fmt.Sprintf("[recovered from a panicking "+what+"] then Peek(%d)", o.K, o.K)
	}
	switch o.Code {
	case opGet, opPeek, opExist, opDelete:
		return fmt.Sprintf("%s(%d)", opNames[o.Code], o.K)
	case opSet, opSetAndGetRemoved, opSetIfAbsent:
		return fmt.Sprintf("%s(%d,v%d,size=%d)", opNames[o.Code], o.K, o.V, o.Sz)
	case opSetCapacity:
		return fmt.Sprintf("SetCapacity(%d)", o.K)
	}
	return opNames[o.Code] + "()"
}

func descOut(r outcome) string {
	if r.Panic {
		return "PANIC"
	}
	switch r.Kind {
	case rkVal:
		if r.Ok {
			return fmt.Sprintf("v%d", r.Val)
		}
		return "miss"
	case rkBool:
		return fmt.Sprintf("%v", r.B)
	case rkUnit:
		return "-"
	case rkList, rkKeys:
		return fmt.Sprintf("%v", r.List)
	case rkItems:
		return fmt.Sprintf("%v", r.Items)
	case rkStats:
		return fmt.Sprintf("%v", r.Stats)
	case rkNum:
		return fmt.Sprintf("%d", r.Val)
	}
	return "?"
}

func descSnap(s snapshot) string {
	return fmt.Sprintf("keys=%v items=%v stats(len,size,cap,evictions)=%v single=%v", s.Keys, s.Items, s.Stats, s.Single)
}
