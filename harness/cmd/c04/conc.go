package main

import (
	"fmt"
	"runtime"
	"sort"
	"strings"
	"sync"
	"sync/atomic"
)

// Concurrent runs.  T goroutines issue calls on one shared cache; every call is stamped with an invocation and
// a response tick from one global atomic counter.  Each public method is one critical section, so some total
// order of the calls that respects real time explains every result.  The harness finds such an order by search
// on its own (untrusted) reference LRU and emits the events in that order; Coq re-checks the order against the
// ticks (rt_ok) and replays it on the model (case_accept) and on the ideal LRU (case_holds).  If the exhaustive
// search finds no order, the events are emitted in invocation order, which case_holds then rejects.

type cevent struct {
	Th        int
	Inv, Resp int64
	Op        opRec
	Res       outcome
}

// ---- reference LRU used only to guide the search -------------------------------------------

type refEnt struct{ k, v, sz int64 }
type refLRU struct {
	l    []refEnt // most recently used first
	cap  int64
	evs  int64
	tiny bool
}

func (r *refLRU) clone() *refLRU {
	c := *r
	c.l = append([]refEnt(nil), r.l...)
	return &c
}
func (r *refLRU) find(k int64) int {
	for i, e := range r.l {
		if e.k == k {
			return i
		}
	}
	return -1
}
func (r *refLRU) total() int64 {
	var t int64
	for _, e := range r.l {
		t += e.sz
	}
	return t
}
func (r *refLRU) toFront(i int) {
	e := r.l[i]
	copy(r.l[1:i+1], r.l[0:i])
	r.l[0] = e
}
func (r *refLRU) trim() []int64 {
	var removed []int64
	for r.total() > r.cap && len(r.l) > 0 {
		last := r.l[len(r.l)-1]
		r.l = r.l[:len(r.l)-1]
		r.evs++
		removed = append(removed, last.v)
	}
	return removed
}
func (r *refLRU) set(k, v, sz int64) []int64 {
	if r.tiny {
		sz = 1
	}
	if i := r.find(k); i >= 0 {
		r.l = append(r.l[:i], r.l[i+1:]...)
	}
	r.l = append([]refEnt{{k, v, sz}}, r.l...)
	return r.trim()
}

func (r *refLRU) apply(o opRec) outcome {
	switch o.Code {
	case opGet:
		if i := r.find(o.K); i >= 0 {
			r.toFront(i)
			return outcome{Kind: rkVal, Ok: true, Val: r.l[0].v}
		}
		return outcome{Kind: rkVal}
	case opPeek:
		if i := r.find(o.K); i >= 0 {
			return outcome{Kind: rkVal, Ok: true, Val: r.l[i].v}
		}
		return outcome{Kind: rkVal}
	case opExist:
		return outcome{Kind: rkBool, B: r.find(o.K) >= 0}
	case opSet:
		r.set(o.K, o.V, o.Sz)
		return outcome{Kind: rkUnit}
	case opSetAndGetRemoved:
		return outcome{Kind: rkList, List: r.set(o.K, o.V, o.Sz)}
	case opSetIfAbsent:
		if i := r.find(o.K); i >= 0 {
			r.toFront(i)
		} else {
			r.set(o.K, o.V, o.Sz)
		}
		return outcome{Kind: rkUnit}
	case opDelete:
		if i := r.find(o.K); i >= 0 {
			r.l = append(r.l[:i], r.l[i+1:]...)
			return outcome{Kind: rkBool, B: true}
		}
		return outcome{Kind: rkBool}
	case opClear:
		r.l = nil
		return outcome{Kind: rkUnit}
	case opSetCapacity:
		r.cap = o.K
		r.trim()
		return outcome{Kind: rkUnit}
	case opKeys:
		ks := make([]int64, len(r.l))
		for i, e := range r.l {
			ks[i] = e.k
		}
		return outcome{Kind: rkKeys, List: ks}
	case opItems:
		it := make([][2]int64, len(r.l))
		for i, e := range r.l {
			it[i] = [2]int64{e.k, e.v}
		}
		return outcome{Kind: rkItems, Items: it}
	case opStats:
		return outcome{Kind: rkStats, Stats: [4]int64{int64(len(r.l)), r.total(), r.cap, r.evs}}
	case opLen:
		return outcome{Kind: rkNum, Val: int64(len(r.l))}
	case opSize:
		return outcome{Kind: rkNum, Val: r.total()}
	case opCap:
		return outcome{Kind: rkNum, Val: r.cap}
	case opEvs:
		return outcome{Kind: rkNum, Val: r.evs}
	}
	panic("refLRU: unknown op")
}

func (r *refLRU) key() string {
	var sb strings.Builder
	fmt.Fprintf(&sb, "%d/%d", r.cap, r.evs)
	for _, e := range r.l {
		fmt.Fprintf(&sb, "|%d,%d,%d", e.k, e.v, e.sz)
	}
	return sb.String()
}

func sameOutcome(a, b outcome) bool {
	if a.Panic != b.Panic || a.Kind != b.Kind {
		return a.Panic && b.Panic
	}
	switch a.Kind {
	case rkVal:
		return a.Ok == b.Ok && (!a.Ok || a.Val == b.Val)
	case rkBool:
		return a.B == b.B
	case rkUnit:
		return true
	case rkList, rkKeys:
		if len(a.List) != len(b.List) {
			return false
		}
		for i := range a.List {
			if a.List[i] != b.List[i] {
				return false
			}
		}
		return true
	case rkItems:
		if len(a.Items) != len(b.Items) {
			return false
		}
		for i := range a.Items {
			if a.Items[i] != b.Items[i] {
				return false
			}
		}
		return true
	case rkStats:
		return a.Stats == b.Stats
	case rkNum:
		return a.Val == b.Val
	}
	return false
}

// linearize searches an order of all events that respects real time and that the reference LRU reproduces
// (including the final snapshot).  exceeded = the node budget ran out before the search space was exhausted.
func linearize(threads [][]cevent, init *refLRU, final snapshot, budget int) (order []cevent, found bool, exceeded bool) {
	pos := make([]int, len(threads))
	total := 0
	for _, t := range threads {
		total += len(t)
	}
	seen := map[string]bool{}
	nodes := 0
	var rec func(st *refLRU, acc []cevent) bool
	rec = func(st *refLRU, acc []cevent) bool {
		if len(acc) == total {
			ks := st.apply(opRec{Code: opKeys})
			it := st.apply(opRec{Code: opItems})
			sq := st.apply(opRec{Code: opStats})
			if sameOutcome(ks, outcome{Kind: rkKeys, List: final.Keys}) && sameOutcome(it, outcome{Kind: rkItems, Items: final.Items}) &&
				sq.Stats == final.Stats && sq.Stats == final.Single {
				order = append([]cevent(nil), acc...)
				return true
			}
			return false
		}
		nodes++
		if nodes > budget {
			exceeded = true
			return false
		}
		k := fmt.Sprint(pos) + st.key()
		if seen[k] {
			return false
		}
		seen[k] = true
		// the earliest response among the pending calls: nothing invoked after it may be placed first
		minResp := int64(1) << 62
		for t, p := range pos {
			if p < len(threads[t]) && threads[t][p].Resp < minResp {
				minResp = threads[t][p].Resp
			}
		}
		for t, p := range pos {
			if p >= len(threads[t]) {
				continue
			}
			e := threads[t][p]
			if e.Inv > minResp {
				continue
			}
			st2 := st.clone()
			if !sameOutcome(st2.apply(e.Op), e.Res) {
				continue
			}
			pos[t]++
			ok := rec(st2, append(acc, e))
			pos[t]--
			if ok {
				return true
			}
			if exceeded {
				return false
			}
		}
		return false
	}
	found = rec(init.clone(), nil)
	return
}

// runConc executes the per-thread programs concurrently on the real cache.
func runConc(c lruAPI, progs [][]opRec, yields [][]int) (threads [][]cevent, final snapshot) {
	var tick int64
	threads = make([][]cevent, len(progs))
	// one spin barrier per round: the r-th calls of all goroutines are released together, so that calls really
	// overlap in time; yields add jitter.  (The barrier only shapes the schedule; nothing is inferred from it.)
	maxLen := 0
	for _, p := range progs {
		if len(p) > maxLen {
			maxLen = len(p)
		}
	}
	arrived := make([]int32, maxLen)
	need := make([]int32, maxLen)
	for _, p := range progs {
		for r := range p {
			need[r]++
		}
	}
	var wg sync.WaitGroup
	for t := range progs {
		wg.Add(1)
		go func(t int) {
			defer wg.Done()
			evs := make([]cevent, 0, len(progs[t]))
			for i, o := range progs[t] {
				atomic.AddInt32(&arrived[i], 1)
				for spins := 0; atomic.LoadInt32(&arrived[i]) < need[i]; spins++ {
					if spins > 2000 {
						runtime.Gosched() // fewer processors than goroutines: let the others arrive
					}
				}
				for y := 0; y < yields[t][i]*8; y++ {
					atomic.LoadInt64(&tick) // a few nanoseconds of jitter
				}
				inv := atomic.AddInt64(&tick, 1)
				res := doOp(c, o)
				resp := atomic.AddInt64(&tick, 1)
				evs = append(evs, cevent{Th: t, Inv: inv, Resp: resp, Op: o, Res: res})
			}
			threads[t] = evs
		}(t)
	}
	wg.Wait()
	final = takeSnap(c)
	return
}

// overlaps counts pairs of calls of different goroutines whose [inv, resp] intervals intersect
func overlaps(threads [][]cevent) int {
	n := 0
	for a := range threads {
		for b := a + 1; b < len(threads); b++ {
			for _, x := range threads[a] {
				for _, y := range threads[b] {
					if x.Inv < y.Resp && y.Inv < x.Resp {
						n++
					}
				}
			}
		}
	}
	return n
}

func byInvocation(threads [][]cevent) []cevent {
	var all []cevent
	for _, t := range threads {
		all = append(all, t...)
	}
	sort.Slice(all, func(i, j int) bool { return all[i].Inv < all[j].Inv })
	return all
}
