package main

import (
	"fmt"
	"math/rand"
	"runtime"
	"strings"
	"sync"
	"sync/atomic"

	"verifharness/vh"
)

// Stats() under concurrent writers.  Writers Set / SetIfAbsent / SetAndGetRemoved / Delete items that all have the same
// size c on a small cache; readers call Stats() in a loop until every writer has returned and record the distinct answers.
// Stats() is one critical section, so each answer is a state of the cache: Size = c * Length <= Capacity, the capacity is
// the constructor's, the eviction counter never decreases.  An answer assembled from several critical sections need not
// be a state at all.

type statSpec struct {
	Variant string `json:"variant"`
	Cap     int64  `json:"cap"`
	KK      int    `json:"kk"`
	C       int64  `json:"c"`
	NW      int    `json:"nw"`
	NR      int    `json:"nr"`
	Lo      int64  `json:"lo"`
	NK      int    `json:"nk"`
	Ops     int    `json:"ops"`
	Seed    int64  `json:"seed"`
}

const statKeep = 48 // distinct answers kept per reader

func runStat(s statSpec) (reads [][][4]int64, snap snapshot, panics int32) {
	c := newLRU(s.Variant, s.Cap, s.KK, false)
	var ready, done int32
	var wg sync.WaitGroup
	start := func() {
		atomic.AddInt32(&ready, 1)
		for spins := 0; atomic.LoadInt32(&ready) < int32(s.NW+s.NR); spins++ {
			if spins > 2000 {
				runtime.Gosched()
			}
		}
	}
	for w := 0; w < s.NW; w++ {
		wg.Add(1)
		go func(w int) {
			defer wg.Done()
			defer atomic.AddInt32(&done, 1)
			defer func() {
				if r := recover(); r != nil {
					atomic.AddInt32(&panics, 1)
				}
			}()
			rnd := rand.New(rand.NewSource(s.Seed + int64(w)))
			start()
			for i := 0; i < s.Ops; i++ {
				k := s.Lo + int64(rnd.Intn(s.NK))
				beat()
				v := k*64 + int64(w)
				switch r := rnd.Intn(10); {
				case r < 4:
					c.Set(k, v, s.C)
				case r < 6:
					c.SetAndGetRemoved(k, v, s.C)
				case r < 7:
					c.SetIfAbsent(k, v, s.C)
				default:
					c.Delete(k)
				}
			}
		}(w)
	}
	reads = make([][][4]int64, s.NR)
	for r := 0; r < s.NR; r++ {
		wg.Add(1)
		go func(r int) {
			defer wg.Done()
			defer func() {
				if x := recover(); x != nil {
					atomic.AddInt32(&panics, 1)
				}
			}()
			start()
			var last [4]int64
			first := true
			bad := 0
			for atomic.LoadInt32(&done) < int32(s.NW) {
				st := c.Stats()
				if !first && st == last {
					continue
				}
				first, last = false, st
				consistent := st[1] == remUnit(s.Variant, s.C)*st[0]
				// keep every inconsistent answer (up to a few) and a sample of the consistent ones
				if !consistent && bad < 4 {
					bad++
					reads[r] = append(reads[r], st)
				} else if consistent && len(reads[r]) < statKeep {
					reads[r] = append(reads[r], st)
				}
			}
		}(r)
	}
	wg.Wait()
	snap = takeSnap(c)
	return
}

func remUnit(variant string, c int64) int64 {
	if variant == "tiny" {
		return 1
	}
	return c
}

func statCase(s statSpec) vh.Case {
	reads, snap, panics := runStat(s)
	rs := make([]string, len(reads))
	var torn []string
	n := 0
	for r, l := range reads {
		qs := make([]string, len(l))
		for i, st := range l {
			qs[i] = quad(st)
			n++
			if st[1] != remUnit(s.Variant, s.C)*st[0] && len(torn) < 4 {
				torn = append(torn, fmt.Sprintf("reader %d: Stats() = (length %d, size %d, capacity %d, evictions %d) although every item has size %d", r, st[0], st[1], st[2], st[3], remUnit(s.Variant, s.C)))
			}
		}
		rs[r] = "[" + strings.Join(qs, ";") + "]"
	}
	if len(torn) > 0 || panics > 0 {
		stat.statAnomalies++
	}
	stat.statRounds++
	stat.statReads += n
	coq := fmt.Sprintf("(CStat %s %s %d [%s] %s %s)%%Z", coqVariant(s.Variant), z(s.Cap), s.C, strings.Join(rs, ";\n "), vh.CoqBool(panics > 0), coqSnap(snap))
	return vh.Case{Coq: coq, Class: "stats/" + s.Variant, Nontrivial: n > 1,
		Desc: map[string]interface{}{"kind": "Stats() read concurrently with writers; every item has the same size", "cache": s.Variant, "capacity": s.Cap, "item_size": remUnit(s.Variant, s.C),
			"writers": s.NW, "readers": s.NR, "calls_per_writer": s.Ops, "distinct_answers_kept": n, "answers_that_are_no_state_of_the_cache(first 4)": torn, "calls_that_panicked": panics,
			"final": descSnap(snap)}}
}

func genStat(rnd *rand.Rand, variant string) statSpec {
	c := int64(1 + rnd.Intn(3))
	nk := 4 + rnd.Intn(8)
	return statSpec{Variant: variant, C: c, Cap: c*int64(2+rnd.Intn(nk)) + int64(rnd.Intn(int(c))), KK: rnd.Intn(3), NW: 1 + rnd.Intn(3), NR: 1 + rnd.Intn(2),
		Lo: int64(1 + rnd.Intn(1000)), NK: nk, Ops: 1500 + rnd.Intn(1500), Seed: rnd.Int63n(1 << 40)}
}
