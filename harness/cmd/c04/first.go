package main

import (
	"fmt"
	"math/rand"
	"runtime"
	"strings"
	"sync"
	"sync/atomic"

	"github.com/pinealctx/neptune/remap"
	"verifharness/vh"
)

// First touches of fresh wide caches.  One case = a batch of trials with the same parameters.  In every trial a NEW wide
// cache is built and ng goroutines, released together by a spin barrier, each issue one call on their own key: Set (value
// key*64+j) or a read (Get / Peek / Exist).  Most keys map to the same shard, the rest to other shards; every shard can hold
// all the items Set into it.  After all goroutines have returned (WaitGroup) every key is probed with Exist and Peek.
// Whatever the schedule, exactly the keys that were Set are present with their values: the trial's mask of present keys
// must be the mask of the Set calls.  The batch is reported run-length encoded and evaluated in Coq (first_ok).

type firstSpec struct {
	Variant string  `json:"variant"`
	XHash   bool    `json:"xhash"`
	N       uint64  `json:"n"`
	Cap     int64   `json:"cap"`
	KK      int     `json:"kk"`
	Keys    []int64 `json:"keys"`
	Sizes   []int64 `json:"sizes"`
	Codes   []int   `json:"codes"` // 1 Set, 2 Get, 5 Peek, 6 Exist
	Trials  int     `json:"trials"`
}

func runFirstTrial(s firstSpec, arrived *int32) (mask int64, panicked bool) {
	c := newWide(s.Variant, s.XHash, s.Cap, s.N, s.KK)
	ng := len(s.Keys)
	atomic.StoreInt32(arrived, 0)
	var panics int32
	var wg sync.WaitGroup
	for j := 0; j < ng; j++ {
		wg.Add(1)
		go func(j int) {
			defer wg.Done()
			defer func() {
				if r := recover(); r != nil {
					atomic.AddInt32(&panics, 1)
				}
			}()
			k := s.Keys[j]
			atomic.AddInt32(arrived, 1)
			for spins := 0; atomic.LoadInt32(arrived) < int32(ng); spins++ {
				if spins > 2000 {
					runtime.Gosched()
				}
			}
			switch s.Codes[j] {
			case 1:
				c.Set(k, k*64+int64(j), s.Sizes[j])
			case 2:
				c.Get(k)
			case 5:
				c.Peek(k)
			default:
				c.Exist(k)
			}
		}(j)
	}
	wg.Wait()
	for j, k := range s.Keys {
		r := doWideOp(c, opRec{Code: opPeek, K: k})
		x := doWideOp(c, opRec{Code: opExist, K: k})
		if r.Panic || x.Panic {
			return -1, true
		}
		if r.Ok != x.B || (r.Ok && r.Val != k*64+int64(j)) {
			return -1, panics > 0
		}
		if r.Ok {
			mask |= 1 << uint(j)
		}
	}
	return mask, panics > 0
}

func firstCase(s firstSpec) vh.Case {
	var arrived int32
	type run struct{ mask, n int64 }
	var rle []run
	panicked := false
	var expected int64
	for j, c := range s.Codes {
		if c == 1 {
			expected |= 1 << uint(j)
		}
	}
	bad := 0
	firstBad := ""
	for t := 0; t < s.Trials; t++ {
		m, p := runFirstTrial(s, &arrived)
		panicked = panicked || p
		if m != expected {
			bad++
			if firstBad == "" {
				var lost []int64
				for j, k := range s.Keys {
					if expected&(1<<uint(j)) != 0 && (m < 0 || m&(1<<uint(j)) == 0) {
						lost = append(lost, k)
					}
				}
				firstBad = fmt.Sprintf("trial %d: keys %v were Set (every shard can hold all its items) but are not in the cache afterwards (mask %d, expected %d)", t, lost, m, expected)
			}
		}
		if len(rle) > 0 && rle[len(rle)-1].mask == m {
			rle[len(rle)-1].n++
		} else {
			rle = append(rle, run{m, 1})
		}
	}
	if bad > 0 {
		stat.firstAnomalies++
	}
	stat.firstTrials += s.Trials
	stat.firstBatches++
	oc := make([]string, len(rle))
	for i, r := range rle {
		oc[i] = "(" + z(r.mask) + "," + z(r.n) + ")"
	}
	tab := "None"
	if s.XHash || s.KK != kkInt64 {
		r := remap.NewReMap(remap.WithPrime(s.N))
		ent := make([]string, len(s.Keys))
		for i, k := range s.Keys {
			ent[i] = fmt.Sprintf("(%s,%d%%nat)", z(k), r.XHashIndex(mkKey(s.KK, k)))
		}
		tab = "(Some [" + strings.Join(ent, ";") + "])"
	}
	codes := make([]int64, len(s.Codes))
	for i, c := range s.Codes {
		codes[i] = int64(c)
	}
	route := "simple"
	if s.XHash {
		route = "xhash"
	}
	coq := fmt.Sprintf("(CFirst %s %s %d %s %s %s %s [%s] %s)%%Z", coqVariant(s.Variant), z(s.Cap), s.N, tab, zlist(s.Keys), zlist(s.Sizes), zlist(codes),
		strings.Join(oc, ";"), vh.CoqBool(panicked))
	d := map[string]interface{}{"kind": "first touches of fresh wide caches: one call per goroutine at the same instant, probed after all returned", "cache": s.Variant,
		"xhash": s.XHash, "shards": s.N, "capacity": s.Cap, "per_shard_capacity": s.Cap/int64(s.N) + 1, "keys": s.Keys, "sizes": s.Sizes,
		"calls(1 Set 2 Get 5 Peek 6 Exist)": s.Codes, "trials": s.Trials, "trials_with_a_wrong_final_state": bad}
	if firstBad != "" {
		d["first_wrong_trial"] = firstBad
	}
	b := s
	return vh.Case{Coq: coq, Class: "first/" + s.Variant + "/" + route, Nontrivial: len(s.Keys) > 1, Desc: d,
		Replay: spec{Kind: "first", First: &b}.replayArg()}
}

func genFirst(rnd *rand.Rand, variant string, xhash bool, trials int) firstSpec {
	s := firstSpec{Variant: variant, XHash: xhash, KK: kkInt64, Trials: trials}
	if rnd.Intn(4) == 0 {
		s.KK = kkString
	}
	s.N = uint64(pick(rnd, []int64{2, 3, 3, 5, 7, 73, 211}))
	if s.N > 7 {
		s.Trials = trials / 8 // building hundreds of shards per trial is slower
	}
	ng := 4 + rnd.Intn(9)
	// keys: about two thirds in one shard, the rest spread
	r := remap.NewReMap(remap.WithPrime(s.N))
	idx := func(k int64) int {
		if !xhash && s.KK == kkInt64 {
			return int(uint64(k) % s.N)
		}
		return r.XHashIndex(mkKey(s.KK, k))
	}
	start := int64(1 + rnd.Intn(1000))
	target := idx(start)
	same := ng*2/3 + 1
	for k := start; len(s.Keys) < ng && k < start+200000; k++ {
		if in := idx(k) == target; (in && same > 0) || (!in && len(s.Keys)+same < ng) {
			s.Keys = append(s.Keys, k)
			if in {
				same--
			}
		}
	}
	rnd.Shuffle(len(s.Keys), func(a, b int) { s.Keys[a], s.Keys[b] = s.Keys[b], s.Keys[a] })
	var total int64
	for range s.Keys {
		sz := int64(1)
		if variant != "tiny" {
			sz = pick(rnd, []int64{1, 1, 2, 3})
		}
		s.Sizes = append(s.Sizes, sz)
		total += sz
		c := 1
		if rnd.Intn(100) < 15 {
			c = []int{2, 5, 6}[rnd.Intn(3)]
		}
		s.Codes = append(s.Codes, c)
	}
	s.Cap = int64(s.N) * total // capacity/n + 1 > total: every shard holds everything
	return s
}
