// Command c04 is the correspondence harness of property C04 (LRU caches).
//
// It drives the real cache.LRUCache, cache/tiny.LRUCache and the four wide constructors of /repo with generated
// histories and emits one case per history:
//
//	seq/<variant>/<class>   sequential history of the nine operations; after every call the outcome (or PANIC)
//	                        and Keys(), Items(), Stats(), Length(), Size(), Capacity(), Evictions()
//	wide/<variant>/<route>  history through a wide facade (Get, Peek, Exist, Set, Delete) with any shard count;
//	                        after every call the outcome and a Peek of every key of the universe
//	conc/<variant>          calls issued concurrently by several goroutines, linearised (see conc.go)
//
// Coq evaluates case_accept (machine-level model) and case_holds (ideal LRU) on every case.
package main

import (
	"encoding/json"
	"fmt"
	"math"
	"math/rand"
	"sort"
	"strings"
	"sync"
	"sync/atomic"
	"time"

	"github.com/pinealctx/neptune/remap"
	"verifharness/vh"
)

// ---- specs (what -replay re-runs) -----------------------------------------------------------

type spec struct {
	Kind     string     `json:"kind"` // seq | wide | conc
	Variant  string     `json:"variant"`
	Class    string     `json:"class"`
	Cap      int64      `json:"cap"`
	KK       int        `json:"kk"`
	Facade   bool       `json:"facade,omitempty"`
	Ops      []opRec    `json:"ops,omitempty"`
	N        uint64     `json:"n,omitempty"`     // wide: shard count
	XHash    bool       `json:"xhash,omitempty"` // wide: the XHash constructor
	Univ     []int64    `json:"univ,omitempty"`  // wide: keys probed after every call
	Progs    [][]opRec  `json:"progs,omitempty"` // conc: one program per goroutine
	Yields   [][]int    `json:"yields,omitempty"`
	Attempts int        `json:"attempts,omitempty"`
	Burst    *burstSpec `json:"burst,omitempty"` // kind = burst
	Sia      *siaSpec   `json:"sia,omitempty"`   // kind = sia
	Rem      *remSpec   `json:"rem,omitempty"`   // kind = rem
	Stat     *statSpec  `json:"stat,omitempty"`  // kind = stat
	First    *firstSpec `json:"first,omitempty"` // kind = first
	Churn    *churnSpec `json:"churn,omitempty"` // kind = churn
}

func (s spec) replayArg() string {
	b, _ := json.Marshal(s)
	return string(b)
}

// ---- sequential histories -------------------------------------------------------------------------

type seqGen struct {
	rnd     *rand.Rand
	variant string
	class   string
	nk      int64
	cap0    int64
	nextVal int64
	weights [9]int
	sizes   map[int64]int64 // size given with the last Set of a key (generator's own bookkeeping, only for bias)
}

var classWeights = map[string][9]int{
	//            Get Peek Exist Set SAGR SIA Del Clear SetCap
	"mix":       {14, 8, 6, 22, 14, 10, 10, 2, 6},
	"evict":     {10, 4, 3, 34, 26, 12, 5, 1, 5},
	"inplace":   {8, 4, 2, 38, 30, 5, 5, 1, 7},
	"resize":    {8, 4, 3, 24, 14, 8, 6, 2, 31},
	"recency":   {24, 14, 9, 18, 10, 16, 5, 1, 3},
	"malformed": {10, 5, 4, 28, 18, 10, 8, 2, 15},
	"fault":     {10, 6, 3, 30, 22, 10, 6, 1, 5},
}

func maxI64(a, b int64) int64 {
	if a > b {
		return a
	}
	return b
}

var seqClasses = []string{"mix", "evict", "inplace", "resize", "recency", "malformed"}

func pick(rnd *rand.Rand, xs []int64) int64 { return xs[rnd.Intn(len(xs))] }

func newSeqGen(rnd *rand.Rand, variant, class string) *seqGen {
	g := &seqGen{rnd: rnd, variant: variant, class: class, nextVal: 10, sizes: map[int64]int64{}}
	g.weights = classWeights[class]
	switch class {
	case "evict":
		g.cap0 = pick(rnd, []int64{1, 2, 3, 4, 5, 6})
		g.nk = g.cap0 + 2 + int64(rnd.Intn(3))
	case "inplace":
		g.cap0 = pick(rnd, []int64{2, 3, 4, 5, 7, 10})
		g.nk = 2 + int64(rnd.Intn(3))
	case "resize":
		g.cap0 = pick(rnd, []int64{0, 2, 4, 6, 8, 12})
		g.nk = 4 + int64(rnd.Intn(5))
	case "recency":
		g.cap0 = pick(rnd, []int64{2, 3, 4, 5})
		g.nk = g.cap0 + 1 + int64(rnd.Intn(2))
	case "malformed":
		g.cap0 = pick(rnd, []int64{-1, -3, 0, 2, 5, 10, math.MaxInt64, math.MaxInt64 - 1, 1<<62 - 1, 1 << 62})
		g.nk = 3 + int64(rnd.Intn(3))
	default:
		g.cap0 = pick(rnd, []int64{0, 1, 2, 3, 4, 5, 6, 8, 10, 15})
		g.nk = 2 + int64(rnd.Intn(7))
	}
	return g
}

func (g *seqGen) key(live lruAPI, wantPresent bool) int64 {
	ks := live.Keys()
	if wantPresent && len(ks) > 0 && g.rnd.Intn(100) < 75 {
		// bias to the ends of the recency list: the entry about to be evicted, and the most recent one
		switch g.rnd.Intn(4) {
		case 0:
			return ks[len(ks)-1]
		case 1:
			return ks[0]
		}
		return ks[g.rnd.Intn(len(ks))]
	}
	if !wantPresent && g.rnd.Intn(100) < 60 {
		// an absent key if there is one
		present := map[int64]bool{}
		for _, k := range ks {
			present[k] = true
		}
		var absent []int64
		for k := int64(1); k <= g.nk; k++ {
			if !present[k] {
				absent = append(absent, k)
			}
		}
		if len(absent) > 0 {
			return pick(g.rnd, absent)
		}
	}
	return 1 + g.rnd.Int63n(g.nk)
}

func (g *seqGen) size(live lruAPI, k int64) int64 {
	if g.variant == "tiny" {
		return 1
	}
	cp := live.Capacity()
	sz := live.Size()
	old, had := g.sizes[k]
	if !had || !live.Exist(k) {
		old = 0
	}
	room := cp - (sz - old) // the size that makes the cache exactly full
	r := g.rnd.Intn(100)
	switch g.class {
	case "recency":
		return 1
	case "malformed":
		if r < 45 {
			return pick(g.rnd, []int64{-1, -2, -cp, -5, math.MaxInt64, math.MaxInt64 - 1, math.MaxInt64 - cp, math.MaxInt64 - sz,
				1 << 62, 1<<62 - 1, 1<<62 - 2, 1<<62 + 1, math.MinInt64, math.MinInt64 + 1})
		}
	case "inplace":
		if r < 55 {
			return clamp0(room + int64(g.rnd.Intn(3)) - 1)
		}
	}
	switch {
	case r < 50:
		return pick(g.rnd, []int64{1, 1, 1, 2, 2, 0, 3})
	case r < 75:
		return clamp0(room + int64(g.rnd.Intn(3)) - 1)
	default:
		return clamp0(pick(g.rnd, []int64{cp - 1, cp, cp + 1, cp / 2, 2 * cp, 3*cp + 1, cp + 2}))
	}
}

func sameInts(a, b []int64) bool {
	if len(a) != len(b) {
		return false
	}
	for i := range a {
		if a[i] != b[i] {
			return false
		}
	}
	return true
}

func clamp0(x int64) int64 {
	if x < 0 {
		return 0
	}
	return x
}

func (g *seqGen) capacity(live lruAPI) int64 {
	cp := live.Capacity()
	sz := live.Size()
	ln := live.Length()
	if g.class == "malformed" && g.rnd.Intn(100) < 40 {
		return pick(g.rnd, []int64{-1, -2, -sz, math.MaxInt64, 1<<62 - 1, 1 << 62, 0})
	}
	r := g.rnd.Intn(100)
	switch {
	case r < 35:
		return clamp0(sz + int64(g.rnd.Intn(5)) - 3) // just below / at / above the current size
	case r < 55 && sz > 0 && sz < 1<<40:
		return g.rnd.Int63n(sz + 1) // shrink by several entries
	case r < 65:
		return 0
	case r < 75:
		return clamp0(ln + int64(g.rnd.Intn(3)) - 1)
	default:
		return clamp0(cp + int64(g.rnd.Intn(9)) - 4)
	}
}

func (g *seqGen) next(live lruAPI) opRec {
	tot := 0
	for _, w := range g.weights {
		tot += w
	}
	x := g.rnd.Intn(tot)
	code := 0
	for i, w := range g.weights {
		if x < w {
			code = i
			break
		}
		x -= w
	}
	switch code {
	case opGet, opPeek, opExist, opDelete:
		return opRec{Code: code, K: g.key(live, true)}
	case opSet, opSetAndGetRemoved, opSetIfAbsent:
		wantPresent := g.rnd.Intn(100) < 40
		if g.class == "inplace" {
			wantPresent = g.rnd.Intn(100) < 75
		}
		if g.class == "evict" {
			wantPresent = g.rnd.Intn(100) < 20
		}
		k := g.key(live, wantPresent)
		g.nextVal++
		sz := g.size(live, k)
		if code != opSetIfAbsent || !live.Exist(k) {
			g.sizes[k] = sz
		}
		return opRec{Code: code, K: k, V: g.nextVal, Sz: sz}
	case opClear:
		return opRec{Code: opClear}
	}
	return opRec{Code: opSetCapacity, K: g.capacity(live)}
}

type seqStep struct {
	Op   opRec
	Out  outcome
	Snap snapshot
}

// runSeq executes the operation list on a fresh real cache.  The caller keeps (without copying) every non-empty removed
// list and the Keys() / Items() slices of every fourth step, and re-reads them when the history is over.
func runSeq(s spec) ([]seqStep, []heldSlice) {
	c := newLRU(s.Variant, s.Cap, s.KK, s.Facade)
	steps := make([]seqStep, 0, len(s.Ops))
	for i, o := range s.Ops {
		if o.F != 0 {
			if pk, appl := faultCall(c, o); appl && !pk {
				stat.faultsNotPanicking++
			} else if appl {
				stat.faults++
			}
		}
		c.Hold(true, false)
		out := doOp(c, o)
		c.Hold(false, i%4 == 1)
		steps = append(steps, seqStep{o, out, takeSnap(c)})
	}
	return steps, c.Held()
}

func seqCase(s spec, steps []seqStep, held []heldSlice) vh.Case {
	parts := make([]string, len(steps))
	desc := make([]string, len(steps))
	hit, evicted := false, false
	for i, st := range steps {
		parts[i] = "st (" + coqOp(st.Op) + ") " + coqOut(st.Out) + " " + coqSnap(st.Snap)
		desc[i] = descOp(st.Op) + " -> " + descOut(st.Out) + " ; " + descSnap(st.Snap)
		if (st.Op.Code == opGet || st.Op.Code == opPeek) && st.Out.Ok {
			hit = true
		}
		if st.Snap.Stats[3] > 0 {
			evicted = true
		}
	}
	hs := make([]string, len(held))
	var changed []string
	for i, h := range held {
		if sameInts(h.AtReturn, h.Now) {
			hs[i] = "hq " + zlist(h.AtReturn)
		} else {
			hs[i] = "hp " + zlist(h.AtReturn) + " " + zlist(h.Now)
			changed = append(changed, fmt.Sprintf("a slice returned by %s held %v when the call returned and holds %v after the history", h.What, h.AtReturn, h.Now))
		}
	}
	stat.heldSlices += len(held)
	coq := fmt.Sprintf("(CHeld %s %s [%s]\n [%s])%%Z", coqVariant(s.Variant), z(s.Cap), strings.Join(parts, ";\n "), strings.Join(hs, ";"))
	d := map[string]interface{}{"kind": "sequential history", "cache": s.Variant, "capacity": s.Cap, "steps": desc, "slices_kept_by_the_caller": len(held)}
	if len(changed) > 0 {
		d["kept_slices_that_changed"] = changed
	}
	return vh.Case{Coq: coq, Class: s.Class, Nontrivial: hit && evicted, Replay: s.replayArg(), Desc: d}
}

func genSeq(rnd *rand.Rand, variant, class string, length int) spec {
	g := newSeqGen(rnd, variant, class)
	s := spec{Kind: "seq", Variant: variant, Class: "seq/" + variant + "/" + class, Cap: g.cap0, KK: rnd.Intn(3), Facade: rnd.Intn(2) == 0}
	if variant == "tiny" && class == "malformed" {
		s.Cap = pick(rnd, []int64{-1, -2, 0, 1, 3})
	}
	if p := cur.Load(); p != nil {
		p.mu.Lock()
		p.cap, p.hasCap = s.Cap, true
		p.mu.Unlock()
	}
	live := newLRU(variant, s.Cap, s.KK, s.Facade)
	for i := 0; i < length; i++ {
		o := g.next(live)
		if class == "fault" && variant == "std" && rnd.Intn(3) == 0 {
			// a faulted call on a key of the universe (present or absent), observed through a Peek of that key
			o = opRec{Code: opPeek, K: o.K, F: 1 + rnd.Intn(3)}
			if o.K < 0 || o.K >= g.nk {
				o.K = rnd.Int63n(maxI64(g.nk, 1))
			}
		}
		doOp(live, o)
		s.Ops = append(s.Ops, o)
	}
	return s
}

// ---- wide histories -----------------------------------------------------------------------------------

type wideStep struct {
	Op    opRec
	Out   outcome
	Probe [][2]int64
}

func runWide(s spec) []wideStep {
	c := newWide(s.Variant, s.XHash, s.Cap, s.N, s.KK)
	steps := make([]wideStep, 0, len(s.Ops))
	for _, o := range s.Ops {
		out := doWideOp(c, o)
		var pr [][2]int64
		for _, k := range s.Univ {
			if r := doWideOp(c, opRec{Code: opPeek, K: k}); !r.Panic && r.Ok {
				pr = append(pr, [2]int64{k, r.Val})
			}
		}
		steps = append(steps, wideStep{o, out, pr})
	}
	return steps
}

// the routing the wide cache is expected to use: SimpleIndex on int64 keys is modelled in Coq (None);
// everything else (XHashIndex, SimpleIndex falling back to it for strings) is tabulated through package remap.
func wideTable(s spec) (tab string, modelled bool) {
	if !s.XHash && s.KK == kkInt64 {
		return "None", true
	}
	r := remap.NewReMap(remap.WithPrime(s.N))
	ent := make([]string, len(s.Univ))
	for i, k := range s.Univ {
		ent[i] = fmt.Sprintf("(%s,%d%%nat)", z(k), r.XHashIndex(mkKey(s.KK, k)))
	}
	return "(Some [" + strings.Join(ent, ";") + "])", false
}

func wideCase(s spec, steps []wideStep) vh.Case {
	parts := make([]string, len(steps))
	desc := make([]string, len(steps))
	vanished := false
	prev := 0
	for i, st := range steps {
		parts[i] = "ws (" + coqWop(st.Op) + ") " + coqOut(st.Out) + " " + pairs(st.Probe)
		desc[i] = fmt.Sprintf("%s -> %s ; present=%v", descOp(st.Op), descOut(st.Out), st.Probe)
		if st.Op.Code == opSet && len(st.Probe) <= prev && prev > 0 {
			vanished = true
		}
		prev = len(st.Probe)
	}
	tab, _ := wideTable(s)
	coq := fmt.Sprintf("(CWide %s %s %d %s %s [%s])%%Z", coqVariant(s.Variant), z(s.Cap), s.N, tab, zlist(s.Univ), strings.Join(parts, ";\n "))
	return vh.Case{Coq: coq, Class: s.Class, Nontrivial: vanished, Replay: s.replayArg(),
		Desc: map[string]interface{}{"kind": "history through a wide facade", "cache": s.Variant, "xhash": s.XHash, "capacity": s.Cap, "shards": s.N,
			"per_shard_capacity": s.Cap/int64(s.N) + 1, "universe": s.Univ, "steps": desc}}
}

func genWide(rnd *rand.Rand, variant string, xhash bool, length int) spec {
	n := uint64(pick(rnd, []int64{1, 2, 3, 4, 5, 7, 73, 73, 211}))
	sc := pick(rnd, []int64{1, 1, 2, 2, 3, 4}) // per-shard capacity wanted
	capacity := int64(n)*(sc-1) + rnd.Int63n(int64(n))
	kk := kkInt64
	if rnd.Intn(3) == 0 {
		kk = kkString
	}
	route := "simple"
	if xhash {
		route = "xhash"
	}
	s := spec{Kind: "wide", Variant: variant, Class: "wide/" + variant + "/" + route, Cap: capacity, KK: kk, N: n, XHash: xhash}
	// a universe in which two or three shards receive several keys each
	if !xhash && kk == kkInt64 {
		base := rnd.Int63n(11) - 5
		for j := int64(0); j < sc+2; j++ {
			s.Univ = append(s.Univ, base+j*int64(n))
		}
		for j := int64(0); j < sc+1; j++ {
			s.Univ = append(s.Univ, base+1-j*int64(n)) // includes negative keys: uint64(v) % n
		}
		s.Univ = append(s.Univ, base+2)
	} else {
		r := remap.NewReMap(remap.WithPrime(n))
		buckets := map[int][]int64{}
		start := rnd.Int63n(1000)
		for k := start; k < start+6000; k++ {
			i := r.XHashIndex(mkKey(kk, k))
			buckets[i] = append(buckets[i], k)
		}
		var idx []int
		for i := range buckets {
			idx = append(idx, i)
		}
		sort.Ints(idx)
		rnd.Shuffle(len(idx), func(a, b int) { idx[a], idx[b] = idx[b], idx[a] })
		want := []int64{sc + 2, sc + 1, 1}
		for j, i := range idx {
			if j >= len(want) {
				break
			}
			b := buckets[i]
			for x := int64(0); x < want[j] && x < int64(len(b)); x++ {
				s.Univ = append(s.Univ, b[x])
			}
		}
	}
	s.Univ = dedup(s.Univ)
	weights := []int{20, 10, 10, 45, 15}
	codes := []int{opGet, opPeek, opExist, opSet, opDelete}
	val := int64(10)
	for i := 0; i < length; i++ {
		x := rnd.Intn(100)
		code := opSet
		for j, w := range weights {
			if x < w {
				code = codes[j]
				break
			}
			x -= w
		}
		o := opRec{Code: code, K: pick(rnd, s.Univ)}
		if code == opSet {
			val++
			o.V = val
			o.Sz = 1
			if variant != "tiny" {
				o.Sz = clamp0(pick(rnd, []int64{1, 1, 1, 0, 2, sc - 1, sc, sc + 1}))
			}
		}
		s.Ops = append(s.Ops, o)
	}
	return s
}

func dedup(xs []int64) []int64 {
	seen := map[int64]bool{}
	var out []int64
	for _, x := range xs {
		if !seen[x] {
			seen[x] = true
			out = append(out, x)
		}
	}
	return out
}

// ---- concurrent runs --------------------------------------------------------------------------------------

func genConc(rnd *rand.Rand, variant string) spec {
	s := spec{Kind: "conc", Variant: variant, Class: "conc/" + variant, Cap: pick(rnd, []int64{1, 2, 3, 4}), KK: rnd.Intn(3)}
	nt := 2 + rnd.Intn(3)
	nk := s.Cap + 1 + int64(rnd.Intn(2))
	val := int64(10)
	weights := []int{12, 5, 4, 18, 14, 8, 6, 1, 4, 8, 4, 6, 3, 3, 1, 3}
	tot := 0
	for _, w := range weights {
		tot += w
	}
	for t := 0; t < nt; t++ {
		var prog []opRec
		var ys []int
		for i, m := 0, 3+rnd.Intn(5); i < m; i++ {
			x := rnd.Intn(tot)
			code := 0
			for j, w := range weights {
				if x < w {
					code = j
					break
				}
				x -= w
			}
			o := opRec{Code: code}
			switch code {
			case opGet, opPeek, opExist, opDelete:
				o.K = 1 + rnd.Int63n(nk)
			case opSet, opSetAndGetRemoved, opSetIfAbsent:
				val++
				o.K, o.V, o.Sz = 1+rnd.Int63n(nk), val, 1
				if variant != "tiny" {
					o.Sz = pick(rnd, []int64{1, 1, 2, 0, s.Cap, s.Cap + 1})
				}
			case opSetCapacity:
				o.K = rnd.Int63n(s.Cap + 2)
			}
			prog = append(prog, o)
			ys = append(ys, rnd.Intn(4))
		}
		s.Progs = append(s.Progs, prog)
		s.Yields = append(s.Yields, ys)
	}
	return s
}

// concCase runs the programs and linearises what was observed.  unresolved = the search budget ran out
// (nothing is emitted then; the count is reported in the evidence).
func concCase(s spec) (c vh.Case, unresolved bool) {
	live := newLRU(s.Variant, s.Cap, s.KK, false)
	threads, final := runConc(live, s.Progs, s.Yields)
	init := &refLRU{cap: s.Cap, tiny: s.Variant == "tiny"}
	order, found, exceeded := linearize(threads, init, final, 400000)
	verdict := "linearised by search"
	stat.concCases++
	if !found {
		if exceeded {
			return vh.Case{}, true
		}
		stat.noLinearisation++
		order = byInvocation(threads)
		verdict = "NO linearisation exists (exhaustive search): events listed in invocation order"
	}
	parts := make([]string, len(order))
	desc := make([]string, len(order))
	reordered, evicted := false, final.Stats[3] > 0
	var maxInv int64 = -1
	for i, e := range order {
		parts[i] = fmt.Sprintf("ce %d %d (%s) (%s)", e.Inv, e.Resp, coqCop(e.Op), coqCres(e.Res))
		desc[i] = fmt.Sprintf("g%d [%d,%d] %s -> %s", e.Th, e.Inv, e.Resp, descOp(e.Op), descOut(e.Res))
		if e.Inv < maxInv {
			reordered = true // placed after a call that was invoked later: the two calls overlapped in time
		}
		if e.Inv > maxInv {
			maxInv = e.Inv
		}
	}
	stat.overlapPairs += overlaps(threads)
	if reordered {
		stat.reordered++
	}
	stat.ops += len(order)
	coq := fmt.Sprintf("(CConc %s %s [%s] %s)%%Z", coqVariant(s.Variant), z(s.Cap), strings.Join(parts, ";\n "), coqSnap(final))
	return vh.Case{Coq: coq, Class: s.Class, Nontrivial: evicted && len(s.Progs) > 1, Replay: s.replayArg(),
		Desc: map[string]interface{}{"kind": "concurrent run", "cache": s.Variant, "capacity": s.Cap, "goroutines": len(s.Progs), "search": verdict,
			"overlapping_call_pairs": overlaps(threads), "linearisation_differs_from_invocation_order": reordered, "events": desc, "final": descSnap(final)}}, false
}

// ---- measured input distribution (goes to the evidence file) --------------------------------------------------

type tally struct {
	ops, panics, hits, misses, evictingCalls, multiEvictions, inPlace, oversize, zeroSize int
	outOfDomain                                                                           int
	opHist                                                                                map[string]int
	shardHist                                                                             map[string]int
	overlapPairs, reordered, concCases, noLinearisation                                   int
	burstRounds, burstCalls, burstAnomalies                                               int
	heldSlices, remRounds, remAnomalies                                                   int
	statRounds, statReads, statAnomalies                                                  int
	firstBatches, firstTrials, firstAnomalies                                             int
	churnRounds, hungUnits                                                                int
	siaRounds, siaAnomalies                                                               int
	faults, faultsNotPanicking                                                            int
}

var stat = tally{opHist: map[string]int{}, shardHist: map[string]int{}}

const boundB = int64(1)<<62 - 1

func inDomain(s spec) bool {
	ok := func(o opRec) bool {
		switch o.Code {
		case opSet, opSetAndGetRemoved, opSetIfAbsent:
			return o.Sz >= 0 && o.Sz <= boundB
		case opSetCapacity:
			return o.K >= 0 && o.K <= boundB
		}
		return true
	}
	if s.Cap < 0 || s.Cap > boundB {
		return false
	}
	for _, o := range s.Ops {
		if !ok(o) {
			return false
		}
	}
	for _, p := range s.Progs {
		for _, o := range p {
			if !ok(o) {
				return false
			}
		}
	}
	return true
}

func tallySeq(s spec, steps []seqStep) {
	if !inDomain(s) {
		stat.outOfDomain++
	}
	prevEv, prevCap := int64(0), s.Cap
	prevKeys := map[int64]bool{}
	for _, st := range steps {
		stat.ops++
		stat.opHist[opNames[st.Op.Code]]++
		if st.Out.Panic {
			stat.panics++
		}
		if st.Op.Code == opGet || st.Op.Code == opPeek {
			if st.Out.Ok {
				stat.hits++
			} else {
				stat.misses++
			}
		}
		if d := st.Snap.Stats[3] - prevEv; d > 0 {
			stat.evictingCalls++
			if d > 1 {
				stat.multiEvictions++
			}
		}
		switch st.Op.Code {
		case opSet, opSetAndGetRemoved:
			if prevKeys[st.Op.K] {
				stat.inPlace++
			}
			if st.Op.Sz > prevCap {
				stat.oversize++
			}
			if st.Op.Sz == 0 {
				stat.zeroSize++
			}
		}
		prevEv, prevCap = st.Snap.Stats[3], st.Snap.Stats[2]
		prevKeys = map[int64]bool{}
		for _, k := range st.Snap.Keys {
			prevKeys[k] = true
		}
	}
}

// ---- main -------------------------------------------------------------------------------------------------

// produce runs one unit (a history, a round, a batch) on the real implementation and returns its cases
func produce(s spec, unresolved *int) (out []vh.Case) {
	switch s.Kind {
	case "seq":
		steps, held := runSeq(s)
		tallySeq(s, steps)
		out = append(out, seqCase(s, steps, held))
	case "wide":
		steps := runWide(s)
		stat.ops += len(steps)
		stat.shardHist[fmt.Sprintf("shards=%d", s.N)]++
		out = append(out, wideCase(s, steps))
	case "first":
		out = append(out, firstCase(*s.First))
	case "churn":
		n := s.Attempts
		if n == 0 {
			n = 1
		}
		for i := 0; i < n; i++ {
			out = append(out, churnCase(*s.Churn))
		}
	case "stat":
		n := s.Attempts
		if n == 0 {
			n = 1
		}
		for i := 0; i < n; i++ {
			c := statCase(*s.Stat)
			c.Replay = spec{Kind: "stat", Stat: s.Stat}.replayArg()
			out = append(out, c)
		}
	case "rem":
		n := s.Attempts
		if n == 0 {
			n = 1
		}
		for i := 0; i < n; i++ {
			c := remCase(*s.Rem)
			c.Replay = spec{Kind: "rem", Rem: s.Rem}.replayArg()
			out = append(out, c)
		}
	case "sia":
		n := s.Attempts
		if n == 0 {
			n = 1
		}
		for i := 0; i < n; i++ {
			c := siaCase(*s.Sia)
			c.Replay = spec{Kind: "sia", Sia: s.Sia}.replayArg()
			out = append(out, c)
		}
	case "burst":
		n := s.Attempts
		if n == 0 {
			n = 1
		}
		for i := 0; i < n; i++ {
			c := burstCase(*s.Burst)
			c.Replay = spec{Kind: "burst", Burst: s.Burst}.replayArg()
			out = append(out, c)
		}
	case "conc":
		n := s.Attempts
		if n == 0 {
			n = 1
		}
		for i := 0; i < n; i++ {
			c, un := concCase(s)
			if un {
				*unresolved++
				continue
			}
			out = append(out, c)
		}
	}
	return
}

// ---- calls that never return --------------------------------------------------------------------------------
// Every unit runs under a watchdog.  The calls of the caches take microseconds; if no call of the unit completes for
// hangBound seconds (a generous upper bound on steps the model says must complete - not a way to infer quiescence), the
// unit is reported as a CHung case (the calls issued so far, for sequential histories) and abandoned, its class is given up;
// after maxHung such units the run stops generating, so that a broken implementation cannot stall the check.

const (
	hangBound = 20 // seconds without any completed call
	maxHung   = 6  // over the whole run; a class is given up after its first blocked call
)

var (
	heartbeat int64
	cur       atomic.Pointer[progress]
	aborted   bool
	givenUp   = map[string]bool{} // classes in which a call blocked
)

type progress struct {
	mu     sync.Mutex
	record bool
	ops    []opRec
	cap    int64 // capacity of the cache the unit built, when it chose it itself
	hasCap bool
}

func beat() { atomic.AddInt64(&heartbeat, 1) }

func noteCall(o opRec) {
	if p := cur.Load(); p != nil && p.record && o.Code <= opSetCapacity {
		p.mu.Lock()
		p.ops = append(p.ops, o)
		p.mu.Unlock()
	}
}

func guard(e *vh.Env, variant string, capacity int64, class string, record bool, fn func() []vh.Case) {
	if aborted || givenUp[class] {
		return
	}
	p := &progress{record: record}
	cur.Store(p)
	done := make(chan []vh.Case, 1)
	go func() { done <- fn() }()
	last, idle := atomic.LoadInt64(&heartbeat), 0
	tick := time.NewTicker(time.Second)
	defer tick.Stop()
	for {
		select {
		case cs := <-done:
			cur.Store(nil)
			for _, c := range cs {
				e.Emit(c)
			}
			return
		case <-tick.C:
			if hb := atomic.LoadInt64(&heartbeat); hb != last {
				last, idle = hb, 0
				continue
			}
			idle++
			if idle < hangBound {
				continue
			}
			cur.Store(nil)
			p.mu.Lock()
			ops := append([]opRec(nil), p.ops...)
			if p.hasCap {
				capacity = p.cap
			}
			p.mu.Unlock()
			xs := make([]string, len(ops))
			ds := make([]string, len(ops))
			for i, o := range ops {
				xs[i] = coqOp(o)
				ds[i] = descOp(o)
			}
			stat.hungUnits++
			givenUp[class] = true
			e.Emit(vh.Case{Coq: fmt.Sprintf("(CHung %s %s [] [%s])%%Z", coqVariant(variant), z(capacity), strings.Join(xs, "; ")), Class: class, Nontrivial: true,
				Desc: map[string]interface{}{"kind": "a call did not return", "cache": variant, "capacity": capacity, "class": class,
					"what":                            fmt.Sprintf("no call completed for %d s (calls take microseconds); the last call issued, or an accessor after it, is blocked", hangBound),
					"calls_issued_on_the_fresh_cache": ds}})
			if stat.hungUnits >= maxHung {
				aborted = true
			}
			return
		}
	}
}

func specVC(s spec) (string, int64) {
	switch {
	case s.Burst != nil:
		return s.Burst.Variant, s.Burst.Cap
	case s.Sia != nil:
		return s.Sia.Variant, s.Sia.Cap
	case s.Rem != nil:
		return s.Rem.Variant, s.Rem.Cap
	case s.Stat != nil:
		return s.Stat.Variant, s.Stat.Cap
	case s.First != nil:
		return s.First.Variant, s.First.Cap
	case s.Churn != nil:
		return s.Churn.Variant, s.Churn.Cap
	}
	return s.Variant, s.Cap
}

func emitSpec(e *vh.Env, s spec, unresolved *int) {
	v, c := specVC(s)
	class := s.Class
	if class == "" {
		class = s.Kind + "/" + v
	}
	guard(e, v, c, class, s.Kind == "seq", func() []vh.Case { return produce(s, unresolved) })
}

// fixed histories replayed first on every run: one witness per clause / per past slip of the model
func corpus() []spec {
	set := func(k, v, sz int64) opRec { return opRec{Code: opSet, K: k, V: v, Sz: sz} }
	sagr := func(k, v, sz int64) opRec { return opRec{Code: opSetAndGetRemoved, K: k, V: v, Sz: sz} }
	sia := func(k, v, sz int64) opRec { return opRec{Code: opSetIfAbsent, K: k, V: v, Sz: sz} }
	get := func(k int64) opRec { return opRec{Code: opGet, K: k} }
	peek := func(k int64) opRec { return opRec{Code: opPeek, K: k} }
	exist := func(k int64) opRec { return opRec{Code: opExist, K: k} }
	del := func(k int64) opRec { return opRec{Code: opDelete, K: k} }
	setcap := func(c int64) opRec { return opRec{Code: opSetCapacity, K: c} }
	clear := opRec{Code: opClear}
	var out []spec
	for _, v := range []string{"std", "tiny"} {
		// the demo of LRUOps.v: in-place growth, an oversize item, Peek/Exist not refreshing, SetCapacity shrinking
		out = append(out, spec{Kind: "seq", Variant: v, Class: "seq/" + v + "/corpus", Cap: 5, Ops: []opRec{
			set(1, 10, 2), set(2, 20, 2), get(1), set(3, 30, 2), peek(1), exist(2), sagr(1, 11, 4), set(4, 40, 9), set(5, 50, 1), set(6, 60, 1),
			sia(5, 0, 1), del(6), setcap(0), clear}})
		// recency: Get refreshes, Peek / Exist do not, SetIfAbsent on a present key refreshes; then evictions in LRU order
		out = append(out, spec{Kind: "seq", Variant: v, Class: "seq/" + v + "/corpus", Cap: 3, Ops: []opRec{
			set(1, 11, 1), set(2, 12, 1), set(3, 13, 1), get(1), peek(2), exist(2), sia(2, 99, 1), sagr(4, 14, 1), sagr(5, 15, 1), sagr(6, 16, 1), get(2), get(1)}})
		// several evictions by one call: removed values least recently used first; SetCapacity shrinking by several entries
		out = append(out, spec{Kind: "seq", Variant: v, Class: "seq/" + v + "/corpus", Cap: 4, Ops: []opRec{
			set(1, 11, 1), set(2, 12, 1), set(3, 13, 1), set(4, 14, 1), sagr(5, 15, 3), set(6, 16, 1), set(7, 17, 1), setcap(1), setcap(6), sagr(7, 18, 6),
			del(7), del(7), set(8, 19, 1), clear, set(9, 20, 1)}})
		// in-place growth through SetAndGetRemoved, then Delete of the grown entry: the entry must carry its new size
		out = append(out, spec{Kind: "seq", Variant: v, Class: "seq/" + v + "/corpus", Cap: 4, Ops: []opRec{
			set(1, 11, 1), sagr(1, 12, 3), set(2, 13, 1), del(1), set(3, 14, 3), sagr(2, 15, 2), sagr(3, 16, 4), get(2), clear, set(1, 17, 4), set(2, 18, 0), set(2, 19, 1), get(1), set(2, 20, 5), get(2)}})
		// wide, 2 shards of capacity 3/2+1 = 2: Peek must not refresh, Get must; eviction inside the shard of the odd keys only
		for _, xh := range []bool{false, true} {
			route := "simple"
			if xh {
				route = "xhash"
			}
			out = append(out, spec{Kind: "wide", Variant: v, Class: "wide/" + v + "/" + route, Cap: 3, N: 2, XHash: xh, Univ: []int64{1, 3, 5, 7, 2, 4, -1},
				Ops: []opRec{set(1, 11, 1), set(3, 12, 1), peek(1), set(5, 13, 1), get(1), get(3), set(7, 14, 1), get(5), get(3), set(2, 15, 1), set(4, 16, 2), exist(2),
					set(-1, 17, 1), del(3), del(3), set(1, 18, 1), get(7)}})
		}
	}
	return out
}

func main() {
	vh.Main("c04", func(e *vh.Env) {
		unresolved := 0
		if e.Replay != "" {
			var s spec
			if err := json.Unmarshal([]byte(e.Replay), &s); err != nil {
				panic(err)
			}
			if s.Kind == "conc" {
				s.Attempts = 20
			}
			if s.Kind == "burst" || s.Kind == "sia" || s.Kind == "rem" || s.Kind == "stat" || s.Kind == "churn" {
				s.Attempts = 40 // the schedule is the runtime's: repeat the same programs
			}
			emitSpec(e, s, &unresolved)
			return
		}
		for _, s := range corpus() {
			emitSpec(e, s, &unresolved)
		}
		scale := func(q, t int) int {
			if e.Search {
				return 4 * q // the violation search of a quick check must stay within minutes
			}
			return e.Scale(q, t)
		}
		nSeq := scale(60, 700)    // per (variant, class)
		nWide := scale(45, 500)   // per (variant, route)
		nConc := scale(100, 1800) // per variant
		focus := strings.TrimSuffix(e.Focus, "/corpus")
		boost := func(class string, n int) int {
			if e.Search && focus != "" {
				if strings.HasPrefix(class, focus) || strings.HasPrefix(focus, class) {
					return n * 3
				}
				return n / 3
			}
			return n
		}
		length := func() int {
			r := e.Rnd.Intn(100)
			switch {
			case r < 30:
				return 4 + e.Rnd.Intn(10)
			case r < 85 || !(e.Thorough || e.Search):
				return 16 + e.Rnd.Intn(30)
			default:
				return 50 + e.Rnd.Intn(70)
			}
		}
		for _, v := range []string{"std", "tiny"} {
			for _, class := range seqClasses {
				n := nSeq
				if class == "malformed" {
					n = nSeq / 2
					if v == "tiny" {
						n = nSeq / 4
					}
				}
				for i, m := 0, boost("seq/"+v+"/"+class, n); i < m; i++ {
					rnd, n := rand.New(rand.NewSource(e.Rnd.Int63())), length()
					v, class := v, class
					guard(e, v, 0, "seq/"+v+"/"+class, true, func() []vh.Case { return produce(genSeq(rnd, v, class, n), &unresolved) })
				}
			}
			for _, xh := range []bool{false, true} {
				route := "simple"
				if xh {
					route = "xhash"
				}
				for i, m := 0, boost("wide/"+v+"/"+route, nWide); i < m; i++ {
					emitSpec(e, genWide(e.Rnd, v, xh, length()), &unresolved)
				}
			}
			for i, m := 0, boost("conc/"+v, nConc); i < m; i++ {
				emitSpec(e, genConc(e.Rnd, v), &unresolved)
			}
		}
		// same-key bursts, observed at quiescence
		nBurst := scale(36, 500) // rounds per (variant, single): each round = 8..16 goroutines x 24..79 keys
		for _, v := range []string{"std", "tiny"} {
			for i, m := 0, boost("burst/"+v+"/single", nBurst); i < m; i++ {
				b := genBurst(e.Rnd, v, false)
				emitSpec(e, spec{Kind: "burst", Burst: &b}, &unresolved)
			}
			for i, m := 0, boost("burst/"+v+"/wide", nBurst/4); i < m; i++ {
				b := genBurst(e.Rnd, v, true)
				emitSpec(e, spec{Kind: "burst", Burst: &b}, &unresolved)
			}
		}
		// SetIfAbsent-only bursts: the first insert wins
		nSia := scale(32, 400)
		for _, v := range []string{"std", "tiny"} {
			for i, m := 0, boost("sia/"+v, nSia); i < m; i++ {
				b := genSia(e.Rnd, v)
				emitSpec(e, spec{Kind: "sia", Sia: &b}, &unresolved)
			}
		}
		// concurrent SetAndGetRemoved, removed lists kept by the callers
		nRem := scale(16, 300)
		for _, v := range []string{"std", "tiny"} {
			for i, m := 0, boost("rem/"+v, nRem); i < m; i++ {
				b := genRem(e.Rnd, v)
				emitSpec(e, spec{Kind: "rem", Rem: &b}, &unresolved)
			}
		}
		// Stats() read concurrently with writers
		nStat := scale(12, 200)
		for _, v := range []string{"std", "tiny"} {
			for i, m := 0, boost("stats/"+v, nStat); i < m; i++ {
				b := genStat(e.Rnd, v)
				emitSpec(e, spec{Kind: "stat", Stat: &b}, &unresolved)
			}
		}
		// own-key churn
		nChurn := scale(24, 400)
		for _, v := range []string{"std", "tiny"} {
			for i, m := 0, boost("churn/"+v+"/single", nChurn); i < m; i++ {
				b := genChurn(e.Rnd, v, false)
				emitSpec(e, spec{Kind: "churn", Churn: &b}, &unresolved)
			}
			for i, m := 0, boost("churn/"+v+"/wide", nChurn/3); i < m; i++ {
				b := genChurn(e.Rnd, v, true)
				emitSpec(e, spec{Kind: "churn", Churn: &b}, &unresolved)
			}
		}
		// class fault (after every other class: their random streams are unchanged): sequential histories on
		// cache.LRUCache in which a third of the calls are Set / SetAndGetRemoved with a value whose Size() panics
		for i, m := 0, boost("seq/std/fault", scale(60, 600)); i < m; i++ {
			rnd, n := rand.New(rand.NewSource(e.Rnd.Int63())), length()
			guard(e, "std", 0, "seq/std/fault", true, func() []vh.Case { return produce(genSeq(rnd, "std", "fault", n), &unresolved) })
		}
		e.Meta["seq_faulted_calls_that_panicked_and_were_recovered"] = stat.faults
		e.Meta["seq_faulted_calls_that_did_not_panic"] = stat.faultsNotPanicking
		e.Meta["churn_rounds"] = stat.churnRounds
		e.Meta["units_abandoned_because_a_call_did_not_return"] = stat.hungUnits
		e.Meta["generation_stopped_after_blocked_calls"] = aborted
		// first touches of fresh wide caches: batches of trials
		nFirst := scale(6, 60)           // batches per (variant, route)
		firstTrials := scale(1500, 6000) // trials per batch
		for _, v := range []string{"std", "tiny"} {
			for _, xh := range []bool{false, true} {
				route := "simple"
				if xh {
					route = "xhash"
				}
				for i, m := 0, boost("first/"+v+"/"+route, nFirst); i < m; i++ {
					b := genFirst(e.Rnd, v, xh, firstTrials)
					emitSpec(e, spec{Kind: "first", First: &b}, &unresolved)
				}
			}
		}
		e.Meta["first_touch_batches"] = stat.firstBatches
		e.Meta["first_touch_trials"] = stat.firstTrials
		e.Meta["first_touch_batches_with_anomaly_seen_by_harness_advisory"] = stat.firstAnomalies
		e.Meta["stats_rounds"] = stat.statRounds
		e.Meta["stats_answers_kept"] = stat.statReads
		e.Meta["stats_rounds_with_anomaly_seen_by_harness_advisory"] = stat.statAnomalies
		e.Meta["rem_rounds"] = stat.remRounds
		e.Meta["rem_rounds_with_anomaly_seen_by_harness_advisory"] = stat.remAnomalies
		e.Meta["seq_slices_kept_by_the_caller_and_reread"] = stat.heldSlices
		e.Meta["sia_rounds"] = stat.siaRounds
		e.Meta["sia_rounds_with_anomaly_seen_by_harness_advisory"] = stat.siaAnomalies
		e.Meta["burst_rounds"] = stat.burstRounds
		e.Meta["burst_calls"] = stat.burstCalls
		e.Meta["burst_rounds_with_anomaly_seen_by_harness_advisory"] = stat.burstAnomalies
		e.Meta["conc_unresolved_search_budget"] = unresolved
		e.Meta["calls_total"] = stat.ops
		e.Meta["seq_op_histogram"] = stat.opHist
		e.Meta["seq_calls_that_panicked"] = stat.panics
		e.Meta["seq_histories_outside_domain"] = stat.outOfDomain
		e.Meta["seq_hits"] = stat.hits
		e.Meta["seq_misses"] = stat.misses
		e.Meta["seq_calls_that_evicted"] = stat.evictingCalls
		e.Meta["seq_calls_that_evicted_several"] = stat.multiEvictions
		e.Meta["seq_in_place_updates"] = stat.inPlace
		e.Meta["seq_items_larger_than_capacity"] = stat.oversize
		e.Meta["seq_items_of_size_zero"] = stat.zeroSize
		e.Meta["wide_shard_count_histogram"] = stat.shardHist
		e.Meta["conc_runs"] = stat.concCases
		e.Meta["conc_overlapping_call_pairs"] = stat.overlapPairs
		e.Meta["conc_runs_linearised_differently_from_invocation_order"] = stat.reordered
		e.Meta["conc_runs_without_linearisation"] = stat.noLinearisation
		e.Meta["generator"] = "c04 v1: adaptive op generator biased to capacity boundaries (room-1/room/room+1), LRU/MRU keys, SetCapacity around the current size"
	})
}
