package main

import (
	"fmt"
	"math/rand"
	"runtime"
	"strings"
	"sync"
	"sync/atomic"

	"github.com/pinealctx/neptune/remap"
	"verifharness/vh"
)

// Own-key churn.  Every goroutine repeatedly Sets / updates / Deletes keys that no other goroutine writes (sizes 1..4),
// reader goroutines Get / Peek / Exist other goroutines' keys; the cache (single or wide facade) can hold every key with
// its largest size, so nothing is ever evicted.  All goroutines start from a spin barrier.  What a key holds at the end
// depends only on its owner's program, so every linearisation ends with the same contents: after all goroutines have
// returned, the key -> value map, Length, Size and Evictions = 0 must be those of the programs run one after the other
// (case_holds computes that with the ideal cache; theorem c04_churn_key_local).

type churnSpec struct {
	Variant string    `json:"variant"`
	Cap     int64     `json:"cap"`
	KK      int       `json:"kk"`
	Wide    bool      `json:"wide,omitempty"`
	XHash   bool      `json:"xhash,omitempty"`
	N       uint64    `json:"n,omitempty"`
	Progs   [][]opRec `json:"progs"` // goroutine g repeats the cycle Progs[g] Reps[g] times
	Reps    []int     `json:"reps"`
}

func runChurn(s churnSpec, keys []int64) (probe []burstProbe, snap *snapshot, panics int32) {
	var single lruAPI
	var wide wideAPI
	if s.Wide {
		wide = newWide(s.Variant, s.XHash, s.Cap, s.N, s.KK)
	} else {
		single = newLRU(s.Variant, s.Cap, s.KK, false)
	}
	var ready int32
	var wg sync.WaitGroup
	ng := len(s.Progs)
	for g := 0; g < ng; g++ {
		wg.Add(1)
		go func(g int) {
			defer wg.Done()
			atomic.AddInt32(&ready, 1)
			for spins := 0; atomic.LoadInt32(&ready) < int32(ng); spins++ {
				if spins > 2000 {
					runtime.Gosched()
				}
			}
			for rep := 0; rep < s.Reps[g]; rep++ {
				for _, o := range s.Progs[g] {
					var r outcome
					if single != nil {
						r = doOp(single, o)
					} else {
						r = doWideOp(wide, o)
					}
					if r.Panic {
						atomic.AddInt32(&panics, 1)
					}
				}
			}
		}(g)
	}
	wg.Wait()
	if single != nil {
		sn := takeSnap(single)
		snap = &sn
	}
	for _, k := range keys {
		var ex, pk outcome
		if single != nil {
			ex, pk = doOp(single, opRec{Code: opExist, K: k}), doOp(single, opRec{Code: opPeek, K: k})
		} else {
			ex, pk = doWideOp(wide, opRec{Code: opExist, K: k}), doWideOp(wide, opRec{Code: opPeek, K: k})
		}
		if ex.Panic || pk.Panic {
			panics++
		}
		probe = append(probe, burstProbe{k, ex.B, pk.Ok, pk.Val})
	}
	return
}

// keys in the order C04_Check.churn_keys lists them: nodup keeps the LAST occurrence of each key of the concatenated programs
func churnKeys(progs [][]opRec) []int64 {
	var all []int64
	for _, p := range progs {
		for _, o := range p {
			all = append(all, o.K)
		}
	}
	var out []int64
	for i, k := range all {
		later := false
		for _, k2 := range all[i+1:] {
			if k2 == k {
				later = true
				break
			}
		}
		if !later {
			out = append(out, k)
		}
	}
	return out
}

func churnCase(s churnSpec) vh.Case {
	keys := churnKeys(s.Progs)
	probe, snap, panics := runChurn(s, keys)
	rows := make([]string, len(s.Progs))
	calls := 0
	for g, p := range s.Progs {
		xs := make([]string, len(p))
		for i, o := range p {
			xs[i] = coqOp(o)
		}
		calls += len(p) * s.Reps[g]
		rows[g] = fmt.Sprintf("rep %d [", s.Reps[g]) + strings.Join(xs, "; ") + "]"
	}
	ps := make([]string, len(probe))
	for i, p := range probe {
		switch {
		case p.Exist && p.Ok:
			ps[i] = "pH " + z(p.K) + " " + z(p.Val)
		case !p.Exist && !p.Ok:
			ps[i] = "pM " + z(p.K)
		case p.Ok:
			ps[i] = "pX " + z(p.K) + " " + vh.CoqBool(p.Exist) + " (Some " + z(p.Val) + ")"
		default:
			ps[i] = "pX " + z(p.K) + " " + vh.CoqBool(p.Exist) + " None"
		}
	}
	wide, kind := "None", "single"
	if s.Wide {
		kind = "wide"
		tab := "None"
		if s.XHash || s.KK != kkInt64 {
			r := remap.NewReMap(remap.WithPrime(s.N))
			ent := make([]string, len(keys))
			for i, k := range keys {
				ent[i] = fmt.Sprintf("(%s,%d%%nat)", z(k), r.XHashIndex(mkKey(s.KK, k)))
			}
			tab = "(Some [" + strings.Join(ent, ";") + "])"
		}
		wide = fmt.Sprintf("(Some (%d, %s))", s.N, tab)
	}
	sn := "None"
	d := map[string]interface{}{"kind": "own-key churn: every goroutine Sets / Deletes only its own keys, nothing can be evicted; observed after all goroutines returned",
		"cache": s.Variant, "facade": kind, "capacity": s.Cap, "goroutines": len(s.Progs), "calls": calls, "keys": len(keys), "calls_that_panicked": panics}
	if snap != nil {
		sn = "(Some " + coqSnap(*snap) + ")"
		d["final"] = descSnap(*snap)
	} else {
		d["shards"] = s.N
		d["present_at_the_end"] = fmt.Sprint(probe)
	}
	stat.churnRounds++
	stat.burstCalls += calls
	coq := fmt.Sprintf("(CChurn %s %s %s [%s] %s [%s] %s)%%Z", coqVariant(s.Variant), z(s.Cap), wide, strings.Join(rows, ";\n "), vh.CoqBool(panics > 0), strings.Join(ps, ";"), sn)
	b := s
	return vh.Case{Coq: coq, Class: "churn/" + s.Variant + "/" + kind, Nontrivial: len(s.Progs) > 1, Desc: d, Replay: spec{Kind: "churn", Churn: &b}.replayArg()}
}

func genChurn(rnd *rand.Rand, variant string, wide bool) churnSpec {
	s := churnSpec{Variant: variant, KK: rnd.Intn(2), Wide: wide}
	if wide {
		s.N = uint64(pick(rnd, []int64{1, 2, 3, 5}))
		s.XHash = rnd.Intn(2) == 0
	}
	nw := 6 + rnd.Intn(11) // writers
	nr := rnd.Intn(3)      // readers
	lo := int64(1 + rnd.Intn(1000))
	val := int64(10)
	var need int64
	var allKeys []int64
	for g := 0; g < nw; g++ {
		nk := 1 + rnd.Intn(3)
		own := make([]int64, nk)
		for i := range own {
			own[i] = lo
			lo++
			need += 4
		}
		allKeys = append(allKeys, own...)
		var prog []opRec
		for i, m := 0, 3+rnd.Intn(6); i < m; i++ {
			k := own[rnd.Intn(nk)]
			sz := int64(1 + rnd.Intn(4))
			if variant == "tiny" {
				sz = 1
			}
			val++
			switch r := rnd.Intn(100); {
			case r < 38:
				prog = append(prog, opRec{Code: opSet, K: k, V: val, Sz: sz})
			case r < 46 && !wide:
				prog = append(prog, opRec{Code: opSetAndGetRemoved, K: k, V: val, Sz: sz})
			case r < 52 && !wide:
				prog = append(prog, opRec{Code: opSetIfAbsent, K: k, V: val, Sz: sz})
			case r < 88:
				prog = append(prog, opRec{Code: opDelete, K: k})
			case r < 94:
				prog = append(prog, opRec{Code: opGet, K: k})
			default:
				prog = append(prog, opRec{Code: opExist, K: k})
			}
		}
		s.Progs = append(s.Progs, prog)
		s.Reps = append(s.Reps, 30+rnd.Intn(50))
	}
	for g := 0; g < nr; g++ {
		var prog []opRec
		for i, m := 0, 3+rnd.Intn(5); i < m; i++ {
			prog = append(prog, opRec{Code: []int{opGet, opPeek, opExist}[rnd.Intn(3)], K: pick(rnd, allKeys)})
		}
		s.Progs = append(s.Progs, prog)
		s.Reps = append(s.Reps, 30+rnd.Intn(50))
	}
	s.Cap = need + int64(rnd.Intn(50)) // far from full
	if wide {
		s.Cap = need * int64(s.N) // every shard could hold everything
	}
	return s
}
