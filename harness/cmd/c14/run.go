package main

// One forced schedule: a plan (list of harness actions) is executed against the real executor.  The callee blocks on a
// per-call gate, so the harness decides when a running call finishes.  After every action the driver waits - on
// conditions over recorded facts, woken by the goroutines that record them, never on a sleep - for every consequence the
// lane model says must follow (the callee of the head of an idle lane is entered, the caller whose answer is ready
// returns, the lane goroutines return).  Every fact is stamped from one atomic counter; the trace is the facts in stamp
// order.

import (
	"fmt"
	"sort"
	"sync"
	"sync/atomic"
	"time"
)

type pcall struct {
	ID   int   `json:"id"`
	Hash int64 `json:"h"`
	Fail bool  `json:"f,omitempty"`
	Form int   `json:"m,omitempty"`
	// class reuse-line: the caller ("owner") that issues this call; an owner keeps ONE line.CallCtx value and re-submits it
	// with a new Param once its previous AsyncCall has returned
	Owner int `json:"o,omitempty"`
	// class shared-callctx (MultiLine): > 0 = the call goes through the one mline.CallCtx value with this key
	Shared int `json:"s,omitempty"`
}

type act struct {
	K string `json:"k"` // run | sub | rel | can | stop
	C int    `json:"c,omitempty"`
}

type plan struct {
	X     int     `json:"x"`
	Lanes int64   `json:"n"`
	Q     int     `json:"q"`
	Calls []pcall `json:"calls"`
	Acts  []act   `json:"acts"`
	Reuse bool    `json:"r,omitempty"`
}

const (
	oRun = iota
	oSub
	oStart
	oEnd
	oStop
	oCancel
	oGot
	oWait
	oHang
)

type obs struct {
	stamp int64
	kind  int
	c     int
	lane  int64 // lane index the callee was passed
	out   int   // oSub: sAcc / sFull / sClosed
	ak    int   // oGot: answer class
	an    int   // oGot: answer number
	what  int   // oHang
}

type result struct {
	stamp int64
	r     interface{}
	err   error
	pan   interface{}
	calls int
}

var hangCount int32

func hangTimeout() time.Duration {
	if atomic.LoadInt32(&hangCount) > 0 {
		return 1500 * time.Millisecond
	}
	return 10 * time.Second
}

type sched struct {
	p         *plan
	ex        executor
	m         *model
	seq       int64
	mu        sync.Mutex
	evlog     []obs
	results   map[int]*result
	wake      chan struct{}
	gates     map[int]chan struct{}
	gopen     map[int]bool
	ctxs      map[int]*obsCtx
	calls     map[int]*pcall
	exitAt    int64
	items     []obs
	evUsed    map[int]bool // index into evlog: consumed by the driver
	waiting   map[int]bool // accepted caller not yet seen returning
	gotSeen   map[int]bool
	spawned   map[int]bool
	stopped   bool
	waited    bool
	hung      bool
	diverged  bool
	exitGo    bool
	idx       map[int]int // IndexOf(hash) as the executor reports it
	idxPan    map[int]bool
	place     map[string]int // where Stop / cancellation fell (measured on the trace)
	entered   map[int]bool   // callee entered at least once (under mu)
	ownerLast map[int]int    // reuse-line: the last call each owner submitted
	evLow     int
	stray     int
}

func (s *sched) stamp() int64 { return atomic.AddInt64(&s.seq, 1) }
func (s *sched) poke() {
	select {
	case s.wake <- struct{}{}:
	default:
	}
}

func (s *sched) await(cond func() bool) bool {
	t := time.NewTimer(hangTimeout())
	defer t.Stop()
	for {
		s.mu.Lock()
		ok := cond()
		s.mu.Unlock()
		if ok {
			return true
		}
		select {
		case <-s.wake:
		case <-t.C:
			s.mu.Lock()
			ok = cond()
			s.mu.Unlock()
			return ok
		}
	}
}

func (s *sched) hang(what int) {
	s.hung = true
	atomic.AddInt32(&hangCount, 1)
	s.items = append(s.items, obs{stamp: s.stamp(), kind: oHang, what: what})
}

// the callee every call runs
func (s *sched) body(id int) bodyFn {
	return func(lane int, param int) (int, error) {
		st := s.stamp()
		s.mu.Lock()
		s.evlog = append(s.evlog, obs{stamp: st, kind: oStart, c: id, lane: int64(lane)})
		s.entered[id] = true
		g := s.gates[id]
		s.mu.Unlock()
		s.poke()
		if g != nil {
			<-g
		}
		en := s.stamp()
		s.mu.Lock()
		s.evlog = append(s.evlog, obs{stamp: en, kind: oEnd, c: id, lane: int64(lane)})
		s.mu.Unlock()
		s.poke()
		pc := s.calls[id]
		if pc != nil && pc.Fail {
			return id + 1000, &calleeErr{id}
		}
		if param >= 0 {
			return param, nil // what the executor handed over as this call's parameter
		}
		if param == -2 {
			return -1, nil
		}
		return id, nil
	}
}

// find an unconsumed callee event (caller holds s.mu)
func (s *sched) findEv(kind, c int) int {
	for s.evLow < len(s.evlog) && s.evUsed[s.evLow] {
		s.evLow++
	}
	for i := s.evLow; i < len(s.evlog); i++ {
		e := s.evlog[i]
		if !s.evUsed[i] && e.kind == kind && e.c == c {
			return i
		}
	}
	return -1
}

func newSched(p *plan) *sched { return newSchedReg(p, nil) }

// newSchedReg: reg != nil = the executor uses call-context values shared with other instances
func newSchedReg(p *plan, reg *shareReg) *sched {
	s := &sched{p: p, results: map[int]*result{}, wake: make(chan struct{}, 1), gates: map[int]chan struct{}{}, gopen: map[int]bool{},
		ctxs: map[int]*obsCtx{}, calls: map[int]*pcall{}, evUsed: map[int]bool{}, waiting: map[int]bool{}, gotSeen: map[int]bool{},
		spawned: map[int]bool{}, idx: map[int]int{}, idxPan: map[int]bool{}, place: map[string]int{}, entered: map[int]bool{}, ownerLast: map[int]int{}}
	s.m = newModel(p.X, p.Lanes, p.Q)
	s.ex = newExecutor(p.X, p.Lanes, p.Q)
	if reg != nil {
		switch ex := s.ex.(type) {
		case *exLine:
			ex.reg = reg
		case *exMulti:
			ex.reg = reg
		}
	}
	for i := range p.Calls {
		pc := &p.Calls[i]
		s.calls[pc.ID] = pc
		s.gates[pc.ID] = make(chan struct{})
		s.ctxs[pc.ID] = newObsCtx(pc.ID, s.poke)
		func() {
			defer func() {
				if recover() != nil {
					s.idxPan[pc.ID] = true
					s.idx[pc.ID] = -999
				}
			}()
			s.idx[pc.ID] = s.ex.IndexOf(int(pc.Hash))
		}()
	}
	return s
}

func (s *sched) maybeExitWaiter() {
	if s.exitGo || !s.m.started || !s.stopped {
		return
	}
	s.exitGo = true
	go func() {
		s.ex.WaitExit()
		atomic.StoreInt64(&s.exitAt, s.stamp())
		s.poke()
	}()
}

func (s *sched) doRun() {
	if s.m.started {
		return
	}
	s.items = append(s.items, obs{stamp: s.stamp(), kind: oRun})
	s.ex.Run()
	s.m.started = true
	s.maybeExitWaiter()
}

// doRerun: Run() called again on an executor that is already running.  Line, RunnerQ and ProcChan guard Run with a
// sync.Once: the second and third call start nothing, the lane keeps its ONE consumer (nothing to record, no label).
// MultiLine.Run is not guarded on the unchanged code (a second call starts a second set of lane goroutines): that is its
// behaviour as it is and stays out of this variant.
func (s *sched) doRerun() {
	if s.p.X == xMulti || !s.m.started || s.hung {
		return
	}
	s.ex.Run()
}

func (s *sched) doStop() {
	s.items = append(s.items, obs{stamp: s.stamp(), kind: oStop})
	s.ex.Stop()
	s.stopped = true
	s.m.closed = true
	s.maybeExitWaiter()
}

func (s *sched) doCancel(c int) {
	cx := s.ctxs[c]
	if cx == nil {
		return
	}
	s.items = append(s.items, obs{stamp: s.stamp(), kind: oCancel, c: c})
	cx.cancel()
	s.m.cancelled[c] = true
}

func (s *sched) doSubmit(c int) {
	pc := s.calls[c]
	if pc == nil || s.spawned[c] {
		return
	}
	var owned *exLine
	if s.p.Reuse && pc.Owner > 0 {
		if el, ok := s.ex.(*exLine); ok {
			owned = el
			// the owner may touch its CallCtx again only when its previous AsyncCall has returned
			if prev := s.ownerLast[pc.Owner]; prev != 0 {
				s.mu.Lock()
				back := s.results[prev] != nil
				s.mu.Unlock()
				if !back {
					if !(s.m.cancelled[prev] || s.m.answered[prev]) {
						return // previous call still pending and its caller still waiting: not this owner's turn
					}
					if !s.await(func() bool { return s.results[prev] != nil }) {
						s.hang(6)
						return
					}
				}
			}
			s.ownerLast[pc.Owner] = c
		}
	}
	s.spawned[c] = true
	st := s.stamp()
	cx := s.ctxs[c]
	go func() {
		res := &result{}
		func() {
			defer func() { res.pan = recover() }()
			if owned != nil {
				res.r, res.err = owned.CallOwned(cx, c, pc.Owner, s.body(c))
			} else if em, ok := s.ex.(*exMulti); ok && pc.Shared > 0 {
				res.r, res.err = em.CallShared(cx, c, pc.Shared, int(pc.Hash), s.body(c))
			} else {
				res.r, res.err = s.ex.Call(cx, c, int(pc.Hash), pc.Form, s.body(c))
			}
		}()
		res.calls = cx.nCalls()
		res.stamp = s.stamp()
		s.mu.Lock()
		s.results[c] = res
		s.mu.Unlock()
		s.poke()
	}()
	ok := s.await(func() bool { return s.results[c] != nil || cx.nCalls() >= 1 || s.entered[c] })
	if !ok {
		s.hang(1)
		return
	}
	s.mu.Lock()
	res := s.results[c]
	s.mu.Unlock()
	out := sAcc
	if res != nil && res.pan == nil && res.calls == 0 {
		k, _ := classify(res.r, res.err)
		switch k {
		case aFull:
			out = sFull
		case aClosed:
			out = sClosed
		}
	}
	s.items = append(s.items, obs{stamp: st, kind: oSub, c: c, out: out})
	if out == sAcc {
		s.m.enqueue(c, s.m.laneFor(pc.Hash))
		s.waiting[c] = true
	} else {
		s.gotSeen[c] = true // its return is the refusal itself
	}
}

func (s *sched) doRelease(c int) {
	lane, ok := s.m.laneOf[c]
	if !ok || s.m.ln(lane).running != c {
		return
	}
	if !s.gopen[c] {
		s.gopen[c] = true
		close(s.gates[c])
	}
	var ei int
	if !s.await(func() bool { ei = s.findEv(oEnd, c); return ei >= 0 }) {
		s.hang(2)
		return
	}
	s.evUsed[ei] = true
	s.m.ln(lane).running = -1
	s.m.answered[c] = true
}

// wait for everything the model says must follow from what has happened so far
func (s *sched) settle() {
	for !s.hung {
		progressed := false
		if s.m.started {
			lanes := make([]int, 0, len(s.m.lane))
			for i := range s.m.lane {
				lanes = append(lanes, i)
			}
			sort.Ints(lanes)
			for _, i := range lanes {
				l := s.m.ln(i)
				for !s.hung && l.running < 0 && len(l.queue) > 0 {
					head := l.queue[0]
					cx := s.ctxs[head]
					skippable := s.m.runnerKind() && s.m.cancelled[head]
					// what must follow: the callee of the head is entered (a runner: or the worker tests the done context and
					// passes over it); ProcChan after Stop: or the goroutine leaves.  Anything else that can be observed at this
					// point - another queued call of this lane entered first, the goroutine gone with calls queued - is followed
					// as observed (the case then diverges from the model) instead of waiting for the bound.
					var ei, ux, dup int
					if !s.await(func() bool {
						ei = s.findEv(oStart, head)
						ux = -1
						// a callee entered for a call that is not waiting to be started anywhere (a second execution, a call that was
						// never accepted): follow it as observed
						dup = -1
						for k := s.evLow; k < len(s.evlog) && ei < 0; k++ {
							ev := s.evlog[k]
							if s.evUsed[k] || ev.kind != oStart || ev.c == head {
								continue
							}
							if ln2, ok := s.m.laneOf[ev.c]; ok && inQueue(s.m.ln(ln2).queue, ev.c) {
								continue
							}
							dup = k
							break
						}
						if dup >= 0 {
							return true
						}
						for _, d := range l.queue[1:] {
							if !s.entered[d] {
								continue
							}
							if k := s.findEv(oStart, d); k >= 0 {
								ux = k
								break
							}
						}
						return ei >= 0 || ux >= 0 || (skippable && cx.nCalls() >= 2) || atomic.LoadInt64(&s.exitAt) != 0
					}) {
						s.hang(5)
						break
					}
					switch {
					case ei < 0 && dup >= 0:
						d := s.evlog[dup].c
						s.evUsed[dup] = true
						s.diverged = true
						if ln2, ok := s.m.laneOf[d]; ok && s.m.ln(ln2).running < 0 {
							s.m.ln(ln2).running = d
						} else {
							s.stray++
							if s.stray > 50 {
								s.hang(5)
							}
						}
					case ei >= 0:
						s.evUsed[ei] = true
						l.queue = l.queue[1:]
						l.running = head
					case skippable && cx.nCalls() >= 2:
						l.queue = l.queue[1:]
						s.m.answered[head] = true // passed over: its wait channel is closed with the context's error
					case ux >= 0:
						c := s.evlog[ux].c
						s.evUsed[ux] = true
						s.diverged = true
						s.m.take(i, c)
						l.running = c
					default:
						// the goroutine has returned (ProcChan after Stop: allowed with calls left in the channel)
						if !(s.p.X == xProc && s.m.closed) {
							s.diverged = true
						}
						l.queue = nil
					}
					progressed = true
				}
			}
		}
		if s.hung {
			return
		}
		ids := make([]int, 0, 8)
		for c := range s.waiting {
			if s.m.answered[c] || (s.p.X == xProc && s.m.closed) {
				ids = append(ids, c)
			}
		}
		sort.Ints(ids)
		for _, c := range ids {
			// a caller whose context alone is done will return too, but the lane model does not oblige it to (its select may
			// as well wait for the result), so that return is recorded whenever it happens and not waited for here
			if s.m.answered[c] || (s.p.X == xProc && s.m.closed) {
				if !s.await(func() bool { return s.results[c] != nil }) {
					s.hang(6)
					return
				}
				delete(s.waiting, c)
				s.gotSeen[c] = true
				progressed = true
			}
		}
		if s.stopped && s.m.started && !s.waited {
			idle := true
			for _, l := range s.m.lane {
				if l.running >= 0 || (len(l.queue) > 0 && s.p.X != xProc) {
					idle = false
				}
			}
			if idle {
				if !s.await(func() bool { return atomic.LoadInt64(&s.exitAt) != 0 }) {
					s.hang(7)
					return
				}
				s.waited = true
				progressed = true
			}
		}
		if !progressed {
			return
		}
	}
}

func (s *sched) execute() {
	for _, a := range s.p.Acts {
		if s.hung {
			break
		}
		switch a.K {
		case "run":
			s.doRun()
		case "rerun":
			s.doRerun()
		case "sub":
			s.doSubmit(a.C)
		case "rel":
			s.doRelease(a.C)
		case "can":
			s.doCancel(a.C)
		case "stop":
			s.doStop()
		}
		s.settle()
	}
	// finish: start the lanes, Stop, let every running call end, wait for the goroutines
	if !s.hung {
		s.doRun()
		s.settle()
	}
	if !s.hung && !s.stopped {
		s.doStop()
		s.settle()
	}
	for !s.hung {
		run := []int{}
		for _, l := range s.m.lane {
			if l.running >= 0 {
				run = append(run, l.running)
			}
		}
		if len(run) == 0 {
			break
		}
		sort.Ints(run)
		s.doRelease(run[0])
		s.settle()
	}
	if s.hung {
		// let everything go and give the goroutines one more bounded chance; whatever was recorded is reported
		for c, g := range s.gates {
			if !s.gopen[c] {
				s.gopen[c] = true
				close(g)
			}
		}
		if !s.m.started {
			s.ex.Run()
			s.m.started = true
		}
		if !s.stopped {
			s.items = append(s.items, obs{stamp: s.stamp(), kind: oStop})
			s.ex.Stop()
			s.stopped = true
		}
		s.maybeExitWaiter()
		s.await(func() bool { return atomic.LoadInt64(&s.exitAt) != 0 })
	}
}

// every fact in stamp order
func (s *sched) observed() []obs {
	s.mu.Lock()
	defer s.mu.Unlock()
	all := append([]obs{}, s.items...)
	all = append(all, s.evlog...)
	subOut := map[int]int{}
	for _, it := range s.items {
		if it.kind == oSub {
			subOut[it.c] = it.out
		}
	}
	for c, r := range s.results {
		out, submitted := subOut[c]
		if !submitted || out != sAcc {
			continue
		}
		o := obs{stamp: r.stamp, kind: oGot, c: c}
		if r.pan != nil {
			o.ak, o.an = aWeird, 9
		} else {
			o.ak, o.an = classify(r.r, r.err)
			if r.calls == 0 && o.ak != aFull && o.ak != aClosed {
				// returned without ever selecting on its context and without a queue error
				if o.ak != aVal {
					o.ak, o.an = aWeird, 3
				}
			}
		}
		all = append(all, o)
	}
	if e := atomic.LoadInt64(&s.exitAt); e != 0 {
		all = append(all, obs{stamp: e, kind: oWait})
	}
	sort.SliceStable(all, func(i, j int) bool { return all[i].stamp < all[j].stamp })
	return all
}

// insert the labels no observer sees and print Coq items
func (s *sched) coqTrace(all []obs) (items []string, readable []string, accepted int) {
	pm := newModel(s.p.X, s.p.Lanes, s.p.Q)
	hashOf := map[int]int64{}
	for _, pc := range s.p.Calls {
		hashOf[pc.ID] = pc.Hash
	}
	emit := func(coq, txt string) { items = append(items, coq); readable = append(readable, txt) }
	submitted := map[int]bool{}
	eager := func(i int) {
		if !pm.started || !pm.runnerKind() || (pm.x == xProc && pm.closed) {
			return
		}
		l := pm.ln(i)
		for l.running < 0 && len(l.queue) > 0 && pm.cancelled[l.queue[0]] {
			c := l.queue[0]
			l.queue = l.queue[1:]
			emit(fmt.Sprintf("ISkip %d%%nat %d%%nat", i, c), fmt.Sprintf("skip(lane %d, call %d)", i, c))
		}
	}
	for _, o := range all {
		switch o.kind {
		case oRun:
			pm.started = true
			readable = append(readable, "Run()")
			items = append(items, "")
			for i := range pm.lane {
				eager(i)
			}
		case oSub:
			emit(fmt.Sprintf("ISub %d%%nat %s", o.c, sNames[o.out]), fmt.Sprintf("submit %d -> %s", o.c, sNames[o.out]))
			submitted[o.c] = true
			if o.out == sAcc {
				accepted++
				ln := pm.laneFor(hashOf[o.c])
				pm.enqueue(o.c, ln)
				eager(ln)
			}
		case oCancel:
			emit(fmt.Sprintf("ICancel %d%%nat", o.c), fmt.Sprintf("cancel ctx of %d", o.c))
			if !pm.cancelled[o.c] {
				ln, sub := pm.laneOf[o.c]
				switch {
				case !sub && !submitted[o.c]:
					s.place["cancel_before_enqueue"]++
				case sub && pm.ln(ln).running == o.c:
					s.place["cancel_while_running"]++
				case sub && inQueue(pm.ln(ln).queue, o.c):
					s.place["cancel_while_queued"]++
				default:
					s.place["cancel_after_completion_or_refusal"]++
				}
			}
			pm.cancelled[o.c] = true
			if ln, ok := pm.laneOf[o.c]; ok {
				eager(ln)
			}
		case oStop:
			emit("IStop", "Stop()")
			if !pm.closed {
				backlog, running := 0, 0
				for _, l := range pm.lane {
					backlog += len(l.queue)
					if l.running >= 0 {
						running++
					}
				}
				switch {
				case len(submitted) == 0:
					s.place["stop_before_any_submit"]++
				case backlog > 0 && running > 0:
					s.place["stop_with_backlog_and_running_call"]++
				case backlog > 0:
					s.place["stop_with_backlog_idle_or_unstarted"]++
				case running > 0:
					s.place["stop_while_running_no_backlog"]++
				default:
					s.place["stop_when_idle"]++
				}
			}
			pm.closed = true
		case oStart:
			if ln, ok := pm.laneOf[o.c]; ok {
				l := pm.ln(ln)
				for pm.runnerKind() && l.running < 0 && len(l.queue) > 0 && l.queue[0] != o.c && pm.cancelled[l.queue[0]] {
					c := l.queue[0]
					l.queue = l.queue[1:]
					emit(fmt.Sprintf("ISkip %d%%nat %d%%nat", ln, c), fmt.Sprintf("skip(lane %d, call %d)", ln, c))
				}
				pm.take(ln, o.c)
				l.running = o.c
			}
			emit(fmt.Sprintf("IStart %s %d%%nat", coqZ(o.lane), o.c), fmt.Sprintf("callee of %d entered, lane index %d", o.c, o.lane))
		case oEnd:
			emit(fmt.Sprintf("IEnd %s %d%%nat", coqZ(o.lane), o.c), fmt.Sprintf("callee of %d returned", o.c))
			if ln, ok := pm.laneOf[o.c]; ok {
				if pm.ln(ln).running == o.c {
					pm.ln(ln).running = -1
				}
				eager(ln)
			}
		case oGot:
			var a, from, txt string
			switch o.ak {
			case aVal:
				a, from, txt = fmt.Sprintf("(Val %d%%nat)", o.an), "FromSlot", fmt.Sprintf("value %d", o.an)
			case aCtx:
				a, from, txt = fmt.Sprintf("(CtxErr %d%%nat)", o.an), "FromCtx", fmt.Sprintf("error of the context of call %d", o.an)
			case aClosed:
				a, from, txt = "StopErr", "FromStop", "ErrClosed"
			case aFull:
				a, from, txt = "(Weird 4%nat)", "FromSlot", "ErrFull after the enqueue"
			default:
				a, from, txt = fmt.Sprintf("(Weird %d%%nat)", o.an), "FromSlot", fmt.Sprintf("unexpected result class %d", o.an)
			}
			emit(fmt.Sprintf("IGot %d%%nat %s %s", o.c, from, a), fmt.Sprintf("caller %d returns %s", o.c, txt))
		case oWait:
			seen := map[int]bool{}
			interest := []int{0}
			for _, pc := range s.p.Calls {
				interest = append(interest, pm.laneFor(pc.Hash))
			}
			for _, i := range interest {
				if seen[i] {
					continue
				}
				seen[i] = true
				l := pm.ln(i)
				if pm.x != xProc && pm.runnerKind() {
					for l.running < 0 && len(l.queue) > 0 && pm.cancelled[l.queue[0]] {
						c := l.queue[0]
						l.queue = l.queue[1:]
						emit(fmt.Sprintf("ISkip %d%%nat %d%%nat", i, c), fmt.Sprintf("skip(lane %d, call %d)", i, c))
					}
				}
				emit(fmt.Sprintf("IExit %d%%nat", i), fmt.Sprintf("lane %d goroutine returns", i))
			}
			emit("IWait", "WaitStop / wait group returned")
		case oHang:
			emit(fmt.Sprintf("IHang %d%%nat", o.what), fmt.Sprintf("HANG: awaited event %d did not happen", o.what))
		}
	}
	// drop the Run marker placeholders
	ci, ri := items[:0], []string{}
	for k, it := range items {
		if it != "" {
			ci = append(ci, it)
		}
		_ = k
	}
	ri = readable
	return ci, ri, accepted
}

func coqZ(v int64) string {
	if v < 0 {
		return fmt.Sprintf("(%d)%%Z", v)
	}
	return fmt.Sprintf("%d%%Z", v)
}

func inQueue(q []int, c int) bool {
	for _, d := range q {
		if d == c {
			return true
		}
	}
	return false
}
