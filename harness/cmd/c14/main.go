package main

// C14 actor lanes: line.Line, mline.MultiLine, async.RunnerQ (three call forms), async.ProcChan under forced schedules,
// and pipe.NormalizeSlotIndex directly over boundary hashes.

import (
	"encoding/json"
	"fmt"
	"math"
	"math/rand"
	"strconv"
	"strings"
	"time"

	"github.com/pinealctx/neptune/syncx/pipe"
	"verifharness/vh"
)

// ---------------------------------------------------------------- NormalizeSlotIndex

func slotCase(e *vh.Env, h, n int64) {
	var r int64
	pan := false
	func() {
		defer func() {
			if recover() != nil {
				pan = true
			}
		}()
		r = int64(pipe.NormalizeSlotIndex(int(h), int(n)))
	}()
	res := "None"
	if !pan {
		res = "(Some " + coqZ(r) + ")"
	}
	cls := "slot"
	if n <= 0 {
		cls = "slot-malformed"
	}
	var obsv interface{} = r
	if pan {
		obsv = "panic"
	}
	e.Emit(vh.Case{Coq: fmt.Sprintf("CSlot %s %s %s", coqZ(h), coqZ(n), res), Class: cls, Nontrivial: n > 0 && (h < 0 || h >= n),
		Desc:   map[string]interface{}{"call": "pipe.NormalizeSlotIndex", "hash": h, "slotSize": n, "observed": obsv},
		Replay: fmt.Sprintf("slot:%d:%d", h, n)})
}

func boundaryHashes(n int64) []int64 {
	hs := []int64{0, 1, -1, 2, -2, math.MaxInt64, math.MaxInt64 - 1, math.MinInt64, math.MinInt64 + 1, math.MinInt64 + 2,
		math.MaxInt32, math.MinInt32, math.MaxInt32 + 1, math.MinInt32 - 1, 1 << 62, -(1 << 62)}
	if n > 0 && n < math.MaxInt64/4 {
		hs = append(hs, n, -n, n-1, -(n - 1), n+1, -(n + 1), 2*n, -2*n, 2*n+3, -(2*n + 3))
	}
	return hs
}

func slotCases(e *vh.Env) {
	ns := []int64{1, 2, 3, 4, 5, 7, 8, 509, 1024, 8192, math.MaxInt32, math.MaxInt64, math.MaxInt64 - 1, 1 << 62, 0, -1, -2, -7, -509, math.MinInt64, math.MinInt64 + 1}
	for _, n := range ns {
		for _, h := range boundaryHashes(n) {
			slotCase(e, h, n)
		}
	}
	for i := 0; i < e.Scale(150, 3000); i++ {
		h := int64(e.Rnd.Uint64())
		var n int64
		switch e.Rnd.Intn(5) {
		case 0:
			n = int64(e.Rnd.Intn(1024) + 1)
		case 1:
			n = int64(e.Rnd.Uint64()>>1) | 1
		case 2:
			n = []int64{1, 2, 7, 509}[e.Rnd.Intn(4)]
		case 3:
			n = -int64(e.Rnd.Intn(1024)) // malformed: zero or negative lane count
		default:
			n = int64(e.Rnd.Intn(1 << 20))
		}
		if e.Rnd.Intn(4) == 0 {
			h = int64(e.Rnd.Intn(4096)) - 2048
		}
		slotCase(e, h, n)
	}
}

// ---------------------------------------------------------------- plans

func pickHashPool(rnd *rand.Rand, n int64) []int64 {
	all := boundaryHashes(n)
	k := 1 + rnd.Intn(4)
	pool := []int64{}
	for i := 0; i < k; i++ {
		var h int64
		switch rnd.Intn(4) {
		case 0:
			h = int64(rnd.Uint64())
		case 1:
			h = int64(rnd.Intn(64)) - 32
		default:
			h = all[rnd.Intn(len(all))]
		}
		pool = append(pool, h)
		// a partner that must land on the same lane / the mirrored hash
		if rnd.Intn(2) == 0 {
			switch rnd.Intn(3) {
			case 0:
				if h < math.MaxInt64-n && h >= 0 {
					pool = append(pool, h+n)
				}
			case 1:
				if h != math.MinInt64 {
					pool = append(pool, -h)
				}
			default:
				if h > math.MinInt64+n && h <= 0 {
					pool = append(pool, h-n)
				}
			}
		}
	}
	return pool
}

func genPlan(rnd *rand.Rand, x int, big bool) *plan { return genPlanWith(rnd, x, big, 0, nil) }

// genPlanWith: lanes > 0 / pool != nil fix the lane count and the hashes (MultiLine)
func genPlanWith(rnd *rand.Rand, x int, big bool, lanes int64, fixedPool []int64) *plan {
	p := &plan{X: x, Lanes: 1}
	if x == xMulti {
		p.Lanes = []int64{1, 2, 2, 7, 7, 509, 3, 4, 5, 8}[rnd.Intn(10)]
		if lanes > 0 {
			p.Lanes = lanes
		}
	}
	if x == xProc {
		p.Q = []int{1, 1, 2, 2, 3, 8}[rnd.Intn(6)]
	} else {
		p.Q = []int{0, 0, 1, 1, 2, 2, 3, 8}[rnd.Intn(8)]
	}
	nc := 1 + rnd.Intn(9)
	if big {
		nc = 1 + rnd.Intn(14)
	}
	pool := []int64{0}
	if x == xMulti {
		pool = pickHashPool(rnd, p.Lanes)
		if fixedPool != nil {
			pool = fixedPool
		}
	}
	for i := 1; i <= nc; i++ {
		p.Calls = append(p.Calls, pcall{ID: i, Hash: pool[rnd.Intn(len(pool))], Fail: rnd.Intn(4) == 0, Form: rnd.Intn(3)})
	}
	// simulate on the harness's transcription to choose applicable actions
	g := newModel(x, p.Lanes, p.Q)
	lateRun := rnd.Intn(4) == 0
	if !lateRun {
		p.Acts = append(p.Acts, act{K: "run"})
		g.started = true
	}
	if rnd.Intn(16) == 0 {
		p.Acts = append(p.Acts, act{K: "stop"})
		g.closed = true
	}
	next := 0
	done := map[int]bool{}
	gsettle := func() {
		if !g.started {
			return
		}
		for _, l := range g.lane {
			for l.running < 0 && len(l.queue) > 0 {
				h := l.queue[0]
				l.queue = l.queue[1:]
				if g.runnerKind() && g.cancelled[h] {
					done[h] = true
					continue
				}
				l.running = h
			}
		}
	}
	steps := 3*nc + 4 + rnd.Intn(6)
	stopAfter := rnd.Intn(nc + 2)
	if k := rnd.Intn(nc + 2); k > stopAfter {
		stopAfter = k
	}
	// Stop once this many calls were submitted; nc+1 = only at the very end
	cancels := 0
	for st := 0; st < steps; st++ {
		var running, queued []int
		for _, l := range g.lane {
			if l.running >= 0 {
				running = append(running, l.running)
			}
			queued = append(queued, l.queue...)
		}
		if next >= nc && len(running) == 0 && len(queued) == 0 && (g.started || rnd.Intn(2) == 0) {
			break
		}
		wSub, wRel, wCan, wStop, wRun := 0, 0, 0, 0, 0
		if next < nc {
			wSub = 10
		}
		if len(running) > 0 {
			wRel = 5
		}
		if cancels < nc {
			wCan = 3
		}
		if !g.closed && next >= stopAfter {
			wStop = 8
		} else if g.closed && rnd.Intn(10) == 0 {
			wStop = 1 // Stop twice
		}
		if !g.started {
			wRun = 2
		} else if x != xMulti && rnd.Intn(12) == 0 {
			wRun = 1 // Run() again on a running executor (guarded by a Once on Line / RunnerQ / ProcChan)
		}
		if wSub+wRel+wCan+wStop+wRun == 0 {
			break
		}
		r := rnd.Intn(wSub + wRel + wCan + wStop + wRun)
		switch {
		case r < wSub:
			c := p.Calls[next].ID
			next++
			if rnd.Intn(7) == 0 && !g.cancelled[c] {
				p.Acts = append(p.Acts, act{K: "can", C: c}) // context done before the enqueue
				g.cancelled[c] = true
			}
			p.Acts = append(p.Acts, act{K: "sub", C: c})
			ln := g.laneFor(p.Calls[c-1].Hash)
			if g.predict(ln) == sAcc {
				g.enqueue(c, ln)
			}
		case r < wSub+wRel:
			c := running[rnd.Intn(len(running))]
			p.Acts = append(p.Acts, act{K: "rel", C: c})
			g.ln(g.laneOf[c]).running = -1
			done[c] = true
		case r < wSub+wRel+wCan:
			var c int
			switch {
			case len(queued) > 0 && rnd.Intn(4) != 0:
				c = queued[rnd.Intn(len(queued))] // while queued
			case len(running) > 0 && rnd.Intn(3) != 0:
				c = running[rnd.Intn(len(running))] // while running
			default:
				c = 1 + rnd.Intn(nc) // anywhere: before the enqueue, after completion
			}
			if g.cancelled[c] {
				continue
			}
			cancels++
			p.Acts = append(p.Acts, act{K: "can", C: c})
			g.cancelled[c] = true
		case r < wSub+wRel+wCan+wStop:
			p.Acts = append(p.Acts, act{K: "stop"})
			g.closed = true
		default:
			if g.started {
				p.Acts = append(p.Acts, act{K: "rerun"})
			} else {
				p.Acts = append(p.Acts, act{K: "run"})
				g.started = true
			}
		}
		gsettle()
	}
	return p
}

// ---------------------------------------------------------------- running a plan and printing the case

type stats struct {
	hangs, cases, refusedFull, refusedClosed, skipped int
	place                                             map[string]int
}

func runPlan(e *vh.Env, p *plan, st *stats, tag string) bool {
	return runPlanReg(e, p, st, tag, nil, nil)
}

func runPlanReg(e *vh.Env, p *plan, st *stats, tag string, reg *shareReg, extra map[string]interface{}) bool {
	s := newSchedReg(p, reg)
	s.execute()
	all := s.observed()
	items, readable, accepted := s.coqTrace(all)
	calls := []string{}
	dcalls := []map[string]interface{}{}
	for _, pc := range p.Calls {
		idx := int64(s.idx[pc.ID])
		calls = append(calls, fmt.Sprintf("(%d%%nat, %s, %s, %s)", pc.ID, coqZ(pc.Hash), vh.CoqBool(pc.Fail), coqZ(idx)))
		d := map[string]interface{}{"id": pc.ID, "hash": pc.Hash, "callee_fails": pc.Fail}
		if p.X == xMulti {
			d["IndexOf"] = idx
		}
		if p.X == xRunner {
			d["form"] = []string{"AsyncCall", "AsyncDelegate", "AsyncProc"}[pc.Form%3]
		}
		if pc.Shared > 0 {
			d["shared_ctx"] = pc.Shared
		}
		if pc.Owner > 0 {
			d["owner"] = pc.Owner
		}
		dcalls = append(dcalls, d)
	}
	for _, it := range items {
		switch {
		case strings.HasPrefix(it, "ISkip"):
			st.skipped++
		case strings.HasSuffix(it, "SFull"):
			st.refusedFull++
		case strings.HasSuffix(it, "SClosed"):
			st.refusedClosed++
		}
	}
	if s.hung {
		st.hangs++
	}
	st.cases++
	for k, v := range s.place {
		st.place[k] += v
	}
	coq := fmt.Sprintf("CRun %s %s %d%%nat true %s %s", xNames[p.X], coqZ(p.Lanes), p.Q, vh.CoqList(calls), vh.CoqList(items))
	acts := []string{}
	for _, a := range p.Acts {
		if a.C != 0 {
			acts = append(acts, fmt.Sprintf("%s %d", a.K, a.C))
		} else {
			acts = append(acts, a.K)
		}
	}
	rp, _ := json.Marshal(p)
	cls := xShort[p.X]
	if p.X == xMulti {
		cls += "-n" + strconv.FormatInt(p.Lanes, 10)
	}
	desc := map[string]interface{}{"executor": xShort[p.X], "lanes": p.Lanes, "queue_size": p.Q, "calls": dcalls,
		"plan": strings.Join(acts, "; "), "trace": readable, "hang": s.hung}
	replay := "plan:" + string(rp)
	for k, v := range extra {
		if k == "_replay" {
			replay = v.(string)
		} else {
			desc[k] = v
		}
	}
	e.Emit(vh.Case{Coq: coq, Class: cls + tag, Nontrivial: accepted >= 2, Desc: desc, Replay: replay})
	return !s.hung
}

func main() {
	vh.Main("c14", func(e *vh.Env) {
		st := &stats{place: map[string]int{}}
		rs := &raceStats{}
		raceMs := map[string]int64{}
		instFlagged, instRounds := 0, 0
		if e.Replay != "" {
			switch {
			case strings.HasPrefix(e.Replay, "slot:"):
				f := strings.Split(e.Replay, ":")
				h, _ := strconv.ParseInt(f[1], 10, 64)
				n, _ := strconv.ParseInt(f[2], 10, 64)
				slotCase(e, h, n)
			case strings.HasPrefix(e.Replay, "burst:"):
				f := strings.Split(e.Replay, ":")
				bx, _ := strconv.Atoi(f[1])
				bs, _ := strconv.ParseInt(f[2], 10, 64)
				if bx >= 0 && bx < 4 {
					runBurst(e, bs, bx, st)
				}
			case strings.HasPrefix(e.Replay, "shared:"):
				if gs, err := strconv.ParseInt(e.Replay[7:], 10, 64); err == nil {
					runSharedGroup(e, gs, st)
				}
			case strings.HasPrefix(e.Replay, "long:"):
				f := strings.Split(e.Replay, ":")
				if len(f) == 5 {
					bx, _ := strconv.Atoi(f[1])
					n, _ := strconv.Atoi(f[2])
					w, _ := strconv.Atoi(f[3])
					ls, _ := strconv.ParseInt(f[4], 10, 64)
					if bx >= 0 && bx < 4 && n > 0 && n < 20000 {
						runLong(e, ls, bx, n, w, st)
					}
				}
			case strings.HasPrefix(e.Replay, "instances:"):
				f := strings.Split(e.Replay, ":")
				bx, _ := strconv.Atoi(f[1])
				bs, _ := strconv.ParseInt(f[2], 10, 64)
				if bx >= 0 && bx < 4 {
					// not forced: repeat until the screen flags an instance (bounded), else show one instance
					fl := 0
					for i := 0; i < 400 && fl == 0; i++ {
						runInstances(e, bs, bx, st, &fl, i == 399)
					}
				}
			case strings.HasPrefix(e.Replay, "stoprace:"):
				f := strings.Split(e.Replay, ":")
				bx, _ := strconv.Atoi(f[1])
				bs, _ := strconv.ParseInt(f[2], 10, 64)
				if bx >= 0 && bx < 4 {
					// the interleaving is not forced: repeat the round until the screen flags it (bounded)
					for i := 0; i < 2000; i++ {
						c, flag, _, _, _ := stopRaceRound(bs, bx, false)
						if flag || i == 1999 {
							e.Emit(c)
							break
						}
					}
				}
			case strings.HasPrefix(e.Replay, "plan:"):
				p := &plan{}
				if err := json.Unmarshal([]byte(e.Replay[5:]), p); err == nil {
					runPlan(e, p, st, "")
				}
			}
			return
		}
		only := -1
		if e.Search && e.Focus != "" {
			for x, n := range xShort {
				if strings.HasPrefix(strings.TrimPrefix(strings.TrimPrefix(strings.TrimPrefix(strings.TrimPrefix(e.Focus, "burst-"), "stop-vs-submit-"), "instances-"), "long-backlog-"), n) {
					only = x
				}
			}
		}
		if only < 0 {
			slotCases(e)
		}
		if only < 0 || only == xMulti || only == xLine {
			for i := 0; i < e.Scale(120, 1200) && st.hangs < 3; i++ {
				runSharedGroup(e, e.Rnd.Int63(), st)
			}
		}
		// Run called twice / three times before and after the first submissions: a gated callee and two calls queued behind it
		if only < 0 || only != xMulti {
			for _, x := range []int{xLine, xRunner, xProc} {
				if only >= 0 && only != x {
					continue
				}
				for v := 0; v < 5 && st.hangs < 3; v++ {
					runPlan(e, rerunPlan(x, v, e.Rnd), st, "-rerun")
				}
			}
		}
		per := e.Scale(300, 2500)
		for x := 0; x < 4; x++ {
			if only >= 0 && x != only {
				continue
			}
			n := per
			if x == xMulti {
				n = per * 3 / 2
			}
			if only >= 0 {
				n *= 3
			}
			for i := 0; i < n; i++ {
				if st.hangs >= 3 {
					break // a lane that hangs is reported by the cases already emitted; do not wait again and again
				}
				runPlan(e, genPlan(e.Rnd, x, e.Thorough || e.Search), st, "")
			}
			for i := 0; i < e.Scale(20, 200) && st.hangs < 3; i++ {
				runBurst(e, e.Rnd.Int63(), x, st)
			}
			if x == xLine {
				for i := 0; i < e.Scale(150, 1500) && st.hangs < 3; i++ {
					runPlan(e, genReusePlan(e.Rnd, e.Thorough || e.Search), st, "-reuse")
				}
			}
			// long histories: more than 1024 / 2048 pops with a backlog present
			{
				bulk := []int{1026, 2050}
				win := []int{}
				switch x {
				case xRunner:
					bulk = []int{1023, 1024, 1025, 1026, 1027, 2048, 2049, 2050, 2051, 3100}
					win = []int{1100, 2100}
				case xLine:
					bulk = []int{1024, 1025, 1026, 2049, 2050}
					win = []int{1100}
				case xMulti:
					bulk = []int{1025, 1026, 2050}
				}
				if e.Thorough || e.Search {
					bulk = []int{1023, 1024, 1025, 1026, 1027, 1028, 2047, 2048, 2049, 2050, 2051, 3100, 4200}
					win = []int{1100, 2100}
				}
				for _, n := range bulk {
					if st.hangs < 3 {
						runLong(e, e.Rnd.Int63(), x, n, 0, st)
					}
				}
				for _, n := range win {
					if st.hangs < 3 {
						runLong(e, e.Rnd.Int63(), x, n, 1+e.Rnd.Intn(3), st)
					}
				}
			}
			// independent instances driven at the same time
			ir := e.Scale(40, 300)
			if x == xRunner {
				ir = e.Scale(300, 1500)
			}
			if only >= 0 {
				ir *= 3
			}
			for i := 0; i < ir && st.hangs < 3; i++ {
				runInstances(e, e.Rnd.Int63(), x, st, &instFlagged, i%20 == 0)
			}
			instRounds += ir
			// Stop racing with the enqueues themselves
			rounds := e.Scale(600, 4000)
			if x == xRunner {
				rounds = e.Scale(2000, 12000)
			}
			if only >= 0 {
				rounds *= 3
			}
			t0 := time.Now()
			stopRaceClass(e, x, rounds, e.Scale(15, 60), rs, &st.hangs)
			raceMs[xShort[x]] = time.Since(t0).Milliseconds()
		}
		e.Meta["schedules"] = st.cases
		e.Meta["hangs"] = st.hangs
		e.Meta["refused_full"] = st.refusedFull
		e.Meta["refused_closed"] = st.refusedClosed
		e.Meta["skipped_by_runner"] = st.skipped
		e.Meta["placement"] = st.place
		e.Meta["stop_vs_submit"] = map[string]int{"rounds": rs.rounds, "emitted_to_coq": rs.emitted, "flagged_by_screen": rs.flagged,
			"accepted": rs.accepted, "refused": rs.refused, "accepted_never_run": rs.lost}
		e.Meta["stop_vs_submit_ms"] = raceMs
		e.Meta["instances"] = map[string]int{"rounds": instRounds, "flagged_by_screen": instFlagged}
	})
}

// rerunPlan: variant v = where the extra Run() calls fall (0: twice before any submission, 1: three times before, 2: twice
// after calls are queued, 3: three times after, 4: before and after)
func rerunPlan(x int, v int, rnd *rand.Rand) *plan {
	p := &plan{X: x, Lanes: 1, Q: 0}
	if x == xProc {
		p.Q = 4 + rnd.Intn(4)
	}
	n := 3 + rnd.Intn(3)
	for i := 1; i <= n; i++ {
		p.Calls = append(p.Calls, pcall{ID: i, Fail: rnd.Intn(5) == 0, Form: rnd.Intn(3)})
	}
	add := func(k string, c int) { p.Acts = append(p.Acts, act{K: k, C: c}) }
	add("run", 0)
	switch v {
	case 0, 4:
		add("rerun", 0)
	case 1:
		add("rerun", 0)
		add("rerun", 0)
	}
	for i := 1; i <= n; i++ {
		add("sub", i)
		if i == 2 && v >= 2 {
			add("rerun", 0)
			if v == 3 {
				add("rerun", 0)
			}
		}
	}
	if v >= 2 && rnd.Intn(2) == 0 {
		add("rerun", 0)
	}
	for i := 1; i <= n; i++ {
		add("rel", i)
	}
	add("stop", 0)
	return p
}
