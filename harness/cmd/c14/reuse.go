package main

// Class "line-reuse": a caller keeps ONE line.CallCtx value (exported fields Call / Param) and submits it again, with a
// new Param, as soon as its previous AsyncCall has returned - typically because its context ended while the call was still
// queued behind a running one.  The executor must have taken function and parameter at enqueue time: the old queued call
// still runs with its own parameter, exactly once, the new one with the new parameter.

import "math/rand"

func genReusePlan(rnd *rand.Rand, big bool) *plan {
	p := &plan{X: xLine, Lanes: 1, Reuse: true}
	p.Q = []int{0, 0, 2, 3, 8}[rnd.Intn(5)]
	nOwners := 1 + rnd.Intn(3)
	nc := 3 + rnd.Intn(6)
	if big {
		nc = 3 + rnd.Intn(11)
	}
	g := newModel(xLine, 1, p.Q)
	if rnd.Intn(5) != 0 {
		p.Acts = append(p.Acts, act{K: "run"})
		g.started = true
	}
	cur := make([]int, nOwners+1) // the owner's last call
	done := map[int]bool{}
	refused := map[int]bool{}
	next := 0
	gsettle := func() {
		if !g.started {
			return
		}
		for _, l := range g.lane {
			for l.running < 0 && len(l.queue) > 0 {
				l.running = l.queue[0]
				l.queue = l.queue[1:]
			}
		}
	}
	gsettle()
	for st := 0; st < 5*nc+6; st++ {
		var running, queued []int
		for _, l := range g.lane {
			if l.running >= 0 {
				running = append(running, l.running)
			}
			queued = append(queued, l.queue...)
		}
		free := []int{}
		for o := 1; o <= nOwners; o++ {
			c := cur[o]
			if c == 0 || done[c] || refused[c] || g.cancelled[c] {
				free = append(free, o)
			}
		}
		if next >= nc && len(running) == 0 && len(queued) == 0 {
			break
		}
		wSub, wRel, wCan, wStop, wRun := 0, 0, 0, 0, 0
		if next < nc && len(free) > 0 {
			wSub = 10
		}
		if len(running) > 0 {
			wRel = 3
			if len(queued) == 0 && next < nc {
				wRel = 1 // keep the lane busy so that calls queue up behind it
			}
		}
		if len(queued) > 0 {
			wCan = 8
		} else if len(running) > 0 {
			wCan = 1
		}
		if !g.closed && next >= nc-1 && rnd.Intn(6) == 0 {
			wStop = 2
		}
		if !g.started {
			wRun = 2
		}
		tot := wSub + wRel + wCan + wStop + wRun
		if tot == 0 {
			break
		}
		r := rnd.Intn(tot)
		switch {
		case r < wSub:
			o := free[rnd.Intn(len(free))]
			next++
			c := next
			p.Calls = append(p.Calls, pcall{ID: c, Hash: 0, Fail: rnd.Intn(5) == 0, Owner: o})
			cur[o] = c
			if rnd.Intn(10) == 0 {
				p.Acts = append(p.Acts, act{K: "can", C: c})
				g.cancelled[c] = true
			}
			p.Acts = append(p.Acts, act{K: "sub", C: c})
			if g.predict(0) == sAcc {
				g.enqueue(c, 0)
			} else {
				refused[c] = true
			}
		case r < wSub+wRel:
			c := running[rnd.Intn(len(running))]
			p.Acts = append(p.Acts, act{K: "rel", C: c})
			g.ln(0).running = -1
			done[c] = true
		case r < wSub+wRel+wCan:
			var c int
			if len(queued) > 0 {
				c = queued[rnd.Intn(len(queued))]
			} else {
				c = running[rnd.Intn(len(running))]
			}
			if g.cancelled[c] {
				continue
			}
			p.Acts = append(p.Acts, act{K: "can", C: c})
			g.cancelled[c] = true
		case r < wSub+wRel+wCan+wStop:
			p.Acts = append(p.Acts, act{K: "stop"})
			g.closed = true
		default:
			p.Acts = append(p.Acts, act{K: "run"})
			g.started = true
		}
		gsettle()
	}
	return p
}
