package main

// The harness's own (untrusted) transcription of the lane LTS of C14_Exec.v / C14_Multi.v.  It is used for three things
// only: to generate plans whose actions are mostly applicable, to know which event the driver has to wait for next
// (never a sleep), and to insert the labels no observer can see (Skip, Exit, which select case a caller took) into the
// observed trace.  Coq replays the result; an error here can only make case_accept fail.

import "math"

const (
	xLine = iota
	xMulti
	xRunner
	xProc
)

var xNames = []string{"XLine", "XMulti", "XRunner", "XProc"}
var xShort = []string{"line", "mline", "runner", "proc"}

const (
	sAcc = iota
	sFull
	sClosed
)

var sNames = []string{"SAcc", "SFull", "SClosed"}

// slotNew is NormalizeSlotIndex as repaired, on 64-bit ints (n != 0).
func slotNew(h, n int64) int64 {
	var r int64
	if n == -1 {
		r = 0 // Go: x % -1 == 0 for every x, MinInt included
	} else {
		r = h % n
	}
	if r < 0 {
		r = -r
	}
	return r
}

type mlane struct {
	queue   []int
	running int // -1 = idle
}

type model struct {
	x         int
	lanes     int64
	qsize     int
	started   bool
	closed    bool
	lane      map[int]*mlane
	laneOf    map[int]int
	cancelled map[int]bool
	answered  map[int]bool // the result slot / wait channel of the call is ready
	accepted  map[int]bool
}

func newModel(x int, lanes int64, qsize int) *model {
	return &model{x: x, lanes: lanes, qsize: qsize, lane: map[int]*mlane{}, laneOf: map[int]int{}, cancelled: map[int]bool{},
		answered: map[int]bool{}, accepted: map[int]bool{}}
}

func (m *model) runnerKind() bool { return m.x == xRunner || m.x == xProc }

func (m *model) laneFor(hash int64) int {
	if m.x != xMulti {
		return 0
	}
	return int(slotNew(hash, m.lanes))
}

func (m *model) ln(i int) *mlane {
	l := m.lane[i]
	if l == nil {
		l = &mlane{running: -1}
		m.lane[i] = l
	}
	return l
}

// what the model says a submit would be told now
func (m *model) predict(lane int) int {
	if m.closed {
		return sClosed
	}
	if m.qsize > 0 && len(m.ln(lane).queue) >= m.qsize {
		return sFull
	}
	return sAcc
}

func (m *model) enqueue(c, lane int) {
	m.laneOf[c] = lane
	m.accepted[c] = true
	l := m.ln(lane)
	l.queue = append(l.queue, c)
}

// remove c from the queue of its lane wherever it is (the head in every run of the model)
func (m *model) take(lane, c int) {
	l := m.ln(lane)
	for i, d := range l.queue {
		if d == c {
			l.queue = append(append([]int{}, l.queue[:i]...), l.queue[i+1:]...)
			return
		}
	}
}

var _ = math.MaxInt64
