package main

// Adapters: the four executors of /repo behind one interface, an observable context, the error values callees and
// contexts use (each carries the id of its own call, so a result or an error delivered to the wrong caller is visible).

import (
	"context"
	"fmt"
	"sync"
	"sync/atomic"
	"time"

	"github.com/pinealctx/neptune/syncx/pipe"
	"github.com/pinealctx/neptune/syncx/pipe/async"
	"github.com/pinealctx/neptune/syncx/pipe/line"
	"github.com/pinealctx/neptune/syncx/pipe/mline"
)

type ctxErr struct{ id int }

func (e *ctxErr) Error() string { return fmt.Sprintf("ctx-of-call-%d-done", e.id) }

type calleeErr struct{ id int }

func (e *calleeErr) Error() string { return fmt.Sprintf("callee-error-of-call-%d", e.id) }

// obsCtx is a context.Context owned by the harness: Done() calls are counted (the executor calls Done() exactly where it
// is about to select on the context: the caller after a successful enqueue, a runner's worker before the call), Err() is
// an error that names the call.
type obsCtx struct {
	id    int
	done  chan struct{}
	mu    sync.Mutex
	err   error
	calls int32
	poke  func()
}

func newObsCtx(id int, poke func()) *obsCtx {
	return &obsCtx{id: id, done: make(chan struct{}), poke: poke}
}

func (c *obsCtx) Deadline() (time.Time, bool)       { return time.Time{}, false }
func (c *obsCtx) Value(key interface{}) interface{} { return nil }
func (c *obsCtx) Done() <-chan struct{} {
	atomic.AddInt32(&c.calls, 1)
	c.poke()
	return c.done
}
func (c *obsCtx) Err() error {
	c.mu.Lock()
	defer c.mu.Unlock()
	return c.err
}
func (c *obsCtx) cancel() {
	c.mu.Lock()
	if c.err == nil {
		c.err = &ctxErr{c.id}
		close(c.done)
	}
	c.mu.Unlock()
}
func (c *obsCtx) nCalls() int { return int(atomic.LoadInt32(&c.calls)) }

// body(lane index passed by the executor, parameter passed through the executor or -1) is the harness's callee
type bodyFn func(lane int, param int) (int, error)

type executor interface {
	Run()
	Stop()
	Call(ctx context.Context, id int, hash int, form int, body bodyFn) (interface{}, error)
	WaitExit()
	IndexOf(hash int) int
}

func paramOf(req interface{}) int {
	if v, ok := req.(int); ok {
		return v
	}
	return -2
}

// ---- line.Line
// shareReg: call-context values that outlive one executor instance (class shared-callctx): one line.CallCtx per owner, one
// mline.CallCtx per key, and the callees the shared Call functions dispatch to
type shareReg struct {
	mu     sync.Mutex
	ccs    map[int]*line.CallCtx  // one CallCtx value per owner, reused across that owner's submissions
	mcs    map[int]*mline.CallCtx // one CallCtx value per key (fixed hash), reused on every instance
	bodies map[int]bodyFn         // the shared Call function finds the callee by the parameter / context it is handed
}

func newShareReg() *shareReg {
	return &shareReg{ccs: map[int]*line.CallCtx{}, mcs: map[int]*mline.CallCtx{}, bodies: map[int]bodyFn{}}
}

type exLine struct {
	l   *line.Line
	wg  *sync.WaitGroup
	reg *shareReg
}

// CallOwned: the owner re-submits its one CallCtx value with a new Param (exported fields, plain caller-side reuse; legal as
// soon as the owner's previous AsyncCall has returned - the executor is documented to take function and param, not the value).
func (e *exLine) CallOwned(ctx context.Context, id int, owner int, body bodyFn) (interface{}, error) {
	r := e.reg
	r.mu.Lock()
	cc := r.ccs[owner]
	if cc == nil {
		cc = line.NewCallCtx(func(_ context.Context, req interface{}) (interface{}, error) {
			p := paramOf(req)
			r.mu.Lock()
			b := r.bodies[p]
			r.mu.Unlock()
			if b == nil {
				return -1, nil
			}
			return b(0, p)
		}, id)
		r.ccs[owner] = cc
	}
	r.bodies[id] = body
	r.mu.Unlock()
	cc.Param = id
	return e.l.AsyncCall(ctx, cc)
}

func newExLine(q int) *exLine {
	wg := &sync.WaitGroup{}
	return &exLine{l: line.NewLine(wg, line.WithQSize(q), line.WithName("c14")), wg: wg, reg: newShareReg()}
}
func (e *exLine) Run()  { e.l.Run() }
func (e *exLine) Stop() { e.l.Stop() }
func (e *exLine) Call(ctx context.Context, id int, hash int, form int, body bodyFn) (interface{}, error) {
	return e.l.AsyncCall(ctx, line.NewCallCtx(func(_ context.Context, req interface{}) (interface{}, error) {
		return body(0, paramOf(req))
	}, id))
}
func (e *exLine) WaitExit()            { e.wg.Wait() }
func (e *exLine) IndexOf(hash int) int { return 0 }

// ---- mline.MultiLine
type exMulti struct {
	m   *mline.MultiLine
	reg *shareReg
}

func newExMulti(lanes, q int) *exMulti {
	return &exMulti{m: mline.NewMultiLine(pipe.WithSlotSize(lanes), pipe.WithQSize(q)), reg: newShareReg()}
}

// CallShared: the call goes through the ONE mline.CallCtx value of this key (prepared once with NewCallCtx, fields
// unexported: the value is immutable for the caller and may be handed to any MultiLine any number of times).  Function and
// parameter are those of the value; the callee learns which submission it runs for from the context it is passed.
func (e *exMulti) CallShared(ctx context.Context, id int, key int, hash int, body bodyFn) (interface{}, error) {
	r := e.reg
	r.mu.Lock()
	cc := r.mcs[key]
	if cc == nil {
		cc = mline.NewCallCtx(hash, func(c context.Context, sIndex int, _ interface{}) (interface{}, error) {
			oc, ok := c.(*obsCtx)
			if !ok {
				return -1, nil
			}
			r.mu.Lock()
			b := r.bodies[oc.id]
			r.mu.Unlock()
			if b == nil {
				return -1, nil
			}
			return b(sIndex, -1)
		}, nil)
		r.mcs[key] = cc
	}
	r.bodies[id] = body
	r.mu.Unlock()
	return e.m.AsyncCall(ctx, cc)
}
func (e *exMulti) Run()  { e.m.Run() }
func (e *exMulti) Stop() { e.m.Stop() }
func (e *exMulti) Call(ctx context.Context, id int, hash int, form int, body bodyFn) (interface{}, error) {
	return e.m.AsyncCall(ctx, mline.NewCallCtx(hash, func(_ context.Context, sIndex int, req interface{}) (interface{}, error) {
		return body(sIndex, paramOf(req))
	}, id))
}
func (e *exMulti) WaitExit()            { _ = e.m.WaitStop(context.Background()) }
func (e *exMulti) IndexOf(hash int) int { return e.m.IndexOf(hash) }

// ---- async.RunnerQ: three call forms
type exRunner struct {
	r  *async.RunnerQ
	wg *sync.WaitGroup
}

func newExRunner(q int) *exRunner {
	wg := &sync.WaitGroup{}
	return &exRunner{r: async.NewRunnerQ(async.WithQSize(q), async.WithWaitGroup(wg), async.WithName("c14")), wg: wg}
}

type procImpl struct{ f func() (interface{}, error) }

func (p *procImpl) Do(_ context.Context) (interface{}, error) { return p.f() }

func (e *exRunner) Run()  { e.r.Run() }
func (e *exRunner) Stop() { e.r.Stop() }
func (e *exRunner) Call(ctx context.Context, id int, hash int, form int, body bodyFn) (interface{}, error) {
	switch form % 3 {
	case 0: // reflective: func(ctx, arg) (result, error)
		return e.r.AsyncCall(func(_ context.Context, arg int) (int, error) { return body(0, arg) }, ctx, id)
	case 1:
		return e.r.AsyncDelegate(ctx, func(_ context.Context) (interface{}, error) { return body(0, -1) })
	default:
		return e.r.AsyncProc(ctx, &procImpl{func() (interface{}, error) { return body(0, -1) }})
	}
}
func (e *exRunner) WaitExit()            { e.r.WaitStop(); e.wg.Wait() }
func (e *exRunner) IndexOf(hash int) int { return 0 }

// ---- async.ProcChan
type exProc struct {
	p  *async.ProcChan
	wg *sync.WaitGroup
}

func newExProc(q int) *exProc {
	wg := &sync.WaitGroup{}
	return &exProc{p: async.NewProcChan(async.WithQSize(q), async.WithWaitGroup(wg), async.WithName("c14")), wg: wg}
}
func (e *exProc) Run()  { e.p.Run() }
func (e *exProc) Stop() { e.p.Stop() }
func (e *exProc) Call(ctx context.Context, id int, hash int, form int, body bodyFn) (interface{}, error) {
	return e.p.AsyncProc(ctx, &procImpl{func() (interface{}, error) { return body(0, -1) }})
}
func (e *exProc) WaitExit()            { e.wg.Wait() }
func (e *exProc) IndexOf(hash int) int { return 0 }

func newExecutor(x int, lanes int64, q int) executor {
	switch x {
	case xLine:
		return newExLine(q)
	case xMulti:
		return newExMulti(int(lanes), q)
	case xRunner:
		return newExRunner(q)
	default:
		return newExProc(q)
	}
}

// classification of what a caller got
const (
	aVal = iota
	aCtx
	aFull
	aClosed
	aWeird
)

func classify(r interface{}, err error) (kind int, n int) {
	if err == nil {
		if v, ok := r.(int); ok && v >= 0 {
			return aVal, 2 * v
		}
		return aWeird, 1
	}
	switch e := err.(type) {
	case *calleeErr:
		return aVal, 2*e.id + 1
	case *ctxErr:
		return aCtx, e.id
	}
	if err == pipe.ErrQueueFull || err == async.ErrFull {
		return aFull, 0
	}
	if err == pipe.ErrQueueClosed || err == async.ErrClosed {
		return aClosed, 0
	}
	return aWeird, 2
}
