package main

// Class "shared-callctx": one call-context VALUE, several executors.  A mline.CallCtx prepared once with NewCallCtx (its
// fields are unexported: for the caller the value is immutable) is handed to two or three MultiLine instances with different
// lane counts (4 then 5, 8 then 3, ...) and several times to each of them, mixed with fresh contexts of equal hash.  Each
// instance is its own case: the lane of a call is NormalizeSlotIndex(hash, lane count of THAT instance) whatever the
// context value went through before, equal hashes run on one lane and never overlap.  The callee learns which submission
// it runs for from the context it is passed.  The instances are driven one after the other, each by a forced schedule.
// The same with line.Line: the owners' line.CallCtx values of the line-reuse class are carried over to a second Line.

import (
	"fmt"
	"math"
	"math/rand"

	"verifharness/vh"
)

func offsetPlan(p *plan, off int) {
	for i := range p.Calls {
		p.Calls[i].ID += off
	}
	for i := range p.Acts {
		if p.Acts[i].C != 0 {
			p.Acts[i].C += off
		}
	}
}

var laneSeqs = [][]int64{{4, 5}, {8, 3}, {7, 2}, {5, 4, 3}, {3, 8}, {509, 7}, {7, 509}, {2, 7, 4}, {5, 8}, {4, 4}, {1, 5}}

func runSharedGroup(e *vh.Env, gseed int64, st *stats) {
	rnd := rand.New(rand.NewSource(gseed))
	big := e.Thorough || e.Search
	reg := newShareReg()
	replay := fmt.Sprintf("shared:%d", gseed)
	if rnd.Intn(6) == 0 {
		// two Lines, the owners keep their CallCtx values
		for k := 0; k < 2; k++ {
			p := genReusePlan(rnd, big)
			offsetPlan(p, 100*k)
			runPlanReg(e, p, st, "-shared", reg, map[string]interface{}{"_replay": replay, "instance": k,
				"group": "two line.Line instances, the owners' line.CallCtx values are carried over from the first to the second"})
		}
		return
	}
	seq := laneSeqs[rnd.Intn(len(laneSeqs))]
	nk := 1 + rnd.Intn(2)
	hashes := make([]int64, nk)
	for j := range hashes {
		switch rnd.Intn(6) {
		case 0:
			hashes[j] = []int64{math.MinInt64, math.MaxInt64, math.MinInt64 + 1, math.MaxInt64 - 1, -1, math.MinInt32, math.MaxInt32}[rnd.Intn(7)]
		case 1:
			hashes[j] = int64(rnd.Uint64())
		default:
			hashes[j] = int64(rnd.Intn(100)) - 40
		}
	}
	pool := append([]int64{}, hashes...)
	if rnd.Intn(2) == 0 {
		pool = append(pool, int64(rnd.Intn(64))-32)
	}
	for k, lanes := range seq {
		p := genPlanWith(rnd, xMulti, big, lanes, pool)
		first := map[int]bool{}
		for i := range p.Calls {
			for j, h := range hashes {
				if p.Calls[i].Hash == h && (!first[j] || rnd.Intn(5) < 3) {
					p.Calls[i].Shared = j + 1
					first[j] = true
					break
				}
			}
		}
		offsetPlan(p, 100*k)
		runPlanReg(e, p, st, "-shared", reg, map[string]interface{}{"_replay": replay, "instance": k, "lane_counts_of_the_group": seq,
			"hashes_of_the_shared_contexts": hashes,
			"group":                         "MultiLine instances driven one after the other; calls marked shared_ctx go through ONE mline.CallCtx value per key"})
	}
}
