package main

// Unforced concurrency: K goroutines submit calls at the same time to a running executor whose callee does not block
// (it only yields between its two stamps).  Nobody can see in which order the enqueues happened, so the harness resolves
// it: on each lane the order of the enqueues is the order in which the callees were entered.  The case says so
// (fifo = false): the monitor then checks everything except the start-order clause.

import (
	"fmt"
	"math/rand"
	"runtime"
	"sort"
	"strconv"
	"sync"
	"sync/atomic"
	"time"

	"verifharness/vh"
)

// one unforced burst on one executor instance; several of them can run at the same time on independent instances
type burstRun struct {
	x      int
	lanes  int64
	q      int
	K, M   int
	idBase int
	yield  bool
	p      *plan
	s      *sched
	seed   int64
}

func prepBurst(bseed int64, x int, big bool, idBase int, K, M int, form0 bool) *burstRun {
	rnd := rand.New(rand.NewSource(bseed))
	lanes := int64(1)
	if x == xMulti {
		lanes = []int64{1, 2, 7, 509}[rnd.Intn(4)]
	}
	if K == 0 {
		K = 4 + rnd.Intn(6)
		M = 1 + rnd.Intn(3)
		if big {
			K = 6 + rnd.Intn(12)
			M = 1 + rnd.Intn(4)
		}
	}
	total := K * M
	q := 0
	if x == xProc || rnd.Intn(2) == 0 {
		q = total // never full
	}
	p := &plan{X: x, Lanes: lanes, Q: q}
	pool := []int64{0}
	if x == xMulti {
		pool = pickHashPool(rnd, lanes)
	}
	for i := 1; i <= total; i++ {
		form := rnd.Intn(3)
		if form0 && rnd.Intn(8) != 0 {
			form = 0
		}
		p.Calls = append(p.Calls, pcall{ID: idBase + i, Hash: pool[rnd.Intn(len(pool))], Fail: rnd.Intn(5) == 0, Form: form})
	}
	s := newSched(p)
	// callees do not block
	for c, g := range s.gates {
		s.gopen[c] = true
		close(g)
	}
	b := &burstRun{x: x, lanes: lanes, q: q, K: K, M: M, idBase: idBase, yield: rnd.Intn(2) == 0, p: p, s: s, seed: bseed}
	// Line / MultiLine run a call whose context is done; its caller may get either answer.  (For the runners the moment
	// the worker passes over such a call cannot be seen without a forced schedule: none here.)
	if x == xLine || x == xMulti {
		for i := 1; i <= total; i++ {
			if rnd.Intn(6) == 0 {
				s.items = append(s.items, obs{stamp: s.stamp(), kind: oCancel, c: idBase + i})
				s.ctxs[idBase+i].cancel()
			}
		}
	}
	return b
}

// run the burst (callers leave when startCh is closed), Stop, wait for the lane goroutines, build the case
func (b *burstRun) run(startCh chan struct{}, cls string, extra map[string]interface{}) (vh.Case, bool) {
	s, x, K, M := b.s, b.x, b.K, b.M
	body := func(id int) bodyFn {
		inner := s.body(id)
		return func(lane int, param int) (int, error) {
			if b.yield {
				runtime.Gosched()
			}
			return inner(lane, param)
		}
	}
	s.ex.Run()
	s.m.started = true
	var wg sync.WaitGroup
	for k := 0; k < K; k++ {
		wg.Add(1)
		go func(k int) {
			defer wg.Done()
			<-startCh
			for j := 0; j < M; j++ {
				c := b.idBase + k*M + j + 1
				pc := s.calls[c]
				res := &result{}
				func() {
					defer func() { res.pan = recover() }()
					res.r, res.err = s.ex.Call(s.ctxs[c], c, int(pc.Hash), pc.Form, body(c))
				}()
				res.calls = s.ctxs[c].nCalls()
				res.stamp = s.stamp()
				s.mu.Lock()
				s.results[c] = res
				s.mu.Unlock()
			}
		}(k)
	}
	allBack := make(chan struct{})
	go func() { wg.Wait(); close(allBack) }()
	hung := false
	select {
	case <-allBack:
	case <-time.After(hangTimeout()):
		hung = true
		atomic.AddInt32(&hangCount, 1)
	}
	stopStamp := s.stamp()
	s.ex.Stop()
	s.stopped = true
	exited := make(chan struct{})
	go func() { s.ex.WaitExit(); atomic.StoreInt64(&s.exitAt, s.stamp()); close(exited) }()
	select {
	case <-exited:
	case <-time.After(hangTimeout()):
		if !hung {
			atomic.AddInt32(&hangCount, 1)
		}
		hung = true
	}
	// ---- the trace
	s.mu.Lock()
	ev := append([]obs{}, s.evlog...)
	res := map[int]*result{}
	for c, r := range s.results {
		res[c] = r
	}
	s.mu.Unlock()
	sort.SliceStable(ev, func(i, j int) bool { return ev[i].stamp < ev[j].stamp })
	items := []string{}
	readable := []string{}
	emit := func(coq, txt string) { items = append(items, coq); readable = append(readable, txt) }
	for _, it := range s.items {
		emit(fmt.Sprintf("ICancel %d%%nat", it.c), fmt.Sprintf("cancel ctx of %d (before the burst)", it.c))
	}
	// resolved: enqueue order = order in which the callees were entered; calls that never ran but were accepted go last
	subbed := map[int]int{}
	accepted := 0
	sub := func(c int, out int) {
		if _, ok := subbed[c]; ok {
			return
		}
		subbed[c] = out
		emit(fmt.Sprintf("ISub %d%%nat %s", c, sNames[out]), fmt.Sprintf("submit %d -> %s (position resolved by the harness)", c, sNames[out]))
		if out == sAcc {
			accepted++
		}
	}
	starts := map[int]int{}
	for _, o := range ev {
		if o.kind == oStart {
			starts[o.c]++
			sub(o.c, sAcc)
		}
	}
	ids := []int{}
	for c := range res {
		ids = append(ids, c)
	}
	sort.Ints(ids)
	for _, c := range ids {
		r := res[c]
		if r.pan == nil && r.calls == 0 {
			switch k, _ := classify(r.r, r.err); k {
			case aFull:
				sub(c, sFull)
				continue
			case aClosed:
				sub(c, sClosed)
				continue
			}
		}
		sub(c, sAcc)
	}
	// the Go screen (decides only what is sampled; Coq decides the verdict)
	flag := hung
	all := append([]obs{}, ev...)
	for c, r := range res {
		if r.pan == nil && r.calls == 0 {
			if k, _ := classify(r.r, r.err); k == aFull || k == aClosed {
				continue
			}
		}
		o := obs{stamp: r.stamp, kind: oGot, c: c}
		if r.pan != nil {
			o.ak, o.an = aWeird, 9
		} else {
			o.ak, o.an = classify(r.r, r.err)
		}
		if o.ak == aWeird || o.ak == aFull || (o.ak == aClosed && x != xProc) || (o.ak == aVal && o.an/2 != c) || (o.ak == aCtx && o.an != c) {
			flag = true
		}
		all = append(all, o)
	}
	for c, out := range subbed {
		if (out == sAcc && starts[c] != 1 && x != xProc) || starts[c] > 1 || (out != sAcc && starts[c] > 0) {
			flag = true
		}
	}
	for c, n := range starts {
		if _, ok := subbed[c]; !ok || n > 1 {
			flag = true
		}
	}
	open := map[int64]int{}
	for _, o := range ev {
		switch o.kind {
		case oStart:
			if open[o.lane] != 0 {
				flag = true
			}
			open[o.lane] = o.c
		case oEnd:
			if open[o.lane] != o.c {
				flag = true
			}
			open[o.lane] = 0
		}
	}
	all = append(all, obs{stamp: stopStamp, kind: oStop})
	if ex := atomic.LoadInt64(&s.exitAt); ex != 0 {
		all = append(all, obs{stamp: ex, kind: oWait})
	}
	if hung {
		all = append(all, obs{stamp: s.stamp(), kind: oHang, what: 8})
	}
	sort.SliceStable(all, func(i, j int) bool { return all[i].stamp < all[j].stamp })
	s.hung = hung
	s.items = nil
	it2, rd2, _ := s.coqTraceNoSub(all)
	items = append(items, it2...)
	readable = append(readable, rd2...)
	calls := []string{}
	for _, pc := range b.p.Calls {
		calls = append(calls, fmt.Sprintf("(%d%%nat, %s, %s, %s)", pc.ID, coqZ(pc.Hash), vh.CoqBool(pc.Fail), coqZ(int64(s.idx[pc.ID]))))
	}
	if x == xMulti {
		cls += "-n" + strconv.FormatInt(b.lanes, 10)
	}
	coq := fmt.Sprintf("CRun %s %s %d%%nat false %s %s", xNames[x], coqZ(b.lanes), b.q, vh.CoqList(calls), vh.CoqList(items))
	if len(readable) > 70 {
		tail := readable[len(readable)-10:]
		readable = append(append(readable[:60], fmt.Sprintf("... %d more ...", len(readable)-70)), tail...)
	}
	desc := map[string]interface{}{"executor": xShort[x], "lanes": b.lanes, "queue_size": b.q, "concurrent_callers": K, "calls_per_caller": M,
		"yield_in_callee": b.yield, "trace": readable, "hang": hung}
	for k, v := range extra {
		desc[k] = v
	}
	return vh.Case{Coq: coq, Class: cls, Nontrivial: accepted >= 2, Desc: desc}, flag
}

func runBurst(e *vh.Env, bseed int64, x int, st *stats) {
	b := prepBurst(bseed, x, e.Thorough || e.Search, 0, 0, 0, false)
	startCh := make(chan struct{})
	close(startCh)
	c, _ := b.run(startCh, "burst-"+xShort[x], nil)
	c.Replay = fmt.Sprintf("burst:%d:%d", x, bseed)
	st.cases++
	if b.s.hung {
		st.hangs++
	}
	e.Emit(c)
}

// Several independent instances of one executor kind, each driven by its own callers, all at the same time.  Instances
// share nothing by contract, so every clause holds per instance under every schedule; the call ids of the instances are
// disjoint, so a parameter, a result or an execution that leaks from one instance into another is visible in the other's
// case as a value / a call that is not its own.
func runInstances(e *vh.Env, iseed int64, x int, st *stats, flagged *int, sample bool) {
	rnd := rand.New(rand.NewSource(iseed))
	n := 2 + rnd.Intn(3)
	K := 4 + rnd.Intn(5)
	M := 4 + rnd.Intn(8)
	if e.Thorough || e.Search {
		M = 6 + rnd.Intn(12)
	}
	bs := make([]*burstRun, n)
	for i := range bs {
		bs[i] = prepBurst(rnd.Int63(), x, false, i*K*M, K, M, true)
	}
	startCh := make(chan struct{})
	cases := make([]vh.Case, n)
	flags := make([]bool, n)
	var wg sync.WaitGroup
	for i := range bs {
		wg.Add(1)
		go func(i int) {
			defer wg.Done()
			cases[i], flags[i] = bs[i].run(startCh, "instances-"+xShort[x], map[string]interface{}{"instance": i, "instances_running_concurrently": n,
				"call_ids_of_this_instance": fmt.Sprintf("%d..%d", i*K*M+1, (i+1)*K*M)})
		}(i)
	}
	close(startCh)
	wg.Wait()
	for i := range bs {
		st.cases++
		if bs[i].s.hung {
			st.hangs++
		}
		cases[i].Replay = fmt.Sprintf("instances:%d:%d", x, iseed)
		if flags[i] {
			*flagged++
			if *flagged > 12 {
				continue
			}
			e.Emit(cases[i])
		} else if sample && i == 0 {
			e.Emit(cases[i])
		}
	}
}

// coqTraceNoSub prints a stamp-ordered list of facts that contains no submits (burst mode): the lane bookkeeping needed
// for the Exit labels only.
func (s *sched) coqTraceNoSub(all []obs) (items []string, readable []string, n int) {
	emit := func(coq, txt string) { items = append(items, coq); readable = append(readable, txt) }
	for _, o := range all {
		switch o.kind {
		case oStart:
			emit(fmt.Sprintf("IStart %s %d%%nat", coqZ(o.lane), o.c), fmt.Sprintf("callee of %d entered, lane index %d", o.c, o.lane))
		case oEnd:
			emit(fmt.Sprintf("IEnd %s %d%%nat", coqZ(o.lane), o.c), fmt.Sprintf("callee of %d returned", o.c))
		case oStop:
			emit("IStop", "Stop()")
		case oGot:
			var a, from, txt string
			switch o.ak {
			case aVal:
				a, from, txt = fmt.Sprintf("(Val %d%%nat)", o.an), "FromSlot", fmt.Sprintf("value %d", o.an)
			case aCtx:
				a, from, txt = fmt.Sprintf("(CtxErr %d%%nat)", o.an), "FromCtx", fmt.Sprintf("error of the context of call %d", o.an)
			case aClosed:
				a, from, txt = "StopErr", "FromStop", "ErrClosed"
			default:
				a, from, txt = fmt.Sprintf("(Weird %d%%nat)", o.an+4), "FromSlot", "unexpected result"
			}
			emit(fmt.Sprintf("IGot %d%%nat %s %s", o.c, from, a), fmt.Sprintf("caller %d returns %s", o.c, txt))
		case oWait:
			seen := map[int]bool{}
			m := newModel(s.p.X, s.p.Lanes, s.p.Q)
			for _, i := range append([]int{0}, func() []int {
				r := []int{}
				for _, pc := range s.p.Calls {
					r = append(r, m.laneFor(pc.Hash))
				}
				return r
			}()...) {
				if !seen[i] {
					seen[i] = true
					emit(fmt.Sprintf("IExit %d%%nat", i), fmt.Sprintf("lane %d goroutine returns", i))
				}
			}
			emit("IWait", "WaitStop / wait group returned")
		case oHang:
			emit(fmt.Sprintf("IHang %d%%nat", o.what), "HANG: callers or lane goroutines did not return")
		}
	}
	return items, readable, 0
}
