package main

// Class "stop-vs-submit": Stop racing with the enqueues themselves.  A fresh executor per round; N submitters and one
// stopper leave a barrier together, every submitter issues a few calls one after the other until one is refused.
// Nothing is forced and nothing is timed: after the lane goroutines have returned (WaitStop / the wait group - a positive
// observation) every submitter is followed until it has either finished or sits in an accepted call (its ctx.Done() was
// consulted, i.e. the enqueue returned nil) whose callee was never entered.  With the goroutines gone such a call can never
// run: "accepted, never executed, the caller could only leave through its own context" is then a fact, not a time-out.
// The contexts of these callers are cancelled only after the trace was recorded, to let the goroutines go.
//
// What holds for every interleaving and is what the monitor checks (fifo = false: the order of the racing enqueues cannot
// be observed, the harness resolves it as in the burst class): a submission is refused, or it is accepted and then its
// callee ran exactly once, alone on its lane, and the caller received its own result (ProcChan: or ErrClosed); the lane
// goroutines return.  Rounds are screened in Go by a few counters; every round the screen flags and a sample of the others
// are emitted and decided in Coq.

import (
	"fmt"
	"math/rand"
	"runtime"
	"sort"
	"strconv"
	"sync"
	"sync/atomic"

	"verifharness/vh"
)

type raceStats struct {
	rounds, emitted, flagged, accepted, refused, lost int
}

// one round; returns the case (always built) and whether the Go screen flags it
func stopRaceRound(rseed int64, x int, big bool) (vh.Case, bool, int, int, int) {
	rnd := rand.New(rand.NewSource(rseed))
	lanes := int64(1)
	if x == xMulti {
		lanes = []int64{1, 2, 7, 509}[rnd.Intn(4)]
	}
	N := []int{8, 16, 32, 64, 128}[rnd.Intn(5)]
	if big && rnd.Intn(2) == 0 {
		N = 128
	}
	M := 1 + rnd.Intn(3)
	total := N * M
	q := 0
	if x == xProc {
		q = total
	}
	p := &plan{X: x, Lanes: lanes, Q: q}
	pool := []int64{0}
	if x == xMulti {
		pool = pickHashPool(rnd, lanes)
	}
	for i := 1; i <= total; i++ {
		p.Calls = append(p.Calls, pcall{ID: i, Hash: pool[rnd.Intn(len(pool))], Fail: rnd.Intn(8) == 0, Form: rnd.Intn(3)})
	}
	s := newSched(p)
	for c, g := range s.gates {
		s.gopen[c] = true
		close(g)
	}
	spin := rnd.Intn(60)
	s.ex.Run()
	s.m.started = true
	barrier := make(chan struct{})
	var wg sync.WaitGroup
	cur := make([]int32, N)  // the call a submitter is in (0 = between calls / not started)
	done := make([]int32, N) // submitter has left its loop
	tried := make([]int32, total+1)
	intent := make([]int64, total+1)
	for k := 0; k < N; k++ {
		wg.Add(1)
		go func(k int) {
			defer wg.Done()
			defer func() { atomic.StoreInt32(&done[k], 1); s.poke() }()
			<-barrier
			for j := 0; j < M; j++ {
				c := k*M + j + 1
				pc := s.calls[c]
				atomic.StoreInt64(&intent[c], s.stamp())
				atomic.StoreInt32(&tried[c], 1)
				atomic.StoreInt32(&cur[k], int32(c))
				res := &result{}
				func() {
					defer func() { res.pan = recover() }()
					res.r, res.err = s.ex.Call(s.ctxs[c], c, int(pc.Hash), pc.Form, s.body(c))
				}()
				res.calls = s.ctxs[c].nCalls()
				res.stamp = s.stamp()
				s.mu.Lock()
				s.results[c] = res
				s.mu.Unlock()
				atomic.StoreInt32(&cur[k], 0)
				s.poke()
				if res.pan == nil && res.calls == 0 {
					if kd, _ := classify(res.r, res.err); kd == aClosed || kd == aFull {
						return // refused: stop submitting
					}
				}
			}
		}(k)
	}
	var stopStamp int64
	stopped := make(chan struct{})
	go func() {
		<-barrier
		for i := 0; i < spin; i++ {
			runtime.Gosched()
		}
		atomic.StoreInt64(&stopStamp, s.stamp())
		s.ex.Stop()
		close(stopped)
		s.ex.WaitExit()
		atomic.StoreInt64(&s.exitAt, s.stamp())
		s.poke()
	}()
	close(barrier)
	hung := false
	// the lane goroutines return
	if !s.await(func() bool { return atomic.LoadInt64(&s.exitAt) != 0 }) {
		hung = true
	}
	// every submitter has finished, or sits in an accepted call that was never entered (and now never will be)
	stuck := func(k int) int {
		c := int(atomic.LoadInt32(&cur[k]))
		if c == 0 || s.results[c] != nil {
			return 0
		}
		// (ProcChan: such a caller still has stopChan to leave through - it is simply waited for)
		if x != xProc && s.ctxs[c].nCalls() >= 1 && !s.entered[c] {
			return c
		}
		return 0
	}
	if !hung {
		ok := s.await(func() bool {
			for k := 0; k < N; k++ {
				if atomic.LoadInt32(&done[k]) == 0 && stuck(k) == 0 {
					return false
				}
			}
			return true
		})
		if !ok {
			hung = true
		}
	}
	if hung {
		atomic.AddInt32(&hangCount, 1)
	}
	// ---- record
	s.mu.Lock()
	lostSet := map[int]bool{}
	for k := 0; k < N; k++ {
		if atomic.LoadInt32(&done[k]) == 0 {
			if c := stuck(k); c != 0 {
				lostSet[c] = true
			}
		}
	}
	ev := append([]obs{}, s.evlog...)
	res := map[int]*result{}
	for c, r := range s.results {
		res[c] = r
	}
	s.mu.Unlock()
	exitAt := atomic.LoadInt64(&s.exitAt)
	stopAt := atomic.LoadInt64(&stopStamp)
	// let the stuck callers go (not part of the trace)
	for c := range lostSet {
		s.ctxs[c].cancel()
	}
	if !hung {
		allBack := make(chan struct{})
		go func() { wg.Wait(); close(allBack) }()
		s.await(func() bool {
			select {
			case <-allBack:
				return true
			default:
				for k := 0; k < N; k++ {
					if atomic.LoadInt32(&done[k]) == 0 {
						return false
					}
				}
				return true
			}
		})
	}
	// ---- the trace: accepted enqueues first (per lane in the order the callees were entered; accepted and never entered
	// last), then the facts in stamp order with the refusals right after Stop
	sort.SliceStable(ev, func(i, j int) bool { return ev[i].stamp < ev[j].stamp })
	items, readable := []string{}, []string{}
	emit := func(coq, txt string) { items = append(items, coq); readable = append(readable, txt) }
	subbed := map[int]bool{}
	nAcc, nRef := 0, 0
	starts := map[int]int{}
	for _, o := range ev {
		if o.kind == oStart {
			starts[o.c]++
			if !subbed[o.c] {
				subbed[o.c] = true
				nAcc++
				emit(fmt.Sprintf("ISub %d%%nat SAcc", o.c), fmt.Sprintf("submit %d -> SAcc (position resolved by the harness)", o.c))
			}
		}
	}
	ids := []int{}
	for c := 1; c <= total; c++ {
		if atomic.LoadInt32(&tried[c]) == 1 {
			ids = append(ids, c)
		}
	}
	refusedIDs := []int{}
	weird := 0
	for _, c := range ids {
		if subbed[c] {
			continue
		}
		r := res[c]
		if r != nil && r.pan == nil && r.calls == 0 {
			if kd, _ := classify(r.r, r.err); kd == aClosed || kd == aFull {
				refusedIDs = append(refusedIDs, c)
				continue
			}
		}
		if r == nil && !lostSet[c] {
			continue // the round hung with this submission in an unknown state; the hang itself is reported
		}
		subbed[c] = true
		nAcc++
		emit(fmt.Sprintf("ISub %d%%nat SAcc", c), fmt.Sprintf("submit %d -> SAcc (never entered)", c))
	}
	all := append([]obs{}, ev...)
	for c, r := range res {
		if !subbed[c] {
			continue
		}
		o := obs{stamp: r.stamp, kind: oGot, c: c}
		if r.pan != nil {
			o.ak, o.an = aWeird, 9
		} else {
			o.ak, o.an = classify(r.r, r.err)
		}
		if o.ak == aWeird || o.ak == aFull || (o.ak == aClosed && x != xProc) || (o.ak == aVal && o.an/2 != c) || o.ak == aCtx {
			weird++
		}
		all = append(all, o)
	}
	if stopAt != 0 {
		all = append(all, obs{stamp: stopAt, kind: oStop})
	}
	if exitAt != 0 {
		all = append(all, obs{stamp: exitAt, kind: oWait})
	}
	sort.SliceStable(all, func(i, j int) bool { return all[i].stamp < all[j].stamp })
	for _, o := range all {
		it2, rd2, _ := s.coqTraceNoSub([]obs{o})
		items = append(items, it2...)
		readable = append(readable, rd2...)
		if o.kind == oStop {
			for _, c := range refusedIDs {
				r := res[c]
				out := sClosed
				if kd, _ := classify(r.r, r.err); kd == aFull {
					out = sFull
				}
				nRef++
				emit(fmt.Sprintf("ISub %d%%nat %s", c, sNames[out]), fmt.Sprintf("submit %d -> %s", c, sNames[out]))
			}
		}
	}
	lostIDs := []int{}
	for c := range lostSet {
		lostIDs = append(lostIDs, c)
	}
	sort.Ints(lostIDs)
	for _, c := range lostIDs {
		emit("IHang 9%nat", fmt.Sprintf("call %d was accepted (its caller waits on its context and the result) but the lane goroutines have returned without ever entering its callee: it can never run, the caller can only leave through its own context", c))
	}
	if hung {
		emit("IHang 8%nat", "HANG: the lane goroutines or a submitter did not return")
	}
	// the Go screen: anything not obviously fine is decided in Coq
	flag := hung || len(lostSet) > 0 || weird > 0 || stopAt == 0 || exitAt == 0
	for _, c := range ids {
		if subbed[c] && starts[c] != 1 && x != xProc {
			flag = true
		}
		if starts[c] > 1 || (!subbed[c] && starts[c] > 0) {
			flag = true
		}
	}
	open := map[int64]int{}
	for _, o := range ev {
		switch o.kind {
		case oStart:
			if open[o.lane] != 0 {
				flag = true
			}
			open[o.lane] = o.c
		case oEnd:
			if open[o.lane] != o.c {
				flag = true
			}
			open[o.lane] = 0
		}
	}
	calls := []string{}
	for _, c := range ids {
		pc := s.calls[c]
		calls = append(calls, fmt.Sprintf("(%d%%nat, %s, %s, %s)", pc.ID, coqZ(pc.Hash), vh.CoqBool(pc.Fail), coqZ(int64(s.idx[pc.ID]))))
	}
	cls := "stop-vs-submit-" + xShort[x]
	if x == xMulti {
		cls += "-n" + strconv.FormatInt(lanes, 10)
	}
	if len(readable) > 80 {
		tail := readable[len(readable)-12:]
		readable = append(append(readable[:60], fmt.Sprintf("... %d more ...", len(readable)-72)), tail...)
	}
	return vh.Case{Coq: fmt.Sprintf("CRun %s %s %d%%nat false %s %s", xNames[x], coqZ(lanes), q, vh.CoqList(calls), vh.CoqList(items)),
		Class: cls, Nontrivial: nAcc >= 1 && nRef >= 1,
		Desc: map[string]interface{}{"executor": xShort[x], "lanes": lanes, "queue_size": q, "submitters": N, "calls_per_submitter": M,
			"stopper_yields_before_stop": spin, "accepted": nAcc, "refused": nRef, "accepted_never_run_caller_blocked": lostIDs,
			"trace": readable, "hang": hung},
		Replay: fmt.Sprintf("stoprace:%d:%d", x, rseed)}, flag, nAcc, nRef, len(lostSet)
}

func stopRaceClass(e *vh.Env, x int, rounds, sample int, rs *raceStats, hangs *int) {
	every := 1
	if sample > 0 && rounds > sample {
		every = rounds / sample
	}
	big := e.Thorough || e.Search
	for i := 0; i < rounds && *hangs < 3; i++ {
		c, flag, a, r, l := stopRaceRound(e.Rnd.Int63(), x, big)
		rs.rounds++
		rs.accepted += a
		rs.refused += r
		rs.lost += l
		if flag {
			rs.flagged++
			if d, ok := c.Desc.(map[string]interface{}); ok && d["hang"] == true {
				*hangs++
			}
		}
		if flag && rs.flagged > 12 {
			continue // a dozen concrete failing rounds are enough
		}
		if flag || i%every == 0 {
			rs.emitted++
			e.Emit(c)
		}
	}
}
