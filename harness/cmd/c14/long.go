package main

// Class "long-backlog": histories in which more than a thousand calls are taken from a queue that never runs empty.
//   bulk:   call 1 is held by its gate, N-1 further calls are enqueued behind it (each enqueue confirmed), then everything
//           is let go: N pops with a backlog present until the very last one.  N around 1024 and 2048 and one large one.
//   window: the queue never holds more than a few calls but never runs empty either while more than 1024 / 2048 calls pass.
// Forced like every other schedule of this harness (the order of the enqueues is known), nothing is timed.  "Pending for
// ever" is a positive observation: after Stop the lane goroutines have returned (WaitStop / wait group), the caller has
// consulted its context (the enqueue returned nil), the callee was never entered.
//
// The history has thousands of calls; the monitor in Coq is quadratic in unary numbers, so what is evaluated is the
// PROJECTION of the observed history onto a few dozen calls (all items of all other calls dropped, the kept calls
// renumbered 1..k in submission order).  With an unbounded queue the projection of a run of the lane model is a run of the
// lane model, and every clause of the monitor that holds of a history holds of its projections; so a projection that fails
// is a failing history.  The calls kept: the first and last ones, those around the 1024 / 2048 boundaries, a few random
// ones, and every call a counter in Go finds suspicious (never entered, entered twice, caller without answer, foreign value).

import (
	"fmt"
	"math/rand"
	"sort"
	"strconv"

	"verifharness/vh"
)

func runLong(e *vh.Env, lseed int64, x int, N int, window int, st *stats) {
	rnd := rand.New(rand.NewSource(lseed))
	lanes := int64(1)
	hash := int64(0)
	if x == xMulti {
		lanes = []int64{2, 7, 509}[rnd.Intn(3)]
		hash = int64(rnd.Intn(1000)) - 500
	}
	q := 0
	if x == xProc {
		q = N + 1
	}
	p := &plan{X: x, Lanes: lanes, Q: q}
	for i := 1; i <= N; i++ {
		p.Calls = append(p.Calls, pcall{ID: i, Hash: hash, Fail: rnd.Intn(16) == 0, Form: rnd.Intn(3)})
	}
	s := newSched(p)
	open := func(c int) {
		if !s.gopen[c] {
			s.gopen[c] = true
			close(s.gates[c])
		}
	}
	step := func(a act) bool {
		if s.hung {
			return false
		}
		switch a.K {
		case "run":
			s.doRun()
		case "sub":
			s.doSubmit(a.C)
		case "rel":
			s.doRelease(a.C)
		case "stop":
			s.doStop()
		}
		s.settle()
		return !s.hung
	}
	step(act{K: "run"})
	if window == 0 {
		// bulk: 1 held, 2..N queued behind it (their callees will not block), then let go
		for c := 2; c <= N; c++ {
			open(c)
		}
		for c := 1; c <= N && step(act{K: "sub", C: c}); c++ {
		}
		step(act{K: "rel", C: 1})
	} else {
		// window: keep `window` calls queued behind the running one
		next := 1
		for ; next <= window+1 && next <= N; next++ {
			step(act{K: "sub", C: next})
		}
		for run := 1; run <= N && !s.hung; run++ {
			if l := s.m.ln(s.m.laneFor(hash)); l.running >= 0 {
				step(act{K: "rel", C: l.running})
			}
			if next <= N {
				step(act{K: "sub", C: next})
				next++
			}
			if l := s.m.ln(s.m.laneFor(hash)); l.running < 0 && len(l.queue) == 0 && next > N {
				break
			}
		}
	}
	s.p.Acts = nil
	s.execute() // finish: Stop, let every running call end, wait for the lane goroutines
	all := s.observed()
	// ---- counters over the whole history
	starts, ends, gots := map[int]int{}, map[int]int{}, map[int]int{}
	acc := map[int]bool{}
	susp := map[int]bool{}
	for _, o := range all {
		switch o.kind {
		case oSub:
			if o.out == sAcc {
				acc[o.c] = true
			}
		case oStart:
			starts[o.c]++
		case oEnd:
			ends[o.c]++
		case oGot:
			gots[o.c]++
			if o.ak == aVal && o.an/2 != o.c {
				susp[o.c] = true
				susp[o.an/2] = true
			}
			if o.ak == aWeird || o.ak == aFull || (o.ak == aClosed && x != xProc) || o.ak == aCtx {
				susp[o.c] = true
			}
		}
	}
	lost := []int{}
	for c := 1; c <= N; c++ {
		if acc[c] && ((starts[c] != 1 && x != xProc) || starts[c] > 1 || ends[c] != starts[c] || gots[c] != 1) {
			susp[c] = true
			if starts[c] == 0 {
				lost = append(lost, c)
			}
		}
		if !acc[c] && starts[c] > 0 {
			susp[c] = true
		}
	}
	keep := map[int]bool{}
	for c := range susp {
		if c >= 1 && c <= N && len(keep) < 24 {
			keep[c] = true
		}
	}
	for _, c := range []int{1, 2, 3, N - 1, N} {
		keep[c] = true
	}
	for _, b := range []int{1024, 2048} {
		for d := -3; d <= 4; d++ {
			keep[b+d] = true
		}
	}
	for i := 0; i < 8; i++ {
		keep[1+rnd.Intn(N)] = true
	}
	ids := []int{}
	for c := range keep {
		if c >= 1 && c <= N {
			ids = append(ids, c)
		}
	}
	sort.Ints(ids)
	renum := map[int]int{}
	for i, c := range ids {
		renum[c] = i + 1
	}
	// ---- the projection
	proj := []obs{}
	for _, o := range all {
		switch o.kind {
		case oRun, oStop, oWait, oHang:
			proj = append(proj, o)
		default:
			n, ok := renum[o.c]
			if !ok {
				continue
			}
			o.c = n
			if o.kind == oGot {
				switch o.ak {
				case aVal:
					if m, ok := renum[o.an/2]; ok {
						o.an = 2*m + o.an%2
					} else {
						o.ak, o.an = aWeird, 7 // the value of a call outside the projection
					}
				case aCtx:
					if m, ok := renum[o.an]; ok {
						o.an = m
					} else {
						o.ak, o.an = aWeird, 7
					}
				}
			}
			proj = append(proj, o)
		}
	}
	p2 := &plan{X: x, Lanes: lanes, Q: 0}
	calls := []string{}
	for _, c := range ids {
		pc := s.calls[c]
		p2.Calls = append(p2.Calls, pcall{ID: renum[c], Hash: pc.Hash, Fail: pc.Fail})
		calls = append(calls, fmt.Sprintf("(%d%%nat, %s, %s, %s)", renum[c], coqZ(pc.Hash), vh.CoqBool(pc.Fail), coqZ(int64(s.idx[c]))))
	}
	s2 := &sched{p: p2, place: map[string]int{}}
	items, readable, _ := s2.coqTrace(proj)
	for _, c := range lost {
		if n, ok := renum[c]; ok {
			items = append(items, "IHang 9%nat")
			readable = append(readable, fmt.Sprintf("call %d (number %d of the history) was accepted, the lane goroutines have returned, its callee was never entered: it can never run", n, c))
		}
	}
	st.cases++
	if s.hung {
		st.hangs++
	}
	cls := "long-backlog-" + xShort[x]
	if x == xMulti {
		cls += "-n" + strconv.FormatInt(lanes, 10)
	}
	mode := "bulk"
	if window > 0 {
		mode = fmt.Sprintf("window of %d", window)
	}
	// in the projection the queue is unbounded (ProcChan: the channel was never full: size N+1)
	coq := fmt.Sprintf("CRun %s %s 0%%nat true %s %s", xNames[x], coqZ(lanes), vh.CoqList(calls), vh.CoqList(items))
	e.Emit(vh.Case{Coq: coq, Class: cls, Nontrivial: true,
		Desc: map[string]interface{}{"executor": xShort[x], "lanes": lanes, "history_calls": N, "mode": mode,
			"projection_onto_history_calls": ids, "accepted_never_entered": lost, "suspicious_by_counters": len(susp),
			"trace_of_projection": readable, "hang": s.hung},
		Replay: fmt.Sprintf("long:%d:%d:%d:%d", x, N, window, lseed)})
}
