// Command c09: correspondence harness for property C09 (bitmap1024: serialisation and
// block-integer mapping).  It runs the real Bit1024.Marshal / Unmarshal, BigU32, U32BitTip and
// their list forms on generated inputs and emits one Coq term of type C09_Case.case per input.
package main

import (
	"fmt"
	"math"
	"sort"
	"strconv"
	"strings"

	bm "github.com/pinealctx/neptune/bitmap1024"
	"verifharness/vh"
)

const (
	maxI64 = int64(math.MaxUint32) * 1024 // first integer NewBigU32FromI64 refuses
	maxTip = uint32(math.MaxUint32 / 1024)
	nCap   = 3000 // largest iteration count ever passed (make([]T, n))
)

// ---------------------------------------------------------------- Coq printing

// lists of integers are printed as explicit constructor chains `(zc 1 (zc (-2) zn))` (zc / zn are defined in
// C09_Case.v with their arguments in Z scope): Coq's list notation costs 0.1-0.7 ms per element, this 25 us
func zs(xs []int64) string {
	var sb strings.Builder
	for _, x := range xs {
		if x < 0 {
			fmt.Fprintf(&sb, "(zc (%d) ", x)
		} else {
			fmt.Fprintf(&sb, "(zc %d ", x)
		}
	}
	sb.WriteString("zn")
	sb.WriteString(strings.Repeat(")", len(xs)))
	return sb.String()
}
func zbytes(bs []byte) string {
	xs := make([]int64, len(bs))
	for i, b := range bs {
		xs[i] = int64(b)
	}
	return zs(xs)
}
func zu32s(xs []uint32) string {
	ys := make([]int64, len(xs))
	for i, x := range xs {
		ys[i] = int64(x)
	}
	return zs(ys)
}
func words(b bm.Bit1024) string {
	var sb strings.Builder
	for _, w := range b {
		fmt.Fprintf(&sb, "(zc %d ", uint64(w))
	}
	sb.WriteString("zn")
	sb.WriteString(strings.Repeat(")", len(b)))
	return sb.String()
}
func bools(xs []bool) string {
	if len(xs) == 0 {
		return "(@nil bool)"
	}
	s := make([]string, len(xs))
	for i, x := range xs {
		s[i] = vh.CoqBool(x)
	}
	return "[" + strings.Join(s, ";") + "]"
}
func z(v int64) string { return vh.CoqZ(v) }

func iobs(l []int64, panicked bool) string {
	if panicked {
		return "IPanic"
	}
	return "(IList " + zs(l) + ")"
}

// guard runs f and reports whether it panicked
func guard(f func()) (panicked bool) {
	defer func() {
		if r := recover(); r != nil {
			panicked = true
		}
	}()
	f()
	return false
}

func wordsOf(b bm.Bit1024) []uint64 {
	r := make([]uint64, len(b))
	for i, w := range b {
		r[i] = uint64(w)
	}
	return r
}

// ---------------------------------------------------------------- the six kinds of case

func bitmapOf(ws [16]uint64) bm.Bit1024 {
	b := bm.NewBit1024()
	for i := range ws {
		b[i] = bm.Bit64(ws[i])
	}
	return b
}

func lenClass(n int) string {
	switch {
	case n <= 1, n >= 62 && n <= 66, n == 1023, n == 1024:
		return strconv.Itoa(n)
	case n < 62:
		return "2..61"
	}
	return "67..1022"
}

// one Marshal -> Unmarshal-into-a-fresh-bitmap observation
type marshalObs struct {
	ws     [16]uint64
	bytes  []byte
	p1, p2 bool
	uerr   error
	fresh  bm.Bit1024
}

func observeMarshal(ws [16]uint64) marshalObs {
	o := marshalObs{ws: ws, fresh: bm.NewBit1024()}
	b := bitmapOf(ws)
	o.p1 = guard(func() { o.bytes = b.Marshal() })
	if !o.p1 {
		o.p2 = guard(func() { o.uerr = o.fresh.Unmarshal(o.bytes) })
	}
	return o
}

func (o marshalObs) roundTripOK() bool {
	return !o.p1 && !o.p2 && o.uerr == nil && o.fresh.Equal(bitmapOf(o.ws))
}

func (o marshalObs) toCase(gen, class string) vh.Case {
	b := bitmapOf(o.ws)
	n := b.Len()
	var bcoq, r, rdesc string
	switch {
	case o.p1:
		bcoq, r, rdesc = "(zc (-1) zn)", "UPanic", "Marshal panicked"
	case o.p2:
		bcoq, r, rdesc = zbytes(o.bytes), "UPanic", "Unmarshal panicked"
	case o.uerr != nil:
		bcoq, r, rdesc = zbytes(o.bytes), "UErr", "error: "+o.uerr.Error()
	default:
		bcoq, r, rdesc = zbytes(o.bytes), "(UOk "+words(o.fresh)+")", "ok"
	}
	rp := make([]string, 16)
	for i, w := range o.ws {
		rp[i] = strconv.FormatUint(w, 16)
	}
	if class == "" {
		class = "marshal/len=" + lenClass(n)
	}
	desc := map[string]interface{}{"kind": "Marshal then Unmarshal into a fresh bitmap", "gen": gen, "members": n, "words_hex": rp,
		"marshal_len": len(o.bytes), "unmarshal": rdesc, "roundtrip_equal": o.roundTripOK()}
	if n < 64 && !o.p1 {
		desc["marshal_bytes_hex"] = fmt.Sprintf("%x", o.bytes)
		if !o.p2 && o.uerr == nil {
			var got, want []int16
			got, want = o.fresh.GetNAsI16(1024), b.GetNAsI16(1024)
			desc["members_of_bitmap"], desc["members_denoted_by_bytes"] = want, got
		}
	}
	return vh.Case{
		Coq:        fmt.Sprintf("(CMarshal %s %s %s)", words(b), bcoq, r),
		Class:      class,
		Nontrivial: n > 0,
		Replay:     "marshal:" + strings.Join(rp, ","),
		Desc:       desc,
	}
}

// CMarshal
func runMarshal(ws [16]uint64, gen string) vh.Case {
	return observeMarshal(ws).toCase(gen, "")
}

var unmLens = map[int]int{} // byte-string lengths exercised

// CUnm
func runUnm(via int, st uint32, buf []byte, gen string) vh.Case {
	var err error
	var gotSt uint32
	var got bm.Bit1024
	in := append([]byte(nil), buf...)
	p := guard(func() {
		switch via {
		case 0:
			nb := bm.NewBit1024()
			err = nb.Unmarshal(in)
			got, gotSt = nb, st
		case 1:
			var blk *bm.BigU32
			blk, err = bm.NewBigU32FromData(st, in)
			if err == nil {
				got, gotSt = blk.B1024, blk.Start
			}
		default:
			var blk *bm.U32BitTip
			blk, err = bm.NewU32BitTipFromData(st, in)
			if err == nil {
				got, gotSt = blk.B1024, blk.Start
			}
		}
	})
	var r, rdesc string
	switch {
	case p:
		r, rdesc = "DPanic", "panic"
	case err != nil:
		r, rdesc = "DErr", "error: "+err.Error()
	default:
		r = fmt.Sprintf("(DOk {| start := %s; bits := %s |})", z(int64(gotSt)), words(got))
		rdesc = fmt.Sprintf("ok, %d members", got.Len())
	}
	unmLens[len(buf)]++
	lc := "0"
	switch n := len(buf); {
	case n == 0:
	case n > 128:
		lc = ">128"
	case n == 128:
		lc = "128"
	case n%2 == 1:
		lc = "odd<128"
	default:
		lc = "even<128"
	}
	switch {
	case p:
		lc += "/panic"
	case err != nil:
		lc += "/err"
	default:
		lc += "/ok"
	}
	return vh.Case{
		Coq:        fmt.Sprintf("(CUnm %s %s %s %s)", z(int64(via)), z(int64(st)), zbytes(buf), r),
		Class:      fmt.Sprintf("unmarshal/via=%d/len=%s", via, lc),
		Nontrivial: len(buf) > 0,
		Replay:     fmt.Sprintf("unm:%d:%d:%x", via, st, buf),
		Desc: map[string]interface{}{"kind": []string{"Bit1024.Unmarshal", "NewBigU32FromData", "NewU32BitTipFromData"}[via], "gen": gen,
			"start": st, "len": len(buf), "bytes_hex": fmt.Sprintf("%x", buf), "result": rdesc},
	}
}

func clampN(n int) int {
	if n > nCap {
		return nCap
	}
	return n
}

// CBig
func runBig(v int64, us []int64, n int, gen string) vh.Case {
	n = clampN(n)
	var blk *bm.BigU32
	var err error
	acc := make([]bool, 0, len(us))
	var fwd, rev []int64
	var st uint32
	pf, pr := false, false
	p := guard(func() {
		blk, err = bm.NewBigU32FromI64(v)
		if err != nil {
			return
		}
		st = blk.Start
		for _, u := range us {
			acc = append(acc, blk.SetI64(u) == nil)
		}
	})
	var o string
	desc := map[string]interface{}{"kind": "BigU32", "gen": gen, "v": v, "us": us, "n": n}
	switch {
	case p:
		o = "(BOk (-1)%Z (@nil bool) IPanic IPanic)"
		desc["result"] = "panic in NewBigU32FromI64/SetI64"
	case err != nil:
		o = "BErr"
		desc["result"] = "error: " + err.Error()
	default:
		pf = guard(func() { fwd = blk.GetNAsI64(n) })
		pr = guard(func() { rev = blk.RGetNAsI64(n) })
		o = fmt.Sprintf("(BOk %s %s %s %s)", z(int64(st)), bools(acc), iobs(fwd, pf), iobs(rev, pr))
		desc["start"], desc["accepted"], desc["GetNAsI64"], desc["RGetNAsI64"] = st, acc, obsDesc(fwd, pf), obsDesc(rev, pr)
	}
	cl := "big/"
	switch {
	case v < 0:
		cl += "v<0"
	case v >= maxI64:
		cl += "v>=max"
	case v < 1<<32:
		cl += "v<2^32"
	default:
		cl += "v>=2^32"
	}
	if n < 0 {
		cl += "/n<0"
	}
	return vh.Case{
		Coq:        fmt.Sprintf("(CBig %s %s %s %s)", z(v), zs(us), z(int64(n)), o),
		Class:      cl,
		Nontrivial: v >= 0 && v < maxI64 && n > 0,
		Replay:     fmt.Sprintf("big:%d:%s:%d", v, joinI64(us), n),
		Desc:       desc,
	}
}

func obsDesc(l []int64, p bool) interface{} {
	if p {
		return "panic"
	}
	if len(l) > 24 {
		return map[string]interface{}{"len": len(l), "head": l[:12], "tail": l[len(l)-12:]}
	}
	return l
}

// CTip
func runTip(v uint32, us []uint32, n int, gen string) vh.Case {
	n = clampN(n)
	var blk *bm.U32BitTip
	acc := make([]bool, 0, len(us))
	var fwd, rev []uint32
	pf, pr := false, false
	p := guard(func() {
		blk = bm.NewU32BitTipFromU32(v)
		for _, u := range us {
			acc = append(acc, blk.SetU32(u) == nil)
		}
	})
	var o string
	us64 := make([]int64, len(us))
	for i, u := range us {
		us64[i] = int64(u)
	}
	desc := map[string]interface{}{"kind": "U32BitTip", "gen": gen, "v": v, "us": us, "n": n}
	if p {
		o = "(BOk (-1)%Z (@nil bool) IPanic IPanic)"
		desc["result"] = "panic in NewU32BitTipFromU32/SetU32"
	} else {
		pf = guard(func() { fwd = blk.GetNAsU32(n) })
		pr = guard(func() { rev = blk.RGetNAsU32(n) })
		f64, r64 := u32to64(fwd), u32to64(rev)
		o = fmt.Sprintf("(BOk %s %s %s %s)", z(int64(blk.Start)), bools(acc), iobs(f64, pf), iobs(r64, pr))
		desc["start"], desc["accepted"], desc["GetNAsU32"], desc["RGetNAsU32"] = blk.Start, acc, obsDesc(f64, pf), obsDesc(r64, pr)
	}
	cl := "tip/"
	switch {
	case v < 1024:
		cl += "block0"
	case v/1024 == maxTip:
		cl += "topblock"
	default:
		cl += "mid"
	}
	if n < 0 {
		cl += "/n<0"
	}
	return vh.Case{
		Coq:        fmt.Sprintf("(CTip %s %s %s %s)", z(int64(v)), zs(us64), z(int64(n)), o),
		Class:      cl,
		Nontrivial: n > 0,
		Replay:     fmt.Sprintf("tip:%d:%s:%d", v, joinI64(us64), n),
		Desc:       desc,
	}
}

func u32to64(xs []uint32) []int64 {
	r := make([]int64, len(xs))
	for i, x := range xs {
		r[i] = int64(x)
	}
	return r
}
func joinI64(xs []int64) string {
	s := make([]string, len(xs))
	for i, x := range xs {
		s[i] = strconv.FormatInt(x, 10)
	}
	return strings.Join(s, ",")
}

type blockSpec struct {
	start uint32
	pos   []int16
}

// block descriptions and per-block iterations are constructor chains as well: (bc st positions (bc ... bn)), (pc fwd rev (pc ... pn))
func specCoq(bl []blockSpec) string {
	var sb strings.Builder
	for _, b := range bl {
		ps := make([]int64, len(b.pos))
		for j, p := range b.pos {
			ps[j] = int64(p)
		}
		fmt.Fprintf(&sb, "(bc %d %s ", b.start, zs(ps))
	}
	sb.WriteString("bn")
	sb.WriteString(strings.Repeat(")", len(bl)))
	return sb.String()
}
func specReplay(bl []blockSpec) string {
	s := make([]string, len(bl))
	for i, b := range bl {
		ps := make([]string, len(b.pos))
		for j, p := range b.pos {
			ps[j] = strconv.Itoa(int(p))
		}
		s[i] = fmt.Sprintf("%d=%s", b.start, strings.Join(ps, ","))
	}
	return strings.Join(s, ";")
}
func perCoq(f, r [][]int64) string {
	var sb strings.Builder
	for i := range f {
		fmt.Fprintf(&sb, "(pc %s %s ", zs(f[i]), zs(r[i]))
	}
	sb.WriteString("pn")
	sb.WriteString(strings.Repeat(")", len(f)))
	return sb.String()
}
func specDesc(bl []blockSpec) interface{} {
	r := make([]map[string]interface{}, len(bl))
	for i, b := range bl {
		r[i] = map[string]interface{}{"start": b.start, "positions": len(b.pos)}
	}
	return r
}

// CBigs / CTips
func runList(tip bool, bl []blockSpec, n int, gen string) vh.Case {
	n = clampN(n)
	perF := make([][]int64, len(bl))
	perR := make([][]int64, len(bl))
	var fwd, rev []int64
	pf, pr := false, false
	pp := false
	if tip {
		l := make(bm.U32BitTips, len(bl))
		for i, s := range bl {
			b := bm.NewU32BitTip()
			b.Start = s.start
			for _, p := range s.pos {
				b.B1024.SetI16(p)
			}
			l[i] = b
			i := i
			pp = guard(func() { perF[i] = u32to64(b.GetNAsU32(1024)); perR[i] = u32to64(b.RGetNAsU32(1024)) }) || pp
		}
		pf = guard(func() { fwd = u32to64(l.GetNAsU32(n)) })
		pr = guard(func() { rev = u32to64(l.RGetNAsU32(n)) })
	} else {
		l := make(bm.BigU32s, len(bl))
		for i, s := range bl {
			b := bm.NewBigU32()
			b.Start = s.start
			for _, p := range s.pos {
				b.B1024.SetI16(p)
			}
			l[i] = b
			i := i
			pp = guard(func() { perF[i] = b.GetNAsI64(1024); perR[i] = b.RGetNAsI64(1024) }) || pp
		}
		pf = guard(func() { fwd = l.GetNAsI64(n) })
		pr = guard(func() { rev = l.RGetNAsI64(n) })
	}
	if pp { // a per-block iteration with a legal count panicked: make the case unacceptable
		pf, pr = true, true
	}
	total := 0
	for _, f := range perF {
		total += len(f)
	}
	ctor, kind, cl := "CBigs", "BigU32s", "bigs/"
	if tip {
		ctor, kind, cl = "CTips", "U32BitTips", "tips/"
	}
	switch {
	case len(bl) == 0:
		cl += "empty"
	case n < 0:
		cl += "n<0"
	case n < total:
		cl += "n<total"
	default:
		cl += "n>=total"
	}
	return vh.Case{
		Coq:        fmt.Sprintf("(%s %s %s %s %s %s)", ctor, specCoq(bl), z(int64(n)), perCoq(perF, perR), iobs(fwd, pf), iobs(rev, pr)),
		Class:      cl,
		Nontrivial: len(bl) > 1 && n > 0 && total > 0,
		Replay:     fmt.Sprintf("%s:%d:%s", strings.ToLower(ctor[1:]), n, specReplay(bl)),
		Desc: map[string]interface{}{"kind": kind, "gen": gen, "blocks": specDesc(bl), "n": n, "total_members": total,
			"forward": obsDesc(fwd, pf), "reverse": obsDesc(rev, pr)},
	}
}

// ---------------------------------------------------------------- replay

func replay(e *vh.Env, arg string) {
	parts := strings.SplitN(arg, ":", 2)
	bad := func() { panic("c09: cannot parse replay argument " + arg) }
	if len(parts) != 2 {
		bad()
	}
	parseI64s := func(s string) []int64 {
		var r []int64
		if s == "" {
			return r
		}
		for _, t := range strings.Split(s, ",") {
			v, err := strconv.ParseInt(t, 10, 64)
			if err != nil {
				bad()
			}
			r = append(r, v)
		}
		return r
	}
	if replayRev(e, parts[0], parts[1]) {
		return
	}
	switch parts[0] {
	case "marshal":
		var ws [16]uint64
		f := strings.Split(parts[1], ",")
		if len(f) != 16 {
			bad()
		}
		for i := range f {
			w, err := strconv.ParseUint(f[i], 16, 64)
			if err != nil {
				bad()
			}
			ws[i] = w
		}
		e.Emit(runMarshal(ws, "replay"))
	case "unm":
		f := strings.SplitN(parts[1], ":", 3)
		if len(f) != 3 {
			bad()
		}
		via, _ := strconv.Atoi(f[0])
		st, _ := strconv.ParseUint(f[1], 10, 32)
		buf := make([]byte, len(f[2])/2)
		for i := range buf {
			x, err := strconv.ParseUint(f[2][2*i:2*i+2], 16, 8)
			if err != nil {
				bad()
			}
			buf[i] = byte(x)
		}
		e.Emit(runUnm(via, uint32(st), buf, "replay"))
	case "big", "tip":
		f := strings.SplitN(parts[1], ":", 3)
		if len(f) != 3 {
			bad()
		}
		v, _ := strconv.ParseInt(f[0], 10, 64)
		us := parseI64s(f[1])
		n, _ := strconv.Atoi(f[2])
		if parts[0] == "big" {
			e.Emit(runBig(v, us, n, "replay"))
		} else {
			u := make([]uint32, len(us))
			for i, x := range us {
				u[i] = uint32(x)
			}
			e.Emit(runTip(uint32(v), u, n, "replay"))
		}
	case "bigs", "tips":
		f := strings.SplitN(parts[1], ":", 2)
		if len(f) != 2 {
			bad()
		}
		n, _ := strconv.Atoi(f[0])
		var bl []blockSpec
		if f[1] != "" {
			for _, t := range strings.Split(f[1], ";") {
				g := strings.SplitN(t, "=", 2)
				if len(g) != 2 {
					bad()
				}
				st, _ := strconv.ParseUint(g[0], 10, 32)
				var ps []int16
				for _, x := range parseI64s(g[1]) {
					ps = append(ps, int16(x))
				}
				bl = append(bl, blockSpec{uint32(st), ps})
			}
		}
		e.Emit(runList(parts[0] == "tips", bl, n, "replay"))
	default:
		bad()
	}
}

// ---------------------------------------------------------------- generators

type gen struct{ e *vh.Env }

func (g gen) intn(n int) int { return g.e.Rnd.Intn(n) }
func (g gen) pick(xs ...int) int {
	return xs[g.intn(len(xs))]
}

// k distinct positions out of 0..1023
func (g gen) positions(k int) []int {
	p := g.e.Rnd.Perm(1024)[:k]
	sort.Ints(p)
	return p
}
func wordsFromPositions(ps []int) [16]uint64 {
	var ws [16]uint64
	for _, p := range ps {
		ws[p/64] |= 1 << uint(p%64)
	}
	return ws
}

// a bitmap with exactly k members, in one of several layouts
func (g gen) bitmapWithLen(k int) ([16]uint64, string) {
	switch layout := g.intn(5); {
	case layout == 0 && k <= 1024: // packed from a random start, wrapping
		s := g.intn(1024)
		ps := make([]int, k)
		for i := range ps {
			ps[i] = (s + i) % 1024
		}
		return wordsFromPositions(ps), "packed"
	case layout == 1 && k >= 64: // some full words plus scattered rest
		full := g.intn(k/64) + 1
		perm := g.e.Rnd.Perm(16)
		var ws [16]uint64
		fullSet := map[int]bool{}
		for _, w := range perm[:full] {
			ws[w] = ^uint64(0)
			fullSet[w] = true
		}
		rest := k - 64*full
		var free []int
		for p := 0; p < 1024; p++ {
			if !fullSet[p/64] {
				free = append(free, p)
			}
		}
		if rest > len(free) {
			return wordsFromPositions(g.positions(k)), "spread"
		}
		for _, i := range g.e.Rnd.Perm(len(free))[:rest] {
			p := free[i]
			ws[p/64] |= 1 << uint(p%64)
		}
		return ws, "fullwords+rest"
	case layout == 2 && k <= 128: // confined to two adjacent words
		w := g.intn(15)
		perm := g.e.Rnd.Perm(128)[:k]
		ps := make([]int, k)
		for i, x := range perm {
			ps[i] = w*64 + x
		}
		return wordsFromPositions(ps), "two-words"
	case layout == 3 && k >= 2: // the extreme positions are members
		ps := g.positions(k)
		ps[0], ps[len(ps)-1] = 0, 1023
		return wordsFromPositions(ps), "with-0-and-1023"
	}
	return wordsFromPositions(g.positions(k)), "spread"
}

func (g gen) genMarshal(emit func(vh.Case)) {
	e := g.e
	// the boundary member counts, each several times in several layouts
	for _, k := range []int{0, 1, 2, 9, 10, 32, 61, 62, 63, 64, 65, 66, 127, 128, 129, 512, 960, 1022, 1023, 1024} {
		reps := e.Scale(2, 40)
		if k >= 62 && k <= 66 {
			reps = e.Scale(6, 150)
		}
		for r := 0; r < reps; r++ {
			ws, l := g.bitmapWithLen(k)
			emit(runMarshal(ws, fmt.Sprintf("len=%d/%s", k, l)))
		}
	}
	// exactly one full word (Len's Full() shortcut) with and without neighbours
	fullWords := []int{0, 15, g.intn(16), g.intn(16)}
	if e.Thorough || e.Search {
		fullWords = []int{0, 1, 2, 3, 4, 5, 6, 7, 8, 9, 10, 11, 12, 13, 14, 15}
	}
	for _, w := range fullWords {
		var ws [16]uint64
		ws[w] = ^uint64(0)
		emit(runMarshal(ws, "one-full-word"))
		ws[w] &^= 1 << uint(g.intn(64))
		emit(runMarshal(ws, "one-word-63"))
		ws[(w+1)%16] |= 1 << uint(g.intn(64))
		emit(runMarshal(ws, "one-word-63+1"))
	}
	// every single position
	step := 1
	if !(e.Thorough || e.Search) {
		step = 16
	}
	for p := g.intn(step); p < 1024; p += step {
		emit(runMarshal(wordsFromPositions([]int{p}), "single-position"))
	}
	// random member counts and random words
	for r := 0; r < e.Scale(60, 1500); r++ {
		switch g.intn(3) {
		case 0:
			ws, l := g.bitmapWithLen(g.intn(62) + 1)
			emit(runMarshal(ws, "random-sparse/"+l))
		case 1:
			ws, l := g.bitmapWithLen(64 + g.intn(961))
			emit(runMarshal(ws, "random-dense/"+l))
		default:
			var ws [16]uint64
			for i := range ws {
				switch g.intn(4) {
				case 0:
					ws[i] = 0
				case 1:
					ws[i] = e.Rnd.Uint64() & e.Rnd.Uint64() & e.Rnd.Uint64() & e.Rnd.Uint64()
				default:
					ws[i] = e.Rnd.Uint64()
				}
			}
			emit(runMarshal(ws, "random-words"))
		}
	}
}

var edgeElems = []uint16{0, 1, 63, 64, 1022, 1023, 1024, 1025, 2047, 2048, 0x03ff, 0x0400, 0x7fff, 0x8000, 0x8001, 0xfbff, 0xfc00, 0xffff, 0xff03, 0x00ff, 0x0100}

func (g gen) validPairs(k int) []byte {
	buf := make([]byte, 2*k)
	for i := 0; i < k; i++ {
		v := g.intn(1024)
		buf[2*i], buf[2*i+1] = byte(v), byte(v>>8)
	}
	return buf
}
func (g gen) randBytes(n int) []byte {
	buf := make([]byte, n)
	g.e.Rnd.Read(buf)
	return buf
}
func (g gen) viaStart() (int, uint32) {
	switch g.intn(8) {
	case 0:
		return 1, []uint32{0, 1, 1 << 22, 1<<22 - 1, math.MaxUint32, g.e.Rnd.Uint32()}[g.intn(6)]
	case 1:
		return 2, []uint32{0, 1, maxTip - 1, maxTip, maxTip + 1, math.MaxUint32, g.e.Rnd.Uint32() % (maxTip + 1), g.e.Rnd.Uint32()}[g.intn(8)]
	}
	return 0, 0
}

func (g gen) genUnm(emit func(vh.Case)) {
	e := g.e
	run := func(buf []byte, gen string) {
		via, st := g.viaStart()
		emit(runUnm(via, st, buf, gen))
	}
	// every length 0..131 and 256: arbitrary bytes, and (where even and below 128) well-formed content
	lens := []int{}
	for n := 0; n <= 131; n++ {
		lens = append(lens, n)
	}
	lens = append(lens, 132, 255, 256, 257, 1024)
	for _, n := range lens {
		for r := 0; r < e.Scale(1, 12); r++ {
			run(g.randBytes(n), "random-bytes")
		}
		for r := 0; r < e.Scale(1, 8); r++ {
			if n%2 == 0 {
				run(g.validPairs(n/2), "valid-pairs")
			} else {
				run(append(g.validPairs(n/2), byte(g.intn(256))), "valid-pairs+1-byte")
			}
		}
		// through both constructors at every length as well
		if n <= 131 {
			emit(runUnm(1, e.Rnd.Uint32(), g.validPairs(n/2+n%2)[:n], "valid-pairs-prefix/big"))
			emit(runUnm(2, e.Rnd.Uint32()%(maxTip+1), g.validPairs(n/2+n%2)[:n], "valid-pairs-prefix/tip"))
		}
	}
	// one edge element inside otherwise valid pairs: first / middle / last position, every sparse size class
	for _, el := range edgeElems {
		for _, k := range []int{1, 2, 31, 62, 63, 64, 65} {
			for r := 0; r < e.Scale(1, 6); r++ {
				buf := g.validPairs(k)
				at := []int{0, k / 2, k - 1}[g.intn(3)]
				buf[2*at], buf[2*at+1] = byte(el), byte(el>>8)
				run(buf, fmt.Sprintf("edge-element-%d", el))
			}
		}
	}
	// dense form: structured 128-byte strings
	for r := 0; r < e.Scale(16, 600); r++ {
		buf := make([]byte, 128)
		switch g.intn(5) {
		case 0:
			for i := range buf {
				buf[i] = 0xff
			}
			if g.intn(2) == 0 {
				buf[g.intn(128)] &^= 1 << uint(g.intn(8))
			}
		case 1:
			buf[g.intn(128)] = 1 << uint(g.intn(8))
		case 2:
			copy(buf, g.validPairs(64)) // 64 valid pairs are read as the dense form
		default:
			g.e.Rnd.Read(buf)
			for i := range buf {
				if g.intn(3) == 0 {
					buf[i] = 0
				}
			}
		}
		run(buf, "dense-128")
	}
	// the output of Marshal, intact, shortened and lengthened
	for r := 0; r < e.Scale(40, 800); r++ {
		k := g.pick(1, 2, 30, 62, 63, 64, 65, 200)
		ws, _ := g.bitmapWithLen(k)
		var out []byte
		if guard(func() { out = bitmapOf(ws).Marshal() }) {
			continue
		}
		switch g.intn(5) {
		case 0:
			run(out, "marshal-output")
		case 1:
			run(out[:len(out)-1], "marshal-output-1")
		case 2:
			run(out[:len(out)-2], "marshal-output-2")
		case 3:
			run(append(append([]byte(nil), out...), byte(g.intn(4))), "marshal-output+1")
		default:
			run(append(append([]byte(nil), out...), byte(g.intn(256)), byte(g.intn(4))), "marshal-output+2")
		}
	}
	// history: a refused sparse payload whose valid prefix was already set, then payloads that must decode into a FRESH bitmap
	for r := 0; r < e.Scale(10, 60); r++ {
		for _, via := range []int{1, 2} {
			st := e.Rnd.Uint32() % (maxTip + 1)
			poison := g.validPairs(2 + g.intn(20))
			poison = append(poison, byte(g.intn(256)), byte(4+g.intn(120))) // an element above 1023 at the end
			emit(runUnm(via, st, poison, "refused-after-valid-prefix"))
			switch r % 4 {
			case 0:
				emit(runUnm(via, st, nil, "empty-after-refused"))
			case 1:
				emit(runUnm(via, st, g.validPairs(1+g.intn(5)), "sparse-after-refused"))
			case 2:
				emit(runUnm(via, st, g.validPairs(1), "sparse-after-refused"))
				emit(runUnm(via, st, g.validPairs(3), "sparse-after-refused"))
			default:
				emit(runUnm(via, st, g.validPairs(40), "sparse-after-refused"))
			}
		}
	}
	// sparse strings with repeated elements and with elements in descending order
	for r := 0; r < e.Scale(20, 400); r++ {
		k := g.intn(63) + 1
		buf := g.validPairs(k)
		for i := 1; i < k; i++ {
			if g.intn(3) == 0 {
				buf[2*i], buf[2*i+1] = buf[2*(i-1)], buf[2*(i-1)+1]
			}
		}
		run(buf, "pairs-with-repeats")
	}
}

func (g gen) someI64() int64 {
	e := g.e
	switch g.intn(12) {
	case 0:
		return []int64{-1, -2, -1023, -1024, -1025, math.MinInt64, math.MinInt64 + 1, math.MinInt32, -e.Rnd.Int63()}[g.intn(9)]
	case 1:
		return []int64{maxI64, maxI64 + 1, maxI64 + 1023, maxI64 + 1024, 1 << 42, 1<<42 + 5, 1 << 43, math.MaxInt64, math.MaxInt64 - 1023, maxI64 + e.Rnd.Int63n(1<<50)}[g.intn(10)]
	case 2:
		return []int64{0, 1, 63, 64, 1023, 1024, 1025, 2047, 2048}[g.intn(9)]
	case 3, 4:
		k := int64(g.intn(1023) + 1) // multiples of 2^32 and their neighbourhood: block starts that are multiples of 2^22
		return k<<32 + []int64{-1025, -1024, -1, 0, 1, 63, 64, 1023, 1024, e.Rnd.Int63n(1 << 20)}[g.intn(10)]
	case 5:
		return []int64{maxI64 - 1, maxI64 - 2, maxI64 - 1023, maxI64 - 1024, maxI64 - 1025, maxI64 - 2048}[g.intn(6)]
	case 6, 7:
		s := e.Rnd.Int63n(math.MaxUint32) // a block edge
		return s*1024 + []int64{0, 1, 63, 64, 511, 1022, 1023}[g.intn(7)]
	case 8:
		return e.Rnd.Int63n(1 << 32)
	}
	return 1<<32 + e.Rnd.Int63n(maxI64-1<<32)
}

func (g gen) someN(card int) int {
	switch g.intn(10) {
	case 0:
		return 0
	case 1:
		return 1
	case 2:
		return card
	case 3:
		return card + 1
	case 4:
		if card > 1 {
			return card - 1
		}
		return 2
	case 5:
		return g.pick(1024, 1025, 2000, nCap)
	case 6:
		return -(g.intn(5) + 1)
	}
	return g.intn(card+3) + 1
}

func (g gen) genBig(emit func(vh.Case)) {
	e := g.e
	// the ends of the documented range, the uint32 product boundary and the int64 extremes, on every run
	for _, v := range []int64{-1, 0, 1023, 1024, 1<<32 - 1, 1 << 32, 1<<32 + 1024, maxI64 - 1025, maxI64 - 1024, maxI64 - 1,
		maxI64, maxI64 + 1, 1 << 42, math.MaxInt64, math.MinInt64} {
		base := v - v%1024
		emit(runBig(v, nil, 1, "boundary"))
		emit(runBig(v, []int64{v, base - 1, base + 1024, v + 1<<42, v - 1<<42, base + 1023, base}, 8, "boundary"))
	}
	for r := 0; r < e.Scale(380, 6000); r++ {
		v := g.someI64()
		var us []int64
		if v >= 0 && v < maxI64 {
			base := v - v%1024
			for k := g.pick(0, 0, 1, 2, 3, 6, 12); k > 0; k-- {
				switch g.intn(12) {
				case 0:
					us = append(us, v) // the integer itself again
				case 1:
					us = append(us, base-1) // last of the previous block (or -1)
				case 2:
					us = append(us, base+1024) // first of the next block (may be the first refused integer)
				case 3:
					us = append(us, v+1<<42, v-1<<42, v+1<<32)[:len(us)+1+g.intn(3)] // same Start after truncation to uint32, out of range
				case 4:
					us = append(us, g.someI64())
				case 5:
					us = append(us, base+[]int64{0, 63, 64, 1023}[g.intn(4)])
				case 6:
					us = append(us, v+[]int64{-1, 1, -64, 64}[g.intn(4)]) // neighbours: inside or just outside the block
				default:
					us = append(us, base+int64(g.intn(1024)))
				}
			}
		} else if g.intn(3) == 0 {
			us = append(us, g.someI64())
		}
		card := 1 + len(us)
		emit(runBig(v, us, g.someN(card), "mixed"))
	}
	// a block filled far beyond the sparse threshold of a word, and a completely full block
	for r := 0; r < e.Scale(3, 60); r++ {
		s := []int64{0, 1<<22 - 1, 1 << 22, 1<<22 + 1, 1<<32 - 2, e.Rnd.Int63n(math.MaxUint32)}[g.intn(6)]
		k := g.pick(70, 130)
		if e.Thorough || e.Search {
			k = g.pick(70, 200, 1024) // the case terms of full blocks are large (3000 integers): thorough tier only
		}
		var us []int64
		for _, p := range g.e.Rnd.Perm(1024)[:k] {
			us = append(us, s*1024+int64(p))
		}
		emit(runBig(us[0], us[1:], g.pick(k, k-1, 1024, 1025, 5, 64, 65), "filled-block"))
	}
}

func (g gen) someU32() uint32 {
	e := g.e
	switch g.intn(8) {
	case 0:
		return []uint32{0, 1, 63, 64, 1023, 1024, 1025}[g.intn(7)]
	case 1:
		return math.MaxUint32 - []uint32{0, 1, 63, 64, 1022, 1023, 1024, 1025, 2047}[g.intn(9)]
	case 2, 3:
		s := e.Rnd.Uint32() % (maxTip + 1)
		return s*1024 + []uint32{0, 1, 63, 64, 511, 1022, 1023}[g.intn(7)]
	case 4:
		return uint32(1)<<uint(g.intn(32)) - uint32(g.intn(2))
	}
	return e.Rnd.Uint32()
}

func (g gen) genTip(emit func(vh.Case)) {
	e := g.e
	// both ends of uint32 and of a block, on every run
	for _, v := range []uint32{0, 1023, 1024, 2047, 2048, 1<<31 - 1, 1 << 31, math.MaxUint32 - 1024, math.MaxUint32 - 1023, math.MaxUint32} {
		base := v - v%1024
		emit(runTip(v, nil, 1, "boundary"))
		emit(runTip(v, []uint32{v, base - 1, base + 1024, base + 1023, base, base + 2048, base - 1024}, 8, "boundary"))
	}
	for r := 0; r < e.Scale(280, 5000); r++ {
		v := g.someU32()
		base := v - v%1024
		var us []uint32
		for k := g.pick(0, 0, 1, 2, 3, 6, 12); k > 0; k-- {
			switch g.intn(10) {
			case 0:
				us = append(us, v)
			case 1:
				us = append(us, base-1) // wraps to MaxUint32 for block 0
			case 2:
				us = append(us, base+1024) // wraps to 0 for the top block
			case 3:
				us = append(us, g.someU32())
			case 4:
				us = append(us, base+[]uint32{0, 63, 64, 1023}[g.intn(4)])
			case 5:
				us = append(us, v+[]uint32{1, 64, ^uint32(0), ^uint32(63)}[g.intn(4)])
			default:
				us = append(us, base+uint32(g.intn(1024)))
			}
		}
		emit(runTip(v, us, g.someN(1+len(us)), "mixed"))
	}
	for r := 0; r < e.Scale(3, 60); r++ {
		s := []uint32{0, 1, maxTip - 1, maxTip, e.Rnd.Uint32() % (maxTip + 1)}[g.intn(5)]
		k := g.pick(70, 130)
		if e.Thorough || e.Search {
			k = g.pick(70, 200, 1024)
		}
		var us []uint32
		for _, p := range g.e.Rnd.Perm(1024)[:k] {
			us = append(us, s*1024+uint32(p))
		}
		emit(runTip(us[0], us[1:], g.pick(k, k-1, 1024, 1025, 5, 64, 65), "filled-block"))
	}
}

func (g gen) genLists(tip bool, emit func(vh.Case)) {
	e := g.e
	for r := 0; r < e.Scale(80, 1500); r++ {
		nb := g.pick(0, 1, 2, 2, 3, 3, 4, 5)
		if r < 3 {
			nb = 0
		}
		bl := make([]blockSpec, nb)
		total := 0
		var prefix []int
		for i := range bl {
			var st uint32
			switch {
			case tip:
				st = []uint32{0, 1, maxTip, maxTip - 1, e.Rnd.Uint32() % (maxTip + 1), e.Rnd.Uint32() % (maxTip + 1)}[g.intn(6)]
			default:
				st = []uint32{0, 1, 1<<22 - 1, 1 << 22, 1<<22 + 1, math.MaxUint32 - 1, math.MaxUint32, e.Rnd.Uint32(), e.Rnd.Uint32()}[g.intn(9)]
			}
			if i > 0 && g.intn(5) == 0 {
				st = bl[i-1].start // the same block twice
			}
			k := g.pick(0, 0, 1, 2, 3, 5, 9, 10, 11, 20)
			if (e.Thorough || e.Search) && g.intn(6) == 0 {
				k = g.pick(64, 70, 200)
			}
			ps := g.e.Rnd.Perm(1024)[:k] // order of insertion is arbitrary
			pos := make([]int16, k)
			for j, p := range ps {
				pos[j] = int16(p)
			}
			if k > 0 && g.intn(4) == 0 {
				pos = append(pos, pos[0]) // a repeated position
			}
			bl[i] = blockSpec{st, pos}
			total += k
			prefix = append(prefix, total)
		}
		n := 0
		switch g.intn(9) {
		case 0:
			n = 0
		case 1:
			n = total
		case 2:
			n = total + 1 + g.intn(3)
		case 3:
			n = -(1 + g.intn(3))
		case 4, 5:
			if len(prefix) > 0 {
				n = prefix[g.intn(len(prefix))] + g.pick(-1, 0, 1) // a count that ends at a block border
			}
		case 6:
			n = 1
		default:
			n = g.intn(total+2) + 1
		}
		emit(runList(tip, bl, n, "mixed"))
	}
}

func main() {
	vh.Main("c09", func(e *vh.Env) {
		if e.Replay != "" {
			replay(e, e.Replay)
			return
		}
		g := gen{e}
		kinds := map[string]int{}
		emit := func(c vh.Case) {
			kinds[strings.SplitN(c.Class, "/", 2)[0]]++
			e.Emit(c)
		}
		want := func(kind string) bool {
			return !e.Search || e.Focus == "" || strings.SplitN(e.Focus, "/", 2)[0] == kind
		}
		// regression inputs of the two repaired defects, first
		if want("big") {
			emit(runBig(1<<32, nil, 3, "corpus/fe370f6"))
			emit(runBig(1<<32+5, []int64{1<<32 + 7}, 3, "corpus/fe370f6"))
		}
		if want("tip") {
			emit(runTip(5, []uint32{7}, 5, "corpus/3becea6"))
		}
		if want("marshal") {
			g.genMarshal(emit)
		}
		if want("unmarshal") {
			g.genUnm(emit)
		}
		if want("big") {
			g.genBig(emit)
		}
		if want("tip") {
			g.genTip(emit)
		}
		if want("topbit") {
			g.genTopBit(emit)
		}
		if want("bigs") {
			g.genLists(false, emit)
		}
		if want("tips") {
			g.genLists(true, emit)
		}
		if want("rev") || want("revs") {
			g.genRev(emit)
		}
		if want("dense") {
			g.genDense(emit)
		}
		if want("conc") {
			g.genConcurrent(emit)
		}
		e.Meta["cases_by_kind"] = kinds
		all := true
		for n := 0; n <= 131; n++ {
			if unmLens[n] == 0 {
				all = false
			}
		}
		e.Meta["unmarshal_distinct_lengths"] = len(unmLens)
		e.Meta["unmarshal_every_length_0_to_131"] = all
		e.Meta["iteration_count_cap"] = nCap
	})
}
