package main

// Class "dense": list forms over FULL and nearly full blocks with counts around and above 1024, 2048, 4096 and the total.
// The blocks are described by the few positions they LACK; the long answers are reported in compact form (count, first
// three, last three, sum, position-weighted sum) and Coq compares that with the compact form of what the model returns.

import (
	"fmt"
	"math"
	"math/big"

	bm "github.com/pinealctx/neptune/bitmap1024"
	"verifharness/vh"
)

const denseNCap = 6000

func sobs(l []int64, panicked bool) (string, interface{}) {
	if panicked {
		return "SPanic", "panic"
	}
	sum, wsum := new(big.Int), new(big.Int)
	for i, x := range l {
		sum.Add(sum, big.NewInt(x))
		wsum.Add(wsum, new(big.Int).Mul(big.NewInt(int64(i+1)), big.NewInt(x)))
	}
	f, t := l, l
	if len(f) > 3 {
		f = f[:3]
	}
	if len(t) > 3 {
		t = t[len(t)-3:]
	}
	zb := func(b *big.Int) string {
		if b.Sign() < 0 {
			return "(" + b.String() + ")%Z"
		}
		return b.String() + "%Z"
	}
	return fmt.Sprintf("(SSum %s %s %s %s %s)", z(int64(len(l))), zs(f), zs(t), zb(sum), zb(wsum)),
		map[string]interface{}{"count": len(l), "first": f, "last": t, "sum": sum.String()}
}

// the bitmap holding every position except the missing ones, built in one of three ways
func denseBitmap(missing []int16, how int) bm.Bit1024 {
	switch how {
	case 0: // Reverse of the block holding the missing ones
		b := bm.NewBit1024()
		for _, m := range missing {
			b.SetI16(m)
		}
		return b.Reverse()
	case 1: // the 128-byte payload
		buf := make([]byte, 128)
		for i := range buf {
			buf[i] = 0xff
		}
		for _, m := range missing {
			buf[m/8] &^= 1 << uint(m%8)
		}
		b := bm.NewBit1024()
		if b.Unmarshal(buf) != nil {
			panic("dense payload refused")
		}
		return b
	}
	b := bm.NewBit1024() // 1024 sets, then unsets
	for i := int16(0); i < 1024; i++ {
		b.SetI16(i)
	}
	for _, m := range missing {
		b.UnsetI16(m)
	}
	return b
}

// CDense
func runDense(tip bool, bl []blockSpec, n int, how int, gen string) vh.Case {
	if n > denseNCap {
		n = denseNCap
	}
	var fwd, rev []int64
	pf, pr := false, false
	total := 0
	pb := guard(func() {
		if tip {
			l := make(bm.U32BitTips, len(bl))
			for i, s := range bl {
				l[i] = &bm.U32BitTip{Start: s.start, B1024: denseBitmap(s.pos, (how+i)%3)}
				total += l[i].B1024.Len()
			}
			pf = guard(func() { fwd = u32to64(l.GetNAsU32(n)) })
			pr = guard(func() { rev = u32to64(l.RGetNAsU32(n)) })
		} else {
			l := make(bm.BigU32s, len(bl))
			for i, s := range bl {
				l[i] = &bm.BigU32{Start: s.start, B1024: denseBitmap(s.pos, (how+i)%3)}
				total += l[i].B1024.Len()
			}
			pf = guard(func() { fwd = l.GetNAsI64(n) })
			pr = guard(func() { rev = l.RGetNAsI64(n) })
		}
	})
	if pb {
		pf, pr = true, true
	}
	fc, fd := sobs(fwd, pf)
	rc, rd := sobs(rev, pr)
	cl, kind := "dense/big", "BigU32s"
	if tip {
		cl, kind = "dense/tip", "U32BitTips"
	}
	starts := make([]uint32, len(bl))
	lacks := make([]int, len(bl))
	for i, b := range bl {
		starts[i], lacks[i] = b.start, len(b.pos)
	}
	return vh.Case{
		Coq:        fmt.Sprintf("(CDense %s %s %s %s %s)", vh.CoqBool(tip), specCoq(bl), z(int64(n)), fc, rc),
		Class:      cl,
		Nontrivial: n > 0,
		Replay:     fmt.Sprintf("dense:%v:%d:%d:%s", tip, n, how, specReplay(bl)),
		Desc: map[string]interface{}{"kind": kind + " of full / nearly full blocks", "gen": gen, "starts": starts, "missing_per_block": lacks,
			"total_members": total, "n": n, "forward": fd, "reverse": rd},
	}
}

func (g gen) genDense(emit func(vh.Case)) {
	e := g.e
	bigStarts := []uint32{0, 1<<22 - 1, 1 << 22, 1 << 30, math.MaxUint32 - 1, math.MaxUint32}
	tipStarts := []uint32{0, 1, 1 << 21, maxTip - 1, maxTip}
	missing := func(k int) []int16 {
		ps := make([]int16, k)
		for i, p := range g.e.Rnd.Perm(1024)[:k] {
			ps[i] = int16(p)
		}
		if k > 0 && g.intn(2) == 0 {
			ps[0] = []int16{0, 1023, 63, 64}[g.intn(4)]
		}
		return ps
	}
	ns := func(total int) []int {
		return []int{1023, 1024, 1025, 2047, 2048, 2049, 4096, 5000, total - 1, total, total + 1}
	}
	idx := 0
	for _, tip := range []bool{false, true} {
		starts := bigStarts
		if tip {
			starts = tipStarts
		}
		// one full block at every start, every count
		for _, st := range starts {
			for _, n := range []int{1023, 1024, 1025, 2048, 5000} {
				idx++
				emit(runDense(tip, []blockSpec{{st, nil}}, n, idx, "one-full-block"))
			}
		}
		// lists of 1..4 blocks: full, 1023 and 1022 members
		for r := 0; r < e.Scale(30, 400); r++ {
			nb := 1 + r%4
			bl := make([]blockSpec, nb)
			total := 0
			for i := range bl {
				k := []int{0, 0, 1, 2, 0, 3}[g.intn(6)]
				bl[i] = blockSpec{starts[g.intn(len(starts))], missing(k)}
				total += 1024 - k
			}
			cand := ns(total)
			idx++
			emit(runDense(tip, bl, cand[(r/4)%len(cand)], idx, "mixed"))
			if e.Thorough || e.Search {
				emit(runDense(tip, bl, cand[g.intn(len(cand))], idx+1, "mixed"))
			}
		}
	}
}
