package main

// The four Reverse methods: BigU32.Reverse / U32BitTip.Reverse (case CRev) and BigU32s.Reverse / U32BitTips.Reverse
// (case CRevs).  The result must be a NEW block over the same Start holding the complement of the receiver within the
// block; receiver and result must not share state (each is re-read after the other was modified).

import (
	"fmt"
	"math"
	"strconv"
	"strings"

	bm "github.com/pinealctx/neptune/bitmap1024"
	"verifharness/vh"
)

func i16s(ps []int16) []int64 {
	r := make([]int64, len(ps))
	for i, p := range ps {
		r[i] = int64(p)
	}
	return r
}
func i16to64(xs []int16) []int64 { return i16s(xs) }

// CRev
func runRev(tip bool, st uint32, ms []int16, x, y int64, us []int64, n int, gen string) vh.Case {
	n = clampN(n)
	var o string
	desc := map[string]interface{}{"kind": map[bool]string{false: "BigU32.Reverse", true: "U32BitTip.Reverse"}[tip], "gen": gen,
		"start": st, "receiver_members": len(ms), "x_offered_to_result": x, "y_offered_to_receiver": y, "us": us, "n": n}
	var rst uint32
	var rbits, recv1, recv2, rbits3 string
	var eqRR, eqSelf, accx, accy bool
	var ri16, rri16, fwd, rev []int64
	var pi, pri, pf, pr bool
	acc := make([]bool, 0, len(us))
	var resultMembers int
	p := guard(func() {
		if tip {
			b, b2 := bm.NewU32BitTip(), bm.NewU32BitTip()
			b.Start, b2.Start = st, st
			for _, m := range ms {
				b.B1024.SetI16(m)
				b2.B1024.SetI16(m)
			}
			r := b.Reverse()
			rst, rbits, recv1 = r.Start, words(r.B1024), words(b.B1024)
			resultMembers = r.B1024.Len()
			eqRR, eqSelf = b.B1024.Equal(r.B1024), b.B1024.Equal(b2.B1024)
			pi = guard(func() { ri16 = i16to64(r.B1024.GetNAsI16(n)) })
			pri = guard(func() { rri16 = i16to64(r.B1024.RGetNAsI16(n)) })
			accx = r.SetU32(uint32(x)) == nil
			recv2 = words(b.B1024)
			accy = b.SetU32(uint32(y)) == nil
			rbits3 = words(r.B1024)
			for _, u := range us {
				acc = append(acc, r.SetU32(uint32(u)) == nil)
			}
			pf = guard(func() { fwd = u32to64(r.GetNAsU32(n)) })
			pr = guard(func() { rev = u32to64(r.RGetNAsU32(n)) })
		} else {
			b, b2 := bm.NewBigU32(), bm.NewBigU32()
			b.Start, b2.Start = st, st
			for _, m := range ms {
				b.B1024.SetI16(m)
				b2.B1024.SetI16(m)
			}
			r := b.Reverse()
			rst, rbits, recv1 = r.Start, words(r.B1024), words(b.B1024)
			resultMembers = r.B1024.Len()
			eqRR, eqSelf = b.B1024.Equal(r.B1024), b.B1024.Equal(b2.B1024)
			pi = guard(func() { ri16 = i16to64(r.B1024.GetNAsI16(n)) })
			pri = guard(func() { rri16 = i16to64(r.B1024.RGetNAsI16(n)) })
			accx = r.SetI64(x) == nil
			recv2 = words(b.B1024)
			accy = b.SetI64(y) == nil
			rbits3 = words(r.B1024)
			for _, u := range us {
				acc = append(acc, r.SetI64(u) == nil)
			}
			pf = guard(func() { fwd = r.GetNAsI64(n) })
			pr = guard(func() { rev = r.RGetNAsI64(n) })
		}
	})
	if p {
		o = "RPanic"
		desc["result"] = "panic"
	} else {
		o = fmt.Sprintf("(ROk %s %s %s %s %s %s %s %s %s %s %s %s %s %s)", z(int64(rst)), rbits, recv1, vh.CoqBool(eqRR), vh.CoqBool(eqSelf), iobs(ri16, pi), iobs(rri16, pri),
			vh.CoqBool(accx), recv2, vh.CoqBool(accy), rbits3, bools(acc), iobs(fwd, pf), iobs(rev, pr))
		desc["result_start"], desc["result_members"], desc["Equal(receiver,result)"], desc["x_accepted"], desc["y_accepted"], desc["accepted"] = rst, resultMembers, eqRR, accx, accy, acc
		desc["result.RGetNAsI16"] = obsDesc(rri16, pri)
		desc["result.GetNAsI16"], desc["result.GetN"], desc["result.RGetN"] = obsDesc(ri16, pi), obsDesc(fwd, pf), obsDesc(rev, pr)
	}
	cl := "rev/big"
	if tip {
		cl = "rev/tip"
	}
	return vh.Case{
		Coq: fmt.Sprintf("(CRev %s %s %s %s %s %s %s %s)", vh.CoqBool(tip), z(int64(st)), zs(i16s(ms)), z(x), z(y), zs(us), z(int64(n)), o),
		Class:      cl,
		Nontrivial: len(ms) > 0 && len(ms) < 1024,
		Replay:     fmt.Sprintf("rev:%v:%d:%s:%d:%d:%s:%d", tip, st, joinI64(i16s(ms)), x, y, joinI64(us), n),
		Desc:       desc,
	}
}

func zpairs(sts []uint32, bits []bm.Bit1024) string {
	var sb strings.Builder
	for i := range sts {
		fmt.Fprintf(&sb, "(bc %d %s ", sts[i], words(bits[i]))
	}
	sb.WriteString("bn")
	sb.WriteString(strings.Repeat(")", len(sts)))
	return sb.String()
}

// CRevs
func runRevs(tip bool, bl []blockSpec, gen string) vh.Case {
	var resS, recvS []uint32
	var resB, recvB []bm.Bit1024
	p := guard(func() {
		if tip {
			l := make(bm.U32BitTips, len(bl))
			for i, s := range bl {
				l[i] = bm.NewU32BitTip()
				l[i].Start = s.start
				for _, m := range s.pos {
					l[i].B1024.SetI16(m)
				}
			}
			r := l.Reverse()
			for _, e := range r {
				resS, resB = append(resS, e.Start), append(resB, append(bm.Bit1024(nil), e.B1024...))
			}
			for i, e := range r { // modify every element of the result, then re-read the receivers
				e.Start += 7
				if i < len(bl) && len(bl[i].pos) > 0 {
					e.B1024.SetI16(bl[i].pos[0])
				} else {
					e.B1024.UnsetI16(5)
				}
			}
			for _, e := range l {
				recvS, recvB = append(recvS, e.Start), append(recvB, append(bm.Bit1024(nil), e.B1024...))
			}
		} else {
			l := make(bm.BigU32s, len(bl))
			for i, s := range bl {
				l[i] = bm.NewBigU32()
				l[i].Start = s.start
				for _, m := range s.pos {
					l[i].B1024.SetI16(m)
				}
			}
			r := l.Reverse()
			for _, e := range r {
				resS, resB = append(resS, e.Start), append(resB, append(bm.Bit1024(nil), e.B1024...))
			}
			for i, e := range r {
				e.Start += 7
				if i < len(bl) && len(bl[i].pos) > 0 {
					e.B1024.SetI16(bl[i].pos[0])
				} else {
					e.B1024.UnsetI16(5)
				}
			}
			for _, e := range l {
				recvS, recvB = append(recvS, e.Start), append(recvB, append(bm.Bit1024(nil), e.B1024...))
			}
		}
	})
	res, recv := zpairs(resS, resB), zpairs(recvS, recvB)
	if p { // a start no block has: the case can be neither accepted nor hold
		res, recv = "(bc (-1) zn bn)", "bn"
	}
	cl := "revs/big"
	if tip {
		cl = "revs/tip"
	}
	return vh.Case{
		Coq:        fmt.Sprintf("(CRevs %s %s %s %s)", vh.CoqBool(tip), specCoq(bl), res, recv),
		Class:      cl,
		Nontrivial: len(bl) > 0,
		Replay:     fmt.Sprintf("revs:%v:%s", tip, specReplay(bl)),
		Desc: map[string]interface{}{"kind": map[bool]string{false: "BigU32s.Reverse", true: "U32BitTips.Reverse"}[tip], "gen": gen, "blocks": specDesc(bl),
			"result_len": len(resS), "result_starts": resS, "receiver_starts_after_modifying_result": recvS, "panic": p},
	}
}

func (g gen) genRev(emit func(vh.Case)) {
	e := g.e
	for _, tip := range []bool{false, true} {
		sizes := []int{0, 1, 2, 9, 63, 64, 1000, 1023, 1024}
		for _, k := range sizes {
			reps := e.Scale(2, 12)
			if k >= 1000 { // the monitor compares 1024 positions against the member list several times: keep the long lists few
				reps = e.Scale(1, 4)
			}
			for r := 0; r < reps; r++ {
				var st uint32
				if tip {
					st = []uint32{0, 1, maxTip, maxTip - 1, e.Rnd.Uint32() % (maxTip + 1)}[g.intn(5)]
				} else {
					st = []uint32{0, 1, 1 << 22, 1<<22 - 1, math.MaxUint32 - 1, e.Rnd.Uint32()}[g.intn(6)]
				}
				perm := g.e.Rnd.Perm(1024)
				ms := make([]int16, k)
				for i := range ms {
					ms[i] = int16(perm[i])
				}
				base := int64(st) * 1024
				member := func() int64 { // an integer of the block that the receiver holds (if any)
					if k > 0 {
						return base + int64(ms[g.intn(k)])
					}
					return base + int64(g.intn(1024))
				}
				nonMember := func() int64 {
					if k < 1024 {
						return base + int64(perm[k+g.intn(1024-k)])
					}
					return base + int64(g.intn(1024))
				}
				outside := func() int64 {
					if tip {
						return int64(uint32(base + []int64{-1, 1024, 2048, -1024}[g.intn(4)]))
					}
					return base + []int64{-1, 1024, 1 << 42, -1024}[g.intn(4)]
				}
				x, y := member(), nonMember()
				switch g.intn(6) {
				case 0:
					x = outside()
				case 1:
					y = outside()
				case 2:
					x = nonMember()
				}
				var us []int64
				for j := g.pick(0, 1, 3); j > 0; j-- {
					us = append(us, []int64{member(), nonMember(), outside()}[g.intn(3)])
				}
				n := g.pick(0, 1, 2, 5, 12, 1024-k, 1025-k, -1)
				if n > 40 && !(e.Thorough || e.Search) {
					n = 12 // the 1000-element answers are for the thorough tier
				}
				if k >= 1023 {
					n = g.pick(0, 1, 3, 1024)
				}
				emit(runRev(tip, st, ms, x, y, us, n, fmt.Sprintf("receiver-with-%d-members", k)))
			}
		}
		// list forms: empty, one element, several
		for r := 0; r < e.Scale(12, 90); r++ {
			nb := []int{0, 1, 1, 2, 3, 4}[r%6]
			bl := make([]blockSpec, nb)
			for i := range bl {
				st := e.Rnd.Uint32()
				if tip {
					st %= maxTip + 1
				}
				k := g.pick(0, 1, 3, 10, 64, 1024)
				if r < 12 { // on every run: empty, one-element and full blocks at every place of short lists
					k = []int{0, 3, 1024, 1}[(r/6+i+r)%4]
				}
				pos := make([]int16, k)
				for j, p := range g.e.Rnd.Perm(1024)[:k] {
					pos[j] = int16(p)
				}
				bl[i] = blockSpec{st, pos}
			}
			emit(runRevs(tip, bl, "mixed"))
		}
	}
}

func replayRev(e *vh.Env, kind, arg string) bool {
	parseI64s := func(s string) []int64 {
		var r []int64
		if s == "" {
			return r
		}
		for _, t := range strings.Split(s, ",") {
			v, _ := strconv.ParseInt(t, 10, 64)
			r = append(r, v)
		}
		return r
	}
	switch kind {
	case "rev":
		f := strings.Split(arg, ":")
		if len(f) != 7 {
			return false
		}
		st, _ := strconv.ParseUint(f[1], 10, 32)
		var ms []int16
		for _, v := range parseI64s(f[2]) {
			ms = append(ms, int16(v))
		}
		x, _ := strconv.ParseInt(f[3], 10, 64)
		y, _ := strconv.ParseInt(f[4], 10, 64)
		n, _ := strconv.Atoi(f[6])
		e.Emit(runRev(f[0] == "true", uint32(st), ms, x, y, parseI64s(f[5]), n, "replay"))
		return true
	case "dense":
		f := strings.SplitN(arg, ":", 4)
		if len(f) != 4 {
			return false
		}
		n, _ := strconv.Atoi(f[1])
		how, _ := strconv.Atoi(f[2])
		var bl []blockSpec
		for _, t := range strings.Split(f[3], ";") {
			g := strings.SplitN(t, "=", 2)
			if len(g) != 2 {
				return false
			}
			st, _ := strconv.ParseUint(g[0], 10, 32)
			var ps []int16
			for _, x := range parseI64s(g[1]) {
				ps = append(ps, int16(x))
			}
			bl = append(bl, blockSpec{uint32(st), ps})
		}
		e.Emit(runDense(f[0] == "true", bl, n, how, "replay"))
		return true
	case "revs":
		f := strings.SplitN(arg, ":", 2)
		if len(f) != 2 {
			return false
		}
		var bl []blockSpec
		if f[1] != "" {
			for _, t := range strings.Split(f[1], ";") {
				g := strings.SplitN(t, "=", 2)
				if len(g) != 2 {
					return false
				}
				st, _ := strconv.ParseUint(g[0], 10, 32)
				var ps []int16
				for _, x := range parseI64s(g[1]) {
					ps = append(ps, int16(x))
				}
				bl = append(bl, blockSpec{uint32(st), ps})
			}
		}
		e.Emit(runRevs(f[0] == "true", bl, "replay"))
		return true
	}
	return false
}
