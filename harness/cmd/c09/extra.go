package main

// Two further generator classes of the C09 harness:
//
//   topbit: deterministic boundary cases of the reverse (and forward) iteration - a word holding 9, 10, 11, 33 or 64
//           members INCLUDING its top bit (offset 63) and its bit 0, placed in word 0, a middle word or word 15 of the
//           block, iterated with counts below / at / above what is needed to reach that word, through every block entry
//           point (BigU32, U32BitTip, BigU32s, U32BitTips), under three values of the sparse/dense threshold.
//   conc:   the same calls made by several goroutines at once, each goroutine on values it alone owns.  The functions
//           of the property are pure functions of their receiver and arguments, so what one goroutine observes must not
//           depend on what the others do; every observation that differs from the single-threaded one is emitted as an
//           ordinary case (and so is the last observation of every goroutine), and Coq decides.

import (
	"bytes"
	"fmt"
	"math"
	"sync"

	bm "github.com/pinealctx/neptune/bitmap1024"
	"verifharness/vh"
)

// ---------------------------------------------------------------- topbit

func (g gen) genTopBit(emit func(vh.Case)) {
	e := g.e
	full := e.Thorough || e.Search
	defer bm.VerifSetSparseMagic(9) // the package default
	idx := 0
	for _, magic := range []int32{9, 0, 64} {
		bm.VerifSetSparseMagic(magic)
		tag := func(c vh.Case, kind string) {
			c.Key = fmt.Sprintf("%s sparseMagic=%d", c.Coq, magic)
			c.Class = "topbit/" + kind
			if d, ok := c.Desc.(map[string]interface{}); ok {
				d["sparse_magic"] = magic
			}
			emit(c)
		}
		for _, pc := range []int{9, 10, 11, 33, 64} {
			for _, wi := range []int{0, 7, 15} {
				idx++
				// the word under test: bit 63, bit 0 and pc-2 others
				bitsIn := []int{63, 0}
				for _, x := range g.e.Rnd.Perm(62)[:pc-2] {
					bitsIn = append(bitsIn, x+1)
				}
				var pos []int
				for _, x := range bitsIn {
					pos = append(pos, wi*64+x)
				}
				above := 0 // members the reverse iteration meets before it reaches the word under test
				if wi != 15 {
					for _, x := range []int{63, g.intn(62) + 1, 0} {
						pos = append(pos, 15*64+x)
					}
					above = 3
				}
				if wi != 0 {
					for _, x := range []int{63, g.intn(62) + 1, 0} {
						pos = append(pos, x)
					}
				}
				g.e.Rnd.Shuffle(len(pos), func(i, j int) { pos[i], pos[j] = pos[j], pos[i] })
				ns := []int{above + 1, above + pc, 1024}
				if above > 0 {
					ns = append(ns, above)
				}
				if full {
					ns = append(ns, above+pc-1, above+pc+1, above+2, len(pos), len(pos)-1)
				}
				// BigU32
				s := []int64{0, 1, 1 << 22, 1<<32 - 2}[idx%4]
				vs := make([]int64, len(pos))
				for i, p := range pos {
					vs[i] = s*1024 + int64(p)
				}
				for _, n := range ns {
					tag(runBig(vs[0], vs[1:], n, fmt.Sprintf("word%d/popcount%d", wi, pc)), "big")
				}
				// U32BitTip
				if full || pc == 10 || pc == 64 {
					st := []uint32{0, maxTip, 3}[idx%3]
					us := make([]uint32, len(pos))
					for i, p := range pos {
						us[i] = st*1024 + uint32(p)
					}
					tns := ns
					if !full {
						tns = []int{above + 1, 1024}
					}
					for _, n := range tns {
						tag(runTip(us[0], us[1:], n, fmt.Sprintf("word%d/popcount%d", wi, pc)), "tip")
					}
				}
				// the list forms: a small block before and after the block under test
				p16 := make([]int16, len(pos))
				for i, p := range pos {
					p16[i] = int16(p)
				}
				lns := []int{above + 3, 1024}
				if full {
					lns = append(lns, above+2, above+pc+2, above+pc+3, 2)
				}
				bl := []blockSpec{{uint32(s) + 5, []int16{1023, 0}}, {uint32(s), p16}, {7, []int16{63}}}
				for _, n := range lns {
					tag(runList(false, bl, n, fmt.Sprintf("word%d/popcount%d", wi, pc)), "bigs")
				}
				if full || pc == 10 || pc == 64 {
					tl := []blockSpec{{5, []int16{63}}, {[]uint32{0, maxTip, 3}[idx%3], p16}, {9, []int16{1023, 0}}}
					for _, n := range lns {
						tag(runList(true, tl, n, fmt.Sprintf("word%d/popcount%d", wi, pc)), "tips")
					}
				}
			}
		}
	}
}

// ---------------------------------------------------------------- conc

const concGoroutines = 8

type concViolation struct {
	g int
	c vh.Case
}

func (g gen) genConcurrent(emit func(vh.Case)) {
	e := g.e
	rounds := e.Scale(100000, 600000)   // Marshal round trips per goroutine
	slowRounds := e.Scale(250, 4000)    // rounds of the block / list calls per goroutine
	const maxViolPerG = 8

	// ---- inputs, drawn single-threaded: every goroutine owns its own, pairwise different, bitmaps ----
	type owned struct {
		ws   [][16]uint64
		base [][]byte // what Marshal answered before the other goroutines were started
		big  struct {
			v  int64
			us []int64
			n  int
		}
		tip struct {
			v  uint32
			us []uint32
			n  int
		}
		bigs, tips []blockSpec
		ln         int
		baseCoq    [4]string
	}
	own := make([]*owned, concGoroutines)
	for k := range own {
		o := &owned{}
		for _, cnt := range []int{1 + k, 9 + k, 20 + 3*k, 40 + 2*k, 62 - k, 63, 64 + k, 200 + k} {
			ws, _ := g.bitmapWithLen(cnt)
			o.ws = append(o.ws, ws)
		}
		st := []int64{int64(k), 1<<22 + int64(k), math.MaxUint32 - 1 - int64(k)}[k%3]
		ps := g.e.Rnd.Perm(1024)[:12+k]
		for i, p := range ps {
			if i == 0 {
				o.big.v = st*1024 + int64(p)
			} else {
				o.big.us = append(o.big.us, st*1024+int64(p))
			}
		}
		o.big.n = len(ps)
		tst := uint32(k) * 1000
		for i, p := range g.e.Rnd.Perm(1024)[:12+k] {
			if i == 0 {
				o.tip.v = tst*1024 + uint32(p)
			} else {
				o.tip.us = append(o.tip.us, tst*1024+uint32(p))
			}
		}
		o.tip.n = 12 + k
		for j := 0; j < 3; j++ {
			var p16 []int16
			for _, p := range g.e.Rnd.Perm(1024)[:4+k] {
				p16 = append(p16, int16(p))
			}
			o.bigs = append(o.bigs, blockSpec{uint32(1<<22) + uint32(8*k+j), p16})
			o.tips = append(o.tips, blockSpec{uint32(100*k + j), p16})
		}
		o.ln = 3*(4+k) - 1
		own[k] = o
	}
	for _, o := range own {
		for _, ws := range o.ws {
			var out []byte
			guard(func() { out = bitmapOf(ws).Marshal() })
			o.base = append(o.base, append([]byte(nil), out...))
		}
		o.baseCoq[0] = runBig(o.big.v, o.big.us, o.big.n, "").Coq
		o.baseCoq[1] = runTip(o.tip.v, o.tip.us, o.tip.n, "").Coq
		o.baseCoq[2] = runList(false, o.bigs, o.ln, "").Coq
		o.baseCoq[3] = runList(true, o.tips, o.ln, "").Coq
	}

	// ---- the concurrent phase ----
	var mu sync.Mutex
	var viol []concViolation
	last := make([][]vh.Case, concGoroutines)
	start := make(chan struct{})
	var wg sync.WaitGroup
	var total int64
	for k := 0; k < concGoroutines; k++ {
		wg.Add(1)
		go func(k int) {
			defer wg.Done()
			o := own[k]
			mine := 0
			report := func(c vh.Case) {
				if mine < maxViolPerG {
					mine++
					mu.Lock()
					viol = append(viol, concViolation{k, c})
					mu.Unlock()
				}
			}
			<-start
			fresh := bm.NewBit1024()
			bms := make([]bm.Bit1024, len(o.ws))
			for i, ws := range o.ws {
				bms[i] = bitmapOf(ws)
			}
			done := 0
			for r := 0; r < rounds; r++ {
				i := r % len(bms)
				var out []byte
				var uerr error
				for j := range fresh {
					fresh[j] = 0
				}
				p := guard(func() {
					out = bms[i].Marshal()
					uerr = fresh.Unmarshal(out)
				})
				done++
				if p || uerr != nil || !fresh.Equal(bms[i]) || !bytes.Equal(out, o.base[i]) {
					if mine < maxViolPerG {
						// emit exactly what this goroutine saw in this round
						obs := marshalObs{ws: o.ws[i], bytes: append([]byte(nil), out...), p1: p, uerr: uerr, fresh: append(bm.Bit1024(nil), fresh...)}
						report(obs.toCase(fmt.Sprintf("goroutine %d of %d, round %d", k, concGoroutines, r), "conc/marshal"))
					}
				}
			}
			// the block types and the list forms: complete runs, compared with the single-threaded answer
			for r := 0; r < slowRounds; r++ {
				cs := [4]vh.Case{
					runBig(o.big.v, o.big.us, o.big.n, "concurrent"),
					runTip(o.tip.v, o.tip.us, o.tip.n, "concurrent"),
					runList(false, o.bigs, o.ln, "concurrent"),
					runList(true, o.tips, o.ln, "concurrent"),
				}
				for j := range cs {
					if cs[j].Coq != o.baseCoq[j] {
						report(cs[j])
					}
				}
				if r == slowRounds-1 {
					last[k] = cs[:]
				}
			}
			// what this goroutine saw last for two of its bitmaps
			for _, i := range []int{k % len(o.ws), (k + 3) % len(o.ws)} {
				last[k] = append(last[k], observeMarshal(o.ws[i]).toCase(fmt.Sprintf("goroutine %d, after the loop, others still running", k), "conc/marshal"))
			}
			mu.Lock()
			total += int64(done)
			mu.Unlock()
		}(k)
	}
	close(start)
	wg.Wait()
	for _, v := range viol {
		c := v.c
		c.Class = "conc/" + map[bool]string{true: "marshal", false: "blocks"}[len(c.Coq) > 9 && c.Coq[:9] == "(CMarshal"]
		c.Key = fmt.Sprintf("%s goroutine=%d", c.Coq, v.g)
		emit(c)
	}
	for k := range last {
		for _, c := range last[k] {
			if len(c.Coq) > 9 && c.Coq[:9] == "(CMarshal" {
				c.Class = "conc/marshal"
			} else {
				c.Class = "conc/blocks"
			}
			c.Key = fmt.Sprintf("%s goroutine=%d", c.Coq, k)
			emit(c)
		}
	}
	e.Meta["concurrent_goroutines"] = concGoroutines
	e.Meta["concurrent_marshal_roundtrips"] = total
	e.Meta["concurrent_block_rounds_per_goroutine"] = slowRounds
	e.Meta["concurrent_divergent_observations"] = len(viol)
}
