package main

import (
	"context"
	"database/sql"
	"database/sql/driver"
	"errors"
	"fmt"
	"strings"
	"sync"

	"github.com/pinealctx/neptune/store/gormx"
	"gorm.io/driver/mysql"
	"gorm.io/gorm"
	"gorm.io/gorm/logger"
	"verifharness/vh"
)

// ---- fake database/sql driver recording Begin / Commit / Rollback / Exec ----

type c18Script struct {
	mu                            sync.Mutex
	beginOK, commitOK, rollbackOK bool
	events                        []string
}

func (s *c18Script) add(e string) { s.mu.Lock(); s.events = append(s.events, e); s.mu.Unlock() }

type c18Driver struct{ s *c18Script }
type c18Conn struct{ s *c18Script }
type c18Tx struct{ s *c18Script }
type c18Res struct{}

func (c18Res) LastInsertId() (int64, error) { return 0, nil }
func (c18Res) RowsAffected() (int64, error) { return 1, nil }

func (d *c18Driver) Open(string) (driver.Conn, error) { return &c18Conn{d.s}, nil }
func (c *c18Conn) Prepare(q string) (driver.Stmt, error) {
	return nil, errors.New("prepare unsupported")
}
func (c *c18Conn) Close() error { return nil }
func (c *c18Conn) Begin() (driver.Tx, error) {
	if !c.s.beginOK {
		c.s.add("BEGINFAIL")
		return nil, errors.New("begin-failed")
	}
	c.s.add("BEGIN")
	return &c18Tx{c.s}, nil
}
func (c *c18Conn) ExecContext(ctx context.Context, q string, args []driver.NamedValue) (driver.Result, error) {
	c.s.add("EXEC " + q)
	return c18Res{}, nil
}
func (t *c18Tx) Commit() error {
	t.s.add("COMMIT")
	if !t.s.commitOK {
		return errors.New("commit-failed")
	}
	return nil
}
func (t *c18Tx) Rollback() error {
	t.s.add("ROLLBACK")
	if !t.s.rollbackOK {
		return errors.New("rollback-failed")
	}
	return nil
}

var c18DrvSeq int

type c18Step struct {
	kind int // 0 ok, 1 fail, 2 panic
}

func c18RunOne(beginOK, commitOK, rollbackOK bool, steps []int, combined bool) (events []string, result string) {
	s := &c18Script{beginOK: beginOK, commitOK: commitOK, rollbackOK: rollbackOK}
	c18DrvSeq++
	name := fmt.Sprintf("c18fake%d", c18DrvSeq)
	sql.Register(name, &c18Driver{s})
	sdb, err := sql.Open(name, "")
	if err != nil {
		panic(err)
	}
	defer sdb.Close()
	db, err := gorm.Open(mysql.New(mysql.Config{Conn: sdb, SkipInitializeWithVersion: true}), &gorm.Config{Logger: logger.Discard, SkipDefaultTransaction: true})
	if err != nil {
		panic(err)
	}
	fns := make([]gormx.GormProcFn, len(steps))
	for i, k := range steps {
		i, k := i, k
		fns[i] = func(txn *gorm.DB) error {
			// every step issues one statement inside the transaction so that it is visible in the event list
			if e := txn.Exec(fmt.Sprintf("step%d", i)).Error; e != nil {
				return fmt.Errorf("exec-error:%v", e)
			}
			switch k {
			case 1:
				return fmt.Errorf("step-error-%d", i)
			case 2:
				panic(fmt.Sprintf("step-panic-%d", i))
			}
			return nil
		}
	}
	var rerr error
	var outerPanic interface{}
	func() {
		defer func() { outerPanic = recover() }()
		if combined {
			rerr = gormx.Transact(db, gormx.Combine(fns...))
		} else {
			rerr = gormx.Transact(db, fns...)
		}
	}()
	switch {
	case outerPanic != nil:
		result = fmt.Sprintf("ESCAPED-PANIC %v", outerPanic)
	case rerr == nil:
		result = "nil"
	default:
		result = rerr.Error()
	}
	return s.events, result
}

// map observation to Coq terms; anything unexpected becomes an event/result the model never produces
func c18CoqEvents(ev []string) string {
	out := []string{}
	for _, e := range ev {
		switch {
		case e == "BEGIN":
			out = append(out, "EBegin")
		case e == "BEGINFAIL":
			out = append(out, "EBeginFail")
		case e == "COMMIT":
			out = append(out, "ECommit")
		case e == "ROLLBACK":
			out = append(out, "ERollback")
		case strings.HasPrefix(e, "EXEC step"):
			var i int
			fmt.Sscanf(e, "EXEC step%d", &i)
			out = append(out, fmt.Sprintf("EExec %d", i))
		default:
			out = append(out, "EExec 999")
		}
	}
	return vh.CoqList(out)
}
func c18CoqResult(r string) string {
	var i int
	switch {
	case r == "nil":
		return "RNil"
	case r == "begin-failed":
		return "RBeginErr"
	case r == "commit-failed":
		return "RCommitErr"
	case strings.HasPrefix(r, "step-error-"):
		fmt.Sscanf(r, "step-error-%d", &i)
		return fmt.Sprintf("(RStepErr %d)", i)
	case strings.HasPrefix(r, "db.transaction.panic:step-panic-"):
		fmt.Sscanf(r, "db.transaction.panic:step-panic-%d", &i)
		return fmt.Sprintf("(RPanicErr %d)", i)
	}
	return "(RStepErr 999)"
}

// gormx.Transact: every outcome vector for 0..4 steps x begin/commit/rollback
func main() {
	vh.Main("c18", func(e *vh.Env) {
		maxSteps := 4
		if e.Thorough || e.Search {
			maxSteps = 5
		}
		var rec func(prefix []int, n int)
		emit := func(steps []int) {
			for m := 0; m < 16; m++ {
				b, c, r, comb := m&1 != 0, m&2 != 0, m&4 != 0, m&8 != 0
				ev, res := c18RunOne(b, c, r, steps, comb)
				ss := make([]string, len(steps))
				for i, k := range steps {
					switch k {
					case 0:
						ss[i] = "SOk"
					case 1:
						ss[i] = fmt.Sprintf("SFail %d", i)
					case 2:
						ss[i] = fmt.Sprintf("SPanic %d", i)
					}
				}
				coq := fmt.Sprintf("(%s, {| begin_ok := %s; commit_ok := %s; rollback_ok := %s; steps := %s |}, (%s, %s))",
					vh.CoqBool(comb), vh.CoqBool(b), vh.CoqBool(c), vh.CoqBool(r), vh.CoqList(ss), c18CoqEvents(ev), c18CoqResult(res))
				cls := "direct"
				if comb {
					cls = "combined"
				}
				e.Emit(vh.Case{Coq: coq, Class: fmt.Sprintf("%s steps=%d", cls, len(steps)), Nontrivial: len(steps) > 0,
					Desc: map[string]interface{}{"combined": comb, "begin_ok": b, "commit_ok": c, "rollback_ok": r, "steps": steps, "events": ev, "result": res}})
			}
		}
		rec = func(prefix []int, n int) {
			if len(prefix) == n {
				emit(prefix)
				return
			}
			for k := 0; k < 3; k++ {
				rec(append(append([]int{}, prefix...), k), n)
			}
		}
		for n := 0; n <= maxSteps; n++ {
			rec(nil, n)
		}
		e.Meta["exhaustive"] = true
		e.Meta["space"] = fmt.Sprintf("all step vectors in {ok,fail,panic}^n for n=0..%d x begin/commit/rollback in {ok,fail} x {steps passed directly, steps wrapped by Combine}", maxSteps)
	})
}
