package main

import (
	"context"
	"database/sql"
	"database/sql/driver"
	"errors"
	"fmt"
	"math/rand"
	"runtime"
	"sort"
	"strings"
	"sync"

	"github.com/pinealctx/neptune/store/gormx"
	"gorm.io/driver/mysql"
	"gorm.io/gorm"
	"gorm.io/gorm/logger"
	"verifharness/vh"
)

// ---- fake database/sql driver recording Begin / Commit / Rollback / Exec ----

type c18Script struct {
	mu                            sync.Mutex
	beginOK, commitOK, rollbackOK bool
	beginBadConn                  bool // a failing Begin reports driver.ErrBadConn (database/sql retries it on fresh connections)
	events                        []string
}

func (s *c18Script) add(e string) { s.mu.Lock(); s.events = append(s.events, e); s.mu.Unlock() }

type c18Driver struct{ s *c18Script }
type c18Conn struct{ s *c18Script }
type c18Tx struct{ s *c18Script }
type c18Res struct{}

func (c18Res) LastInsertId() (int64, error) { return 0, nil }
func (c18Res) RowsAffected() (int64, error) { return 1, nil }

func (d *c18Driver) Open(string) (driver.Conn, error) { return &c18Conn{d.s}, nil }
func (c *c18Conn) Prepare(q string) (driver.Stmt, error) {
	return &c18Stmt{c.s, q}, nil // reached only by handles opened with gorm.Config{PrepareStmt: true}
}

type c18Stmt struct {
	s *c18Script
	q string
}

func (st *c18Stmt) Close() error  { return nil }
func (st *c18Stmt) NumInput() int { return -1 }
func (st *c18Stmt) Exec(args []driver.Value) (driver.Result, error) {
	st.s.add("EXEC " + st.q)
	return c18Res{}, nil
}
func (st *c18Stmt) Query(args []driver.Value) (driver.Rows, error) {
	return nil, errors.New("query unsupported")
}
func (c *c18Conn) Close() error { return nil }
func (c *c18Conn) Begin() (driver.Tx, error) {
	if !c.s.beginOK {
		c.s.add("BEGINFAIL")
		if c.s.beginBadConn {
			return nil, driver.ErrBadConn
		}
		return nil, errors.New("begin-failed")
	}
	c.s.add("BEGIN")
	return &c18Tx{c.s}, nil
}
func (c *c18Conn) ExecContext(ctx context.Context, q string, args []driver.NamedValue) (driver.Result, error) {
	c.s.add("EXEC " + q)
	return c18Res{}, nil
}
func (t *c18Tx) Commit() error {
	t.s.add("COMMIT")
	if !t.s.commitOK {
		return errors.New("commit-failed")
	}
	return nil
}
func (t *c18Tx) Rollback() error {
	t.s.add("ROLLBACK")
	if !t.s.rollbackOK {
		return errors.New("rollback-failed")
	}
	return nil
}

var c18DrvSeq int

type c18KeyT struct{}

// c18DB is one gorm handle over its own recording fake driver (one pooled connection).
type c18DB struct {
	s       *c18Script
	db      *gorm.DB
	sdb     *sql.DB
	prepare bool // opened with gorm.Config{PrepareStmt: true}
	stale   bool // Transact is given a handle that already carries an error
}

func c18NewDB() *c18DB { return c18NewDBOpt(false) }

func c18NewDBOpt(prepareStmt bool) *c18DB {
	s := &c18Script{}
	c18DrvSeq++
	name := fmt.Sprintf("c18fake%d", c18DrvSeq)
	sql.Register(name, &c18Driver{s})
	sdb, err := sql.Open(name, "")
	if err != nil {
		panic(err)
	}
	sdb.SetMaxOpenConns(1)
	db, err := gorm.Open(mysql.New(mysql.Config{Conn: sdb, SkipInitializeWithVersion: true}), &gorm.Config{Logger: logger.Discard, SkipDefaultTransaction: true, PrepareStmt: prepareStmt})
	if err != nil {
		panic(err)
	}
	return &c18DB{s: s, db: db, sdb: sdb, prepare: prepareStmt}
}

// c18StepFn is the i-th step; what it does is read from the script carried by the transaction's context, so that
// one (shared) step function - and one shared Combine of such functions - serves every transaction.
// kinds: 0 ok, 1 plain error, 2 panic, 3 error wrapping context.Canceled, 4 error wrapping context.DeadlineExceeded,
// 5 the step rolls the transaction back itself and returns nil (generated as the last step only),
// 10 runtime.Error panic, 11 panic(error value),
// 6 panic(nil), 7 runtime.Goexit(), 8 nested Transact whose failure the step returns, 9 nested Transact whose failure the step ignores.
func c18StepFn(i int) gormx.GormProcFn {
	return func(txn *gorm.DB) error {
		steps, _ := txn.Statement.Context.Value(c18KeyT{}).([]int)
		k := 0
		if i < len(steps) {
			k = steps[i]
		}
		// every step issues one statement inside the transaction so that it is visible in the event list
		if e := txn.Exec(fmt.Sprintf("step%d", i)).Error; e != nil {
			return fmt.Errorf("exec-error:%v", e)
		}
		switch k {
		case 1:
			return fmt.Errorf("step-error-%d", i)
		case 2:
			panic(fmt.Sprintf("step-panic-%d", i))
		case 3:
			return fmt.Errorf("step-error-%d: %w", i, context.Canceled)
		case 4:
			return fmt.Errorf("step-error-%d: %w", i, context.DeadlineExceeded)
		case 5:
			_ = txn.Rollback()
			return nil
		case 6:
			panic(nil) // recover() returns nil for it under the module's go 1.19 semantics
		case 7:
			runtime.Goexit() // e.g. t.FailNow() inside a step: deferred calls run, recover() returns nil
		case 8:
			// a nested Transact on the handle the step was given: gorm cannot begin inside a transaction, the inner
			// call fails without running its step and must leave the outer transaction alone; the step reports it
			if e := gormx.Transact(txn, c18InnerStep); e != nil {
				return fmt.Errorf("step-error-%d: %w", i, e)
			}
			return nil
		case 9:
			_ = gormx.Transact(txn, c18InnerStep) // the same, but the step ignores the inner failure and succeeds
		case 10:
			// a genuine runtime.Error panic (a bug in the step): handled like every other panic - rolled back, reported
			var m map[int]int
			m[i] = 1
		case 11:
			panic(fmt.Errorf("step-panic-%d", i)) // an error VALUE as the panic value
		}
		return nil
	}
}

// the step of a nested Transact: never runs on the unchanged code (an "EXEC inner" event is one the model never produces)
func c18InnerStep(txn *gorm.DB) error {
	return txn.Exec("inner").Error
}

var c18SharedFns = func() []gormx.GormProcFn {
	fns := make([]gormx.GormProcFn, 8)
	for i := range fns {
		fns[i] = c18StepFn(i)
	}
	return fns
}()

// one shared combined step per length (this is what concurrent callers share)
var c18SharedCombined = func() []gormx.GormProcFn {
	cs := make([]gormx.GormProcFn, 9)
	for n := range cs {
		cs[n] = gormx.Combine(c18SharedFns[:n]...)
	}
	return cs
}()

func (d *c18DB) run(beginOK, commitOK, rollbackOK bool, steps []int, combined bool) (events []string, result string) {
	return d.runB(beginOK, false, commitOK, rollbackOK, steps, combined)
}

func (d *c18DB) runB(beginOK, badConn, commitOK, rollbackOK bool, steps []int, combined bool) (events []string, result string) {
	d.s.mu.Lock()
	d.s.beginOK, d.s.commitOK, d.s.rollbackOK = beginOK, commitOK, rollbackOK
	d.s.beginBadConn = badConn
	d.s.events = nil
	d.s.mu.Unlock()
	db := d.db.WithContext(context.WithValue(context.Background(), c18KeyT{}, steps))
	if d.stale {
		_ = db.AddError(errors.New("stale-handle")) // e.g. the handle is the result of an earlier failed call
	}
	var rerr error
	var outerPanic interface{}
	returned := false
	gone := make(chan struct{})
	go func() { // own goroutine: a step may end it (runtime.Goexit)
		defer close(gone)
		defer func() {
			if !returned {
				outerPanic = recover()
			}
		}()
		if combined {
			rerr = gormx.Transact(db, c18SharedCombined[len(steps)])
		} else {
			rerr = gormx.Transact(db, c18SharedFns[:len(steps)]...)
		}
		returned = true
	}()
	<-gone
	func() {
		// a torn error value (two words written by racing goroutines) makes Error() fault: report it, do not die
		defer func() {
			if p := recover(); p != nil {
				result = fmt.Sprintf("CORRUPT-ERROR-VALUE %v", p)
			}
		}()
		switch {
		case outerPanic != nil:
			result = fmt.Sprintf("ESCAPED-PANIC %v", outerPanic)
		case !returned:
			result = "GOROUTINE-ENDED-WITHOUT-RETURN"
		case rerr == nil:
			result = "nil"
		default:
			result = rerr.Error()
		}
	}()
	d.s.mu.Lock()
	events = append([]string{}, d.s.events...)
	d.s.mu.Unlock()
	if d.sdb.Stats().InUse != 0 {
		// Transact returned but the transaction still holds its connection: it was never finished.
		// Record it and continue on a fresh handle (the leaked one would block every later Begin).
		events = append(events, "TX-LEFT-OPEN")
		fresh := c18NewDBLockedOpt(d.prepare)
		fresh.stale = d.stale
		*d = *fresh
	}
	return events, result
}

// map observation to Coq terms; anything unexpected becomes an event/result the model never produces
func c18CoqEvents(ev []string) string {
	out := []string{}
	for i, e := range ev {
		if e == "BEGINFAIL" && i > 0 && ev[i-1] == "BEGINFAIL" {
			continue // database/sql retries a bad connection: several driver-level attempts are one failed Begin
		}
		switch {
		case e == "BEGIN":
			out = append(out, "EBegin")
		case e == "BEGINFAIL":
			out = append(out, "EBeginFail")
		case e == "COMMIT":
			out = append(out, "ECommit")
		case e == "ROLLBACK":
			out = append(out, "ERollback")
		case strings.HasPrefix(e, "EXEC step"):
			var i int
			fmt.Sscanf(e, "EXEC step%d", &i)
			out = append(out, fmt.Sprintf("EExec %d", i))
		default:
			out = append(out, "EExec 999")
		}
	}
	return vh.CoqList(out)
}
func c18CoqResult(r string) string {
	var i int
	switch {
	case r == "nil":
		return "RNil"
	case r == "begin-failed", r == driver.ErrBadConn.Error():
		return "RBeginErr"
	case r == "commit-failed":
		return "RCommitErr"
	case strings.Contains(r, sql.ErrTxDone.Error()):
		return "RTxDone"
	case strings.HasPrefix(r, "step-error-"):
		fmt.Sscanf(r, "step-error-%d", &i)
		return fmt.Sprintf("(RStepErr %d)", i)
	case r == "db.transaction.panic:<nil>":
		return "(RPanicErr 777)"
	case r == "db.transaction.panic:assignment to entry in nil map":
		return "(RPanicErr 779)"
	case r == "GOROUTINE-ENDED-WITHOUT-RETURN":
		return "(RPanicErr 778)"
	case strings.HasPrefix(r, "db.transaction.panic:step-panic-"):
		fmt.Sscanf(r, "db.transaction.panic:step-panic-%d", &i)
		return fmt.Sprintf("(RPanicErr %d)", i)
	}
	return "(RStepErr 999)"
}

// gormx.Transact: every outcome vector for 0..4 steps x begin/commit/rollback, direct and through Combine; steps whose
// error wraps a context error; a last step that finishes the transaction itself; concurrent callers sharing one
// combined step.
func c18CoqSteps(steps []int) string {
	ss := make([]string, len(steps))
	for i, k := range steps {
		switch k {
		case 0, 9:
			ss[i] = "SOk"
		case 1, 3, 4, 8:
			ss[i] = fmt.Sprintf("SFail %d", i)
		case 2, 11:
			ss[i] = fmt.Sprintf("SPanic %d", i)
		case 10:
			ss[i] = "SPanic 779"
		case 5:
			ss[i] = "SDoneRb"
		case 6:
			ss[i] = "SPanic 777"
		case 7:
			ss[i] = "SPanic 778"
		}
	}
	return vh.CoqList(ss)
}

func c18Case(comb, b, c, r bool, steps []int, ev []string, res string, class string, extra map[string]interface{}) vh.Case {
	mode := "MDirect"
	if comb {
		mode = "MCombined"
	}
	return c18CaseM(mode, b, c, r, steps, ev, res, class, extra)
}

func c18CaseM(mode string, b, c, r bool, steps []int, ev []string, res string, class string, extra map[string]interface{}) vh.Case {
	comb := mode == "MCombined"
	cres := c18CoqResult(res)
	if mode == "MStale" && res == "stale-handle" {
		cres = "RBeginErr" // the handle's own error: a failure to begin
	}
	coq := fmt.Sprintf("(%s, {| begin_ok := %s; commit_ok := %s; rollback_ok := %s; steps := %s |}, (%s, %s))",
		mode, vh.CoqBool(b), vh.CoqBool(c), vh.CoqBool(r), c18CoqSteps(steps), c18CoqEvents(ev), cres)
	desc := map[string]interface{}{"mode": mode, "combined": comb, "begin_ok": b, "commit_ok": c, "rollback_ok": r,
		"steps(0 ok,1 error,2 panic,3 error wrapping context.Canceled,4 wrapping DeadlineExceeded,5 step rolls back itself,6 panic(nil),7 runtime.Goexit,8 nested Transact failure returned,9 nested Transact failure ignored,10 runtime.Error panic (nil map write),11 panic(error value))": steps, "events": ev, "result": res}
	for k, v := range extra {
		desc[k] = v
	}
	return vh.Case{Coq: coq, Class: class, Nontrivial: len(steps) > 0, Desc: desc}
}

func main() {
	vh.Main("c18", func(e *vh.Env) {
		maxSteps := 4
		if e.Thorough || e.Search {
			maxSteps = 5
		}
		d := c18NewDBLocked()
		emit := func(steps []int, tag string) {
			for m := 0; m < 16; m++ {
				b, c, r, comb := m&1 != 0, m&2 != 0, m&4 != 0, m&8 != 0
				ev, res := d.run(b, c, r, steps, comb)
				cls := "direct"
				if comb {
					cls = "combined"
				}
				e.Emit(c18Case(comb, b, c, r, steps, ev, res, fmt.Sprintf("%s%s steps=%d", cls, tag, len(steps)), nil))
			}
		}
		var rec func(prefix []int, n int)
		rec = func(prefix []int, n int) {
			if len(prefix) == n {
				emit(prefix, "")
				return
			}
			for k := 0; k < 3; k++ {
				rec(append(append([]int{}, prefix...), k), n)
			}
		}
		for n := 0; n <= maxSteps; n++ {
			rec(nil, n)
		}
		// a Begin that keeps failing with driver.ErrBadConn (the server is gone): still a failure to begin
		for n := 1; n <= maxSteps; n++ {
			for _, comb := range []bool{false, true} {
				for _, k := range []int{0, 1} {
					st := make([]int, n)
					st[n-1] = k
					ev, res := d.runB(false, true, true, true, st, comb)
					e.Emit(c18Case(comb, false, true, true, st, ev, res, "begin bad-conn", map[string]interface{}{"begin_error": "driver.ErrBadConn on every attempt"}))
				}
			}
		}
		// errors that wrap a context error (they are ordinary step failures), and a last step that ends the
		// transaction itself: every position / prefix of ok steps up to maxSteps
		for n := 1; n <= maxSteps; n++ {
			for pos := 0; pos < n; pos++ {
				for _, k := range []int{3, 4} {
					st := make([]int, n)
					st[pos] = k
					emit(st, " ctx-error")
				}
			}
			st := make([]int, n)
			st[n-1] = 5
			emit(st, " step-ends-tx")
			for pos := 0; pos < n; pos++ {
				for _, k := range []int{6, 7} {
					sp := make([]int, n)
					sp[pos] = k
					emit(sp, " nil-panic-or-goexit")
				}
				for _, k := range []int{10, 11} {
					sp := make([]int, n)
					sp[pos] = k
					emit(sp, " runtime-error-or-error-value-panic")
				}
			}
		}
		// nested Transact inside a step (kinds 8, 9) at every position, alone and followed by ok / failing steps
		for n := 1; n <= maxSteps; n++ {
			for pos := 0; pos < n; pos++ {
				for _, k := range []int{8, 9} {
					for _, last := range []int{0, 1, 2} {
						st := make([]int, n)
						st[pos] = k
						if pos != n-1 {
							st[n-1] = last
						} else if last != 0 {
							continue
						}
						emit(st, " nested-transact")
					}
				}
			}
		}
		// handles opened with gorm.Config{PrepareStmt: true} (the transaction's ConnPool is gorm's PreparedStmtTX,
		// not *sql.Tx): every outcome vector up to 3 steps, plus the special step kinds
		{
			keep := d
			d = c18NewDBLockedOpt(true)
			var recp func(prefix []int, n int)
			recp = func(prefix []int, n int) {
				if len(prefix) == n {
					emit(prefix, " prepare-stmt")
					return
				}
				for k := 0; k < 3; k++ {
					recp(append(append([]int{}, prefix...), k), n)
				}
			}
			for n := 0; n <= 3; n++ {
				recp(nil, n)
			}
			for _, k := range []int{3, 5, 6, 7, 8, 9} {
				emit([]int{0, k}, " prepare-stmt special")
				emit([]int{k}, " prepare-stmt special")
			}
			d = keep
		}
		// a handle that already carries an error (defect 20): nothing may be begun, no step runs, an error comes back;
		// default and PrepareStmt handles, every begin/commit/rollback vector, steps passed directly
		for _, prep := range []bool{false, true} {
			ds := c18NewDBLockedOpt(prep)
			ds.stale = true
			for n := 0; n <= 3; n++ {
				for _, k := range []int{0, 1, 2} {
					if n == 0 && k != 0 {
						continue
					}
					st := make([]int, n)
					if n > 0 {
						st[n-1] = k
					}
					for m := 0; m < 8; m++ {
						b, c, r := m&1 != 0, m&2 != 0, m&4 != 0
						ev, res := ds.run(b, c, r, st, false)
						e.Emit(c18CaseM("MStale", b, c, r, st, ev, res, "stale-handle", map[string]interface{}{"prepare_stmt": prep, "handle": "carries the error \"stale-handle\" before Transact is called"}))
					}
				}
			}
		}
		// concurrent callers sharing ONE combined step (and one set of step functions), each in its own
		// transaction on its own database handle; every distinct (configuration, observed trace) is emitted once
		workers, per := 8, e.Scale(25000, 150000)
		type obs struct {
			key   string
			c     vh.Case
			count int
		}
		var mu sync.Mutex
		seen := map[string]*obs{}
		var wg sync.WaitGroup
		start := make(chan struct{})
		for w := 0; w < workers; w++ {
			wg.Add(1)
			seed := e.Seed*1000 + int64(w)
			go func(w int) {
				defer wg.Done()
				rnd := rand.New(rand.NewSource(seed))
				dw := c18NewDBLocked()
				<-start
				for it := 0; it < per; it++ {
					n := 1 + rnd.Intn(3)
					st := make([]int, n)
					if rnd.Intn(2) == 0 {
						st[rnd.Intn(n)] = 1 + rnd.Intn(2)*2 // 1 or 3
					}
					comb := rnd.Intn(4) != 0
					c := rnd.Intn(8) != 0
					ev, res := dw.run(true, c, true, st, comb)
					cs := c18Case(comb, true, c, true, st, ev, res, "concurrent shared step", map[string]interface{}{"concurrent_callers": workers})
					mu.Lock()
					if o, ok := seen[cs.Coq]; ok {
						o.count++
					} else {
						seen[cs.Coq] = &obs{key: cs.Coq, c: cs, count: 1}
					}
					mu.Unlock()
				}
			}(w)
		}
		close(start)
		wg.Wait()
		keys := make([]string, 0, len(seen))
		for k := range seen {
			keys = append(keys, k)
		}
		sort.Strings(keys)
		total := 0
		for _, k := range keys {
			o := seen[k]
			total += o.count
			if m, ok := o.c.Desc.(map[string]interface{}); ok {
				m["times_observed"] = o.count
			}
			e.Emit(o.c)
		}
		e.Meta["concurrent_transactions"] = total
		e.Meta["concurrent_distinct_observations"] = len(keys)
		e.Meta["exhaustive"] = true
		e.Meta["space"] = fmt.Sprintf("all step vectors in {ok,fail,panic}^n for n=0..%d x begin/commit/rollback in {ok,fail} x {steps passed directly, steps wrapped by Combine}; plus context-error and step-ends-transaction vectors; plus %d concurrent transactions over one shared combined step", maxSteps, total)
	})
}

var c18NewMu sync.Mutex

// sql.Register is not safe for concurrent use
func c18NewDBLocked() *c18DB { return c18NewDBLockedOpt(false) }

func c18NewDBLockedOpt(prepareStmt bool) *c18DB {
	c18NewMu.Lock()
	defer c18NewMu.Unlock()
	return c18NewDBOpt(prepareStmt)
}
