package main

// Positive observation of parked goroutines through runtime.Stack: a goroutine is "parked" when its header shows
// the expected wait reason and its stack contains a frame of the expected package / function.  Quiescence is never
// inferred from a sleep.

import (
	"bytes"
	"runtime"
	"strconv"
)

// goid of the calling goroutine ("goroutine 123 [running]:")
func curGoid() int64 {
	var buf [64]byte
	n := runtime.Stack(buf[:], false)
	b := buf[:n]
	b = bytes.TrimPrefix(b, []byte("goroutine "))
	i := bytes.IndexByte(b, ' ')
	if i < 0 {
		return -1
	}
	id, err := strconv.ParseInt(string(b[:i]), 10, 64)
	if err != nil {
		return -1
	}
	return id
}

type gInfo struct {
	state string // text between [ and ] up to the first comma
	stack []byte
}

var stackBuf = make([]byte, 1<<20)

// snapshot of all goroutines (consistent: runtime.Stack(all) stops the world)
func snapshot() map[int64]gInfo {
	for {
		n := runtime.Stack(stackBuf, true)
		if n < len(stackBuf) {
			return parseStacks(stackBuf[:n])
		}
		stackBuf = make([]byte, 2*len(stackBuf))
	}
}

func parseStacks(b []byte) map[int64]gInfo {
	res := map[int64]gInfo{}
	for _, blk := range bytes.Split(b, []byte("\n\n")) {
		if !bytes.HasPrefix(blk, []byte("goroutine ")) {
			continue
		}
		h := blk
		if i := bytes.IndexByte(blk, '\n'); i >= 0 {
			h = blk[:i]
		}
		rest := h[len("goroutine "):]
		sp := bytes.IndexByte(rest, ' ')
		if sp < 0 {
			continue
		}
		id, err := strconv.ParseInt(string(rest[:sp]), 10, 64)
		if err != nil {
			continue
		}
		lb := bytes.IndexByte(rest, '[')
		rb := bytes.LastIndexByte(rest, ']')
		st := ""
		if lb >= 0 && rb > lb {
			st = string(rest[lb+1 : rb])
			if c := bytes.IndexByte([]byte(st), ','); c >= 0 {
				st = st[:c]
			}
		}
		res[id] = gInfo{state: st, stack: blk}
	}
	return res
}

// is goroutine id parked with the given wait reason inside a frame whose text contains `frame`?
func parkedIn(snap map[int64]gInfo, id int64, reason string, frame string) bool {
	g, ok := snap[id]
	if !ok {
		return false
	}
	return g.state == reason && bytes.Contains(g.stack, []byte(frame))
}
