package main

// Go transcription of coq/theories/C13_Cond.v (NOT trusted: it only proposes a resolved label sequence, which Coq
// replays with `step`).  Same kinds, labels and step function; plus the state-set witness search.

import (
	"fmt"
	"strings"
)

const (
	kPipe = 0
	kMQ   = 1
	kSync = 2
)

type cCfg struct {
	Kind    int `json:"kind"`
	ReqMax  int `json:"reqmax"`
	CtrlMax int `json:"ctrlmax"`
	NThr    int `json:"nthr"`
}

// result of a pop: 0 item, 1 closed, 2 bogus
type cRes struct {
	K int   `json:"k"`
	X int64 `json:"x"`
}

const (
	tIdle    = 0
	tWaiting = 1
	tWoken   = 2
	tDone    = 3
)

type cThr struct {
	st int
	a  bool
	r  cRes
}

type cState struct {
	ctrl, req []int64
	closed    bool
	cs        []cThr
}

func cInit(c cCfg) *cState { return &cState{cs: make([]cThr, c.NThr)} }

func (s *cState) clone() *cState {
	n := &cState{closed: s.closed}
	n.ctrl = append([]int64{}, s.ctrl...)
	n.req = append([]int64{}, s.req...)
	n.cs = append([]cThr{}, s.cs...)
	return n
}

func (s *cState) key() string {
	var sb strings.Builder
	fmt.Fprintf(&sb, "%v|%v|%v|", s.ctrl, s.req, s.closed)
	for _, t := range s.cs {
		fmt.Fprintf(&sb, "%d:%v:%d:%d,", t.st, t.a, t.r.K, t.r.X)
	}
	return sb.String()
}

// labels
const (
	lPop = iota
	lResume
	lAdd
	lAddPrior
	lAddCtrl
	lAddPriorCtrl
	lClose
	lTryClose
	lTryPop
	lTryClear
)

type cLabel struct {
	Op int
	T  int
	A  bool
	X  int64
	W  int // -1 = None
}

// out: kind 0 none, 1 add (ares 0 ok 1 closed 2 full), 2 bool, 3 try (tryNone or r)
type cOut struct {
	K       int
	Ares    int
	B       bool
	TryNone bool
	R       cRes
}

func (o cOut) eq(p cOut) bool {
	if o.K != p.K {
		return false
	}
	switch o.K {
	case 1:
		return o.Ares == p.Ares
	case 2:
		return o.B == p.B
	case 3:
		if o.TryNone || p.TryNone {
			return o.TryNone == p.TryNone
		}
		return o.R.K == p.R.K && (o.R.K != 0 || o.R.X == p.R.X)
	}
	return true
}

func cFull(m int, l []int64) bool { return m > 0 && len(l) >= m }

func (s *cState) wakeAll() {
	for i := range s.cs {
		if s.cs[i].st == tWaiting {
			s.cs[i].st = tWoken
		}
	}
}

func (s *cState) anyWaiting() bool {
	for i := range s.cs {
		if s.cs[i].st == tWaiting {
			return true
		}
	}
	return false
}

// one pass of the pop loop by thread t (mutates s)
func (s *cState) popBody(k int, a bool, t int) {
	takeOK := !s.closed || a || k == kSync
	switch {
	case len(s.ctrl) == 0 && len(s.req) == 0:
		if s.closed {
			s.cs[t] = cThr{st: tDone, r: cRes{K: 1}}
		} else {
			s.cs[t] = cThr{st: tWaiting, a: a}
		}
	case len(s.ctrl) > 0:
		if takeOK {
			x := s.ctrl[0]
			s.ctrl = s.ctrl[1:]
			s.cs[t] = cThr{st: tDone, r: cRes{K: 0, X: x}}
		} else {
			s.cs[t] = cThr{st: tDone, r: cRes{K: 1}}
		}
	default:
		if takeOK {
			x := s.req[0]
			s.req = s.req[1:]
			s.cs[t] = cThr{st: tDone, r: cRes{K: 0, X: x}}
		} else {
			s.cs[t] = cThr{st: tDone, r: cRes{K: 1}}
		}
	}
}

// cStep returns the successor (a fresh state) and the call's result, or ok=false when the label is not enabled
func cStep(c cCfg, s0 *cState, l cLabel) (*cState, cOut, bool) {
	k := c.Kind
	s := s0.clone()
	switch l.Op {
	case lPop:
		if l.T >= len(s.cs) || s.cs[l.T].st != tIdle {
			return nil, cOut{}, false
		}
		s.popBody(k, l.A, l.T)
		return s, cOut{}, true
	case lResume:
		if l.T >= len(s.cs) || s.cs[l.T].st != tWoken {
			return nil, cOut{}, false
		}
		s.popBody(k, s.cs[l.T].a, l.T)
		return s, cOut{}, true
	case lAdd:
		if k == kSync {
			if s.closed {
				if l.W >= 0 {
					return nil, cOut{}, false
				}
				return s, cOut{}, true
			}
			if l.W < 0 {
				if s.anyWaiting() {
					return nil, cOut{}, false
				}
				s.req = append(s.req, l.X)
				return s, cOut{}, true
			}
			if l.W >= len(s.cs) || s.cs[l.W].st != tWaiting {
				return nil, cOut{}, false
			}
			s.req = append(s.req, l.X)
			s.cs[l.W].st = tWoken
			return s, cOut{}, true
		}
		if l.W >= 0 {
			return nil, cOut{}, false
		}
		if s.closed {
			return s, cOut{K: 1, Ares: 1}, true
		}
		if cFull(c.ReqMax, s.req) {
			return s, cOut{K: 1, Ares: 2}, true
		}
		s.req = append(s.req, l.X)
		s.wakeAll()
		return s, cOut{K: 1, Ares: 0}, true
	case lAddPrior:
		if k == kSync {
			return nil, cOut{}, false
		}
		if s.closed {
			return s, cOut{K: 1, Ares: 1}, true
		}
		s.req = append([]int64{l.X}, s.req...)
		s.wakeAll()
		return s, cOut{K: 1, Ares: 0}, true
	case lAddCtrl:
		if k != kMQ {
			return nil, cOut{}, false
		}
		if s.closed {
			return s, cOut{K: 1, Ares: 1}, true
		}
		if cFull(c.CtrlMax, s.ctrl) {
			return s, cOut{K: 1, Ares: 2}, true
		}
		s.ctrl = append(s.ctrl, l.X)
		s.wakeAll()
		return s, cOut{K: 1, Ares: 0}, true
	case lAddPriorCtrl:
		if k != kMQ {
			return nil, cOut{}, false
		}
		if s.closed {
			return s, cOut{K: 1, Ares: 1}, true
		}
		s.ctrl = append([]int64{l.X}, s.ctrl...)
		s.wakeAll()
		return s, cOut{K: 1, Ares: 0}, true
	case lClose:
		if !s.closed {
			s.closed = true
			s.wakeAll()
		}
		return s, cOut{}, true
	case lTryClose:
		if k != kMQ {
			return nil, cOut{}, false
		}
		if s.closed {
			return s, cOut{K: 2, B: true}, true
		}
		if len(s.ctrl) == 0 && len(s.req) == 0 {
			s.closed = true
			s.wakeAll()
			return s, cOut{K: 2, B: true}, true
		}
		return s, cOut{K: 2, B: false}, true
	case lTryPop:
		if k != kSync {
			return nil, cOut{}, false
		}
		if len(s.req) > 0 {
			x := s.req[0]
			s.req = s.req[1:]
			return s, cOut{K: 3, R: cRes{K: 0, X: x}}, true
		}
		if s.closed {
			return s, cOut{K: 3, R: cRes{K: 1}}, true
		}
		return s, cOut{K: 3, TryNone: true}, true
	case lTryClear:
		if k != kMQ {
			return nil, cOut{}, false
		}
		return s, cOut{K: 2, B: s.closed && len(s.ctrl) == 0 && len(s.req) == 0}, true
	}
	return nil, cOut{}, false
}

// ---------------- observations and traces ----------------

type cRet struct {
	T int  `json:"t"`
	R cRes `json:"r"`
}

type cObs struct {
	Ret       []cRet `json:"ret"`
	Parked    []int  `json:"parked"`
	Stuck     []int  `json:"stuck"`
	HasLen    bool   `json:"haslen"`
	Len       int    `json:"len"`
	HasClosed bool   `json:"hasclosed"`
	Closed    bool   `json:"closed"`
	HasWC     bool   `json:"haswc"` // a goroutine is blocked in WaitClose(ctx); WC: it has returned
	WC        bool   `json:"wc"`
}

// one element of the emitted trace: a label with its observed result, or an observation
type cEvent struct {
	isObs bool
	l     cLabel
	o     cOut
	ob    *cObs
}

type cPath struct {
	parent *cPath
	ev     cEvent
}

func (p *cPath) list() []cEvent {
	var r []cEvent
	for q := p; q != nil; q = q.parent {
		r = append(r, q.ev)
	}
	for i, j := 0, len(r)-1; i < j; i, j = i+1, j-1 {
		r[i], r[j] = r[j], r[i]
	}
	return r
}

// a candidate model state with the resolved path that leads to it
type cCand struct {
	s    *cState
	path *cPath
}

// a call made by a lane, with what the implementation returned.  Anyway: the retrying variant (AddReqAnyway,
// AddAnyway, AddCtrlAnyway) of an add; its label is the add's (the last attempt)
type cOp struct {
	Op     int   `json:"op"`
	X      int64 `json:"x"`
	Anyway bool  `json:"anyway,omitempty"`
	// pause between the attempts of an ...Anyway add in microseconds (0 = the default, 20 us)
	SleepUs int  `json:"sleepus,omitempty"`
	Out     cOut `json:"out"`
}

type cLaunch struct {
	T int  `json:"t"`
	A bool `json:"a"`
}

func cStateMatches(s *cState, ob *cObs) bool {
	ret := map[int]cRes{}
	for _, r := range ob.Ret {
		ret[r.T] = r.R
	}
	parked := map[int]bool{}
	for _, t := range ob.Parked {
		parked[t] = true
	}
	for t, th := range s.cs {
		switch th.st {
		case tDone:
			r, ok := ret[t]
			if !ok || r.K != th.r.K || (r.K == 0 && r.X != th.r.X) {
				return false
			}
		case tWaiting:
			if !parked[t] {
				return false
			}
		case tWoken:
			return false
		case tIdle:
		}
		if th.st != tDone {
			if _, ok := ret[t]; ok {
				return false
			}
		}
		if th.st != tWaiting && parked[t] {
			return false
		}
	}
	if len(ob.Stuck) > 0 {
		return false
	}
	if ob.HasLen && ob.Len != len(s.ctrl)+len(s.req) {
		return false
	}
	if ob.HasClosed && ob.Closed != s.closed {
		return false
	}
	if ob.HasWC && ob.WC != s.closed {
		return false
	}
	return true
}

// cSearch explores every interleaving of the lanes' calls (each lane in program order), the first loop pass of the
// launched consumers and the resumes of woken consumers, from every candidate state; it returns the quiescent end
// states that agree with the observation (one path each).
func cSearch(c cCfg, cands []cCand, lanes [][]cOp, launches []cLaunch, ob *cObs) []cCand {
	type node struct {
		s       *cState
		pos     []int
		entered uint64
		path    *cPath
	}
	seen := map[string]bool{}
	out := map[string]cCand{}
	obRet := map[int]cRes{}
	for _, r := range ob.Ret {
		obRet[r.T] = r.R
	}
	var stack []node
	for _, cd := range cands {
		stack = append(stack, node{s: cd.s, pos: make([]int, len(lanes)), path: cd.path})
	}
	nodes := 0
	for len(stack) > 0 {
		n := stack[len(stack)-1]
		stack = stack[:len(stack)-1]
		// a thread makes one call: Done is final, so a state in which a thread has returned something else than what
		// was observed (or has returned although it was observed parked) cannot lead to the observation
		if !cDonesAgree(n.s, obRet) {
			continue
		}
		k := fmt.Sprintf("%s#%v#%d", n.s.key(), n.pos, n.entered)
		if seen[k] {
			continue
		}
		seen[k] = true
		nodes++
		if nodes > 200000 {
			break
		}
		moved := false
		push := func(ns *cState, l cLabel, o cOut, pos []int, entered uint64) {
			stack = append(stack, node{s: ns, pos: pos, entered: entered, path: &cPath{parent: n.path, ev: cEvent{l: l, o: o}}})
		}
		// lane calls
		for i, lane := range lanes {
			if n.pos[i] >= len(lane) {
				continue
			}
			moved = true
			op := lane[n.pos[i]]
			np := append([]int{}, n.pos...)
			np[i]++
			var ws []int
			if op.Op == lAdd && c.Kind == kSync && !n.s.closed && n.s.anyWaiting() {
				for t, th := range n.s.cs {
					if th.st == tWaiting {
						ws = append(ws, t)
					}
				}
			} else {
				ws = []int{-1}
			}
			for _, w := range ws {
				l := cLabel{Op: op.Op, X: op.X, W: w}
				ns, o, ok := cStep(c, n.s, l)
				if ok && o.eq(op.Out) {
					push(ns, l, op.Out, np, n.entered)
				}
			}
		}
		// consumers entering their pop
		for i, la := range launches {
			if n.entered&(1<<uint(i)) != 0 {
				continue
			}
			moved = true
			l := cLabel{Op: lPop, T: la.T, A: la.A, W: -1}
			ns, o, ok := cStep(c, n.s, l)
			if ok {
				push(ns, l, o, n.pos, n.entered|(1<<uint(i)))
			}
		}
		// woken consumers re-running the loop test
		for t, th := range n.s.cs {
			if th.st == tWoken {
				moved = true
				l := cLabel{Op: lResume, T: t, W: -1}
				ns, o, ok := cStep(c, n.s, l)
				if ok {
					push(ns, l, o, n.pos, n.entered)
				}
			}
		}
		if !moved && cStateMatches(n.s, ob) {
			ks := n.s.key()
			if _, dup := out[ks]; !dup {
				out[ks] = cCand{s: n.s, path: &cPath{parent: n.path, ev: cEvent{isObs: true, ob: ob}}}
			}
		}
	}
	var res []cCand
	for _, v := range out {
		res = append(res, v)
	}
	return res
}

func cDonesAgree(s *cState, obRet map[int]cRes) bool {
	for t, th := range s.cs {
		if th.st != tDone {
			continue
		}
		r, ok := obRet[t]
		if !ok || r.K != th.r.K || (r.K == 0 && r.X != th.r.X) {
			return false
		}
	}
	return true
}

// best-effort labels when no witness exists (the model and the implementation have diverged): launches first, then
// the lanes one after the other, no resumes.  Coq's replay will reject it; the monitor still sees the observations.
func cFallbackPath(p *cPath, lanes [][]cOp, launches []cLaunch, ob *cObs) *cPath {
	for _, la := range launches {
		p = &cPath{parent: p, ev: cEvent{l: cLabel{Op: lPop, T: la.T, A: la.A, W: -1}}}
	}
	for _, lane := range lanes {
		for _, op := range lane {
			p = &cPath{parent: p, ev: cEvent{l: cLabel{Op: op.Op, X: op.X, W: -1}, o: op.Out}}
		}
	}
	return &cPath{parent: p, ev: cEvent{isObs: true, ob: ob}}
}

// ---------------- Coq printing ----------------

func cCoqRes(r cRes) string {
	switch r.K {
	case 0:
		return fmt.Sprintf("(RItem %s)", coqZ(r.X))
	case 1:
		return "RClosed"
	}
	return "RBogus"
}

func coqZ(v int64) string {
	if v < 0 {
		return fmt.Sprintf("(%d)%%Z", v)
	}
	return fmt.Sprintf("%d%%Z", v)
}

func coqNatList(xs []int) string {
	s := make([]string, len(xs))
	for i, x := range xs {
		s[i] = fmt.Sprintf("%d%%nat", x)
	}
	return "[" + strings.Join(s, "; ") + "]"
}

func cCoqLabel(l cLabel) string {
	switch l.Op {
	case lPop:
		return fmt.Sprintf("(LPop %d%%nat %v)", l.T, l.A)
	case lResume:
		return fmt.Sprintf("(LResume %d%%nat)", l.T)
	case lAdd:
		w := "None"
		if l.W >= 0 {
			w = fmt.Sprintf("(Some %d%%nat)", l.W)
		}
		return fmt.Sprintf("(LAdd %s %s)", coqZ(l.X), w)
	case lAddPrior:
		return fmt.Sprintf("(LAddPrior %s)", coqZ(l.X))
	case lAddCtrl:
		return fmt.Sprintf("(LAddCtrl %s)", coqZ(l.X))
	case lAddPriorCtrl:
		return fmt.Sprintf("(LAddPriorCtrl %s)", coqZ(l.X))
	case lClose:
		return "LClose"
	case lTryClose:
		return "LTryClose"
	case lTryPop:
		return "LTryPop"
	case lTryClear:
		return "LTryClear"
	}
	return "LClose"
}

func cCoqOut(o cOut) string {
	switch o.K {
	case 1:
		return "(OAdd " + []string{"AOk", "AClosed", "AFull", "ABogus"}[o.Ares] + ")"
	case 2:
		return fmt.Sprintf("(OBool %v)", o.B)
	case 3:
		if o.TryNone {
			return "(OTry None)"
		}
		return "(OTry (Some " + cCoqRes(o.R) + "))"
	}
	return "ONone"
}

func cCoqObs(ob *cObs) string {
	rs := make([]string, len(ob.Ret))
	for i, r := range ob.Ret {
		rs[i] = fmt.Sprintf("(%d%%nat, %s)", r.T, cCoqRes(r.R))
	}
	ln := "None"
	if ob.HasLen {
		ln = fmt.Sprintf("(Some %d%%nat)", ob.Len)
	}
	cl := "None"
	if ob.HasClosed {
		cl = fmt.Sprintf("(Some %v)", ob.Closed)
	}
	wc := "None"
	if ob.HasWC {
		wc = fmt.Sprintf("(Some %v)", ob.WC)
	}
	return fmt.Sprintf("{| o_ret := [%s]; o_parked := %s; o_stuck := %s; o_len := %s; o_closed := %s; o_wc := %s |}",
		strings.Join(rs, "; "), coqNatList(ob.Parked), coqNatList(ob.Stuck), ln, cl, wc)
}

func cCoqEvent(e cEvent) string {
	if e.isObs {
		return "EObs " + cCoqObs(e.ob)
	}
	return "ELab " + cCoqLabel(e.l) + " " + cCoqOut(e.o)
}

// runs of at least 4 accepted ordinary adds of consecutive items are written run-length (CAdds)
func cCoqCase(c cCfg, evs []cEvent) string {
	kn := []string{"KPipe", "KMQ", "KSync"}[c.Kind]
	cfg := fmt.Sprintf("{| knd := %s; reqmax := %d%%nat; ctrlmax := %d%%nat; nthr := %d%%nat |}", kn, c.ReqMax, c.CtrlMax, c.NThr)
	isRunAdd := func(e cEvent) bool {
		return !e.isObs && e.l.Op == lAdd && e.l.W < 0 && ((e.o.K == 1 && e.o.Ares == 0) || (e.o.K == 0 && c.Kind == kSync))
	}
	var plain, compact []string
	used := false
	for i := 0; i < len(evs); {
		j := i
		if isRunAdd(evs[i]) {
			for j+1 < len(evs) && isRunAdd(evs[j+1]) && evs[j+1].l.X == evs[j].l.X+1 && evs[j+1].o.K == evs[i].o.K {
				j++
			}
		}
		if j-i+1 >= 4 {
			compact = append(compact, fmt.Sprintf("CAdds %s %s %d%%nat", cCoqOut(evs[i].o), coqZ(evs[i].l.X), j-i+1))
			used = true
		} else {
			for k := i; k <= j; k++ {
				compact = append(compact, "CE ("+cCoqEvent(evs[k])+")")
			}
		}
		for k := i; k <= j; k++ {
			plain = append(plain, cCoqEvent(evs[k]))
		}
		i = j + 1
	}
	if used {
		return fmt.Sprintf("(CCondR %s [%s])", cfg, strings.Join(compact, "; "))
	}
	return fmt.Sprintf("(CCond %s [%s])", cfg, strings.Join(plain, "; "))
}
