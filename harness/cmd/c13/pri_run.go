package main

// Forced schedules on the real priq.PriQueue: consumers follow the documented protocol (select on WaitCh(), then
// Pop); between the receive and the Pop a consumer waits at a gate the driver opens, so that "holds a signal it has
// not yet followed by a Pop" is a state the driver can keep a consumer in.

import (
	"fmt"
	"runtime"
	"sort"
	"time"

	"github.com/pinealctx/neptune/queue/priq"
)

type pItem struct {
	p int
	v int64
}

func (i *pItem) GetPriority() int { return i.p }

type pBatch struct {
	Launches []int   `json:"launches,omitempty"` // consumers that start selecting on WaitCh() (own goroutine each)
	Lanes    [][]pOp `json:"lanes,omitempty"`
	// Held: the queue's mutex is held through the hook priq.VerifHold while every lane (one call each) starts and is
	// positively seen parked at the entry of its critical section; len(WaitCh()) is read (PEMid); if a token is
	// readable the virtual consumer HeldTid receives it; the mutex is released and that consumer pops at once from
	// the driver goroutine, racing with the parked calls
	Held    bool `json:"held,omitempty"`
	HeldTid int  `json:"heldtid,omitempty"`
}

type pSchedule struct {
	Cap     int64    `json:"cap"`
	NThr    int      `json:"nthr"`
	Batches []pBatch `json:"batches"`
}

type pConsumer struct {
	t       int
	gid     int64
	virtual bool // polled by a lane (TryRecv) instead of a goroutine
	hold    chan struct{}
	gate    chan struct{}
	done    chan struct{}
	holding bool
	ret     bool
	some    bool
	v       int64
}

// the receive of the protocol, in a function of its own so that a parked consumer is recognisable by its stack
//
//go:noinline
func c13WaitTok(pq *priq.PriQueue, quit chan struct{}) bool {
	select {
	case <-pq.WaitCh():
		return true
	case <-quit:
		return false
	}
}

func popOf(pq *priq.PriQueue) (some bool, v int64, bogus bool) {
	e := pq.Pop()
	if e == nil {
		return false, 0, false
	}
	it, ok := e.(*pItem)
	if !ok || it == nil {
		return true, -1, true
	}
	return true, it.v, false
}

type pRunResult struct {
	events    []pEvent
	diverged  bool
	everHeld  bool
	everPark  bool
	stuck     bool
	maxCands  int
	nontoken  int
	obsList   []*pObs
	maxParked int
}

type priRun struct {
	sc        *pSchedule
	pq        *priq.PriQueue
	res       *pRunResult
	cands     []pCand
	fallback  *pPath
	consumers map[int]*pConsumer
	quit      chan struct{}
}

func newPriRun(cap int64, nthr int) *priRun {
	return &priRun{sc: &pSchedule{Cap: cap, NThr: nthr}, pq: priq.NewPriQueue(int(cap)), res: &pRunResult{},
		cands: []pCand{{s: pInit(cap, nthr)}}, consumers: map[int]*pConsumer{}, quit: make(chan struct{})}
}

func (r *priRun) exec(b pBatch) *pObs {
	res, pq, consumers, quit := r.res, r.pq, r.consumers, r.quit
	r.sc.Batches = append(r.sc.Batches, b)
	{
		for _, t := range b.Launches {
			c := &pConsumer{t: t, hold: make(chan struct{}, 1), gate: make(chan struct{}), done: make(chan struct{})}
			consumers[t] = c
			gidCh := make(chan int64, 1)
			go func(c *pConsumer) {
				gidCh <- curGoid()
				if !c13WaitTok(pq, quit) {
					return
				}
				c.hold <- struct{}{}
				<-c.gate
				some, v, _ := popOf(pq)
				c.some, c.v = some, v
				close(c.done)
			}(c)
			c.gid = <-gidCh
		}
		// virtual consumers are created before the lanes start (the map is not touched concurrently)
		for i := range b.Lanes {
			for _, op := range b.Lanes[i] {
				if op.Op == plTryRecv && consumers[op.T] == nil {
					consumers[op.T] = &pConsumer{t: op.T, virtual: true}
				}
			}
		}
		doOp := func(op *pOp) {
			switch op.Op {
			case plPushLocked:
				err := pq.Push(&pItem{p: int(op.P), v: op.V})
				op.Out = pOut{K: 1, B: err == nil}
			case plPopDirect:
				some, v, _ := popOf(pq)
				op.Out = pOut{K: 3, Some: some, V: v}
			case plTryRecv:
				c := consumers[op.T]
				got := false
				select {
				case <-pq.WaitCh():
					got = true
				default:
				}
				if got {
					c.holding = true
				}
				op.Out = pOut{K: 2, B: got}
			case plPopHeld:
				c := consumers[op.T]
				if c == nil || !c.holding {
					op.Out = pOut{K: 2, B: false} // (replay on a different outcome) not holding: nothing is called
					return
				}
				if c.virtual {
					some, v, _ := popOf(pq)
					c.some, c.v = some, v
				} else {
					close(c.gate)
					<-c.done
				}
				c.holding = false
				c.ret = true
				op.Out = pOut{}
			}
		}
		laneDone := make([]chan struct{}, len(b.Lanes))
		searchLanes := b.Lanes
		heldStuck := false
		if b.Held {
			if b.HeldTid >= 0 && consumers[b.HeldTid] == nil {
				consumers[b.HeldTid] = &pConsumer{t: b.HeldTid, virtual: true}
			}
			release := priq.VerifHold(pq)
			gids := make([]int64, len(b.Lanes))
			for i := range b.Lanes {
				laneDone[i] = make(chan struct{})
				gidCh := make(chan int64, 1)
				go func(i int) {
					gidCh <- curGoid()
					defer close(laneDone[i])
					for j := range b.Lanes[i] {
						doOp(&b.Lanes[i][j])
					}
				}(i)
				gids[i] = <-gidCh
			}
			// every call is parked at the mutex inside the queue's package (positive observation)
			deadline := time.Now().Add(stuckBound)
			for spins := 0; ; spins++ {
				snap := snapshot()
				all := true
				for i := range b.Lanes {
					if !parkedIn(snap, gids[i], "sync.Mutex.Lock", "github.com/pinealctx/neptune/queue/priq.(*PriQueue).") {
						all = false
					}
				}
				if all {
					break
				}
				if time.Now().After(deadline) {
					heldStuck = true
					break
				}
				if spins < 200 {
					runtime.Gosched()
				} else {
					time.Sleep(50 * time.Microsecond)
				}
			}
			// WaitCh is read from a goroutine of its own: an implementation whose WaitCh takes the queue's mutex would
			// otherwise take the driver with it.  That is no violation (it only waits for the critical section we
			// pretend to be in): the mutex is released, the read completes, and this batch goes on without the
			// parked-moment observation
			released := false
			releaseOnce := func() {
				if !released {
					released = true
					release()
				}
			}
			mid, midSeen := false, true
			midDone := make(chan struct{})
			go func() {
				defer close(midDone)
				mid = len(pq.WaitCh()) == 1
			}()
			select {
			case <-midDone:
			case <-time.After(250 * time.Millisecond):
				midSeen = false
				releaseOnce()
				select {
				case <-midDone:
				case <-time.After(stuckBound):
					heldStuck = true
				}
			}
			if midSeen {
				// phase 1 of the resolution: nothing of the parked calls has happened
				midEv := pEvent{isMid: true, mid: mid}
				var driver []pOp
				if mid && b.HeldTid >= 0 && !consumers[b.HeldTid].holding && !consumers[b.HeldTid].ret {
					op := pOp{Op: plTryRecv, T: b.HeldTid}
					doOp(&op)
					driver = append(driver, op)
				}
				if !res.diverged {
					var keep []pCand
					for _, cd := range r.cands {
						if cd.s.token != mid {
							continue
						}
						st, path := cd.s, &pPath{parent: cd.path, ev: midEv}
						ok := true
						for _, op := range driver {
							l := pLabel{Op: op.Op, T: op.T, W: -1}
							ns, o, en := pStep(st, l)
							if !en || !o.eq(op.Out) {
								ok = false
								break
							}
							st, path = ns, &pPath{parent: path, ev: pEvent{l: l, o: op.Out}}
						}
						if ok {
							keep = append(keep, pCand{s: st, path: path})
						}
					}
					if len(keep) == 0 {
						res.diverged = true
						r.fallback = &pPath{parent: r.cands[0].path, ev: midEv}
						for _, op := range driver {
							r.fallback = &pPath{parent: r.fallback, ev: pEvent{l: pLabel{Op: op.Op, T: op.T, W: -1}, o: op.Out}}
						}
					} else {
						r.cands = keep
					}
				} else {
					r.fallback = &pPath{parent: r.fallback, ev: midEv}
					for _, op := range driver {
						r.fallback = &pPath{parent: r.fallback, ev: pEvent{l: pLabel{Op: op.Op, T: op.T, W: -1}, o: op.Out}}
					}
				}
			}
			releaseOnce()
			// the consumer follows its signal with a Pop, at once and from this goroutine: it usually wins the mutex
			// against the calls that have just been woken
			if b.HeldTid >= 0 && consumers[b.HeldTid].holding {
				op := pOp{Op: plPopHeld, T: b.HeldTid}
				doOp(&op)
				searchLanes = append(append([][]pOp{}, b.Lanes...), []pOp{op})
			}
		} else {
			for i := range b.Lanes {
				laneDone[i] = make(chan struct{})
				run := func(i int) {
					defer close(laneDone[i])
					for j := range b.Lanes[i] {
						doOp(&b.Lanes[i][j])
					}
				}
				go run(i)
			}
		}
		laneStuck := heldStuck
		for i := range laneDone {
			select {
			case <-laneDone[i]:
			case <-time.After(stuckBound):
				laneStuck = true
			}
		}
		ob := &pObs{}
		deadline := time.Now().Add(stuckBound)
		spins := 0
		for {
			// flags first (reports made before the snapshot), then the snapshot
			for _, c := range consumers {
				if c.virtual || c.ret || c.holding {
					continue
				}
				select {
				case <-c.hold:
					c.holding = true
				default:
				}
			}
			snap := snapshot()
			var parked, pending []int
			for _, c := range consumers {
				if c.virtual || c.ret || c.holding {
					continue
				}
				if parkedIn(snap, c.gid, "select", "main.c13WaitTok") {
					parked = append(parked, c.t)
				} else {
					pending = append(pending, c.t)
				}
			}
			if len(pending) == 0 || laneStuck || time.Now().After(deadline) {
				sort.Ints(parked)
				sort.Ints(pending)
				ob.Parked, ob.Stuck = parked, pending
				if laneStuck {
					ob.Stuck = append(ob.Stuck, 999)
				}
				break
			}
			spins++
			if spins < 200 {
				runtime.Gosched()
			} else {
				time.Sleep(50 * time.Microsecond)
			}
		}
		for _, c := range consumers {
			if c.ret {
				ob.Ret = append(ob.Ret, pRet{T: c.t, Some: c.some, V: c.v})
			} else if c.holding {
				ob.Holding = append(ob.Holding, c.t)
			}
		}
		sort.Slice(ob.Ret, func(i, j int) bool { return ob.Ret[i].T < ob.Ret[j].T })
		sort.Ints(ob.Holding)
		if ob.Parked == nil {
			ob.Parked = []int{}
		}
		if ob.Holding == nil {
			ob.Holding = []int{}
		}
		if ob.Stuck == nil {
			ob.Stuck = []int{}
		}
		ob.Token = len(pq.WaitCh()) == 1
		ob.Len = pq.Len()
		res.obsList = append(res.obsList, ob)
		if len(ob.Holding) > 0 {
			res.everHeld = true
		}
		if len(ob.Parked) > 0 {
			res.everPark = true
			if len(ob.Parked) > res.maxParked {
				res.maxParked = len(ob.Parked)
			}
		}
		if !res.diverged {
			next := pSearch(r.cands, searchLanes, b.Launches, ob)
			if len(next) == 0 {
				res.diverged = true
				r.fallback = pFallbackPath(r.cands[0].path, searchLanes, b.Launches, ob)
			} else {
				r.cands = next
				if len(r.cands) > res.maxCands {
					res.maxCands = len(r.cands)
				}
			}
		} else {
			r.fallback = pFallbackPath(r.fallback, searchLanes, b.Launches, ob)
		}
		if len(ob.Stuck) > 0 {
			res.stuck = true
		}
		return ob
	}
}

func (r *priRun) finish() *pRunResult {
	res := r.res
	// release parked consumers and those at the gate
	close(r.quit)
	for _, c := range r.consumers {
		if !c.virtual && !c.ret {
			func() {
				defer func() { recover() }()
				close(c.gate)
			}()
		}
	}
	if res.diverged {
		res.events = r.fallback.list()
	} else {
		sort.Slice(r.cands, func(i, j int) bool { return r.cands[i].s.key() < r.cands[j].s.key() })
		res.events = r.cands[0].path.list()
	}
	return res
}

func priDesc(sc *pSchedule, r *pRunResult) map[string]interface{} {
	var steps []string
	for _, e := range r.events {
		if e.isMid {
			steps = append(steps, fmt.Sprintf("mutex held, calls parked at their critical section: token=%v", e.mid))
		} else if e.isObs {
			steps = append(steps, fmt.Sprintf("obs ret=%v parked=%v holding=%v stuck=%v token=%v len=%d", e.ob.Ret, e.ob.Parked, e.ob.Holding, e.ob.Stuck, e.ob.Token, e.ob.Len))
		} else {
			steps = append(steps, pCoqLabel(e.l)+" -> "+pCoqOut(e.o))
		}
	}
	return map[string]interface{}{"type": "priq.PriQueue", "cap": sc.Cap, "consumers": sc.NThr, "diverged_from_model": r.diverged, "trace": steps}
}
