package main

// Race classes on FRESH queue objects: thousands of cheap trials, two or three persistent spinning goroutines started
// from a spin barrier with varying small delays.  Only the state after both calls have returned (or a consumer is
// positively seen parked) is judged, by clauses that hold under EVERY schedule:
//   - PriQueue, a Push racing the first WaitCh(): afterwards the queue is non-empty, no call is in progress, nobody
//     holds a token => the channel is readable;
//   - condition-variable queues, Pop / PopAnyway entering at the same instant as Close: afterwards Close has returned
//     => the consumer has returned "closed" or will (a consumer positively seen parked in cond.Wait beside a queue
//     whose Close has returned is the violation).
// One violating trial is emitted as an ordinary case (the trace of that trial); otherwise one passing case per class.

import (
	"fmt"
	"runtime"
	"sync/atomic"
	"time"

	"github.com/pinealctx/neptune/queue/priq"
	"verifharness/vh"
)

// two workers run op(n) once per trial number n
type barrier struct {
	seq  atomic.Int64 // trial number; -1 = stop
	done atomic.Int64
}

func (b *barrier) worker(op func(n int64)) {
	var last int64
	for {
		n := b.seq.Load()
		if n < 0 {
			return
		}
		if n == last {
			continue
		}
		last = n
		op(n)
		b.done.Add(1)
	}
}

func spinDelay(k int64) {
	for j := int64(0); j < k*3; j++ {
		runtime.KeepAlive(j)
	}
}

// PriQueue: Push racing the first WaitCh() of a fresh queue
func raceFirstWaitCh(e *vh.Env, budget time.Duration, maxTrials int64) (lost bool) {
	var cur atomic.Pointer[priq.PriQueue]
	var ch <-chan struct{}
	b := &barrier{}
	go b.worker(func(n int64) {
		spinDelay(n % 8)
		cur.Load().Push(&pItem{p: 1, v: n})
	})
	go b.worker(func(n int64) {
		spinDelay(n / 8 % 8)
		ch = cur.Load().WaitCh()
	})
	defer b.seq.Store(-1)
	start := time.Now()
	var n int64
	var lastLen int
	var lastTok bool
	abandoned := false
trials:
	for n < maxTrials {
		if n&1023 == 0 && time.Since(start) > budget {
			break
		}
		n++
		pq := priq.NewPriQueue(8)
		cur.Store(pq)
		b.done.Store(0)
		b.seq.Store(n)
		t0 := time.Time{}
		for i := 0; b.done.Load() != 2; i++ {
			if i&0xfffff == 0xfffff {
				if t0.IsZero() {
					t0 = time.Now()
				} else if time.Since(t0) > stuckBound {
					abandoned = true // a call does not return: not this class's business
					break trials
				}
				runtime.Gosched()
			}
		}
		// quiescent: both calls have returned, nobody holds a token
		lastLen, lastTok = pq.Len(), len(ch) == 1
		if lastLen >= 1 && !lastTok {
			lost = true
			break
		}
	}
	if abandoned || n == 0 {
		return false
	}
	// the trial as a trace: the Push's two labels, then the quiescent observation
	ob := &pObs{Ret: []pRet{}, Parked: []int{}, Holding: []int{}, Stuck: []int{}, Token: lastTok, Len: lastLen}
	evs := []pEvent{
		{l: pLabel{Op: plPushLocked, P: 1, V: n, W: -1}, o: pOut{K: 1, B: true}},
		{l: pLabel{Op: plSignal, W: -1}},
		{isObs: true, ob: ob},
	}
	e.Emit(vh.Case{
		Coq:        pCoqCase(8, 0, evs),
		Desc:       map[string]interface{}{"type": "priq.PriQueue", "class": "a Push racing the first WaitCh() of a fresh queue", "trials": n, "lost_token": lost, "len": lastLen, "channel_readable": lastTok},
		Class:      "priq.PriQueue/first-waitch-race",
		Nontrivial: true,
		Key:        fmt.Sprintf("first-waitch-race lost=%v", lost),
	})
	return lost
}

// condition-variable queues: several consumers entering Pop / PopAnyway (they queue up on the mutex, so that one of
// them is almost always between its test of the closed flag and its registration in cond.Wait) at the same instant
// as Close, on a fresh queue
const raceConsumers = 5

func racePopClose(e *vh.Env, typ string, budget time.Duration, maxTrials int64) (lost bool) {
	var cur atomic.Pointer[condQ]
	var res [raceConsumers]cRes
	var fin [raceConsumers]atomic.Int64
	var gids [raceConsumers]int64
	var closeDone atomic.Int64
	b := &barrier{}
	for c := 0; c < raceConsumers; c++ {
		gidCh := make(chan int64, 1)
		go func(c int) {
			gidCh <- curGoid()
			b.worker(func(n int64) {
				spinDelay(int64(c) * 13)
				res[c] = (*cur.Load()).Pop(c&1 == 1)
				fin[c].Store(n)
			})
		}(c)
		gids[c] = <-gidCh
	}
	go b.worker(func(n int64) {
		spinDelay((n % 8) * 10)
		(*cur.Load()).Call(lClose, 0)
		closeDone.Store(n)
	})
	defer b.seq.Store(-1)
	start := time.Now()
	var n int64
	abandoned := false
	var qu condQ
trials:
	for n < maxTrials {
		if n&255 == 0 && time.Since(start) > budget {
			break
		}
		n++
		qu = newCondQ(typ, 0, 0)
		cur.Store(&qu)
		b.done.Store(0)
		b.seq.Store(n)
		t0 := time.Time{}
		for i := 0; b.done.Load() != raceConsumers+1; i++ {
			if i&0xffff != 0xffff {
				continue
			}
			// slow: has Close returned while every consumer that is not back sits in cond.Wait?  (positive observation)
			if closeDone.Load() == n {
				snap := snapshot()
				missing, parked := 0, 0
				for c := 0; c < raceConsumers; c++ {
					if fin[c].Load() != n {
						missing++
						if parkedIn(snap, gids[c], "sync.Cond.Wait", qu.Frame()) {
							parked++
						}
					}
				}
				if missing > 0 && parked == missing {
					lost = true
					break trials
				}
			}
			if t0.IsZero() {
				t0 = time.Now()
			} else if time.Since(t0) > stuckBound {
				abandoned = true
				break trials
			}
			runtime.Gosched()
		}
	}
	if abandoned || n == 0 {
		return false
	}
	cfg := cCfg{Kind: condKind(typ), NThr: raceConsumers}
	ob := &cObs{Ret: []cRet{}, Parked: []int{}, Stuck: []int{}}
	if cl, ok := qu.IsClosed(); ok {
		ob.HasClosed, ob.Closed = true, cl
	}
	// Close first, then every consumer's pass through the loop: a run of the model with exactly this outcome whenever
	// all consumers returned "closed" (one that entered first would have been woken and returned the same)
	evs := []cEvent{{l: cLabel{Op: lClose, W: -1}}}
	for c := 0; c < raceConsumers; c++ {
		evs = append(evs, cEvent{l: cLabel{Op: lPop, T: c, A: c&1 == 1 || condKind(typ) == kSync, W: -1}})
		if fin[c].Load() == n {
			ob.Ret = append(ob.Ret, cRet{T: c, R: res[c]})
		} else {
			ob.Parked = append(ob.Parked, c) // positively seen parked in cond.Wait after Close had returned
		}
	}
	evs = append(evs, cEvent{isObs: true, ob: ob})
	e.Emit(vh.Case{
		Coq:        cCoqCase(cfg, evs),
		Desc:       map[string]interface{}{"type": typ, "class": "consumers entering Pop / PopAnyway at the same instant as Close, fresh queue per trial", "trials": n, "consumers": raceConsumers, "parked_after_close": ob.Parked},
		Class:      typ + "/pop-close-race",
		Nontrivial: true,
		Key:        fmt.Sprintf("pop-close-race %s lost=%v", typ, lost),
	})
	return lost
}

func runRaces(e *vh.Env, types []string) {
	per := 120 * time.Millisecond
	maxTrials := int64(60000)
	if e.Thorough {
		per, maxTrials = 3*time.Second, 1<<40
	}
	if e.Search {
		per, maxTrials = 6*time.Second, 1<<40
	}
	if runtime.GOMAXPROCS(0) < 3 {
		e.Meta["races"] = "skipped: fewer than 3 hardware threads"
		return
	}
	lost := 0
	for _, typ := range types {
		if typ == "priq.PriQueue" {
			if raceFirstWaitCh(e, per, maxTrials) {
				lost++
			}
		} else if racePopClose(e, typ, per, maxTrials) {
			lost++
		}
	}
	e.Meta["race_class_violations"] = lost
}
