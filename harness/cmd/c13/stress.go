package main

// Protocol-following stress: consumers run the documented protocol (PriQueue: receive from WaitCh(), then Pop until
// nil; condition-variable queues: Pop in a loop), a producer adds the next item the moment the previous one was taken
// (ack channel).  A lost wake-up is a POSITIVE observation, never a time-out guess: when an ack does not arrive within
// a generous bound the driver checks that an accepted item is outstanding, that the wait channel is not readable
// (PriQueue), that no call is in progress (the producer is the driver itself) and that every consumer goroutine is
// parked in the receive on WaitCh() / in cond.Wait inside the queue's package (runtime.Stack) - only then it reports
// the violating observation; otherwise (slow machine) it keeps waiting.

import (
	"fmt"
	"runtime"
	"sync/atomic"
	"time"

	"github.com/pinealctx/neptune/queue/priq"
	"verifharness/vh"
)

const ackBound = 5 * time.Second

type stressObs struct {
	Typ         string `json:"type"`
	Rounds      int64  `json:"rounds"`
	Consumers   int    `json:"consumers"`
	Outstanding int    `json:"outstanding"`
	Parked      int    `json:"parked"`
	Token       bool   `json:"token"`
	Note        string `json:"note"`
}

func emitStress(e *vh.Env, pri bool, o stressObs) {
	coq := fmt.Sprintf("(CStress %v {| s_rounds := %s; s_consumers := %d%%nat; s_outstanding := %d%%nat; s_parked := %d%%nat; s_token := %v |})",
		pri, coqZ(o.Rounds), o.Consumers, o.Outstanding, o.Parked, o.Token)
	e.Emit(vh.Case{Coq: coq, Desc: o, Class: o.Typ + "/stress", Nontrivial: o.Rounds > 0,
		Key: fmt.Sprintf("stress %s c=%d lost=%v", o.Typ, o.Consumers, o.Outstanding > 0)})
}

// wait for an ack; false = the bound expired
func waitAck(ack chan int64, timer *time.Timer) bool {
	// fast path: the consumer is usually quicker than a timer reset
	for i := 0; i < 64; i++ {
		select {
		case <-ack:
			return true
		default:
		}
	}
	if !timer.Stop() {
		select {
		case <-timer.C:
		default:
		}
	}
	timer.Reset(ackBound)
	select {
	case <-ack:
		return true
	case <-timer.C:
		return false
	}
}

// PriQueue: nc consumers, one producer (the driver), for at most `budget` or `maxRounds`.  A consumer receives from
// WaitCh(), then pops until nil; after every item it may poll Pop a few more times (a consumer is free to call Pop as
// often as it likes) - this varies the timing of its empty Pops against the producer's next Push.
func stressPri(e *vh.Env, nc int, budget time.Duration, maxRounds int64) (lost bool) {
	pq := priq.NewPriQueue(4)
	quit := make(chan struct{})
	var taken, spin atomic.Int64
	gids := make([]int64, nc)
	for i := 0; i < nc; i++ {
		gidCh := make(chan int64, 1)
		go func() {
			gidCh <- curGoid()
			for c13WaitTok(pq, quit) {
				for {
					some, _, _ := popOf(pq)
					if !some {
						break
					}
					taken.Add(1)
					for n := spin.Load(); n > 0; n-- {
						if some2, _, _ := popOf(pq); some2 {
							taken.Add(1)
						}
					}
				}
			}
		}()
		gids[i] = <-gidCh
	}
	allParked := func() int {
		snap := snapshot()
		n := 0
		for _, g := range gids {
			if parkedIn(snap, g, "select", "main.c13WaitTok") {
				n++
			}
		}
		return n
	}
	start := time.Now()
	var round, pushed int64
	obs := stressObs{Typ: "priq.PriQueue", Consumers: nc}
loop:
	for round = 0; round < maxRounds; round++ {
		if round&1023 == 0 && time.Since(start) > budget {
			break
		}
		spin.Store(round % 24)
		if err := pq.Push(&pItem{p: int(round & 3), v: round}); err != nil {
			obs.Note = "push refused on a queue with free capacity"
			obs.Outstanding, obs.Parked = 1, nc // reported as a violation: an item the contract accepts never arrives
			lost = true
			break
		}
		pushed++
		var since time.Time
		waits := 0
		for i := 0; taken.Load() != pushed; i++ {
			if i < 2000 {
				continue
			}
			runtime.Gosched()
			if i%1024 != 0 {
				continue
			}
			if since.IsZero() {
				since = time.Now()
				continue
			}
			if time.Since(since) < ackBound {
				continue
			}
			// not taken within the bound: is it a lost wake-up, positively?
			ln, tok, parked := pq.Len(), len(pq.WaitCh()) == 1, allParked()
			if ln >= 1 && !tok && parked == nc {
				obs.Outstanding, obs.Parked, obs.Token = ln, parked, tok
				obs.Note = "item outstanding, no call in progress, every consumer parked on WaitCh(), channel not readable"
				lost = true
				break loop
			}
			since = time.Now()
			if waits++; waits >= 6 {
				obs.Note = "no progress for a long time, but not positively a lost wake-up (overloaded machine?): run abandoned"
				break loop
			}
		}
	}
	obs.Rounds = round
	if !lost {
		// the quiescent end of the run: wait (positively) until every consumer is parked again, then observe
		deadline := time.Now().Add(stuckBound)
		for allParked() != nc && time.Now().Before(deadline) {
			time.Sleep(50 * time.Microsecond)
		}
		obs.Parked = allParked()
		obs.Outstanding = pq.Len()
		obs.Token = len(pq.WaitCh()) == 1
		if obs.Outstanding > 0 && !obs.Token && obs.Parked == nc {
			lost = true
			obs.Note = "at the end of the run: item outstanding, every consumer parked, channel not readable"
		}
	}
	close(quit)
	emitStress(e, true, obs)
	return lost
}

// condition-variable queues: nc consumers blocked in Pop / PopAnyway, the producer adds on ack
func stressCond(e *vh.Env, typ string, nc int, budget time.Duration, maxRounds int64) (lost bool) {
	qu := newCondQ(typ, 0, 0)
	ack := make(chan int64, 8)
	gids := make([]int64, nc)
	for i := 0; i < nc; i++ {
		gidCh := make(chan int64, 1)
		go func(anyway bool) {
			gidCh <- curGoid()
			for {
				r := qu.Pop(anyway)
				if r.K != 0 {
					return
				}
				ack <- r.X
			}
		}(i%2 == 1)
		gids[i] = <-gidCh
	}
	allParked := func() int {
		snap := snapshot()
		n := 0
		for _, g := range gids {
			if parkedIn(snap, g, "sync.Cond.Wait", qu.Frame()) {
				n++
			}
		}
		return n
	}
	timer := time.NewTimer(ackBound)
	start := time.Now()
	var round int64
	obs := stressObs{Typ: typ, Consumers: nc}
loop:
	for round = 0; round < maxRounds; round++ {
		if round&1023 == 0 && time.Since(start) > budget {
			break
		}
		op := lAdd
		if condKind(typ) != kSync && round&7 == 7 {
			op = lAddPrior
		}
		if condKind(typ) == kMQ && round&7 == 3 {
			op = lAddCtrl
		}
		// every other add goes through the retrying variant (AddReqAnyway / AddAnyway / AddCtrlAnyway) where there is one
		out := cOut{}
		viaAnyway := false
		if round&1 == 1 {
			out, viaAnyway = qu.CallAnyway(op, round, anywaySleep)
		}
		if !viaAnyway {
			out = qu.Call(op, round)
		}
		if out.K == 1 && out.Ares != 0 {
			obs.Note = "add refused on an open unbounded queue"
			obs.Outstanding, obs.Parked = 1, nc
			lost = true
			break
		}
		for waits := 0; ; waits++ {
			if waitAck(ack, timer) {
				break
			}
			if parked := allParked(); parked == nc {
				obs.Outstanding, obs.Parked = 1, parked
				obs.Note = "accepted item outstanding, no call in progress, every consumer parked in cond.Wait"
				lost = true
				break loop
			}
			if waits >= 6 {
				obs.Note = "no ack for a long time, but not positively a lost wake-up (overloaded machine?): run abandoned"
				break loop
			}
		}
	}
	obs.Rounds = round
	if !lost {
		deadline := time.Now().Add(stuckBound)
		for allParked() != nc && time.Now().Before(deadline) {
			time.Sleep(50 * time.Microsecond)
		}
		obs.Parked = allParked()
		guarded(func() {
			defer func() { recover() }()
			qu.Call(lClose, 0)
		})
	}
	emitStress(e, false, obs)
	return lost
}

// the stress part of a run: budget split over the configurations
func runStress(e *vh.Env, types []string) {
	per := 250 * time.Millisecond
	maxRounds := int64(400000)
	if e.Thorough {
		per = 4 * time.Second
		maxRounds = 1 << 40
	}
	if e.Search {
		per = 8 * time.Second
		maxRounds = 1 << 40
	}
	lost := 0
	for _, typ := range types {
		for _, nc := range []int{1, 2, 3} {
			if lost >= 2 {
				break
			}
			if typ == "priq.PriQueue" {
				if stressPri(e, nc, per, maxRounds) {
					lost++
				}
			} else if nc != 2 || e.Thorough || e.Search {
				b := per / 2
				if stressCond(e, typ, nc, b, maxRounds) {
					lost++
				}
			}
		}
	}
	e.Meta["stress_lost_wakeups"] = lost
}
