package main

// Forced schedules on the real condition-variable queues of /repo.

import (
	"bytes"
	"context"
	"fmt"
	"runtime"
	"sort"
	"time"

	"github.com/pinealctx/neptune/queue/syncq"
	"github.com/pinealctx/neptune/syncx/pipe/async"
	"github.com/pinealctx/neptune/syncx/pipe/mq"
	"github.com/pinealctx/neptune/syncx/pipe/mux"
	"github.com/pinealctx/neptune/syncx/pipe/q"
)

// ---------------- adapters ----------------

type condQ interface {
	Name() string
	Frame() string // package path prefix that must appear in a parked consumer's stack
	// non-blocking calls: result as cOut
	Call(op int, x int64) cOut
	// the retrying variant of an add (AddReqAnyway / AddAnyway / AddCtrlAnyway); ok=false: the type has none
	CallAnyway(op int, x int64, ts time.Duration) (cOut, bool)
	// WaitClose(ctx) where the type has it
	WaitClose(ctx context.Context) (error, bool)
	Pop(anyway bool) cRes
	Len() (int, bool)
	IsClosed() (bool, bool)
}

// Item identities.  An item is identified by an int64; positive ids are passed as the int64 itself.  The boundary
// values of an interface{} item - the nil interface, a typed nil pointer, zero values - carry no id of their own, so
// each of them stands for one reserved negative id and is used at most once per schedule.
const (
	idNil      = -1 // interface{}(nil)
	idNilPtr   = -2 // (*int64)(nil)
	idEmptyStr = -3 // ""
	idZeroInt  = -4 // int(0)
	idFalse    = -5 // false
	idEmptyS   = -6 // struct{}{}
)

var specialIDs = []int64{idNil, idNilPtr, idEmptyStr, idZeroInt, idFalse, idEmptyS}

func valOf(id int64) interface{} {
	switch id {
	case idNil:
		return nil
	case idNilPtr:
		return (*int64)(nil)
	case idEmptyStr:
		return ""
	case idZeroInt:
		return int(0)
	case idFalse:
		return false
	case idEmptyS:
		return struct{}{}
	}
	return id
}

func itemOf(v interface{}) cRes {
	switch x := v.(type) {
	case nil:
		return cRes{K: 0, X: idNil}
	case int64:
		if x > 0 || x == 0 {
			return cRes{K: 0, X: x}
		}
	case *int64:
		if x == nil {
			return cRes{K: 0, X: idNilPtr}
		}
	case string:
		if x == "" {
			return cRes{K: 0, X: idEmptyStr}
		}
	case int:
		if x == 0 {
			return cRes{K: 0, X: idZeroInt}
		}
	case bool:
		if !x {
			return cRes{K: 0, X: idFalse}
		}
	case struct{}:
		return cRes{K: 0, X: idEmptyS}
	}
	return cRes{K: 2}
}

func addOut(err error, closed, full error) cOut {
	switch err {
	case nil:
		return cOut{K: 1, Ares: 0}
	case closed:
		return cOut{K: 1, Ares: 1}
	case full:
		return cOut{K: 1, Ares: 2}
	}
	return cOut{K: 1, Ares: 3} // unexpected error: nothing the model says
}

func popRes(v interface{}, err error, closed error) cRes {
	if err == nil {
		return itemOf(v)
	}
	if err == closed && v == nil {
		return cRes{K: 1}
	}
	return cRes{K: 2}
}

// pause between the attempts of an ...Anyway add
const anywaySleep = 20 * time.Microsecond

type qQ struct{ q *q.Q }

func (a qQ) CallAnyway(op int, x int64, ts time.Duration) (cOut, bool) {
	if op != lAdd {
		return cOut{}, false
	}
	return addOut(a.q.AddReqAnyway(valOf(x), ts), q.ErrClosed, q.ErrReqQFull), true
}
func (a qQ) WaitClose(ctx context.Context) (error, bool) { return nil, false }

func (a qQ) Name() string  { return "q.Q" }
func (a qQ) Frame() string { return "github.com/pinealctx/neptune/syncx/pipe/q." }
func (a qQ) Call(op int, x int64) cOut {
	switch op {
	case lAdd:
		return addOut(a.q.AddReq(valOf(x)), q.ErrClosed, q.ErrReqQFull)
	case lAddPrior:
		return addOut(a.q.AddPriorReq(valOf(x)), q.ErrClosed, q.ErrReqQFull)
	case lClose:
		a.q.Close()
		return cOut{}
	}
	panic("q.Q: unsupported op")
}
func (a qQ) Pop(anyway bool) cRes {
	if anyway {
		v, err := a.q.PopAnyway()
		return popRes(v, err, q.ErrClosed)
	}
	v, err := a.q.Pop()
	return popRes(v, err, q.ErrClosed)
}
func (a qQ) Len() (int, bool)       { return 0, false }
func (a qQ) IsClosed() (bool, bool) { return false, false }

type asyncQ struct{ q *async.Q }

func (a asyncQ) CallAnyway(op int, x int64, ts time.Duration) (cOut, bool) {
	if op != lAdd {
		return cOut{}, false
	}
	return addOut(a.q.AddAnyway(valOf(x), ts), async.ErrClosed, async.ErrFull), true
}
func (a asyncQ) WaitClose(ctx context.Context) (error, bool) { return nil, false }

func (a asyncQ) Name() string  { return "async.Q" }
func (a asyncQ) Frame() string { return "github.com/pinealctx/neptune/syncx/pipe/async." }
func (a asyncQ) Call(op int, x int64) cOut {
	switch op {
	case lAdd:
		return addOut(a.q.Add(valOf(x)), async.ErrClosed, async.ErrFull)
	case lAddPrior:
		return addOut(a.q.AddPrior(valOf(x)), async.ErrClosed, async.ErrFull)
	case lClose:
		a.q.Close()
		return cOut{}
	}
	panic("async.Q: unsupported op")
}
func (a asyncQ) Pop(anyway bool) cRes {
	if anyway {
		v, err := a.q.PopAnyway()
		return popRes(v, err, async.ErrClosed)
	}
	v, err := a.q.Pop()
	return popRes(v, err, async.ErrClosed)
}
func (a asyncQ) Len() (int, bool)       { return 0, false }
func (a asyncQ) IsClosed() (bool, bool) { return a.q.IsClosed(), true }

type muxQ struct{ q *mux.Q }

func (a muxQ) CallAnyway(op int, x int64, ts time.Duration) (cOut, bool) {
	if op != lAdd {
		return cOut{}, false
	}
	return addOut(a.q.AddReqAnyway(valOf(x), ts), mux.ErrClosed, mux.ErrQFull), true
}
func (a muxQ) WaitClose(ctx context.Context) (error, bool) { return a.q.WaitClose(ctx), true }

func (a muxQ) Name() string  { return "mux.Q" }
func (a muxQ) Frame() string { return "github.com/pinealctx/neptune/syncx/pipe/mux." }
func (a muxQ) Call(op int, x int64) cOut {
	switch op {
	case lAdd:
		return addOut(a.q.AddReq(valOf(x)), mux.ErrClosed, mux.ErrQFull)
	case lAddPrior:
		return addOut(a.q.AddPriorReq(valOf(x)), mux.ErrClosed, mux.ErrQFull)
	case lClose:
		a.q.Close()
		return cOut{}
	}
	panic("mux.Q: unsupported op")
}
func (a muxQ) Pop(anyway bool) cRes {
	if anyway {
		v, err := a.q.PopAnyway()
		return popRes(v, err, mux.ErrClosed)
	}
	v, err := a.q.Pop()
	return popRes(v, err, mux.ErrClosed)
}
func (a muxQ) Len() (int, bool)       { return 0, false }
func (a muxQ) IsClosed() (bool, bool) { return a.q.IsClosed(), true }

type mqQ struct{ q *mq.MQ }

func (a mqQ) CallAnyway(op int, x int64, ts time.Duration) (cOut, bool) {
	switch op {
	case lAdd:
		return addOut(a.q.AddReqAnyway(valOf(x), ts), mq.ErrClosed, mq.ErrReqQFull), true
	case lAddCtrl:
		return addOut(a.q.AddCtrlAnyway(valOf(x), ts), mq.ErrClosed, mq.ErrCtrlQFull), true
	}
	return cOut{}, false
}
func (a mqQ) WaitClose(ctx context.Context) (error, bool) { return a.q.WaitClose(ctx), true }

func (a mqQ) Name() string  { return "mq.MQ" }
func (a mqQ) Frame() string { return "github.com/pinealctx/neptune/syncx/pipe/mq." }
func (a mqQ) Call(op int, x int64) cOut {
	switch op {
	case lAdd:
		return addOut(a.q.AddReq(valOf(x)), mq.ErrClosed, mq.ErrReqQFull)
	case lAddPrior:
		return addOut(a.q.AddPriorReq(valOf(x)), mq.ErrClosed, mq.ErrReqQFull)
	case lAddCtrl:
		return addOut(a.q.AddCtrl(valOf(x)), mq.ErrClosed, mq.ErrCtrlQFull)
	case lAddPriorCtrl:
		return addOut(a.q.AddPriorCtrl(valOf(x)), mq.ErrClosed, mq.ErrCtrlQFull)
	case lClose:
		a.q.Close()
		return cOut{}
	case lTryClose:
		return cOut{K: 2, B: a.q.TryClose()}
	case lTryClear:
		return cOut{K: 2, B: a.q.TryClear()}
	}
	panic("mq.MQ: unsupported op")
}
func (a mqQ) Pop(anyway bool) cRes {
	if anyway {
		v, err := a.q.PopAnyway()
		return popRes(v, err, mq.ErrClosed)
	}
	v, err := a.q.Pop()
	return popRes(v, err, mq.ErrClosed)
}
func (a mqQ) Len() (int, bool)       { return 0, false }
func (a mqQ) IsClosed() (bool, bool) { return a.q.IsClosed(), true }

type syncQ struct{ q *syncq.SyncQueue }

func (a syncQ) CallAnyway(op int, x int64, ts time.Duration) (cOut, bool) { return cOut{}, false }
func (a syncQ) WaitClose(ctx context.Context) (error, bool)               { return nil, false }

func (a syncQ) Name() string  { return "syncq.SyncQueue" }
func (a syncQ) Frame() string { return "github.com/pinealctx/neptune/queue/syncq." }
func (a syncQ) Call(op int, x int64) cOut {
	switch op {
	case lAdd:
		a.q.Push(valOf(x))
		return cOut{}
	case lClose:
		a.q.Close()
		return cOut{}
	case lTryPop:
		v, ok := a.q.TryPop()
		if !ok {
			if v != nil {
				return cOut{K: 3, R: cRes{K: 2}}
			}
			return cOut{K: 3, TryNone: true}
		}
		if v == nil {
			return cOut{K: 3, R: cRes{K: 1}}
		}
		return cOut{K: 3, R: itemOf(v)}
	}
	panic("syncq: unsupported op")
}
func (a syncQ) Pop(anyway bool) cRes {
	v := a.q.Pop()
	if v == nil {
		return cRes{K: 1}
	}
	return itemOf(v)
}
func (a syncQ) Len() (int, bool)       { return a.q.Len(), true }
func (a syncQ) IsClosed() (bool, bool) { return false, false }

// queue types of the cond family
var condTypes = []string{"q.Q", "async.Q", "mux.Q", "mq.MQ", "syncq.SyncQueue"}

func condKind(typ string) int {
	switch typ {
	case "mq.MQ":
		return kMQ
	case "syncq.SyncQueue":
		return kSync
	}
	return kPipe
}

func newCondQ(typ string, reqmax, ctrlmax int) condQ {
	switch typ {
	case "q.Q":
		return qQ{q.NewQ(q.WithSize(reqmax))}
	case "async.Q":
		return asyncQ{async.NewQ(reqmax)}
	case "mux.Q":
		return muxQ{mux.NewQ(reqmax)}
	case "mq.MQ":
		return mqQ{mq.NewMQ(mq.WithQReqSize(reqmax), mq.WithQCtrlSize(ctrlmax))}
	case "syncq.SyncQueue":
		return syncQ{syncq.NewSyncQueue()}
	}
	panic("unknown queue type " + typ)
}

// ---------------- schedules ----------------

// one macro step: consumers launched (each in its own goroutine), lanes of non-blocking calls (one goroutine per
// lane, calls in program order), then quiescence and an observation
type cBatch struct {
	Launches []cLaunch `json:"launches,omitempty"`
	Lanes    [][]cOp   `json:"lanes,omitempty"`
	// LanesFirst: the lanes are started before the consumers, and the consumers are launched only once a lane has
	// been seen asleep between two attempts of an ...Anyway add (a scheduling nudge towards the retry path, bounded;
	// nothing is concluded from it)
	LanesFirst bool `json:"lanesfirst,omitempty"`
}

type cSchedule struct {
	Typ     string   `json:"typ"`
	ReqMax  int      `json:"reqmax"`
	CtrlMax int      `json:"ctrlmax"`
	NThr    int      `json:"nthr"`
	Batches []cBatch `json:"batches"`
}

type cConsumer struct {
	t    int
	gid  int64
	done chan struct{}
	res  cRes
	ret  bool // return already seen
}

const stuckBound = 10 * time.Second

// guarded runs f in its own goroutine and reports whether it returned within the bound
func guarded(f func()) bool { return guardedFor(stuckBound, f) }

func guardedFor(bound time.Duration, f func()) bool {
	done := make(chan struct{})
	go func() {
		defer close(done)
		f()
	}()
	select {
	case <-done:
		return true
	case <-time.After(bound):
		return false
	}
}

type cRunResult struct {
	cfg        cCfg
	events     []cEvent
	diverged   bool // no witness found at some batch
	everParked bool
	maxParked  int
	stuck      bool
	obsList    []*cObs
	maxCands   int
}

// a run in progress on a fresh queue of the real implementation
type condRun struct {
	sc        *cSchedule // batches executed so far (for replays)
	qu        condQ
	cfg       cCfg
	res       *cRunResult
	cands     []cCand
	fallback  *cPath
	consumers map[int]*cConsumer
	// a goroutine blocked in WaitClose(ctx) for the whole schedule (mux.Q, mq.MQ)
	wcGid    int64
	wcDone   chan struct{}
	wcCancel context.CancelFunc
}

func newCondRun(typ string, reqmax, ctrlmax, nthr int) *condRun {
	sc := &cSchedule{Typ: typ, ReqMax: reqmax, CtrlMax: ctrlmax, NThr: nthr}
	cfg := cCfg{Kind: condKind(typ), ReqMax: reqmax, CtrlMax: ctrlmax, NThr: nthr}
	r := &condRun{sc: sc, qu: newCondQ(typ, reqmax, ctrlmax), cfg: cfg, res: &cRunResult{cfg: cfg},
		cands: []cCand{{s: cInit(cfg)}}, consumers: map[int]*cConsumer{}}
	if _, ok := r.qu.WaitClose(canceledCtx); ok {
		ctx, cancel := context.WithCancel(context.Background())
		r.wcCancel = cancel
		r.wcDone = make(chan struct{})
		gidCh := make(chan int64, 1)
		go func() {
			gidCh <- curGoid()
			if err, _ := r.qu.WaitClose(ctx); err == nil {
				close(r.wcDone) // returned because the queue was closed (not because the context ended)
			}
		}()
		r.wcGid = <-gidCh
	}
	return r
}

// an already cancelled context: WaitClose on it returns at once (used only to ask whether the type has WaitClose)
var canceledCtx = func() context.Context {
	ctx, cancel := context.WithCancel(context.Background())
	cancel()
	return ctx
}()

// exec runs one batch and returns the quiescent observation
func (r *condRun) exec(b cBatch) *cObs {
	res, qu, consumers := r.res, r.qu, r.consumers
	r.sc.Batches = append(r.sc.Batches, b)
	{
		launchConsumers := func() {
			for _, la := range b.Launches {
				c := &cConsumer{t: la.T, done: make(chan struct{})}
				consumers[la.T] = c
				gidCh := make(chan int64, 1)
				go func(c *cConsumer, anyway bool) {
					gidCh <- curGoid()
					defer close(c.done)
					defer func() {
						if r := recover(); r != nil {
							c.res = cRes{K: 2}
						}
					}()
					c.res = qu.Pop(anyway)
				}(c, la.A)
				c.gid = <-gidCh
			}
		}
		if !b.LanesFirst {
			launchConsumers()
		}
		// lanes
		laneDone := make([]chan struct{}, len(b.Lanes))
		for i := range b.Lanes {
			laneDone[i] = make(chan struct{})
			run := func(i int) {
				defer close(laneDone[i])
				for j := range b.Lanes[i] {
					op := &b.Lanes[i][j]
					func() {
						defer func() {
							if r := recover(); r != nil {
								op.Out = cOut{K: 1, Ares: 3}
							}
						}()
						if op.Anyway {
							ts := anywaySleep
							if op.SleepUs > 0 {
								ts = time.Duration(op.SleepUs) * time.Microsecond
							}
							if out, ok := qu.CallAnyway(op.Op, op.X, ts); ok {
								op.Out = out
								return
							}
						}
						op.Out = qu.Call(op.Op, op.X)
					}()
				}
			}
			go run(i) // always its own goroutine: a call that never returns must not take the driver with it
		}
		if b.LanesFirst {
			for spins := 0; spins < 2000; spins++ {
				asleep := false
				for _, g := range snapshot() {
					if g.state == "sleep" && bytes.Contains(g.stack, []byte("Anyway(")) && bytes.Contains(g.stack, []byte(qu.Frame())) {
						asleep = true
					}
				}
				if asleep {
					break
				}
				runtime.Gosched()
			}
			launchConsumers()
		}
		laneStuck := false
		for i := range laneDone {
			select {
			case <-laneDone[i]:
			case <-time.After(stuckBound):
				laneStuck = true
			}
		}
		// quiescence: every live consumer has returned (seen before the snapshot) or is parked (in the snapshot)
		ob := &cObs{}
		deadline := time.Now().Add(stuckBound)
		spins := 0
		for {
			for _, c := range consumers {
				if !c.ret {
					select {
					case <-c.done:
						c.ret = true
					default:
					}
				}
			}
			snap := snapshot()
			var parked, pending []int
			for _, c := range consumers {
				if c.ret {
					continue
				}
				if parkedIn(snap, c.gid, "sync.Cond.Wait", qu.Frame()) {
					parked = append(parked, c.t)
				} else {
					pending = append(pending, c.t)
				}
			}
			if r.wcDone != nil {
				// returned (seen before the snapshot), or positively parked in WaitClose's select
				wcRet := false
				select {
				case <-r.wcDone:
					wcRet = true
				default:
				}
				if wcRet {
					ob.HasWC, ob.WC = true, true
				} else if parkedIn(snap, r.wcGid, "select", ").WaitClose") {
					ob.HasWC, ob.WC = true, false
				} else {
					ob.HasWC = false
					pending = append(pending, 997)
				}
			}
			if len(pending) == 0 || laneStuck || time.Now().After(deadline) {
				sort.Ints(parked)
				sort.Ints(pending)
				ob.Parked = parked
				ob.Stuck = pending
				if laneStuck {
					ob.Stuck = append(ob.Stuck, 999)
				}
				break
			}
			spins++
			if spins < 200 {
				runtime.Gosched()
			} else {
				time.Sleep(50 * time.Microsecond) // back-off only; nothing is concluded from the sleep
			}
		}
		for _, c := range consumers {
			if c.ret {
				ob.Ret = append(ob.Ret, cRet{T: c.t, R: c.res})
			}
		}
		sort.Slice(ob.Ret, func(i, j int) bool { return ob.Ret[i].T < ob.Ret[j].T })
		if ob.Parked == nil {
			ob.Parked = []int{}
		}
		if ob.Stuck == nil {
			ob.Stuck = []int{}
		}
		if len(ob.Stuck) == 0 {
			// Len / IsClosed take the queue's mutex: a call that never comes back (a mutex left locked) must not take
			// the driver with it - it is reported like a stuck call
			if !guarded(func() {
				if n, ok := qu.Len(); ok {
					ob.HasLen, ob.Len = true, n
				}
				if cl, ok := qu.IsClosed(); ok {
					ob.HasClosed, ob.Closed = true, cl
				}
			}) {
				ob.HasLen, ob.HasClosed = false, false
				ob.Stuck = append(ob.Stuck, 998)
			}
		}
		res.obsList = append(res.obsList, ob)
		if len(ob.Parked) > 0 {
			res.everParked = true
			if len(ob.Parked) > res.maxParked {
				res.maxParked = len(ob.Parked)
			}
		}
		// resolve the hidden choices
		if !res.diverged {
			next := cSearch(r.cfg, r.cands, b.Lanes, b.Launches, ob)
			if len(next) == 0 {
				res.diverged = true
				r.fallback = cFallbackPath(r.cands[0].path, b.Lanes, b.Launches, ob)
			} else {
				r.cands = next
				if len(r.cands) > res.maxCands {
					res.maxCands = len(r.cands)
				}
			}
		} else {
			r.fallback = cFallbackPath(r.fallback, b.Lanes, b.Launches, ob)
		}
		if len(ob.Stuck) > 0 {
			res.stuck = true
		}
		return ob
	}
}

// finish releases everybody (Close wakes every blocked consumer on a correct implementation; otherwise the
// goroutines leak) and fixes the emitted trace
func (r *condRun) finish() *cRunResult {
	res := r.res
	if r.wcCancel != nil {
		defer r.wcCancel()
	}
	if !res.stuck {
		guarded(func() {
			defer func() { recover() }()
			r.qu.Call(lClose, 0)
		})
	}
	if res.diverged {
		res.events = r.fallback.list()
	} else {
		// any candidate will do: all agree with every observation
		sort.Slice(r.cands, func(i, j int) bool { return r.cands[i].s.key() < r.cands[j].s.key() })
		res.events = r.cands[0].path.list()
	}
	return res
}

func condDesc(sc *cSchedule, r *cRunResult) map[string]interface{} {
	var steps []string
	evs := r.events
	for i := 0; i < len(evs); i++ {
		e := evs[i]
		// a run of accepted ordinary adds of consecutive items is shown in one line
		if !e.isObs && e.l.Op == lAdd && e.l.W < 0 {
			j := i
			for j+1 < len(evs) && !evs[j+1].isObs && evs[j+1].l.Op == lAdd && evs[j+1].l.W < 0 && evs[j+1].l.X == evs[j].l.X+1 && evs[j+1].o.eq(e.o) {
				j++
			}
			if j-i+1 >= 4 {
				steps = append(steps, fmt.Sprintf("LAdd %d .. %d (%d adds, each) -> %s", e.l.X, evs[j].l.X, j-i+1, cCoqOut(e.o)))
				i = j
				continue
			}
		}
		if e.isObs {
			steps = append(steps, fmt.Sprintf("obs ret=%v parked=%v stuck=%v len=%v/%v closed=%v/%v", e.ob.Ret, e.ob.Parked, e.ob.Stuck, e.ob.HasLen, e.ob.Len, e.ob.HasClosed, e.ob.Closed))
		} else {
			steps = append(steps, cCoqLabel(e.l)+" -> "+cCoqOut(e.o))
		}
	}
	return map[string]interface{}{"type": sc.Typ, "reqmax": sc.ReqMax, "ctrlmax": sc.CtrlMax, "consumers": sc.NThr,
		"diverged_from_model": r.diverged, "trace": steps,
		"item_ids": "positive = the int64 itself; -1 nil interface, -2 (*int64)(nil), -3 \"\", -4 int(0), -5 false, -6 struct{}{}"}
}
