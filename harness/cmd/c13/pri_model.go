package main

// Go transcription of coq/theories/C13_Pri.v (not trusted) with the witness search.

import (
	"fmt"
	"strings"
)

type pEnt struct {
	pri, seq, val int64
}

const (
	pIdle    = 0
	pParked  = 1
	pHolding = 2
	pDone    = 3
)

type pThr struct {
	st    int
	some  bool
	value int64
}

type pState struct {
	cap   int64
	ents  []pEnt
	seq   int64
	token bool
	pend  int
	cs    []pThr
}

func pInit(cap int64, n int) *pState { return &pState{cap: cap, cs: make([]pThr, n)} }

func (s *pState) clone() *pState {
	n := *s
	n.ents = append([]pEnt{}, s.ents...)
	n.cs = append([]pThr{}, s.cs...)
	return &n
}

func (s *pState) key() string {
	var sb strings.Builder
	fmt.Fprintf(&sb, "%v|%d|%v|%d|", s.ents, s.seq, s.token, s.pend)
	for _, t := range s.cs {
		fmt.Fprintf(&sb, "%d:%v:%d,", t.st, t.some, t.value)
	}
	return sb.String()
}

const (
	plPushLocked = iota
	plSignal
	plRecv
	plTryRecv
	plPopHeld
	plPopDirect
)

type pLabel struct {
	Op   int
	P, V int64
	T    int
	W    int
}

// out kind: 0 none, 1 push(ok), 2 bool, 3 pop(option)
type pOut struct {
	K    int
	B    bool
	Some bool
	V    int64
}

func (o pOut) eq(p pOut) bool {
	if o.K != p.K {
		return false
	}
	switch o.K {
	case 1, 2:
		return o.B == p.B
	case 3:
		return o.Some == p.Some && (!o.Some || o.V == p.V)
	}
	return true
}

func pBetter(a, b pEnt) bool { return b.pri < a.pri || (a.pri == b.pri && a.seq < b.seq) }

// index of the entry heap.Pop returns
func pBest(l []pEnt) int {
	if len(l) == 0 {
		return -1
	}
	// mirror of pop_best: scan from the right, the earlier entry wins unless a later one is strictly better
	best := len(l) - 1
	for i := len(l) - 2; i >= 0; i-- {
		if !pBetter(l[best], l[i]) {
			best = i
		}
	}
	return best
}

func (s *pState) popLocked() (bool, int64) {
	i := pBest(s.ents)
	if i < 0 {
		return false, 0
	}
	v := s.ents[i].val
	s.ents = append(append([]pEnt{}, s.ents[:i]...), s.ents[i+1:]...)
	if len(s.ents) > 0 {
		s.pend++
	}
	return true, v
}

func (s *pState) anyParked() bool {
	for _, t := range s.cs {
		if t.st == pParked {
			return true
		}
	}
	return false
}

func pStep(s0 *pState, l pLabel) (*pState, pOut, bool) {
	s := s0.clone()
	switch l.Op {
	case plPushLocked:
		if s.cap <= int64(len(s.ents)) {
			return s, pOut{K: 1, B: false}, true
		}
		s.seq++
		s.ents = append(s.ents, pEnt{pri: l.P, seq: s.seq, val: l.V})
		s.pend++
		return s, pOut{K: 1, B: true}, true
	case plSignal:
		if s.pend == 0 {
			return nil, pOut{}, false
		}
		if l.W >= 0 {
			if l.W >= len(s.cs) || s.cs[l.W].st != pParked {
				return nil, pOut{}, false
			}
			s.pend--
			s.cs[l.W].st = pHolding
			return s, pOut{}, true
		}
		if s.anyParked() {
			return nil, pOut{}, false
		}
		s.pend--
		s.token = true
		return s, pOut{}, true
	case plRecv:
		if l.T >= len(s.cs) || s.cs[l.T].st != pIdle {
			return nil, pOut{}, false
		}
		if s.token {
			s.token = false
			s.cs[l.T].st = pHolding
		} else {
			s.cs[l.T].st = pParked
		}
		return s, pOut{}, true
	case plTryRecv:
		if l.T >= len(s.cs) || s.cs[l.T].st != pIdle {
			return nil, pOut{}, false
		}
		if s.token {
			s.token = false
			s.cs[l.T].st = pHolding
			return s, pOut{K: 2, B: true}, true
		}
		return s, pOut{K: 2, B: false}, true
	case plPopHeld:
		if l.T >= len(s.cs) || s.cs[l.T].st != pHolding {
			return nil, pOut{}, false
		}
		some, v := s.popLocked()
		s.cs[l.T] = pThr{st: pDone, some: some, value: v}
		return s, pOut{}, true
	case plPopDirect:
		some, v := s.popLocked()
		return s, pOut{K: 3, Some: some, V: v}, true
	}
	return nil, pOut{}, false
}

// ---------------- observations ----------------

type pRet struct {
	T    int   `json:"t"`
	Some bool  `json:"some"`
	V    int64 `json:"v"`
}

type pObs struct {
	Ret     []pRet `json:"ret"`
	Parked  []int  `json:"parked"`
	Holding []int  `json:"holding"`
	Stuck   []int  `json:"stuck"`
	Token   bool   `json:"token"`
	Len     int    `json:"len"`
}

type pEvent struct {
	isMid bool
	mid   bool
	isObs bool
	l     pLabel
	o     pOut
	ob    *pObs
}

type pPath struct {
	parent *pPath
	ev     pEvent
}

func (p *pPath) list() []pEvent {
	var r []pEvent
	for q := p; q != nil; q = q.parent {
		r = append(r, q.ev)
	}
	for i, j := 0, len(r)-1; i < j; i, j = i+1, j-1 {
		r[i], r[j] = r[j], r[i]
	}
	return r
}

type pCand struct {
	s    *pState
	path *pPath
}

// a call made by a lane: Push / PopDirect / TryRecv t / PopHeld t
type pOp struct {
	Op  int   `json:"op"`
	P   int64 `json:"p"`
	V   int64 `json:"v"`
	T   int   `json:"t"`
	Out pOut  `json:"out"`
}

func pStateMatches(s *pState, ob *pObs) bool {
	if s.pend != 0 || len(ob.Stuck) > 0 {
		return false
	}
	ret := map[int]pRet{}
	for _, r := range ob.Ret {
		ret[r.T] = r
	}
	in := func(l []int, t int) bool {
		for _, x := range l {
			if x == t {
				return true
			}
		}
		return false
	}
	for t, th := range s.cs {
		r, isRet := ret[t]
		if (th.st == pDone) != isRet {
			return false
		}
		if isRet && (r.Some != th.some || (r.Some && r.V != th.value)) {
			return false
		}
		if (th.st == pParked) != in(ob.Parked, t) {
			return false
		}
		if (th.st == pHolding) != in(ob.Holding, t) {
			return false
		}
	}
	return s.token == ob.Token && len(s.ents) == ob.Len
}

func pSearch(cands []pCand, lanes [][]pOp, launches []int, ob *pObs) []pCand {
	type node struct {
		s       *pState
		pos     []int
		entered uint64
		path    *pPath
	}
	seen := map[string]bool{}
	out := map[string]pCand{}
	var stack []node
	for _, cd := range cands {
		stack = append(stack, node{s: cd.s, pos: make([]int, len(lanes)), path: cd.path})
	}
	nodes := 0
	for len(stack) > 0 {
		n := stack[len(stack)-1]
		stack = stack[:len(stack)-1]
		k := fmt.Sprintf("%s#%v#%d", n.s.key(), n.pos, n.entered)
		if seen[k] {
			continue
		}
		seen[k] = true
		nodes++
		if nodes > 200000 {
			break
		}
		moved := false
		push := func(ns *pState, l pLabel, o pOut, pos []int, entered uint64) {
			stack = append(stack, node{s: ns, pos: pos, entered: entered, path: &pPath{parent: n.path, ev: pEvent{l: l, o: o}}})
		}
		for i, lane := range lanes {
			if n.pos[i] >= len(lane) {
				continue
			}
			moved = true
			op := lane[n.pos[i]]
			np := append([]int{}, n.pos...)
			np[i]++
			l := pLabel{Op: op.Op, P: op.P, V: op.V, T: op.T, W: -1}
			ns, o, ok := pStep(n.s, l)
			if ok && o.eq(op.Out) {
				push(ns, l, op.Out, np, n.entered)
			}
		}
		for i, t := range launches {
			if n.entered&(1<<uint(i)) != 0 {
				continue
			}
			moved = true
			l := pLabel{Op: plRecv, T: t, W: -1}
			ns, o, ok := pStep(n.s, l)
			if ok {
				push(ns, l, o, n.pos, n.entered|(1<<uint(i)))
			}
		}
		if n.s.pend > 0 {
			moved = true
			var ws []int
			for t, th := range n.s.cs {
				if th.st == pParked {
					ws = append(ws, t)
				}
			}
			if len(ws) == 0 {
				ws = []int{-1}
			}
			for _, w := range ws {
				l := pLabel{Op: plSignal, W: w}
				ns, o, ok := pStep(n.s, l)
				if ok {
					push(ns, l, o, n.pos, n.entered)
				}
			}
		}
		if !moved && pStateMatches(n.s, ob) {
			ks := n.s.key()
			if _, dup := out[ks]; !dup {
				out[ks] = pCand{s: n.s, path: &pPath{parent: n.path, ev: pEvent{isObs: true, ob: ob}}}
			}
		}
	}
	var res []pCand
	for _, v := range out {
		res = append(res, v)
	}
	return res
}

// best-effort labels after a divergence: launches, then each lane call followed by one signal
func pFallbackPath(p *pPath, lanes [][]pOp, launches []int, ob *pObs) *pPath {
	for _, t := range launches {
		p = &pPath{parent: p, ev: pEvent{l: pLabel{Op: plRecv, T: t, W: -1}}}
	}
	for _, lane := range lanes {
		for _, op := range lane {
			p = &pPath{parent: p, ev: pEvent{l: pLabel{Op: op.Op, P: op.P, V: op.V, T: op.T, W: -1}, o: op.Out}}
		}
	}
	return &pPath{parent: p, ev: pEvent{isObs: true, ob: ob}}
}

// ---------------- Coq printing ----------------

func coqOptZ(some bool, v int64) string {
	if some {
		return "(Some " + coqZ(v) + ")"
	}
	return "None"
}

func pCoqLabel(l pLabel) string {
	switch l.Op {
	case plPushLocked:
		return fmt.Sprintf("(PPushLocked %s %s)", coqZ(l.P), coqZ(l.V))
	case plSignal:
		if l.W >= 0 {
			return fmt.Sprintf("(PSignal (Some %d%%nat))", l.W)
		}
		return "(PSignal None)"
	case plRecv:
		return fmt.Sprintf("(PRecv %d%%nat)", l.T)
	case plTryRecv:
		return fmt.Sprintf("(PTryRecv %d%%nat)", l.T)
	case plPopHeld:
		return fmt.Sprintf("(PPopHeld %d%%nat)", l.T)
	}
	return "PPopDirect"
}

func pCoqOut(o pOut) string {
	switch o.K {
	case 1:
		return fmt.Sprintf("(POPush %v)", o.B)
	case 2:
		return fmt.Sprintf("(POBool %v)", o.B)
	case 3:
		return "(POPop " + coqOptZ(o.Some, o.V) + ")"
	}
	return "PONone"
}

func pCoqObs(ob *pObs) string {
	rs := make([]string, len(ob.Ret))
	for i, r := range ob.Ret {
		rs[i] = fmt.Sprintf("(%d%%nat, %s)", r.T, coqOptZ(r.Some, r.V))
	}
	return fmt.Sprintf("{| po_ret := [%s]; po_parked := %s; po_holding := %s; po_stuck := %s; po_token := %v; po_len := %d%%nat |}",
		strings.Join(rs, "; "), coqNatList(ob.Parked), coqNatList(ob.Holding), coqNatList(ob.Stuck), ob.Token, ob.Len)
}

func pCoqCase(cap int64, n int, evs []pEvent) string {
	es := make([]string, len(evs))
	for i, e := range evs {
		if e.isMid {
			es[i] = fmt.Sprintf("PEMid %v", e.mid)
		} else if e.isObs {
			es[i] = "PEObs " + pCoqObs(e.ob)
		} else {
			es[i] = "PELab " + pCoqLabel(e.l) + " " + pCoqOut(e.o)
		}
	}
	return fmt.Sprintf("(CPri %s %d%%nat [%s])", coqZ(cap), n, strings.Join(es, "; "))
}
