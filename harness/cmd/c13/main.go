// Command c13: forced schedules on the queues of /repo (q.Q, async.Q, mux.Q, mq.MQ, syncq.SyncQueue: consumers
// blocked in Pop / PopAnyway; priq.PriQueue: the wait-channel token protocol).  The driver goroutine runs one batch
// of calls at a time, waits until every consumer has returned (a channel closed by its wrapper) or is positively
// seen parked (runtime.Stack: wait reason sync.Cond.Wait inside the queue's package, or select inside the
// protocol's receive), records the observation, resolves the runtime's hidden choices by a state-set search on
// its own transcription of the LTS and emits one fully resolved label sequence per schedule.
package main

import (
	"encoding/json"
	"fmt"
	"math/rand"
	"strings"
	"time"

	"verifharness/vh"
)

// ---------------- condition-variable queues: generators ----------------

type condGen struct {
	rnd         *rand.Rand
	typ         string
	kind        int
	run         *condRun
	nextItem    int64
	nextTid     int
	maxThr      int
	closed      bool
	lastObs     *cObs
	usedSpecial map[int64]bool
}

func newCondGen(rnd *rand.Rand, typ string, reqmax, ctrlmax, maxThr int) *condGen {
	return &condGen{rnd: rnd, typ: typ, kind: condKind(typ), run: newCondRun(typ, reqmax, ctrlmax, maxThr), maxThr: maxThr, nextItem: 1}
}

// the next item: now and then one of the boundary values (each at most once per schedule; the nil interface first,
// except for SyncQueue whose Pop returns nil for "closed", so that a nil item is outside what its API can convey)
func (g *condGen) item() int64 {
	if g.rnd.Intn(100) < 12 {
		if id, ok := g.special(g.rnd.Intn(2) == 0); ok {
			return id
		}
	}
	x := g.nextItem
	g.nextItem++
	return x
}

func (g *condGen) special(preferNil bool) (int64, bool) {
	if g.usedSpecial == nil {
		g.usedSpecial = map[int64]bool{}
	}
	var free []int64
	for _, id := range specialIDs {
		if g.usedSpecial[id] || (id == idNil && g.kind == kSync) {
			continue
		}
		free = append(free, id)
	}
	if len(free) == 0 {
		return 0, false
	}
	id := free[g.rnd.Intn(len(free))]
	if preferNil && free[0] == idNil {
		id = idNil
	}
	g.usedSpecial[id] = true
	return id, true
}

func (g *condGen) launch(anyway bool) (cLaunch, bool) {
	if g.nextTid >= g.maxThr {
		return cLaunch{}, false
	}
	t := g.nextTid
	g.nextTid++
	if g.kind == kSync {
		anyway = true
	}
	return cLaunch{T: t, A: anyway}, true
}

func (g *condGen) exec(b cBatch) *cObs {
	if len(b.Launches) == 0 && len(b.Lanes) == 0 {
		return g.lastObs
	}
	for _, l := range b.Lanes {
		for _, op := range l {
			if op.Op == lClose {
				g.closed = true
			}
		}
	}
	g.lastObs = g.run.exec(b)
	return g.lastObs
}

func (g *condGen) parked() int {
	if g.lastObs == nil {
		return 0
	}
	return len(g.lastObs.Parked)
}

// an add may be issued through its retrying variant (AddReqAnyway / AddAnyway / AddCtrlAnyway) wherever it cannot
// block for ever: on an unbounded list.  (On a bounded list a full queue makes it retry until a consumer makes room:
// that is the business of the class anyway-full, which provides the consumer.)
func (g *condGen) maybeAnyway(op cOp) cOp {
	if g.kind == kSync || g.rnd.Intn(100) >= 25 {
		return op
	}
	if op.Op == lAdd && g.run.cfg.ReqMax == 0 {
		op.Anyway = true
	}
	if op.Op == lAddCtrl && g.kind == kMQ && g.run.cfg.CtrlMax == 0 {
		op.Anyway = true
	}
	return op
}

// a random non-blocking call
func (g *condGen) randOp(closeWeight int) cOp {
	return g.maybeAnyway(g.randOp0(closeWeight))
}

func (g *condGen) randOp0(closeWeight int) cOp {
	r := g.rnd.Intn(100)
	if r < closeWeight {
		return cOp{Op: lClose}
	}
	r = g.rnd.Intn(100)
	switch g.kind {
	case kSync:
		if r < 75 {
			return cOp{Op: lAdd, X: g.item()}
		}
		return cOp{Op: lTryPop}
	case kMQ:
		switch {
		case r < 40:
			return cOp{Op: lAdd, X: g.item()}
		case r < 55:
			return cOp{Op: lAddPrior, X: g.item()}
		case r < 78:
			return cOp{Op: lAddCtrl, X: g.item()}
		case r < 86:
			return cOp{Op: lAddPriorCtrl, X: g.item()}
		case r < 94:
			return cOp{Op: lTryClose}
		default:
			return cOp{Op: lTryClear}
		}
	}
	if r < 75 {
		return cOp{Op: lAdd, X: g.item()}
	}
	return cOp{Op: lAddPrior, X: g.item()}
}

func (g *condGen) randLane(n int, closeWeight int) []cOp {
	var l []cOp
	for i := 0; i < n; i++ {
		l = append(l, g.randOp(closeWeight))
	}
	return l
}

// random walk over batches
func (g *condGen) random(nBatches int) {
	after := 0
	for i := 0; i < nBatches && !g.run.res.stuck; i++ {
		if g.closed {
			after++
			if after > 3 {
				break
			}
		}
		var b cBatch
		r := g.rnd.Intn(100)
		switch {
		case r < 30:
			if la, ok := g.launch(g.rnd.Intn(100) < 40); ok {
				b.Launches = append(b.Launches, la)
			} else {
				b.Lanes = [][]cOp{g.randLane(1, 8)}
			}
		case r < 38:
			for k := 0; k < 2; k++ {
				if la, ok := g.launch(g.rnd.Intn(100) < 40); ok {
					b.Launches = append(b.Launches, la)
				}
			}
		case r < 68:
			b.Lanes = [][]cOp{g.randLane(1, 8)}
		case r < 84:
			b.Lanes = [][]cOp{g.randLane(2+g.rnd.Intn(2), 6)}
		default:
			b.Lanes = [][]cOp{g.randLane(1+g.rnd.Intn(2), 6), g.randLane(1+g.rnd.Intn(2), 6)}
			if g.rnd.Intn(3) == 0 {
				if la, ok := g.launch(g.rnd.Intn(100) < 40); ok {
					b.Launches = append(b.Launches, la)
				}
			}
		}
		g.exec(b)
	}
}

// park k consumers, one batch each or all in one batch
func (g *condGen) park(k int, together bool) {
	var b cBatch
	for i := 0; i < k; i++ {
		la, ok := g.launch(g.rnd.Intn(100) < 40)
		if !ok {
			break
		}
		b.Launches = append(b.Launches, la)
		if !together {
			g.exec(b)
			b = cBatch{}
		}
	}
	g.exec(b)
}

func (g *condGen) addOp() cOp { return g.maybeAnyway(g.addOp0()) }

func (g *condGen) addOp0() cOp {
	r := g.rnd.Intn(100)
	switch {
	case g.kind == kSync || r < 60:
		return cOp{Op: lAdd, X: g.item()}
	case g.kind == kMQ && r < 80:
		return cOp{Op: lAddCtrl, X: g.item()}
	case g.kind == kMQ && r < 88:
		return cOp{Op: lAddPriorCtrl, X: g.item()}
	}
	return cOp{Op: lAddPrior, X: g.item()}
}

// m adds: one per batch (0), one burst lane (1), two concurrent lanes (2)
func (g *condGen) adds(m int, mode int) {
	switch mode {
	case 0:
		for i := 0; i < m; i++ {
			g.exec(cBatch{Lanes: [][]cOp{{g.addOp()}}})
		}
	case 1:
		var l []cOp
		for i := 0; i < m; i++ {
			l = append(l, g.addOp())
		}
		g.exec(cBatch{Lanes: [][]cOp{l}})
	default:
		var a, b []cOp
		for i := 0; i < m; i++ {
			if i%2 == 0 {
				a = append(a, g.addOp())
			} else {
				b = append(b, g.addOp())
			}
		}
		if len(b) == 0 {
			g.exec(cBatch{Lanes: [][]cOp{a}})
		} else {
			g.exec(cBatch{Lanes: [][]cOp{a, b}})
		}
	}
}

var condScenarios = []string{"random", "park-close", "park-add", "drain-after-close", "bound", "close-race", "steal", "tryclose", "add-close-burst", "add-close-burst", "park-add-nil", "park-add-nil", "anyway-full", "anyway-full", "anyway-drain-park", "anyway-drain-park"}

func (g *condGen) scenario(name string) {
	rnd := g.rnd
	switch name {
	case "random":
		g.random(6 + rnd.Intn(10))
	case "park-close":
		// k consumers blocked, then Close: all k return
		k := 1 + rnd.Intn(4)
		g.park(k, rnd.Intn(2) == 0)
		if rnd.Intn(3) == 0 {
			// an item passes through first
			g.adds(1, 0)
			g.park(1, false)
		}
		g.exec(cBatch{Lanes: [][]cOp{{{Op: lClose}}}})
		if rnd.Intn(2) == 0 {
			g.park(1, false) // a late consumer returns at once
			g.exec(cBatch{Lanes: [][]cOp{{g.addOp()}}})
		}
	case "park-add":
		// k consumers blocked, then m items: min(k,m) consumers return with distinct items
		k := 1 + rnd.Intn(4)
		m := 1 + rnd.Intn(4)
		g.park(k, rnd.Intn(2) == 0)
		g.adds(m, rnd.Intn(3))
		if rnd.Intn(2) == 0 {
			g.park(1+rnd.Intn(2), true)
			g.adds(1+rnd.Intn(2), rnd.Intn(3))
		}
		if rnd.Intn(2) == 0 {
			g.exec(cBatch{Lanes: [][]cOp{{{Op: lClose}}}})
		}
	case "drain-after-close":
		// items, Close, then Pop (refuses) and PopAnyway (drains) side by side
		m := 1 + rnd.Intn(3)
		g.adds(m, rnd.Intn(2))
		g.exec(cBatch{Lanes: [][]cOp{{{Op: lClose}}}})
		for i := 0; i < m+2; i++ {
			if la, ok := g.launch(rnd.Intn(100) < 60); ok {
				g.exec(cBatch{Launches: []cLaunch{la}})
			}
		}
		g.exec(cBatch{Lanes: [][]cOp{{g.addOp()}}})
	case "bound":
		// fill to the bound, a refused add wakes nobody, a consumer makes room
		g.park(rnd.Intn(3), true)
		g.adds(g.run.cfg.ReqMax+1+rnd.Intn(3), rnd.Intn(3))
		g.park(1+rnd.Intn(2), true)
		g.adds(2, rnd.Intn(3))
		g.random(3)
	case "close-race":
		// blocked consumers; adds and Close issued concurrently
		k := 1 + rnd.Intn(4)
		g.park(k, true)
		a := []cOp{g.addOp()}
		if rnd.Intn(2) == 0 {
			a = append(a, g.addOp())
		}
		b := cBatch{Lanes: [][]cOp{a, {{Op: lClose}}}}
		if rnd.Intn(2) == 0 {
			if la, ok := g.launch(rnd.Intn(2) == 0); ok {
				b.Launches = append(b.Launches, la)
			}
		}
		g.exec(b)
		g.park(1, false)
	case "park-add-nil":
		// the boundary items: k consumers blocked, k items of which some are the nil interface / a typed nil pointer /
		// zero values: every one of them is an item like any other, all k consumers return with k distinct items
		k := 1 + rnd.Intn(4)
		g.park(k, rnd.Intn(2) == 0)
		var ops []cOp
		for i := 0; i < k; i++ {
			op := g.addOp()
			if i == 0 || rnd.Intn(2) == 0 {
				if id, ok := g.special(i == 0); ok {
					op.X = id
				}
			}
			ops = append(ops, op)
		}
		rnd.Shuffle(len(ops), func(i, j int) { ops[i], ops[j] = ops[j], ops[i] })
		switch rnd.Intn(3) {
		case 0:
			for _, op := range ops {
				g.exec(cBatch{Lanes: [][]cOp{{op}}})
			}
		case 1:
			g.exec(cBatch{Lanes: [][]cOp{ops}})
		default:
			h := (len(ops) + 1) / 2
			if h == len(ops) {
				g.exec(cBatch{Lanes: [][]cOp{ops}})
			} else {
				g.exec(cBatch{Lanes: [][]cOp{ops[:h], ops[h:]}})
			}
		}
		if rnd.Intn(2) == 0 {
			g.random(2)
		}
	case "anyway-full":
		// the retrying adds on a FULL bounded queue: AddReqAnyway / AddAnyway / AddCtrlAnyway keep trying until a
		// consumer has made room (a consumer is launched in the same batch) or the queue is closed (ErrClosed)
		if g.kind == kSync {
			g.random(6)
			return
		}
		ctrl := g.kind == kMQ && g.run.cfg.CtrlMax > 0 && rnd.Intn(2) == 0
		bound, addKind := g.run.cfg.ReqMax, lAdd
		if ctrl {
			bound, addKind = g.run.cfg.CtrlMax, lAddCtrl
		}
		var fill []cOp
		for i := 0; i < bound; i++ {
			fill = append(fill, cOp{Op: addKind, X: g.item()})
		}
		fill = append(fill, cOp{Op: addKind, X: g.item()}) // refused: full
		g.exec(cBatch{Lanes: [][]cOp{fill}})
		switch rnd.Intn(4) {
		case 0, 1:
			// full and open: the retrying add and a consumer side by side
			if la, ok := g.launch(rnd.Intn(2) == 0); ok {
				g.exec(cBatch{Launches: []cLaunch{la}, Lanes: [][]cOp{{{Op: addKind, X: g.item(), Anyway: true}}}, LanesFirst: true})
			}
		case 2:
			// full, then closed: the retrying add gives up with ErrClosed
			g.exec(cBatch{Lanes: [][]cOp{{{Op: lClose}}}})
			g.exec(cBatch{Lanes: [][]cOp{{{Op: addKind, X: g.item(), Anyway: true}}}})
		default:
			// full: the retrying add and Close side by side
			g.exec(cBatch{Lanes: [][]cOp{{{Op: addKind, X: g.item(), Anyway: true}}, {{Op: lClose}}}})
		}
		// consumers drain; more retrying adds while there is room
		for i := 0; i < 2; i++ {
			if la, ok := g.launch(true); ok {
				g.exec(cBatch{Launches: []cLaunch{la}})
			}
		}
		if !g.closed {
			g.park(1+rnd.Intn(2), true)
			g.exec(cBatch{Lanes: [][]cOp{{{Op: addKind, X: g.item(), Anyway: true}}}})
		}
		if g.kind == kMQ {
			g.exec(cBatch{Lanes: [][]cOp{{{Op: lTryClear}}}})
		}
	case "anyway-drain-park":
		// a full bounded list; the retrying add is started and seen asleep between two attempts (its pause is long
		// here); consumers then DRAIN the list and k more PARK on the empty queue; the retry finds room: every parked
		// consumer that may take the item must be woken
		if g.kind == kSync {
			g.random(6)
			return
		}
		ctrl := g.kind == kMQ && g.run.cfg.CtrlMax > 0 && rnd.Intn(2) == 0
		bound, addKind := g.run.cfg.ReqMax, lAdd
		if ctrl {
			bound, addKind = g.run.cfg.CtrlMax, lAddCtrl
		}
		var fill []cOp
		for i := 0; i < bound; i++ {
			fill = append(fill, cOp{Op: addKind, X: g.item()})
		}
		g.exec(cBatch{Lanes: [][]cOp{fill}})
		k := 1 + rnd.Intn(3)
		var las []cLaunch
		for i := 0; i < bound+k; i++ {
			if la, ok := g.launch(rnd.Intn(2) == 0); ok {
				las = append(las, la)
			}
		}
		g.exec(cBatch{Launches: las, LanesFirst: true,
			Lanes: [][]cOp{{{Op: addKind, X: g.item(), Anyway: true, SleepUs: 15000 + rnd.Intn(10000)}}}})
		// the rest of the parked consumers get their items from ordinary and retrying adds
		g.adds(k, rnd.Intn(3))
		if rnd.Intn(2) == 0 {
			g.exec(cBatch{Lanes: [][]cOp{{{Op: lClose}}}})
		}
	case "add-close-burst":
		// k >= 2 consumers parked, then an add immediately followed by Close, back to back from one goroutine: the
		// consumer the add woke has usually not run when Close arrives, so Close finds a non-empty queue
		k := 2 + rnd.Intn(3)
		g.park(k, rnd.Intn(2) == 0)
		l := []cOp{g.addOp()}
		if rnd.Intn(4) == 0 {
			l = append(l, g.addOp())
		}
		l = append(l, cOp{Op: lClose})
		g.exec(cBatch{Lanes: [][]cOp{l}})
		if rnd.Intn(2) == 0 {
			g.park(1, false)
		}
	case "steal":
		// a woken consumer can find the item gone: a fresh consumer (or TryPop) races with it
		k := 1 + rnd.Intn(3)
		g.park(k, true)
		b := cBatch{Lanes: [][]cOp{{g.addOp()}}}
		if g.kind == kSync && rnd.Intn(2) == 0 {
			b.Lanes = append(b.Lanes, []cOp{{Op: lTryPop}})
		}
		for i := 0; i < 1+rnd.Intn(2); i++ {
			if la, ok := g.launch(rnd.Intn(2) == 0); ok {
				b.Launches = append(b.Launches, la)
			}
		}
		g.exec(b)
		g.adds(1+rnd.Intn(2), rnd.Intn(3))
		g.random(2)
	case "tryclose":
		// MQ.TryClose closes only an empty queue, and then releases everybody
		if g.kind != kMQ {
			g.random(8)
			return
		}
		k := rnd.Intn(4)
		g.park(k, true)
		if rnd.Intn(2) == 0 {
			g.adds(1+rnd.Intn(2), 0)
		}
		g.exec(cBatch{Lanes: [][]cOp{{{Op: lTryClear}}}}) // open (or not yet drained): false
		g.exec(cBatch{Lanes: [][]cOp{{{Op: lTryClose}}}})
		g.park(1, false)
		g.exec(cBatch{Lanes: [][]cOp{{{Op: lTryClose}, {Op: lTryClear}}}})
		g.random(2)
		g.exec(cBatch{Lanes: [][]cOp{{{Op: lTryClear}}}})
	}
}

// class backlog: b items queue up with NO consumer (ordinary adds, then one last add of the given kind), then k
// consumers arrive one after the other: each must return at once with its own item (variant parkedFirst: a few
// consumers are parked first and the adds come as one burst).  b runs over the sizes at which containers change shape.
var backlogSizes = []int{0, 1, 7, 8, 15, 16, 17, 31, 32, 33, 63, 64, 65, 127, 128, 129}

type backlogKind struct {
	op     int
	anyway bool
	name   string
}

func backlogKinds(kind int) []backlogKind {
	ks := []backlogKind{{lAdd, false, "add"}}
	if kind != kSync {
		ks = append(ks, backlogKind{lAddPrior, false, "prior"}, backlogKind{lAdd, true, "anyway"})
	}
	if kind == kMQ {
		ks = append(ks, backlogKind{lAddCtrl, false, "ctrl"}, backlogKind{lAddPriorCtrl, false, "priorctrl"}, backlogKind{lAddCtrl, true, "ctrlanyway"})
	}
	return ks
}

func runBacklog(e *vh.Env, typ string, b int, bk backlogKind, parkedFirst bool, kmax int) *condGen {
	k := b + 1
	if k > kmax {
		k = kmax
	}
	pre := 0
	if parkedFirst {
		pre = 1 + e.Rnd.Intn(4)
		if pre > k {
			pre = k
		}
	}
	g := newCondGen(e.Rnd, typ, 0, 0, k)
	launch1 := func() {
		if la, ok := g.launch(e.Rnd.Intn(2) == 0); ok {
			g.exec(cBatch{Launches: []cLaunch{la}})
		}
	}
	for i := 0; i < pre; i++ {
		launch1()
	}
	var burst []cOp
	for i := 0; i < b; i++ {
		burst = append(burst, cOp{Op: lAdd, X: g.nextItem})
		g.nextItem++
	}
	burst = append(burst, cOp{Op: bk.op, X: g.nextItem, Anyway: bk.anyway})
	g.nextItem++
	g.exec(cBatch{Lanes: [][]cOp{burst}})
	for i := pre; i < k && !g.run.res.stuck && !g.run.res.diverged; i++ {
		launch1()
	}
	return g
}

func emitCond(e *vh.Env, g *condGen, scen string) {
	r := g.run.finish()
	cfg := r.cfg
	cfg.NThr = g.maxThr
	rep, _ := json.Marshal(map[string]interface{}{"cond": g.run.sc})
	e.Emit(vh.Case{
		Coq:        cCoqCase(cfg, r.events),
		Desc:       condDesc(g.run.sc, r),
		Class:      g.typ + "/" + scen,
		Nontrivial: r.everParked,
		Replay:     string(rep),
	})
}

func condReqMax(rnd *rand.Rand, scen string) int {
	if scen == "bound" || scen == "anyway-full" || scen == "anyway-drain-park" {
		return 1 + rnd.Intn(3)
	}
	return []int{0, 0, 0, 1, 2, 3}[rnd.Intn(6)]
}

// ---------------- PriQueue: generators ----------------

type priGen struct {
	rnd      *rand.Rand
	run      *priRun
	nextItem int64
	nextTid  int
	maxThr   int
	lastObs  *pObs
	virtIdle []int // virtual consumers that polled and found nothing (may poll again)
}

func newPriGen(rnd *rand.Rand, cap int64, maxThr int) *priGen {
	return &priGen{rnd: rnd, run: newPriRun(cap, maxThr), maxThr: maxThr, nextItem: 1}
}

func (g *priGen) exec(b pBatch) *pObs {
	if len(b.Launches) == 0 && len(b.Lanes) == 0 {
		return g.lastObs
	}
	g.lastObs = g.run.exec(b)
	// a virtual consumer whose poll failed stays idle
	for _, l := range b.Lanes {
		for _, op := range l {
			if op.Op == plTryRecv && !op.Out.B {
				g.virtIdle = append(g.virtIdle, op.T)
			}
		}
	}
	return g.lastObs
}

func (g *priGen) push() pOp {
	v := g.nextItem
	g.nextItem++
	return pOp{Op: plPushLocked, P: int64(g.rnd.Intn(3)), V: v}
}

func (g *priGen) newTid() (int, bool) {
	if g.nextTid >= g.maxThr {
		return 0, false
	}
	t := g.nextTid
	g.nextTid++
	return t, true
}

func (g *priGen) holding() []int {
	if g.lastObs == nil {
		return nil
	}
	return g.lastObs.Holding
}

func (g *priGen) tryRecvOp() (pOp, bool) {
	if len(g.virtIdle) > 0 && g.rnd.Intn(2) == 0 {
		t := g.virtIdle[0]
		g.virtIdle = g.virtIdle[1:]
		return pOp{Op: plTryRecv, T: t}, true
	}
	if t, ok := g.newTid(); ok {
		return pOp{Op: plTryRecv, T: t}, true
	}
	return pOp{}, false
}

func (g *priGen) randOp(used map[int]bool) (pOp, bool) {
	r := g.rnd.Intn(100)
	switch {
	case r < 45:
		return g.push(), true
	case r < 55:
		return pOp{Op: plPopDirect}, true
	case r < 70:
		return g.tryRecvOp()
	default:
		for _, t := range g.holding() {
			if !used[t] {
				used[t] = true
				return pOp{Op: plPopHeld, T: t}, true
			}
		}
		return g.push(), true
	}
}

func (g *priGen) random(n int) {
	for i := 0; i < n && !g.run.res.stuck; i++ {
		var b pBatch
		used := map[int]bool{}
		r := g.rnd.Intn(100)
		switch {
		case r < 4:
			// a call parked at the entry of its critical section (mutex held through the hook)
			if g.rnd.Intn(2) == 0 {
				g.heldBatch([]pOp{g.push()})
			} else {
				g.heldBatch([]pOp{g.push(), {Op: plPopDirect}})
			}
			continue
		case r < 22:
			if t, ok := g.newTid(); ok {
				b.Launches = []int{t}
			}
		case r < 27:
			for k := 0; k < 2; k++ {
				if t, ok := g.newTid(); ok {
					b.Launches = append(b.Launches, t)
				}
			}
		case r < 70:
			if op, ok := g.randOp(used); ok {
				b.Lanes = [][]pOp{{op}}
			}
		case r < 82:
			var l []pOp
			for k := 0; k < 2+g.rnd.Intn(2); k++ {
				if op, ok := g.randOp(used); ok {
					l = append(l, op)
				}
			}
			if len(l) > 0 {
				b.Lanes = [][]pOp{l}
			}
		default:
			var l1, l2 []pOp
			for k := 0; k < 1+g.rnd.Intn(2); k++ {
				if op, ok := g.randOp(used); ok {
					l1 = append(l1, op)
				}
			}
			for k := 0; k < 1+g.rnd.Intn(2); k++ {
				if op, ok := g.randOp(used); ok {
					l2 = append(l2, op)
				}
			}
			if len(l1) > 0 && len(l2) > 0 {
				b.Lanes = [][]pOp{l1, l2}
			} else if len(l1)+len(l2) > 0 {
				b.Lanes = [][]pOp{append(l1, l2...)}
			}
			if g.rnd.Intn(3) == 0 {
				if t, ok := g.newTid(); ok {
					b.Launches = []int{t}
				}
			}
		}
		g.exec(b)
	}
}

// the queue's mutex is held while the calls start and park at their critical section; see pBatch.Held
func (g *priGen) heldBatch(ops []pOp) {
	tid := -1
	if len(g.virtIdle) > 0 {
		tid = g.virtIdle[0]
		g.virtIdle = g.virtIdle[1:]
	} else if t, ok := g.newTid(); ok {
		tid = t
	}
	var lanes [][]pOp
	for _, op := range ops {
		lanes = append(lanes, []pOp{op})
	}
	g.exec(pBatch{Held: true, HeldTid: tid, Lanes: lanes})
	if tid >= 0 {
		if c := g.run.consumers[tid]; c != nil && !c.holding && !c.ret {
			g.virtIdle = append(g.virtIdle, tid)
		}
	}
}

// let every holding consumer pop, one after the other, until nobody holds a token
func (g *priGen) drainHolders(max int) {
	for i := 0; i < max && len(g.holding()) > 0 && !g.run.res.stuck; i++ {
		g.exec(pBatch{Lanes: [][]pOp{{{Op: plPopHeld, T: g.holding()[0]}}}})
	}
}

var priScenarios = []string{"random", "resignal", "park-push", "collapse", "full", "push-parked", "push-parked"}

func (g *priGen) scenario(name string) {
	rnd := g.rnd
	switch name {
	case "random":
		g.random(8 + rnd.Intn(10))
	case "resignal":
		// two pushes collapse into one token; the consumer's Pop must re-signal for the item left behind
		m := 2 + rnd.Intn(3)
		var l []pOp
		for i := 0; i < m; i++ {
			l = append(l, g.push())
		}
		if rnd.Intn(2) == 0 {
			g.exec(pBatch{Lanes: [][]pOp{l}})
		} else {
			for _, op := range l {
				g.exec(pBatch{Lanes: [][]pOp{{op}}})
			}
		}
		for i := 0; i < m+1; i++ {
			if rnd.Intn(2) == 0 {
				if t, ok := g.newTid(); ok {
					g.exec(pBatch{Launches: []int{t}})
				}
			} else if op, ok := g.tryRecvOp(); ok {
				g.exec(pBatch{Lanes: [][]pOp{{op}}})
			}
			g.drainHolders(2)
		}
	case "park-push":
		// k consumers parked on the channel, m pushes (burst / concurrent), then every token holder pops
		k := 1 + rnd.Intn(4)
		var b pBatch
		for i := 0; i < k; i++ {
			if t, ok := g.newTid(); ok {
				b.Launches = append(b.Launches, t)
			}
		}
		g.exec(b)
		m := 1 + rnd.Intn(4)
		var l1, l2 []pOp
		for i := 0; i < m; i++ {
			if i%2 == 0 || rnd.Intn(2) == 0 {
				l1 = append(l1, g.push())
			} else {
				l2 = append(l2, g.push())
			}
		}
		if len(l2) > 0 {
			g.exec(pBatch{Lanes: [][]pOp{l1, l2}})
		} else {
			g.exec(pBatch{Lanes: [][]pOp{l1}})
		}
		g.drainHolders(k + m + 1)
		g.random(3)
	case "collapse":
		// a token is already buffered when more pushes arrive; direct pops interleave
		g.exec(pBatch{Lanes: [][]pOp{{g.push(), g.push()}}})
		if op, ok := g.tryRecvOp(); ok {
			g.exec(pBatch{Lanes: [][]pOp{{op}}})
		}
		g.exec(pBatch{Lanes: [][]pOp{{g.push()}, {{Op: plPopDirect}}}})
		g.drainHolders(3)
		g.random(4)
	case "push-parked":
		// a Push (or a Pop) is parked at the entry of its critical section: nothing of it may be visible yet - in
		// particular no token; a consumer that finds one pops at once
		if rnd.Intn(3) == 0 {
			g.random(1 + rnd.Intn(3))
		}
		switch rnd.Intn(4) {
		case 0, 1:
			g.heldBatch([]pOp{g.push()})
		case 2:
			g.heldBatch([]pOp{g.push(), {Op: plPopDirect}})
		default:
			g.exec(pBatch{Lanes: [][]pOp{{g.push()}}})
			g.heldBatch([]pOp{{Op: plPopDirect}, g.push()})
		}
		g.drainHolders(3)
		if rnd.Intn(2) == 0 {
			if t, ok := g.newTid(); ok {
				g.exec(pBatch{Launches: []int{t}})
			}
		} else if op, ok := g.tryRecvOp(); ok {
			g.exec(pBatch{Lanes: [][]pOp{{op}}})
		}
		g.drainHolders(3)
		g.random(2)
	case "full":
		// a refused push does not signal
		c := int(g.run.sc.Cap)
		var l []pOp
		for i := 0; i < c+1+rnd.Intn(2); i++ {
			l = append(l, g.push())
		}
		g.exec(pBatch{Lanes: [][]pOp{l}})
		g.random(5)
	}
}

func emitPri(e *vh.Env, g *priGen, scen string) {
	r := g.run.finish()
	rep, _ := json.Marshal(map[string]interface{}{"pri": g.run.sc})
	e.Emit(vh.Case{
		Coq:        pCoqCase(g.run.sc.Cap, g.maxThr, r.events),
		Desc:       priDesc(g.run.sc, r),
		Class:      "priq.PriQueue/" + scen,
		Nontrivial: r.everHeld || r.everPark,
		Replay:     string(rep),
	})
}

// ---------------- replay ----------------

func replay(e *vh.Env) {
	var obj struct {
		Cond *cSchedule `json:"cond"`
		Pri  *pSchedule `json:"pri"`
	}
	if err := json.Unmarshal([]byte(e.Replay), &obj); err != nil {
		panic("c13 -replay: " + err.Error())
	}
	if obj.Cond != nil {
		sc := obj.Cond
		g := newCondGen(e.Rnd, sc.Typ, sc.ReqMax, sc.CtrlMax, sc.NThr)
		for _, b := range sc.Batches {
			g.exec(b)
			if g.run.res.stuck {
				break
			}
		}
		emitCond(e, g, "replay")
	}
	if obj.Pri != nil {
		sc := obj.Pri
		g := newPriGen(e.Rnd, sc.Cap, sc.NThr)
		for _, b := range sc.Batches {
			g.exec(b)
			if g.run.res.stuck {
				break
			}
		}
		emitPri(e, g, "replay")
	}
}

// ---------------- exhaustive small programs (thorough tier) ----------------

// every sequence of n single-call batches over the type's alphabet
func condEnumerate(e *vh.Env, typ string, n int) int {
	kind := condKind(typ)
	// 0 pop, 1 popAnyway, 2 add, 3 addPrior / addCtrl / tryPop, 4 close
	alpha := 5
	total := 1
	for i := 0; i < n; i++ {
		total *= alpha
	}
	count := 0
	for code := 0; code < total; code++ {
		c := code
		slots := n
		if kind == kSync {
			slots = 2 * n
		}
		g := newCondGen(e.Rnd, typ, 0, 0, slots)
		for i := 0; i < n; i++ {
			a := c % alpha
			c /= alpha
			switch a {
			case 0, 1:
				if kind == kSync && a == 1 {
					// SyncQueue has one Pop: use the slot for two consumers at once
					var b cBatch
					for k := 0; k < 2; k++ {
						if la, ok := g.launch(true); ok {
							b.Launches = append(b.Launches, la)
						}
					}
					g.exec(b)
				} else if la, ok := g.launch(a == 1); ok {
					g.exec(cBatch{Launches: []cLaunch{la}})
				}
			case 2:
				g.exec(cBatch{Lanes: [][]cOp{{{Op: lAdd, X: g.item()}}}})
			case 3:
				switch kind {
				case kSync:
					g.exec(cBatch{Lanes: [][]cOp{{{Op: lTryPop}}}})
				case kMQ:
					g.exec(cBatch{Lanes: [][]cOp{{{Op: lAddCtrl, X: g.item()}}}})
				default:
					g.exec(cBatch{Lanes: [][]cOp{{{Op: lAddPrior, X: g.item()}}}})
				}
			case 4:
				g.exec(cBatch{Lanes: [][]cOp{{{Op: lClose}}}})
			}
		}
		emitCond(e, g, fmt.Sprintf("enum%d", n))
		count++
	}
	return count
}

func main() {
	vh.Main("c13", func(e *vh.Env) {
		if e.Replay != "" {
			replay(e)
			return
		}
		perType := e.Scale(200, 2000)
		types := append([]string{}, condTypes...)
		types = append(types, "priq.PriQueue")
		if e.Search && e.Focus != "" {
			// concentrate on the type whose class diverged
			ft := strings.SplitN(e.Focus, "/", 2)[0]
			types = []string{ft}
			perType *= 2
		}
		hist := map[string]int{}
		stuckCases := 0
		// the schedule classes stop after a bounded time even when the implementation is broken (every stuck call costs
		// a 10 s bound); thorough runs are not cut
		genDeadline := time.Now().Add(60 * time.Second)
		if e.Search {
			genDeadline = time.Now().Add(90 * time.Second)
		} else if e.Thorough {
			genDeadline = time.Now().Add(24 * time.Hour)
		}
		// once the implementation has left the model on many schedules the verdict is settled; consumers a broken
		// queue never releases stay parked for the life of the process, so the run is cut short
		diverged := 0
		const maxDiverged = 24
		for _, typ := range types {
			for i := 0; i < perType && stuckCases < 2 && diverged < maxDiverged && time.Now().Before(genDeadline); i++ {
				if typ == "priq.PriQueue" {
					scen := priScenarios[0]
					if i%2 == 1 {
						scen = priScenarios[1+e.Rnd.Intn(len(priScenarios)-1)]
					}
					cap := []int64{1, 2, 2, 3, 3, 5, 8}[e.Rnd.Intn(7)]
					if e.Rnd.Intn(40) == 0 {
						cap = 0
					}
					g := newPriGen(e.Rnd, cap, 8)
					g.scenario(scen)
					if g.run.res.stuck {
						stuckCases++
					}
					// (PriQueue consumers are always released at the end of a schedule: no cut needed)
					hist[fmt.Sprintf("priq maxparked=%d", g.run.res.maxParked)]++
					emitPri(e, g, scen)
					continue
				}
				scen := condScenarios[0]
				if i%2 == 1 {
					scen = condScenarios[1+e.Rnd.Intn(len(condScenarios)-1)]
				}
				ctrlmax := 0
				if typ == "mq.MQ" {
					ctrlmax = []int{0, 0, 1, 2}[e.Rnd.Intn(4)]
				}
				g := newCondGen(e.Rnd, typ, condReqMax(e.Rnd, scen), ctrlmax, 8)
				g.scenario(scen)
				if g.run.res.stuck {
					stuckCases++
				}
				if g.run.res.diverged {
					diverged++
				}
				hist[fmt.Sprintf("cond maxparked=%d", g.run.res.maxParked)]++
				emitCond(e, g, scen)
			}
		}
		for _, typ := range types {
			if typ == "priq.PriQueue" || stuckCases >= 2 || diverged >= maxDiverged {
				continue
			}
			kinds := backlogKinds(condKind(typ))
			for _, b := range backlogSizes {
				for ki, bk := range kinds {
					for _, parkedFirst := range []bool{false, true} {
						// quick tier: one kind and one variant per size (rotating); thorough: all of them
						// quick tier: every kind at every size, one of the two variants (alternating); thorough: both
						if !(e.Thorough || e.Search) && parkedFirst != ((b+ki+int(e.Seed))%3 == 0) {
							continue
						}
						if stuckCases >= 2 || diverged >= maxDiverged || !time.Now().Before(genDeadline) {
							continue
						}
						kmax := 6
						if e.Rnd.Intn(12) == 0 {
							kmax = 40
						}
						g := runBacklog(e, typ, b, bk, parkedFirst, kmax)
						if g.run.res.stuck {
							stuckCases++
						}
						if g.run.res.diverged {
							diverged++
						}
						emitCond(e, g, "backlog-"+bk.name)
					}
				}
			}
		}
		if stuckCases == 0 {
			runStress(e, types)
		}
		if stuckCases == 0 {
			runRaces(e, types)
		}
		if e.Thorough && !e.Search && stuckCases == 0 && diverged == 0 {
			n := 0
			for _, typ := range condTypes {
				if e.Search && e.Focus != "" && !strings.HasPrefix(e.Focus, typ+"/") {
					continue
				}
				for l := 1; l <= 5; l++ {
					n += condEnumerate(e, typ, l)
				}
			}
			e.Meta["enumerated"] = n
			e.Meta["enumeration"] = "every sequence of 1..5 single-call batches over {Pop, PopAnyway (SyncQueue: two consumers at once), Add, AddPrior (MQ: AddCtrl; SyncQueue: TryPop), Close} for each condition-variable queue type"
		}
		e.Meta["max_parked_histogram"] = hist
		e.Meta["stuck_cases"] = stuckCases
		e.Meta["schedules_without_model_witness"] = diverged
	})
}
