package main

import (
	"context"
	"fmt"
	"math"
	"math/rand"
	"runtime"
	"strings"
	"time"

	"github.com/pinealctx/neptune/cache"
	"github.com/pinealctx/neptune/cache/tiny"
	"github.com/pinealctx/neptune/remap"
	"github.com/pinealctx/neptune/syncx/keylock"
	"github.com/pinealctx/neptune/syncx/semap"
	"verifharness/vh"
)

// value stored in cache.LRUCache
type lval struct{ v, sz int }

func (l lval) Size() int { return l.sz }

func guard(f func() string) (res string) {
	defer func() {
		if recover() != nil {
			res = "RPanic"
		}
	}()
	return f()
}

// timed runs f in its own goroutine; the bound can expire only if a call that must return at once hangs
func timed(f func()) (status string) {
	done := make(chan string, 1)
	go func() {
		defer func() {
			if recover() != nil {
				done <- "panic"
			}
		}()
		f()
		done <- "ok"
	}()
	select {
	case s := <-done:
		return s
	case <-time.After(10 * time.Second):
		return "hang"
	}
}

type pkey struct {
	gkey
	hk string // position in the key table, as a Coq nat
}

// the keys of the history being generated, listed once; operations name them by position
var keyTable []string

func mkPKey(k gkey) pkey {
	h, _ := safeHash(k.v)
	keyTable = append(keyTable, "HK ("+k.coq+") "+zu(h))
	return pkey{k, fmt.Sprintf("%d%%nat", len(keyTable)-1)}
}

// a small pool of distinct hashable keys of mixed types, so that operations meet on keys and keys meet on shards
func genPool(r *rand.Rand, xh bool, n uint64, size int, only int) []pkey {
	var pool []pkey
	seen := map[string]bool{}
	for tries := 0; len(pool) < size && tries < 200; tries++ {
		var k gkey
		cls := only
		if only < 0 {
			switch x := r.Intn(10); {
			case x < 6:
				cls = kcInt
			case x < 7:
				cls = kcStr
			case x < 8:
				cls = kcBs
			case x < 9:
				cls = kcHitBs
			default:
				if xh {
					cls = kcStr
				} else if r.Intn(2) == 0 {
					cls = kcHit
				} else {
					cls = kcHitInt
				}
			}
		}
		if only >= 100 {
			// one fixed integer type (generic lockers)
			k = intKey(only-100, pickU64(r, n))
		} else if cls == kcInt && only < 0 && len(pool) > 0 && r.Intn(4) == 0 {
			// the same number under another integer type: a different key that meets the first one's shard
			k = intKey(r.Intn(10), uint64(r.Intn(100)))
		} else {
			k = genKey(r, cls, n)
		}
		if !k.hashable || seen[k.coq] {
			continue
		}
		seen[k.coq] = true
		pool = append(pool, mkPKey(k))
	}
	return pool
}

type contCfg struct {
	xh    bool
	n     uint64 // shard count the container ends up with
	ropts []remap.Option
	deflt bool // no option given: DefaultPrime
}

func genCfg(r *rand.Rand) contCfg {
	c := contCfg{xh: r.Intn(2) == 0}
	if r.Intn(10) == 0 {
		c.deflt = true
		c.n = remap.DefaultPrime
		return c
	}
	c.n = pickShards(r, true)
	c.ropts = []remap.Option{remap.WithPrime(c.n)}
	return c
}

func obsTerm(op string, i int, iok bool, sh, ref, un string) string {
	return fmt.Sprintf("Ob (%s) %s %s %s %s", op, optZ(i, iok), sh, ref, un)
}

func sortInts(a []int) {
	for i := 1; i < len(a); i++ {
		for j := i; j > 0 && a[j] < a[j-1]; j-- {
			a[j], a[j-1] = a[j-1], a[j]
		}
	}
}

func isBad(s string) bool { return s == "RPanic" || strings.HasSuffix(s, "false false)") || s == "RInvalid" }

func genCont(r *rand.Rand, label string, thorough bool) vh.Case {
	keyTable = nil
	cfg := genCfg(r)
	// round-8 classes (emitted after all the others, from fixed sub-seeds): the same containers with unusual arguments
	//   nilmap   map histories in which about half of the Sets store a nil value (written -1 in the Coq term)
	//   maxlru / maxtiny   LRUs built with the "no limit" capacities MaxInt64 - d, d in {0, 1, n-1, n, n+1}, any shard count (a third on ONE shard)
	kind, nilVals, maxCap := label, false, false
	switch label {
	case "nilmap":
		kind, nilVals = "map", true
	case "maxlru":
		kind, maxCap = "lru", true
	case "maxtiny":
		kind, maxCap = "tiny", true
	}
	if maxCap && r.Intn(3) == 0 {
		// one shard: capacity/1 + 1 leaves int64 for MaxInt64; since /repo's fix a2abdb2 the per-shard capacity saturates
		// at MaxInt64 (before it, it wrapped to MinInt64 and the first Set panicked: KNOWN_FINDINGS, defect 22); the model's
		// per-shard capacity is the unbounded integer, which no history can tell from MaxInt64
		cfg.n = 1
		cfg.deflt = false
		cfg.ropts = []remap.Option{remap.WithPrime(cfg.n)}
	}
	// half of the LRU histories: few shards, a per-shard capacity of 2..4 entries, unit sizes, many keys per shard, so
	// that which entry is the least recently used one decides the answers that follow
	pressure := !maxCap && (kind == "lru" || kind == "tiny") && r.Intn(2) == 0
	if pressure {
		cfg.deflt = false
		cfg.n = uint64(1 + r.Intn(3))
		cfg.ropts = []remap.Option{remap.WithPrime(cfg.n)}
	}
	rm := remap.NewReMap(cfg.ropts...)
	steps := 12 + r.Intn(40)
	var obs, descs []string
	var kindTerm string
	desc := map[string]interface{}{"kind": label, "xhash": cfg.xh, "shards": cfg.n, "default_prime": cfg.deflt}
	emit := func(opCoq, opDesc string, k pkey, sh, ref, un string) bool {
		i, iok := safeIndex(rm, cfg.xh, k.v)
		obs = append(obs, obsTerm(opCoq, i, iok, sh, ref, un))
		descs = append(descs, fmt.Sprintf("%s -> idx=%s sharded=%s ref=%s single=%s", opDesc, showIdx(i, iok), sh, ref, un))
		return !(isBad(sh) || isBad(ref) || isBad(un))
	}
	switch kind {
	case "map":
		kindTerm = "KMap"
		desc["nil_values"] = nilVals
		runMap(r, cfg, steps, nilVals, emit)
	case "lru", "tiny":
		capacity := int64(0)
		if maxCap {
			capacity = math.MaxInt64 - []int64{0, 0, 1, int64(cfg.n) - 1, int64(cfg.n), int64(cfg.n) + 1}[r.Intn(6)]
		} else {
			capacity = pickCap(r, cfg.n)
		}
		if pressure {
			capacity = int64(1+r.Intn(3))*int64(cfg.n) + int64(r.Intn(int(cfg.n)))
		}
		desc["pressure"] = pressure
		kindTerm = fmt.Sprintf("(KLru %s %s)", vh.CoqBool(kind == "tiny"), z(capacity))
		desc["capacity"] = capacity
		runLRU(r, cfg, rm, kind == "tiny", capacity, pressure, steps, emit)
	case "lock":
		kindTerm = "KLock"
		runLock(r, cfg, steps, emit)
	case "tlock":
		kindTerm = "KLock"
		switch r.Intn(4) {
		case 0:
			desc["T"] = "int64"
			runTLock[int64](r, cfg, steps, genPool(r, cfg.xh, cfg.n, 4+r.Intn(6), 106), emit)
		case 1:
			desc["T"] = "string"
			runTLock[string](r, cfg, steps, genPool(r, cfg.xh, cfg.n, 4+r.Intn(6), kcStr), emit)
		case 2:
			desc["T"] = "uint16"
			runTLock[uint16](r, cfg, steps, genPool(r, cfg.xh, cfg.n, 4+r.Intn(6), 103), emit)
		default:
			desc["T"] = "hitBsKey"
			runTLock[hitBsKey](r, cfg, steps, genPool(r, cfg.xh, cfg.n, 4+r.Intn(6), kcHitBs), emit)
		}
	case "sem":
		ratio := []int{1, 2, 3, 10}[r.Intn(4)]
		kindTerm = fmt.Sprintf("(KSem %s)", z(int64(ratio)))
		desc["rwRatio"] = ratio
		runSem(r, cfg, ratio, steps, emit)
	}
	desc["history"] = descs
	cls := label + "-s"
	if cfg.xh {
		cls = label + "-x"
	}
	return vh.Case{Coq: fmt.Sprintf("CCont %s %s %s %s %s", kindTerm, vh.CoqBool(cfg.xh), zu(cfg.n), vh.CoqList(keyTable), vh.CoqList(obs)),
		Class: cls, Nontrivial: len(obs) > 0 && cfg.n >= 2, Desc: desc}
}

type emitFn func(opCoq, opDesc string, k pkey, sh, ref, un string) bool

// ---- cache.WideMap vs cache.Map ----

func runMap(r *rand.Rand, cfg contCfg, steps int, nilVals bool, emit emitFn) {
	var sh cache.MapFacade
	if cfg.xh {
		sh = cache.NewWideXHashMap(cfg.ropts...)
	} else {
		sh = cache.NewWideMap(cfg.ropts...)
	}
	un := cache.NewSingleMap()
	pool := genPool(r, cfg.xh, cfg.n, 3+r.Intn(7), -1)
	if r.Intn(4) == 0 {
		// keys whose bytes are adjacent windows of one caller-owned arena (Bs implementers)
		pool = arenaPool(r, 3+r.Intn(6))
	}
	do := func(m cache.MapFacade, op int, k pkey, v int) string {
		switch op {
		case 0:
			x, ok := m.Get(k.v)
			if !ok {
				return "RNone"
			}
			if x == nil { // a key stored with a nil value is present: written as the value -1
				return "(RSome " + z(-1) + ")"
			}
			return "(RSome " + z(int64(x.(int))) + ")"
		case 1:
			if v < 0 {
				m.Set(k.v, nil)
			} else {
				m.Set(k.v, v)
			}
			return "RUnit"
		case 2:
			m.Delete(k.v)
			return "RUnit"
		default:
			return "(RBool " + vh.CoqBool(m.Exist(k.v)) + ")"
		}
	}
	for s := 0; s < steps; s++ {
		k := pool[r.Intn(len(pool))]
		op := []int{0, 0, 1, 1, 1, 2, 3}[r.Intn(7)]
		v := r.Intn(50)
		if nilVals {
			op = []int{0, 0, 1, 1, 1, 2, 3, 3, 3}[r.Intn(9)]
			if r.Intn(2) == 0 {
				v = -1
			}
		}
		var opCoq, opDesc string
		switch op {
		case 0:
			opCoq, opDesc = "OGet "+k.hk, "Get "+k.desc
		case 1:
			opCoq, opDesc = fmt.Sprintf("OSet %s %s 1%%Z", k.hk, z(int64(v))), fmt.Sprintf("Set %s %d", k.desc, v)
			if v < 0 {
				opDesc = fmt.Sprintf("Set %s nil", k.desc)
			}
		case 2:
			opCoq, opDesc = "ODelete "+k.hk, "Delete "+k.desc
		default:
			opCoq, opDesc = "OExist "+k.hk, "Exist "+k.desc
		}
		a := guard(func() string { return do(sh, op, k, v) })
		b := guard(func() string { return do(un, op, k, v) })
		if !emit(opCoq, opDesc, k, a, b, b) {
			return
		}
	}
}

// ---- the LRUs ----

func pickCap(r *rand.Rand, n uint64) int64 {
	switch x := r.Intn(20); {
	case x < 8: // a few entries per shard: evictions happen
		return int64(r.Intn(int(2*n) + 4))
	case x < 13:
		return int64(n)*int64(1+r.Intn(4)) + int64(r.Intn(3)) - 1
	case x < 19: // nothing is ever evicted
		return 1000000
	default: // negative: the first Set finds the list empty while size > capacity
		return -1 - int64(r.Intn(3*int(n)+3))
	}
}

type lruLike interface {
	get(k interface{}) (int, bool)
	peek(k interface{}) (int, bool)
	exist(k interface{}) bool
	set(k interface{}, v, sz int)
	del(k interface{}) bool
}
type bigLRU struct{ c cache.LRUFacade }

func (l bigLRU) get(k interface{}) (int, bool) {
	v, ok := l.c.Get(k)
	if !ok {
		return 0, false
	}
	return v.(lval).v, true
}
func (l bigLRU) peek(k interface{}) (int, bool) {
	v, ok := l.c.Peek(k)
	if !ok {
		return 0, false
	}
	return v.(lval).v, true
}
func (l bigLRU) exist(k interface{}) bool     { return l.c.Exist(k) }
func (l bigLRU) set(k interface{}, v, sz int) { l.c.Set(k, lval{v, sz}) }
func (l bigLRU) del(k interface{}) bool       { return l.c.Delete(k) }

type tinyLRU struct{ c tiny.LRU }

func (l tinyLRU) get(k interface{}) (int, bool) {
	v, ok := l.c.Get(k)
	if !ok {
		return 0, false
	}
	return v.(int), true
}
func (l tinyLRU) peek(k interface{}) (int, bool) {
	v, ok := l.c.Peek(k)
	if !ok {
		return 0, false
	}
	return v.(int), true
}
func (l tinyLRU) exist(k interface{}) bool     { return l.c.Exist(k) }
func (l tinyLRU) set(k interface{}, v, sz int) { l.c.Set(k, v) }
func (l tinyLRU) del(k interface{}) bool       { return l.c.Delete(k) }

func runLRU(r *rand.Rand, cfg contCfg, rm *remap.ReMap, isTiny bool, capacity int64, pressure bool, steps int, emit emitFn) {
	var sh, un lruLike
	single := func(c int64) lruLike {
		if isTiny {
			return tinyLRU{tiny.NewSingleLRUCache(c)}
		}
		return bigLRU{cache.NewSingleLRUCache(c)}
	}
	switch {
	case isTiny && cfg.xh:
		sh = tinyLRU{tiny.NewWideXHashLRU(capacity, cfg.ropts...)}
	case isTiny:
		sh = tinyLRU{tiny.NeWideLRU(capacity, cfg.ropts...)}
	case cfg.xh:
		sh = bigLRU{cache.NewWideXHashLRUCache(capacity, cfg.ropts...)}
	default:
		sh = bigLRU{cache.NeWideLRUCache(capacity, cfg.ropts...)}
	}
	un = single(capacity)
	pSize := capacity / int64(cfg.n) // "capacity applied per shard": capacity/n + 1 as an integer, not as a wrapped int64
	if pSize < math.MaxInt64 {
		pSize++
	}
	refs := map[int]lruLike{}
	pool := genPool(r, cfg.xh, cfg.n, 3+r.Intn(8), -1)
	if pressure {
		pool = nil
		seen := map[string]bool{}
		for want := 4 + r.Intn(5); len(pool) < want; {
			k := intKey(r.Intn(10), uint64(r.Intn(16)))
			if !seen[k.coq] {
				seen[k.coq] = true
				pool = append(pool, mkPKey(k))
			}
		}
	}
	do := func(l lruLike, op int, k pkey, v, sz int) string {
		switch op {
		case 0:
			x, ok := l.get(k.v)
			if !ok {
				return "RNone"
			}
			return "(RSome " + z(int64(x)) + ")"
		case 1:
			x, ok := l.peek(k.v)
			if !ok {
				return "RNone"
			}
			return "(RSome " + z(int64(x)) + ")"
		case 2:
			return "(RBool " + vh.CoqBool(l.exist(k.v)) + ")"
		case 3:
			l.set(k.v, v, sz)
			return "RUnit"
		default:
			return "(RBool " + vh.CoqBool(l.del(k.v)) + ")"
		}
	}
	// pool indices in the order of their last Set / Get (oldest first): the harness' own guess of who is next to go
	var recent []int
	touch := func(i int, keep bool) {
		for j, x := range recent {
			if x == i {
				recent = append(recent[:j], recent[j+1:]...)
				break
			}
		}
		if keep {
			recent = append(recent, i)
		}
	}
	var script [][2]int // queued (operation, pool index): read the oldest entry, add another key, ask for the oldest again
	// eviction block on one shard: empty it, fill it to its capacity with unit sizes, touch the LEAST recently used
	// entry with Exist / Peek / Get, insert one more key of the same shard, then ask for the two candidates
	byShard := map[int][]int{}
	evictBlock := func() [][2]int { return nil }
	if pressure {
		steps += 18
		need := int(pSize) + 1
		full := -1
		for tries := 0; tries < 400 && full < 0; tries++ {
			byShard = map[int][]int{}
			for i, k := range pool {
				if t, ok := safeIndex(rm, cfg.xh, k.v); ok {
					byShard[t] = append(byShard[t], i)
					if len(byShard[t]) >= need {
						full = t
					}
				}
			}
			if full < 0 {
				k := intKey(r.Intn(10), uint64(16+tries))
				pool = append(pool, mkPKey(k))
			}
		}
		if full >= 0 && pSize >= 2 {
			evictBlock = func() [][2]int {
				var shards []int
				for t, l := range byShard {
					if len(l) >= need {
						shards = append(shards, t)
					}
				}
				sortInts(shards)
				ks := append([]int(nil), byShard[shards[r.Intn(len(shards))]]...)
				r.Shuffle(len(ks), func(a, b int) { ks[a], ks[b] = ks[b], ks[a] })
				var sc [][2]int
				for _, k := range ks {
					sc = append(sc, [2]int{4, k})
				}
				for i := 0; i < int(pSize); i++ {
					sc = append(sc, [2]int{3, ks[i]})
				}
				sc = append(sc, [2]int{[]int{2, 2, 2, 1, 0}[r.Intn(5)], ks[0]}, [2]int{3, ks[int(pSize)]})
				for _, k := range []int{ks[0], ks[1]} {
					sc = append(sc, [2]int{[]int{1, 2}[r.Intn(2)], k})
				}
				return append(sc, [2]int{2, ks[0]}, [2]int{2, ks[1]})
			}
			script = evictBlock()
		}
	}
	for s := 0; s < steps; s++ {
		ki := r.Intn(len(pool))
		op := []int{0, 0, 1, 2, 3, 3, 3, 3, 4}[r.Intn(9)]
		v := r.Intn(50)
		sz := []int{1, 1, 1, 0, 2, 3, 5}[r.Intn(7)]
		if pressure {
			op = []int{0, 0, 1, 1, 1, 2, 3, 3, 3, 3, 3, 4}[r.Intn(12)]
			sz = []int{1, 1, 1, 1, 1, 2}[r.Intn(6)]
			if len(script) == 0 && r.Intn(8) == 0 {
				script = evictBlock()
			}
			if len(script) == 0 && len(recent) >= 2 && r.Intn(4) == 0 {
				old := recent[r.Intn((len(recent)+1)/2)]
				script = [][2]int{{[]int{0, 1, 1, 2}[r.Intn(4)], old}, {3, r.Intn(len(pool))}, {[]int{1, 2}[r.Intn(2)], old}}
			}
			if len(script) > 0 {
				op, ki = script[0][0], script[0][1]
				script = script[1:]
				if op == 3 {
					sz = 1
				}
			}
		}
		k := pool[ki]
		switch op {
		case 0, 3:
			touch(ki, true)
		case 4:
			touch(ki, false)
		}
		var opCoq, opDesc string
		switch op {
		case 0:
			opCoq, opDesc = "OGet "+k.hk, "Get "+k.desc
		case 1:
			opCoq, opDesc = "OPeek "+k.hk, "Peek "+k.desc
		case 2:
			opCoq, opDesc = "OExist "+k.hk, "Exist "+k.desc
		case 3:
			opCoq, opDesc = fmt.Sprintf("OSet %s %s %s", k.hk, z(int64(v)), z(int64(sz))), fmt.Sprintf("Set %s %d (size %d)", k.desc, v, sz)
		default:
			opCoq, opDesc = "ODelete "+k.hk, "Delete "+k.desc
		}
		a := guard(func() string { return do(sh, op, k, v, sz) })
		// reference: one single cache of the per-shard capacity per shard index, fed the operations routed there
		b := "RPanic"
		if i, ok := safeIndex(rm, cfg.xh, k.v); ok {
			ref := refs[i]
			if ref == nil {
				ref = single(pSize)
				refs[i] = ref
			}
			b = guard(func() string { return do(ref, op, k, v, sz) })
		}
		c := guard(func() string { return do(un, op, k, v, sz) })
		if !emit(opCoq, opDesc, k, a, b, c) {
			return
		}
	}
}

// ---- key lockers (uncontended sequential histories; the verif hooks read the per-key reference counts) ----

type cnt struct{ r, w int }

func cntTerm(r, w int, present bool, granted bool) string {
	return fmt.Sprintf("(RCnt %s %s %s %s)", z(int64(r)), z(int64(w)), vh.CoqBool(present), vh.CoqBool(granted))
}

// chooses an operation that returns at once: Lock on a free key, RLock without writer, unlocks of what is held
func pickLockOp(r *rand.Rand, c cnt) int {
	var legal []int
	if c.r == 0 && c.w == 0 {
		legal = append(legal, 0, 0)
	}
	if c.w == 0 {
		legal = append(legal, 2, 2)
	}
	if c.w == 1 {
		legal = append(legal, 1, 1, 1)
	}
	if c.r > 0 {
		legal = append(legal, 3, 3)
	}
	return legal[r.Intn(len(legal))]
}

var lockOpNames = []string{"OLock", "OUnlock", "ORLock", "ORUnlock"}

// a call that is expected to block: issued in its own goroutine; the observation is positive either way -
// "returned" (the goroutine signalled) or "registered in the key's entry and still not returned after the
// scheduler was yielded to repeatedly".  On a correct tree a blocked call can never be seen as returned.
func observeBlocking(done chan string, registered func() bool) string {
	deadline := time.Now().Add(10 * time.Second)
	for time.Now().Before(deadline) {
		select {
		case s := <-done:
			return s
		default:
		}
		if registered() {
			for i := 0; i < 300; i++ {
				runtime.Gosched()
				select {
				case s := <-done:
					return s
				default:
				}
			}
			return "blocked"
		}
		runtime.Gosched()
	}
	return "hang"
}

func spawn(f func()) chan string {
	done := make(chan string, 1)
	go func() {
		defer func() {
			if recover() != nil {
				done <- "panic"
			}
		}()
		f()
		done <- "ok"
	}()
	return done
}

func runLock(r *rand.Rand, cfg contCfg, steps int, emit emitFn) {
	var sh keylock.Locker
	if cfg.xh {
		sh = keylock.NewXHashKeyLockeGrp(cfg.ropts...)
	} else {
		sh = keylock.NewKeyLockeGrp(cfg.ropts...)
	}
	un := keylock.NewKeyLocker()
	ls := []keylock.Locker{sh, un}
	pool := genPool(r, cfg.xh, cfg.n, 3+r.Intn(6), -1)
	state := make([]cnt, len(pool)) // locks held (granted), per key
	contended := r.Intn(2) == 0
	// at most one call is parked at any time: pend.op on pool[pend.ki], one goroutine per container
	type pending struct {
		ki, op int
		done   [2]chan string
	}
	var pend *pending
	call := func(l keylock.Locker, op int, k pkey) {
		switch op {
		case 0:
			l.Lock(k.v)
		case 1:
			l.Unlock(k.v)
		case 2:
			l.RLock(k.v)
		default:
			l.RUnlock(k.v)
		}
	}
	counts := func(l keylock.Locker, k pkey, granted bool) string {
		return guard(func() string {
			rc, wc, present := keylock.VerifKeyCountsI(l, k.v)
			return cntTerm(rc, wc, present, granted)
		})
	}
	do := func(l keylock.Locker, op int, k pkey) string {
		st := timed(func() { call(l, op, k) })
		if st == "panic" {
			return "RPanic"
		}
		if st == "hang" {
			return cntTerm(0, 0, false, false)
		}
		return counts(l, k, true)
	}
	for s := 0; s < steps; s++ {
		if contended && pend == nil && r.Intn(4) == 0 {
			// a call that must wait: Lock / RLock on a key held by a writer, Lock on a key held by readers
			var cands []int
			for i, c := range state {
				if c.w == 1 || c.r > 0 {
					cands = append(cands, i)
				}
			}
			if len(cands) > 0 {
				ki := cands[r.Intn(len(cands))]
				k := pool[ki]
				op := 0
				if state[ki].w == 1 && r.Intn(2) == 0 {
					op = 2
				}
				wantR, wantW := state[ki].r, state[ki].w
				if op == 0 {
					wantW++
				} else {
					wantR++
				}
				pend = &pending{ki: ki, op: op}
				var res [2]string
				for j, l := range ls {
					l := l
					pend.done[j] = spawn(func() { call(l, op, k) })
					st := observeBlocking(pend.done[j], func() bool {
						ok := false
						guard(func() string {
							rc, wc, _ := keylock.VerifKeyCountsI(l, k.v)
							ok = rc == wantR && wc == wantW
							return ""
						})
						return ok
					})
					switch st {
					case "blocked":
						res[j] = counts(l, k, false)
					case "ok":
						res[j] = counts(l, k, true)
					case "panic":
						res[j] = "RPanic"
					default:
						res[j] = "RInvalid"
					}
				}
				bad := !strings.HasSuffix(res[0], "false)") || !strings.HasSuffix(res[1], "false)")
				if !emit(lockOpNames[op]+" "+k.hk, lockOpNames[op][1:]+" "+k.desc+" (must wait)", k, res[0], res[1], res[1]) || bad {
					return
				}
				continue
			}
		}
		ki := r.Intn(len(pool))
		var op int
		if pend != nil && (ki == pend.ki || r.Intn(2) == 0) {
			// release what the parked call waits for
			ki = pend.ki
			if state[ki].w == 1 {
				op = 1
			} else {
				op = 3
			}
		} else {
			op = pickLockOp(r, state[ki])
		}
		k := pool[ki]
		switch op {
		case 0:
			state[ki].w++
		case 1:
			state[ki].w--
		case 2:
			state[ki].r++
		default:
			state[ki].r--
		}
		var res [2]string
		for j, l := range ls {
			res[j] = do(l, op, k)
		}
		if pend != nil && ki == pend.ki && state[ki].w == 0 && (pend.op == 2 || state[ki].r == 0) && !isBad(res[0]) && !isBad(res[1]) {
			// nothing stands in the way of the parked call any more: it must return (both containers)
			for j := range ls {
				select {
				case st := <-pend.done[j]:
					if st != "ok" {
						res[j] = "RPanic"
					}
				case <-time.After(10 * time.Second):
					res[j] = cntTerm(0, 0, false, false)
				}
			}
			if pend.op == 0 {
				state[ki].w++
			} else {
				state[ki].r++
			}
			pend = nil
		}
		if !emit(lockOpNames[op]+" "+k.hk, lockOpNames[op][1:]+" "+k.desc, k, res[0], res[1], res[1]) {
			return
		}
	}
}

func runTLock[T comparable](r *rand.Rand, cfg contCfg, steps int, pool []pkey, emit emitFn) {
	if len(pool) == 0 {
		return
	}
	var sh keylock.TLocker[T]
	if cfg.xh {
		sh = keylock.NewTXHashTKeyLockeGrp[T](cfg.ropts...)
	} else {
		sh = keylock.NewTKeyLockeGrp[T](cfg.ropts...)
	}
	un := keylock.NewTKeyLocker[T]()
	state := make([]cnt, len(pool))
	// one call on one or several keys; returns one answer per key (the key's counts after the call)
	do := func(l keylock.TLocker[T], op int, ks []pkey) []string {
		ts := make([]T, len(ks))
		for i, k := range ks {
			ts[i] = k.v.(T)
		}
		st := timed(func() {
			if len(ts) == 1 {
				switch op {
				case 0:
					l.Lock(ts[0])
				case 1:
					l.Unlock(ts[0])
				case 2:
					l.RLock(ts[0])
				default:
					l.RUnlock(ts[0])
				}
				return
			}
			switch op {
			case 0:
				l.Locks(ts)
			case 1:
				l.Unlocks(ts)
			case 2:
				l.RLocks(ts)
			default:
				l.RUnlocks(ts)
			}
		})
		res := make([]string, len(ks))
		for i := range ks {
			switch st {
			case "panic":
				res[i] = "RPanic"
			case "hang":
				res[i] = cntTerm(0, 0, false, false)
			default:
				t := ts[i]
				// a key may be listed several times in one read batch: the hook is read once, after the call;
				// the answer written down for an occurrence is that count corrected by the occurrences of the same
				// key still to come in the batch (the same correction for both containers), so that the batch reads
				// as the sequence of single calls the model runs
				later := 0
				for j := i + 1; j < len(ks); j++ {
					if ks[j].hk == ks[i].hk {
						later++
					}
				}
				res[i] = guard(func() string {
					rc, wc, present := keylock.VerifKeyCounts[T](l, t)
					if later > 0 {
						if op == 2 {
							rc -= later
						} else if op == 3 {
							rc += later
						}
						present = rc != 0 || wc != 0
					}
					return cntTerm(rc, wc, present, true)
				})
			}
		}
		return res
	}
	// a Lock that may have to wait (only ever issued on a key the history left free): observed positively
	probe := func(l keylock.TLocker[T], k pkey) string {
		t := k.v.(T)
		done := spawn(func() { l.Lock(t) })
		st := observeBlocking(done, func() bool {
			ok := false
			guard(func() string {
				_, wc, _ := keylock.VerifKeyCounts[T](l, t)
				ok = wc >= 1
				return ""
			})
			return ok
		})
		switch st {
		case "ok", "blocked":
			return guard(func() string {
				rc, wc, present := keylock.VerifKeyCounts[T](l, t)
				return cntTerm(rc, wc, present, st == "ok")
			})
		case "panic":
			return "RPanic"
		}
		return "RInvalid"
	}
	// at the end (or as soon as the two lockers have answered differently): every key the history left free must
	// be lockable at once, on both lockers
	finish := func() {
		for j, k := range pool {
			if state[j].r != 0 || state[j].w != 0 {
				continue
			}
			a, b := probe(sh, k), probe(un, k)
			if !emit("OLock "+k.hk, "Lock "+k.desc+" (final probe of a key left free)", k, a, b, b) || a != b || !strings.HasSuffix(a, "true)") {
				return
			}
			ua, ub := do(sh, 1, []pkey{k}), do(un, 1, []pkey{k})
			if !emit("OUnlock "+k.hk, "Unlock "+k.desc, k, ua[0], ub[0], ub[0]) || ua[0] != ub[0] {
				return
			}
		}
	}
	for s := 0; s < steps; s++ {
		ki := r.Intn(len(pool))
		op := pickLockOp(r, state[ki])
		idxs := []int{ki}
		if op >= 2 && r.Intn(3) == 0 {
			// a read batch that lists keys more than once: RLocks / RUnlocks count every occurrence
			// (write batches with a repeated key block on themselves, sharded or not, and are left out)
			room := func(j int) int {
				if op == 2 {
					return 2
				}
				return state[j].r - 1
			}
			left := map[int]int{ki: room(ki)}
			for _, j := range r.Perm(len(pool)) {
				c := state[j]
				if j != ki && r.Intn(3) == 0 && ((op == 2 && c.w == 0) || (op == 3 && c.r > 0)) {
					idxs = append(idxs, j)
					left[j] = room(j)
				}
			}
			for _, j := range append([]int(nil), idxs...) {
				for n := r.Intn(3); n > 0 && left[j] > 0; n-- {
					idxs = append(idxs, j)
					left[j]--
				}
			}
			r.Shuffle(len(idxs), func(a, b int) { idxs[a], idxs[b] = idxs[b], idxs[a] })
		} else if r.Intn(3) == 0 {
			// a multi-key call: every other key for which the same operation returns at once, in random order
			for _, j := range r.Perm(len(pool)) {
				if j == ki || r.Intn(2) == 0 {
					continue
				}
				c := state[j]
				ok := (op == 0 && c.r == 0 && c.w == 0) || (op == 1 && c.w == 1) || (op == 2 && c.w == 0) || (op == 3 && c.r > 0)
				if ok {
					idxs = append(idxs, j)
				}
			}
			r.Shuffle(len(idxs), func(a, b int) { idxs[a], idxs[b] = idxs[b], idxs[a] })
		}
		ks := make([]pkey, len(idxs))
		for i, j := range idxs {
			ks[i] = pool[j]
			switch op {
			case 0:
				state[j].w++
			case 1:
				state[j].w--
			case 2:
				state[j].r++
			default:
				state[j].r--
			}
		}
		a := do(sh, op, ks)
		b := do(un, op, ks)
		multi := ""
		if len(ks) > 1 {
			multi = fmt.Sprintf(" (part %%d/%d of one %ss call)", len(ks), lockOpNames[op][1:])
		}
		for i, k := range ks {
			d := lockOpNames[op][1:] + " " + k.desc
			if multi != "" {
				d += fmt.Sprintf(multi, i+1)
				times := 0
				for _, x := range ks {
					if x.hk == k.hk {
						times++
					}
				}
				if times > 1 {
					d += fmt.Sprintf(" [key listed %d times in this call: the counts are those read after the call, corrected by the occurrences still to come]", times)
				}
			}
			if !emit(lockOpNames[op]+" "+k.hk, d, k, a[i], b[i], b[i]) {
				return
			}
		}
		for i := range ks {
			if a[i] != b[i] {
				finish()
				return
			}
		}
	}
	finish()
}

// ---- semaphore maps: acquisitions with a context that is already cancelled never block ----

func semTerm(granted bool, held, waiters int, present bool) string {
	if waiters != 0 {
		return "RInvalid"
	}
	return fmt.Sprintf("(RSem %s %s %s)", vh.CoqBool(granted), z(int64(held)), vh.CoqBool(present))
}

func runSem(r *rand.Rand, cfg contCfg, ratio int, steps int, emit emitFn) {
	sopts := []semap.Option{semap.WithRwRatio(ratio)}
	if !cfg.deflt {
		sopts = append(sopts, semap.WithPrime(cfg.n))
	} else if r.Intn(2) == 0 {
		sopts = append(sopts, semap.WithPrime(0)) // zero = "use the default"
	}
	var sh semap.SemMapper
	if cfg.xh {
		sh = semap.NewWideXHashSemMap(sopts...)
	} else {
		sh = semap.NewWideSemMap(sopts...)
	}
	un := semap.NewSemMap(semap.WithRwRatio(ratio))
	pool := genPool(r, cfg.xh, cfg.n, 2+r.Intn(5), -1)
	ctx, cancel := context.WithCancel(context.Background())
	cancel()
	// the *Weighted of the live entry of each key, per container (Release wants it back)
	type live struct{ sh, un *semap.Weighted }
	ptr := make([]live, len(pool))
	do := func(m semap.SemMapper, op int, k pkey, p **semap.Weighted) string {
		granted := true
		st := timed(func() {
			switch op {
			case 0, 1:
				var w *semap.Weighted
				var err error
				if op == 0 {
					w, err = m.AcquireRead(ctx, k.v)
				} else {
					w, err = m.AcquireWrite(ctx, k.v)
				}
				granted = err == nil
				if err == nil {
					*p = w
				}
			case 2:
				m.ReleaseRead(k.v, *p)
			default:
				m.ReleaseWrite(k.v, *p)
			}
		})
		if st == "hang" {
			return "RInvalid"
		}
		held, waiters, present := 0, 0, false
		hs := guard(func() string { held, waiters, present = semap.VerifKeyState(m, k.v); return "" })
		if !present {
			*p = nil
		}
		if st == "panic" || hs == "RPanic" {
			return "RPanic"
		}
		return semTerm(granted, held, waiters, present)
	}
	names := []string{"OAcqR", "OAcqW", "ORelR", "ORelW"}
	descs := []string{"AcquireRead", "AcquireWrite", "ReleaseRead", "ReleaseWrite"}
	for s := 0; s < steps; s++ {
		ki := r.Intn(len(pool))
		k := pool[ki]
		op := []int{0, 0, 0, 1, 1, 2, 2, 3}[r.Intn(8)]
		if op >= 2 && (ptr[ki].sh == nil || ptr[ki].un == nil) {
			op -= 2 // nothing to give back: acquire instead
		}
		a := do(sh, op, k, &ptr[ki].sh)
		b := do(un, op, k, &ptr[ki].un)
		if !emit(names[op]+" "+k.hk, descs[op]+" "+k.desc, k, a, b, b) {
			return
		}
	}
}
