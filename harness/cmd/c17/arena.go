package main

// Keys that live inside memory owned by the caller, and concurrent constructors.
//
// arena class: []byte keys are sub-slices of one arena WITH spare capacity (the next key starts where this one
// ends), Bs keys return such sub-slices from ToBytes.  Every routing entry point (ToBytes, XXHash, SimpleIndex,
// XHashIndex) is called on them in "route B, route its left neighbour A, route B again" patterns; the arena bytes
// from the key's first byte to a few bytes past its end are recorded before and after every call.
//
// ctor class: per round a shard count never used before in this process; 4..8 goroutines released from a barrier
// each build their own NewReMap(WithPrime(n)) and at once ask SearchIndex for a fixed probe set (top of the range
// first).  All answers of a round form one CHash case: each must be the model's, and the same hash value must get
// the same shard from every instance at every moment (monotone includes equal).

import (
	"fmt"
	"math"
	"math/rand"
	"strings"

	"github.com/cespare/xxhash/v2"
	"github.com/pinealctx/neptune/remap"
	"verifharness/vh"
)

const arenaSize = 64

// a Bs implementer whose bytes are a window of a shared arena; comparable, so usable as a map key
type arenaBs struct {
	a      *[arenaSize]byte
	off, n int
}

func (k arenaBs) ToBytes() []byte { return k.a[k.off : k.off+k.n] }

type chunk struct{ off, n int }

func cutArena(r *rand.Rand) (*[arenaSize]byte, []chunk) {
	var a [arenaSize]byte
	for i := range a {
		a[i] = byte(1 + r.Intn(255))
	}
	var cs []chunk
	off := 0
	for off+8 < arenaSize-4 {
		n := 1 + r.Intn(6)
		cs = append(cs, chunk{off, n})
		off += n
	}
	return &a, cs
}

func window(a *[arenaSize]byte, c chunk) []byte {
	end := c.off + c.n + 4
	if end > arenaSize {
		end = arenaSize
	}
	return append([]byte(nil), a[c.off:end]...)
}

func genArena(r *rand.Rand) vh.Case {
	n := pickShards(r, false)
	rm := remap.NewReMap(remap.WithPrime(n))
	a, cs := cutArena(r)
	asBs := r.Intn(2) == 0
	keyOf := func(c chunk) interface{} {
		if asBs {
			return arenaBs{a, c.off, c.n}
		}
		return a[c.off : c.off+c.n] // len n, capacity up to the end of the arena
	}
	var steps, descs []string
	one := func(ci, call int) {
		c := cs[ci]
		k := keyOf(c)
		before := window(a, c)
		h, _ := safeHash(k)
		res, shown := "None", ""
		switch call {
		case 0:
			b, ok := safeBytes(k)
			shown = fmt.Sprintf("%v/%v", b, ok)
		case 1:
			x, ok := safeHash(k)
			if ok {
				res = "(Some " + zu(x) + ")"
			}
			shown = fmt.Sprint(x)
		default:
			i, ok := safeIndex(rm, call == 3, k)
			res, shown = optZ(i, ok), showIdx(i, ok)
		}
		after := window(a, c)
		steps = append(steps, fmt.Sprintf("AS %d %d %s %s %s %s", call, c.n, coqByteList(before), coqByteList(after), zu(h), res))
		descs = append(descs, fmt.Sprintf("%s(key %d = arena[%d:%d]) = %s; arena[%d:%d] before %v after %v",
			[]string{"ToBytes", "XXHash", "SimpleIndex", "XHashIndex"}[call], ci, c.off, c.off+c.n, shown, c.off, c.off+len(before), before, after))
	}
	for len(steps) < 18 {
		b := 1 + r.Intn(len(cs)-1)
		call := []int{2, 3, 3, 2, 1, 0}[r.Intn(6)]
		icall := call
		if icall < 2 {
			icall = 3
		}
		one(b, icall)            // where does B go
		one(b-1, call)           // any routing call on its left neighbour
		one(b, icall)            // B again: same bytes, same shard
		if r.Intn(3) == 0 {
			one(r.Intn(len(cs)), r.Intn(4))
		}
	}
	kind := "[]byte sub-slices"
	if asBs {
		kind = "Bs implementer returning sub-slices"
	}
	return vh.Case{Coq: fmt.Sprintf("CArena %s %s", zu(n), vh.CoqList(steps)), Class: "arena", Nontrivial: true,
		Desc: map[string]interface{}{"kind": "arena", "shards": n, "keys": kind, "calls": descs}}
}

// pool of adjacent arena keys (Bs implementers) for container histories.  The hash that goes into the case is
// computed by the harness from a copy of the bytes: no routing call is made before the history starts.
func arenaPool(r *rand.Rand, size int) []pkey {
	a, cs := cutArena(r)
	if len(cs) > size {
		cs = cs[:size]
	}
	var pool []pkey
	seen := map[string]bool{}
	for _, c := range cs {
		// distinct Go keys must have distinct contents: the Coq term of a key is its bytes
		for seen[string(a[c.off:c.off+c.n])] {
			for i := c.off; i < c.off+c.n; i++ {
				a[i] = byte(1 + r.Intn(255))
			}
		}
		seen[string(a[c.off:c.off+c.n])] = true
		bs := append([]byte(nil), a[c.off:c.off+c.n]...)
		k := gkey{arenaBs{a, c.off, c.n}, "KBs " + coqByteList(bs), fmt.Sprintf("arenaBs[%d:%d]%v", c.off, c.off+c.n, bs), true, true, true}
		keyTable = append(keyTable, "HK ("+k.coq+") "+zu(xxhash.Sum64(bs)))
		pool = append(pool, pkey{k, fmt.Sprintf("%d%%nat", len(keyTable)-1)})
	}
	return pool
}

// ---- concurrent constructors ----

var usedCounts = map[uint64]bool{}

func freshCount(r *rand.Rand) uint64 {
	for {
		n := uint64(100000 + r.Intn(900000))
		if !usedCounts[n] {
			usedCounts[n] = true
			return n
		}
	}
}

func genCtor(r *rand.Rand, rounds int) []vh.Case {
	var cases []vh.Case
	clean := 0
	for round := 0; round < rounds; round++ {
		n := freshCount(r)
		y := uint64(math.MaxUint64) / n
		// top of the table first: it is what a constructor fills last
		probes := []uint64{math.MaxUint64, math.MaxUint64 - 1, y * (n - 1), y*(n-1) + 1, y * (n - n/8), y * (n / 2), y*(n/2) + 1, y * (n / 3), y * 1000, y*3 + 1, y, 1, 0}
		for i := 0; i < 3; i++ {
			probes = append(probes, r.Uint64())
		}
		g := 4 + r.Intn(5)
		type ans struct {
			i  []int
			ok []bool
		}
		out := make([]ans, g)
		st := burstRun(g, round%2 == 1, func(j int) {
			rm := remap.NewReMap(remap.WithPrime(n))
			a := ans{make([]int, len(probes)), make([]bool, len(probes))}
			for p, x := range probes {
				a.i[p], a.ok[p] = safeSearch(rm, x)
			}
			out[j] = a
		})
		// afterwards, sequentially: what a quiet constructor answers (Go-side pre-filter only)
		ref := remap.NewReMap(remap.WithPrime(n))
		differs := false
		var ps, descs []string
		for j := 0; j < g; j++ {
			if st[j] != "ok" || out[j].i == nil {
				differs = true
				ps = append(ps, fmt.Sprintf("HP %s None", zu(probes[0])))
				descs = append(descs, fmt.Sprintf("goroutine %d: %s", j, st[j]))
				continue
			}
			var d []string
			for p, x := range probes {
				ps = append(ps, fmt.Sprintf("HP %s %s", zu(x), optZ(out[j].i[p], out[j].ok[p])))
				d = append(d, fmt.Sprintf("%d->%s", x, showIdx(out[j].i[p], out[j].ok[p])))
				if ri, rok := safeSearch(ref, x); ri != out[j].i[p] || rok != out[j].ok[p] {
					differs = true
				}
			}
			descs = append(descs, fmt.Sprintf("goroutine %d: %s", j, strings.Join(d, " ")))
		}
		if !differs {
			clean++
			if clean > 3 && round != rounds-1 {
				continue
			}
		}
		cases = append(cases, vh.Case{Coq: fmt.Sprintf("CHash %s %s", zu(n), vh.CoqList(ps)), Class: "ctor", Nontrivial: true,
			Key: fmt.Sprintf("ctor:%d:%d", n, round),
			Desc: map[string]interface{}{"kind": "ctor", "shards": n, "goroutines": g, "round": round, "differs_from_quiet_constructor": differs,
				"reading": "every goroutine built its own NewReMap(WithPrime(shards)) after a common barrier and asked SearchIndex at once", "SearchIndex": descs}})
	}
	ctorRounds += rounds
	return cases
}

var ctorRounds int
