// Command c17: correspondence harness for C17 (shard routing; sharded containers = unsharded).
//
// Case kinds (Coq type `case` of C17_Check.v):
//
//	CIdx   one remap.NewReMap(opts) + a batch of keys of every supported / unsupported type:
//	       ToBytes, XXHash, SimpleIndex and XHashIndex (each on two independent ReMap instances)
//	CHash  SearchIndex on raw 64-bit values around the partition boundaries
//	CCont  one history on a sharded container (map, LRU, tiny LRU, key lockers, semaphore map), the same history
//	       on the unsharded container and, for the LRUs, on one single cache per shard fed the routed sub-history
package main

import (
	"fmt"
	"math"
	"math/rand"
	"strconv"
	"strings"

	"github.com/cespare/xxhash/v2"
	"github.com/pinealctx/neptune/remap"
	"verifharness/vh"
)

// ---- guarded calls ----

func safeIndex(rm *remap.ReMap, xh bool, v interface{}) (i int, ok bool) {
	defer func() {
		if recover() != nil {
			i, ok = 0, false
		}
	}()
	if xh {
		return rm.XHashIndex(v), true
	}
	return rm.SimpleIndex(v), true
}

func safeBytes(v interface{}) (b []byte, ok bool) {
	defer func() {
		if recover() != nil {
			b, ok = nil, false
		}
	}()
	return remap.ToBytes(v), true
}

func safeHash(v interface{}) (h uint64, ok bool) {
	defer func() {
		if recover() != nil {
			h, ok = 0, false
		}
	}()
	return remap.XXHash(v), true
}

func safeSearch(rm *remap.ReMap, x uint64) (i int, ok bool) {
	defer func() {
		if recover() != nil {
			i, ok = 0, false
		}
	}()
	return rm.SearchIndex(x), true
}

func safeNewReMap(opts ...remap.Option) (rm *remap.ReMap) {
	defer func() {
		if recover() != nil {
			rm = nil
		}
	}()
	return remap.NewReMap(opts...)
}

// ---- shard counts ----

var idxShards = []uint64{1, 2, 3, 4, 5, 7, 16, 64, 73, 100, 211, 255, 256, 257, 641, 1000, 65537, 1 << 20}

func pickShards(r *rand.Rand, forCont bool) uint64 {
	if forCont {
		// the Coq model of a sharded container addresses shards by unary numbers: keep them small
		return []uint64{1, 2, 2, 3, 3, 5, 8, 64, 73, 211}[r.Intn(10)]
	}
	if r.Intn(5) == 0 {
		return uint64(1 + r.Intn(5000))
	}
	return idxShards[r.Intn(len(idxShards))]
}

// ---- CIdx ----

func genIdx(r *rand.Rand, nprobe int) vh.Case {
	var opts []remap.Option
	var n uint64
	nopt := "None"
	switch x := r.Intn(40); {
	case x == 0: // no option: the default prime
		n = remap.DefaultPrime
	case x == 1: // zero shards: NewReMap divides by zero
		n = 0
		opts = []remap.Option{remap.WithPrime(0)}
		nopt = "(Some 0%Z)"
	case x == 2: // the last option wins
		n = pickShards(r, false)
		opts = []remap.Option{remap.WithPrime(17), remap.WithPrime(n)}
		nopt = "(Some " + zu(n) + ")"
	default:
		n = pickShards(r, false)
		opts = []remap.Option{remap.WithPrime(n)}
		nopt = "(Some " + zu(n) + ")"
	}
	rm1 := safeNewReMap(opts...)
	rm2 := safeNewReMap(opts...)
	if rm1 == nil || rm2 == nil {
		return vh.Case{Coq: fmt.Sprintf("CIdx %s None []", nopt), Class: "idx-zero", Nontrivial: false,
			Desc: map[string]interface{}{"kind": "idx", "shards": n, "NewReMap": "panic"}}
	}
	numbs := rm1.Numbs()
	var ps, descs []string
	supported := 0
	for j := 0; j < nprobe; j++ {
		k := genKey(r, pickClass(r), n)
		bs, bok := safeBytes(k.v)
		h, _ := safeHash(k.v)
		var hb uint64
		if bok {
			hb = xxhash.Sum64(bs)
		}
		s1, s1ok := safeIndex(rm1, false, k.v)
		s2, s2ok := safeIndex(rm2, false, k.v)
		x1, x1ok := safeIndex(rm1, true, k.v)
		x2, x2ok := safeIndex(rm2, true, k.v)
		bopt := "None"
		if bok {
			bopt = "(Some " + coqByteList(bs) + ")"
		}
		ps = append(ps, fmt.Sprintf("Pr (%s) %s %s %s %s %s %s %s", k.coq, zu(h), zu(hb), bopt,
			optZ(s1, s1ok), optZ(s2, s2ok), optZ(x1, x1ok), optZ(x2, x2ok)))
		descs = append(descs, fmt.Sprintf("%s: bytes=%v/%v hash=%d simple=%s,%s xhash=%s,%s", k.desc, bs, bok, h,
			showIdx(s1, s1ok), showIdx(s2, s2ok), showIdx(x1, x1ok), showIdx(x2, x2ok)))
		if k.suppS {
			supported++
		}
	}
	return vh.Case{Coq: fmt.Sprintf("CIdx %s (Some %s) %s", nopt, zu(numbs), vh.CoqList(ps)),
		Class: "idx", Nontrivial: supported > 0,
		Desc: map[string]interface{}{"kind": "idx", "shards": n, "Numbs": numbs, "probes": descs}}
}

func showIdx(i int, ok bool) string {
	if !ok {
		return "panic"
	}
	return strconv.Itoa(i)
}

// ---- CHash ----

func genHash(r *rand.Rand, nprobe int) vh.Case {
	n := pickShards(r, false)
	rm := remap.NewReMap(remap.WithPrime(n))
	y := uint64(math.MaxUint64) / n
	xs := []uint64{0, math.MaxUint64}
	for len(xs) < nprobe {
		var x uint64
		switch r.Intn(8) {
		case 0:
			x = uint64(r.Intn(3))
		case 1:
			x = math.MaxUint64 - uint64(r.Intn(3))
		case 2: // the top of the last computed boundary: y*n, y*n+1 (above it only the forced boundary answers)
			x = y*n + uint64(r.Intn(3)) - 1
		case 3, 4, 5: // around boundary i
			i := uint64(r.Int63n(int64(n)))
			if r.Intn(3) == 0 {
				i = []uint64{0, n - 1, (n - 1) / 2, n - 2}[r.Intn(4)] % n
			}
			x = y*(i+1) + uint64(r.Intn(3)) - 1
		default:
			x = r.Uint64()
		}
		xs = append(xs, x)
	}
	r.Shuffle(len(xs), func(a, b int) { xs[a], xs[b] = xs[b], xs[a] })
	var ps, descs []string
	for _, x := range xs {
		i, ok := safeSearch(rm, x)
		ps = append(ps, fmt.Sprintf("HP %s %s", zu(x), optZ(i, ok)))
		descs = append(descs, fmt.Sprintf("%d->%s", x, showIdx(i, ok)))
	}
	return vh.Case{Coq: fmt.Sprintf("CHash %s %s", zu(n), vh.CoqList(ps)), Class: "hash", Nontrivial: n >= 2,
		Desc: map[string]interface{}{"kind": "hash", "shards": n, "SearchIndex": strings.Join(descs, " ")}}
}

// ---- driver ----

var kinds = []string{"idx", "hash", "map", "lru", "tiny", "lock", "tlock", "sem", "burst", "arena", "ctor"}

func genCase(kind string, sub int64, thorough bool) vh.Case {
	r := rand.New(rand.NewSource(sub))
	var c vh.Case
	switch kind {
	case "idx":
		c = genIdx(r, 24)
	case "hash":
		c = genHash(r, 28)
	case "arena":
		c = genArena(r)
	default:
		c = genCont(r, kind, thorough)
	}
	c.Replay = fmt.Sprintf("%s:%d", kind, sub)
	// one scope delimiter around the whole term instead of one per numeral (every number in a case is a Z)
	c.Coq = "(" + strings.ReplaceAll(c.Coq, "%Z", "") + ")%Z"
	return c
}

// the concurrent-constructor rounds of one run
func emitCtor(e *vh.Env, sub int64, rounds int) {
	for _, c := range genCtor(rand.New(rand.NewSource(sub)), rounds) {
		c.Replay = fmt.Sprintf("ctor:%d", sub)
		c.Coq = "(" + strings.ReplaceAll(c.Coq, "%Z", "") + ")%Z"
		e.Emit(c)
	}
}

// one burst configuration: thousands of concurrent rounds, a handful of emitted cases
func emitBurst(e *vh.Env, sub int64, thorough bool) {
	for _, c := range genBurst(sub, thorough, e.Search) {
		c.Replay = fmt.Sprintf("burst:%d", sub)
		c.Coq = "(" + strings.ReplaceAll(c.Coq, "%Z", "") + ")%Z"
		e.Emit(c)
	}
}

func main() {
	vh.Main("c17", func(e *vh.Env) {
		thorough := e.Thorough || e.Search
		if e.Replay != "" {
			parts := strings.SplitN(e.Replay, ":", 2)
			if len(parts) == 2 {
				if sub, err := strconv.ParseInt(parts[1], 10, 64); err == nil {
					if parts[0] == "burst" {
						emitBurst(e, sub, thorough)
					} else if parts[0] == "ctor" {
						emitCtor(e, sub, 40)
					} else {
						e.Emit(genCase(parts[0], sub, thorough))
					}
				}
			}
			return
		}
		// volumes per kind (quick, thorough)
		vol := map[string][2]int{
			"idx": {220, 1500}, "hash": {160, 1200}, "map": {70, 500}, "lru": {80, 600}, "tiny": {60, 450},
			"lock": {40, 300}, "tlock": {40, 300}, "sem": {50, 400}, "burst": {24, 60}, "arena": {40, 300}, "ctor": {1, 1},
		}
		focus := ""
		if e.Search && e.Focus != "" {
			focus = strings.SplitN(e.Focus, "-", 2)[0]
		}
		counts := map[string]int{}
		var plan []string
		for _, k := range kinds {
			n := e.Scale(vol[k][0], vol[k][1])
			if focus != "" {
				if k == focus {
					n *= 3
				} else {
					n /= 3
				}
			}
			for i := 0; i < n; i++ {
				plan = append(plan, k)
			}
		}
		// kinds interleaved, so that the case files the driver cuts the stream into cost about the same
		e.Rnd.Shuffle(len(plan), func(a, b int) { plan[a], plan[b] = plan[b], plan[a] })
		for _, k := range plan {
			if k == "burst" {
				emitBurst(e, e.Rnd.Int63(), e.Thorough)
			} else if k == "ctor" {
				rounds := e.Scale(40, 160)
				if focus == "ctor" {
					rounds *= 3
				}
				emitCtor(e, e.Rnd.Int63(), rounds)
			} else {
				e.Emit(genCase(k, e.Rnd.Int63(), thorough))
			}
			counts[k]++
		}
		// round-8 classes: deterministic (fixed sub-seeds), emitted after everything else so that the streams above stay
		// as they were: maps holding nil values, LRUs built with capacities at the top of int64
		for _, lk := range []struct {
			k    string
			q, t int
		}{{"nilmap", 16, 80}, {"maxlru", 8, 40}, {"maxtiny", 8, 40}} {
			for i := 0; i < e.Scale(lk.q, lk.t); i++ {
				e.Emit(genCase(lk.k, int64(i), thorough))
				counts[lk.k]++
			}
		}
		e.Meta["ctor_rounds"] = ctorRounds
		e.Meta["burst_rounds"] = burstRounds
		e.Meta["burst_rounds_differing_from_reference"] = burstBad
		e.Meta["cases_per_kind"] = counts
		e.Meta["index_shard_counts"] = idxShards
		e.Meta["container_shard_counts"] = []int{1, 2, 3, 5, 8, 64, 73, 211}
	})
}
