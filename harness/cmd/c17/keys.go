package main

import (
	"fmt"
	"math"
	"math/rand"
	"strings"

	"verifharness/vh"
)

// ---- key types that reach the interface branches of SimpleIndex / ToBytes ----

// implements remap.HitGroup only
type hitKey struct{ H uint64 }

func (k hitKey) Hit() uint64 { return k.H }

// implements remap.Bs only
type bsKey struct{ S string }

func (k bsKey) ToBytes() []byte { return []byte(k.S) }

// implements both: SimpleIndex takes Hit(), XHashIndex takes ToBytes()
type hitBsKey struct {
	H uint64
	S string
}

func (k hitBsKey) Hit() uint64     { return k.H }
func (k hitBsKey) ToBytes() []byte { return []byte(k.S) }

// a named integer type: matches none of the integer cases of the type switches
type namedInt int

// a named integer type that implements HitGroup: routed by Hit(), not by its value
type hitInt int32

func (k hitInt) Hit() uint64 { return uint64(int64(k)) * 7 }

type plainStruct struct{ A int }

// gkey = one generated key: the Go value, its Coq term (type key), a readable form
type gkey struct {
	v        interface{}
	coq      string
	desc     string
	hashable bool // usable as a Go map key
	suppS    bool // supported by SimpleIndex
	suppX    bool // supported by XHashIndex
}

func z(v int64) string   { return vh.CoqZ(v) }
// big numbers in hexadecimal: Coq reads them about twice as fast as decimal ones
func zu(v uint64) string {
	if v >= 1<<40 {
		return fmt.Sprintf("0x%x%%Z", v)
	}
	return vh.CoqZu(v)
}

func coqByteList(bs []byte) string {
	if len(bs) == 0 {
		return "[]"
	}
	return vh.CoqBytes(bs)
}

// intKey builds the key of integer type t (0..9) from the low bits of x (Go conversion = truncation)
func intKey(t int, x uint64) gkey {
	switch t {
	case 0:
		v := byte(x)
		return gkey{v, "KU8 " + zu(uint64(v)), fmt.Sprintf("byte(%d)", v), true, true, true}
	case 1:
		v := int8(x)
		return gkey{v, "KI8 " + z(int64(v)), fmt.Sprintf("int8(%d)", v), true, true, true}
	case 2:
		v := int16(x)
		return gkey{v, "KI16 " + z(int64(v)), fmt.Sprintf("int16(%d)", v), true, true, true}
	case 3:
		v := uint16(x)
		return gkey{v, "KU16 " + zu(uint64(v)), fmt.Sprintf("uint16(%d)", v), true, true, true}
	case 4:
		v := int32(x)
		return gkey{v, "KI32 " + z(int64(v)), fmt.Sprintf("int32(%d)", v), true, true, true}
	case 5:
		v := uint32(x)
		return gkey{v, "KU32 " + zu(uint64(v)), fmt.Sprintf("uint32(%d)", v), true, true, true}
	case 6:
		v := int64(x)
		return gkey{v, "KI64 " + z(v), fmt.Sprintf("int64(%d)", v), true, true, true}
	case 7:
		return gkey{x, "KU64 " + zu(x), fmt.Sprintf("uint64(%d)", x), true, true, true}
	case 8:
		v := int(x)
		return gkey{v, "KInt " + z(int64(v)), fmt.Sprintf("int(%d)", v), true, true, true}
	default:
		v := uint(x)
		return gkey{v, "KUint " + zu(uint64(v)), fmt.Sprintf("uint(%d)", v), true, true, true}
	}
}

// values biased to what the routing arithmetic branches on: 0, +-1, the extremes of every width, the shard count
// and its neighbours, values whose residue modulo n+1 / n-1 is extreme
func pickU64(r *rand.Rand, n uint64) uint64 {
	switch r.Intn(12) {
	case 0:
		return []uint64{0, 1, 2, 3}[r.Intn(4)]
	case 1:
		return math.MaxUint64 - uint64(r.Intn(3))
	case 2: // sign bits / extremes of every width
		w := []uint{7, 8, 15, 16, 31, 32, 63}[r.Intn(7)]
		return (uint64(1) << w) - uint64(r.Intn(3)) + 1
	case 3: // negative small values in two's complement
		return uint64(-int64(r.Intn(300)) - 1)
	case 4:
		return n - 1 + uint64(r.Intn(3))
	case 5: // residue n modulo n+1: the value an off-by-one modulus sends out of range
		return (n+1)*uint64(r.Intn(1000)) + n
	case 6:
		return n * uint64(r.Intn(100000))
	case 7:
		return uint64(r.Int63n(1 << 20))
	case 8:
		return uint64(r.Intn(64))
	default:
		return r.Uint64()
	}
}

var alphabet = []string{"", "a", "b", "ab", "key", "k1", "k2", "user:1", "user:2", "\x00", "\xff\xfe", "日本", "0", "73", "zzzzzzzzzzzzzzzz"}

func pickString(r *rand.Rand) string {
	if r.Intn(3) == 0 {
		n := r.Intn(12)
		var sb strings.Builder
		for i := 0; i < n; i++ {
			sb.WriteByte(byte(r.Intn(256)))
		}
		return sb.String()
	}
	return alphabet[r.Intn(len(alphabet))]
}

const (
	kcInt = iota
	kcStr
	kcBytes
	kcHit
	kcBs
	kcHitBs
	kcHitInt
	kcOther
)

// genKey: class cls, shard count n
func genKey(r *rand.Rand, cls int, n uint64) gkey {
	switch cls {
	case kcInt:
		return intKey(r.Intn(10), pickU64(r, n))
	case kcStr:
		s := pickString(r)
		return gkey{s, "KStr " + coqByteList([]byte(s)), fmt.Sprintf("string(%q)", s), true, true, true}
	case kcBytes:
		s := []byte(pickString(r))
		return gkey{s, "KBytes " + coqByteList(s), fmt.Sprintf("[]byte(%q)", s), false, true, true}
	case kcHit:
		h := pickU64(r, n)
		return gkey{hitKey{h}, "KHit " + zu(h), fmt.Sprintf("hitKey{%d}", h), true, true, false}
	case kcBs:
		s := pickString(r)
		return gkey{bsKey{s}, "KBs " + coqByteList([]byte(s)), fmt.Sprintf("bsKey{%q}", s), true, true, true}
	case kcHitBs:
		h := pickU64(r, n)
		s := pickString(r)
		return gkey{hitBsKey{h, s}, "KHitBs " + zu(h) + " " + coqByteList([]byte(s)), fmt.Sprintf("hitBsKey{%d,%q}", h, s), true, true, true}
	case kcHitInt:
		v := hitInt(int32(pickU64(r, n)))
		return gkey{v, "KHit " + zu(v.Hit()), fmt.Sprintf("hitInt(%d)", int32(v)), true, true, false}
	default:
		switch r.Intn(5) {
		case 0:
			return gkey{1.5, "KOther 0%Z", "float64(1.5)", true, false, false}
		case 1:
			return gkey{namedInt(5), "KOther 1%Z", "namedInt(5)", true, false, false}
		case 2:
			return gkey{plainStruct{3}, "KOther 2%Z", "plainStruct{3}", true, false, false}
		case 3:
			return gkey{nil, "KOther 3%Z", "nil", true, false, false}
		default:
			return gkey{true, "KOther 4%Z", "true", true, false, false}
		}
	}
}

// key class mix for index probes
func pickClass(r *rand.Rand) int {
	switch x := r.Intn(20); {
	case x < 9:
		return kcInt
	case x < 12:
		return kcStr
	case x < 14:
		return kcBytes
	case x < 15:
		return kcHit
	case x < 16:
		return kcBs
	case x < 17:
		return kcHitBs
	case x < 18:
		return kcHitInt
	default:
		return kcOther
	}
}

func optZ(v int, ok bool) string {
	if !ok {
		return "None"
	}
	return "(Some " + z(int64(v)) + ")"
}
