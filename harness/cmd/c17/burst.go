package main

// Concurrent first writes ("burst" class).
//
// One configuration = one container family, routing, shard count, N distinct keys (N = 4..16) chosen to meet on one
// shard, on a few shards, or to spread.  One round = a FRESH sharded container; N goroutines are released from a
// barrier and each makes the first write for its own key (Set / AcquireRead / Lock / RLock); at quiescence
// (every goroutine has returned: WaitGroup) every key is read back (Get / Peek / Exist, or the verif hook's per-key
// state) and the locks / tokens are given back sequentially.  The keys are distinct, so the answers after
// quiescence do not depend on the order in which the writes took effect: the round is written down as the
// sequential history "writes in goroutine order, then the reads" and compared with the unsharded container fed
// exactly that history (Coq: C17_Burst.v, burst_order_free).  Thousands of rounds per configuration; the rounds
// that differ from the reference are emitted as cases (at most three per configuration) together with the last
// round that did not.  Nothing here depends on timing: on a correct tree every round gives the reference answers.

import (
	"context"
	"fmt"
	"math/rand"
	"runtime"
	"sync"
	"sync/atomic"
	"time"

	"github.com/pinealctx/neptune/cache"
	"github.com/pinealctx/neptune/cache/tiny"
	"github.com/pinealctx/neptune/remap"
	"github.com/pinealctx/neptune/syncx/keylock"
	"github.com/pinealctx/neptune/syncx/semap"
	"verifharness/vh"
)

// release n goroutines at once; returns per goroutine "ok" / "panic", or "hang" for all when they do not finish
func burstRun(n int, spin bool, f func(g int)) []string {
	res := make([]string, n)
	var ready, done sync.WaitGroup
	ready.Add(n)
	done.Add(n)
	start := make(chan struct{})
	var flag int32
	for g := 0; g < n; g++ {
		g := g
		go func() {
			defer done.Done()
			defer func() {
				if recover() != nil {
					res[g] = "panic"
				}
			}()
			ready.Done()
			if spin {
				for atomic.LoadInt32(&flag) == 0 {
					runtime.Gosched()
				}
			} else {
				<-start
			}
			f(g)
			res[g] = "ok"
		}()
	}
	ready.Wait()
	if spin {
		atomic.StoreInt32(&flag, 1)
	} else {
		close(start)
	}
	fin := make(chan struct{})
	go func() { done.Wait(); close(fin) }()
	select {
	case <-fin:
	case <-time.After(10 * time.Second): // only a real hang can get here
		out := make([]string, n)
		for g := range out {
			out[g] = "hang"
		}
		return out
	}
	return res
}

// keys of one configuration: distinct, hashable, grouped on shards as the mode asks
func burstKeys(r *rand.Rand, rm *remap.ReMap, xh bool, n uint64, count, mode int, strOnly, intOnly bool) []gkey {
	buckets := map[int][]gkey{}
	var order []int
	seen := map[string]bool{}
	cand := func(j int) gkey {
		switch {
		case intOnly:
			return intKey(6, uint64(j)*7+uint64(r.Intn(3)))
		case strOnly || j%3 == 2:
			s := fmt.Sprintf("k%d", j)
			return gkey{s, "KStr " + coqByteList([]byte(s)), fmt.Sprintf("string(%q)", s), true, true, true}
		case j%3 == 0:
			return intKey([]int{4, 5, 6, 7, 8, 9}[r.Intn(6)], uint64(j/3))
		default:
			return intKey([]int{6, 8}[r.Intn(2)], uint64(-int64(j)))
		}
	}
	groups := 1
	if mode == 1 {
		groups = 2 + r.Intn(2)
		if uint64(groups) > n {
			groups = int(n)
		}
	}
	if mode == 2 { // spread: whatever shards the first distinct candidates fall on
		var keys []gkey
		for j := r.Intn(1000); len(keys) < count; j++ {
			k := cand(j)
			if _, ok := safeIndex(rm, xh, k.v); ok && !seen[k.coq] {
				seen[k.coq] = true
				keys = append(keys, k)
			}
		}
		return keys
	}
	per := (count + groups - 1) / groups
	for j := 0; j < 200000; j++ {
		k := cand(j)
		if seen[k.coq] {
			continue
		}
		seen[k.coq] = true
		i, ok := safeIndex(rm, xh, k.v)
		if !ok {
			continue
		}
		if _, have := buckets[i]; !have {
			order = append(order, i)
		}
		buckets[i] = append(buckets[i], k)
		// enough?
		full := 0
		for _, i := range order {
			if len(buckets[i]) >= per {
				full++
			}
		}
		if full >= groups {
			break
		}
	}
	var keys []gkey
	for _, i := range order {
		if len(buckets[i]) >= per {
			keys = append(keys, buckets[i][:per]...)
		}
		if len(keys) >= count {
			break
		}
	}
	if len(keys) > count {
		keys = keys[:count]
	}
	r.Shuffle(len(keys), func(a, b int) { keys[a], keys[b] = keys[b], keys[a] })
	return keys
}

// one container family under burst: everything is expressed per goroutine index g (key g, value g+1)
type burstFam struct {
	kindTerm string
	fresh    func() interface{}                        // a new sharded container
	refs     []func() interface{}                      // reference containers (sequential use): 1, or 2 for the LRUs
	write    func(c interface{}, g int)                // the first write of key g
	wres     func(c interface{}, g int) string         // its answer, read at quiescence
	reads    func(c interface{}, g int) []string       // answers of the read operations on key g
	after    func(c interface{}, g int) []string       // answers of the give-back operations on key g (may be empty)
	wop      func(k string) string                     // Coq operation terms, k = key position
	rops     func(k string) []string
	aops     func(k string) []string
	names    [3][]string // readable names: write, reads, afters
}

type projLRU struct {
	rm     *remap.ReMap
	xh     bool
	mk     func() lruLike
	shards map[int]lruLike
}

func (p *projLRU) at(k interface{}) lruLike {
	i, ok := safeIndex(p.rm, p.xh, k)
	if !ok {
		panic("route")
	}
	if p.shards[i] == nil {
		p.shards[i] = p.mk()
	}
	return p.shards[i]
}
func (p *projLRU) get(k interface{}) (int, bool)  { return p.at(k).get(k) }
func (p *projLRU) peek(k interface{}) (int, bool) { return p.at(k).peek(k) }
func (p *projLRU) exist(k interface{}) bool       { return p.at(k).exist(k) }
func (p *projLRU) set(k interface{}, v, sz int)   { p.at(k).set(k, v, sz) }
func (p *projLRU) del(k interface{}) bool         { return p.at(k).del(k) }

func someOrNone(v int, ok bool) string {
	if !ok {
		return "RNone"
	}
	return "(RSome " + z(int64(v)) + ")"
}

func genBurst(sub int64, thorough, search bool) []vh.Case {
	r := rand.New(rand.NewSource(sub))
	kind := []string{"map", "map", "map", "map", "map", "map", "lru", "lru", "tiny", "sem", "lock", "tlock"}[r.Intn(12)]
	cfg := contCfg{xh: r.Intn(2) == 0}
	if r.Intn(5) == 0 {
		cfg.deflt, cfg.n = true, remap.DefaultPrime
	} else {
		cfg.n = []uint64{1, 2, 3, 5, 8, 64, 73, 211}[r.Intn(8)]
		cfg.ropts = []remap.Option{remap.WithPrime(cfg.n)}
	}
	rm := remap.NewReMap(cfg.ropts...)
	count := 4 + r.Intn(13)
	mode := []int{0, 0, 1, 1, 2}[r.Intn(5)]
	tString := r.Intn(2) == 0
	keys := burstKeys(r, rm, cfg.xh, cfg.n, count, mode, kind == "tlock" && tString, kind == "tlock" && !tString)
	count = len(keys)
	if count < 2 {
		return nil
	}
	rounds := 700
	if kind == "map" {
		rounds = 5000
	}
	if thorough {
		rounds *= 4
	}
	if search {
		rounds *= 3
	}
	const capacity = 1000000
	pSize := int64(capacity)/int64(cfg.n) + 1
	ctx, cancel := context.WithCancel(context.Background())
	cancel()
	var fam burstFam
	kv := func(g int) interface{} { return keys[g].v }
	switch kind {
	case "map":
		fam = burstFam{kindTerm: "KMap",
			fresh: func() interface{} {
				if cfg.xh {
					return cache.NewWideXHashMap(cfg.ropts...)
				}
				return cache.NewWideMap(cfg.ropts...)
			},
			refs:  []func() interface{}{func() interface{} { return cache.NewSingleMap() }},
			write: func(c interface{}, g int) { c.(cache.MapFacade).Set(kv(g), g+1) },
			wres:  func(c interface{}, g int) string { return "RUnit" },
			reads: func(c interface{}, g int) []string {
				m := c.(cache.MapFacade)
				x, ok := m.Get(kv(g))
				v := 0
				if ok {
					v = x.(int)
				}
				return []string{someOrNone(v, ok), "(RBool " + vh.CoqBool(m.Exist(kv(g))) + ")"}
			},
			after: func(c interface{}, g int) []string { return nil },
			wop:   func(k string) string { return "OSet " + k + " @V 1%Z" },
			rops:  func(k string) []string { return []string{"OGet " + k, "OExist " + k} },
			aops:  func(k string) []string { return nil },
			names: [3][]string{{"Set"}, {"Get", "Exist"}, nil}}
	case "lru", "tiny":
		isTiny := kind == "tiny"
		single := func(c int64) lruLike {
			if isTiny {
				return tinyLRU{tiny.NewSingleLRUCache(c)}
			}
			return bigLRU{cache.NewSingleLRUCache(c)}
		}
		fam = burstFam{kindTerm: fmt.Sprintf("(KLru %s %s)", vh.CoqBool(isTiny), z(capacity)),
			fresh: func() interface{} {
				switch {
				case isTiny && cfg.xh:
					return tinyLRU{tiny.NewWideXHashLRU(capacity, cfg.ropts...)}
				case isTiny:
					return tinyLRU{tiny.NeWideLRU(capacity, cfg.ropts...)}
				case cfg.xh:
					return bigLRU{cache.NewWideXHashLRUCache(capacity, cfg.ropts...)}
				}
				return bigLRU{cache.NeWideLRUCache(capacity, cfg.ropts...)}
			},
			refs: []func() interface{}{
				func() interface{} {
					return &projLRU{rm: rm, xh: cfg.xh, mk: func() lruLike { return single(pSize) }, shards: map[int]lruLike{}}
				},
				func() interface{} { return single(capacity) }},
			write: func(c interface{}, g int) { c.(lruLike).set(kv(g), g+1, 1) },
			wres:  func(c interface{}, g int) string { return "RUnit" },
			reads: func(c interface{}, g int) []string {
				l := c.(lruLike)
				v, ok := l.peek(kv(g))
				return []string{someOrNone(v, ok), "(RBool " + vh.CoqBool(l.exist(kv(g))) + ")"}
			},
			after: func(c interface{}, g int) []string { return nil },
			wop:   func(k string) string { return "OSet " + k + " @V 1%Z" },
			rops:  func(k string) []string { return []string{"OPeek " + k, "OExist " + k} },
			aops:  func(k string) []string { return nil },
			names: [3][]string{{"Set"}, {"Peek", "Exist"}, nil}}
	case "sem":
		ratio := []int{1, 2, 10}[r.Intn(3)]
		type semBox struct {
			m       semap.SemMapper
			ptr     []*semap.Weighted
			granted []bool
		}
		mkBox := func(m semap.SemMapper) interface{} {
			return &semBox{m: m, ptr: make([]*semap.Weighted, count), granted: make([]bool, count)}
		}
		state := func(b *semBox, g int, granted bool) string {
			return guard(func() string {
				held, waiters, present := semap.VerifKeyState(b.m, kv(g))
				return semTerm(granted, held, waiters, present)
			})
		}
		fam = burstFam{kindTerm: fmt.Sprintf("(KSem %s)", z(int64(ratio))),
			fresh: func() interface{} {
				so := []semap.Option{semap.WithRwRatio(ratio)}
				if !cfg.deflt {
					so = append(so, semap.WithPrime(cfg.n))
				}
				if cfg.xh {
					return mkBox(semap.NewWideXHashSemMap(so...))
				}
				return mkBox(semap.NewWideSemMap(so...))
			},
			refs: []func() interface{}{func() interface{} { return mkBox(semap.NewSemMap(semap.WithRwRatio(ratio))) }},
			write: func(c interface{}, g int) {
				b := c.(*semBox)
				w, err := b.m.AcquireRead(ctx, kv(g))
				b.ptr[g], b.granted[g] = w, err == nil
			},
			wres: func(c interface{}, g int) string { b := c.(*semBox); return state(b, g, b.granted[g]) },
			reads: func(c interface{}, g int) []string { return nil },
			after: func(c interface{}, g int) []string {
				b := c.(*semBox)
				if b.ptr[g] == nil {
					return []string{"RInvalid"}
				}
				st := timed(func() { b.m.ReleaseRead(kv(g), b.ptr[g]) })
				if st != "ok" {
					return []string{"RPanic"}
				}
				return []string{state(b, g, true)}
			},
			wop:   func(k string) string { return "OAcqR " + k },
			rops:  func(k string) []string { return nil },
			aops:  func(k string) []string { return []string{"ORelR " + k} },
			names: [3][]string{{"AcquireRead"}, nil, {"ReleaseRead"}}}
	case "lock":
		rd := r.Intn(2) == 0
		cnts := func(l keylock.Locker, g int) string {
			return guard(func() string {
				rc, wc, present := keylock.VerifKeyCountsI(l, kv(g))
				return cntTerm(rc, wc, present, true)
			})
		}
		fam = burstFam{kindTerm: "KLock",
			fresh: func() interface{} {
				if cfg.xh {
					return keylock.NewXHashKeyLockeGrp(cfg.ropts...)
				}
				return keylock.NewKeyLockeGrp(cfg.ropts...)
			},
			refs: []func() interface{}{func() interface{} { return keylock.NewKeyLocker() }},
			write: func(c interface{}, g int) {
				if rd {
					c.(keylock.Locker).RLock(kv(g))
				} else {
					c.(keylock.Locker).Lock(kv(g))
				}
			},
			wres:  func(c interface{}, g int) string { return cnts(c.(keylock.Locker), g) },
			reads: func(c interface{}, g int) []string { return nil },
			after: func(c interface{}, g int) []string {
				l := c.(keylock.Locker)
				st := timed(func() {
					if rd {
						l.RUnlock(kv(g))
					} else {
						l.Unlock(kv(g))
					}
				})
				if st != "ok" {
					return []string{"RPanic"}
				}
				return []string{cnts(l, g)}
			},
			wop:  func(k string) string { return map[bool]string{true: "ORLock ", false: "OLock "}[rd] + k },
			rops: func(k string) []string { return nil },
			aops: func(k string) []string { return []string{map[bool]string{true: "ORUnlock ", false: "OUnlock "}[rd] + k} },
			names: [3][]string{{map[bool]string{true: "RLock", false: "Lock"}[rd]}, nil,
				{map[bool]string{true: "RUnlock", false: "Unlock"}[rd]}}}
	case "tlock":
		if tString {
			fam = tlockFam[string](cfg, keys)
		} else {
			fam = tlockFam[int64](cfg, keys)
		}
	}

	// key table and the operation list of a round (the same for every round of the configuration)
	keyTable = nil
	pks := make([]pkey, count)
	for g, k := range keys {
		pks[g] = mkPKey(k)
	}
	keyTerms := append([]string(nil), keyTable...)
	idx := make([]string, count)
	idxShow := make([]string, count)
	for g := range keys {
		i, ok := safeIndex(rm, cfg.xh, keys[g].v)
		idx[g] = optZ(i, ok)
		idxShow[g] = showIdx(i, ok)
	}
	type opRow struct {
		g    int
		coq  string
		name string
	}
	var rows []opRow
	for g := range keys {
		rows = append(rows, opRow{g, strings_replaceV(fam.wop(pks[g].hk), g+1), fam.names[0][0]})
	}
	for g := range keys {
		for j, o := range fam.rops(pks[g].hk) {
			rows = append(rows, opRow{g, o, fam.names[1][j]})
		}
	}
	for g := range keys {
		for j, o := range fam.aops(pks[g].hk) {
			rows = append(rows, opRow{g, o, fam.names[2][j]})
		}
	}
	// the answers of one container, in row order
	answers := func(c interface{}, wstatus []string) []string {
		var out []string
		for g := range keys {
			switch wstatus[g] {
			case "ok":
				out = append(out, fam.wres(c, g))
			case "panic":
				out = append(out, "RPanic")
			default:
				out = append(out, "RInvalid")
			}
		}
		for g := range keys {
			gg := g
			for _, a := range guardList(func() []string { return fam.reads(c, gg) }, len(fam.rops("x"))) {
				out = append(out, a)
			}
		}
		for g := range keys {
			gg := g
			for _, a := range guardList(func() []string { return fam.after(c, gg) }, len(fam.aops("x"))) {
				out = append(out, a)
			}
		}
		return out
	}
	allOK := make([]string, count)
	for g := range allOK {
		allOK[g] = "ok"
	}
	// references: the same history, sequentially
	refAns := make([][]string, len(fam.refs))
	for j, mk := range fam.refs {
		c := mk()
		st := make([]string, count)
		for g := range keys {
			gg := g
			st[g] = timed(func() { fam.write(c, gg) })
		}
		refAns[j] = answers(c, st)
	}
	unAns := refAns[len(refAns)-1]

	mkCase := func(round int, sh []string, clean bool) vh.Case {
		var obs, descs []string
		for i, row := range rows {
			obs = append(obs, fmt.Sprintf("Ob (%s) %s %s %s %s", row.coq, idx[row.g], sh[i], refAns[0][i], unAns[i]))
			d := fmt.Sprintf("%s %s -> idx=%s sharded=%s ref=%s", row.name, keys[row.g].desc, idxShow[row.g], sh[i], refAns[0][i])
			if i < count {
				d = "[concurrent, goroutine " + fmt.Sprint(row.g) + "] " + d
			}
			descs = append(descs, d)
		}
		cls := "burst-" + kind
		return vh.Case{
			Coq:   fmt.Sprintf("CCont %s %s %s %s %s", fam.kindTerm, vh.CoqBool(cfg.xh), zu(cfg.n), vh.CoqList(keyTerms), vh.CoqList(obs)),
			Class: cls, Nontrivial: true,
			Key: fmt.Sprintf("burst:%d:%d", sub, round),
			Desc: map[string]interface{}{"kind": "burst-" + kind, "xhash": cfg.xh, "shards": cfg.n, "default_prime": cfg.deflt,
				"goroutines": count, "key_placement": []string{"one shard", "two or three shards", "spread"}[mode],
				"round": round, "rounds_run": rounds, "differs_from_reference": !clean,
				"history": descs,
				"reading": "the first " + fmt.Sprint(count) + " operations ran concurrently on a fresh container (released from a barrier); the others were made after all of them had returned"},
		}
	}
	same := func(a, b []string) bool {
		if len(a) != len(b) {
			return false
		}
		for i := range a {
			if a[i] != b[i] {
				return false
			}
		}
		return true
	}
	var cases []vh.Case
	var lastClean []string
	lastCleanRound := -1
	bad := 0
	for round := 0; round < rounds; round++ {
		c := fam.fresh()
		st := burstRun(count, round%2 == 1, func(g int) { fam.write(c, g) })
		sh := answers(c, st)
		if same(sh, refAns[0]) && same(sh, unAns) {
			lastClean, lastCleanRound = sh, round
			continue
		}
		bad++
		if bad <= 3 {
			cases = append(cases, mkCase(round, sh, false))
		}
		if st[0] == "hang" {
			break
		}
	}
	if lastClean != nil {
		cases = append(cases, mkCase(lastCleanRound, lastClean, true))
	}
	burstRounds += rounds
	burstBad += bad
	return cases
}

var burstRounds, burstBad int

func guardList(f func() []string, n int) (res []string) {
	defer func() {
		if recover() != nil {
			res = make([]string, n)
			for i := range res {
				res[i] = "RPanic"
			}
		}
	}()
	return f()
}

func strings_replaceV(s string, v int) string {
	out := ""
	for i := 0; i < len(s); i++ {
		if s[i] == '@' && i+1 < len(s) && s[i+1] == 'V' {
			out += z(int64(v))
			i++
			continue
		}
		out += string(s[i])
	}
	return out
}

func tlockFam[T comparable](cfg contCfg, keys []gkey) burstFam {
	kt := func(g int) T { return keys[g].v.(T) }
	cnts := func(l keylock.TLocker[T], g int) string {
		return guard(func() string {
			rc, wc, present := keylock.VerifKeyCounts[T](l, kt(g))
			return cntTerm(rc, wc, present, true)
		})
	}
	return burstFam{kindTerm: "KLock",
		fresh: func() interface{} {
			if cfg.xh {
				return keylock.NewTXHashTKeyLockeGrp[T](cfg.ropts...)
			}
			return keylock.NewTKeyLockeGrp[T](cfg.ropts...)
		},
		refs:  []func() interface{}{func() interface{} { return keylock.NewTKeyLocker[T]() }},
		write: func(c interface{}, g int) { c.(keylock.TLocker[T]).Lock(kt(g)) },
		wres:  func(c interface{}, g int) string { return cnts(c.(keylock.TLocker[T]), g) },
		reads: func(c interface{}, g int) []string { return nil },
		after: func(c interface{}, g int) []string {
			l := c.(keylock.TLocker[T])
			if st := timed(func() { l.Unlock(kt(g)) }); st != "ok" {
				return []string{"RPanic"}
			}
			return []string{cnts(l, g)}
		},
		wop:   func(k string) string { return "OLock " + k },
		rops:  func(k string) []string { return nil },
		aops:  func(k string) []string { return []string{"OUnlock " + k} },
		names: [3][]string{{"Lock"}, nil, {"Unlock"}}}
}
