package main

// Sequential histories: one goroutine calls the group, every call returns before the
// next one starts; after every call the store and (with the logging facade) the caches
// are read key by key.

import (
	"encoding/json"
	"fmt"
	"math"
	"math/rand"
	"sort"
	"strings"

	"verifharness/vh"
)

type seqSpec struct {
	G     grpSpec  `json:"g"`
	Steps []opSpec `json:"steps"`
}

type stepObs struct {
	Events []event
	Res    result
	Worker int // cache index that served the operation's cache calls (-1 none / not observable)
	CacheV []int64
	CacheH []bool
	StoreV []int64
	StoreH []bool
}

func runSeq(s *seqSpec) (obs []stepObs, stopped bool) {
	g := &s.G
	g.Init = map[int64]int64{}
	for _, kv := range g.InitL {
		g.Init[kv[0]] = kv[1]
	}
	h := newHist(g.Init)
	grp := buildGroup(g, h)
	for i, o := range s.Steps {
		oc := &opCtx{id: i, spec: o}
		m := h.mark()
		r := callOpTimed(grp, h, g.Kind, oc)
		so := stepObs{Events: h.since(m), Res: r, Worker: -1}
		for _, e := range so.Events {
			if e.W >= 0 {
				if so.Worker >= 0 && so.Worker != e.W {
					so.Worker = 1 << 20 // served by two caches: no model state agrees
				} else if so.Worker < 0 {
					so.Worker = e.W
				}
			}
		}
		for _, k := range g.Univ {
			v, ok := h.storeValue(k)
			so.StoreV, so.StoreH = append(so.StoreV, v), append(so.StoreH, ok)
			if g.Wrapped {
				cv, cok := h.cachedValue(g.Kind, k)
				so.CacheV, so.CacheH = append(so.CacheV, cv), append(so.CacheH, cok)
			}
		}
		obs = append(obs, so)
		if r.Kind == "hang" {
			return obs, false
		}
	}
	return obs, stopGroup(grp)
}

func seqCase(s *seqSpec, obs []stepObs, stopped bool) vh.Case {
	g := &s.G
	lvl := "ObsStore"
	keep := func(e event) bool { return e.isStore() }
	if g.Wrapped {
		lvl = "ObsAll"
		keep = func(e event) bool { return !e.isRead() }
	}
	steps := []string{}
	desc := []map[string]interface{}{}
	hits, writes, fails := 0, 0, 0
	for i, so := range obs {
		o := s.Steps[i]
		wk := "None"
		if g.Wrapped && so.Worker >= 0 {
			wk = "(Some " + vh.CoqZ(int64(so.Worker)) + ")"
		}
		cache := "[]"
		if g.Wrapped {
			cache = coqSnap(so.CacheV, so.CacheH)
		}
		steps = append(steps, fmt.Sprintf("mkStep %s %s (mkObs %s %s %s %s %s)", o.coq(), coqFaults(o.Faults),
			coqEvents(so.Events, keep), so.Res.coq(), wk, cache, coqSnap(so.StoreV, so.StoreH)))
		d := map[string]interface{}{"op": o.String(), "events": strEvents(so.Events), "result": so.Res.String()}
		st := map[string]int64{}
		ca := map[string]int64{}
		for j, k := range g.Univ {
			if so.StoreH[j] {
				st[fmt.Sprint(k)] = so.StoreV[j]
			}
			if g.Wrapped && so.CacheH[j] {
				ca[fmt.Sprint(k)] = so.CacheV[j]
			}
		}
		d["store"] = st
		if g.Wrapped {
			d["cache"] = ca
			d["worker"] = so.Worker
		}
		desc = append(desc, d)
		sawLoad := false
		for _, e := range so.Events {
			if e.isStore() {
				if e.R.Kind == "ok" && e.Kind != "load" {
					writes++
				}
				if e.R.Kind == "err" {
					fails++
				}
				if e.Kind == "load" {
					sawLoad = true
				}
			}
			if e.isRead() && e.Has {
				hits++
			}
		}
		if !g.Wrapped && o.Op == opGet && so.Res.Kind == "ok" && !sawLoad {
			hits++
		}
	}
	if !stopped {
		// the group did not shut down (or a call hung): one more step no model run produces
		steps = append(steps, "mkStep (OGet 0%Z) [] (mkObs [] RHang None [] [])")
		desc = append(desc, map[string]interface{}{"op": "Stop/WaitStop or a call did not return within 10 s"})
	}
	rp, _ := json.Marshal(s)
	return vh.Case{
		Coq:        fmt.Sprintf("CSeq %s %s %s %s", lvl, coqCfg(g), vh.CoqZList(g.Univ), vh.CoqList(steps)),
		Class:      fmt.Sprintf("seq/%s/%s/w%d", map[bool]string{true: "wrapped", false: "plain"}[g.Wrapped], g.facade(), g.N),
		Nontrivial: hits > 0 && writes > 0,
		Desc: map[string]interface{}{"mode": "sequential", "workers": g.N, "facade": g.facade(), "key_type": kindNames[g.Kind],
			"logging_facade": g.Wrapped, "universe": g.Univ, "initial_store": g.InitL, "steps": desc,
			"cache_hits": hits, "store_writes": writes, "failed_callbacks": fails},
		Replay: "seq:" + string(rp),
	}
}

// ---------------------------------------------------------------- generator

var workerChoices = []int{1, 1, 2, 2, 3, 3, 5, 127}
var capChoices = []int{-1, -1, -1, 1, 1, 2, 2, 3, 100, 0}

func genGroup(r *rand.Rand, focus string) grpSpec {
	g := grpSpec{}
	for try := 0; try < 200; try++ {
		g = grpSpec{Wrapped: r.Intn(4) != 0, N: workerChoices[r.Intn(len(workerChoices))], Cap: capChoices[r.Intn(len(capChoices))], Kind: r.Intn(nKinds)}
		cls := fmt.Sprintf("%s/%s/w%d", map[bool]string{true: "wrapped", false: "plain"}[g.Wrapped], g.facade(), g.N)
		if !strings.HasPrefix(focus, "seq/") || focus == "seq/"+cls {
			break
		}
	}
	// the universe: a few keys, often colliding on one worker
	nk := 2 + r.Intn(4)
	seen := map[int64]bool{}
	add := func(k int64) {
		if !seen[k] && len(g.Univ) < nk {
			if g.Kind == kUInt64CRC && k < 0 {
				k = -k
			}
			if seen[k] {
				return
			}
			seen[k] = true
			g.Univ = append(g.Univ, k)
		}
	}
	base := int64(r.Intn(12))
	add(base)
	for len(g.Univ) < nk {
		switch r.Intn(6) {
		case 0:
			add(base + int64(g.N)*int64(1+r.Intn(3))) // same worker as base for the identity hashes
		case 1:
			add(-base)
		case 2:
			add(-int64(r.Intn(9)))
		case 3:
			if (g.Kind == kInt || g.Kind == kInt64) && r.Intn(6) == 0 {
				add(math.MinInt64) // locHash cannot make it non-negative
			} else {
				add(int64(r.Intn(40)))
			}
		default:
			add(int64(r.Intn(16)))
		}
	}
	for _, k := range g.Univ {
		if r.Intn(10) < 3 {
			g.InitL = append(g.InitL, [2]int64{k, int64(r.Intn(100))})
		}
	}
	return g
}

func genFaults(r *rand.Rand, rate float64) []int {
	fs := []int{}
	for i := 0; i < 3; i++ {
		x := r.Float64()
		switch {
		case x < rate:
			fs = append(fs, 1)
		case x < rate*1.4:
			fs = append(fs, 2)
		default:
			fs = append(fs, 0)
		}
	}
	for len(fs) > 0 && fs[len(fs)-1] == 0 {
		fs = fs[:len(fs)-1]
	}
	return fs
}

var opWeights = []int{opGet, opGet, opAdd, opAdd, opAdd, opUpdate, opUpdate, opUpdate, opDelete, opDelete, opUpdOrAdd, opUpdOrAdd, opUpsertLoad, opUpsertLoad, opUpsertRenew, opUpsertRenew}

func genSteps(r *rand.Rand, g *grpSpec, n int) []opSpec {
	rate := []float64{0, 0.1, 0.25, 0.5}[r.Intn(4)]
	probe := []int{2, 5, 8}[r.Intn(3)]
	if !g.Wrapped {
		probe = 8
	}
	hot := g.Univ[r.Intn(len(g.Univ))]
	steps := []opSpec{}
	for len(steps) < n {
		k := hot
		if r.Intn(10) < 4 {
			k = g.Univ[r.Intn(len(g.Univ))]
		}
		o := opSpec{Op: opWeights[r.Intn(len(opWeights))], K: k, D: int64(r.Intn(100)), Faults: genFaults(r, rate)}
		if o.Op == opGet || o.Op == opDelete {
			o.D = 0
		}
		steps = append(steps, o)
		if r.Intn(10) < probe {
			// a probe: DoGet whose load callback fails, so that a miss changes nothing
			steps = append(steps, opSpec{Op: opGet, K: k, Faults: []int{1}})
		}
	}
	return steps
}

func genSeq(r *rand.Rand, focus string, maxSteps int) *seqSpec {
	g := genGroup(r, focus)
	n := 6 + r.Intn(maxSteps-5)
	return &seqSpec{G: g, Steps: genSteps(r, &g, n)}
}

func sortedKeys(m map[string]int) []string {
	ks := []string{}
	for k := range m {
		ks = append(ks, k)
	}
	sort.Strings(ks)
	return ks
}
