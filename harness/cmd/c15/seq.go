package main

// Sequential histories: one goroutine calls the group, every call returns before the
// next one starts; after every call the store and (with the logging facade) the caches
// are read key by key.

import (
	"encoding/json"
	"fmt"
	"math/rand"
	"sort"
	"strings"

	"verifharness/vh"
)

type seqSpec struct {
	G     grpSpec  `json:"g"`
	Steps []opSpec `json:"steps"`
}

type stepObs struct {
	Events    []event
	Res       result
	Cancelled bool // a callback of this call cancelled the caller's context
	Worker    int  // cache index that served the operation's cache calls (-1 none / not observable)
	CacheV    []val
	CacheH    []bool
	StoreV    []val
}

func runSeq(s *seqSpec) (obs []stepObs, stopped bool) {
	g := &s.G
	g.Init = map[int64]int64{}
	for _, kv := range g.InitL {
		g.Init[kv[0]] = kv[1]
	}
	h := newHist(g.Init)
	grp := buildGroup(g, h)
	snapshot := func(so *stepObs) {
		so.CacheV, so.CacheH, so.StoreV = nil, nil, nil
		for _, k := range g.Univ {
			so.StoreV = append(so.StoreV, h.storeValue(k))
			if g.Wrapped {
				cv, cok := h.cachedValue(g.Kind, k)
				so.CacheV, so.CacheH = append(so.CacheV, cv), append(so.CacheH, cok)
			}
		}
	}
	worker := func(so *stepObs) {
		so.Worker = -1
		for _, e := range so.Events {
			if e.W >= 0 {
				if so.Worker >= 0 && so.Worker != e.W {
					so.Worker = 1 << 20 // served by two caches: no model state agrees
				} else if so.Worker < 0 {
					so.Worker = e.W
				}
			}
		}
	}
	// Keys are tagged with their operation only where that is needed to tell two calls' cache events apart (histories
	// with cancellations); otherwise the group is handed the real hasher.go key values, also behind the logging facade.
	tag := false
	for _, o := range s.Steps {
		tag = tag || o.cancels()
	}
	tag = tag && g.Wrapped
	for i := 0; i < len(s.Steps); i++ {
		o := s.Steps[i]
		oc := newOpCtx(i, o)
		oc.tagged = tag
		m := h.mark()
		r := callOpTimed(grp, h, g.Kind, oc)
		if r.Kind == "hang" {
			so := stepObs{Events: h.since(m), Res: r}
			worker(&so)
			snapshot(&so)
			return append(obs, so), false
		}
		if !o.cancels() || i+1 >= len(s.Steps) {
			so := stepObs{Events: h.since(m), Res: r, Cancelled: oc.wasCancelled()}
			worker(&so)
			snapshot(&so)
			obs = append(obs, so)
			continue
		}
		// The caller of a call whose context is cancelled may return before its handler has finished.  The next step
		// is a barrier (a failing delete of the same key: same worker, changes nothing): when it has returned, the
		// handler before it in the queue has finished.  The two calls' events are told apart by the operation they
		// name; both steps get the snapshot taken after the barrier.
		i++
		bo := s.Steps[i]
		boc := newOpCtx(i, bo)
		boc.tagged = tag
		br := callOpTimed(grp, h, g.Kind, boc)
		all := h.since(m)
		so := stepObs{Res: r, Cancelled: oc.wasCancelled()}
		bso := stepObs{Res: br}
		for _, e := range all {
			if e.Op == boc.id {
				bso.Events = append(bso.Events, e)
			} else {
				so.Events = append(so.Events, e)
			}
		}
		worker(&so)
		worker(&bso)
		snapshot(&so)
		snapshot(&bso)
		obs = append(obs, so, bso)
		if br.Kind == "hang" {
			return obs, false
		}
	}
	return obs, stopGroup(grp) && h.apiNote == ""
}

func seqCase(s *seqSpec, obs []stepObs, stopped bool) vh.Case {
	g := &s.G
	lvl := "ObsStore"
	keep := func(e event) bool { return e.isStore() }
	if g.Wrapped {
		lvl = "ObsAll"
		keep = func(e event) bool { return !e.isRead() }
	}
	steps := []string{}
	desc := []map[string]interface{}{}
	hits, writes, fails := 0, 0, 0
	for i, so := range obs {
		o := s.Steps[i]
		wk := "None"
		if g.Wrapped && so.Worker >= 0 {
			wk = "(Some " + vh.CoqZ(int64(so.Worker)) + ")"
		}
		cache := "[]"
		if g.Wrapped {
			cache = coqCacheSnap(so.CacheV, so.CacheH)
		}
		steps = append(steps, fmt.Sprintf("mkStep %s %s %s (mkObs %s %s %s %s %s)", o.coq(), coqFaults(o.Faults), vh.CoqBool(so.Cancelled),
			coqEvents(so.Events, keep), so.Res.coq(), wk, cache, coqStoreSnap(so.StoreV)))
		d := map[string]interface{}{"op": o.String(), "events": strEvents(so.Events), "result": so.Res.String()}
		if so.Cancelled {
			d["context_cancelled_by_a_callback"] = true
		}
		st := map[string]string{}
		ca := map[string]string{}
		for j, k := range g.Univ {
			if !so.StoreV[j].Nil {
				st[fmt.Sprint(k)] = so.StoreV[j].String()
			}
			if g.Wrapped && so.CacheH[j] {
				ca[fmt.Sprint(k)] = so.CacheV[j].String()
			}
		}
		d["store"] = st
		if g.Wrapped {
			d["cache"] = ca
			d["worker"] = so.Worker
		}
		desc = append(desc, d)
		sawLoad := false
		for _, e := range so.Events {
			if e.isStore() {
				if e.R.Kind == "ok" && e.Kind != "load" {
					writes++
				}
				if e.R.Kind == "err" {
					fails++
				}
				if e.Kind == "load" {
					sawLoad = true
				}
			}
			if e.isRead() && e.Has {
				hits++
			}
		}
		if !g.Wrapped && o.Op == opGet && so.Res.Kind == "ok" && !sawLoad {
			hits++
		}
	}
	if !stopped {
		// the group did not shut down (or a call hung): one more step no model run produces
		steps = append(steps, "mkStep (OGet 0%Z) [] false (mkObs [] RHang None [] [])")
		desc = append(desc, map[string]interface{}{"op": "Stop/WaitStop or a call did not return within 10 s"})
	}
	rp, _ := json.Marshal(s)
	return vh.Case{
		Coq:        fmt.Sprintf("CSeq %s %s %s %s", lvl, coqCfg(g), vh.CoqZList(g.Univ), vh.CoqList(steps)),
		Class:      fmt.Sprintf("seq/%s/%s/w%d", map[bool]string{true: "wrapped", false: "plain"}[g.Wrapped], g.facade(), g.N),
		Nontrivial: hits > 0 && writes > 0,
		Desc: map[string]interface{}{"mode": "sequential", "workers": g.N, "facade": g.facade(), "key_type": kindNames[g.Kind],
			"logging_facade": g.Wrapped, "universe": g.Univ, "initial_store": g.InitL, "steps": desc,
			"cache_hits": hits, "store_writes": writes, "failed_callbacks": fails},
		Replay: "seq:" + string(rp),
	}
}

// ---------------------------------------------------------------- generator

var workerChoices = []int{1, 1, 2, 2, 3, 3, 5, 127}
var capChoices = []int{-1, -1, -1, 0, 1, 2, 3, 4, 5, 6, 100}

// a datum: payload 0..99 plus, in the hundreds, what kind of value the store will make of it - 0: a plain int64
// (weighs 1 in the LRU), s+1: a cache.Value of Size() = s.  Sizes sit at the boundaries of the capacity.
func genDatum(r *rand.Rand, g *grpSpec) int64 {
	p := int64(r.Intn(100))
	if r.Intn(2) == 0 {
		return p
	}
	c := g.Cap
	sizes := []int{0, 1, 2}
	if c >= 1 && c <= 6 {
		sizes = []int{0, 1, c - 1, c, c + 1, 3 * c}
	}
	return p + 100*int64(sizes[r.Intn(len(sizes))]+1)
}

func genGroup(r *rand.Rand, focus string) grpSpec {
	g := grpSpec{}
	for try := 0; try < 200; try++ {
		g = grpSpec{Wrapped: r.Intn(4) != 0, N: workerChoices[r.Intn(len(workerChoices))], Cap: capChoices[r.Intn(len(capChoices))], Kind: r.Intn(nKinds)}
		cls := fmt.Sprintf("%s/%s/w%d", map[bool]string{true: "wrapped", false: "plain"}[g.Wrapped], g.facade(), g.N)
		if !strings.HasPrefix(focus, "seq/") || focus == "seq/"+cls {
			break
		}
	}
	if !kindCacheable(g.Kind) {
		g.Wrapped = true // mux.Bytes keys: only the logging facade can stand between them and a real cache
	}
	genUniverse(r, &g, 2+r.Intn(4))
	for _, k := range g.Univ {
		if r.Intn(10) < 3 {
			g.InitL = append(g.InitL, [2]int64{k, genDatum(r, &g)})
		}
	}
	return g
}

// the universe: a few keys of the group's key type - the boundaries of the type (min, max, 0, and for the unsigned
// 64-bit types values >= 2^63, whose HashedInt() is negative), small values, and keys colliding on one worker
func genUniverse(r *rand.Rand, g *grpSpec, nk int) {
	lo, hi := kindRange(g.Kind)
	seen := map[int64]bool{}
	add := func(k int64) {
		if k < lo || k > hi || seen[k] || len(g.Univ) >= nk {
			return
		}
		seen[k] = true
		g.Univ = append(g.Univ, k)
	}
	base := int64(r.Intn(12))
	if r.Intn(2) == 0 {
		// the first key (the one most calls go to) is often a boundary of the type rather than a small number
		wide := []int64{lo, hi, lo + 1, hi - 1, hi - int64(r.Intn(50)), lo + int64(r.Intn(50)), 1 << 31, 1<<32 + int64(r.Intn(9)), 1<<40 + int64(r.Intn(99)), -1 - int64(r.Intn(9))}
		if b := wide[r.Intn(len(wide))]; b >= lo && b <= hi {
			base = b
		}
	}
	if x, y, ok := collidingPair(g.Kind, r); ok && r.Intn(2) == 0 {
		// two keys that are different but hash alike: one worker, and still two cache entries and two rows
		base = x
		add(x)
		add(y)
	}
	add(base)
	switch g.Kind {
	case kInt, kInt64, kUInt64, kUInt:
		add(lo) // always there: the key whose hash is the smallest int (Int64(MinInt64), UInt64(1<<63)): defect 21
	}
	for tries := 0; len(g.Univ) < nk && tries < 200; tries++ {
		switch r.Intn(9) {
		case 0:
			add(base + int64(g.N)*int64(1+r.Intn(3))) // same worker as base for the identity hashes
		case 1:
			add(-base)
		case 2:
			add(-int64(r.Intn(9)))
		case 3:
			add(lo) // for Int / Int64 / UInt64 / UInt: the hash locHash cannot make non-negative
		case 4:
			add(hi)
		case 5:
			add([]int64{lo + 1, hi - 1, lo + int64(g.N), hi - int64(g.N), -1, 1<<31 - 1, 1 << 31, 1<<32 - 1, 1 << 32}[r.Intn(9)])
		case 6:
			add(int64(r.Intn(40)))
		default:
			add(int64(r.Intn(16)))
		}
	}
}

func genFaults(r *rand.Rand, rate, nilRate, cancelRate float64) []int {
	fs := []int{}
	for i := 0; i < 3; i++ {
		x := r.Float64()
		f := 0
		switch {
		case x < rate:
			f = 1
		case x < rate*1.4:
			f = 2
		case x < rate*1.4+nilRate:
			f = 3 // "nil, no error"
		}
		if r.Float64() < cancelRate {
			f += 10 * (1 + r.Intn(2)) // the callback cancels the caller's context: on entry / before a successful return
		}
		fs = append(fs, f)
	}
	for len(fs) > 0 && fs[len(fs)-1] == 0 {
		fs = fs[:len(fs)-1]
	}
	return fs
}

var opWeights = []int{opGet, opGet, opAdd, opAdd, opAdd, opUpdate, opUpdate, opUpdate, opDelete, opDelete, opUpdOrAdd, opUpdOrAdd, opUpsertLoad, opUpsertLoad, opUpsertRenew, opUpsertRenew}

func genSteps(r *rand.Rand, g *grpSpec, n int, cancels bool) []opSpec {
	rate := []float64{0, 0.1, 0.25, 0.5}[r.Intn(4)]
	nilRate := []float64{0, 0.05, 0.15}[r.Intn(3)]
	cancelRate := 0.0
	if cancels {
		cancelRate = []float64{0, 0, 0.08, 0.2}[r.Intn(4)]
	}
	probe := []int{2, 5, 8}[r.Intn(3)]
	if !g.Wrapped {
		probe = 8
	}
	hot := g.Univ[0]
	if r.Intn(10) < 4 {
		hot = g.Univ[r.Intn(len(g.Univ))]
	}
	steps := []opSpec{}
	for len(steps) < n {
		k := hot
		if r.Intn(10) < 4 {
			k = g.Univ[r.Intn(len(g.Univ))]
		}
		o := opSpec{Op: opWeights[r.Intn(len(opWeights))], K: k, D: genDatum(r, g), Faults: genFaults(r, rate, nilRate, cancelRate)}
		if o.Op == opGet || o.Op == opDelete {
			o.D = 0
		}
		steps = append(steps, o)
		if o.cancels() {
			// the barrier that lets the harness wait for the handler of a call whose caller may have left early
			steps = append(steps, opSpec{Op: opDelete, K: k, Faults: []int{1}})
		}
		if r.Intn(10) < probe {
			// a probe: DoGet whose load callback fails, so that a miss changes nothing
			steps = append(steps, opSpec{Op: opGet, K: k, Faults: []int{1}})
		}
	}
	return steps
}

// idx: position of the history in the run; the key types of hasher.go take turns
func genSeq(r *rand.Rand, focus string, maxSteps int, idx int) *seqSpec {
	g := genGroup(r, focus)
	if !strings.HasPrefix(focus, "seq/") {
		g.Kind = idx % nKinds
		g.Univ, g.InitL = nil, nil
		if !kindCacheable(g.Kind) {
			g.Wrapped = true
		}
		genUniverse(r, &g, 2+r.Intn(4))
		for _, k := range g.Univ {
			if r.Intn(10) < 3 {
				g.InitL = append(g.InitL, [2]int64{k, genDatum(r, &g)})
			}
		}
	}
	n := 6 + r.Intn(maxSteps-5)
	return &seqSpec{G: g, Steps: genSteps(r, &g, n, true)}
}

func sortedKeys(m map[string]int) []string {
	ks := []string{}
	for k := range m {
		ks = append(ks, k)
	}
	sort.Strings(ks)
	return ks
}

// ---------------------------------------------------------------- deterministic class: a value together with an error
//
// Store callbacks that FAIL and hand back a non-nil value next to their error (script entries 4: injected error, 5:
// the error that reads as not-found; ORM style `return &row, err`).  A failed callback is a failed callback: nothing
// of what it handed back may reach the cache or the caller.  No randomness: the members are a fixed list (two
// histories x facades x worker counts x key types), emitted after every other class.
func valueWithErrorSpecs() []*seqSpec {
	type cfg struct {
		wrapped bool
		n, cap  int
		kind    int
	}
	cfgs := []cfg{
		{true, 1, -1, kInt64}, {true, 3, -1, kString}, {true, 2, 1, kInt}, {true, 1, 2, kUInt64CRC}, {true, 5, 100, kInt32},
		{false, 1, -1, kInt64}, {false, 3, -1, kUInt32CRC}, {false, 2, 2, kInt64CRC}, {false, 1, 100, kString},
	}
	out := []*seqSpec{}
	for _, c := range cfgs {
		for variant := 0; variant < 2; variant++ {
			k1, k2 := int64(3), int64(8)
			g := grpSpec{Wrapped: c.wrapped, N: c.n, Cap: c.cap, Kind: c.kind, Univ: []int64{k1, k2}, InitL: [][2]int64{{k1, 6}}}
			st := func(op int, k, d int64, f ...int) opSpec { return opSpec{Op: op, K: k, D: d, Faults: f} }
			probe := func(k int64) opSpec { return opSpec{Op: opGet, K: k, Faults: []int{1}} } // a miss changes nothing
			var steps []opSpec
			if variant == 0 {
				// the load of a Get fails with a value: row present (k1) and row absent (k2)
				steps = []opSpec{
					st(opGet, k1, 0, 4), probe(k1), st(opAdd, k1, 7), probe(k1), st(opGet, k1, 0, 5), probe(k1),
					st(opGet, k2, 0, 5), probe(k2), st(opGet, k2, 0, 4), probe(k2), st(opAdd, k2, 9), st(opGet, k2, 0, 4),
					st(opGet, k1, 0), st(opGet, k1, 0, 4), st(opDelete, k1, 0), st(opGet, k1, 0, 4), probe(k1), st(opGet, k1, 0, 5), probe(k1),
				}
			} else {
				// every other callback position: load / update / add / upsert / reload / delete, miss and hit paths
				steps = []opSpec{
					st(opUpdate, k1, 11, 4), probe(k1), st(opUpdate, k1, 12, 5), probe(k1), st(opUpdate, k1, 13, 0, 4), probe(k1),
					st(opUpdOrAdd, k2, 14, 5, 4), probe(k2), st(opUpdOrAdd, k2, 15, 4), probe(k2), st(opUpdOrAdd, k2, 16, 5, 5), probe(k2),
					st(opAdd, k2, 17, 4), probe(k2), st(opAdd, k2, 18, 5), probe(k2),
					st(opUpsertLoad, k1, 19, 4), probe(k1), st(opUpsertLoad, k1, 20, 0, 4), probe(k1), st(opUpsertLoad, k1, 21, 0, 5), probe(k1),
					st(opUpsertRenew, k1, 22, 4), probe(k1), st(opUpsertRenew, k2, 23, 5), probe(k2),
					st(opGet, k1, 0), // k1 cached from here: the hit paths
					st(opUpdate, k1, 24, 4), probe(k1), st(opUpdOrAdd, k1, 25, 5), probe(k1), st(opUpsertLoad, k1, 26, 4), probe(k1),
					st(opUpsertRenew, k1, 27, 5), probe(k1), st(opDelete, k1, 0, 4), probe(k1), st(opDelete, k1, 0, 5), probe(k1),
					st(opUpdate, k1, 28), st(opDelete, k1, 0), st(opGet, k1, 0, 4), probe(k1), st(opUpdOrAdd, k1, 29, 5, 0), probe(k1),
				}
			}
			out = append(out, &seqSpec{G: g, Steps: steps})
		}
	}
	return out
}
