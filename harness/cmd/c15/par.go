package main

// Truly parallel callers.
//
// (1) "hashers are functions": eight goroutines, released together by a spin barrier, call HashedInt of their own keys
// over and over; every answer must be the value a single goroutine gets (HashedInt runs on the caller's goroutine, and
// it decides which worker serialises a key).
//
// (2) eight goroutines, each on its OWN keys, drive one group at the same instant (spin barrier before every call).
// A key is only ever touched by its goroutine, so per key the history is sequential and - with the map facade, where
// keys do not compete for room - it is exactly the model's history of that key alone: every goroutine's observation is
// an ordinary sequential case (store callbacks, results, the key's row after every call).  Nothing is inferred from
// timing: each call has returned before its goroutine reads the row.

import (
	"fmt"
	"math/rand"
	"sync"
	"sync/atomic"

	"github.com/pinealctx/neptune/syncx/pipe/mux"
	"verifharness/vh"
)

type spinBarrier struct {
	n     int32
	count int32
	gen   int32
}

func (b *spinBarrier) wait() {
	g := atomic.LoadInt32(&b.gen)
	if atomic.AddInt32(&b.count, 1) == b.n {
		atomic.StoreInt32(&b.count, 0)
		atomic.AddInt32(&b.gen, 1)
		return
	}
	for atomic.LoadInt32(&b.gen) == g {
	}
}

const parG = 8

// (1)
func hashCase(kind int, r *rand.Rand, iters int) vh.Case {
	lo, hi := kindRange(kind)
	keys := make([][]int64, parG)
	for g := range keys {
		for len(keys[g]) < 3 {
			k := lo + r.Int63n(1<<20)
			if r.Intn(2) == 0 {
				k = hi - r.Int63n(1<<20)
			}
			if k < lo || k > hi {
				k = int64(r.Intn(100))
			}
			keys[g] = append(keys[g], k)
		}
	}
	ref := make([][]int, parG)
	for g := range keys {
		for _, k := range keys[g] {
			ref[g] = append(ref[g], mkKey(kind, k).HashedInt())
		}
	}
	seen := make([][]map[int]bool, parG)
	bar := &spinBarrier{n: parG}
	var wg sync.WaitGroup
	for g := 0; g < parG; g++ {
		seen[g] = make([]map[int]bool, len(keys[g]))
		ks := make([]mux.Hashed2Int, len(keys[g]))
		for i, k := range keys[g] {
			seen[g][i] = map[int]bool{}
			ks[i] = mkKey(kind, k)
		}
		wg.Add(1)
		go func(g int) {
			defer wg.Done()
			bar.wait()
			for it := 0; it < iters; it++ {
				for i, k := range ks {
					h := k.HashedInt()
					if h != ref[g][i] {
						seen[g][i][h] = true
					}
				}
			}
		}(g)
	}
	wg.Wait()
	pairs := []string{}
	bad := []string{}
	for g := range keys {
		for i, k := range keys[g] {
			pairs = append(pairs, fmt.Sprintf("(%s, %s)", vh.CoqZ(int64(ref[g][i])), vh.CoqZ(int64(ref[g][i]))))
			n := 0
			for h := range seen[g][i] {
				if n < 3 {
					pairs = append(pairs, fmt.Sprintf("(%s, %s)", vh.CoqZ(int64(ref[g][i])), vh.CoqZ(int64(h))))
					bad = append(bad, fmt.Sprintf("key %d: HashedInt() = %d on one goroutine alone, %d while others were hashing", k, ref[g][i], h))
				}
				n++
			}
		}
	}
	return vh.Case{Coq: "CHash " + vh.CoqList(pairs), Class: "hash/" + kindNames[kind], Nontrivial: true,
		Desc: map[string]interface{}{"mode": "HashedInt of the same key from 8 goroutines at once", "key_type": kindNames[kind],
			"calls_per_goroutine": iters * 3, "answers_that_differ": bad}}
}

// (2)
func runPar(r *rand.Rand, kind int, rounds int) []vh.Case {
	n := []int{2, 3, 5}[r.Intn(3)]
	lo, hi := kindRange(kind)
	specs := make([]*seqSpec, parG)
	used := map[int64]bool{}
	init := map[int64]int64{}
	for g := 0; g < parG; g++ {
		gs := grpSpec{Wrapped: false, N: n, Cap: -1, Kind: kind}
		for len(gs.Univ) < 2 {
			k := int64(r.Intn(5000))
			if r.Intn(3) == 0 {
				k = hi - int64(r.Intn(5000))
			}
			if k < lo || k > hi || used[k] {
				continue
			}
			used[k] = true
			gs.Univ = append(gs.Univ, k)
			if r.Intn(2) == 0 {
				d := int64(r.Intn(100))
				gs.InitL = append(gs.InitL, [2]int64{k, d})
				init[k] = d
			}
		}
		steps := genSteps(r, &gs, rounds, false)
		specs[g] = &seqSpec{G: gs, Steps: steps[:rounds]}
	}
	h := newHist(init)
	all := &grpSpec{Wrapped: false, N: n, Cap: -1, Kind: kind}
	grp := buildGroup(all, h)
	bar := &spinBarrier{n: parG}
	obs := make([][]stepObs, parG)
	var wg sync.WaitGroup
	for g := 0; g < parG; g++ {
		wg.Add(1)
		go func(g int) {
			defer wg.Done()
			s := specs[g]
			for i, o := range s.Steps {
				oc := newOpCtx(g*100000+i, o)
				bar.wait() // everybody calls - and hashes its key - at the same instant
				res := callOp(grp, h, kind, oc)
				so := stepObs{Res: res, Worker: -1}
				for _, k := range s.G.Univ {
					so.StoreV = append(so.StoreV, h.storeValue(k))
				}
				obs[g] = append(obs[g], so)
			}
		}(g)
	}
	wg.Wait()
	stopped := stopGroup(grp) && h.apiNote == ""
	// the store callbacks of every call, by the operation they name
	byOp := map[int][]event{}
	for _, e := range h.since(0) {
		byOp[e.Op] = append(byOp[e.Op], e)
	}
	cases := []vh.Case{}
	for g := 0; g < parG; g++ {
		for i := range obs[g] {
			obs[g][i].Events = byOp[g*100000+i]
		}
		c := seqCase(specs[g], obs[g], stopped)
		c.Class = "par/" + kindNames[kind] + fmt.Sprintf("/w%d", n)
		c.Replay = ""
		if d, ok := c.Desc.(map[string]interface{}); ok {
			d["mode"] = "one of 8 goroutines driving the group at the same instant, each on its own keys"
		}
		cases = append(cases, c)
	}
	return cases
}
