package main

// Instrumentation shared by the sequential and the scheduled runs of C15:
// keys of the hasher.go types, the in-memory store behind the five callbacks
// (scripted failures, per-key write counter, event log), the logging cache
// facade put around the real FacadeMap / FacadeLRU, and the printing of
// observations as Coq terms of C15_Model / C15_Check.

import (
	"context"
	"errors"
	"fmt"
	"math/rand"
	"strconv"
	"strings"
	"sync"
	"time"

	"github.com/pinealctx/neptune/syncx/pipe/mux"
	"verifharness/vh"
)

// ---------------------------------------------------------------- keys

const (
	kInt = iota
	kInt64
	kInt32
	kInt64CRC
	kUInt64CRC
	kString
	kInt32CRC
	kIntCRC
	kByte
	kInt8
	kInt16
	kUInt16
	kUInt32
	kUInt64
	kUInt
	kUInt32CRC
	kUIntCRC
	kBytes
	nKinds
)

var kindNames = []string{"Int", "Int64", "Int32", "Int64CRC", "UInt64CRC", "String", "Int32CRC", "IntCRC",
	"Byte", "Int8", "Int16", "UInt16", "UInt32", "UInt64", "UInt", "UInt32CRC", "UIntCRC", "Bytes"}

// the ids a key type can carry: a key is written id everywhere (for the unsigned 64-bit types the value is uint64(id),
// so a negative id stands for a value >= 2^63)
func kindRange(kind int) (lo, hi int64) {
	switch kind {
	case kByte:
		return 0, 255
	case kInt8:
		return -128, 127
	case kInt16:
		return -32768, 32767
	case kUInt16:
		return 0, 65535
	case kInt32, kInt32CRC:
		return -2147483648, 2147483647
	case kUInt32, kUInt32CRC:
		return 0, 4294967295
	}
	return -9223372036854775808, 9223372036854775807
}

// for these types HashedInt() is the id itself (a plain conversion to int); the others hash with crc32
func kindIdentity(kind int) bool {
	switch kind {
	case kInt, kInt64, kInt32, kByte, kInt8, kInt16, kUInt16, kUInt32, kUInt64, kUInt:
		return true
	}
	return false
}

// mux.Bytes is a []byte: it hashes, but it cannot be a key of either real cache facade (not comparable)
func kindCacheable(kind int) bool { return kind != kBytes }

// Keys that differ but hash alike (same worker by construction, yet distinct cache entries and distinct rows).
// collStr: pairs of strings with the same crc32.ChecksumIEEE; a String / Bytes key with id collBase+i is collStr[i].
// collInt: pairs of 64-bit values whose 8-byte little-endian crc32 is the same (Int64CRC, UInt64CRC, IntCRC, UIntCRC).
const collBase = int64(1) << 41

var collStr = []string{"plumless", "buckeroo", "ckzwc", "vmntqn", "vjdmuh", "dacse", "vckxen", "mnvcc", "ucyzdxt", "ckdtck",
	"ecdyzva", "pcnlyn", "vyblqa", "wgbwl", "mnvjy", "vckxlt", "vvqhwx", "xtfqu", "dhsq", "nsrymbv", "kbivd", "veggpi",
	"mztds", "iybdmcw", "yidgrxn", "upucmw"}
var collInt = [][2]int64{{2416989667, 5559636898}, {2417116371, 5559763602}, {2417290589, 5559937820}, {2417417293, 5560064524},
	{2417528159, 5560175390}, {2417654863, 5560302094}, {2417765729, 5560412960}, {2417892433, 5560539664},
	{2417939947, 5560587178}, {2484126949, 5626774180}, {2484237815, 5626885046}, {2484364519, 5627011750},
	{2484475385, 5627122616}, {2484602089, 5627249320}}

func keyText(id int64) string {
	if id >= collBase && id < collBase+int64(len(collStr)) {
		return collStr[id-collBase]
	}
	return "k" + strconv.FormatInt(id, 10)
}
func textKey(t string) (int64, bool) {
	for i, c := range collStr {
		if c == t {
			return collBase + int64(i), true
		}
	}
	v, err := strconv.ParseInt(strings.TrimPrefix(t, "k"), 10, 64)
	return v, err == nil
}

// a pair of distinct keys of this type with the same HashedInt(), if the type has such pairs
func collidingPair(kind int, r *rand.Rand) (a, b int64, ok bool) {
	switch kind {
	case kString, kBytes:
		i := 2 * r.Intn(len(collStr)/2)
		return collBase + int64(i), collBase + int64(i) + 1, true
	case kInt64CRC, kUInt64CRC, kIntCRC, kUIntCRC:
		p := collInt[r.Intn(len(collInt))]
		return p[0], p[1], true
	}
	return 0, 0, false
}

func mkKey(kind int, id int64) mux.Hashed2Int {
	switch kind {
	case kInt:
		return mux.Int(id)
	case kInt64:
		return mux.Int64(id)
	case kInt32:
		return mux.Int32(id)
	case kInt64CRC:
		return mux.Int64CRC(id)
	case kUInt64CRC:
		return mux.UInt64CRC(uint64(id))
	case kString:
		return mux.String(keyText(id))
	case kInt32CRC:
		return mux.Int32CRC(id)
	case kIntCRC:
		return mux.IntCRC(id)
	case kByte:
		return mux.Byte(id)
	case kInt8:
		return mux.Int8(id)
	case kInt16:
		return mux.Int16(id)
	case kUInt16:
		return mux.UInt16(id)
	case kUInt32:
		return mux.UInt32(id)
	case kUInt64:
		return mux.UInt64(uint64(id))
	case kUInt:
		return mux.UInt(uint64(id))
	case kUInt32CRC:
		return mux.UInt32CRC(id)
	case kUIntCRC:
		return mux.UIntCRC(uint64(id))
	case kBytes:
		return mux.Bytes(keyText(id))
	}
	panic("kind")
}

// the key the real cache facade is given: the key itself, except for mux.Bytes, which the group can route (HashedInt)
// but no facade can store - the logging facade hands the real one a string with the same content
func cacheKey(k interface{}) interface{} {
	if b, ok := k.(mux.Bytes); ok {
		return mux.String("bytes:" + string(b))
	}
	return k
}

// tkey: the key handed to the group in scheduled runs.  It hashes like the real key it wraps and carries the
// calling operation; the logging facade strips it before the real facade sees the key.
type tkey struct {
	base mux.Hashed2Int
	oc   *opCtx
}

func (t tkey) HashedInt() int { return t.base.HashedInt() }

const badKey = int64(-777777)

func keyID(k interface{}) int64 {
	switch x := k.(type) {
	case tkey:
		return keyID(x.base)
	case mux.Int:
		return int64(x)
	case mux.Int64:
		return int64(x)
	case mux.Int32:
		return int64(x)
	case mux.Int64CRC:
		return int64(x)
	case mux.UInt64CRC:
		return int64(x)
	case mux.Int32CRC:
		return int64(x)
	case mux.IntCRC:
		return int64(x)
	case mux.Byte:
		return int64(x)
	case mux.Int8:
		return int64(x)
	case mux.Int16:
		return int64(x)
	case mux.UInt16:
		return int64(x)
	case mux.UInt32:
		return int64(x)
	case mux.UInt64:
		return int64(x)
	case mux.UInt:
		return int64(x)
	case mux.UInt32CRC:
		return int64(x)
	case mux.UIntCRC:
		return int64(x)
	case mux.Bytes:
		return keyID(mux.String(x))
	case mux.String:
		if v, ok := textKey(strings.TrimPrefix(string(x), "bytes:")); ok {
			return v
		}
	}
	return badKey
}

// ---------------------------------------------------------------- errors / results

var (
	errInj     = errors.New("c15.injected")
	errNF      = errors.New("c15.not-found")
	errExists  = errors.New("c15.exists")
	errMissing = errors.New("c15.missing")
)

func isNotFound(err error) bool { return err == errNF }

// error class as the Coq constructor of C15_Model.err ("" = not one of ours)
func errName(err error) string {
	switch err {
	case errInj:
		return "EInj"
	case errNF:
		return "ENotFound"
	case errExists:
		return "EExists"
	case errMissing:
		return "EMissing"
	case mux.ErrDupKey:
		return "EDupKey"
	case mux.ErrClosed:
		return "EClosed"
	case mux.ErrQFull:
		return "EFull"
	case context.Canceled:
		return "ECtx"
	}
	return ""
}

// a value as the callbacks return it and the caches hold it: an integer, or Go's nil
type val struct {
	Nil bool
	V   int64
	Bad bool // neither: something no callback of this harness returned
}

// sized: a value that implements cache.Value.  The hundreds digits of the number say what a value is:
// c = (v mod 10000) / 100 is 0 for a plain int64 (the LRU facade counts it 1) and s+1 for a sized value of Size() = s.
type sized struct{ v int64 }

func sizeCode(v int64) int64 { return (v % 10000) / 100 }
func (s sized) Size() int    { return int(sizeCode(s.v)) - 1 }

func toVal(x interface{}) val {
	switch v := x.(type) {
	case nil:
		return val{Nil: true}
	case int64:
		if sizeCode(v) == 0 {
			return val{V: v}
		}
	case sized:
		if sizeCode(v.v) != 0 {
			return val{V: v.v}
		}
	}
	return val{V: -888888, Bad: true}
}
func (v val) iface() interface{} {
	if v.Nil {
		return nil
	}
	if sizeCode(v.V) != 0 {
		return sized{v.V}
	}
	return v.V
}
func (v val) coq() string {
	if v.Nil {
		return "None"
	}
	return "(Some " + vh.CoqZ(v.V) + ")"
}
func (v val) String() string {
	if v.Nil {
		return "nil"
	}
	return strconv.FormatInt(v.V, 10)
}

// result of an API call as a Coq term of type res
type result struct {
	Kind string // ok nil err panic hang other
	V    val
	E    string
	Text string
}

func (r result) coq() string {
	switch r.Kind {
	case "ok":
		return "(ROk " + r.V.coq() + ")"
	case "nil":
		return "RNil"
	case "err":
		return "(RErr " + r.E + ")"
	case "panic":
		return "RPanic"
	}
	return "RHang" // a hang, or an answer no model path produces
}
func (r result) String() string {
	switch r.Kind {
	case "ok":
		return "ok " + r.V.String()
	case "err":
		return "err " + r.E
	}
	if r.Text != "" {
		return r.Kind + " " + r.Text
	}
	return r.Kind
}

// (nil, nil) is the answer of a successful delete; from any other call it is the value nil
func mkResult(v interface{}, err error, isDelete bool) result {
	if err != nil {
		if n := errName(err); n != "" {
			return result{Kind: "err", E: n}
		}
		return result{Kind: "other", Text: err.Error()}
	}
	if v == nil && isDelete {
		return result{Kind: "nil"}
	}
	x := toVal(v)
	if x.Bad {
		return result{Kind: "other", Text: fmt.Sprintf("%T %v", v, v)}
	}
	return result{Kind: "ok", V: x}
}

// ---------------------------------------------------------------- operations

const (
	opGet = iota
	opAdd
	opUpdate
	opDelete
	opUpdOrAdd
	opUpsertLoad
	opUpsertRenew
	nOps
)

var opNames = []string{"Get", "Add", "Update", "Delete", "UpdOrAdd", "UpsertLoad", "UpsertRenew"}
var opCoq = []string{"OGet", "OAdd", "OUpdate", "ODelete", "OUpdOrAdd", "OUpsertLoad", "OUpsertRenew"}

type opSpec struct {
	Op     int   `json:"op"`
	K      int64 `json:"k"`
	D      int64 `json:"d"`
	// per store callback of this operation, in call order.  units: 0 ok, 1 error, 2 error that reads as not-found,
	// 3 "nil, no error", 4 error handed back TOGETHER with a non-nil value, 5 the same with the not-found error
	// (ORM style `return &row, err`; only the deterministic class seq/value-with-error scripts 4 and 5); tens: 1 = the callback cancels the caller's context when it is entered, 2 = just before
	// it returns success
	Faults []int `json:"f"`
	// scheduled runs: Ab - the caller gives up (its context is cancelled by the scheduler) while the worker is parked in
	// front of a store callback of this operation; Chain - the operation is issued by the goroutine of the previous
	// job as soon as that one's call has returned (the same goroutine goes on to its next request)
	Ab    bool `json:"ab,omitempty"`
	Chain bool `json:"chain,omitempty"`
	After int  `json:"after,omitempty"` // j+1: not to be called before job j has been called (0: no constraint)
}

func (o opSpec) cancels() bool {
	for _, f := range o.Faults {
		if f >= 10 {
			return true
		}
	}
	return false
}

func (o opSpec) coq() string {
	if o.Op == opGet || o.Op == opDelete {
		return fmt.Sprintf("(%s %s)", opCoq[o.Op], vh.CoqZ(o.K))
	}
	return fmt.Sprintf("(%s %s %s)", opCoq[o.Op], vh.CoqZ(o.K), vh.CoqZ(o.D))
}
func (o opSpec) String() string {
	s := fmt.Sprintf("%s(%d", opNames[o.Op], o.K)
	if o.Op != opGet && o.Op != opDelete {
		s += fmt.Sprintf(",%d", o.D)
	}
	s += ")"
	if len(o.Faults) > 0 {
		s += fmt.Sprint(o.Faults)
	}
	return s
}
func coqFaults(fs []int) string {
	out := make([]string, len(fs))
	for i, f := range fs {
		out[i] = []string{"FOk", "FErr", "FNF", "FNil", "FErrV", "FNFV"}[f%10]
	}
	return vh.CoqList(out)
}

// the per-call context: identifies the operation inside the callbacks, and tells the
// scheduler (scheduled runs) that the call has been queued: AsyncC.R evaluates
// ctx.Done() when it enters its select, i.e. after AddReq has returned.
type opCtx struct {
	id     int
	spec   opSpec
	pos    int
	onDone func() // called once, on the first Done()
	once   sync.Once
	tagged bool  // hand the group a tkey (only where the logging facade strips it again)
	fast   bool  // the caller-side Get of DoGet has been seen
	gid    int64 // scheduled runs: goroutine of the caller

	cmu       sync.Mutex
	done      chan struct{}
	cancelled bool
}

func newOpCtx(id int, spec opSpec) *opCtx { return &opCtx{id: id, spec: spec, done: make(chan struct{})} }

func (c *opCtx) Deadline() (time.Time, bool) { return time.Time{}, false }
func (c *opCtx) Done() <-chan struct{} {
	if c.onDone != nil {
		c.once.Do(c.onDone)
	}
	return c.done
}
func (c *opCtx) Err() error {
	c.cmu.Lock()
	defer c.cmu.Unlock()
	if c.cancelled {
		return context.Canceled
	}
	return nil
}
func (c *opCtx) cancel() {
	c.cmu.Lock()
	defer c.cmu.Unlock()
	if !c.cancelled && c.done != nil {
		c.cancelled = true
		close(c.done)
	}
}
func (c *opCtx) wasCancelled() bool {
	c.cmu.Lock()
	defer c.cmu.Unlock()
	return c.cancelled
}
func (c *opCtx) Value(key interface{}) interface{} { return nil }

// the script entry of the next store callback: (behaviour, cancel mode)
func (c *opCtx) nextFault() (int, int) {
	if c.pos < len(c.spec.Faults) {
		f := c.spec.Faults[c.pos]
		c.pos++
		return f % 10, f / 10
	}
	return 0, 0
}

func ctxOp(ctx context.Context) *opCtx {
	if c, ok := ctx.(*opCtx); ok {
		return c
	}
	return newOpCtx(-1, opSpec{})
}

type addData struct{ k, d int64 }

// ---------------------------------------------------------------- events

type event struct {
	Kind  string // get peek set del | load add upd upsert delete
	K     int64
	D     int64
	V     val  // value of set / read result
	Has   bool // read hit
	Pre   val
	R     result // outcome of a store callback
	Op    int    // operation id for store callbacks (-1 unknown)
	W     int    // cache index for cache calls (-1 unknown)
	Fast  bool   // a Get made by the caller-side fast path of DoGet (scheduled runs)
	IsErr bool
}

func (e event) isStore() bool {
	switch e.Kind {
	case "load", "add", "upd", "upsert", "delete":
		return true
	}
	return false
}
func (e event) isRead() bool { return e.Kind == "get" || e.Kind == "peek" }

func coqSres(r result) string {
	if r.Kind == "ok" {
		return "(SOk " + r.V.coq() + ")"
	}
	return "(SErr " + r.E + ")"
}
func coqOptVal(v val, ok bool) string { return vh.CoqOpt(v.coq(), ok) }

func (e event) coq() string {
	switch e.Kind {
	case "get":
		return fmt.Sprintf("(EvGet %s %s)", vh.CoqZ(e.K), coqOptVal(e.V, e.Has))
	case "peek":
		return fmt.Sprintf("(EvPeek %s %s)", vh.CoqZ(e.K), coqOptVal(e.V, e.Has))
	case "set":
		return fmt.Sprintf("(EvSet %s %s)", vh.CoqZ(e.K), e.V.coq())
	case "del":
		return fmt.Sprintf("(EvDel %s)", vh.CoqZ(e.K))
	case "load":
		return fmt.Sprintf("(EvLoad %s %s)", vh.CoqZ(e.K), coqSres(e.R))
	case "add":
		return fmt.Sprintf("(EvAdd %s %s %s)", vh.CoqZ(e.K), vh.CoqZ(e.D), coqSres(e.R))
	case "upd":
		return fmt.Sprintf("(EvUpd %s %s %s %s)", vh.CoqZ(e.K), vh.CoqZ(e.D), e.Pre.coq(), coqSres(e.R))
	case "upsert":
		return fmt.Sprintf("(EvUpsert %s %s %s %s)", vh.CoqZ(e.K), vh.CoqZ(e.D), e.Pre.coq(), coqSres(e.R))
	case "delete":
		if e.R.Kind == "nil" {
			return fmt.Sprintf("(EvDelete %s None)", vh.CoqZ(e.K))
		}
		return fmt.Sprintf("(EvDelete %s (Some %s))", vh.CoqZ(e.K), e.R.E)
	}
	return "(EvDel (-999)%Z)"
}
func (e event) String() string {
	switch e.Kind {
	case "get", "peek":
		s := fmt.Sprintf("%s(%d)=", e.Kind, e.K)
		if e.Has {
			s += e.V.String()
		} else {
			s += "miss"
		}
		if e.Fast {
			s += "/fast"
		}
		return s
	case "set":
		return fmt.Sprintf("set(%d,%s)", e.K, e.V)
	case "del":
		return fmt.Sprintf("del(%d)", e.K)
	case "load", "delete":
		return fmt.Sprintf("%s(%d)->%s", e.Kind, e.K, e.R)
	case "add":
		return fmt.Sprintf("add(%d,%d)->%s", e.K, e.D, e.R)
	case "upd":
		return fmt.Sprintf("upd(%d,%d,pre=%s)->%s", e.K, e.D, e.Pre, e.R)
	case "upsert":
		return fmt.Sprintf("upsert(%d,%d,pre=%s)->%s", e.K, e.D, e.Pre, e.R)
	}
	return e.Kind
}

func coqEvents(evs []event, keep func(event) bool) string {
	out := []string{}
	for _, e := range evs {
		if keep(e) {
			out = append(out, e.coq())
		}
	}
	return vh.CoqList(out)
}
func strEvents(evs []event) []string {
	out := make([]string, len(evs))
	for i, e := range evs {
		out[i] = e.String()
	}
	return out
}

// ---------------------------------------------------------------- the store and the log

type hist struct {
	mu     sync.Mutex
	m      map[int64]int64
	ver    map[int64]int64
	log    []event
	caches []*wcache

	// scheduled runs only
	gate func(oc *opCtx, cacheIdx int) // blocks a worker goroutine before an instrumented call

	apiNote string // an accessor of the group answered something else than what it was built with
}

func newHist(init map[int64]int64) *hist {
	h := &hist{m: map[int64]int64{}, ver: map[int64]int64{}}
	for k, v := range init {
		h.m[k] = v
	}
	return h
}

func (h *hist) mark() int {
	h.mu.Lock()
	defer h.mu.Unlock()
	return len(h.log)
}
func (h *hist) since(m int) []event {
	h.mu.Lock()
	defer h.mu.Unlock()
	return append([]event(nil), h.log[m:]...)
}
func (h *hist) storeValue(k int64) val {
	h.mu.Lock()
	defer h.mu.Unlock()
	if v, ok := h.m[k]; ok {
		return val{V: v}
	}
	return val{Nil: true}
}

// mark of the row a value is computed from: 0 for "no row", 1 + that row's own write count otherwise
func vmark(base val) int64 {
	if base.Nil {
		return 0
	}
	return 1 + (base.V/10000)%100
}

// The store merges: the row it keeps is computed from its ACTUAL current row, while the callback answers with the
// value computed from the `existing` argument it was handed (from = that argument; for add: no row).  The two are
// the same number exactly when the handler passed the store's current row.
func (h *hist) write(k, d int64, from val) (answer int64) {
	cur := val{Nil: true}
	if v, ok := h.m[k]; ok {
		cur = val{V: v}
	}
	h.ver[k]++
	h.m[k] = 1000000*vmark(cur) + 10000*h.ver[k] + d
	return 1000000*vmark(from) + 10000*h.ver[k] + d
}
func faultErr(f int) error {
	switch f {
	case 1, 4:
		return errInj
	case 2, 5:
		return errNF
	}
	return nil
}

// what a callback scripted 4 / 5 hands back next to its error: a non-nil value that is no row of the store (the
// store's own values carry a write count >= 0 in the ten-thousands and a mark < 101 in the millions)
const junkWithError int64 = 990000042
func sresOf(v val, err error) result {
	if err != nil {
		return result{Kind: "err", E: errName(err)}
	}
	return result{Kind: "ok", V: v}
}

// the common frame of the five callbacks: gate (scheduled runs), script entry, cancellation on script, log
func (h *hist) callback(ctx context.Context, kind string, k, d int64, pre val, body func(f int) (val, error)) (interface{}, error) {
	oc := ctxOp(ctx)
	if h.gate != nil {
		h.gate(oc, -1)
	}
	f, cm := oc.nextFault()
	if cm == 1 {
		oc.cancel()
	}
	h.mu.Lock()
	v, err := body(f)
	r := sresOf(v, err)
	if kind == "delete" && err == nil {
		r = result{Kind: "nil"}
	}
	h.log = append(h.log, event{Kind: kind, K: k, D: d, Pre: pre, R: r, Op: oc.id, W: -1})
	h.mu.Unlock()
	if cm == 2 && err == nil {
		oc.cancel()
	}
	if err != nil {
		if f == 4 || f == 5 {
			return junkWithError, err // a value together with the error: the handlers must not look at it
		}
		return nil, err
	}
	return v.iface(), nil
}

func (h *hist) loadFn(ctx context.Context, d interface{}) (interface{}, error) {
	k := keyID(d)
	return h.callback(ctx, "load", k, 0, val{}, func(f int) (val, error) {
		if err := faultErr(f); err != nil {
			return val{}, err
		}
		if v, ok := h.m[k]; ok {
			return val{V: v}, nil
		}
		if f == 3 {
			return val{Nil: true}, nil // a missing row reported as (nil, nil)
		}
		return val{}, errNF
	})
}

func (h *hist) addFn(ctx context.Context, d interface{}) (interface{}, error) {
	a, _ := d.(addData)
	return h.callback(ctx, "add", a.k, a.d, val{}, func(f int) (val, error) {
		if err := faultErr(f); err != nil {
			return val{}, err
		}
		if _, ok := h.m[a.k]; ok {
			return val{}, errExists
		}
		if f == 3 {
			return val{Nil: true}, nil // nothing stored, nil answered
		}
		return val{V: h.write(a.k, a.d, val{Nil: true})}, nil
	})
}

func (h *hist) updFn(ctx context.Context, d interface{}, e interface{}) (interface{}, error) {
	a, _ := d.(addData)
	pre := toVal(e)
	return h.callback(ctx, "upd", a.k, a.d, pre, func(f int) (val, error) {
		if err := faultErr(f); err != nil {
			return val{}, err
		}
		if _, ok := h.m[a.k]; !ok {
			return val{}, errMissing
		}
		if f == 3 {
			delete(h.m, a.k) // the row becomes nil
			return val{Nil: true}, nil
		}
		return val{V: h.write(a.k, a.d, pre)}, nil
	})
}

func (h *hist) upsertFn(ctx context.Context, d interface{}, e interface{}) (interface{}, error) {
	a, _ := d.(addData)
	pre := toVal(e)
	return h.callback(ctx, "upsert", a.k, a.d, pre, func(f int) (val, error) {
		if err := faultErr(f); err != nil {
			return val{}, err
		}
		if f == 3 {
			delete(h.m, a.k)
			return val{Nil: true}, nil
		}
		return val{V: h.write(a.k, a.d, pre)}, nil
	})
}

func (h *hist) deleteFn(ctx context.Context, d interface{}) error {
	k := keyID(d)
	_, err := h.callback(ctx, "delete", k, 0, val{}, func(f int) (val, error) {
		if err := faultErr(f); err != nil {
			return val{}, err
		}
		delete(h.m, k)
		return val{Nil: true}, nil
	})
	return err
}

// ---------------------------------------------------------------- logging facade around the real one

type wcache struct {
	inner mux.CacheFacade
	idx   int
	h     *hist
}

func strip(key interface{}) (interface{}, *opCtx) {
	if t, ok := key.(tkey); ok {
		return cacheKey(t.base), t.oc
	}
	return cacheKey(key), nil
}
func opID(oc *opCtx) int {
	if oc == nil {
		return -1
	}
	return oc.id
}

func (c *wcache) Peek(key interface{}) (interface{}, bool) {
	key, oc := strip(key)
	if c.h.gate != nil {
		c.h.gate(oc, c.idx)
	}
	v, ok := c.inner.Peek(key)
	c.h.mu.Lock()
	c.h.log = append(c.h.log, event{Kind: "peek", K: keyID(key), V: toVal(v), Has: ok, W: c.idx, Op: opID(oc)})
	c.h.mu.Unlock()
	return v, ok
}

func (c *wcache) Get(key interface{}) (interface{}, bool) {
	key, oc := strip(key)
	fast := false
	if c.h.gate != nil {
		// the first Get made for a DoGet job is the caller-side fast path: it runs on the caller's goroutine
		if oc != nil && oc.spec.Op == opGet && !oc.fast {
			oc.fast = true
			fast = true
		} else {
			c.h.gate(oc, c.idx)
		}
	}
	v, ok := c.inner.Get(key)
	c.h.mu.Lock()
	c.h.log = append(c.h.log, event{Kind: "get", K: keyID(key), V: toVal(v), Has: ok, W: c.idx, Op: opID(oc), Fast: fast})
	c.h.mu.Unlock()
	return v, ok
}

func (c *wcache) Set(key interface{}, value interface{}) {
	key, oc := strip(key)
	if c.h.gate != nil {
		c.h.gate(oc, c.idx)
	}
	c.inner.Set(key, value)
	c.h.mu.Lock()
	c.h.log = append(c.h.log, event{Kind: "set", K: keyID(key), V: toVal(value), W: c.idx, Op: opID(oc)})
	c.h.mu.Unlock()
}

func (c *wcache) Delete(key interface{}) {
	key, oc := strip(key)
	if c.h.gate != nil {
		c.h.gate(oc, c.idx)
	}
	c.inner.Delete(key)
	c.h.mu.Lock()
	c.h.log = append(c.h.log, event{Kind: "del", K: keyID(key), W: c.idx, Op: opID(oc)})
	c.h.mu.Unlock()
}

// what the group's caches hold for a key, read below the logging layer without touching the LRU order.
// A key found in more than one worker's cache is reported as the impossible value -1.
func (h *hist) cachedValue(kind int, id int64) (val, bool) {
	key := cacheKey(mkKey(kind, id))
	found := 0
	var x val
	for _, c := range h.caches {
		if v, ok := c.inner.Peek(key); ok {
			found++
			x = toVal(v)
		}
	}
	if found > 1 {
		return val{V: -1}, true
	}
	return x, found == 1
}

// ---------------------------------------------------------------- building a group and calling it

type grpSpec struct {
	Wrapped bool            `json:"wrapped"`
	N       int             `json:"n"`
	Cap     int             `json:"cap"` // -1 = map facade
	Deep    int             `json:"deep"`
	Kind    int             `json:"kind"`
	Univ    []int64         `json:"univ"`
	Init    map[int64]int64 `json:"-"`
	InitL   [][2]int64      `json:"init"`
}

func (g *grpSpec) facade() string {
	if g.Cap < 0 {
		return "map"
	}
	return fmt.Sprintf("lru%d", g.Cap)
}

func buildGroup(g *grpSpec, h *hist) *mux.WorkerGrp {
	opts := []mux.Option{mux.WithSize(g.N)}
	if g.Deep != 0 {
		opts = append(opts, mux.WithDeep(g.Deep))
	}
	var grp *mux.WorkerGrp
	switch {
	case g.Wrapped:
		grp = mux.NewWorkGrp(func() mux.CacheFacade {
			var inner mux.CacheFacade
			if g.Cap < 0 {
				inner = mux.NewFacadeMap()
			} else {
				inner = mux.NewFacadeLRU(int64(g.Cap))
			}
			w := &wcache{inner: inner, idx: len(h.caches), h: h}
			h.caches = append(h.caches, w)
			return w
		}, opts...)
	case g.Cap < 0:
		grp = mux.NewWorkGrpWithMapCache(opts...)
	default:
		grp = mux.NewWorkGrpWithLRU(int64(g.Cap), opts...)
	}
	// the accessors of the group answer what it was built with
	if grp.MuxSize() != g.N {
		h.apiNote = fmt.Sprintf("MuxSize() = %d for a group built with %d workers", grp.MuxSize(), g.N)
	}
	if want := map[bool]int{true: mux.DefaultDeepSize, false: g.Deep}[g.Deep == 0]; grp.DeepSize() != want {
		h.apiNote = fmt.Sprintf("DeepSize() = %d for a group built with queue bound %d", grp.DeepSize(), want)
	}
	grp.Start()
	// nothing has stopped the group: WaitStop under a context that is already done reports that context
	dead, cancelDead := context.WithCancel(context.Background())
	cancelDead()
	if grp.WaitStop(dead) == nil {
		h.apiNote = "WaitStop returned nil under a cancelled context although the group was never stopped"
	}
	return grp
}

func stopGroup(grp *mux.WorkerGrp) bool {
	grp.Stop()
	ctx, cancel := context.WithTimeout(context.Background(), 10*time.Second)
	defer cancel()
	return grp.WaitStop(ctx) == nil
}

// one API call on the calling goroutine; a panic of the caller-side code is an observed outcome
func callOp(grp *mux.WorkerGrp, h *hist, kind int, oc *opCtx) (res result) {
	defer func() {
		if p := recover(); p != nil {
			res = result{Kind: "panic", Text: fmt.Sprint(p)}
		}
	}()
	o := oc.spec
	key := mkKey(kind, o.K)
	if oc.tagged {
		key = tkey{base: key, oc: oc}
	}
	data := addData{o.K, o.D}
	var v interface{}
	var err error
	switch o.Op {
	case opGet:
		v, err = grp.DoGet(oc, h.loadFn, key)
	case opAdd:
		v, err = grp.DoAdd(oc, h.addFn, key, data)
	case opUpdate:
		v, err = grp.DoUpdate(oc, h.loadFn, h.updFn, key, data)
	case opDelete:
		v, err = grp.DoDelete(oc, h.deleteFn, key)
	case opUpdOrAdd:
		v, err = grp.DoUpdOrAddIfNull(oc, h.loadFn, h.updFn, h.addFn, isNotFound, key, data)
	case opUpsertLoad:
		v, err = grp.DoUpsertThenLoad(oc, h.upsertFn, h.loadFn, key, data)
	case opUpsertRenew:
		v, err = grp.DoUpsertThenRenewInCache(oc, h.upsertFn, key, data)
	}
	return mkResult(v, err, o.Op == opDelete)
}

// the same with a generous bound on a call the model says must return
func callOpTimed(grp *mux.WorkerGrp, h *hist, kind int, oc *opCtx) result {
	ch := make(chan result, 1)
	go func() { ch <- callOp(grp, h, kind, oc) }()
	select {
	case r := <-ch:
		return r
	case <-time.After(10 * time.Second):
		timeouts++
		return result{Kind: "hang"}
	}
}

func coqCfg(g *grpSpec) string {
	capS := "None"
	if g.Cap >= 0 {
		capS = fmt.Sprintf("(Some %s)", vh.CoqNat(g.Cap))
	}
	hs := []string{}
	if !kindIdentity(g.Kind) {
		for _, k := range g.Univ {
			hs = append(hs, fmt.Sprintf("(%s, %s)", vh.CoqZ(k), vh.CoqZ(int64(mkKey(g.Kind, k).HashedInt()))))
		}
	}
	in := []string{}
	for _, kv := range g.InitL {
		in = append(in, fmt.Sprintf("(%s, %s)", vh.CoqZ(kv[0]), vh.CoqZ(kv[1])))
	}
	return fmt.Sprintf("(mkCfg %s %s %s %s)", vh.CoqZ(int64(g.N)), capS, vh.CoqList(hs), vh.CoqList(in))
}

// cache snapshot: per key, not cached (None) or the cached value, which may be nil (Some None)
func coqCacheSnap(vals []val, has []bool) string {
	out := make([]string, len(vals))
	for i := range vals {
		out[i] = coqOptVal(vals[i], has[i])
	}
	return vh.CoqList(out)
}

// store snapshot: per key the row's value, nil when there is no row
func coqStoreSnap(vals []val) string {
	out := make([]string, len(vals))
	for i := range vals {
		out[i] = vals[i].coq()
	}
	return vh.CoqList(out)
}


// the GetK accessors of the seven op-codes answer the key they were built with
func opcodeAccessorsOK() bool {
	k := mux.Int(41)
	ops := []mux.OpCode{
		mux.NewLoad(nil, k), mux.NewAdd(nil, k, 1), mux.NewUpdate(nil, nil, k, 1), mux.NewDelete(nil, k),
		mux.NewMixUpdOrAddIfNull(nil, nil, nil, nil, k, 1), mux.NewMixUpsertThenLoad(nil, nil, k, 1),
		mux.NewMixUpsertThenRenewInCache(nil, k, 1),
	}
	for _, o := range ops {
		if o.GetK() != interface{}(k) {
			return false
		}
	}
	return true
}
