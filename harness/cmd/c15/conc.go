package main

// Scheduled runs: callers and workers are advanced one label at a time.
//
// Every instrumented call a worker goroutine makes (a call of the logging cache
// facade, a store callback) first parks at a gate and tells the scheduler; the
// scheduler releases exactly one parked worker per GStep label and then waits for
// the next positive signal of that worker (parked at its next gate / the caller of
// the job it was running has returned).  A caller goroutine tells the scheduler that
// its request has been queued from inside ctx.Done(), which AsyncC.R evaluates after
// AddReq returned.  Nothing is inferred from elapsed time; the 10 s bounds only turn
// a real hang into an observed anomaly.

import (
	"encoding/json"
	"fmt"
	"math/rand"
	"runtime"
	"strconv"
	"strings"
	"sync/atomic"
	"time"

	"github.com/pinealctx/neptune/syncx/pipe/mux"
	"verifharness/vh"
)

type label struct {
	Kind string `json:"l"` // call step stop
	Job  int    `json:"j,omitempty"`
	W    int    `json:"w,omitempty"`
}

type concSpec struct {
	G      grpSpec  `json:"g"`
	Jobs   []opSpec `json:"jobs"`
	Labels []label  `json:"labels"` // nil: draw a schedule
	Class  string   `json:"class,omitempty"`
	Hold   int      `json:"hold,omitempty"` // class backlog/: the job whose store callback the worker is held in
}

type sig struct {
	kind   string // accepted returned arrive
	job    int
	w      int
	res    result
	grant  chan struct{}
	caller bool // arrive: the instrumented call is being made by the goroutine of the job's own caller
	stopper bool // arrive: ... by the goroutine that is inside WorkerGrp.Stop
}

// id of the calling goroutine ("goroutine 123 [running]:")
func gid() int64 {
	var buf [64]byte
	n := runtime.Stack(buf[:], false)
	f := strings.Fields(string(buf[:n]))
	if len(f) >= 2 {
		if v, err := strconv.ParseInt(f[1], 10, 64); err == nil {
			return v
		}
	}
	return -1
}

type labelObs struct {
	L      label
	Ans    string // fast refused panic queued step stopped abandoned cstep anomaly
	V      val
	E      string
	ID     int
	Ev     event
	Fin    *result
	CacheV []val
	CacheH []bool
	StoreV []val
	Note   string
}

type ctl struct {
	s       *concSpec
	h       *hist
	grp     *mux.WorkerGrp
	sigs    chan sig
	parked  map[int]*sig // worker -> the call it is parked in front of (with the job the call belongs to)
	cparked map[int]*sig // job -> a call its caller's own goroutine is parked in front of (no model run has this)
	pending map[int]int  // worker -> queued or running jobs whose callers have not returned
	ocs     map[int]*opCtx
	called  map[int]bool // jobs whose call has been started
	gone    map[int]bool // jobs whose caller has given up while they were being handled
	stopGid  int64 // goroutine that is inside WorkerGrp.Stop (atomic)
	stopping bool  // Stop has been called and has not returned
	sparked  *sig  // a call the stopping goroutine itself is parked in front of (no model run has this)
	out     []labelObs
	broken  string
}

// the worker the harness expects to serve a key (what the repaired locHash computes: reduce, then absolute value)
func route(g *grpSpec, k int64) int {
	h := mkKey(g.Kind, k).HashedInt() % g.N
	if h < 0 {
		h = -h
	}
	return h
}

// number of 10 s bounds that expired in this process: after a few of them the remaining runs are not attempted
var timeouts int

func (c *ctl) wait() (sig, bool) {
	select {
	case s := <-c.sigs:
		return s, true
	case <-time.After(10 * time.Second):
		timeouts++
		return sig{}, false
	}
}

func (c *ctl) snapshot(o *labelObs) {
	g := &c.s.G
	for _, k := range g.Univ {
		o.StoreV = append(o.StoreV, c.h.storeValue(k))
		cv, cok := c.h.cachedValue(g.Kind, k)
		o.CacheV, o.CacheH = append(o.CacheV, cv), append(o.CacheH, cok)
	}
}

func (c *ctl) anomaly(l label, note string) {
	o := labelObs{L: l, Ans: "anomaly", Note: note}
	c.snapshot(&o)
	c.out = append(c.out, o)
	c.broken = note
}

// is this arrival a call of worker w?  (cache calls name their cache; callbacks are routed by their job's key)
func (c *ctl) arrivalOf(s sig, w int) bool {
	if s.w >= 0 {
		return s.w == w
	}
	if s.job < 0 || s.job >= len(c.s.Jobs) {
		return false
	}
	return route(&c.s.G, c.s.Jobs[s.job].K) == w
}

// wait until worker w is parked at a gate
func (c *ctl) awaitArrival(l label, w int) bool {
	s, ok := c.wait()
	if !ok {
		c.anomaly(l, fmt.Sprintf("worker %d did not reach its next call within 10 s", w))
		return false
	}
	if s.kind != "arrive" || !c.arrivalOf(s, w) {
		c.anomaly(l, fmt.Sprintf("unexpected signal %s(job %d, cache %d) while waiting for worker %d", s.kind, s.job, s.w, w))
		return false
	}
	c.parked[w] = &s
	return true
}

func (c *ctl) mkCtx(i int) *opCtx {
	oc := newOpCtx(i, c.s.Jobs[i])
	oc.tagged = true
	oc.onDone = func() { c.sigs <- sig{kind: "accepted", job: i} }
	c.ocs[i] = oc
	return oc
}

func (c *ctl) hasChain(i int) bool { return i+1 < len(c.s.Jobs) && c.s.Jobs[i+1].Chain }

func (c *ctl) doCall(l label) {
	g := &c.s.G
	i := l.Job
	// the goroutine of job i goes on to the jobs chained behind it, each as soon as the previous call has returned
	chain := []*opCtx{c.mkCtx(i)}
	for j := i; c.hasChain(j); j++ {
		chain = append(chain, c.mkCtx(j+1))
	}
	c.called[i] = true
	m := c.h.mark()
	go func() {
		id := gid()
		for _, oc := range chain {
			oc.gid = id
			r := callOp(c.grp, c.h, g.Kind, oc)
			c.sigs <- sig{kind: "returned", job: oc.id, res: r}
		}
	}()
	s, ok := c.wait()
	if !ok {
		c.anomaly(l, "the call neither returned nor queued its request within 10 s")
		return
	}
	c.settleCall(l, i, s, m)
}

// the call chained behind job i has been started by i's goroutine: observe it like a call label
func (c *ctl) chained(i int) {
	if !c.hasChain(i) || c.broken != "" {
		return
	}
	j := i + 1
	c.called[j] = true
	m := c.h.mark()
	s, ok := c.wait()
	if !ok {
		c.anomaly(label{Kind: "call", Job: j}, "the chained call neither returned nor queued its request within 10 s")
		return
	}
	c.settleCall(label{Kind: "call", Job: j}, j, s, m)
}

// the caller of the job worker w is parked in gives up: its context is cancelled, AsyncC.R returns the context's error
func (c *ctl) doAbandon(l label) {
	w := l.W
	p := c.parked[w]
	if p == nil || c.gone[p.job] || c.ocs[p.job] == nil {
		c.anomaly(l, "abandon without a parked job whose caller is still waiting")
		return
	}
	j := p.job
	c.gone[j] = true
	c.pending[w]--
	c.ocs[j].cancel()
	s, ok := c.wait()
	if !ok {
		c.anomaly(l, fmt.Sprintf("the caller of job %d did not return within 10 s although its context was cancelled", j))
		return
	}
	if s.kind != "returned" || s.job != j {
		c.anomaly(l, fmt.Sprintf("unexpected signal %s(job %d, cache %d) after the context of job %d was cancelled", s.kind, s.job, s.w, j))
		return
	}
	lo := labelObs{L: l, Ans: "abandoned", ID: j, E: s.res.E}
	if s.res.Kind != "err" {
		lo.Ans, lo.Note = "anomaly", "a caller whose context was cancelled while the worker was parked got "+s.res.String()
		c.broken = lo.Note
	}
	c.snapshot(&lo)
	c.out = append(c.out, lo)
	c.chained(j)
}

// a caller-side step: what it executed (or, when it parked before doing anything, a placeholder read)
func (c *ctl) callerItem(l label, i int, m int, fin *result) {
	lo := labelObs{L: l, Ans: "cstep", ID: i, Fin: fin}
	evs := c.h.since(m)
	if len(evs) > 0 {
		lo.Ev = evs[len(evs)-1]
	} else {
		lo.Ev = event{Kind: "peek", K: c.s.Jobs[i].K}
	}
	c.snapshot(&lo)
	c.out = append(c.out, lo)
}

// the first signal after a call was started (or after its caller was released from a caller-side gate)
func (c *ctl) settleCall(l label, i int, s sig, m int) {
	g := &c.s.G
	w := route(g, c.s.Jobs[i].K)
	if s.kind == "arrive" && s.caller && s.job == i {
		// the caller's own goroutine is about to make an instrumented call: it stays parked until a cstep label
		arr := s
		c.cparked[i] = &arr
		c.callerItem(l, i, m, nil)
		return
	}
	call := label{Kind: "call", Job: i}
	if l.Kind == "cstep" {
		// the released caller-side call has been executed; what follows is the ordinary end of the call
		if s.kind == "returned" && s.job == i {
			r := s.res
			c.callerItem(l, i, m, &r)
			return
		}
		c.callerItem(l, i, m, nil)
	}
	lo := labelObs{L: call}
	// an idle worker may reach the handler's first call before the caller has entered its select: the two signals
	// "request queued" and "worker parked" come in either order
	early := false
	if s.kind == "arrive" && !s.caller && w >= 0 && c.parked[w] == nil && c.arrivalOf(s, w) && s.job == i {
		arr := s
		c.parked[w] = &arr
		early = true
		var ok bool
		s, ok = c.wait()
		if !ok {
			c.anomaly(call, "the worker started the job but the caller never entered its wait")
			return
		}
	}
	switch {
	case s.kind == "returned" && s.job == i && !early:
		switch s.res.Kind {
		case "ok":
			lo.Ans, lo.V = "fast", s.res.V
		case "err":
			lo.Ans, lo.E = "refused", s.res.E
		case "panic":
			lo.Ans = "panic"
		default:
			lo.Ans, lo.Note = "anomaly", "answer without queueing: "+s.res.String()
			c.broken = lo.Note
		}
	case s.kind == "accepted" && s.job == i:
		lo.Ans = "queued"
		if w < 0 {
			lo.Ans, lo.Note = "anomaly", "queued although no worker index exists"
			c.broken = lo.Note
			break
		}
		c.pending[w]++
		if c.parked[w] == nil {
			// the worker was idle: it takes the request and reaches the handler's first call
			if !c.awaitArrival(call, w) {
				return
			}
		}
	default:
		c.anomaly(call, fmt.Sprintf("unexpected signal %s(job %d, cache %d) during the call of job %d", s.kind, s.job, s.w, i))
		return
	}
	c.snapshot(&lo)
	c.out = append(c.out, lo)
	if lo.Ans != "queued" {
		c.chained(i) // the call is over: its goroutine goes on to the job chained behind it
	}
}

// release a caller that is parked in front of a caller-side instrumented call
func (c *ctl) doCStep(l label) {
	i := l.Job
	p := c.cparked[i]
	if p == nil {
		c.anomaly(l, "cstep of a caller that is not parked")
		return
	}
	m := c.h.mark()
	delete(c.cparked, i)
	close(p.grant)
	s, ok := c.wait()
	if !ok {
		c.anomaly(l, fmt.Sprintf("the caller of job %d made no observable progress within 10 s", i))
		return
	}
	c.settleCall(l, i, s, m)
}

// a worker may be stepped unless it is running an abandoned job with nothing live queued behind it (its completion
// would then not be observable); an abandonable job parked in front of a store callback must be abandoned first
func (c *ctl) steppable(w int) bool {
	p := c.parked[w]
	if p == nil {
		return false
	}
	if c.gone[p.job] {
		return c.pending[w] > 0
	}
	return !c.abandonable(w)
}
func (c *ctl) abandonable(w int) bool {
	p := c.parked[w]
	return p != nil && p.w < 0 && p.job >= 0 && p.job < len(c.s.Jobs) && c.s.Jobs[p.job].Ab && !c.gone[p.job] && c.ocs[p.job] != nil
}
func (c *ctl) nextCall() (int, bool) {
	for i, o := range c.s.Jobs {
		if !c.called[i] && !o.Chain && (o.After == 0 || c.called[o.After-1]) {
			return i, true
		}
	}
	return 0, false
}

func (c *ctl) parkedCallers() []int {
	js := []int{}
	for i := range c.s.Jobs {
		if c.cparked[i] != nil {
			js = append(js, i)
		}
	}
	return js
}

func (c *ctl) doStep(l label) {
	w := l.W
	p := c.parked[w]
	if p == nil {
		c.anomaly(l, "step of a worker that is not parked")
		return
	}
	m := c.h.mark()
	c.parked[w] = nil
	id := p.job
	close(p.grant)
	s, ok := c.wait()
	if !ok {
		c.anomaly(l, fmt.Sprintf("worker %d made no observable progress within 10 s", w))
		return
	}
	lo := labelObs{L: l, Ans: "step", ID: id}
	switch {
	case s.kind == "arrive" && c.arrivalOf(s, w) && s.job == id:
		c.parked[w] = &s
	case s.kind == "arrive" && c.arrivalOf(s, w) && c.gone[id]:
		// the worker is in front of a call of another job: the abandoned job has completed, nobody takes its result
		c.parked[w] = &s
		lo.Fin = &result{Kind: "err", E: "ECtx"}
	case s.kind == "arrive" && c.arrivalOf(s, w) && (id < 0 || id >= len(c.s.Jobs) || route(&c.s.G, c.s.Jobs[id].K) != w):
		// the call just made named a job that is not one of this worker's (no model run does that): it is written down
		// as it was seen, and nothing is concluded about that job
		c.parked[w] = &s
		lo.Note = fmt.Sprintf("worker %d made a call for job %d, which is routed elsewhere", w, id)
	case s.kind == "arrive" && c.arrivalOf(s, w):
		// the worker is already in front of a call of another job: job id has completed, its caller returns
		c.parked[w] = &s
		s2, ok := c.wait()
		if !ok {
			// the worker has moved on but the caller of job id was not answered within the bound: what was seen is
			// written down (a call, no completion) and the run goes on
			lo.Note = fmt.Sprintf("worker %d moved on to job %d but the caller of job %d was not answered within 10 s", w, s.job, id)
			break
		}
		if s2.kind != "returned" || s2.job != id {
			c.anomaly(l, fmt.Sprintf("worker %d moved on to job %d but the caller of job %d did not return (got %s job %d)", w, s.job, id, s2.kind, s2.job))
			return
		}
		r := s2.res
		lo.Fin = &r
		c.pending[w]--
	case s.kind == "returned" && s.job == id:
		if c.hasChain(id) {
			c.anomaly(l, fmt.Sprintf("job %d completed without having been abandoned although a call is chained behind it", id))
			return
		}
		r := s.res
		lo.Fin = &r
		c.pending[w]--
		if c.pending[w] > 0 && !c.stopping {
			if !c.awaitArrival(l, w) {
				return
			}
		}
	default:
		c.anomaly(l, fmt.Sprintf("unexpected signal %s(job %d, cache %d) after a step of worker %d running job %d", s.kind, s.job, s.w, w, id))
		return
	}
	evs := c.h.since(m)
	if len(evs) != 1 {
		c.anomaly(l, fmt.Sprintf("one step of worker %d made %d instrumented calls", w, len(evs)))
		return
	}
	lo.Ev = evs[0]
	if lo.Ev.Op >= 0 {
		lo.ID = lo.Ev.Op // the job the call itself says it belongs to
	}
	c.snapshot(&lo)
	c.out = append(c.out, lo)
}

// Stop runs on a goroutine of its own: it returns at once in the code as it is, but a Stop that ran handlers itself
// would park at the gates like a worker and must not take the scheduler with it
func (c *ctl) doStop(l label) {
	c.stopping = true
	go func() {
		atomic.StoreInt64(&c.stopGid, gid())
		c.grp.Stop()
		c.sigs <- sig{kind: "stopped"}
	}()
	s, ok := c.wait()
	switch {
	case !ok:
		c.anomaly(l, "Stop did not return within 10 s")
		return
	case s.kind == "stopped":
		c.stopping = false
	case s.kind == "arrive" && s.stopper:
		arr := s
		c.sparked = &arr
	default:
		c.anomaly(l, fmt.Sprintf("unexpected signal %s(job %d, cache %d) during Stop", s.kind, s.job, s.w))
		return
	}
	lo := labelObs{L: l, Ans: "stopped"}
	if c.sparked != nil {
		lo.Note = "the goroutine inside Stop is about to make a handler's call itself"
	}
	c.snapshot(&lo)
	c.out = append(c.out, lo)
}

// the worker whose queue the call the stopping goroutine is parked in belongs to
func (c *ctl) sparkedWorker() int {
	p := c.sparked
	if p.w >= 0 {
		return p.w
	}
	if p.job >= 0 && p.job < len(c.s.Jobs) {
		return route(&c.s.G, c.s.Jobs[p.job].K)
	}
	return 0
}

// release the call the goroutine inside Stop is parked in front of: it is written down as a step of that worker's queue
func (c *ctl) doSStep(l label) {
	p := c.sparked
	if p == nil {
		c.anomaly(l, "no call of the stopping goroutine is parked")
		return
	}
	w := c.sparkedWorker()
	m := c.h.mark()
	c.sparked = nil
	lo := labelObs{L: label{Kind: "sstep", W: w}, Ans: "step", ID: p.job, Note: "made by the goroutine that called Stop"}
	close(p.grant)
	for done := false; !done; {
		s, ok := c.wait()
		switch {
		case !ok:
			c.anomaly(l, "the goroutine inside Stop made no observable progress within 10 s")
			return
		case s.kind == "arrive" && s.stopper:
			arr := s
			c.sparked = &arr
			done = true
		case s.kind == "stopped":
			c.stopping = false
			done = true
		case s.kind == "returned":
			// a handler run by the stopping goroutine has answered its caller
			if s.job == p.job {
				r := s.res
				lo.Fin = &r
			}
			if s.job >= 0 && s.job < len(c.s.Jobs) {
				c.pending[route(&c.s.G, c.s.Jobs[s.job].K)]--
			}
		default:
			c.anomaly(l, fmt.Sprintf("unexpected signal %s(job %d, cache %d) while the stopping goroutine was running", s.kind, s.job, s.w))
			return
		}
	}
	evs := c.h.since(m)
	if len(evs) != 1 {
		c.anomaly(l, fmt.Sprintf("one released call of the stopping goroutine made %d instrumented calls", len(evs)))
		return
	}
	lo.Ev = evs[0]
	if lo.Ev.Op >= 0 {
		lo.ID = lo.Ev.Op
	}
	c.snapshot(&lo)
	c.out = append(c.out, lo)
}

// enabled labels in the scheduler's view
func (c *ctl) parkedWorkers() []int {
	ws := []int{}
	for w := 0; w < c.s.G.N; w++ {
		if c.parked[w] != nil {
			ws = append(ws, w)
		}
	}
	return ws
}

func runConc(s *concSpec, r *rand.Rand) (out []labelObs, clean bool) {
	out, _, clean = runConcMode(s, r, false)
	return
}

// prefix mode: run exactly s.Labels, report which labels are enabled afterwards, then finish the run unobserved
func runConcMode(s *concSpec, r *rand.Rand, prefixOnly bool) (out []labelObs, enabled []label, clean bool) {
	g := &s.G
	g.Wrapped = true
	g.Init = map[int64]int64{}
	for _, kv := range g.InitL {
		g.Init[kv[0]] = kv[1]
	}
	h := newHist(g.Init)
	c := &ctl{s: s, h: h, sigs: make(chan sig, 4096), parked: map[int]*sig{}, cparked: map[int]*sig{}, pending: map[int]int{},
		ocs: map[int]*opCtx{}, called: map[int]bool{}, gone: map[int]bool{}}
	h.gate = func(oc *opCtx, cacheIdx int) {
		gr := make(chan struct{})
		id := -1
		if oc != nil {
			id = oc.id
		}
		me := gid()
		c.sigs <- sig{kind: "arrive", job: id, w: cacheIdx, grant: gr, caller: oc != nil && oc.gid != 0 && oc.gid == me,
			stopper: atomic.LoadInt64(&c.stopGid) == me}
		<-gr
	}
	c.grp = buildGroup(g, h)
	if h.apiNote != "" {
		c.anomaly(label{Kind: "stop"}, h.apiNote)
	}
	do := func(l label) {
		switch l.Kind {
		case "call":
			c.doCall(l)
		case "step":
			c.doStep(l)
		case "stop":
			c.doStop(l)
		case "cstep":
			c.doCStep(l)
		case "abandon":
			c.doAbandon(l)
		case "sstep":
			c.doSStep(l)
		}
	}
	// whatever is still parked is let go, worker calls first
	drainOne := func() (label, bool) {
		if c.sparked != nil {
			return label{Kind: "sstep", W: c.sparkedWorker()}, true
		}
		for _, w := range c.parkedWorkers() {
			if c.abandonable(w) {
				return label{Kind: "abandon", W: w}, true
			}
		}
		for _, w := range c.parkedWorkers() {
			if c.steppable(w) {
				return label{Kind: "step", W: w}, true
			}
		}
		if js := c.parkedCallers(); len(js) > 0 {
			return label{Kind: "cstep", Job: js[0]}, true
		}
		if len(c.parkedWorkers()) > 0 {
			// only abandoned jobs with nothing live behind them are left: queue what has not been called yet
			if i, ok := c.nextCall(); ok {
				return label{Kind: "call", Job: i}, true
			}
		}
		return label{}, false
	}
	stopped := false
	if s.Labels != nil || prefixOnly {
		for _, l := range s.Labels {
			if c.broken != "" {
				break
			}
			if l.Kind == "stop" {
				stopped = true
			}
			do(l)
		}
		if prefixOnly && c.broken == "" {
			if i, ok := c.nextCall(); ok {
				enabled = append(enabled, label{Kind: "call", Job: i})
			}
			if c.sparked != nil {
				enabled = append(enabled, label{Kind: "sstep", W: c.sparkedWorker()})
			}
			for _, w := range c.parkedWorkers() {
				if c.abandonable(w) {
					enabled = append(enabled, label{Kind: "abandon", W: w})
				} else if c.steppable(w) {
					enabled = append(enabled, label{Kind: "step", W: w})
				}
			}
			for _, j := range c.parkedCallers() {
				enabled = append(enabled, label{Kind: "cstep", Job: j})
			}
			if len(enabled) > 0 {
				// not a complete schedule: let the workers finish, unobserved
				n := len(c.out)
				for c.broken == "" {
					l, more := drainOne()
					if !more {
						break
					}
					do(l)
				}
				if c.broken == "" {
					stopGroup(c.grp)
					return c.out[:n], enabled, true
				}
			}
		}
	} else {
		wantStop := r.Intn(5) == 0 && s.Class == ""
		burst := 1 + r.Intn(4)
		for c.broken == "" {
			ws := c.parkedWorkers()
			type opt struct {
				l label
				w int
			}
			opts := []opt{}
			next, more := c.nextCall()
			if more {
				opts = append(opts, opt{label{Kind: "call", Job: next}, 2 * burst})
			}
			ncalled := len(c.called)
			if c.sparked != nil {
				opts = append(opts, opt{label{Kind: "sstep", W: c.sparkedWorker()}, 8})
			}
			// Stop while a worker is inside a store callback with further requests queued behind it: first queue everything,
			// then run until some worker is parked in front of a store callback, then Stop
			forceStop := false
			if s.Class == "stopdrain/" && !stopped {
				if more {
					ws = nil
				} else {
					for _, w := range ws {
						if p := c.parked[w]; p.w < 0 && c.pending[w] >= 2 {
							forceStop = true
						}
					}
					if forceStop {
						ws = nil
					}
				}
			}
			for _, w := range ws {
				if c.abandonable(w) {
					opts = append(opts, opt{label{Kind: "abandon", W: w}, 6})
				} else if c.steppable(w) {
					opts = append(opts, opt{label{Kind: "step", W: w}, 2})
				}
			}
			for _, j := range c.parkedCallers() {
				opts = append(opts, opt{label{Kind: "cstep", Job: j}, 1})
			}
			if forceStop {
				opts = append(opts, opt{label{Kind: "stop"}, 1})
			}
			if s.Class == "backlog/" {
				// serve the first jobs one by one, hold the worker inside a store callback of job Hold, queue everything else
				// behind it (each call is seen to be queued before the next is made), then let the worker run
				opts = opts[:0]
				held := false
				for _, w := range ws {
					if p := c.parked[w]; p.job == s.Hold && p.w < 0 {
						held = true
					}
				}
				switch {
				case more && next <= s.Hold && len(ws) > 0:
					opts = append(opts, opt{label{Kind: "step", W: ws[0]}, 1})
				case more && (next <= s.Hold || held):
					opts = append(opts, opt{label{Kind: "call", Job: next}, 1})
				case len(ws) > 0:
					opts = append(opts, opt{label{Kind: "step", W: ws[r.Intn(len(ws))]}, 1})
				}
			}
			if wantStop && !stopped && ncalled > len(s.Jobs)/2 {
				opts = append(opts, opt{label{Kind: "stop"}, 1})
			}
			if len(opts) == 0 {
				break
			}
			tot := 0
			for _, o := range opts {
				tot += o.w
			}
			x := r.Intn(tot)
			var pick label
			for _, o := range opts {
				if x < o.w {
					pick = o.l
					break
				}
				x -= o.w
			}
			if pick.Kind == "stop" {
				stopped = true
			}
			s.Labels = append(s.Labels, pick)
			do(pick)
		}
	}
	if c.broken != "" {
		// release whatever is parked so that the goroutines can end
		for _, p := range c.parked {
			if p != nil {
				close(p.grant)
			}
		}
		for _, p := range c.cparked {
			if p != nil {
				close(p.grant)
			}
		}
		if c.sparked != nil {
			close(c.sparked.grant)
		}
		h.gate = func(*opCtx, int) {}
		go func() {
			for range c.sigs {
			}
		}()
		go c.grp.Stop()
		return c.out, nil, false
	}
	// a replayed label list may leave work behind: finish it (these steps are observed and become part of the case)
	for c.broken == "" {
		l, more := drainOne()
		if !more {
			break
		}
		s.Labels = append(s.Labels, l)
		do(l)
	}
	if c.broken == "" && c.stopping {
		c.anomaly(label{Kind: "stop"}, "Stop has not returned although nothing is parked any more")
	}
	if c.broken == "" && len(c.parkedWorkers()) > 0 {
		c.anomaly(label{Kind: "stop"}, "an abandoned job is left with no live job queued behind it: its end cannot be observed")
	}
	if c.broken != "" {
		for _, p := range c.parked {
			if p != nil {
				close(p.grant)
			}
		}
		if c.sparked != nil {
			close(c.sparked.grant)
		}
		h.gate = func(*opCtx, int) {}
		go func() {
			for range c.sigs {
			}
		}()
		go c.grp.Stop()
		return c.out, nil, false
	}
	if !stopGroup(c.grp) {
		c.anomaly(label{Kind: "stop"}, "the group did not shut down within 10 s after every accepted operation had completed")
		return c.out, nil, false
	}
	return c.out, nil, true
}

// every complete schedule (interleaving of the calls, in program order, with the single-call steps of the workers)
// of a small program, depth first; each node re-runs its prefix on a fresh group
func exploreSchedules(base *concSpec, limit int, emit func(*concSpec, []labelObs, bool)) (leaves int, all bool) {
	all = true
	var rec func(prefix []label)
	rec = func(prefix []label) {
		if leaves >= limit || timeouts >= 4 {
			all = false
			return
		}
		s := &concSpec{G: base.G, Jobs: base.Jobs, Labels: append([]label{}, prefix...)}
		out, enabled, clean := runConcMode(s, nil, true)
		if len(enabled) == 0 {
			leaves++
			emit(s, out, clean)
			return
		}
		for _, l := range enabled {
			rec(append(append([]label{}, prefix...), l))
		}
	}
	rec([]label{})
	return
}

// small programs whose schedules are enumerated completely (thorough tier)
func smallPrograms() []*concSpec {
	mk := func(cap, n int, init [][2]int64, univ []int64, jobs ...opSpec) *concSpec {
		return &concSpec{G: grpSpec{Wrapped: true, N: n, Cap: cap, Kind: kInt, Univ: univ, InitL: init}, Jobs: jobs}
	}
	return []*concSpec{
		// a cached key is updated while a reader polls it from the fast path
		mk(-1, 1, [][2]int64{{7, 5}}, []int64{7}, opSpec{Op: opGet, K: 7}, opSpec{Op: opUpdate, K: 7, D: 3}, opSpec{Op: opGet, K: 7, Faults: []int{1}}),
		// update with a failing callback, then delete, same key
		mk(-1, 1, [][2]int64{{7, 5}}, []int64{7}, opSpec{Op: opGet, K: 7}, opSpec{Op: opUpdate, K: 7, D: 3, Faults: []int{1}}, opSpec{Op: opDelete, K: 7}),
		// add twice (second is a duplicate only if the first has cached it by then), LRU of one entry, two keys on one worker
		mk(1, 1, nil, []int64{1, 2}, opSpec{Op: opAdd, K: 1, D: 4}, opSpec{Op: opAdd, K: 1, D: 6}, opSpec{Op: opUpsertLoad, K: 2, D: 9}),
		// two workers, one key each, plus a reader
		mk(-1, 2, [][2]int64{{2, 8}}, []int64{2, 3}, opSpec{Op: opUpdOrAdd, K: 2, D: 1}, opSpec{Op: opUpsertRenew, K: 3, D: 2}, opSpec{Op: opGet, K: 2, Faults: []int{1}}),
		// four jobs on one key, queue bound 2: refusals by a full queue depend on the schedule
		{G: grpSpec{Wrapped: true, N: 1, Cap: -1, Deep: 2, Kind: kInt, Univ: []int64{5}, InitL: [][2]int64{{5, 1}}},
			Jobs: []opSpec{{Op: opUpdate, K: 5, D: 2}, {Op: opUpsertRenew, K: 5, D: 3}, {Op: opDelete, K: 5}, {Op: opGet, K: 5, Faults: []int{1}}}},
		// two keys colliding on one worker of two, LRU of one entry: evictions between the jobs
		{G: grpSpec{Wrapped: true, N: 2, Cap: 1, Kind: kInt, Univ: []int64{1, 3}, InitL: [][2]int64{{1, 10}, {3, 30}}},
			Jobs: []opSpec{{Op: opGet, K: 1}, {Op: opGet, K: 3}, {Op: opUpdate, K: 1, D: 7}, {Op: opGet, K: 1, Faults: []int{1}}}},
		// a cached key grows past the whole LRU capacity (datum 405: a cache.Value of size 3, capacity 2) while a reader polls it
		mk(2, 1, [][2]int64{{7, 5}}, []int64{7}, opSpec{Op: opGet, K: 7}, opSpec{Op: opUpdate, K: 7, D: 405}, opSpec{Op: opGet, K: 7, Faults: []int{1}}),
		// upsert-then-load with a failing load, then a get that loads
		mk(2, 1, nil, []int64{4}, opSpec{Op: opUpsertLoad, K: 4, D: 1, Faults: []int{0, 1}}, opSpec{Op: opGet, K: 4}, opSpec{Op: opDelete, K: 4, Faults: []int{1}}),
	}
}

// ---------------------------------------------------------------- Coq terms

func coqJob(i int, o opSpec) string {
	return fmt.Sprintf("(mkJob %s %s %s)", vh.CoqZ(int64(i)), o.coq(), coqFaults(o.Faults))
}

func (lo labelObs) coqAnswer() string {
	switch lo.Ans {
	case "fast":
		return "(AFast " + lo.V.coq() + ")"
	case "refused", "abandoned":
		return "(ARefused " + lo.E + ")"
	case "panic":
		return "APanic"
	case "queued":
		return "AQueued"
	case "stopped":
		return "AStopped"
	case "step", "cstep":
		fin := "None"
		if lo.Fin != nil {
			fin = "(Some " + lo.Fin.coq() + ")"
		}
		return fmt.Sprintf("(AStep %s %s %s)", vh.CoqZ(int64(lo.ID)), lo.Ev.coq(), fin)
	}
	return "APanic" // with label GStop: the marker of a harness anomaly (no run of the machine answers Stop with a panic)
}

func concCase(s *concSpec, out []labelObs, clean bool) vh.Case {
	g := &s.G
	items := []string{}
	desc := []map[string]interface{}{}
	fast, overlap, qmax := 0, 0, 0
	inflight := map[int]bool{}
	for _, lo := range out {
		var lab string
		kind := lo.L.Kind
		if lo.Ans == "anomaly" {
			kind = "stop"
		}
		if lo.Ans == "cstep" {
			kind = "cstep"
		}
		switch kind {
		case "sstep":
			lab = "(GStep " + vh.CoqZ(int64(lo.L.W)) + ")"
		case "abandon":
			lab = "(GAbandon " + vh.CoqZ(int64(lo.L.W)) + ")"
		case "cstep":
			lab = "(GCaller " + vh.CoqZ(int64(lo.ID)) + ")"
		case "call":
			lab = "(GCall " + coqJob(lo.L.Job, s.Jobs[lo.L.Job]) + ")"
		case "step":
			lab = "(GStep " + vh.CoqZ(int64(lo.L.W)) + ")"
		default:
			lab = "GStop"
		}
		items = append(items, fmt.Sprintf("(%s, %s, %s, %s)", lab, lo.coqAnswer(), coqCacheSnap(lo.CacheV, lo.CacheH), coqStoreSnap(lo.StoreV)))
		d := map[string]interface{}{}
		switch lo.L.Kind {
		case "sstep":
			d["label"] = fmt.Sprintf("release the goroutine that called Stop (it is running a request of worker %d's queue)", lo.L.W)
		case "abandon":
			d["label"] = fmt.Sprintf("the caller of the job worker %d is running gives up (context cancelled)", lo.L.W)
		case "cstep":
			d["label"] = fmt.Sprintf("release the caller of job %d", lo.L.Job)
		case "call":
			d["label"] = fmt.Sprintf("call job %d: %s", lo.L.Job, s.Jobs[lo.L.Job])
		case "step":
			d["label"] = fmt.Sprintf("step worker %d", lo.L.W)
		default:
			d["label"] = "stop"
		}
		switch lo.Ans {
		case "fast":
			d["answer"] = "fast-path hit " + lo.V.String()
			fast++
			if len(inflight) > 0 {
				overlap++
			}
		case "abandoned":
			d["answer"] = fmt.Sprintf("the caller of job %d returns %s; the handler stays parked", lo.ID, lo.E)
		case "refused":
			d["answer"] = "refused " + lo.E
		case "cstep":
			a := fmt.Sprintf("THE CALLER'S OWN GOROUTINE of job %d is at / has made an instrumented call; last: %s", lo.ID, lo.Ev)
			if lo.Fin != nil {
				a += " ; the call returns " + lo.Fin.String()
			}
			d["answer"] = a
		case "step":
			a := fmt.Sprintf("job %d: %s", lo.ID, lo.Ev)
			if lo.Fin != nil {
				a += " ; completes with " + lo.Fin.String()
				delete(inflight, lo.ID)
			} else {
				inflight[lo.ID] = true
			}
			d["answer"] = a
		case "anomaly":
			d["answer"] = "ANOMALY: " + lo.Note
		default:
			d["answer"] = lo.Ans
		}
		st, ca := map[string]string{}, map[string]string{}
		for j, k := range g.Univ {
			if !lo.StoreV[j].Nil {
				st[fmt.Sprint(k)] = lo.StoreV[j].String()
			}
			if lo.CacheH[j] {
				ca[fmt.Sprint(k)] = lo.CacheV[j].String()
			}
		}
		d["store"], d["cache"] = st, ca
		desc = append(desc, d)
	}
	_ = qmax
	sp := *s
	rp, _ := json.Marshal(&sp)
	jobs := []string{}
	for i, o := range s.Jobs {
		js := fmt.Sprintf("%d:%s", i, o)
		if o.Ab {
			js += " (caller gives up during the store callback)"
		}
		if o.Chain {
			js += " (issued by the previous job's goroutine when that call has returned)"
		}
		jobs = append(jobs, js)
	}
	return vh.Case{
		Coq:        fmt.Sprintf("CConc %s %s %s %s", coqCfg(g), vh.CoqNat(g.Deep), vh.CoqZList(g.Univ), vh.CoqList(items)),
		Class:      s.Class + fmt.Sprintf("sched/%s/w%d/deep%d", g.facade(), g.N, g.Deep),
		Nontrivial: len(out) >= 6 && (fast > 0 || len(s.Jobs) >= 3),
		Desc: map[string]interface{}{"mode": "scheduled", "workers": g.N, "facade": g.facade(), "key_type": kindNames[g.Kind], "queue_bound": g.Deep,
			"universe": g.Univ, "initial_store": g.InitL, "jobs": jobs, "labels": desc, "fast_path_hits": fast, "fast_path_hits_during_a_handler": overlap, "clean_shutdown": clean},
		Replay: "conc:" + string(rp),
	}
}

// ---------------------------------------------------------------- generator

func genConc(r *rand.Rand, focus string) *concSpec {
	g := genGroup(r, "")
	g.Wrapped = true
	g.N = []int{1, 1, 2, 2, 3}[r.Intn(5)]
	g.Deep = []int{0, 0, 0, 1, 2}[r.Intn(5)]
	// violation search: stay in the class where model and implementation diverged (sched/<facade>/w<n>/deep<d>)
	if f := strings.TrimPrefix(focus, "enum/"); strings.HasPrefix(f, "sched/") && r.Intn(4) != 0 {
		var fac string
		var n, d int
		parts := strings.Split(f, "/")
		if len(parts) == 4 {
			fac = parts[1]
			if _, err := fmt.Sscanf(parts[2], "w%d", &n); err == nil && n > 0 {
				g.N = n
			}
			if _, err := fmt.Sscanf(parts[3], "deep%d", &d); err == nil {
				g.Deep = d
			}
			if fac == "map" {
				g.Cap = -1
			} else {
				var cp int
				if _, err := fmt.Sscanf(fac, "lru%d", &cp); err == nil {
					g.Cap = cp
				}
			}
		}
	}
	// keys that exist for the chosen worker count
	univ := []int64{}
	for _, k := range g.Univ {
		if route(&g, k) >= 0 || r.Intn(3) == 0 {
			univ = append(univ, k)
		}
	}
	if len(univ) == 0 {
		univ = []int64{int64(r.Intn(8))}
	}
	if len(univ) > 3 {
		univ = univ[:3]
	}
	g.Univ = univ
	init := [][2]int64{}
	for _, kv := range g.InitL {
		for _, k := range univ {
			if k == kv[0] {
				init = append(init, kv)
			}
		}
	}
	g.InitL = init
	n := 3 + r.Intn(7)
	jobs := genSteps(r, &g, n, false) // no cancellation here: a caller leaving early would no longer signal completion
	if len(jobs) > 12 {
		jobs = jobs[:12]
	}
	return &concSpec{G: g, Jobs: jobs}
}


// Callers that give up: a Get whose caller's context is cancelled while the worker is parked inside the load of that
// key; the same goroutine then goes on to its next Get (another key, same or another worker; possibly abandoned as
// well); a barrier per abandoned job makes its end observable.  Everything else is scheduled at random.
func genAbandon(r *rand.Rand) *concSpec {
	g := grpSpec{Wrapped: true, N: []int{1, 2, 2, 3}[r.Intn(4)], Cap: []int{-1, -1, 2, 100}[r.Intn(4)], Kind: r.Intn(nKinds)}
	nk := 3 + r.Intn(3)
	for len(g.Univ) < nk {
		k := int64(r.Intn(30))
		dup := false
		for _, x := range g.Univ {
			dup = dup || x == k
		}
		if !dup {
			g.Univ = append(g.Univ, k)
		}
	}
	for i, k := range g.Univ {
		if i == 0 || r.Intn(10) < 7 {
			g.InitL = append(g.InitL, [2]int64{k, int64(3 + 7*i + r.Intn(5))}) // distinct plain data
		}
	}
	jobs := []opSpec{}
	busy := map[int]bool{}
	nAb := 1 + r.Intn(3)
	ki := 0
	var abKeys []int64
	for ki < len(g.Univ)-1 && len(abKeys) < nAb {
		k := g.Univ[ki]
		w := route(&g, k)
		if busy[w] {
			break // this worker is parked in an abandoned load: a get queued there cannot be abandoned in its own load
		}
		busy[w] = true
		jobs = append(jobs, opSpec{Op: opGet, K: k, Ab: true, Chain: len(jobs) > 0})
		abKeys = append(abKeys, k)
		ki++
	}
	// the request the goroutine goes on to with a live context
	jobs = append(jobs, opSpec{Op: opGet, K: g.Univ[ki], Chain: true})
	for i, k := range abKeys {
		jobs = append(jobs, opSpec{Op: opDelete, K: k, Faults: []int{1}, After: i + 1}) // barrier, queued behind job i
	}
	// a few more requests on the keys not involved above, and probes of every key at the end
	rest := g.Univ[ki+1:]
	for n := r.Intn(4); n > 0 && len(rest) > 0; n-- {
		k := rest[r.Intn(len(rest))]
		jobs = append(jobs, opSpec{Op: []int{opAdd, opUpdate, opUpsertLoad, opUpdOrAdd}[r.Intn(4)], K: k, D: int64(50 + r.Intn(40))})
	}
	for _, k := range g.Univ {
		jobs = append(jobs, opSpec{Op: opGet, K: k, Faults: []int{1}})
	}
	return &concSpec{G: g, Jobs: jobs, Class: "abandon/"}
}


// Stop while a worker is inside a store callback and further requests for the same key are queued behind it.
func genStopDrain(r *rand.Rand) *concSpec {
	g := grpSpec{Wrapped: true, N: []int{1, 1, 2}[r.Intn(3)], Cap: []int{-1, -1, 2, 100}[r.Intn(4)], Kind: r.Intn(nKinds)}
	genUniverse(r, &g, 2)
	hot := g.Univ[0]
	g.InitL = [][2]int64{{hot, int64(1 + r.Intn(90))}}
	jobs := []opSpec{}
	writes := []int{opUpdate, opUpdate, opUpsertLoad, opUpsertRenew, opUpdOrAdd}
	for n := 3 + r.Intn(3); n > 0; n-- {
		k := hot
		if len(g.Univ) > 1 && r.Intn(5) == 0 {
			k = g.Univ[1]
		}
		jobs = append(jobs, opSpec{Op: writes[r.Intn(len(writes))], K: k, D: int64(r.Intn(100))})
	}
	for _, k := range g.Univ {
		jobs = append(jobs, opSpec{Op: opGet, K: k, Faults: []int{1}})
	}
	return &concSpec{G: g, Jobs: jobs, Class: "stopdrain/"}
}


// Deep backlog on one worker: a few jobs are served, the worker is then held inside a store callback, b further requests
// for keys of that worker are queued behind it one at a time (b around the powers of two), and the worker is let go:
// per key the store callbacks must come in the order the requests were queued.  Most of the backlog are deletes whose
// callback fails (one call each, nothing changes), so that the log stays short.
func genBacklog(r *rand.Rand, b int) *concSpec {
	g := grpSpec{Wrapped: true, N: []int{1, 1, 3}[r.Intn(3)], Cap: -1, Kind: []int{kInt, kInt64, kUInt32, kInt64CRC, kString}[r.Intn(5)]}
	// keys of one worker
	var w0 = -1
	for k := int64(1); len(g.Univ) < 2 && k < 400; k++ {
		if w := route(&g, k); w0 < 0 || w == w0 {
			w0 = w
			g.Univ = append(g.Univ, k)
		}
	}
	for _, k := range g.Univ {
		g.InitL = append(g.InitL, [2]int64{k, int64(1 + r.Intn(90))})
	}
	hot := g.Univ[0]
	jobs := []opSpec{}
	h := []int{1, 3, 7}[r.Intn(3)]
	for i := 0; i < h; i++ {
		jobs = append(jobs, opSpec{Op: opDelete, K: g.Univ[i%len(g.Univ)], Faults: []int{1}})
	}
	jobs = append(jobs, opSpec{Op: opUpdate, K: hot, D: int64(r.Intn(100))}) // the job the worker is held in (at its load)
	for i := 0; i < b; i++ {
		k := g.Univ[r.Intn(len(g.Univ))]
		switch r.Intn(12) {
		case 0:
			jobs = append(jobs, opSpec{Op: opUpdate, K: k, D: int64(r.Intn(100))})
		case 1:
			jobs = append(jobs, opSpec{Op: opUpsertRenew, K: k, D: int64(r.Intn(100))})
		default:
			jobs = append(jobs, opSpec{Op: opDelete, K: k, Faults: []int{1}})
		}
	}
	return &concSpec{G: g, Jobs: jobs, Class: "backlog/", Hold: h}
}
