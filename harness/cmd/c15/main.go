// Command c15: correspondence harness of property C15 (syncx/pipe/mux worker group:
// write-through cache coherent with the store).
package main

import (
	"fmt"
	"encoding/json"
	"strings"

	"verifharness/vh"
)

func main() {
	vh.Main("c15", func(e *vh.Env) {
		if e.Replay != "" {
			replay(e)
			return
		}
		focus := ""
		if e.Search {
			focus = e.Focus
		}
		nSeq := e.Scale(320, 4000)
		if e.Search && strings.HasPrefix(focus, "sched/") {
			nSeq = 0
		}
		maxSteps := 36
		// the op-code accessors (gas.go): one case, empty when they answer the key they were built with
		api := vh.Case{Coq: "CSeq ObsStore (mkCfg 1%Z None [] []) [] []", Class: "api", Key: "api",
			Desc: map[string]interface{}{"mode": "GetK accessors of the seven op-codes", "ok": true}}
		if !opcodeAccessorsOK() {
			api.Coq = "CSeq ObsStore (mkCfg 1%Z None [] []) [] [mkStep (OGet 0%Z) [] false (mkObs [] RHang None [] [])]"
			api.Desc = map[string]interface{}{"mode": "GetK accessors of the seven op-codes", "ok": false}
		}
		e.Emit(api)
		const maxTimeouts = 2 // a hang is reported by the cases that saw it; do not spend the whole budget waiting
		for i := 0; i < nSeq && timeouts < maxTimeouts; i++ {
			s := genSeq(e.Rnd, focus, maxSteps, i)
			obs, stopped := runSeq(s)
			e.Emit(seqCase(s, obs, stopped))
		}
		e.Meta["sequential_histories"] = nSeq
		nConc := e.Scale(220, 2500)
		if e.Search && strings.HasPrefix(focus, "seq/") {
			nConc = 0
		}
		for i := 0; i < nConc && timeouts < 2*maxTimeouts; i++ {
			s := genConc(e.Rnd, focus)
			out, clean := runConc(s, e.Rnd)
			e.Emit(concCase(s, out, clean))
		}
		e.Meta["scheduled_runs"] = nConc
		nAb := e.Scale(120, 1200)
		if e.Search && focus != "" && !strings.HasPrefix(focus, "abandon/") {
			nAb = nAb / 6
		}
		for i := 0; i < nAb && timeouts < 2*maxTimeouts; i++ {
			s := genAbandon(e.Rnd)
			out, clean := runConc(s, e.Rnd)
			e.Emit(concCase(s, out, clean))
		}
		e.Meta["runs_with_callers_giving_up"] = nAb
		nSd := e.Scale(60, 600)
		for i := 0; i < nSd && timeouts < 2*maxTimeouts; i++ {
			s := genStopDrain(e.Rnd)
			out, clean := runConc(s, e.Rnd)
			e.Emit(concCase(s, out, clean))
		}
		e.Meta["runs_stopped_inside_a_store_callback"] = nSd
		// deep backlog on one worker
		backlogs := []int{63, 64, 65, 66, 127, 128, 129, 130, 255, 257}
		nBl := e.Scale(3, 20)
		for i := 0; i < nBl && timeouts < 2*maxTimeouts; i++ {
			b := backlogs[e.Rnd.Intn(len(backlogs))]
			if i == 0 {
				b = []int{65, 66, 129, 130}[e.Rnd.Intn(4)] // at least one run beyond 64 queued requests
			}
			s := genBacklog(e.Rnd, b)
			out, clean := runConc(s, e.Rnd)
			c := concCase(s, out, clean)
			c.Class = fmt.Sprintf("backlog/b%d/w%d", b, s.G.N)
			e.Emit(c)
		}
		e.Meta["deep_backlog_runs"] = nBl
		// truly parallel callers
		if !e.Search || focus == "" || strings.HasPrefix(focus, "par/") || strings.HasPrefix(focus, "hash/") {
			for kind := 0; kind < nKinds; kind++ {
				e.Emit(hashCase(kind, e.Rnd, e.Scale(20000, 200000)))
			}
			crc8 := []int{kInt64CRC, kUInt64CRC, kIntCRC, kUIntCRC, kString, kInt64, kUInt32CRC, kBytes}
			nPar := e.Scale(4, 24)
			for i := 0; i < nPar && timeouts < 2*maxTimeouts; i++ {
				kind := crc8[i%len(crc8)]
				if !kindCacheable(kind) {
					continue // no real facade can hold a Bytes key
				}
				for _, c := range runPar(e.Rnd, kind, 120) {
					e.Emit(c)
				}
			}
			e.Meta["parallel_runs"] = nPar
		}
		// deterministic class (after every class that draws from e.Rnd): callbacks that fail AND hand back a value
		if !e.Search || focus == "" || strings.HasPrefix(focus, "seq/") {
			nVE := 0
			for _, s := range valueWithErrorSpecs() {
				if timeouts >= 2*maxTimeouts {
					break
				}
				obs, stopped := runSeq(s)
				c := seqCase(s, obs, stopped)
				c.Class = "seq/value-with-error/" + strings.TrimPrefix(c.Class, "seq/")
				e.Emit(c)
				nVE++
			}
			e.Meta["value_with_error_histories"] = nVE
		}
		e.Meta["expired_10s_bounds"] = timeouts
		if (e.Thorough || e.Search) && !strings.HasPrefix(focus, "seq/") {
			// complete enumeration of the schedules of a few small programs
			total, allDone := 0, true
			for _, p := range smallPrograms() {
				if timeouts >= 2*maxTimeouts {
					allDone = false
					break
				}
				n, all := exploreSchedules(p, 1500, func(s *concSpec, out []labelObs, clean bool) {
					c := concCase(s, out, clean)
					c.Class = "enum/" + c.Class
					e.Emit(c)
				})
				total += n
				allDone = allDone && all
			}
			e.Meta["enumerated_schedules"] = total
			e.Meta["enumeration_complete"] = allDone
		}
	})
}

func replay(e *vh.Env) {
	switch {
	case strings.HasPrefix(e.Replay, "seq:"):
		var s seqSpec
		if err := json.Unmarshal([]byte(e.Replay[4:]), &s); err != nil {
			panic(err)
		}
		obs, stopped := runSeq(&s)
		e.Emit(seqCase(&s, obs, stopped))
	case strings.HasPrefix(e.Replay, "conc:"):
		var s concSpec
		if err := json.Unmarshal([]byte(e.Replay[5:]), &s); err != nil {
			panic(err)
		}
		out, clean := runConc(&s, e.Rnd)
		e.Emit(concCase(&s, out, clean))
	}
}
