package main

// Go transcription of coq/theories/C02_Model.v (fstep over KeyLTS.step) and the state-set witness search.
// NOT trusted: Coq replays the label sequence this search emits (case_accept).  A bug here can only make the
// harness fail to find a witness, which is reported as a case that Coq rejects, never as a pass.

import (
	"fmt"
	"sort"
	"strconv"
	"strings"
)

type rwm struct {
	writer, pending          int // -1 = none
	readers, wwait, rblocked []int
	tokens                   int
}

type entry struct {
	present     bool
	obj, rc, wc int
}

const (
	sReg = iota
	sRun
	sRel
)

type mthr struct {
	live  bool
	ks    []int // keys in acquisition order
	write bool
	objs  []int
	stage int
	todo  [][]int // SReg: chunks still to register
	rem   []int   // SRel: keys still to unlock
	// the KeyLTS request (over objects)
	blive bool
	brel  bool
	bnext int   // Acq n
	brem  []int // Rel rem
}

type mstate struct {
	locks   []rwm   // by object id; len = tnext
	table   []entry // by key
	thr     []mthr
	running []bool
}

const (
	lCall = iota
	lReg
	lArrive
	lAnnounce
	lGrant
	lToken
	lRelease
	lUnlock
)

type label struct {
	kind int
	a, b int
	ks   []int
	w    bool
}

func (l label) coq() string {
	switch l.kind {
	case lCall:
		return fmt.Sprintf("FCall %d %s %v", l.a, natList(l.ks), l.w)
	case lReg:
		return fmt.Sprintf("FReg %d", l.a)
	case lArrive:
		return fmt.Sprintf("FArrive %d", l.a)
	case lAnnounce:
		return fmt.Sprintf("FAnnounce %d %d", l.a, l.b)
	case lGrant:
		return fmt.Sprintf("FGrant %d", l.a)
	case lToken:
		return fmt.Sprintf("FToken %d %d", l.a, l.b)
	case lRelease:
		return fmt.Sprintf("FRelease %d", l.a)
	case lUnlock:
		return fmt.Sprintf("FUnlock %d", l.a)
	}
	return "?"
}

// coqZ prints a Go int as a Z literal (the hook's counts are Go ints; a broken locker can make them negative)
func coqZ(v int) string {
	if v < 0 {
		return fmt.Sprintf("(%d)%%Z", v)
	}
	return fmt.Sprintf("%d%%Z", v)
}

func natList(xs []int) string {
	s := make([]string, len(xs))
	for i, x := range xs {
		s[i] = fmt.Sprint(x)
	}
	return "[" + strings.Join(s, ";") + "]"
}

func newState(nt, nk int) *mstate {
	return &mstate{table: make([]entry, nk), thr: make([]mthr, nt), running: make([]bool, nt)}
}

func cp(a []int) []int { return append([]int(nil), a...) }

func (s *mstate) clone() *mstate {
	c := &mstate{locks: make([]rwm, len(s.locks)), table: append([]entry(nil), s.table...), thr: make([]mthr, len(s.thr)), running: append([]bool(nil), s.running...)}
	for i, m := range s.locks {
		c.locks[i] = rwm{m.writer, m.pending, cp(m.readers), cp(m.wwait), cp(m.rblocked), m.tokens}
	}
	for i, t := range s.thr {
		c.thr[i] = t
		c.thr[i].ks, c.thr[i].objs, c.thr[i].rem, c.thr[i].brem = cp(t.ks), cp(t.objs), cp(t.rem), cp(t.brem)
		c.thr[i].todo = append([][]int(nil), t.todo...)
	}
	return c
}

func sorted(a []int) []int { b := cp(a); sort.Ints(b); return b }

func appInts(b []byte, xs []int, sortIt bool) []byte {
	if sortIt && len(xs) > 1 {
		xs = sorted(xs)
	}
	b = append(b, '[')
	for _, x := range xs {
		b = strconv.AppendInt(b, int64(x), 10)
		b = append(b, ' ')
	}
	return append(b, ']')
}
func appBool(b []byte, v bool) []byte {
	if v {
		return append(b, 'T')
	}
	return append(b, 'F')
}

// key identifies a state up to the order inside the lock queues (only idle locks, absent entries and idle callers
// are abbreviated; this is the hot spot of the witness search)
func (s *mstate) key() string {
	b := make([]byte, 0, 256)
	for i, m := range s.locks {
		if m.writer == -1 && m.pending == -1 && len(m.readers)+len(m.wwait)+len(m.rblocked)+m.tokens == 0 {
			continue
		}
		b = strconv.AppendInt(b, int64(i), 10)
		b = append(b, ':')
		b = strconv.AppendInt(b, int64(m.writer), 10)
		b = append(b, '/')
		b = strconv.AppendInt(b, int64(m.pending), 10)
		b = appInts(b, m.readers, true)
		b = appInts(b, m.wwait, true)
		b = appInts(b, m.rblocked, true)
		b = strconv.AppendInt(b, int64(m.tokens), 10)
		b = append(b, ';')
	}
	b = append(b, '#')
	b = strconv.AppendInt(b, int64(len(s.locks)), 10)
	b = append(b, '#')
	for k, e := range s.table {
		if !e.present {
			continue
		}
		b = strconv.AppendInt(b, int64(k), 10)
		b = append(b, '.')
		b = strconv.AppendInt(b, int64(e.obj), 10)
		b = append(b, '.')
		b = strconv.AppendInt(b, int64(e.rc), 10)
		b = append(b, '.')
		b = strconv.AppendInt(b, int64(e.wc), 10)
		b = append(b, ',')
	}
	b = append(b, '#')
	for i, t := range s.thr {
		if !t.live && !t.blive && !s.running[i] {
			b = append(b, '-')
			continue
		}
		b = appBool(b, t.live)
		b = appInts(b, t.ks, false)
		b = appBool(b, t.write)
		b = appInts(b, t.objs, false)
		b = strconv.AppendInt(b, int64(t.stage), 10)
		for _, c := range t.todo {
			b = appInts(b, c, false)
		}
		b = append(b, '|')
		b = appInts(b, t.rem, false)
		b = appBool(b, t.blive)
		b = appBool(b, t.brel)
		b = strconv.AppendInt(b, int64(t.bnext), 10)
		b = appInts(b, t.brem, false)
		b = appBool(b, s.running[i])
		b = append(b, ',')
	}
	return string(b)
}

// ---- acquisition order (calculateSortedMultiKeys) ----
func acqOrder(ks []int, sh func(int) int) []int {
	out := cp(ks)
	sort.SliceStable(out, func(i, j int) bool { return sh(out[i]) < sh(out[j]) })
	return out
}
func chunksOf(ks []int, sh func(int) int) [][]int {
	var out [][]int
	for i, k := range ks {
		if i > 0 && sh(ks[i-1]) == sh(k) {
			out[len(out)-1] = append(out[len(out)-1], k)
		} else {
			out = append(out, []int{k})
		}
	}
	return out
}

// ---- KeyLTS.step ----
func (m *rwm) free() bool { return m.writer == -1 && m.pending == -1 }

func (s *mstate) baseStart(t int, objs []int, w bool) bool {
	th := &s.thr[t]
	if th.blive {
		return false
	}
	seen := map[int]bool{}
	for _, o := range objs {
		if seen[o] {
			return false
		}
		seen[o] = true
	}
	th.blive, th.brel, th.bnext, th.brem = true, false, 0, nil
	s.running[t] = true
	return true
}

func (s *mstate) arrive(t int) bool {
	th := &s.thr[t]
	if !s.running[t] || !th.blive || th.brel {
		return false
	}
	if th.bnext >= len(th.objs) {
		s.running[t] = false
		return true
	}
	m := &s.locks[th.objs[th.bnext]]
	if th.write {
		if m.free() {
			m.pending = t
		} else {
			m.wwait = append(m.wwait, t)
		}
		s.running[t] = false
		return true
	}
	if m.free() {
		m.readers = append([]int{t}, m.readers...)
		th.bnext++
		return true
	}
	m.rblocked = append(m.rblocked, t)
	s.running[t] = false
	return true
}

// waits_on
func (s *mstate) waitsOn(x, o int, w bool) bool {
	th := &s.thr[x]
	return th.blive && !th.brel && th.bnext < len(th.objs) && th.objs[th.bnext] == o && th.write == w && !s.running[x]
}

func without(l []int, i int) []int { return append(append([]int{}, l[:i]...), l[i+1:]...) }

func (s *mstate) announce(o, i int) bool {
	m := &s.locks[o]
	if !m.free() || i >= len(m.wwait) {
		return false
	}
	m.pending = m.wwait[i]
	m.wwait = without(m.wwait, i)
	return true
}
func (s *mstate) grant(o int) bool {
	m := &s.locks[o]
	if m.pending == -1 || m.writer != -1 || len(m.readers) != 0 || m.tokens != 0 {
		return false
	}
	w := m.pending
	if !s.waitsOn(w, o, true) {
		return false
	}
	s.thr[w].bnext++
	s.running[w] = true
	m.writer, m.pending = w, -1
	return true
}
func (s *mstate) token(o, i int) bool {
	m := &s.locks[o]
	if m.tokens == 0 || i >= len(m.rblocked) {
		return false
	}
	x := m.rblocked[i]
	if !s.waitsOn(x, o, false) {
		return false
	}
	s.thr[x].bnext++
	s.running[x] = true
	m.readers = append([]int{x}, m.readers...)
	m.rblocked = without(m.rblocked, i)
	m.tokens--
	return true
}
func (s *mstate) baseRelease(t int) bool {
	th := &s.thr[t]
	if !th.blive || th.brel || th.bnext != len(th.objs) || s.running[t] {
		return false
	}
	if len(th.objs) == 0 {
		th.blive = false
		return true
	}
	th.brel, th.brem = true, cp(th.objs)
	return true
}
func (s *mstate) baseUnlockKey(t int) bool {
	th := &s.thr[t]
	if !th.blive || !th.brel || len(th.brem) == 0 {
		return false
	}
	m := &s.locks[th.brem[0]]
	if th.write {
		m.writer = -1
		m.tokens += len(m.rblocked)
	} else {
		var nr []int
		for _, x := range m.readers {
			if x != t {
				nr = append(nr, x)
			}
		}
		m.readers = nr
	}
	th.brem = th.brem[1:]
	if len(th.brem) == 0 {
		th.blive, th.brel = false, false
	}
	return true
}

// ---- fstep ----
func (s *mstate) startIfDone(t int) bool {
	th := &s.thr[t]
	if th.stage == sReg && len(th.todo) == 0 {
		if !s.baseStart(t, th.objs, th.write) {
			return false
		}
		th.stage = sRun
	}
	return true
}
func (s *mstate) call(t int, ks []int, w bool, sh func(int) int) bool {
	th := &s.thr[t]
	if th.live {
		return false
	}
	seen := map[int]bool{}
	for _, k := range ks {
		if seen[k] {
			return false
		}
		seen[k] = true
	}
	ord := acqOrder(ks, sh)
	*th = mthr{live: true, ks: ord, write: w, stage: sReg, todo: chunksOf(ord, sh)}
	return s.startIfDone(t)
}
func (s *mstate) reg(t int) bool {
	th := &s.thr[t]
	if !th.live || th.stage != sReg || len(th.todo) == 0 {
		return false
	}
	c := th.todo[0]
	th.todo = th.todo[1:]
	for _, k := range c {
		e := &s.table[k]
		if !e.present {
			*e = entry{present: true, obj: len(s.locks)}
			s.locks = append(s.locks, rwm{writer: -1, pending: -1})
		}
		if th.write {
			e.wc++
		} else {
			e.rc++
		}
		th.objs = append(th.objs, e.obj)
	}
	return s.startIfDone(t)
}
func (s *mstate) release(t int) bool {
	th := &s.thr[t]
	if !th.live || th.stage != sRun {
		return false
	}
	if !s.baseRelease(t) {
		return false
	}
	if len(th.ks) == 0 {
		*th = mthr{}
		return true
	}
	th.stage, th.rem = sRel, cp(th.ks)
	return true
}
func (s *mstate) unlock(t int) bool {
	th := &s.thr[t]
	if !th.live || th.stage != sRel || len(th.rem) == 0 {
		return false
	}
	k := th.rem[0]
	e := &s.table[k]
	if !e.present {
		return false
	}
	if th.write {
		if e.wc == 0 {
			return false
		}
		e.wc--
	} else {
		if e.rc == 0 {
			return false
		}
		e.rc--
	}
	obj := e.obj
	if e.rc == 0 && e.wc == 0 {
		*e = entry{}
	}
	if !th.blive || !th.brel || len(th.brem) == 0 || th.brem[0] != obj {
		return false
	}
	if !s.baseUnlockKey(t) {
		return false
	}
	th.rem = th.rem[1:]
	if len(th.rem) == 0 {
		*th = mthr{}
	}
	return true
}

// ---- observation implied by a state ----
type obsT struct {
	Ret     []int    `json:"returned"`
	Counts  [][3]int `json:"counts"` // present keys ascending: key, readCount, writeCount
	Entries int      `json:"entries"`
	Blocked bool     `json:"blocked,omitempty"` // an unlock or a hook read blocked (never in the model)
}

func (o obsT) eq(p obsT) bool {
	if len(o.Ret) != len(p.Ret) || len(o.Counts) != len(p.Counts) || o.Entries != p.Entries || o.Blocked != p.Blocked {
		return false
	}
	for i := range o.Ret {
		if o.Ret[i] != p.Ret[i] {
			return false
		}
	}
	for i := range o.Counts {
		if o.Counts[i] != p.Counts[i] {
			return false
		}
	}
	return true
}
func (o obsT) coq() string {
	cs := make([]string, len(o.Counts))
	for i, c := range o.Counts {
		cs[i] = fmt.Sprintf("(%d,(%s,%s))", c[0], coqZ(c[1]), coqZ(c[2]))
	}
	return fmt.Sprintf("(Ob %s [%s] %d %v)", natList(o.Ret), strings.Join(cs, ";"), o.Entries, o.Blocked)
}

func (s *mstate) returned(t int) bool {
	th := &s.thr[t]
	return th.live && th.stage == sRun && th.blive && !th.brel && th.bnext == len(th.objs) && !s.running[t]
}
func (s *mstate) obs() obsT {
	o := obsT{Ret: []int{}, Counts: [][3]int{}}
	for t := range s.thr {
		if s.returned(t) {
			o.Ret = append(o.Ret, t)
		}
	}
	for k, e := range s.table {
		if e.present {
			o.Counts = append(o.Counts, [3]int{k, e.rc, e.wc})
		}
	}
	o.Entries = len(o.Counts)
	return o
}

// ---- closure of the internal steps after an API-level action of caller t; only quiescent states are kept ----
type term struct {
	s    *mstate
	path []label
}

func ext(path []label, l label) []label { return append(path[:len(path):len(path)], l) }

func explore(s *mstate, t int, path []label, out map[string]term, seen map[string]bool) {
	id := s.key()
	if seen[id] {
		return
	}
	seen[id] = true
	if len(seen) > 200000 {
		panic("c02: witness search exploded")
	}
	moved := false
	for x := range s.thr {
		th := &s.thr[x]
		if th.live && th.stage == sReg && len(th.todo) > 0 {
			c := s.clone()
			if c.reg(x) {
				explore(c, t, ext(path, label{kind: lReg, a: x}), out, seen)
			}
			moved = true
		}
		if th.live && th.stage == sRel {
			c := s.clone()
			if c.unlock(x) {
				explore(c, t, ext(path, label{kind: lUnlock, a: x}), out, seen)
			}
			moved = true
		}
	}
	for o := range s.locks {
		m := &s.locks[o]
		if m.free() && len(m.wwait) > 0 {
			for i := range m.wwait {
				c := s.clone()
				if c.announce(o, i) {
					explore(c, t, ext(path, label{kind: lAnnounce, a: o, b: i}), out, seen)
				}
			}
			moved = true
		}
		if m.pending != -1 && m.writer == -1 && len(m.readers) == 0 && m.tokens == 0 {
			c := s.clone()
			if c.grant(o) {
				explore(c, t, ext(path, label{kind: lGrant, a: o}), out, seen)
			}
			moved = true
		}
		if m.tokens > 0 && len(m.rblocked) > 0 {
			for i := range m.rblocked {
				c := s.clone()
				if c.token(o, i) {
					explore(c, t, ext(path, label{kind: lToken, a: o, b: i}), out, seen)
				}
			}
			moved = true
		}
	}
	for x := range s.running {
		if s.running[x] {
			c := s.clone()
			if c.arrive(x) {
				explore(c, t, ext(path, label{kind: lArrive, a: x}), out, seen)
			}
			moved = true
		}
	}
	if !moved {
		if _, ok := out[id]; !ok {
			out[id] = term{s, path}
		}
	}
}

// ---- the witness search over a recorded schedule ----
type actT struct {
	Call  bool  `json:"call"`
	T     int   `json:"t"`
	Keys  []int `json:"keys,omitempty"` // caller's list (key indices)
	Write bool  `json:"write,omitempty"`
	Multi bool  `json:"multi,omitempty"` // Locks/RLocks/Unlocks/RUnlocks rather than the single-key call
	// Burst: these callers enter AT ONCE (released through one gate); the runtime picks the interleaving of their
	// table sections and lock steps.  When non-empty the other fields are unused.
	Burst []actT `json:"burst,omitempty"`
}

func (a actT) coq() string {
	if len(a.Burst) > 0 {
		cs := make([]string, len(a.Burst))
		for i, b := range a.Burst {
			cs[i] = fmt.Sprintf("(%d,(%s,%v))", b.T, natList(b.Keys), b.Write)
		}
		return "(ABurst [" + strings.Join(cs, ";") + "])"
	}
	if a.Call {
		return fmt.Sprintf("(ACall %d %s %v)", a.T, natList(a.Keys), a.Write)
	}
	return fmt.Sprintf("(ARel %d)", a.T)
}

type roundT struct {
	Act actT `json:"act"`
	Obs obsT `json:"obs"`
}

type node struct {
	s      *mstate
	parent *node
	labels []label
}

// witness returns, per round, the resolved labels; failedAt = index of the first round whose observation matches
// no model state (-1 when a witness for the whole schedule exists); maxStates = largest candidate set.
func witness(nt, nk int, sh func(int) int, rounds []roundT) (labels [][]label, failedAt int, maxStates int) {
	set := []*node{{s: newState(nt, nk)}}
	failedAt = -1
	for i, rd := range rounds {
		next := map[string]*node{}
		for _, n := range set {
			c := n.s.clone()
			var first []label
			ok := true
			switch {
			case len(rd.Act.Burst) > 0:
				for _, b := range rd.Act.Burst {
					first = append(first, label{kind: lCall, a: b.T, ks: b.Keys, w: b.Write})
					ok = ok && c.call(b.T, b.Keys, b.Write, sh)
				}
			case rd.Act.Call:
				first = []label{{kind: lCall, a: rd.Act.T, ks: rd.Act.Keys, w: rd.Act.Write}}
				ok = c.call(rd.Act.T, rd.Act.Keys, rd.Act.Write, sh)
			default:
				first = []label{{kind: lRelease, a: rd.Act.T}}
				ok = c.release(rd.Act.T)
			}
			if !ok {
				continue
			}
			out := map[string]term{}
			explore(c, rd.Act.T, first, out, map[string]bool{})
			for k, tm := range out {
				if _, dup := next[k]; dup {
					continue
				}
				if tm.s.obs().eq(rd.Obs) {
					next[k] = &node{tm.s, n, tm.path}
				}
			}
		}
		if len(next) == 0 {
			failedAt = i
			break
		}
		keys := make([]string, 0, len(next))
		for k := range next {
			keys = append(keys, k)
		}
		sort.Strings(keys)
		set = set[:0]
		for _, k := range keys {
			set = append(set, next[k])
		}
		if len(set) > maxStates {
			maxStates = len(set)
		}
	}
	labels = make([][]label, len(rounds))
	// walk back from one surviving state
	n := set[0]
	var rev [][]label
	for n != nil && n.parent != nil {
		rev = append(rev, n.labels)
		n = n.parent
	}
	for i := range rev {
		labels[i] = rev[len(rev)-1-i]
	}
	return labels, failedAt, maxStates
}
