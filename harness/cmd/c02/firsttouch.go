package main

// Generator class "first-touch": a FRESH sharded locker on a big prime (slots far beyond 256 / 1024), and for one
// never-used key after the other a burst of 2-4 callers released from a spin barrier that all go for that key (or for
// two keys of the same never-used slot) - the first use of a slot, raced - then a full drain before the next key.
// Everything is observed and replayed like any other schedule: exactly one writer (or the readers) may have returned
// at the quiescent point, the hook's counts are the live callers; sound under every schedule.

import (
	"math/rand"
	"time"

	"verifharness/vh"
)

var firstKinds = []lockerCfg{
	{Kind: "KeyLockerGrp", Route: "mod", KeyTy: "int"},
	{Kind: "KeyLockerGrp", Route: "xxhash", KeyTy: "mixed"},
	{Kind: "TKeyLockerGrp", Route: "mod", KeyTy: "int"},
	{Kind: "TKeyLockerGrp", Route: "xxhash", KeyTy: "string"},
}

func genFirstTouch(rnd *rand.Rand) (runCfg, [][]actT) {
	// the interface-keyed groups and the primes beyond 1024 get most of the weight (slot tables may be laid out
	// differently beyond some size); the big constructions stay few
	lc := firstKinds[[]int{0, 0, 1, 1, 2, 3}[rnd.Intn(6)]]
	lc.Shards = []int{1031, 1031, 4099, 4099, 4099, 65537, 257, 73}[rnd.Intn(8)]
	slots := 22 + rnd.Intn(8)
	if slots > lc.Shards/5 {
		slots = lc.Shards / 5 // enough distinct never-used slots also on the small control primes
	}
	// slot s gets the keys s' and s' + p: same slot under modulo routing of ints (under xxhash just two more fresh keys)
	used := map[int]bool{}
	for len(lc.Seeds) < 2*slots {
		s := rnd.Intn(lc.Shards)
		if lc.Shards > 300 && s < 256 {
			continue
		}
		if lc.KeyTy == "mixed" {
			s = 3 * (s / 3)
		}
		if used[s] {
			continue
		}
		used[s] = true
		second := s + lc.Shards
		if lc.KeyTy == "mixed" {
			second = s + 3*lc.Shards
		}
		lc.Seeds = append(lc.Seeds, s, second)
	}
	nt := 5
	var bursts [][]actT
	multi := lc.Kind == "TKeyLockerGrp"
	for i := 0; i < slots; i++ {
		// mostly: up to five callers on ONE key through the single-key call (a small search space for the witness);
		// sometimes fewer callers with list forms and a second key of the same slot
		plain := rnd.Intn(4) != 0
		n := 4 + rnd.Intn(2)
		if !plain {
			n = 2 + rnd.Intn(2)
		}
		twoKeys := !plain && rnd.Intn(2) == 0
		var b []actT
		for t := 0; t < n; t++ {
			k := 2 * i
			if twoKeys && t%2 == 1 {
				k++
			}
			a := actT{Call: true, T: t, Keys: []int{k}, Write: rnd.Intn(6) != 0}
			if multi && !plain && rnd.Intn(2) == 0 {
				a.Multi = true
				if rnd.Intn(3) == 0 {
					a.Keys = []int{2 * i, 2*i + 1}
				}
			}
			b = append(b, a)
		}
		bursts = append(bursts, b)
	}
	return runCfg{L: lc, NT: nt, Ordered: true, First: true}, bursts
}

// firstTouchChooser: the next burst when nobody is inside, otherwise release somebody who has returned.
func firstTouchChooser(rnd *rand.Rand, bursts [][]actT) chooser {
	i := 0
	return func(d *driver, step int) (actT, bool) {
		if len(d.live) == 0 {
			if i >= len(bursts) {
				return actT{}, false
			}
			i++
			return actT{Burst: bursts[i-1]}, true
		}
		ret := d.returnedIDs()
		if len(ret) == 0 {
			return actT{}, false
		}
		return actT{T: ret[rnd.Intn(len(ret))]}, true
	}
}

func runFirstTouch(e *vh.Env, n int) (rounds, mismatches int) {
	touches := 0
	t0 := time.Now()
	var tRun, tEmit time.Duration
	for i := 0; i < n; i++ {
		c, bursts := genFirstTouch(e.Rnd)
		l := build(c.L)
		t1 := time.Now()
		rs, note := runSchedule(l, len(c.L.Seeds), firstTouchChooser(e.Rnd, bursts), e.Rnd.Intn)
		t2 := time.Now()
		if !emitChunked(e, c, l, rs, note, classOf(c), 5) {
			mismatches++
		}
		tRun += t2.Sub(t1)
		tEmit += time.Since(t2)
		rounds += len(rs)
		touches += len(bursts)
		if note != "" {
			break // the failing case is in hand; a corrupted locker may abort the process on a later unlock
		}
	}
	e.Meta["first_touch_bursts"] = touches
	e.Meta["first_touch_seconds"] = []float64{time.Since(t0).Seconds(), tRun.Seconds(), tEmit.Seconds()} // total, schedule, witness search + printing
	return
}
