package main

// Generator class "long-lists": multi-key Locks/RLocks with 13-24 keys on the sharded generic lockers, several
// keys per shard, every list ascending in ONE global key order (the key index order; the key values ascend too).
// Lists this long matter because the grouping of calculateSortedMultiKeys must keep the caller's list order
// inside a shard for ANY length (an unstable sort of (shard, key) pairs only shows beyond its small-slice cutoff).
//
// shape "probe":    a helper write-holds one key K of the list, the long caller enters and parks at K (in the
//                   model: holding exactly the keys before K in (shard, list) order); probers then issue single-key
//                   Locks on same-shard keys that precede K in the list (model: held => the prober parks) and that
//                   follow K (model: free => the prober returns and unlocks).  Parked / returned are the positive
//                   observations of drive.go, so the probes tell which keys the long caller already holds.
// shape "twocall":  two long callers whose ascending lists share several same-shard keys, each parked on a private
//                   blocker held by a helper; the helpers unlock, everybody is drained: must complete.

import (
	"math/rand"
	"sort"

	"verifharness/vh"
)

// longUniverse picks a sharded generic locker and a key universe with several keys per shard (ascending seeds).
func longUniverse(rnd *rand.Rand, focus string) (lockerCfg, []int) {
	lc := lockerCfg{Kind: "TKeyLockerGrp", Route: []string{"mod", "xxhash"}[rnd.Intn(2)], KeyTy: []string{"int", "int", "string"}[rnd.Intn(3)],
		Shards: []int{2, 3, 73}[rnd.Intn(3)]}
	if len(focus) > 0 {
		for _, r := range []string{"mod", "xxhash"} {
			if len(focus) > len("TKeyLockerGrp-"+r) && focus[:len("TKeyLockerGrp-"+r)] == "TKeyLockerGrp-"+r {
				lc.Route = r
			}
		}
	}
	ncand := 60
	if lc.Shards == 73 {
		ncand = 1600
	}
	cand := lc
	cand.Seeds = make([]int, ncand)
	for i := range cand.Seeds {
		cand.Seeds[i] = i
	}
	probe := build(cand)
	byShard := map[int][]int{}
	for i := range cand.Seeds {
		s := probe.Shard(i)
		byShard[s] = append(byShard[s], i)
	}
	var shards []int
	for s, ks := range byShard {
		if len(ks) >= 6 {
			shards = append(shards, s)
		}
	}
	sort.Ints(shards)
	rnd.Shuffle(len(shards), func(i, j int) { shards[i], shards[j] = shards[j], shards[i] })
	want := len(shards)
	if lc.Shards == 73 {
		want = 3 + rnd.Intn(3)
	}
	if want > len(shards) {
		want = len(shards)
	}
	total := 26 + rnd.Intn(5)
	var seeds []int
	for gi := 0; gi < want; gi++ {
		ks := byShard[shards[gi]]
		take := total/want + 1
		perm := rnd.Perm(len(ks))
		for j := 0; j < take && j < len(ks); j++ {
			seeds = append(seeds, ks[perm[j]])
		}
	}
	sort.Ints(seeds)
	if len(seeds) > 30 {
		drop := rnd.Perm(len(seeds))[:len(seeds)-30]
		sort.Ints(drop)
		var kept []int
		for i, s := range seeds {
			j := sort.SearchInts(drop, i)
			if j < len(drop) && drop[j] == i {
				continue
			}
			kept = append(kept, s)
		}
		seeds = kept
	}
	lc.Seeds = seeds
	lc.Reuse = rnd.Intn(3) != 0
	l := build(lc)
	shardOf := make([]int, len(seeds))
	for k := range seeds {
		shardOf[k] = l.Shard(k)
	}
	return lc, shardOf
}

func ascendingSubset(rnd *rand.Rand, nk, n int, must []int) []int {
	in := map[int]bool{}
	for _, k := range must {
		in[k] = true
	}
	for _, k := range rnd.Perm(nk) {
		if len(in) >= n {
			break
		}
		in[k] = true
	}
	out := make([]int, 0, len(in))
	for k := range in {
		out = append(out, k)
	}
	sort.Ints(out)
	return out
}

// genLong returns the configuration and the scripted actions of one long-lists schedule (replayChooser semantics:
// an unlock of a caller that has not returned is skipped, so "unlock the prober if it came back" is just an ARel).
func genLong(rnd *rand.Rand, focus string) (runCfg, []actT, string) {
	lc, shardOf := longUniverse(rnd, focus)
	nk := len(lc.Seeds)
	n := 13 + rnd.Intn(12)
	if n > nk {
		n = nk
	}
	write := rnd.Intn(3) != 0
	if rnd.Intn(5) < 2 {
		// ---- probe ----
		list := ascendingSubset(rnd, nk, n, nil)
		// K: a key whose shard has at least three keys in the list, preferably in the middle of them
		bySh := map[int][]int{}
		for _, k := range list {
			bySh[shardOf[k]] = append(bySh[shardOf[k]], k)
		}
		var cands []int
		for _, k := range list {
			if len(bySh[shardOf[k]]) >= 3 {
				cands = append(cands, k)
			}
		}
		if len(cands) == 0 {
			cands = list
		}
		K := cands[rnd.Intn(len(cands))]
		same := bySh[shardOf[K]]
		var before, after []int
		for _, k := range same {
			if k < K {
				before = append(before, k)
			} else if k > K {
				after = append(after, k)
			}
		}
		rnd.Shuffle(len(before), func(i, j int) { before[i], before[j] = before[j], before[i] })
		rnd.Shuffle(len(after), func(i, j int) { after[i], after[j] = after[j], after[i] })
		if len(before) > 2 {
			before = before[:2]
		}
		if len(after) > 2 {
			after = after[:2]
		}
		probes := append(append([]int{}, after...), before...)
		rnd.Shuffle(len(probes), func(i, j int) { probes[i], probes[j] = probes[j], probes[i] })
		acts := []actT{{Call: true, T: 0, Keys: []int{K}, Write: true}, {Call: true, T: 1, Keys: list, Write: write, Multi: true}}
		for i, p := range probes {
			acts = append(acts, actT{Call: true, T: 2 + i, Keys: []int{p}, Write: true}, actT{T: 2 + i})
		}
		acts = append(acts, actT{T: 0})
		return runCfg{L: lc, NT: 2 + len(probes), Ordered: true, Long: true}, acts, "probe"
	}
	// ---- two callers sharing same-shard keys, each behind a private blocker ----
	bySh := map[int][]int{}
	for k := 0; k < nk; k++ {
		bySh[shardOf[k]] = append(bySh[shardOf[k]], k)
	}
	best := -1
	for s, ks := range bySh {
		if best < 0 || len(ks) > len(bySh[best]) || (len(ks) == len(bySh[best]) && s < best) {
			best = s
		}
	}
	pool := append([]int{}, bySh[best]...)
	rnd.Shuffle(len(pool), func(i, j int) { pool[i], pool[j] = pool[j], pool[i] })
	ns := 3 + rnd.Intn(5)
	if ns > len(pool) {
		ns = len(pool)
	}
	shared := pool[:ns]
	a := ascendingSubset(rnd, nk, n, shared)
	b := ascendingSubset(rnd, nk, 13+rnd.Intn(12), shared)
	private := func(x, y []int) []int {
		iny := map[int]bool{}
		for _, k := range y {
			iny[k] = true
		}
		var out []int
		for _, k := range x {
			if !iny[k] {
				out = append(out, k)
			}
		}
		return out
	}
	pa, pb := private(a, b), private(b, a)
	if len(pa) == 0 || len(pb) == 0 {
		// no private key to park on: fall back to the shared-free variant (the callers just queue)
		acts := []actT{{Call: true, T: 2, Keys: a, Write: write, Multi: true}, {Call: true, T: 3, Keys: b, Write: true, Multi: true}}
		return runCfg{L: lc, NT: 4, Ordered: true, Long: true}, acts, "twocall"
	}
	// a blocker inside the shared shard, between the shared keys, parks its caller while it holds some but not all of them
	lo, hi := shared[0], shared[0]
	for _, k := range shared {
		if k < lo {
			lo = k
		}
		if k > hi {
			hi = k
		}
	}
	pickBlocker := func(priv []int) int {
		var mid []int
		for _, k := range priv {
			if shardOf[k] == best && k > lo && k < hi {
				mid = append(mid, k)
			}
		}
		if len(mid) > 0 && rnd.Intn(5) != 0 {
			return mid[rnd.Intn(len(mid))]
		}
		return priv[rnd.Intn(len(priv))]
	}
	ka, kb := pickBlocker(pa), pickBlocker(pb)
	acts := []actT{
		{Call: true, T: 0, Keys: []int{ka}, Write: true},
		{Call: true, T: 1, Keys: []int{kb}, Write: true},
		{Call: true, T: 2, Keys: a, Write: write, Multi: true},
		{Call: true, T: 3, Keys: b, Write: true, Multi: true},
	}
	if rnd.Intn(2) == 0 {
		acts = append(acts, actT{T: 0}, actT{T: 1})
	} else {
		acts = append(acts, actT{T: 1}, actT{T: 0})
	}
	return runCfg{L: lc, NT: 4, Ordered: true, Long: true}, acts, "twocall"
}

// runLongLists emits n long-lists schedules.
func runLongLists(e *vh.Env, n int) (rounds, mismatches, deadlocked int) {
	shapes := map[string]int{}
	bad := 0
	for i := 0; i < n && bad < 25; i++ {
		c, acts, shape := genLong(e.Rnd, e.Focus)
		l := build(c.L)
		rs, note := runSchedule(l, len(c.L.Seeds), replayChooser(acts), e.Rnd.Intn)
		if !emitRun(e, c, l, rs, note, classOf(c)) {
			mismatches++
		}
		if len(note) >= 8 && note[:8] == "deadlock" {
			deadlocked++
		}
		if note != "" {
			bad++
		}
		shapes[shape]++
		rounds += len(rs)
	}
	e.Meta["long_lists"] = shapes
	return
}
