package main

// C02 keylock: forced schedules on the four key lockers, witness search on the Go transcription of the model,
// one Coq case per schedule (actions + observations + resolved fine-grained labels).

import (
	"encoding/json"
	"fmt"
	"math/rand"
	"sort"
	"strings"

	"verifharness/vh"
)

type runCfg struct {
	L       lockerCfg `json:"locker"`
	NT      int       `json:"threads"`
	Ordered bool      `json:"ordered"`
	Long    bool      `json:"long,omitempty"`   // generator class long-lists (longlists.go)
	First   bool      `json:"first,omitempty"`  // generator class first-touch (firsttouch.go)
	Edge    bool      `json:"edge,omitempty"`   // generator class edge-int-keys (edgekeys.go)
	Faults  []faultT  `json:"faults,omitempty"` // generator class fault-key (faults.go)
	Race    *raceT    `json:"race,omitempty"`   // generator class release-race (faults.go)
}

type replayT struct {
	Cfg  runCfg `json:"cfg"`
	Acts []actT `json:"acts"`
}

var allKinds = []lockerCfg{
	{Kind: "KeyLocker", KeyTy: "mixed"},
	{Kind: "KeyLockerGrp", Route: "mod", KeyTy: "mixed"},
	{Kind: "KeyLockerGrp", Route: "xxhash", KeyTy: "mixed"},
	{Kind: "TKeyLocker", KeyTy: "int"},
	{Kind: "TKeyLocker", KeyTy: "string"},
	{Kind: "TKeyLockerGrp", Route: "mod", KeyTy: "int"},
	{Kind: "TKeyLockerGrp", Route: "xxhash", KeyTy: "int"},
	{Kind: "TKeyLockerGrp", Route: "xxhash", KeyTy: "string"},
	{Kind: "TKeyLockerGrp", Route: "mod", KeyTy: "string"}, // SimpleIndex falls back to xxhash for strings
}

var shardChoices = []int{1, 2, 3, 73}
var bigPrimes = []int{251, 257, 509, 1021, 1031, 4099}

func genCfg(rnd *rand.Rand, focus string) runCfg {
	var lc lockerCfg
	for tries := 0; ; tries++ {
		lc = allKinds[rnd.Intn(len(allKinds))]
		// the generic lockers carry the multi-key clauses: give them more weight
		if !strings.HasPrefix(lc.Kind, "T") && rnd.Intn(2) == 0 {
			continue
		}
		if focus == "" || strings.HasPrefix(focus, lc.class()+"/") || tries > 200 {
			break
		}
	}
	if strings.HasSuffix(lc.Kind, "Grp") {
		lc.Shards = shardChoices[rnd.Intn(len(shardChoices))]
		// shard-count boundaries (index width, eager/lazy slot tables): some universes on bigger primes, a few on huge ones
		switch r := rnd.Intn(100); {
		case r < 16:
			lc.Shards = bigPrimes[rnd.Intn(len(bigPrimes))]
		case r < 18:
			lc.Shards = 65537
		}
	}
	nk := 2 + rnd.Intn(4)
	seen := map[int]bool{}
	if lc.Shards > 255 {
		// keys whose shard number is high (>= 256, >= 1024 when the prime allows): exact under modulo routing of ints,
		// by chance (most of the range) under xxhash
		for len(lc.Seeds) < nk {
			lo := 256
			if lc.Shards > 1100 && rnd.Intn(2) == 0 {
				lo = 1024
			}
			s := lo + rnd.Intn(lc.Shards-lo) + lc.Shards*rnd.Intn(50)
			if lc.KeyTy == "mixed" {
				s = 3 * (s / 3) // mixedKey: multiples of 3 are ints, routed by value under modulo
				if s%lc.Shards < 256 {
					continue
				}
			}
			if !seen[s] {
				seen[s] = true
				lc.Seeds = append(lc.Seeds, s)
			}
		}
	}
	if strings.HasPrefix(lc.Kind, "T") {
		lc.Reuse = rnd.Intn(4) != 0
	}
	if !strings.HasPrefix(lc.Kind, "T") && rnd.Intn(3) == 0 {
		// one numeric value under several dynamic types.  Signed and unsigned of one width always come together (their
		// bit patterns coincide), plus a few other kinds; the sharded lockers only get the kinds remap can route.
		lc.KeyTy = "samevalue"
		lc.Seeds = nil
		v := []int{5, 1, 100, 7}[rnd.Intn(4)]
		kinds := sameValueKinds
		if lc.Kind == "KeyLockerGrp" {
			kinds = sameValueGrp
		}
		pick := map[int]bool{}
		for _, w := range rnd.Perm(5)[:1+rnd.Intn(2)] {
			pick[2*w], pick[2*w+1] = true, true // intN / uintN (w = 4: int / uint)
		}
		for extra := rnd.Intn(3); extra > 0; extra-- {
			pick[rnd.Intn(kinds)] = true
		}
		for ti := 0; ti < kinds; ti++ {
			if pick[ti] {
				lc.Seeds = append(lc.Seeds, 100*v+ti)
			}
		}
		rnd.Shuffle(len(lc.Seeds), func(i, j int) { lc.Seeds[i], lc.Seeds[j] = lc.Seeds[j], lc.Seeds[i] })
		nk = len(lc.Seeds)
	}
	if lc.Kind == "KeyLocker" && lc.KeyTy != "samevalue" && rnd.Intn(4) != 0 {
		// boundary key values of an interface{} key; the untyped nil is in most of these universes
		lc.KeyTy = "boundary"
		if rnd.Intn(5) != 0 {
			seen[0] = true
			lc.Seeds = append(lc.Seeds, 0)
		}
		for len(lc.Seeds) < nk {
			s := rnd.Intn(len(boundaryPool))
			if !seen[s] {
				seen[s] = true
				lc.Seeds = append(lc.Seeds, s)
			}
		}
		rnd.Shuffle(len(lc.Seeds), func(i, j int) { lc.Seeds[i], lc.Seeds[j] = lc.Seeds[j], lc.Seeds[i] })
	}
	for len(lc.Seeds) < nk {
		var s int
		switch rnd.Intn(4) {
		case 0:
			s = rnd.Intn(8)
		case 1:
			s = rnd.Intn(8) * maxInt(lc.Shards, 1) // same shard under modulo routing
		case 2:
			s = rnd.Intn(1000)
		default:
			s = rnd.Intn(1 << 30)
		}
		if !seen[s] {
			seen[s] = true
			lc.Seeds = append(lc.Seeds, s)
		}
	}
	ordered := rnd.Intn(8) != 0
	if strings.HasSuffix(focus, "/rotated") {
		ordered = false
	} else if strings.HasSuffix(focus, "/ordered") {
		ordered = true
	}
	return runCfg{L: lc, NT: 3 + rnd.Intn(4), Ordered: ordered}
}

func maxInt(a, b int) int {
	if a > b {
		return a
	}
	return b
}

// randomChooser: a random walk over "some idle caller enters" / "some returned caller unlocks".
func randomChooser(rnd *rand.Rand, c runCfg, l lockerAPI, steps int, multiBias int) chooser {
	nk := len(c.L.Seeds)
	return func(d *driver, step int) (actT, bool) {
		if step >= steps {
			return actT{}, false
		}
		ret := d.returnedIDs()
		var idle []int
		for t := 0; t < c.NT; t++ {
			if _, ok := d.live[t]; !ok {
				idle = append(idle, t)
			}
		}
		doCall := len(idle) > 0 && (len(ret) == 0 || rnd.Intn(100) < 55)
		if !doCall {
			if len(ret) == 0 {
				return actT{}, false // everybody is inside and blocked: drain / deadlock handling takes over
			}
			return actT{T: ret[rnd.Intn(len(ret))]}, true
		}
		mkCall := func(t int) actT {
			a := actT{Call: true, T: t, Write: rnd.Intn(100) < 55}
			if l.HasMulti() && rnd.Intn(100) < multiBias {
				a.Multi = true
				n := 2 + rnd.Intn(nk-1)
				if n > nk {
					n = nk
				}
				perm := rnd.Perm(nk)[:n]
				if c.Ordered {
					sort.Ints(perm)
				}
				a.Keys = append([]int{}, perm...)
			} else {
				a.Keys = []int{rnd.Intn(nk)}
			}
			return a
		}
		// a burst: two or three callers enter at once and race (registration sections and lock steps interleave)
		if len(idle) >= 2 && rnd.Intn(100) < 18 {
			n := 2
			if len(idle) >= 3 && rnd.Intn(3) == 0 {
				n = 3
			}
			p := rnd.Perm(len(idle))[:n]
			var b actT
			for _, i := range p {
				b.Burst = append(b.Burst, mkCall(idle[i]))
			}
			return b, true
		}
		a := actT{Call: true, T: idle[rnd.Intn(len(idle))], Write: rnd.Intn(100) < 55}
		if l.HasMulti() && rnd.Intn(100) < multiBias {
			a.Multi = true
			n := rnd.Intn(nk + 1) // 0..nk keys; the empty list is legal
			if rnd.Intn(4) != 0 && n < 2 {
				n = 2
			}
			if n > nk {
				n = nk
			}
			perm := rnd.Perm(nk)[:n]
			if c.Ordered {
				sort.Ints(perm)
			}
			a.Keys = append([]int{}, perm...)
		} else {
			a.Keys = []int{rnd.Intn(nk)}
		}
		return a, true
	}
}

func replayChooser(acts []actT) chooser {
	i := 0
	return func(d *driver, step int) (actT, bool) {
		for i < len(acts) {
			a := acts[i]
			i++
			if len(a.Burst) > 0 {
				busy := false
				for _, b := range a.Burst {
					if _, ok := d.live[b.T]; ok {
						busy = true
					}
				}
				if busy {
					continue
				}
				return a, true
			}
			if a.Call {
				if _, busy := d.live[a.T]; busy {
					continue
				}
				return a, true
			}
			if c, ok := d.live[a.T]; ok && c.tk.finished {
				return a, true
			}
			// the caller has not returned in this execution: the action is not available, skip it
		}
		return actT{}, false
	}
}

func emitRun(e *vh.Env, c runCfg, l lockerAPI, rounds []roundT, note string, class string) (accepted bool) {
	shard := make([]int, len(c.L.Seeds))
	for k := range shard {
		shard[k] = l.Shard(k)
	}
	return emitCore(e, c, shard, rounds, note, class)
}

// emitChunked sends a long schedule that keeps returning to the empty locker as several compact cases: it is cut
// wherever nobody is inside (after at least perChunk bursts), and each piece gets its own small key universe (the
// keys it uses, renumbered in ascending order), so the replay in Coq stays short.  A piece is a complete schedule of
// a fresh locker in its own right: none of its slots has been used before.
func emitChunked(e *vh.Env, c runCfg, l lockerAPI, rounds []roundT, note string, class string, perChunk int) (accepted bool) {
	accepted = true
	start, bursts := 0, 0
	for i := range rounds {
		if len(rounds[i].Act.Burst) > 0 {
			bursts++
		}
		last := i == len(rounds)-1
		if !last && !(liveAfter(rounds[start:i+1]) == 0 && bursts >= perChunk) {
			continue
		}
		piece := rounds[start : i+1]
		used := map[int]bool{}
		for _, r := range piece {
			for _, b := range r.Act.Burst {
				for _, k := range b.Keys {
					used[k] = true
				}
			}
			for _, k := range r.Act.Keys {
				used[k] = true
			}
			for _, cn := range r.Obs.Counts {
				used[cn[0]] = true
			}
		}
		var keys []int
		for k := range used {
			keys = append(keys, k)
		}
		sort.Ints(keys)
		rank := map[int]int{}
		c2 := c
		c2.L.Seeds = nil
		shard := make([]int, len(keys))
		for j, k := range keys {
			rank[k] = j
			c2.L.Seeds = append(c2.L.Seeds, c.L.Seeds[k])
			shard[j] = l.Shard(k)
		}
		mapKeys := func(ks []int) []int {
			out := make([]int, len(ks))
			for j, k := range ks {
				out[j] = rank[k]
			}
			return out
		}
		piece2 := make([]roundT, len(piece))
		for j, r := range piece {
			a := r.Act
			if len(a.Keys) > 0 {
				a.Keys = mapKeys(a.Keys)
			}
			if len(a.Burst) > 0 {
				nb := make([]actT, len(a.Burst))
				for x, b := range a.Burst {
					b.Keys = mapKeys(b.Keys)
					nb[x] = b
				}
				a.Burst = nb
			}
			o := r.Obs
			o.Counts = make([][3]int, len(r.Obs.Counts))
			for x, cn := range r.Obs.Counts {
				o.Counts[x] = [3]int{rank[cn[0]], cn[1], cn[2]}
			}
			piece2[j] = roundT{Act: a, Obs: o}
		}
		n := ""
		if last {
			n = note
		}
		if !emitCore(e, c2, shard, piece2, n, class) {
			accepted = false
		}
		start, bursts = i+1, 0
	}
	return
}

func emitCore(e *vh.Env, c runCfg, shard []int, rounds []roundT, note string, class string) (accepted bool) {
	nk := len(c.L.Seeds)
	var shs []string
	for k := 0; k < nk; k++ {
		if shard[k] != 0 {
			shs = append(shs, fmt.Sprintf("(%d,%d)", k, shard[k]))
		}
	}
	labels, failedAt, maxStates := witness(c.NT, nk, func(k int) int { return shard[k] }, rounds)
	rs := make([]string, len(rounds))
	blockedSomewhere := false
	for i, rd := range rounds {
		ls := []string{}
		if failedAt < 0 || i < failedAt {
			for _, lb := range labels[i] {
				ls = append(ls, lb.coq())
			}
		}
		rs[i] = fmt.Sprintf("Rd %s [%s] %s", rd.Act.coq(), strings.Join(ls, "; "), rd.Obs.coq())
		if len(rd.Obs.Ret) < liveAfter(rounds[:i+1]) {
			blockedSomewhere = true
		}
	}
	coq := fmt.Sprintf("Cs [%s] %d %d [%s]", strings.Join(shs, ";"), c.NT, nk, strings.Join(rs, ";\n  "))
	acts := make([]actT, len(rounds))
	for i := range rounds {
		acts[i] = rounds[i].Act
	}
	rp, _ := json.Marshal(replayT{Cfg: c, Acts: acts})
	desc := map[string]interface{}{
		"locker": c.L.class(), "key_type": c.L.KeyTy, "shards": c.L.Shards, "keys": c.L.keyDesc(), "shard_of_key": shard,
		"threads": c.NT, "ordered_lists": c.Ordered, "rounds": rounds, "max_candidate_states": maxStates,
		"reused_buffers": c.L.Reuse,
	}
	if note != "" {
		desc["note"] = note
	}
	if len(c.Faults) > 0 {
		desc["faulted_calls"] = c.Faults
		desc["faulted_calls_note"] = "each is a Locks (write) / RLocks (not write) of the listed keys with one more key inserted at list position pos whose Hit()/ToBytes() panics; the caller recovers; not a step of the schedule: nothing may stay registered"
	}
	if c.Race != nil {
		desc["release_race"] = c.Race
	}
	if failedAt >= 0 {
		desc["no_model_state_matches_round"] = failedAt
	}
	e.Emit(vh.Case{Coq: coq, Desc: desc, Class: class, Nontrivial: blockedSomewhere && len(rounds) >= 6, Replay: string(rp)})
	if n, ok := e.Meta["max_candidate_states"].(int); !ok || maxStates > n {
		e.Meta["max_candidate_states"] = maxStates
	}
	return failedAt < 0
}

func liveAfter(rounds []roundT) int {
	n := 0
	for _, r := range rounds {
		if len(r.Act.Burst) > 0 {
			n += len(r.Act.Burst)
		} else if r.Act.Call {
			n++
		} else if !r.Obs.Blocked {
			n--
		}
	}
	return n
}

func classOf(c runCfg) string {
	if len(c.Faults) > 0 {
		return c.L.class() + "/fault-key"
	}
	if c.Race != nil {
		return c.L.class() + "/release-race"
	}
	if c.First {
		return c.L.class() + "/first-touch"
	}
	if c.Long {
		return c.L.class() + "/long-lists"
	}
	if c.Edge {
		return c.L.class() + "/edge-int-keys"
	}
	if c.Ordered {
		return c.L.class() + "/ordered"
	}
	return c.L.class() + "/rotated"
}

func main() {
	vh.Main("c02", func(e *vh.Env) {
		if e.Replay != "" {
			var rp replayT
			if err := json.Unmarshal([]byte(e.Replay), &rp); err != nil {
				panic(err)
			}
			if rp.Cfg.Race != nil {
				// racy by nature: the same configuration is raced until a release hangs (bounded)
				c, lists := raceCfg(rp.Cfg.L.Shards, rp.Cfg.Race.Pairs, rp.Cfg.Race.Long, rp.Cfg.Race.Write, false)
				for i := 0; ; i++ {
					l, rs, note := raceOnce(c, lists, e.Rnd.Intn, i > 0)
					if note != "" || i == 20000 {
						if note == "" {
							l, rs, note = raceOnce(c, lists, e.Rnd.Intn, false)
						}
						emitRun(e, c, l, rs, note, classOf(c))
						return
					}
				}
			}
			l := build(rp.Cfg.L)
			rounds, note := runSchedule(l, len(rp.Cfg.L.Seeds), withFaults(l, rp.Cfg.Faults, replayChooser(rp.Acts)), e.Rnd.Intn)
			emitRun(e, rp.Cfg, l, rounds, note, classOf(rp.Cfg))
			return
		}
		// the exhaustive small scope runs first, before any deliberately deadlocking schedule has left goroutines parked
		if e.Thorough && !e.Search {
			exhaustive(e)
		}
		n := e.Scale(450, 4000)
		if e.Search {
			n = 1500 // the violation search runs after the tie has already broken: bounded volume, biased generator
		}
		polls, rounds, mismatches, deadlocked := 0, 0, 0, 0
		// A schedule with rotated (unordered) lists may deadlock by design; its goroutines then stay parked for the
		// rest of the process and every later stop-the-world snapshot pays for them.  Thirty such runs validate
		// the model's deadlocks; after the cap only ordered lists are generated (same random stream).
		const deadlockCap = 30
		// A run on ORDERED lists that stops early (anomalous observation, blocked unlock/hook, deadlock) never happens on
		// a correct locker; each one leaves goroutines parked for good and every later snapshot pays for them.  After
		// divergentCap such runs the failing cases are in hand: generation stops (a diverging implementation must not
		// make the check slow).
		const divergentCap = 25
		divergent := 0
		for i := 0; i < n; i++ {
			c := genCfg(e.Rnd, e.Focus)
			if deadlocked >= deadlockCap {
				c.Ordered = true
			}
			l := build(c.L)
			steps := 12 + e.Rnd.Intn(26)
			multiBias := 45
			if e.Search {
				multiBias = 70
			}
			rs, note := runSchedule(l, len(c.L.Seeds), randomChooser(e.Rnd, c, l, steps, multiBias), e.Rnd.Intn)
			if !emitRun(e, c, l, rs, note, classOf(c)) {
				mismatches++
			}
			if strings.HasPrefix(note, "deadlock") {
				deadlocked++
			}
			if note != "" && c.Ordered {
				divergent++
			}
			rounds += len(rs)
			polls += lastPolls
			if divergent >= divergentCap {
				break
			}
		}
		// long multi-key lists on the sharded generic lockers (after the random walk: its random stream is unchanged)
		nl := e.Scale(50, 200)
		if e.Search {
			nl = 80
			if strings.HasSuffix(e.Focus, "/long-lists") {
				nl = 400
			}
		}
		if divergent >= divergentCap {
			nl = 0
			e.Meta["cut_short"] = "stopped generating after 25 ordered schedules that ended in an anomaly or deadlock"
		}
		if divergent < divergentCap {
			fr, fm := runFirstTouch(e, e.Scale(30, 120))
			rounds += fr
			mismatches += fm
		}
		e.Meta["entries_hook_faults"] = entriesHookFaults
		lr, lm, ld := runLongLists(e, nl)
		rounds += lr
		mismatches += lm
		deadlocked += ld
		if divergent < divergentCap {
			er, em := runEdgeKeys(e, e.Scale(25, 150))
			rounds += er
			mismatches += em
		}
		if divergent < divergentCap {
			fr, fm := runFaultKeys(e, e.Scale(30, 150))
			rounds += fr
			mismatches += fm
			rr, rm, hung := runReleaseRace(e, e.Scale(3000, 20000))
			rounds += rr
			mismatches += rm
			e.Meta["release_race_hung"] = hung
		}
		e.Meta["deadlocked_runs"] = deadlocked
		e.Meta["sharded_interface_locker_nil_key"] = probeGrpNil()
		e.Meta["rounds"] = rounds
		e.Meta["stack_snapshots"] = polls
		e.Meta["schedules_without_witness"] = mismatches
	})
}

// exhaustive (thorough tier): every interleaving of three callers with one call each over two keys, for every
// multiset of programs (mode x key list), on the single generic locker and on a two-shard group whose shard
// order is the reverse of the key order.  Validates the model on a complete small scope; the unbounded claim
// is the theorems'.
func exhaustive(e *vh.Env) {
	type prog struct {
		keys  []int
		write bool
	}
	var progs []prog
	for _, w := range []bool{false, true} {
		for _, ks := range [][]int{{0}, {1}, {0, 1}} {
			progs = append(progs, prog{ks, w})
		}
	}
	lockers := []lockerCfg{
		{Kind: "TKeyLocker", KeyTy: "int", Seeds: []int{1, 2}},
		{Kind: "TKeyLockerGrp", Route: "mod", KeyTy: "int", Shards: 2, Seeds: []int{1, 2}}, // key 0 -> shard 1, key 1 -> shard 0
	}
	leaves := 0
	for _, lc := range lockers {
		c := runCfg{L: lc, NT: 3, Ordered: true}
		for i := 0; i < len(progs); i++ {
			for j := i; j < len(progs); j++ {
				for k := j; k < len(progs); k++ {
					ps := []prog{progs[i], progs[j], progs[k]}
					var dfs func(prefix []actT)
					dfs = func(prefix []actT) {
						l := build(lc)
						rounds, note, cleanup := runScheduleKeep(l, 2, replayChooser(prefix), nil)
						called, live := map[int]bool{}, map[int]bool{}
						for _, r := range rounds {
							if r.Act.Call {
								called[r.Act.T], live[r.Act.T] = true, true
							} else {
								delete(live, r.Act.T)
							}
						}
						var opts []actT
						if note == "" {
							for t := 0; t < 3; t++ {
								if !called[t] {
									opts = append(opts, actT{Call: true, T: t, Keys: ps[t].keys, Write: ps[t].write, Multi: len(ps[t].keys) > 1 || t == 2})
								}
							}
							if len(rounds) > 0 {
								for _, t := range rounds[len(rounds)-1].Obs.Ret {
									opts = append(opts, actT{T: t})
								}
							}
						}
						if len(opts) == 0 {
							if note == "" && len(live) > 0 {
								note = "deadlock: live callers, none has returned"
							}
							emitRun(e, c, l, rounds, note, lc.class()+"/exhaustive")
							leaves++
							cleanup()
							return
						}
						cleanup()
						for _, o := range opts {
							dfs(append(prefix[:len(prefix):len(prefix)], o))
						}
					}
					dfs(nil)
				}
			}
		}
	}
	e.Meta["exhaustive"] = true
	e.Meta["space"] = fmt.Sprintf("all interleavings of call/unlock of 3 callers x 1 call each over 2 keys, all 56 multisets of (mode, key list) programs, TKeyLocker and 2-shard TKeyLockerGrp with reversed shard order: %d schedules", leaves)
}

// probeGrpNil records (advisory, no verdict) what the sharded interface-keyed locker does with the untyped nil key:
// on the unchanged tree remap.ToBytes panics before any state is touched, which is why nil, typed nil pointers and
// struct{}{} are used with the single KeyLocker only.
func probeGrpNil() (res string) {
	l := build(lockerCfg{Kind: "KeyLockerGrp", Route: "mod", KeyTy: "mixed", Shards: 3, Seeds: []int{0}}).(*iAd)
	defer func() {
		if r := recover(); r != nil {
			res = fmt.Sprintf("Lock(nil) panics: %v; entries afterwards %d", r, l.Entries())
		}
	}()
	l.l.Lock(nil)
	res = fmt.Sprintf("Lock(nil) returned; entries %d", l.Entries())
	l.l.Unlock(nil)
	return
}
