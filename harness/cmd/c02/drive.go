package main

// The forced-schedule driver.  One API-level action at a time on the REAL locker; after each action the driver
// waits until the process is quiescent and records what an observer sees.
//
// Quiescence is a positive observation, never a sleep: a caller "has returned" when its wrapper goroutine has
// closed its channel; a caller "is parked" when one stop-the-world snapshot of all goroutines (runtime.Stack)
// shows its goroutine waiting inside sync.Mutex.Lock / sync.RWMutex.Lock / sync.RWMutex.RLock.  The state is
// quiescent when, in ONE snapshot, every goroutine the driver started is parked or was already known to have
// finished before the snapshot was taken.  Only unlock calls wake anybody and they are issued by the driver, so
// once this holds nothing moves until the next action.  Sleeps below only pace the polling.

import (
	"bytes"
	"fmt"
	"runtime"
	"sort"
	"strconv"
	"sync/atomic"
	"time"
)

type task struct {
	done     chan struct{}
	goid     int64
	panicked interface{}
	finished bool // known to the driver
}

func curGoid() int64 {
	var buf [64]byte
	n := runtime.Stack(buf[:], false)
	// "goroutine 123 [running]:"
	f := bytes.Fields(buf[:n])
	id, _ := strconv.ParseInt(string(f[1]), 10, 64)
	return id
}

func spawn(f func()) *task {
	tk := &task{done: make(chan struct{})}
	idc := make(chan int64, 1)
	go func() {
		idc <- curGoid()
		defer close(tk.done)
		defer func() {
			if r := recover(); r != nil {
				tk.panicked = r
			}
		}()
		f()
	}()
	tk.goid = <-idc
	return tk
}

var stackBuf = make([]byte, 4<<20)

// goroutineStates: goroutine id -> wait state as printed in the header of its stack dump
func goroutineStates() map[int64]string {
	n := runtime.Stack(stackBuf, true)
	for n == len(stackBuf) {
		stackBuf = make([]byte, 2*len(stackBuf))
		n = runtime.Stack(stackBuf, true)
	}
	out := map[int64]string{}
	b := stackBuf[:n]
	for len(b) > 0 {
		nl := bytes.IndexByte(b, '\n')
		line := b
		if nl >= 0 {
			line, b = b[:nl], b[nl+1:]
		} else {
			b = nil
		}
		if !bytes.HasPrefix(line, []byte("goroutine ")) {
			continue
		}
		rest := line[len("goroutine "):]
		sp := bytes.IndexByte(rest, ' ')
		lb := bytes.IndexByte(rest, '[')
		rb := bytes.LastIndexByte(rest, ']')
		if sp < 0 || lb < 0 || rb < lb {
			continue
		}
		id, err := strconv.ParseInt(string(rest[:sp]), 10, 64)
		if err != nil {
			continue
		}
		out[id] = string(rest[lb+1 : rb])
	}
	return out
}

func parkedState(st string) bool {
	for _, p := range []string{"sync.Mutex.Lock", "sync.RWMutex.Lock", "sync.RWMutex.RLock", "semacquire"} {
		if len(st) >= len(p) && st[:len(p)] == p {
			return true
		}
	}
	return false
}

type callerT struct {
	id    int
	keys  []int
	write bool
	multi bool
	tk    *task
}

type driver struct {
	l       lockerAPI
	nk      int
	live    map[int]*callerT
	polls   int
	settleT time.Duration
}

// settle waits for quiescence.  extra (may be nil) is an additional goroutine (an unlock call, a hook read);
// the result says whether it is parked for good.
func (d *driver) settle(extra *task) (extraBlocked bool) {
	t0 := time.Now()
	defer func() { d.settleT += time.Since(t0) }()
	// fast path: give the goroutines a moment to finish or park before paying for a snapshot
	for i := 0; i < 20; i++ {
		runtime.Gosched()
	}
	for iter := 0; ; iter++ {
		snap := goroutineStates()
		d.polls++
		quiet, news := true, false
		var tasks []*task
		for _, c := range d.live {
			tasks = append(tasks, c.tk)
		}
		if extra != nil {
			tasks = append(tasks, extra)
		}
		extraBlocked = false
		for _, tk := range tasks {
			if tk.finished {
				continue
			}
			select {
			case <-tk.done:
				tk.finished, news = true, true // learnt only now: confirm with another snapshot
				continue
			default:
			}
			if st, ok := snap[tk.goid]; ok && parkedState(st) {
				if tk == extra {
					extraBlocked = true
				}
				continue
			}
			quiet = false
		}
		if quiet && !news {
			return extraBlocked
		}
		if time.Since(t0) > 60*time.Second {
			panic(fmt.Sprintf("c02: no quiescence within 60 s; goroutine states %v", snap))
		}
		switch {
		case iter < 10:
			runtime.Gosched()
		case iter < 100:
			time.Sleep(20 * time.Microsecond)
		default:
			time.Sleep(500 * time.Microsecond)
		}
	}
}

func (d *driver) returnedIDs() []int {
	out := []int{}
	for id, c := range d.live {
		if c.tk.finished {
			out = append(out, id)
		}
	}
	sort.Ints(out)
	return out
}

// observe: who has returned, the two hooks.  The hook reads take the table mutex, so they run in their own
// goroutine: a locker that keeps the table mutex while parked must not hang the harness.
var entriesHookFaults int

func (d *driver) observe() obsT {
	o := obsT{Ret: d.returnedIDs(), Counts: [][3]int{}}
	var counts [][3]int
	entries := 0
	tk := spawn(func() {
		for k := 0; k < d.nk; k++ {
			r, w, p := d.l.Counts(k)
			if p {
				counts = append(counts, [3]int{k, r, w})
			}
		}
		// the entry-count hook walks every slot of a group; should it fault on a locker whose slots are laid out
		// differently (not a property of the locker), the count over the key universe stands in: every key a schedule
		// uses is in the universe.
		func() {
			defer func() {
				if r := recover(); r != nil {
					entries = len(counts)
					entriesHookFaults++
				}
			}()
			entries = d.l.Entries()
		}()
	})
	done := false
	for i := 0; i < 200 && !done; i++ {
		select {
		case <-tk.done:
			done = true
		default:
			runtime.Gosched()
		}
	}
	if !done {
		if d.settle(tk) {
			o.Blocked = true
			return o
		}
		<-tk.done
	}
	if tk.panicked != nil {
		o.Blocked = true
		return o
	}
	if counts != nil {
		o.Counts = counts
	}
	o.Entries = entries
	return o
}

// do performs one action and returns the observation at the next quiescent point.
func (d *driver) do(a actT) obsT {
	blocked := false
	if len(a.Burst) > 0 {
		// all callers of the burst are created first and released from one spin barrier (every goroutine is running
		// and spinning on the flag when it flips), so that they really race, also through a first-touch window of
		// a few instructions
		var ready, gate int32
		l := d.l
		for _, b := range a.Burst {
			c := &callerT{id: b.T, keys: b.Keys, write: b.Write, multi: b.Multi}
			c.tk = spawn(func() {
				atomic.AddInt32(&ready, 1)
				for atomic.LoadInt32(&gate) == 0 {
				}
				if c.multi {
					l.LockN(c.id, c.keys, c.write)
				} else {
					l.Lock1(c.keys[0], c.write)
				}
			})
			d.live[b.T] = c
		}
		for atomic.LoadInt32(&ready) < int32(len(a.Burst)) {
			runtime.Gosched()
		}
		atomic.StoreInt32(&gate, 1)
		d.settle(nil)
	} else if a.Call {
		c := &callerT{id: a.T, keys: a.Keys, write: a.Write, multi: a.Multi}
		l := d.l
		c.tk = spawn(func() {
			if c.multi {
				l.LockN(c.id, c.keys, c.write)
			} else {
				l.Lock1(c.keys[0], c.write)
			}
		})
		d.live[a.T] = c
		d.settle(nil)
	} else {
		c := d.live[a.T]
		l := d.l
		tk := spawn(func() {
			if c.multi {
				l.UnlockN(c.id, c.keys, c.write)
			} else {
				l.Unlock1(c.keys[0], c.write)
			}
		})
		blocked = d.settle(tk)
		if !blocked {
			delete(d.live, a.T)
			if tk.panicked != nil {
				blocked = true
			}
		}
	}
	for _, c := range d.live {
		if c.tk.finished && c.tk.panicked != nil {
			blocked = true
		}
	}
	if blocked {
		return obsT{Ret: d.returnedIDs(), Counts: [][3]int{}, Blocked: true}
	}
	return d.observe()
}

// anomaly: an untrusted pre-check of the observation against the live callers (the real check is case_holds in
// Coq).  The run stops at the first anomaly so that the case is emitted before a corrupted locker can take the
// process down (the Go runtime aborts on an unlock of an unlocked RWMutex).
func (d *driver) anomaly(o obsT) bool {
	if o.Blocked {
		return true
	}
	exp := [][3]int{}
	for k := 0; k < d.nk; k++ {
		r, w := 0, 0
		for _, c := range d.live {
			for _, x := range c.keys {
				if x == k {
					if c.write {
						w++
					} else {
						r++
					}
				}
			}
		}
		if r+w > 0 {
			exp = append(exp, [3]int{k, r, w})
		}
	}
	if len(exp) != len(o.Counts) || o.Entries != len(exp) {
		return true
	}
	for i := range exp {
		if exp[i] != o.Counts[i] {
			return true
		}
	}
	for _, a := range o.Ret {
		for _, b := range o.Ret {
			ca, cb := d.live[a], d.live[b]
			if a == b || !(ca.write || cb.write) {
				continue
			}
			for _, x := range ca.keys {
				for _, y := range cb.keys {
					if x == y {
						return true
					}
				}
			}
		}
	}
	return false
}

// chooser decides the next action from what the driver has observed (live callers, who has returned);
// ok=false ends the run.
type chooser func(d *driver, step int) (a actT, ok bool)

var lastPolls int

// runSchedule runs one schedule on a fresh locker; pick chooses whom to release while draining (nil = no drain).
func runSchedule(l lockerAPI, nk int, choose chooser, pick func(n int) int) (rounds []roundT, note string) {
	rounds, note, _ = runScheduleKeep(l, nk, choose, pick)
	return
}

// runScheduleKeep additionally returns a cleanup that releases whoever is still inside (not recorded): a run that
// is not drained must not leave goroutines parked for the rest of the process, every later snapshot would pay for them.
func runScheduleKeep(l lockerAPI, nk int, choose chooser, pick func(n int) int) (rounds []roundT, note string, cleanup func()) {
	d := &driver{l: l, nk: nk, live: map[int]*callerT{}}
	defer func() { lastPolls = d.polls }()
	cleanup = func() {
		for len(d.live) > 0 {
			ret := d.returnedIDs()
			if len(ret) == 0 {
				return
			}
			if o := d.do(actT{T: ret[0]}); o.Blocked {
				return
			}
		}
	}
	for step := 0; ; step++ {
		a, ok := choose(d, step)
		if !ok {
			break
		}
		o := d.do(a)
		rounds = append(rounds, roundT{Act: a, Obs: o})
		if d.anomaly(o) {
			return rounds, "stopped at the first anomalous observation", func() {}
		}
	}
	// drain: release whoever has returned until nobody is left
	for pick != nil && len(d.live) > 0 {
		ret := d.returnedIDs()
		if len(ret) == 0 {
			return rounds, "deadlock: live callers, none has returned", func() {}
		}
		t := ret[pick(len(ret))]
		o := d.do(actT{T: t})
		rounds = append(rounds, roundT{Act: actT{T: t}, Obs: o})
		if d.anomaly(o) {
			return rounds, "stopped at the first anomalous observation", func() {}
		}
	}
	return rounds, "", cleanup
}
