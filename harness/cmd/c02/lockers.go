package main

import (
	"fmt"

	"github.com/pinealctx/neptune/remap"
	"github.com/pinealctx/neptune/syncx/keylock"
)

// lockerAPI is what the schedule driver needs from each of the four lockers (keys are indices into kv).
type lockerAPI interface {
	Lock1(k int, write bool)
	Unlock1(k int, write bool)
	LockN(slot int, ks []int, write bool)
	UnlockN(slot int, ks []int, write bool)
	Counts(k int) (r, w int, present bool)
	Entries() int
	Shard(k int) int
	HasMulti() bool
}

// ---- generic lockers: TKeyLocker[T], TKeyLockerGrp[T] ----
type tAd[T comparable] struct {
	l  keylock.TLocker[T]
	kv []T
	// reuse: the key list of a multi-key call is passed in a per-caller buffer that is REUSED for that caller's
	// successive calls and overwritten in place (same backing array, other contents), and it is scrambled as soon as
	// Locks/RLocks has returned (the caller owns the slice again); Unlocks/RUnlocks get a fresh equal slice.
	// A locker that keeps anything derived from the slice's identity or reads it after returning shows up.
	reuse bool
	bufs  [][]T
}

func (a *tAd[T]) list(slot int, ks []int) []T {
	if !a.reuse || len(ks) == 0 {
		return a.keys(ks)
	}
	if a.bufs[slot] == nil {
		a.bufs[slot] = make([]T, 64)
	}
	b := a.bufs[slot][:len(ks)]
	for i, k := range ks {
		b[i] = a.kv[k]
	}
	return b
}
func (a *tAd[T]) scramble(b []T, ks []int) {
	if !a.reuse {
		return
	}
	for i, k := range ks {
		b[i] = a.kv[(k+1+i)%len(a.kv)]
	}
}

func (a *tAd[T]) keys(ks []int) []T {
	out := make([]T, len(ks))
	for i, k := range ks {
		out[i] = a.kv[k]
	}
	return out
}
func (a *tAd[T]) Lock1(k int, write bool) {
	if write {
		a.l.Lock(a.kv[k])
	} else {
		a.l.RLock(a.kv[k])
	}
}
func (a *tAd[T]) Unlock1(k int, write bool) {
	if write {
		a.l.Unlock(a.kv[k])
	} else {
		a.l.RUnlock(a.kv[k])
	}
}
func (a *tAd[T]) LockN(slot int, ks []int, write bool) {
	b := a.list(slot, ks)
	if write {
		a.l.Locks(b)
	} else {
		a.l.RLocks(b)
	}
	a.scramble(b, ks)
}
func (a *tAd[T]) UnlockN(slot int, ks []int, write bool) {
	if write {
		a.l.Unlocks(a.keys(ks))
	} else {
		a.l.RUnlocks(a.keys(ks))
	}
}
func (a *tAd[T]) Counts(k int) (int, int, bool) { return keylock.VerifKeyCounts(a.l, a.kv[k]) }
func (a *tAd[T]) Entries() int                  { return keylock.VerifEntries(a.l) }
func (a *tAd[T]) Shard(k int) int               { return keylock.VerifShard(a.l, a.kv[k]) }
func (a *tAd[T]) HasMulti() bool                { return true }

// ---- interface-keyed lockers: KeyLocker, KeyLockerGrp (single-key operations only) ----
type iAd struct {
	l  keylock.Locker
	kv []interface{}
}

func (a *iAd) Lock1(k int, write bool) {
	if write {
		a.l.Lock(a.kv[k])
	} else {
		a.l.RLock(a.kv[k])
	}
}
func (a *iAd) Unlock1(k int, write bool) {
	if write {
		a.l.Unlock(a.kv[k])
	} else {
		a.l.RUnlock(a.kv[k])
	}
}
func (a *iAd) LockN(slot int, ks []int, write bool)   { panic("no multi-key API") }
func (a *iAd) UnlockN(slot int, ks []int, write bool) { panic("no multi-key API") }
func (a *iAd) Counts(k int) (int, int, bool)          { return keylock.VerifKeyCountsI(a.l, a.kv[k]) }
func (a *iAd) Entries() int                           { return keylock.VerifEntriesI(a.l) }
func (a *iAd) Shard(k int) int                        { return 0 } // irrelevant: single-key calls only
func (a *iAd) HasMulti() bool                         { return false }

// ---- the configurations ----
type lockerCfg struct {
	Kind   string `json:"kind"`            // KeyLocker | KeyLockerGrp | TKeyLocker | TKeyLockerGrp
	Route  string `json:"route"`           // "" | mod | xxhash
	KeyTy  string `json:"keyty"`           // int | string | mixed | boundary
	Reuse  bool   `json:"reuse,omitempty"` // multi-key lists in reused, overwritten, scrambled buffers (generic lockers)
	Shards int    `json:"shards"`          // 0 for the single lockers
	Seeds  []int  `json:"keys"`            // one number per key index from which the key value is derived
}

func (c lockerCfg) class() string {
	s := c.Kind
	if c.Route != "" {
		s += "-" + c.Route
	}
	return s
}

func intKey(seed int) int { return seed }
func strKey(seed int) string {
	return fmt.Sprintf("k%d", seed)
}
func mixedKey(seed int) interface{} {
	switch seed % 3 {
	case 0:
		return seed
	case 1:
		return fmt.Sprintf("s%d", seed)
	}
	return int64(seed)
}

// boundary values of an interface{} key: all legal, pairwise distinct map keys (the sharded interface-keyed lockers
// cannot hash nil, typed nil pointers or struct{}{}: remap.ToBytes panics on them before any state is touched, so
// these values are used with the single KeyLocker only)
var nilIntPtr *int
var nilStrPtr *string
var boundaryPool = []interface{}{nil, nilIntPtr, 0, "", struct{}{}, int64(0), false, nilStrPtr, uint8(0), [0]int{}, 0.0}

func boundaryKey(seed int) interface{} { return boundaryPool[seed%len(boundaryPool)] }

// the SAME numeric value under different dynamic types: pairwise distinct interface{} keys (Go's map semantics), so
// holding one never blocks another and entries / counts are per key.  The first sameValueGrp kinds are the ones
// remap.ToBytes / SimpleIndex can route (the sharded interface-keyed lockers panic on the others before touching any
// state); equal values of one width land in the same shard under both routings.
type myInt int64
type wrapInt struct{ v int64 }
type hitInt int64

func (h hitInt) Hit() uint64 { return uint64(h) }

const sameValueGrp = 11

func sameValueKey(seed int) interface{} {
	v := seed / 100
	switch seed % 100 {
	case 0:
		return int64(v)
	case 1:
		return uint64(v)
	case 2:
		return int32(v)
	case 3:
		return uint32(v)
	case 4:
		return int16(v)
	case 5:
		return uint16(v)
	case 6:
		return int8(v)
	case 7:
		return uint8(v)
	case 8:
		return v
	case 9:
		return uint(v)
	case 10:
		return fmt.Sprint(v)
	case 11:
		return uintptr(v)
	case 12:
		return float64(v)
	case 13:
		return myInt(v)
	case 14:
		return wrapInt{int64(v)}
	case 15:
		return [1]int64{int64(v)}
	case 16:
		return hitInt(v)
	case 17:
		return float32(v)
	}
	return v != 0
}

const sameValueKinds = 19

func (c lockerCfg) keyDesc() []string {
	out := make([]string, len(c.Seeds))
	for i, s := range c.Seeds {
		switch c.KeyTy {
		case "int":
			out[i] = fmt.Sprintf("int(%d)", intKey(s))
		case "string":
			out[i] = fmt.Sprintf("%q", strKey(s))
		case "hit":
			out[i] = fmt.Sprintf("hitKey{Hit()=%d}", s)
		case "boundary":
			out[i] = fmt.Sprintf("%T(%#v)", boundaryKey(s), boundaryKey(s))
		case "samevalue":
			out[i] = fmt.Sprintf("%T(%v)", sameValueKey(s), sameValueKey(s))
		default:
			out[i] = fmt.Sprintf("%T(%v)", mixedKey(s), mixedKey(s))
		}
	}
	return out
}

func build(c lockerCfg) lockerAPI {
	opt := remap.WithPrime(uint64(c.Shards))
	switch c.Kind {
	case "KeyLocker", "KeyLockerGrp":
		kv := make([]interface{}, len(c.Seeds))
		for i, s := range c.Seeds {
			switch c.KeyTy {
			case "int":
				kv[i] = intKey(s)
			case "string":
				kv[i] = strKey(s)
			case "boundary":
				kv[i] = boundaryKey(s)
			case "samevalue":
				kv[i] = sameValueKey(s)
			default:
				kv[i] = mixedKey(s)
			}
		}
		var l keylock.Locker
		switch {
		case c.Kind == "KeyLocker":
			l = keylock.NewKeyLocker()
		case c.Route == "xxhash":
			l = keylock.NewXHashKeyLockeGrp(opt)
		default:
			l = keylock.NewKeyLockeGrp(opt)
		}
		return &iAd{l, kv}
	case "TKeyLocker", "TKeyLockerGrp":
		if c.KeyTy == "hit" {
			kv := make([]hitKey, len(c.Seeds))
			for i, s := range c.Seeds {
				kv[i] = hitKey{V: uint64(s)}
			}
			return &tAd[hitKey]{l: newT[hitKey](c, opt), kv: kv, reuse: c.Reuse, bufs: make([][]hitKey, 32)}
		}
		if c.KeyTy == "string" {
			kv := make([]string, len(c.Seeds))
			for i, s := range c.Seeds {
				kv[i] = strKey(s)
			}
			return &tAd[string]{l: newT[string](c, opt), kv: kv, reuse: c.Reuse, bufs: make([][]string, 32)}
		}
		kv := make([]int, len(c.Seeds))
		for i, s := range c.Seeds {
			kv[i] = intKey(s)
		}
		return &tAd[int]{l: newT[int](c, opt), kv: kv, reuse: c.Reuse, bufs: make([][]int, 32)}
	}
	panic("unknown locker kind " + c.Kind)
}

func newT[T comparable](c lockerCfg, opt remap.Option) keylock.TLocker[T] {
	switch {
	case c.Kind == "TKeyLocker":
		return keylock.NewTKeyLocker[T]()
	case c.Route == "xxhash":
		return keylock.NewTXHashTKeyLockeGrp[T](opt)
	default:
		return keylock.NewTKeyLockeGrp[T](opt)
	}
}
