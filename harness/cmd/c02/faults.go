package main

import (
	"fmt"
	"runtime"
	"sync/atomic"
	"time"

	"verifharness/vh"
)

// ---- generator class fault-key -------------------------------------------------------------------------------
// A multi-key Locks/RLocks whose list contains, at position >= 1, a key whose shard callback (remap.HitGroup.Hit /
// remap.Bs.ToBytes) panics.  The call panics out of the locker, the caller recovers: it holds nothing and can
// release nothing.  Such a call is NOT a step of the schedule: the observations that follow must equal those of
// the model in which it never happened (no registration left behind by the keys in front of the faulting one).
// On the unchanged tree the shard plan is computed before anything is touched.  Runs after every older class.

type hitKey struct {
	V   uint64
	Bad bool
}

func (h hitKey) Hit() uint64 {
	if h.Bad {
		panic("c02 harness: Hit of a marked key")
	}
	return h.V
}
func (h hitKey) ToBytes() []byte {
	if h.Bad {
		panic("c02 harness: ToBytes of a marked key")
	}
	v := h.V
	return []byte{byte(v), byte(v >> 8), byte(v >> 16), byte(v >> 24), byte(v >> 32), byte(v >> 40), byte(v >> 48), byte(v >> 56)}
}

type faultT struct {
	Step  int   `json:"before_step"` // issued at quiescence, before the schedule's action number Step
	Keys  []int `json:"keys"`        // the good keys of the list (key indices, ascending)
	Pos   int   `json:"pos"`         // list position of the marked key (>= 1)
	Write bool  `json:"write"`
}

// faultCall issues the faulted call on its own goroutine and waits for it to be over.
func faultCall(l lockerAPI, f faultT) string {
	a, ok := l.(*tAd[hitKey])
	if !ok {
		return "not a hit-key locker"
	}
	list := make([]hitKey, 0, len(f.Keys)+1)
	for i, k := range f.Keys {
		if i == f.Pos {
			list = append(list, hitKey{V: 7, Bad: true})
		}
		list = append(list, a.kv[k])
	}
	if f.Pos >= len(f.Keys) {
		list = append(list, hitKey{V: 7, Bad: true})
	}
	tk := spawn(func() {
		if f.Write {
			a.l.Locks(list)
		} else {
			a.l.RLocks(list)
		}
	})
	select {
	case <-tk.done:
	case <-time.After(10 * time.Second):
		return "the faulted call neither returned nor panicked within 10 s"
	}
	if tk.panicked == nil {
		return "the faulted call returned"
	}
	return fmt.Sprintf("panicked (recovered by the caller): %v", tk.panicked)
}

func withFaults(l lockerAPI, fs []faultT, inner chooser) chooser {
	return func(d *driver, step int) (actT, bool) {
		for _, f := range fs {
			if f.Step == step {
				faultCall(l, f)
			}
		}
		return inner(d, step)
	}
}

var faultKinds = []lockerCfg{
	{Kind: "TKeyLockerGrp", Route: "mod", KeyTy: "hit"},
	{Kind: "TKeyLockerGrp", Route: "xxhash", KeyTy: "hit"},
}

func runFaultKeys(e *vh.Env, n int) (rounds, mismatches int) {
	rnd := e.Rnd
	for i := 0; i < n; i++ {
		lc := faultKinds[i%len(faultKinds)]
		lc.Shards = []int{2, 3, 73}[rnd.Intn(3)]
		nk := 3 + rnd.Intn(3)
		seen := map[int]bool{}
		for len(lc.Seeds) < nk {
			s := rnd.Intn(40)
			if !seen[s] {
				seen[s] = true
				lc.Seeds = append(lc.Seeds, s)
			}
		}
		lc.Reuse = rnd.Intn(2) == 0
		c := runCfg{L: lc, NT: 3 + rnd.Intn(2), Ordered: true}
		steps := 6 + rnd.Intn(10)
		// the first member is the plain one: a faulted call on the fresh locker, then the same keys locked and released
		nf := 1 + rnd.Intn(3)
		for j := 0; j < nf; j++ {
			f := faultT{Step: rnd.Intn(steps + 1), Write: rnd.Intn(2) == 0}
			if j == 0 && i < 4 {
				f.Step = 0
			}
			m := 1 + rnd.Intn(nk)
			for k := 0; k < nk && len(f.Keys) < m; k++ {
				if rnd.Intn(nk) < m || nk-k <= m-len(f.Keys) {
					f.Keys = append(f.Keys, k)
				}
			}
			f.Pos = 1 + rnd.Intn(len(f.Keys))
			c.Faults = append(c.Faults, f)
		}
		l := build(c.L)
		rs, note := runSchedule(l, nk, withFaults(l, c.Faults, randomChooser(rnd, c, l, steps, 70)), rnd.Intn)
		if !emitRun(e, c, l, rs, note, classOf(c)) {
			mismatches++
		}
		rounds += len(rs)
	}
	return
}

// ---- generator class release-race -----------------------------------------------------------------------------
// Callers of pairwise DISJOINT ordered lists on one sharded generic locker: several two-key lists whose two shards
// are in descending order (first key in the last shard, second key in shard 0) and one long list over many shards
// from shard 0 to the last one.  They enter one by one (recorded rounds, observed as usual); then ALL release at
// once from one spin barrier, the two-key callers after a few hundred nanoseconds of individual delay.  Releases of
// disjoint keys never wait for each other in the model.  Verdict only from a positive observation: one goroutine
// snapshot in which every unfinished release is parked inside sync.Mutex.Lock and every other one had finished
// before: nobody is left to wake them.  The case then ends with the round "this caller unlocks: blocked", which
// is a violation whatever else runs beside it (the other releases touch other keys only).

type raceT struct {
	Pairs int  `json:"two_key_callers"`
	Long  int  `json:"long_list_keys"`
	Write bool `json:"write"`
}

func raceCfg(shards, pairs, long int, write, xx bool) (runCfg, [][]int) {
	lc := lockerCfg{Kind: "TKeyLockerGrp", Route: "mod", KeyTy: "int", Shards: shards}
	// universe ascending: the long list (shards 0, then `long-2` spread ones, then shards-1), then the pairs
	var lists [][]int
	var longKeys []int
	base := 2 * shards
	for j := 0; j < long; j++ {
		sh := j * (shards - 1) / (long - 1)
		lc.Seeds = append(lc.Seeds, base+sh)
		longKeys = append(longKeys, j)
	}
	for p := 0; p < pairs; p++ {
		b := (10+2*p)*shards + shards - 1 // shard shards-1, next integer: shard 0
		lc.Seeds = append(lc.Seeds, b, b+1)
		lists = append(lists, []int{long + 2*p, long + 2*p + 1})
	}
	lists = append(lists, longKeys)
	return runCfg{L: lc, NT: pairs + 1, Ordered: true, Race: &raceT{Pairs: pairs, Long: long, Write: write}}, lists
}

// raceOnce: returns the recorded rounds, a note ("" = every release returned) and whether the locker was left hung.
func raceOnce(c runCfg, lists [][]int, rndn func(int) int, race bool) (l lockerAPI, rounds []roundT, note string) {
	l = build(c.L)
	d := &driver{l: l, nk: len(c.L.Seeds), live: map[int]*callerT{}}
	for t, ks := range lists {
		a := actT{Call: true, T: t, Keys: ks, Write: c.Race.Write, Multi: true}
		o := d.do(a)
		rounds = append(rounds, roundT{Act: a, Obs: o})
		if d.anomaly(o) {
			return l, rounds, "stopped at the first anomalous observation"
		}
	}
	if !race {
		// the plain member: a sequential, observed drain (the recorded rounds of the racing members are these)
		for t := range lists {
			a := actT{T: t}
			o := d.do(a)
			rounds = append(rounds, roundT{Act: a, Obs: o})
			if d.anomaly(o) {
				return l, rounds, "stopped at the first anomalous observation"
			}
		}
		return l, rounds, ""
	}
	var ready, gate int32
	tasks := make([]*task, len(lists))
	for t := range lists {
		t := t
		delay := 0
		if t < len(lists)-1 {
			delay = rndn(1500)
		}
		tasks[t] = spawn(func() {
			atomic.AddInt32(&ready, 1)
			for atomic.LoadInt32(&gate) == 0 {
			}
			for i := 0; i < delay; i++ {
				atomic.LoadInt32(&gate)
			}
			l.UnlockN(t, lists[t], c.Race.Write)
		})
	}
	for atomic.LoadInt32(&ready) < int32(len(lists)) {
		runtime.Gosched()
	}
	atomic.StoreInt32(&gate, 1)
	t0 := time.Now()
	for iter := 0; ; iter++ {
		all := true
		for _, tk := range tasks {
			if !tk.finished {
				select {
				case <-tk.done:
					tk.finished = true
				default:
					all = false
				}
			}
		}
		if all {
			break
		}
		if iter < 200 {
			runtime.Gosched()
			continue
		}
		snap := goroutineStates()
		quiet, news := true, false
		hung := -1
		for t, tk := range tasks {
			if tk.finished {
				continue
			}
			select {
			case <-tk.done:
				tk.finished, news = true, true
				continue
			default:
			}
			if st, ok := snap[tk.goid]; ok && parkedState(st) {
				if hung < 0 {
					hung = t
				}
				continue
			}
			quiet = false
		}
		if quiet && !news && hung >= 0 {
			rounds = append(rounds, roundT{Act: actT{T: hung}, Obs: obsT{Ret: d.returnedIDs(), Counts: [][3]int{}, Blocked: true}})
			return l, rounds, fmt.Sprintf("all callers released at once (Unlocks/RUnlocks of pairwise disjoint lists); one goroutine snapshot shows the release of caller %d parked in a mutex with every other release finished or parked likewise: it never returns", hung)
		}
		if time.Since(t0) > 60*time.Second {
			panic("c02: release race: no quiescence within 60 s")
		}
		time.Sleep(50 * time.Microsecond)
	}
	for _, tk := range tasks {
		if tk.panicked != nil {
			rounds = append(rounds, roundT{Act: actT{T: 0}, Obs: obsT{Ret: d.returnedIDs(), Counts: [][3]int{}, Blocked: true}})
			return l, rounds, fmt.Sprintf("a release panicked: %v", tk.panicked)
		}
	}
	return l, rounds, "" // every release returned: nothing to report (the rounds are those of the plain members)
}

func runReleaseRace(e *vh.Env, n int) (rounds, mismatches int, hung bool) {
	rnd := e.Rnd
	emitted := 0
	for i := 0; i < n; i++ {
		shards := []int{73, 251}[i%2]
		c, lists := raceCfg(shards, 3+i%3, 10+(i/2)%3*4, i%4 < 2, false)
		l, rs, note := raceOnce(c, lists, rnd.Intn, i >= 6)
		rounds += len(rs)
		if note == "" && i >= 6 {
			continue // same recorded rounds as the plain members already sent; only the race differs
		}
		emitted++
		if !emitRun(e, c, l, rs, note, classOf(c)) {
			mismatches++
		}
		if note != "" {
			return rounds, mismatches, true
		}
	}
	return
}
