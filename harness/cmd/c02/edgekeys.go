package main

import (
	"math"
	"strings"

	"verifharness/vh"
)

// Generator class edge-int-keys: integer keys at the edges of the signed range and around zero on the lockers that
// route integers by value.  The modulo routing converts an integer key to uint64 (a negative key is a huge unsigned
// one), so every site that computes a shard - the single-key path, the sorting of a multi-key list, the unlock path -
// must agree on that conversion; with small non-negative keys they agree trivially.  Runs after every other class,
// so the random streams of those are unchanged.
var edgeKinds = []lockerCfg{
	{Kind: "TKeyLockerGrp", Route: "mod", KeyTy: "int"},
	{Kind: "TKeyLockerGrp", Route: "xxhash", KeyTy: "int"},
	{Kind: "KeyLockerGrp", Route: "mod", KeyTy: "int"},
	{Kind: "TKeyLocker", KeyTy: "int"},
	{Kind: "KeyLockerGrp", Route: "xxhash", KeyTy: "int"},
}

func edgeSeeds(shards int) []int {
	n := maxInt(shards, 1)
	return []int{-1, -2, -3, -n, -n - 1, -n + 1, math.MinInt64, math.MinInt64 + 1, math.MaxInt64, math.MaxInt64 - 1,
		math.MinInt32, math.MinInt32 - 1, math.MaxInt32 + 1, math.MaxUint32, math.MaxUint32 + 1, -(1 << 40) - 7, 1<<62 + 5}
}

func runEdgeKeys(e *vh.Env, n int) (rounds, mismatches int) {
	rnd := e.Rnd
	for i := 0; i < n; i++ {
		lc := edgeKinds[i%len(edgeKinds)]
		if strings.HasSuffix(lc.Kind, "Grp") {
			lc.Shards = []int{2, 3, 73, 251}[rnd.Intn(4)]
		}
		pool := edgeSeeds(lc.Shards)
		nk := 3 + rnd.Intn(3)
		seen := map[int]bool{}
		for len(lc.Seeds) < nk {
			s := pool[rnd.Intn(len(pool))]
			if len(lc.Seeds) == nk-1 && rnd.Intn(2) == 0 {
				s = rnd.Intn(8) // one ordinary key beside the edge ones
			}
			if !seen[s] {
				seen[s] = true
				lc.Seeds = append(lc.Seeds, s)
			}
		}
		if strings.HasPrefix(lc.Kind, "T") {
			lc.Reuse = rnd.Intn(2) == 0
		}
		c := runCfg{L: lc, NT: 3 + rnd.Intn(3), Ordered: true, Edge: true}
		l := build(c.L)
		rs, note := runSchedule(l, len(c.L.Seeds), randomChooser(rnd, c, l, 12+rnd.Intn(20), 60), rnd.Intn)
		if !emitRun(e, c, l, rs, note, classOf(c)) {
			mismatches++
		}
		rounds += len(rs)
	}
	return
}
