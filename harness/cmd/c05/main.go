// Command c05 is the correspondence harness of property C05 (TTL cache).
//
// It runs histories on the real cache.NewTTLMemCache under a virtual clock (hook cache.VerifSetNow) and, for the
// redis clause, the same history on cache.NewTTLRdsCache over a fake redis.Cmdable that records the command stream.
// Every history becomes one Coq term of type C05_Check.case; Coq decides.
package main

import (
	"bufio"
	"context"
	"encoding/json"
	"errors"
	"fmt"
	"math"
	"os"
	"os/exec"
	"runtime"
	"sort"
	"strconv"
	"strings"
	"sync"
	"sync/atomic"

	"github.com/pinealctx/neptune/cache"
	"github.com/redis/go-redis/v9"
	"verifharness/vh"
)

// ---------------------------------------------------------------- specs

type opSpec struct {
	Now    int64  `json:"t"`
	Kind   string `json:"op"` // S G R C
	K      int    `json:"k"`
	V      int64  `json:"v,omitempty"`
	HasTTL bool   `json:"ht,omitempty"`
	TTL    int64  `json:"ttl,omitempty"`
	Mne    bool   `json:"mne,omitempty"`
	Keep   bool   `json:"keep,omitempty"`
	Rag    bool   `json:"rag,omitempty"`
	HasUpd bool   `json:"hu,omitempty"`
	Upd    int64  `json:"upd,omitempty"`
	// Src: where the []byte handed to Set comes from (sequential segments of the memory cache only; "" = a fresh slice):
	// "g" = the very slice the last successful Get returned, "p" = one payload slice shared by several Sets,
	// "c" = a sub-slice carved from one arena, with spare capacity reaching into the values carved after it.
	// The model stays a value-semantics map: V is the number the bytes spell at the moment of the call.
	Src string `json:"src,omitempty"`
}

// valSrc hands out the aliased value slices of one run.  The harness never writes into a slice after it has been
// handed to Set (the pinned code retains the caller's slice and returns its internal slice, so caller-side writes
// would show through by construction and are not part of the property); only the cache's own writes can change them.
type valSrc struct {
	lastGet []byte
	payload []byte
	arena   []byte
	off     int
}

func (vs *valSrc) value(o *opSpec) []byte {
	switch o.Src {
	case "g":
		if vs.lastGet != nil {
			o.V = decVal(vs.lastGet)
			return vs.lastGet
		}
	case "p":
		if vs.payload == nil {
			vs.payload = encVal(o.V)
		}
		o.V = decVal(vs.payload)
		return vs.payload
	case "c":
		b := encVal(o.V)
		if vs.arena == nil {
			vs.arena = make([]byte, 0, 96)
		}
		if vs.off+len(b) <= cap(vs.arena) {
			region := vs.arena[vs.off : vs.off+len(b)]
			copy(region, b)
			vs.off += len(b)
			return region
		}
	}
	return encVal(o.V)
}

type seg struct {
	Par bool     `json:"par,omitempty"` // the ops of this segment are issued by racing goroutines
	Ops []opSpec `json:"ops"`
}

// hammerSpec: before the recorded history, Removers goroutines loop on Remove(K) and one loops on Remove(K); Set(K),
// Iter iterations each, released together; their results are not recorded (the recorded history starts with Remove(K),
// after which the cache is empty whatever the interleaving was - theorem c05_hammer_collapses).
type hammerSpec struct {
	K        int   `json:"k"`
	Removers int   `json:"removers"`
	Iter     int   `json:"iter"`
	Now      int64 `json:"t"`
}

type histSpec struct {
	Kind       string      `json:"kind"` // mem | rds | rdsh
	Class      string      `json:"class"`
	Size       int64       `json:"size"`
	Dttl       int64       `json:"dttl"`
	NKeys      int         `json:"nkeys"`
	Segs       []seg       `json:"segs"`
	ProbeNow   int64       `json:"probe_now"`
	Hammer     *hammerSpec `json:"hammer,omitempty"`
	Fillers    int         `json:"fillers,omitempty"`    // foreign keys put on the shared fake redis before the history
	Bystanders int         `json:"bystanders,omitempty"` // bystander caches (own prefix each) with NKeys keys (default: one cache, one key)
}

var keyNames = []string{"k0", "k1", "", "a b", "k4", "ключ", "k6", "k7"}

const rdsPrefix = "p:"

func encVal(v int64) []byte { return []byte(strconv.FormatInt(v, 10)) }
func decVal(b []byte) int64 {
	n, err := strconv.ParseInt(string(b), 10, 64)
	if err != nil || n < 0 {
		return -1
	}
	return n
}

// ---------------------------------------------------------------- running the implementation

var clk int64

func setClock(t int64) { atomic.StoreInt64(&clk, t) }
func getClock() int64  { return atomic.LoadInt64(&clk) }

func mapErr(err error, okKind int) result {
	switch {
	case err == nil:
		return result{okKind, 0}
	case errors.Is(err, cache.ErrTTLKeyExists):
		return result{rExists, 0}
	case errors.Is(err, cache.ErrTTLKeyNotFound):
		return result{rNotFound, 0}
	}
	return result{rFail, 1}
}

func execOp(c cache.TTLCache, o opSpec) (r result) { return execOpCtx(context.Background(), c, o) }

func execOpCtx(ctx context.Context, c cache.TTLCache, o opSpec) (r result) {
	r, _ = execOpV(ctx, c, o, nil)
	return
}

// execSrc runs one step of a sequential segment with the value slice chosen by vs; it returns the op with the value
// actually passed and remembers the slice a successful Get handed out
func execSrc(c cache.TTLCache, o opSpec, vs *valSrc) (opSpec, result) {
	var val []byte
	if o.Kind == "S" {
		val = vs.value(&o)
	}
	r, raw := execOpV(context.Background(), c, o, val)
	if o.Kind == "G" && r.kind == rOk {
		vs.lastGet = raw
	}
	return o, r
}

func execOpV(ctx context.Context, c cache.TTLCache, o opSpec, val []byte) (r result, raw []byte) {
	defer func() {
		if p := recover(); p != nil {
			r = result{rFail, 99}
		}
	}()
	switch o.Kind {
	case "S":
		var fns []cache.SetOptFn
		if o.HasTTL {
			fns = append(fns, cache.WithTTL(o.TTL))
		}
		if o.Mne {
			fns = append(fns, cache.WithMustNotExist())
		}
		if o.Keep {
			fns = append(fns, cache.WithKeepTTL())
		}
		if val == nil {
			val = encVal(o.V)
		}
		return mapErr(c.Set(ctx, keyNames[o.K], val, fns...), rDone), nil
	case "G":
		var fns []cache.GetOptFn
		if o.Rag {
			fns = append(fns, cache.WithRemoveAfterGet())
		}
		if o.HasUpd {
			fns = append(fns, cache.WithUpdateTTL(o.Upd))
		}
		v, err := c.Get(ctx, keyNames[o.K], fns...)
		if err == nil {
			return result{rOk, decVal(v)}, v
		}
		return mapErr(err, rOk), nil
	case "R":
		return mapErr(c.Remove(ctx, keyNames[o.K]), rDone), nil
	case "C":
		c.Clear(ctx)
		return result{rDone, 0}, nil
	}
	return result{rFail, 98}, nil
}

type obs struct {
	op   opSpec
	mem  result
	rds  result
	cmds []string
}

func permutations(n int) [][]int {
	var out [][]int
	var rec func(p []int, used []bool)
	rec = func(p []int, used []bool) {
		if len(p) == n {
			out = append(out, append([]int{}, p...))
			return
		}
		for i := 0; i < n; i++ {
			if !used[i] {
				used[i] = true
				rec(append(p, i), used)
				used[i] = false
			}
		}
	}
	rec(nil, make([]bool, n))
	return out
}

// segObs is what one segment of a history produced on the implementation
type segObs struct {
	par  bool
	ops  []opSpec
	res  []result
	cmds [][]string
}

// linearize turns the observed segments into one sequence of steps.  The steps of a racing segment are put into an
// order in which the (untrusted) reference model reports what every caller observed AND everything observed afterwards
// (two orders can give the racers the same results and still leave different states); Coq then only replays a sequence.
// When no such order exists (the implementation deviates from the reference) the racers keep an order that at least
// explains their own results, or the order they were written in.
func linearize(size, dttl int64, segs []segObs, probe []obs) (orders [][]int, found bool) {
	var rec func(ref *refCache, si int) ([][]int, bool)
	rec = func(ref *refCache, si int) ([][]int, bool) {
		if si == len(segs) {
			t := ref.clone()
			for _, p := range probe {
				if t.step(p.op.Now, p.op) != p.mem {
					return nil, false
				}
			}
			return nil, true
		}
		sg := segs[si]
		if !sg.par {
			t := ref.clone()
			for i, o := range sg.ops {
				if t.step(o.Now, o) != sg.res[i] {
					return nil, false
				}
			}
			rest, ok := rec(t, si+1)
			return append([][]int{nil}, rest...), ok
		}
		for _, p := range permutations(len(sg.ops)) {
			t := ref.clone()
			ok := true
			for _, i := range p {
				if t.step(sg.ops[i].Now, sg.ops[i]) != sg.res[i] {
					ok = false
					break
				}
			}
			if !ok {
				continue
			}
			if rest, ok := rec(t, si+1); ok {
				return append([][]int{p}, rest...), true
			}
		}
		return nil, false
	}
	if o, ok := rec(&refCache{size: size, dttl: dttl}, 0); ok {
		return o, true
	}
	// fall back: per segment, an order that explains the racers' own results
	ref := &refCache{size: size, dttl: dttl}
	for _, sg := range segs {
		if !sg.par {
			for _, o := range sg.ops {
				ref.step(o.Now, o)
			}
			orders = append(orders, nil)
			continue
		}
		p, _ := witness(ref, sg.ops, sg.res)
		for _, i := range p {
			ref.step(sg.ops[i].Now, sg.ops[i])
		}
		orders = append(orders, p)
	}
	return orders, false
}

func flatten(segs []segObs, orders [][]int, rds bool) (steps []obs) {
	for si, sg := range segs {
		idx := orders[si]
		if idx == nil {
			idx = make([]int, len(sg.ops))
			for i := range idx {
				idx[i] = i
			}
		}
		for _, i := range idx {
			o := obs{op: sg.ops[i]}
			if rds {
				o.rds = sg.res[i]
				o.cmds = sg.cmds[i]
			} else {
				o.mem = sg.res[i]
			}
			steps = append(steps, o)
		}
	}
	return
}

// hammer: callers racing on one key of a fresh cache, released from a spin barrier; returns at quiescence.
func hammer(c cache.TTLCache, hs *hammerSpec) {
	setClock(hs.Now)
	ctx := context.Background()
	key := keyNames[hs.K]
	var ready, goFlag int32
	var wg sync.WaitGroup
	n := hs.Removers + 1
	for g := 0; g < n; g++ {
		wg.Add(1)
		go func(g int) {
			defer wg.Done()
			defer func() { recover() }()
			atomic.AddInt32(&ready, 1)
			for atomic.LoadInt32(&goFlag) == 0 {
			}
			for i := 0; i < hs.Iter; i++ {
				_ = c.Remove(ctx, key)
				if g == 0 {
					_ = c.Set(ctx, key, encVal(int64(i%90+1)))
				}
			}
		}(g)
	}
	for atomic.LoadInt32(&ready) < int32(n) {
		runtime.Gosched()
	}
	atomic.StoreInt32(&goFlag, 1)
	wg.Wait()
}

// runMem executes the history on the real in-memory cache; racing segments are reported in a witness order.
func runMem(h *histSpec) (steps, probe []obs, witnessMissing bool) {
	c := cache.NewTTLMemCache(int(h.Size), h.Dttl)
	if h.Hammer != nil {
		hammer(c, h.Hammer)
	}
	var segs []segObs
	hasPar := false
	vs := &valSrc{}
	for _, s := range h.Segs {
		so := segObs{par: s.Par && len(s.Ops) > 1, ops: append([]opSpec{}, s.Ops...), res: make([]result, len(s.Ops))}
		if !so.par {
			for i, o := range s.Ops {
				setClock(o.Now)
				so.ops[i], so.res[i] = execSrc(c, o, vs)
			}
			segs = append(segs, so)
			continue
		}
		hasPar = true
		setClock(s.Ops[0].Now)
		// the racers spin on a flag so that they enter the cache within nanoseconds of each other
		var ready, goFlag int32
		var wg sync.WaitGroup
		for i := range s.Ops {
			wg.Add(1)
			go func(i int) {
				defer wg.Done()
				atomic.AddInt32(&ready, 1)
				for atomic.LoadInt32(&goFlag) == 0 {
				}
				so.res[i] = execOp(c, s.Ops[i])
			}(i)
		}
		for atomic.LoadInt32(&ready) < int32(len(s.Ops)) {
			runtime.Gosched()
		}
		atomic.StoreInt32(&goFlag, 1)
		wg.Wait()
		segs = append(segs, so)
	}
	setClock(h.ProbeNow)
	for k := 0; k < h.NKeys; k++ {
		o := opSpec{Now: h.ProbeNow, Kind: "G", K: k}
		probe = append(probe, obs{op: o, mem: execOp(c, o)})
	}
	orders := make([][]int, len(segs))
	if hasPar {
		var found bool
		orders, found = linearize(h.Size, h.Dttl, segs, probe)
		witnessMissing = !found
	}
	return flatten(segs, orders, false), probe, witnessMissing
}

// witness looks for an order of the racing ops in which the reference model reports what was observed
func witness(ref *refCache, ops []opSpec, res []result) (order []int, found bool) {
	order = make([]int, len(ops))
	for i := range order {
		order[i] = i
	}
	for _, p := range permutations(len(ops)) {
		t := ref.clone()
		ok := true
		for _, i := range p {
			if t.step(ops[i].Now, ops[i]) != res[i] {
				ok = false
				break
			}
		}
		if ok {
			return p, true
		}
	}
	return order, false
}

// runRdsOnly executes the history on the redis adapter alone; racing segments go through the fake's forced interleaving.
func runRdsOnly(e *vh.Env, h *histSpec) (steps []obs, witnessMissing bool) {
	f, cl := newFakeRedis(getClock)
	defer cl.Close()
	r := cache.NewTTLRdsCache(cl, rdsPrefix, h.Dttl)
	bys := newBystanders(f, cl, h)
	defer bys.finish(e, h)
	var segs []segObs
	hasPar := false
	for _, s := range h.Segs {
		so := segObs{par: s.Par && len(s.Ops) > 1, ops: s.Ops, res: make([]result, len(s.Ops)), cmds: make([][]string, len(s.Ops))}
		if !so.par {
			for i, o := range s.Ops {
				setClock(o.Now)
				f.take()
				so.res[i] = execOp(r, o)
				so.cmds[i] = coqCmds(f.take())
			}
			segs = append(segs, so)
			continue
		}
		hasPar = true
		setClock(s.Ops[0].Now)
		l := newLatch(len(s.Ops))
		f.mu.Lock()
		f.latch, f.by = l, map[int][][]interface{}{}
		f.mu.Unlock()
		var wg sync.WaitGroup
		for i := range s.Ops {
			wg.Add(1)
			go func(i int) {
				defer wg.Done()
				so.res[i] = execOpCtx(context.WithValue(context.Background(), racerKey{}, i), r, s.Ops[i])
				l.arrive(i, false) // a caller that returned without a command must not hold the others back
			}(i)
		}
		wg.Wait()
		f.mu.Lock()
		by := f.by
		f.latch, f.by = nil, nil
		f.mu.Unlock()
		for i := range s.Ops {
			so.cmds[i] = coqCmds(by[i])
		}
		segs = append(segs, so)
	}
	orders := make([][]int, len(segs))
	if hasPar {
		var found bool
		orders, found = linearize(h.Size, h.Dttl, segs, nil)
		witnessMissing = !found
	}
	return flatten(segs, orders, true), witnessMissing
}

// bystander: a second cache with its own prefix on the same redis.  It sets one key before the history and reads it
// afterwards; whatever the cache under test does (Clear included) must not touch it.
const byPrefix = "q:"

type bystander struct {
	c      cache.TTLCache
	f      *fakeRedis
	prefix string
	nkeys  int
	steps  []obs
}

type bystanders struct {
	f       *fakeRedis
	bs      []*bystander
	fillers int
}

func fillerKey(i int) string { return fmt.Sprintf("f%d:x%d", i%7, i) }

// newBystanders puts the foreign population on the shared fake: h.Fillers raw keys and the bystander caches' keys
func newBystanders(f *fakeRedis, cl *redis.Client, h *histSpec) *bystanders {
	t0 := int64(0)
	if len(h.Segs) > 0 && len(h.Segs[0].Ops) > 0 {
		t0 = h.Segs[0].Ops[0].Now
	}
	f.mu.Lock()
	for i := 0; i < h.Fillers; i++ {
		f.data[fillerKey(i)] = &fent{val: "x"}
	}
	f.mu.Unlock()
	r := &bystanders{f: f, fillers: h.Fillers}
	n, nk := 1, 1
	if h.Bystanders > 0 {
		n, nk = h.Bystanders, h.NKeys
	}
	for i := 0; i < n; i++ {
		prefix := byPrefix
		if i > 0 {
			prefix = fmt.Sprintf("q%d:", i)
		}
		b := &bystander{c: cache.NewTTLRdsCache(cl, prefix, h.Dttl), f: f, prefix: prefix, nkeys: nk}
		for k := 0; k < nk; k++ {
			b.do(opSpec{Now: t0, Kind: "S", K: k, V: int64(90 + k), HasTTL: true, TTL: 1000000})
		}
		r.bs = append(r.bs, b)
	}
	return r
}
func (b *bystander) do(o opSpec) {
	setClock(o.Now)
	b.f.take()
	r := execOp(b.c, o)
	b.steps = append(b.steps, obs{op: o, rds: r, cmds: coqCmdsP(b.f.take(), b.prefix)})
}
func (r *bystanders) finish(e *vh.Env, h *histSpec) {
	tEnd, cleared := r.bs[0].steps[0].op.Now, false
	for _, s := range h.Segs {
		for _, o := range s.Ops {
			if o.Now > tEnd {
				tEnd = o.Now
			}
			if o.Kind == "C" {
				cleared = true
			}
		}
	}
	r.f.mu.Lock()
	lost := 0
	for i := 0; i < r.fillers; i++ {
		if r.f.data[fillerKey(i)] == nil {
			lost++
		}
	}
	r.f.mu.Unlock()
	rp, _ := json.Marshal(h)
	for bi, b := range r.bs {
		for k := 0; k < b.nkeys; k++ {
			b.do(opSpec{Now: tEnd, Kind: "G", K: k})
		}
		if bi == 0 && lost > 0 {
			// a raw foreign key vanished: reported as a failed read of the first bystander
			b.steps = append(b.steps, obs{op: opSpec{Now: tEnd, Kind: "G", K: 0}, rds: result{rFail, 97}})
		}
		lines := []string{}
		for _, s := range b.steps {
			lines = append(lines, fmt.Sprintf("%s -> rds %s %v", descOp(s.op), descRes(s.rds), s.cmds))
		}
		e.Emit(vh.Case{Coq: fmt.Sprintf("CRdsHist 64 %s %s", z(h.Dttl), coqRdsOnlySteps(b.steps)), Class: "rds-bystander", Nontrivial: cleared, Replay: string(rp),
			Desc: map[string]interface{}{"backend": "redis", "history": lines, "prefix": b.prefix, "foreign_raw_keys": r.fillers, "foreign_raw_keys_lost": lost,
				"note": "another cache (own prefix) on the same redis; between its writes and its reads the cache under test (prefix p:) ran the history of the neighbouring case", "other_cache_cleared": cleared}})
	}
}

// runRds executes the history on both back-ends in lock step.
func runRds(e *vh.Env, h *histSpec) (steps []obs) {
	m := cache.NewTTLMemCache(int(h.Size), h.Dttl)
	f, cl := newFakeRedis(getClock)
	defer cl.Close()
	r := cache.NewTTLRdsCache(cl, rdsPrefix, h.Dttl)
	by := newBystanders(f, cl, h)
	defer by.finish(e, h)
	vs := &valSrc{}
	for _, s := range h.Segs {
		for _, o := range s.Ops {
			setClock(o.Now)
			// the memory cache gets the aliased slice, redis a fresh slice spelling the same number
			o, a := execSrc(m, o, vs)
			f.take()
			b := execOp(r, o)
			cmds := coqCmds(f.take())
			steps = append(steps, obs{op: o, mem: a, rds: b, cmds: cmds})
		}
	}
	return
}

// ---------------------------------------------------------------- printing Coq terms

func z(v int64) string {
	if v < 0 {
		return fmt.Sprintf("(%d)", v)
	}
	return strconv.FormatInt(v, 10)
}
func optZ(has bool, v int64) string {
	if !has {
		return "None"
	}
	return "(Some " + z(v) + ")"
}
func coqOp(o opSpec) string {
	switch o.Kind {
	case "S":
		return fmt.Sprintf("S_ %d %s %s %s %s", o.K, z(o.V), optZ(o.HasTTL, o.TTL), vh.CoqBool(o.Mne), vh.CoqBool(o.Keep))
	case "G":
		return fmt.Sprintf("G_ %d %s %s", o.K, vh.CoqBool(o.Rag), optZ(o.HasUpd, o.Upd))
	case "R":
		return fmt.Sprintf("ORemove %d", o.K)
	}
	return "OClear"
}
func coqRes(r result) string {
	switch r.kind {
	case rOk:
		return "Ok " + z(r.v)
	case rDone:
		return "Done"
	case rExists:
		return "TTL.Exists"
	case rNotFound:
		return "NotFound"
	}
	return "Fail " + z(r.v)
}
func coqMemStep(s obs) string {
	return fmt.Sprintf("(%s, %s, %s)", z(s.op.Now), coqOp(s.op), coqRes(s.mem))
}
func coqMemSteps(ss []obs) string {
	out := make([]string, len(ss))
	for i, s := range ss {
		out[i] = coqMemStep(s)
	}
	return "[" + strings.Join(out, "; ") + "]%Z"
}
func coqRdsSteps(ss []obs) string {
	out := make([]string, len(ss))
	for i, s := range ss {
		out[i] = fmt.Sprintf("(%s, %s, %s, (%s, [%s]))", z(s.op.Now), coqOp(s.op), coqRes(s.mem), coqRes(s.rds), strings.Join(s.cmds, "; "))
	}
	return "[" + strings.Join(out, "; ") + "]%Z"
}

func coqRdsOnlySteps(ss []obs) string {
	out := make([]string, len(ss))
	for i, s := range ss {
		out[i] = fmt.Sprintf("(%s, %s, (%s, [%s]))", z(s.op.Now), coqOp(s.op), coqRes(s.rds), strings.Join(s.cmds, "; "))
	}
	return "[" + strings.Join(out, "; ") + "]%Z"
}

func keyIndex(full, prefix string) (int, bool) {
	if !strings.HasPrefix(full, prefix) {
		return 0, false
	}
	name := full[len(prefix):]
	for i, n := range keyNames {
		if n == name {
			return i, true
		}
	}
	return 0, false
}

// coqCmds turns the recorded argument vectors into rcmd terms; anything the model cannot say becomes RBad.  The DELs
// that follow a SCAN are put into key order (the iteration order of a key space is not an observable of the property).
func coqCmds(raw [][]interface{}) []string { return coqCmdsP(raw, rdsPrefix) }

func coqCmdsP(raw [][]interface{}, prefix string) []string {
	out := make([]string, 0, len(raw))
	// one iteration of the key space = the first SCAN (cursor 0) and its continuations (cursor = what the previous
	// SCAN answered) down to the answer 0; the model says RScan once.  A continuation with another cursor, or an
	// iteration abandoned before the answer 0, is something the model never does.
	scanning, expect := false, uint64(0)
	for _, a := range raw {
		name, _ := argStr(a[0])
		if name == "scan" && len(a) >= 3 {
			next, hasNext := a[len(a)-1].(scanNext)
			args := a
			if hasNext {
				args = a[:len(a)-1]
			}
			cur, _ := argInt(args[1])
			switch {
			case !hasNext:
				out = append(out, "RBad")
			case scanning && cur != 0 && uint64(cur) == expect:
				if coqCmd(append([]interface{}{"scan", uint64(0)}, args[2:]...), prefix) != "RScan" {
					out = append(out, "RBad")
				}
			default:
				if scanning {
					out = append(out, "RBad") // previous iteration abandoned
				}
				out = append(out, coqCmd(args, prefix))
			}
			scanning, expect = next != 0, uint64(next)
			continue
		}
		out = append(out, coqCmd(a, prefix))
	}
	if scanning {
		out = append(out, "RBad")
	}
	// the DELs of one iteration, in key order
	for i, c := range out {
		if c == "RScan" {
			tail := out[i+1:]
			allDel := true
			for _, d := range tail {
				if !strings.HasPrefix(d, "RDel ") {
					allDel = false
				}
			}
			if allDel {
				sort.Slice(tail, func(x, y int) bool {
					var p, q int
					fmt.Sscanf(tail[x], "RDel %d", &p)
					fmt.Sscanf(tail[y], "RDel %d", &q)
					return p < q
				})
			}
			break
		}
	}
	return out
}

func coqCmd(a []interface{}, prefix string) string {
	if len(a) == 0 {
		return "RBad"
	}
	name, _ := argStr(a[0])
	key := func(i int) (int, bool) {
		if i >= len(a) {
			return 0, false
		}
		s, ok := argStr(a[i])
		if !ok {
			return 0, false
		}
		return keyIndex(s, prefix)
	}
	switch name {
	case "set":
		k, ok := key(1)
		if !ok || len(a) < 3 {
			return "RBad"
		}
		vs, ok := argStr(a[2])
		if !ok {
			return "RBad"
		}
		v := decVal([]byte(vs))
		ex, nx := "XNone", false
		i := 3
		if i < len(a) {
			if w, _ := argStr(a[i]); w == "px" || w == "ex" {
				if i+1 >= len(a) {
					return "RBad"
				}
				n, ok := a[i+1].(int64)
				if !ok {
					return "RBad"
				}
				if w == "px" {
					ex = "(XPx " + z(n) + ")"
				} else {
					ex = "(XEx " + z(n) + ")"
				}
				i += 2
			} else if w == "keepttl" {
				ex = "XKeep"
				i++
			}
		}
		if i < len(a) {
			if w, _ := argStr(a[i]); w == "nx" {
				nx = true
				i++
			}
		}
		if i != len(a) {
			return "RBad"
		}
		return fmt.Sprintf("RSet %d %s %s %s", k, z(v), ex, vh.CoqBool(nx))
	case "setnx":
		k, ok := key(1)
		if !ok || len(a) != 3 {
			return "RBad"
		}
		vs, _ := argStr(a[2])
		return fmt.Sprintf("RSetNX %d %s", k, z(decVal([]byte(vs))))
	case "get", "getdel", "del":
		k, ok := key(1)
		if !ok || len(a) != 2 {
			return "RBad"
		}
		return map[string]string{"get": "RGet", "getdel": "RGetDel", "del": "RDel"}[name] + fmt.Sprintf(" %d", k)
	case "expire":
		k, ok := key(1)
		if !ok || len(a) != 3 {
			return "RBad"
		}
		n, ok := a[2].(int64)
		if !ok {
			return "RBad"
		}
		return fmt.Sprintf("RExpire %d %s", k, z(n))
	case "scan":
		if len(a) == 6 { // an explicit COUNT is a harmless variation
			if w, _ := argStr(a[4]); w == "count" {
				a = a[:4]
			}
		}
		if len(a) != 4 {
			return "RBad"
		}
		cur, ok := argInt(a[1])
		w, _ := argStr(a[2])
		p, _ := argStr(a[3])
		if !ok || cur != 0 || w != "match" || p != prefix+"*" {
			return "RBad"
		}
		return "RScan"
	}
	return "RBad"
}

// ---------------------------------------------------------------- readable form

func descOp(o opSpec) string {
	k := fmt.Sprintf("%d", o.K)
	switch o.Kind {
	case "S":
		s := fmt.Sprintf("t=%d Set k%s=%d", o.Now, k, o.V)
		if o.HasTTL {
			s += fmt.Sprintf(" ttl=%d", o.TTL)
		}
		if o.Mne {
			s += " must-not-exist"
		}
		if o.Keep {
			s += " keep-ttl"
		}
		switch o.Src {
		case "g":
			s += " [value = the slice the last Get returned]"
		case "p":
			s += " [value = the payload slice shared by several Sets]"
		case "c":
			s += " [value = sub-slice of one arena, spare capacity behind it]"
		}
		return s
	case "G":
		s := fmt.Sprintf("t=%d Get k%s", o.Now, k)
		if o.Rag {
			s += " remove-after-get"
		}
		if o.HasUpd {
			s += fmt.Sprintf(" update-ttl=%d", o.Upd)
		}
		return s
	case "R":
		return fmt.Sprintf("t=%d Remove k%s", o.Now, k)
	}
	return fmt.Sprintf("t=%d Clear", o.Now)
}
func descRes(r result) string {
	switch r.kind {
	case rOk:
		return fmt.Sprintf("hit %d", r.v)
	case rDone:
		return "ok"
	case rExists:
		return "already-exists"
	case rNotFound:
		return "not-found"
	}
	return fmt.Sprintf("error/panic %d", r.v)
}

// ---------------------------------------------------------------- emitting one case

func emitMem(e *vh.Env, h *histSpec) {
	steps, probe, missing := runMem(h)
	coq := fmt.Sprintf("CMem %s %s %s %s", z(h.Size), z(h.Dttl), coqMemSteps(steps), coqMemSteps(probe))
	lines := []string{}
	hits, misses, exists := 0, 0, 0
	set := map[int]bool{}
	for _, s := range steps {
		lines = append(lines, descOp(s.op)+" -> "+descRes(s.mem))
		switch {
		case s.op.Kind == "S" && s.mem.kind == rDone:
			set[s.op.K] = true
		case s.op.Kind == "S" && s.mem.kind == rExists:
			exists++
		case s.op.Kind == "G" && s.mem.kind == rOk:
			hits++
		case s.op.Kind == "G" && s.mem.kind == rNotFound && set[s.op.K]:
			misses++
		}
	}
	pl := []string{}
	for _, s := range probe {
		pl = append(pl, descOp(s.op)+" -> "+descRes(s.mem))
	}
	par := 0
	for _, s := range h.Segs {
		if s.Par {
			par += len(s.Ops)
		}
	}
	rp, _ := json.Marshal(h)
	e.Emit(vh.Case{Coq: coq, Class: h.Class, Nontrivial: hits > 0 && (misses > 0 || exists > 0),
		Replay: string(rp),
		Desc: map[string]interface{}{"backend": "memory", "size": h.Size, "default_ttl": h.Dttl, "history": lines, "probe": pl,
			"racing_ops": par, "race_witness_missing": missing}})
}

func emitRds(e *vh.Env, h *histSpec) {
	steps := runRds(e, h)
	coq := fmt.Sprintf("CRds %s %s %s", z(h.Size), z(h.Dttl), coqRdsSteps(steps))
	lines := []string{}
	led := map[int]int64{}
	restricted := true
	keys := map[int]bool{}
	hits, other := 0, 0
	for _, s := range steps {
		lines = append(lines, fmt.Sprintf("%s -> mem %s | rds %s %v", descOp(s.op), descRes(s.mem), descRes(s.rds), s.cmds))
		if restricted && !ledStep(h.Dttl, led, s.op.Now, s.op) {
			restricted = false
		}
		if s.op.Kind != "C" {
			keys[s.op.K] = true
		}
		if s.mem.kind == rOk {
			hits++
		}
		if s.mem.kind == rNotFound || s.mem.kind == rExists {
			other++
		}
	}
	if int64(len(keys)) > h.Size {
		restricted = false
	}
	rp, _ := json.Marshal(h)
	e.Emit(vh.Case{Coq: coq, Class: h.Class, Nontrivial: restricted && hits > 0 && other > 0, Replay: string(rp),
		Desc: map[string]interface{}{"backend": "memory+redis", "size": h.Size, "default_ttl": h.Dttl, "history": lines, "restricted": restricted}})
}

func emitRdsHist(e *vh.Env, h *histSpec) {
	steps, missing := runRdsOnly(e, h)
	coq := fmt.Sprintf("CRdsHist %s %s %s", z(h.Size), z(h.Dttl), coqRdsOnlySteps(steps))
	lines := []string{}
	led := map[int]int64{}
	restricted := true
	keys := map[int]bool{}
	hits := 0
	for _, s := range steps {
		lines = append(lines, fmt.Sprintf("%s -> rds %s %v", descOp(s.op), descRes(s.rds), s.cmds))
		if restricted && !ledStep(h.Dttl, led, s.op.Now, s.op) {
			restricted = false
		}
		if s.op.Kind != "C" {
			keys[s.op.K] = true
		}
		if s.rds.kind == rOk {
			hits++
		}
	}
	if int64(len(keys)) > h.Size {
		restricted = false
	}
	par := 0
	for _, s := range h.Segs {
		if s.Par {
			par += len(s.Ops)
		}
	}
	rp, _ := json.Marshal(h)
	e.Emit(vh.Case{Coq: coq, Class: h.Class, Nontrivial: restricted && hits > 0 && par > 1, Replay: string(rp),
		Desc: map[string]interface{}{"backend": "redis", "size": h.Size, "default_ttl": h.Dttl, "history": lines, "restricted": restricted,
			"racing_ops": par, "race_witness_missing": missing}})
}

// ---------------------------------------------------------------- generators

type profile struct {
	class              string
	sizes, dttls       []int64
	nkeys              int
	minLen, maxLen     int
	ttls, upds         []int64
	pTTL, pMne, pKeep  float64
	pRag, pUpd         float64
	wSet, wGet, wR, wC int
	pStay, pDeadline   float64 // clock: stay, jump next to a known deadline, else small advance
	backwards          float64 // probability that a clock step goes backwards (out of the property's quantifier)
	starts             []int64
	restricted         bool // steer into the class compared with redis
	pAlias             float64 // probability that a Set hands over an aliased slice (Src g / p / c)
}

func pick(e *vh.Env, xs []int64) int64 { return xs[e.Rnd.Intn(len(xs))] }

type gen struct {
	e    *vh.Env
	p    *profile
	now  int64
	pool []int64
	dttl int64
	led  map[int]int64
}

func (g *gen) advance() {
	r := g.e.Rnd.Float64()
	switch {
	case r < g.p.pStay:
	case r < g.p.pStay+g.p.pDeadline && len(g.pool) > 0:
		// land on deadline-1 / deadline / deadline+1 of something that was set
		for try := 0; try < 6; try++ {
			d := g.pool[g.e.Rnd.Intn(len(g.pool))]
			delta := int64(g.e.Rnd.Intn(3) - 1)
			if g.p.restricted && delta == 0 {
				delta = 1
			}
			if t := d + delta; t >= g.now && t-g.now < 1<<40 {
				g.now = t
				return
			}
		}
		g.now++
	case g.e.Rnd.Float64() < g.p.backwards:
		g.now -= int64(1 + g.e.Rnd.Intn(4))
	default:
		if g.e.Rnd.Intn(3) == 0 {
			g.now += int64(2 + g.e.Rnd.Intn(5))
		} else {
			g.now++
		}
	}
}

func (g *gen) note(ttl int64) {
	if ttl > 0 && ttl < 1<<40 {
		g.pool = append(g.pool, g.now+ttl)
		if len(g.pool) > 12 {
			g.pool = g.pool[1:]
		}
	}
}

func (g *gen) op() opSpec {
	p := g.p
	g.advance()
	o := opSpec{Now: g.now, K: g.e.Rnd.Intn(p.nkeys)}
	w := g.e.Rnd.Intn(p.wSet + p.wGet + p.wR + p.wC)
	switch {
	case w < p.wSet:
		o.Kind = "S"
		o.V = int64(g.e.Rnd.Intn(90) + 1)
		if g.e.Rnd.Float64() < p.pTTL {
			o.HasTTL, o.TTL = true, pick(g.e, p.ttls)
		}
		o.Mne = g.e.Rnd.Float64() < p.pMne
		o.Keep = g.e.Rnd.Float64() < p.pKeep
		if g.e.Rnd.Float64() < p.pAlias {
			o.Src = []string{"g", "g", "p", "c"}[g.e.Rnd.Intn(4)]
		}
		t := g.dttl
		if o.HasTTL {
			t = o.TTL
		}
		g.note(t)
	case w < p.wSet+p.wGet:
		o.Kind = "G"
		o.Rag = g.e.Rnd.Float64() < p.pRag
		if g.e.Rnd.Float64() < p.pUpd {
			o.HasUpd, o.Upd = true, pick(g.e, p.upds)
			t := o.Upd
			if t == 0 {
				t = g.dttl
			}
			g.note(t)
		}
	case w < p.wSet+p.wGet+p.wR:
		o.Kind = "R"
	default:
		o.Kind = "C"
	}
	return o
}

func (g *gen) history() *histSpec {
	p := g.p
	h := &histSpec{Kind: "mem", Class: p.class, Size: pick(g.e, p.sizes), Dttl: pick(g.e, p.dttls), NKeys: p.nkeys}
	g.dttl = h.Dttl
	g.now = pick(g.e, p.starts)
	g.pool = nil
	g.led = map[int]int64{}
	n := p.minLen + g.e.Rnd.Intn(p.maxLen-p.minLen+1)
	var ops []opSpec
	for i := 0; i < n; i++ {
		prev := g.now
		o := g.op()
		if p.restricted {
			// stay inside the class compared with redis: re-draw a few times, then drop the op
			ok := false
			for try := 0; try < 8; try++ {
				trial := map[int]int64{}
				for k, v := range g.led {
					trial[k] = v
				}
				if ledStep(h.Dttl, trial, o.Now, o) {
					g.led = trial
					ok = true
					break
				}
				g.now = prev
				o = g.op()
			}
			if !ok {
				g.now = prev
				continue
			}
		}
		ops = append(ops, o)
	}
	h.Segs = []seg{{Ops: ops}}
	h.ProbeNow = g.now
	if g.e.Rnd.Intn(3) == 0 {
		g.advance()
		h.ProbeNow = g.now
	}
	return h
}

var (
	pMixed = profile{pAlias: 0.3, class: "mem-mixed", sizes: []int64{0, 1, 2, 2, 3, 4}, dttls: []int64{-1, 0, 2, 5}, nkeys: 5, minLen: 6, maxLen: 30,
		ttls: []int64{-2, 0, 1, 2, 3, 7}, upds: []int64{-2, 0, 1, 4}, pTTL: 0.5, pMne: 0.25, pKeep: 0.25, pRag: 0.2, pUpd: 0.3,
		wSet: 45, wGet: 40, wR: 9, wC: 3, pStay: 0.4, pDeadline: 0.35, starts: []int64{0, 100, 1700000000}}
	pLru = profile{pAlias: 0.3, class: "mem-lru", sizes: []int64{1, 2, 3, 3, 4}, dttls: []int64{0, 50}, nkeys: 6, minLen: 8, maxLen: 36,
		ttls: []int64{40, 60}, upds: []int64{0, 30}, pTTL: 0.2, pMne: 0.15, pKeep: 0.1, pRag: 0.08, pUpd: 0.1,
		wSet: 50, wGet: 45, wR: 4, wC: 1, pStay: 0.7, pDeadline: 0.02, starts: []int64{10}}
	pExpiry = profile{pAlias: 0.25, class: "mem-expiry", sizes: []int64{3, 8}, dttls: []int64{-1, 0, 3, 4}, nkeys: 4, minLen: 8, maxLen: 30,
		ttls: []int64{1, 2, 3, 5, 0}, upds: []int64{0, 1, 2, 6, -1}, pTTL: 0.6, pMne: 0.3, pKeep: 0.4, pRag: 0.15, pUpd: 0.4,
		wSet: 45, wGet: 45, wR: 6, wC: 2, pStay: 0.3, pDeadline: 0.5, starts: []int64{5, 1000}}
	pOdd = profile{class: "mem-odd", sizes: []int64{-1, -5, 0, 1, 2, math.MaxInt64}, dttls: []int64{math.MinInt64, -1, 0, 3, math.MaxInt64}, nkeys: 4, minLen: 5, maxLen: 20,
		ttls:  []int64{math.MaxInt64, math.MaxInt64 - 10, math.MinInt64, 1 << 62, 2, 0},
		upds:  []int64{math.MaxInt64, math.MinInt64, 1 << 62, 0, 1}, pTTL: 0.6, pMne: 0.25, pKeep: 0.25, pRag: 0.2, pUpd: 0.4,
		wSet: 45, wGet: 40, wR: 8, wC: 4, pStay: 0.3, pDeadline: 0.3, backwards: 0.5, starts: []int64{-50, 0, 7, math.MaxInt64 - 40, math.MinInt64 + 3}}
	pRdsRestricted = profile{pAlias: 0.25, class: "rds-restricted", sizes: []int64{5, 5, 6, 64}, dttls: []int64{2, 3, 10}, nkeys: 5, minLen: 8, maxLen: 30,
		ttls: []int64{1, 2, 3, 5, 30, tmax}, upds: []int64{0, 1, 2, 6}, pTTL: 0.5, pMne: 0.3, pKeep: 0.35, pRag: 0.2, pUpd: 0.35,
		wSet: 45, wGet: 42, wR: 8, wC: 5, pStay: 0.35, pDeadline: 0.45, starts: []int64{0, 100, 1700000000}, restricted: true}
	pRdsFree = profile{pAlias: 0.2, class: "rds-free", sizes: []int64{2, 5, 64}, dttls: []int64{-1, 0, 3}, nkeys: 5, minLen: 6, maxLen: 24,
		ttls: []int64{-3, 0, 1, 2, 5, tmax, tmax + 1, 1 << 40, math.MaxInt64}, upds: []int64{-2, 0, 1, 4, tmax + 1}, pTTL: 0.6, pMne: 0.3, pKeep: 0.3, pRag: 0.2, pUpd: 0.35,
		wSet: 45, wGet: 42, wR: 8, wC: 5, pStay: 0.35, pDeadline: 0.45, starts: []int64{0, 100}}
)

// enumMem: Set a; clock at deadline-1/0/+1; one operation of every kind on a; then reads and a second key.
func enumMem(emit func(*histSpec)) {
	type x struct {
		kind      string
		mne, keep bool
		rag, upd  bool
	}
	xs := []x{{kind: "G"}, {kind: "G", rag: true}, {kind: "G", upd: true}, {kind: "S"}, {kind: "S", mne: true}, {kind: "S", keep: true},
		{kind: "S", mne: true, keep: true}, {kind: "R"}, {kind: "C"}}
	for _, size := range []int64{0, 1, 2} {
		for _, dttl := range []int64{0, 3} {
			for _, ttl := range []int64{-1, 2} { // -1: no explicit ttl
				for _, delta := range []int64{-1, 0, 1} {
					for _, xo := range xs {
						eff := dttl
						o1 := opSpec{Now: 10, Kind: "S", K: 0, V: 11}
						if ttl > 0 {
							o1.HasTTL, o1.TTL = true, ttl
							eff = ttl
						}
						t := int64(15) + delta
						if eff > 0 {
							t = 10 + eff + delta
						}
						o2 := opSpec{Now: t, Kind: xo.kind, K: 0, V: 22, Mne: xo.mne, Keep: xo.keep, Rag: xo.rag}
						if xo.kind == "S" {
							o2.HasTTL, o2.TTL = true, 4
						}
						if xo.upd {
							o2.HasUpd, o2.Upd = true, 0
						}
						ops := []opSpec{o1, o2, {Now: t, Kind: "G", K: 0}, {Now: t + 1, Kind: "S", K: 1, V: 33, Mne: true},
							{Now: t + 1, Kind: "G", K: 0}, {Now: t + 3, Kind: "G", K: 1, Rag: true}, {Now: t + 3, Kind: "G", K: 1}}
						emit(&histSpec{Kind: "mem", Class: "mem-enum", Size: size, Dttl: dttl, NKeys: 3, Segs: []seg{{Ops: ops}}, ProbeNow: t + 3})
					}
				}
			}
		}
	}
}

// aliasEnum: the value slices of different keys share memory (a value read by Get and stored under another key, one
// payload fanned out to several keys, values carved from one arena); then one of the keys is overwritten with a value
// that fits the old capacity.  A value-semantics cache answers every other key as before.
func aliasEnum(emit func(*histSpec)) {
	for _, kind := range []string{"mem", "rds"} {
		for _, size := range []int64{3, 8} {
			for _, w := range []struct {
				mne, keep bool
				v2        int64
			}{{false, false, 22}, {false, true, 7}, {false, false, 333}} {
				t := int64(30)
				ttl := func(o opSpec) opSpec { o.HasTTL, o.TTL = true, 40; return o }
				// copy-then-overwrite (also: set-if-absent of a read value)
				for _, mne := range []bool{false, true} {
					ops := []opSpec{ttl(opSpec{Now: t, Kind: "S", K: 0, V: 11}), {Now: t, Kind: "G", K: 0}, ttl(opSpec{Now: t, Kind: "S", K: 1, Src: "g", Mne: mne}),
						ttl(opSpec{Now: t + 1, Kind: "S", K: 0, V: w.v2, Keep: w.keep}), {Now: t + 1, Kind: "G", K: 1}, {Now: t + 1, Kind: "G", K: 0}}
					emit(&histSpec{Kind: kind, Class: kind + "-alias", Size: size, Dttl: 9, NKeys: 3, Segs: []seg{{Ops: ops}}, ProbeNow: t + 2})
				}
				// fan-out of one payload, then one of the keys is rewritten
				ops := []opSpec{ttl(opSpec{Now: t, Kind: "S", K: 0, V: 41, Src: "p"}), ttl(opSpec{Now: t, Kind: "S", K: 1, Src: "p"}), ttl(opSpec{Now: t, Kind: "S", K: 2, Src: "p"}),
					ttl(opSpec{Now: t + 1, Kind: "S", K: 1, V: w.v2, Keep: w.keep}), {Now: t + 1, Kind: "G", K: 0}, {Now: t + 1, Kind: "G", K: 2}, {Now: t + 1, Kind: "G", K: 1}}
				emit(&histSpec{Kind: kind, Class: kind + "-alias", Size: size, Dttl: 9, NKeys: 3, Segs: []seg{{Ops: ops}}, ProbeNow: t + 2})
				// values carved from one arena: the rewritten value is longer and still fits the spare capacity
				ops = []opSpec{ttl(opSpec{Now: t, Kind: "S", K: 0, V: 12, Src: "c"}), ttl(opSpec{Now: t, Kind: "S", K: 1, V: 34, Src: "c"}), ttl(opSpec{Now: t, Kind: "S", K: 2, V: 56, Src: "c"}),
					ttl(opSpec{Now: t + 1, Kind: "S", K: 0, V: w.v2 * 10, Keep: w.keep}), {Now: t + 1, Kind: "G", K: 1}, {Now: t + 1, Kind: "G", K: 2}, {Now: t + 1, Kind: "G", K: 0}}
				emit(&histSpec{Kind: kind, Class: kind + "-alias", Size: size, Dttl: 9, NKeys: 3, Segs: []seg{{Ops: ops}}, ProbeNow: t + 2})
			}
		}
	}
}

// enumRds: every option combination of Set / Get against a live, an absent and an elapsed key, for each ttl shape
func enumRds(e *vh.Env, emit func(*histSpec)) {
	ttls := []int64{-3, 0, 1, 5, tmax, tmax + 1}
	for _, dttl := range []int64{0, 3} {
		for _, ttl := range ttls {
			for m := 0; m < 8; m++ {
				hasTTL, mne, keep := m&1 != 0, m&2 != 0, m&4 != 0
				for _, state := range []int{0, 1, 2} { // absent, live, elapsed
					var ops []opSpec
					now := int64(50)
					if state > 0 {
						ops = append(ops, opSpec{Now: now, Kind: "S", K: 1, V: 5, HasTTL: true, TTL: 4})
					}
					if state == 2 {
						now += 6
					} else {
						now += 1
					}
					ops = append(ops, opSpec{Now: now, Kind: "S", K: 1, V: 6, HasTTL: hasTTL, TTL: ttl, Mne: mne, Keep: keep})
					ops = append(ops, opSpec{Now: now, Kind: "G", K: 1, HasUpd: m&1 != 0, Upd: ttl})
					ops = append(ops, opSpec{Now: now + 2, Kind: "G", K: 1, Rag: m&2 != 0, HasUpd: m&4 != 0, Upd: 0})
					ops = append(ops, opSpec{Now: now + 2, Kind: "G", K: 1})
					ops = append(ops, opSpec{Now: now + 3, Kind: "S", K: 2, V: 7}, opSpec{Now: now + 3, Kind: "C"}, opSpec{Now: now + 3, Kind: "G", K: 2})
					emit(&histSpec{Kind: "rds", Class: "rds-enum", Size: 8, Dttl: dttl, NKeys: 3, Segs: []seg{{Ops: ops}}})
				}
			}
		}
	}
}

// raceHistory: a sequential prefix, then 2..5 goroutines racing on one key at one clock reading, then a tail.
func raceHistory(e *vh.Env) *histSpec {
	g := &gen{e: e, p: &pExpiry}
	h := g.history()
	h.Class = "mem-race"
	pre := h.Segs[0].Ops
	if len(pre) > 10 {
		pre = pre[:10]
	}
	now := int64(5)
	if len(pre) > 0 {
		now = pre[len(pre)-1].Now
	}
	k := e.Rnd.Intn(h.NKeys)
	// make the key live most of the time
	if e.Rnd.Intn(4) != 0 {
		pre = append(pre, opSpec{Now: now, Kind: "S", K: k, V: 77, HasTTL: true, TTL: 9})
	}
	n := 2 + e.Rnd.Intn(4)
	var race []opSpec
	for i := 0; i < n; i++ {
		o := opSpec{Now: now, K: k}
		switch r := e.Rnd.Intn(10); {
		case r < 6:
			o.Kind, o.Rag = "G", true
		case r < 7:
			o.Kind = "G"
		case r < 8:
			o.Kind, o.HasUpd, o.Upd = "G", true, 3
		case r < 9:
			o.Kind, o.V, o.Mne = "S", int64(60+i), true
		default:
			o.Kind = "R"
		}
		race = append(race, o)
	}
	tail := []opSpec{{Now: now, Kind: "G", K: k}, {Now: now + 1, Kind: "S", K: k, V: 88, Mne: true}, {Now: now + 1, Kind: "G", K: k, Rag: true}}
	h.Segs = []seg{{Ops: pre}, {Par: true, Ops: race}, {Ops: tail}}
	h.ProbeNow = now + 1
	return h
}

// rdsRaceHistory: restricted prefix, then 2..4 callers racing on one key of the redis adapter (each a single redis
// command: remove-after-get, plain get, set-if-absent, remove), then reads.
func rdsRaceHistory(e *vh.Env) *histSpec {
	g := &gen{e: e, p: &pRdsRestricted}
	h := g.history()
	h.Kind, h.Class, h.Size = "rdsh", "rds-race", 64
	pre := h.Segs[0].Ops
	if len(pre) > 8 {
		pre = pre[:8]
	}
	now := int64(5)
	if len(pre) > 0 {
		now = pre[len(pre)-1].Now
	}
	k := e.Rnd.Intn(h.NKeys)
	now += 100 // well past every deadline of the prefix: the key is absent unless set now
	if e.Rnd.Intn(5) != 0 {
		pre = append(pre, opSpec{Now: now, Kind: "S", K: k, V: 77, HasTTL: true, TTL: 9})
	}
	n := 2 + e.Rnd.Intn(3)
	var race []opSpec
	for i := 0; i < n; i++ {
		o := opSpec{Now: now + 1, K: k}
		switch r := e.Rnd.Intn(10); {
		case r < 6:
			o.Kind, o.Rag = "G", true
		case r < 7:
			o.Kind = "G"
		case r < 9:
			o.Kind, o.V, o.Mne, o.HasTTL, o.TTL = "S", int64(60+i), true, true, 7
		default:
			o.Kind = "R"
		}
		race = append(race, o)
	}
	tail := []opSpec{{Now: now + 1, Kind: "G", K: k}, {Now: now + 2, Kind: "S", K: k, V: 88, Mne: true, HasTTL: true, TTL: 5}, {Now: now + 2, Kind: "G", K: k, Rag: true}, {Now: now + 2, Kind: "G", K: k}}
	h.Segs = []seg{{Ops: pre}, {Par: true, Ops: race}, {Ops: tail}}
	return h
}

// exhMem (thorough tier): every sequence of three steps over a 16-letter alphabet (clock +0 / +2, eight operations on
// two keys) at size 1, default ttl 2
func exhMem(emit func(*histSpec)) {
	type letter struct {
		adv int64
		o   opSpec
	}
	base := []opSpec{{Kind: "S", K: 0, V: 1}, {Kind: "S", K: 0, V: 2, Mne: true}, {Kind: "S", K: 0, V: 3, Keep: true, HasTTL: true, TTL: 5}, {Kind: "S", K: 1, V: 4},
		{Kind: "G", K: 0}, {Kind: "G", K: 0, Rag: true}, {Kind: "G", K: 0, HasUpd: true, Upd: 3}, {Kind: "R", K: 0}}
	var alpha []letter
	for _, adv := range []int64{0, 2} {
		for _, o := range base {
			alpha = append(alpha, letter{adv, o})
		}
	}
	for _, a := range alpha {
		for _, b := range alpha {
			for _, c := range alpha {
				now := int64(10)
				var ops []opSpec
				for _, l := range []letter{{0, opSpec{Kind: "S", K: 0, V: 9}}, a, b, c} {
					now += l.adv
					o := l.o
					o.Now = now
					ops = append(ops, o)
				}
				emit(&histSpec{Kind: "mem", Class: "mem-exh", Size: 1, Dttl: 2, NKeys: 2, Segs: []seg{{Ops: ops}}, ProbeNow: now})
			}
		}
	}
}

// stressHistory: many rounds of "set the key, four callers race to consume it".  Run in a child process, because the
// failure mode of a lost critical section is a Go runtime fatal error (concurrent map writes), which cannot be recovered.
func stressHistory(e *vh.Env, rounds int) *histSpec {
	h := &histSpec{Kind: "mem", Class: "mem-stress", Size: 2, Dttl: 0, NKeys: 2}
	now := int64(10)
	for r := 0; r < rounds; r++ {
		k := r % 2
		h.Segs = append(h.Segs, seg{Ops: []opSpec{{Now: now, Kind: "S", K: k, V: int64(r%90 + 1)}}})
		var race []opSpec
		for i := 0; i < 4; i++ {
			o := opSpec{Now: now, Kind: "G", K: k, Rag: true}
			if i == 3 && r%3 == 0 {
				o.Rag = false
			}
			race = append(race, o)
		}
		h.Segs = append(h.Segs, seg{Par: true, Ops: race})
		now++
	}
	h.ProbeNow = now
	return h
}

// emitIsolated runs one history in a child process and forwards its case; a crashed child becomes a case in which the
// racing callers report a panic.
func emitIsolated(e *vh.Env, h *histSpec) {
	rp, _ := json.Marshal(h)
	tmp, err := os.CreateTemp("", "c05stress*.jsonl")
	if err != nil {
		panic(err)
	}
	tmp.Close()
	defer os.Remove(tmp.Name())
	cmd := exec.Command(os.Args[0], "-replay", string(rp), "-out", tmp.Name())
	out, runErr := cmd.CombinedOutput()
	if runErr == nil {
		f, err := os.Open(tmp.Name())
		if err == nil {
			defer f.Close()
			sc := bufio.NewScanner(f)
			sc.Buffer(make([]byte, 1<<20), 1<<28)
			for sc.Scan() {
				var c vh.Case
				if json.Unmarshal(sc.Bytes(), &c) == nil && c.Coq != "" {
					e.Emit(c)
				}
			}
			return
		}
	}
	// crashed: report the first racing segment with every racer panicking (what the prefix returned died with the child)
	var steps []obs
	if h.Hammer != nil {
		steps = append(steps, obs{op: opSpec{Now: h.Hammer.Now, Kind: "R", K: h.Hammer.K}, mem: result{rFail, 99}})
	}
	for _, s := range h.Segs {
		if !s.Par {
			continue
		}
		for _, o := range s.Ops {
			steps = append(steps, obs{op: o, mem: result{rFail, 99}})
		}
		break
	}
	msg := string(out)
	if len(msg) > 600 {
		msg = msg[:600]
	}
	e.Emit(vh.Case{Coq: fmt.Sprintf("CMem %s %s %s []%%Z", z(h.Size), z(h.Dttl), coqMemSteps(steps)), Class: h.Class, Nontrivial: true, Replay: string(rp),
		Desc: map[string]interface{}{"backend": "memory", "size": h.Size, "default_ttl": h.Dttl,
			"history": "the process running this history died while goroutines were racing on one key (see crash); only the racing calls are reported", "crash": msg}})
}

// removeVsReset: callers hammer Remove / Remove+Set on one key of a small fresh cache; at quiescence the recorded
// history is  Remove(k); Set(k); Set of fewer than `size` other keys; Get(k)  and the probe.  Every linearisation of
// the hammering leaves the same (empty) cache after Remove(k), so the recorded history is replayed from the empty cache.
func removeVsReset(e *vh.Env, iter int) *histSpec {
	size := int64(2 + e.Rnd.Intn(3))
	h := &histSpec{Kind: "mem", Class: "mem-remove-vs-reset", Size: size, Dttl: []int64{0, 0, 500}[e.Rnd.Intn(3)], NKeys: 6}
	k := e.Rnd.Intn(h.NKeys)
	now := int64(100 + e.Rnd.Intn(50))
	h.Hammer = &hammerSpec{K: k, Removers: 2 + e.Rnd.Intn(3), Iter: iter, Now: now}
	ops := []opSpec{{Now: now, Kind: "R", K: k}, {Now: now, Kind: "S", K: k, V: 55}}
	others := int(size) - 1
	for i, o := 0, 0; o < others; i++ {
		if i%h.NKeys == k {
			continue
		}
		ops = append(ops, opSpec{Now: now, Kind: "S", K: i % h.NKeys, V: int64(10 + o)})
		o++
	}
	ops = append(ops, opSpec{Now: now, Kind: "G", K: k}, opSpec{Now: now + 1, Kind: "S", K: k, V: 56, Mne: true}, opSpec{Now: now + 1, Kind: "G", K: k})
	h.Segs = []seg{{Ops: ops}}
	h.ProbeNow = now + 1
	return h
}

// sharedServer: the redis holds many foreign keys (raw keys and three other caches), so that a walk of the key space
// takes several SCAN pages, some without any key of the cache under test.
func sharedServerEnum(emit func(*histSpec)) {
	for _, fillers := range []int{12, 25, 60, 150} {
		for _, nk := range []int{2, 5} {
			var ops []opSpec
			for k := 0; k < nk; k++ {
				ops = append(ops, opSpec{Now: 20, Kind: "S", K: k, V: int64(k + 1), HasTTL: true, TTL: 50})
			}
			ops = append(ops, opSpec{Now: 21, Kind: "C"})
			for k := 0; k < nk; k++ {
				ops = append(ops, opSpec{Now: 21, Kind: "G", K: k})
			}
			ops = append(ops, opSpec{Now: 22, Kind: "S", K: 0, V: 9, Mne: true, HasTTL: true, TTL: 5}, opSpec{Now: 22, Kind: "G", K: 0})
			emit(&histSpec{Kind: "rds", Class: "rds-shared", Size: 8, Dttl: 3, NKeys: 6, Segs: []seg{{Ops: ops}}, Fillers: fillers, Bystanders: 3})
		}
	}
}

func main() {
	vh.Main("c05", func(e *vh.Env) {
		redis.SetLogger(quietLogger{})
		restore := cache.VerifSetNow(getClock)
		defer restore()
		emit := func(h *histSpec) {
			switch h.Kind {
			case "rds":
				emitRds(e, h)
			case "rdsh":
				emitRdsHist(e, h)
			default:
				emitMem(e, h)
			}
		}
		if e.Replay != "" {
			var h histSpec
			if err := json.Unmarshal([]byte(e.Replay), &h); err != nil {
				panic(err)
			}
			emit(&h)
			return
		}
		// a focused search keeps the racing classes of the same back-end: a broken tie there shows as a lost one-shot read
		want := func(class string) bool {
			return e.Focus == "" || e.Focus == class ||
				(class == "mem-race" && strings.HasPrefix(e.Focus, "mem-")) || (class == "rds-race" && strings.HasPrefix(e.Focus, "rds-"))
		}
		mult := 1
		if e.Focus != "" {
			mult = 4
		}
		if want("mem-enum") {
			enumMem(emit)
		}
		if want("rds-enum") {
			enumRds(e, emit)
		}
		if want("mem-alias") || want("rds-alias") {
			aliasEnum(emit)
		}
		for _, pv := range []struct {
			p *profile
			n int
		}{{&pMixed, e.Scale(400, 3000)}, {&pLru, e.Scale(200, 1500)}, {&pExpiry, e.Scale(250, 2000)}, {&pOdd, e.Scale(80, 600)}} {
			if !want(pv.p.class) {
				continue
			}
			g := &gen{e: e, p: pv.p}
			for i := 0; i < pv.n*mult; i++ {
				emit(g.history())
			}
		}
		if want("mem-race") {
			for i := 0; i < e.Scale(80, 800)*mult; i++ {
				if e.Search {
					emitIsolated(e, raceHistory(e)) // a lost critical section kills the process: one child per history
				} else {
					emit(raceHistory(e))
				}
			}
		}
		if want("mem-remove-vs-reset") || strings.HasPrefix(e.Focus, "mem-") {
			for i := 0; i < e.Scale(8, 40); i++ {
				emitIsolated(e, removeVsReset(e, e.Scale(6000, 20000)))
			}
		}
		if want("rds-shared") || strings.HasPrefix(e.Focus, "rds-") {
			sharedServerEnum(emit)
			pShared := pRdsRestricted
			pShared.class, pShared.wC, pShared.sizes = "rds-shared", 14, []int64{6, 64}
			g := &gen{e: e, p: &pShared}
			for i := 0; i < e.Scale(40, 400)*mult; i++ {
				h := g.history()
				h.Kind, h.Fillers, h.Bystanders = "rds", []int{15, 40, 90, 200}[e.Rnd.Intn(4)], 3
				emit(h)
			}
		}
		if want("rds-race") {
			for i := 0; i < e.Scale(60, 600)*mult; i++ {
				emit(rdsRaceHistory(e))
			}
		}
		if (e.Thorough || e.Search) && (want("mem-stress") || strings.HasPrefix(e.Focus, "mem-")) {
			for i := 0; i < 12; i++ {
				emitIsolated(e, stressHistory(e, 150))
			}
		}
		if (e.Thorough || e.Search) && want("mem-exh") {
			exhMem(emit)
		}
		for _, pv := range []struct {
			p *profile
			n int
		}{{&pRdsRestricted, e.Scale(300, 2500)}, {&pRdsFree, e.Scale(120, 1000)}} {
			if !want(pv.p.class) {
				continue
			}
			g := &gen{e: e, p: pv.p}
			for i := 0; i < pv.n*mult; i++ {
				h := g.history()
				h.Kind = "rds"
				emit(h)
			}
		}
		e.Meta["key_names"] = keyNames
		e.Meta["classes"] = "mem-enum (exhaustive deadline-1/0/+1 x every operation kind x size 0..2), mem-mixed, mem-lru, mem-expiry, mem-odd (out-of-domain ttls / sizes / clocks), mem-race (goroutines racing on one key), rds-enum, rds-restricted, rds-free, mem-alias / rds-alias (value slices shared between keys: a Get result stored under another key, one payload for several keys, values carved from one arena - then an overwrite; random classes hand over such slices with probability 0.2-0.3), mem-remove-vs-reset (callers hammering Remove / Remove+Set on one key, then a deterministic history at quiescence), rds-shared (redis shared with many foreign keys: SCAN takes several pages, some without own keys), rds-race (callers racing on one key of the redis adapter, commands interleaved by the fake), mem-exh (thorough: all 3-step sequences over 16 letters)"
	})
}

type quietLogger struct{}

func (quietLogger) Printf(ctx context.Context, format string, v ...interface{}) {}
