package main

import "math"

// Untrusted Go transcription of the Coq model (TTL.v / C05_Hist.v) and of the ledger of C05_Rds.v.  It is used only
// to (1) find a witness order for steps executed by racing goroutines, (2) steer the generator towards deadlines and
// the restricted class and (3) label cases for the statistics.  Verdicts come from Coq alone.

type refNode struct {
	k  int
	v  int64
	dl int64
}
type refCache struct {
	size int64
	dttl int64
	l    []refNode // most recently used first
}

const (
	rOk = iota
	rDone
	rExists
	rNotFound
	rFail
)

type result struct {
	kind int
	v    int64
}

func refDeadline(ttl, now int64) int64 {
	if ttl <= 0 {
		return math.MaxInt64
	}
	return now + ttl // int64 wrap, as in Go
}

func (c *refCache) clone() *refCache {
	n := &refCache{size: c.size, dttl: c.dttl, l: append([]refNode{}, c.l...)}
	return n
}
func (c *refCache) find(k int) int {
	for i, n := range c.l {
		if n.k == k {
			return i
		}
	}
	return -1
}
func (c *refCache) erase(k int) {
	out := c.l[:0:0]
	for _, n := range c.l {
		if n.k != k {
			out = append(out, n)
		}
	}
	c.l = out
}

func (c *refCache) step(now int64, o opSpec) result {
	switch o.Kind {
	case "S":
		ttl := c.dttl
		if o.HasTTL {
			ttl = o.TTL
		}
		i := c.find(o.K)
		if i >= 0 && c.l[i].dl < now {
			c.erase(o.K)
			i = -1
		}
		if i >= 0 {
			if o.Mne {
				return result{rExists, 0}
			}
			n := c.l[i]
			n.v = o.V
			if !o.Keep {
				n.dl = refDeadline(ttl, now)
			}
			c.erase(o.K)
			c.l = append([]refNode{n}, c.l...)
			return result{rDone, 0}
		}
		c.l = append([]refNode{{o.K, o.V, refDeadline(ttl, now)}}, c.l...)
		if int64(len(c.l)) > c.size {
			c.l = c.l[:len(c.l)-1]
		}
		return result{rDone, 0}
	case "G":
		i := c.find(o.K)
		if i < 0 {
			return result{rNotFound, 0}
		}
		n := c.l[i]
		if n.dl < now {
			c.erase(o.K)
			return result{rNotFound, 0}
		}
		if o.Rag {
			c.erase(o.K)
			return result{rOk, n.v}
		}
		if o.HasUpd {
			t := o.Upd
			if t == 0 {
				t = c.dttl
			}
			n.dl = refDeadline(t, now)
		}
		c.erase(o.K)
		c.l = append([]refNode{n}, c.l...)
		return result{rOk, n.v}
	case "R":
		c.erase(o.K)
		return result{rDone, 0}
	case "C":
		c.l = nil
		return result{rDone, 0}
	}
	return result{rFail, 0}
}

// ledger of C05_Rds.led_step: false = the step leaves the restricted class
const tmax = 9223372036

func ttlOK(now, t int64) bool {
	return t > 0 && t <= tmax && now+t > now
}

func ledStep(dttl int64, led map[int]int64, now int64, o opSpec) bool {
	switch o.Kind {
	case "S":
		t := dttl
		if o.HasTTL {
			t = o.TTL
		}
		if !ttlOK(now, t) {
			return false
		}
		d, ok := led[o.K]
		if ok && d == now {
			return false
		}
		if ok && now < d {
			if !o.Mne {
				if !o.Keep {
					led[o.K] = now + t
				}
			}
			return true
		}
		if o.Keep && !o.Mne {
			return false
		}
		led[o.K] = now + t
		return true
	case "G":
		if o.HasUpd {
			t := o.Upd
			if t == 0 {
				t = dttl
			}
			if !ttlOK(now, t) {
				return false
			}
		}
		d, ok := led[o.K]
		if !ok {
			return true
		}
		if d == now {
			return false
		}
		if now < d {
			if o.Rag {
				delete(led, o.K)
			} else if o.HasUpd {
				t := o.Upd
				if t == 0 {
					t = dttl
				}
				led[o.K] = now + t
			}
			return true
		}
		delete(led, o.K)
		return true
	case "R":
		delete(led, o.K)
		return true
	case "C":
		for k := range led {
			delete(led, k)
		}
		return true
	}
	return false
}
