package main

import (
	"context"
	"errors"
	"fmt"
	"hash/fnv"
	"net"
	"sort"
	"strconv"
	"strings"
	"sync"

	"github.com/redis/go-redis/v9"
)

// fakeRedis interprets the command stream a real go-redis client emits (the adapter under test only sees a
// redis.Cmdable) against an in-memory table driven by the harness clock (seconds).  Semantics follow the redis
// documentation for the commands the adapter uses; the Coq model C05_Rds.rexec is the same function.
type fent struct {
	val string
	exp int64 // expire-at in ms; 0 = persistent
	has bool  // has an expiry
}

type fakeRedis struct {
	mu    sync.Mutex
	data  map[string]*fent
	cmds  [][]interface{}
	by    map[int][][]interface{} // commands per racing caller
	now   func() int64
	latch *latch
}

// racerKey tags the context of a racing caller; the fake serves every racer's first command before any racer's second
// (a forced interleaving: a non-atomic read-then-delete is exposed, an atomic GETDEL is not affected).
type racerKey struct{}

type latch struct {
	mu   sync.Mutex
	n    int
	seen map[int]bool
	ch   chan struct{}
}

func newLatch(n int) *latch { return &latch{n: n, seen: map[int]bool{}, ch: make(chan struct{})} }

// arrive marks the caller's first command as served; wait=true blocks until every caller has got that far
func (l *latch) arrive(id int, wait bool) {
	l.mu.Lock()
	first := !l.seen[id]
	if first {
		l.seen[id] = true
		l.n--
		if l.n == 0 {
			close(l.ch)
		}
	}
	l.mu.Unlock()
	if first && wait {
		<-l.ch
	}
}

func newFakeRedis(now func() int64) (*fakeRedis, *redis.Client) {
	f := &fakeRedis{data: map[string]*fent{}, now: now}
	cl := redis.NewClient(&redis.Options{Addr: "203.0.113.1:1", MaxRetries: -1})
	cl.AddHook(fakeHook{f})
	return f, cl
}

type fakeHook struct{ f *fakeRedis }

func (h fakeHook) DialHook(next redis.DialHook) redis.DialHook {
	return func(ctx context.Context, network, addr string) (net.Conn, error) {
		return nil, errors.New("fake redis: no network")
	}
}
func (h fakeHook) ProcessHook(next redis.ProcessHook) redis.ProcessHook {
	return func(ctx context.Context, cmd redis.Cmder) error {
		id, racing := ctx.Value(racerKey{}).(int)
		err := h.f.process(cmd, id, racing)
		if l := h.f.latch; racing && l != nil {
			l.arrive(id, true)
		}
		return err
	}
}
func (h fakeHook) ProcessPipelineHook(next redis.ProcessPipelineHook) redis.ProcessPipelineHook {
	return func(ctx context.Context, cmds []redis.Cmder) error {
		for _, c := range cmds {
			if err := h.f.process(c, 0, false); err != nil && err != redis.Nil {
				return err
			}
		}
		return nil
	}
}

func (f *fakeRedis) take() [][]interface{} {
	f.mu.Lock()
	defer f.mu.Unlock()
	c := f.cmds
	f.cmds = nil
	return c
}

func argStr(a interface{}) (string, bool) {
	switch x := a.(type) {
	case string:
		return x, true
	case []byte:
		return string(x), true
	}
	return "", false
}
func argInt(a interface{}) (int64, bool) {
	switch x := a.(type) {
	case int64:
		return x, true
	case int:
		return int64(x), true
	case uint64:
		return int64(x), true
	case string:
		n, err := strconv.ParseInt(x, 10, 64)
		return n, err == nil
	}
	return 0, false
}

// live purges the entry when its expiry has passed and reports whether the key is visible
func (f *fakeRedis) live(k string) *fent {
	e := f.data[k]
	if e == nil {
		return nil
	}
	if e.has && f.now()*1000 >= e.exp {
		delete(f.data, k)
		return nil
	}
	return e
}

func fail(cmd redis.Cmder, msg string) error {
	err := errors.New(msg)
	cmd.SetErr(err)
	return err
}

func (f *fakeRedis) process(cmd redis.Cmder, id int, racing bool) error {
	f.mu.Lock()
	defer f.mu.Unlock()
	args := cmd.Args()
	var rec *[]interface{}
	if racing {
		if f.by == nil {
			f.by = map[int][][]interface{}{}
		}
		f.by[id] = append(f.by[id], append([]interface{}{}, args...))
		rec = &f.by[id][len(f.by[id])-1]
	} else {
		f.cmds = append(f.cmds, append([]interface{}{}, args...))
		rec = &f.cmds[len(f.cmds)-1]
	}
	if len(args) == 0 {
		return fail(cmd, "ERR empty command")
	}
	name, _ := argStr(args[0])
	nowMs := f.now() * 1000
	switch strings.ToLower(name) {
	case "set":
		if len(args) < 3 {
			return fail(cmd, "ERR wrong number of arguments for 'set' command")
		}
		k, _ := argStr(args[1])
		v, _ := argStr(args[2])
		var hasExp, keep, nx bool
		var exp int64
		for i := 3; i < len(args); i++ {
			w, _ := argStr(args[i])
			switch strings.ToLower(w) {
			case "px", "ex":
				if i+1 >= len(args) {
					return fail(cmd, "ERR syntax error")
				}
				n, ok := argInt(args[i+1])
				if !ok {
					return fail(cmd, "ERR value is not an integer or out of range")
				}
				if n <= 0 {
					return fail(cmd, "ERR invalid expire time in 'set' command")
				}
				hasExp = true
				if strings.ToLower(w) == "px" {
					exp = nowMs + n
				} else {
					exp = (f.now() + n) * 1000
				}
				i++
			case "keepttl":
				keep = true
			case "nx":
				nx = true
			default:
				return fail(cmd, "ERR syntax error")
			}
		}
		old := f.live(k)
		if nx && old != nil {
			switch c := cmd.(type) {
			case *redis.BoolCmd:
				c.SetVal(false)
				return nil
			default:
				cmd.SetErr(redis.Nil)
				return redis.Nil
			}
		}
		ne := &fent{val: v}
		if hasExp {
			ne.has, ne.exp = true, exp
		} else if keep && old != nil {
			ne.has, ne.exp = old.has, old.exp
		}
		f.data[k] = ne
		switch c := cmd.(type) {
		case *redis.BoolCmd:
			c.SetVal(true)
		case *redis.StatusCmd:
			c.SetVal("OK")
		}
		return nil
	case "setnx":
		if len(args) != 3 {
			return fail(cmd, "ERR wrong number of arguments for 'setnx' command")
		}
		k, _ := argStr(args[1])
		v, _ := argStr(args[2])
		ok := f.live(k) == nil
		if ok {
			f.data[k] = &fent{val: v}
		}
		if c, is := cmd.(*redis.BoolCmd); is {
			c.SetVal(ok)
		}
		return nil
	case "get", "getdel":
		if len(args) != 2 {
			return fail(cmd, "ERR wrong number of arguments")
		}
		k, _ := argStr(args[1])
		e := f.live(k)
		if e == nil {
			cmd.SetErr(redis.Nil)
			return redis.Nil
		}
		if strings.ToLower(name) == "getdel" {
			delete(f.data, k)
		}
		if c, is := cmd.(*redis.StringCmd); is {
			c.SetVal(e.val)
		}
		return nil
	case "expire":
		if len(args) != 3 {
			return fail(cmd, "ERR wrong number of arguments for 'expire' command")
		}
		k, _ := argStr(args[1])
		n, ok := argInt(args[2])
		if !ok {
			return fail(cmd, "ERR value is not an integer or out of range")
		}
		e := f.live(k)
		res := false
		if e != nil {
			res = true
			if n <= 0 {
				delete(f.data, k)
			} else {
				e.has, e.exp = true, (f.now()+n)*1000
			}
		}
		if c, is := cmd.(*redis.BoolCmd); is {
			c.SetVal(res)
		}
		return nil
	case "del":
		var n int64
		for _, a := range args[1:] {
			k, _ := argStr(a)
			if f.live(k) != nil {
				n++
			}
			delete(f.data, k)
		}
		if c, is := cmd.(*redis.IntCmd); is {
			c.SetVal(n)
		}
		return nil
	case "scan":
		// as in redis: walk the WHOLE key space in a fixed order, COUNT (default 10) raw keys per call, apply MATCH
		// (and expiry) afterwards - a page can be partial or empty - and answer cursor 0 only at the end of the walk.
		// The cursor is a position in the order (not an index), so deletions between pages skip nothing.
		if len(args) < 2 {
			return fail(cmd, "ERR wrong number of arguments for 'scan' command")
		}
		cur, ok := argInt(args[1])
		if !ok {
			return fail(cmd, "ERR invalid cursor")
		}
		pat, count := "*", int64(10)
		for i := 2; i+1 < len(args); i += 2 {
			w, _ := argStr(args[i])
			switch strings.ToLower(w) {
			case "match":
				pat, _ = argStr(args[i+1])
			case "count":
				if n, ok := argInt(args[i+1]); ok && n > 0 {
					count = n
				}
			}
		}
		type hk struct {
			h uint64
			k string
		}
		var all []hk
		for k := range f.data {
			all = append(all, hk{scanPos(k), k})
		}
		sort.Slice(all, func(i, j int) bool { return all[i].h < all[j].h || (all[i].h == all[j].h && all[i].k < all[j].k) })
		keys := []string{}
		var next uint64
		seen := int64(0)
		for i, x := range all {
			if x.h < uint64(cur) {
				continue
			}
			if seen >= count && x.h != all[i-1].h {
				next = x.h
				break
			}
			seen++
			if f.live(x.k) != nil && globMatch(pat, x.k) {
				keys = append(keys, x.k)
			}
		}
		if c, is := cmd.(*redis.ScanCmd); is {
			c.SetVal(keys, next)
		}
		*rec = append(*rec, scanNext(next))
		return nil
	}
	return fail(cmd, fmt.Sprintf("ERR unknown command '%s'", name))
}

// scanNext is appended to the recorded argument vector of a SCAN: the cursor the fake answered
type scanNext uint64

// scanPos is the position of a key in the fake's iteration order (never 0: cursor 0 means "from the start")
func scanPos(k string) uint64 {
	h := fnv.New32a()
	h.Write([]byte(k))
	return uint64(h.Sum32()) + 1
}

// globMatch: only the forms the adapter can produce (literal prefix followed by one '*', or a literal)
func globMatch(pat, s string) bool {
	if i := strings.IndexByte(pat, '*'); i >= 0 && i == len(pat)-1 {
		return strings.HasPrefix(s, pat[:i])
	}
	return pat == s
}
