package main

import (
	"fmt"
	"math"
	"strings"
	"time"

	"github.com/pinealctx/neptune/idgen/snowflake"
	"verifharness/vh"
)

// ---- Setup(UseEpoch / UseNodeMode / NodeAtLowest): which layouts can be configured at all ----

type setupOpt struct {
	Kind string `json:"kind"` // epoch | mode | lowest
	V    int64  `json:"v"`
}

type setupSpec struct {
	Epoch  int64      `json:"epoch"`
	NB     uint8      `json:"nb"`
	Lowest bool       `json:"lowest"`
	Opts   []setupOpt `json:"opts"`
}

func runSetup(sp setupSpec) vh.Case {
	restore := snowflake.VerifSetConfig(sp.Epoch, sp.NB, sp.Lowest)
	defer restore()
	var opts []snowflake.Option
	var coq []string
	for _, o := range sp.Opts {
		switch o.Kind {
		case "epoch":
			opts = append(opts, snowflake.UseEpoch(time.UnixMilli(o.V)))
			coq = append(coq, "OEpoch "+z(o.V))
		case "mode":
			opts = append(opts, snowflake.UseNodeMode(snowflake.NodeBitsMode(uint8(o.V))))
			coq = append(coq, "ONodeMode "+z(int64(uint8(o.V))))
		default:
			opts = append(opts, snowflake.NodeAtLowest())
			coq = append(coq, "OLowest")
		}
	}
	snowflake.Setup(opts...)
	pe, _, _ := snowflake.IDParse(0)
	t1, n1, s1 := snowflake.IDFields(math.MaxInt64)
	t2, n2, s2 := snowflake.IDFields(1)
	term := fmt.Sprintf("(CSetup %s [%s] %s (%s,%s,%s) (%s,%s,%s))%%Z", coqCfg(sp.Epoch, sp.NB, sp.Lowest),
		strings.Join(coq, ";"), z(pe), z(t1), z(n1), z(s1), z(t2), z(n2), z(s2))
	desc := map[string]interface{}{"generator": "Setup", "before": []interface{}{sp.Epoch, sp.NB, sp.Lowest}, "options": sp.Opts,
		"IDParse(0).time": pe, "IDFields(MaxInt64)": []int64{t1, n1, s1}, "IDFields(1)": []int64{t2, n2, s2}}
	return vh.Case{Coq: term, Desc: desc, Class: "setup", Nontrivial: len(sp.Opts) > 0,
		Replay: replayArg(replaySpec{Kind: "setup", Setup: &sp})}
}

func genSetup(e *vh.Env, st *stats, boost int) {
	r := e.Rnd
	n := e.Scale(60, 400) * boost
	for i := 0; i < n; i++ {
		ep, nb, low := pickLayout(r)
		var opts []setupOpt
		for j := r.Intn(5); j > 0; j-- {
			switch r.Intn(3) {
			case 0:
				opts = append(opts, setupOpt{"epoch", []int64{0, 1609430400000, -1, r.Int63n(1 << 45), math.MaxInt64, math.MinInt64}[r.Intn(6)]})
			case 1:
				opts = append(opts, setupOpt{"mode", []int64{8, 9, 10, 0, 7, 11, 12, 255, int64(r.Intn(256))}[r.Intn(9)]})
			default:
				opts = append(opts, setupOpt{"lowest", 0})
			}
		}
		sink(runSetup(setupSpec{Epoch: ep, NB: nb, Lowest: low, Opts: opts}))
		st.add("setup_cases", 1)
	}
}
