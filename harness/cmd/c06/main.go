// Command c06 is the correspondence harness of property C06 (id generators: unique, strictly
// increasing under any clock history).  It drives the real snowflake.HardNode (scripted wall clock
// through the verif hook), snowflake.MonoNode (real monotonic clock) and nano.UnixNanoID of the
// tree under test and prints one Coq term of type C06_Check.case per observed history.
package main

import (
	"encoding/json"
	"fmt"
	"math"
	"math/big"
	"os"
	"sort"
	"strings"

	"verifharness/vh"
)

// ---- Coq printing (every case term is wrapped in ( ... )%Z) ----

func z(v int64) string {
	if v < 0 {
		return fmt.Sprintf("(%d)", v)
	}
	return fmt.Sprintf("%d", v)
}

func coqCfg(epoch int64, nb uint8, lowest bool) string {
	return fmt.Sprintf("(Build_cfg %s %d %s)", z(epoch), nb, vh.CoqBool(lowest))
}

type obs struct{ ID, T, N, S int64 }

// difference a - b as a Coq numeral (exact: the difference of two int64 may not fit an int64)
func zdiff(a, b int64) string {
	d := new(big.Int).Sub(big.NewInt(a), big.NewInt(b))
	if d.Sign() < 0 {
		return "(" + d.String() + ")"
	}
	return d.String()
}

// transport encoding (see C06_Check.v): every list element is printed as the difference to its predecessor
func coqObsLists(per [][]obs) string {
	out := make([]string, len(per))
	for i, l := range per {
		s := make([]string, len(l))
		var pid, pt int64
		for j, o := range l {
			s[j] = "O4 " + zdiff(o.ID, pid) + " " + zdiff(o.T, pt) + " " + z(o.N) + " " + z(o.S)
			pid, pt = o.ID, o.T
		}
		out[i] = "[" + strings.Join(s, ";") + "]"
	}
	return "[" + strings.Join(out, ";") + "]"
}

func coqDeltas(xs []int64) string {
	s := make([]string, len(xs))
	var p int64
	for i, x := range xs {
		s[i] = zdiff(x, p)
		p = x
	}
	return "[" + strings.Join(s, ";") + "]"
}

func coqPairLists(per [][][2]int64) string {
	out := make([]string, len(per))
	for i, l := range per {
		s := make([]string, len(l))
		var pts, pid int64
		for j, p := range l {
			s[j] = "P2 " + zdiff(p[0], pts) + " " + zdiff(p[1], pid)
			pts, pid = p[0], p[1]
		}
		out[i] = "[" + strings.Join(s, ";") + "]"
	}
	return "[" + strings.Join(out, ";") + "]"
}

func coqOwners(o []int) string {
	if len(o) == 0 {
		return "[]"
	}
	s := make([]string, len(o))
	for i, x := range o {
		s[i] = fmt.Sprintf("%d", x)
	}
	return "[" + strings.Join(s, ";") + "]%nat"
}

// owner witness: the lock order is the id order (ids of one generator are issued increasing); ties (possible
// only when the implementation is broken) are resolved by caller index.  For one caller the witness is empty.
type tagged struct {
	id  int64
	g   int
	pos int
}

func ownersOf(ids [][]int64) []int {
	if len(ids) <= 1 {
		return nil
	}
	var all []tagged
	for g, l := range ids {
		for p, id := range l {
			all = append(all, tagged{id, g, p})
		}
	}
	sort.SliceStable(all, func(i, j int) bool {
		if all[i].id != all[j].id {
			return all[i].id < all[j].id
		}
		if all[i].g != all[j].g {
			return all[i].g < all[j].g
		}
		return all[i].pos < all[j].pos
	})
	o := make([]int, len(all))
	for i, t := range all {
		o[i] = t.g
	}
	return o
}

// run-length encoded clock script
type rle [][2]int64

func (r rle) expand() []int64 {
	var out []int64
	for _, p := range r {
		for i := int64(0); i < p[1]; i++ {
			out = append(out, p[0])
		}
	}
	return out
}
func (r rle) count() int {
	n := 0
	for _, p := range r {
		n += int(p[1])
	}
	return n
}
func (r *rle) add(v int64, n int) {
	if n <= 0 {
		return
	}
	if l := len(*r); l > 0 && (*r)[l-1][0] == v {
		(*r)[l-1][1] += int64(n)
		return
	}
	*r = append(*r, [2]int64{v, int64(n)})
}

func head(xs []int64, n int) []int64 {
	if len(xs) <= n {
		return xs
	}
	return xs[:n]
}
func tail(xs []int64, n int) []int64 {
	if len(xs) <= n {
		return xs
	}
	return xs[len(xs)-n:]
}

// saturating helpers for generators
func addSat(a, b int64) int64 {
	if b > 0 && a > math.MaxInt64-b {
		return math.MaxInt64
	}
	if b < 0 && a < math.MinInt64-b {
		return math.MinInt64
	}
	return a + b
}

type replaySpec struct {
	Kind   string      `json:"kind"`
	Hard   *hardSpec   `json:"hard,omitempty"`
	Mono   *monoSpec   `json:"mono,omitempty"`
	Nano   *nanoSpec   `json:"nano,omitempty"`
	Setup  *setupSpec  `json:"setup,omitempty"`
	Stress *stressSpec `json:"stress,omitempty"`
}

func replayArg(r replaySpec) string {
	b, _ := json.Marshal(r)
	if len(b) > 100000 {
		return ""
	}
	return string(b)
}

var sink func(vh.Case)

func main() {
	vh.Main("c06", func(e *vh.Env) {
		st := newStats()
		if e.Replay != "" {
			var r replaySpec
			if err := json.Unmarshal([]byte(e.Replay), &r); err != nil {
				fmt.Fprintln(os.Stderr, "bad replay argument:", err)
				os.Exit(2)
			}
			switch {
			case r.Hard != nil:
				c, _ := runHard(*r.Hard, st)
				e.Emit(c)
			case r.Mono != nil:
				e.Emit(runMono(*r.Mono, st))
			case r.Nano != nil:
				e.Emit(runNano(*r.Nano, st))
			case r.Setup != nil:
				e.Emit(runSetup(*r.Setup))
			case r.Stress != nil:
				e.Emit(runStress(*r.Stress, st))
			}
			return
		}
		want := func(fam string) int {
			// violation search: concentrate on the family of the class that diverged
			if e.Search && e.Focus != "" {
				if strings.HasPrefix(e.Focus, fam) {
					return 3
				}
				return 1
			}
			return 1
		}
		// collect, then spread the few very long histories evenly among the short ones, so that the case files the
		// driver compiles in parallel have similar sizes (order carries no meaning)
		var buf []vh.Case
		sink = func(c vh.Case) { buf = append(buf, c) }
		genHard(e, st, want("hard"))
		genMono(e, st, want("mono"))
		genNano(e, st, want("nano"))
		genSetup(e, st, want("setup"))
		genStress(e, st, want("stress"))
		genAudit(e)
		var heavy, light []vh.Case
		for _, c := range buf {
			if len(c.Coq) > 40000 {
				heavy = append(heavy, c)
			} else {
				light = append(light, c)
			}
		}
		gap := len(light) + 1
		if len(heavy) > 0 {
			gap = len(light)/len(heavy) + 1
		}
		h := 0
		for i, c := range light {
			if i%gap == 0 && h < len(heavy) {
				e.Emit(heavy[h])
				h++
			}
			e.Emit(c)
		}
		for ; h < len(heavy); h++ {
			e.Emit(heavy[h])
		}
		st.export(e)
	})
}
