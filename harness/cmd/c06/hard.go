package main

import (
	"fmt"
	"math"
	"math/big"
	"math/rand"
	"runtime"
	"sync"
	"sync/atomic"
	"time"

	"github.com/pinealctx/neptune/idgen/snowflake"
	"verifharness/vh"
)

// ---- measured facts about what was generated (evidence, never a verdict) ----

type stats struct {
	mu sync.Mutex
	m  map[string]int64
}

func newStats() *stats { return &stats{m: map[string]int64{}} }
func (s *stats) add(k string, n int64) {
	s.mu.Lock()
	s.m[k] += n
	s.mu.Unlock()
}
func (s *stats) export(e *vh.Env) {
	for k, v := range s.m {
		e.Meta[k] = v
	}
}

// ---- one HardNode history ----

type hardSpec struct {
	Class  string `json:"class"`
	Epoch  int64  `json:"epoch"`
	NB     uint8  `json:"nb"`
	Lowest bool   `json:"lowest"`
	Node   int64  `json:"node"`
	Min    int64  `json:"min"`
	Clock  rle    `json:"clock"` // absolute wall-clock readings in ms, run-length encoded
	G      int    `json:"g"`     // concurrent callers (<= 1: sequential)
}

func limitOf(nb uint8) int64 { return int64(1) << (51 - uint(nb)) }

// in the representable range? (labelling only; the guard that counts is hard_dom in Coq)
func hardInDomain(sp hardSpec, minT, minS int64, clocks []int64) bool {
	if minT < 0 {
		return false
	}
	lim := new(big.Int).Lsh(big.NewInt(1), 63-uint(sp.NB))
	b := new(big.Int).Mul(big.NewInt(minT), big.NewInt(4096))
	b.Add(b, big.NewInt(minS))
	ep := big.NewInt(sp.Epoch)
	lo := new(big.Int).Neg(new(big.Int).Lsh(big.NewInt(1), 63))
	for _, k := range clocks {
		d := new(big.Int).Sub(big.NewInt(k), ep)
		if d.Cmp(lo) < 0 {
			return false
		}
		d.Mul(d, big.NewInt(4096))
		if d.Cmp(b) > 0 {
			b = d
		}
	}
	b.Add(b, big.NewInt(int64(len(clocks))))
	return b.Cmp(lim) < 0
}

func runHard(sp hardSpec, st *stats) (vh.Case, []int64) {
	restoreCfg := snowflake.VerifSetConfig(sp.Epoch, sp.NB, sp.Lowest)
	defer restoreCfg()
	clocks := sp.Clock.expand()
	var idx int64
	restoreNow := snowflake.VerifSetNow(func() time.Time {
		i := atomic.AddInt64(&idx, 1) - 1
		if i >= int64(len(clocks)) {
			i = int64(len(clocks)) - 1
		}
		if sp.G > 1 && i%3 != 2 {
			// schedule forcing: the hook runs inside Generate between the lock and the state update; yielding here is
			// harmless while the caller holds the node mutex and exposes every unprotected read-modify-write
			runtime.Gosched()
		}
		return time.UnixMilli(clocks[i])
	})
	defer restoreNow()

	mt, mn, ms := snowflake.IDFields(sp.Min)
	node, err := snowflake.NewNode(sp.Node, sp.Min)
	g := sp.G
	if g < 1 {
		g = 1
	}
	per := make([][]int64, g)
	panicked := ""
	var pmu sync.Mutex
	if err == nil && len(clocks) > 0 {
		if g == 1 {
			func() {
				defer func() {
					if r := recover(); r != nil {
						panicked = fmt.Sprint(r)
					}
				}()
				for range clocks {
					per[0] = append(per[0], node.Generate())
				}
			}()
		} else {
			var wg sync.WaitGroup
			start := make(chan struct{})
			n := len(clocks)
			for w := 0; w < g; w++ {
				cnt := n / g
				if w < n%g {
					cnt++
				}
				wg.Add(1)
				go func(w, cnt int) {
					defer wg.Done()
					out := make([]int64, 0, cnt)
					defer func() {
						if r := recover(); r != nil {
							pmu.Lock()
							panicked = fmt.Sprint(r)
							pmu.Unlock()
						}
						per[w] = out
					}()
					<-start
					for i := 0; i < cnt; i++ {
						out = append(out, node.Generate())
					}
				}(w, cnt)
			}
			close(start)
			wg.Wait()
		}
	}
	// decode with the real IDFields (layout still in force)
	perObs := make([][]obs, g)
	var all []int64
	for w := range per {
		perObs[w] = make([]obs, len(per[w]))
		for i, id := range per[w] {
			t, n, s := snowflake.IDFields(id)
			perObs[w][i] = obs{id, t, n, s}
		}
		all = append(all, per[w]...)
	}
	owners := ownersOf(per)
	inDom := err == nil && hardInDomain(sp, mt, ms, clocks)

	// advisory: first clause the observed ids break, for the human reader of a replay
	note := ""
	if err == nil && g == 1 && inDom {
		prev := int64(math.MinInt64)
		if sp.Min >= 0 && mn == sp.Node {
			prev = sp.Min
		}
		for i, o := range perObs[0] {
			switch {
			case o.ID <= prev:
				note = fmt.Sprintf("call %d: id %d is not above the previous id %d", i, o.ID, prev)
			case o.T < clocks[i]-sp.Epoch:
				note = fmt.Sprintf("call %d: time field %d is before the clock reading %d (ms after epoch)", i, o.T, clocks[i]-sp.Epoch)
			case o.N != sp.Node:
				note = fmt.Sprintf("call %d: node field %d differs from the configured node %d", i, o.N, sp.Node)
			}
			if note != "" {
				break
			}
			prev = o.ID
		}
	}
	if panicked != "" {
		note = "Generate panicked: " + panicked
	}
	// measured generator facts
	if err == nil && g == 1 {
		for i := 1; i < len(perObs[0]); i++ {
			a, b := perObs[0][i-1], perObs[0][i]
			if a.S == 4095 && b.S == 0 && clocks[i]-sp.Epoch <= a.T {
				st.add("hard_step_wraps_with_carry", 1)
			}
			if clocks[i] < clocks[i-1] {
				st.add("hard_clock_steps_back", 1)
			}
			if clocks[i] == clocks[i-1] {
				st.add("hard_clock_stalls", 1)
			}
		}
	}
	st.add("hard_ids", int64(len(all)))

	coq := fmt.Sprintf("(CHard %s %s %s (%s,%s,%s) %s %s %s %s)%%Z",
		coqCfg(sp.Epoch, sp.NB, sp.Lowest), z(sp.Node), z(sp.Min), z(mt), z(mn), z(ms),
		coqDeltas(clocks), vh.CoqBool(err != nil), coqOwners(owners), coqObsLists(perObs))
	if err != nil {
		coq = fmt.Sprintf("(CHard %s %s %s (%s,%s,%s) %s true [] [])%%Z",
			coqCfg(sp.Epoch, sp.NB, sp.Lowest), z(sp.Node), z(sp.Min), z(mt), z(mn), z(ms), coqDeltas(clocks))
	}
	clk := sp.Clock
	if len(clk) > 24 {
		clk = clk[:24]
	}
	desc := map[string]interface{}{
		"generator": "HardNode", "epoch_ms": sp.Epoch, "node_bits": sp.NB, "node_at_lowest": sp.Lowest, "node": sp.Node,
		"restart_id": sp.Min, "restart_id_fields": []int64{mt, mn, ms}, "callers": g, "calls": len(clocks),
		"clock_ms_runs(value,count)": clk, "ids_first": head(all, 6), "ids_last": tail(all, 3),
		"newnode_error": err != nil, "in_representable_range": inDom,
	}
	if note != "" {
		desc["note"] = note
	}
	c := vh.Case{Coq: coq, Desc: desc, Class: sp.Class, Nontrivial: inDom && len(all) >= 2,
		Replay: replayArg(replaySpec{Kind: "hard", Hard: &sp})}
	return c, all
}

// ---- clock trajectories ----

// a trajectory of n readings around `base` (absolute ms), kept below `hi` (absolute ms) when hi > base
func genClock(r *rand.Rand, base int64, n int, hi int64) rle {
	var out rle
	cur := base
	clamp := func(v int64) int64 {
		if v >= hi {
			return hi - 1 - int64(r.Intn(3))
		}
		return v
	}
	left := n
	for left > 0 {
		k := 1
		switch r.Intn(10) {
		case 0, 1: // stall
			k = []int{2, 3, 5, 17, 60, 200}[r.Intn(6)]
			if k > left {
				k = left
			}
			out.add(cur, k)
		case 2: // tick forward one ms per call
			k = 1 + r.Intn(8)
			if k > left {
				k = left
			}
			for i := 0; i < k; i++ {
				cur = clamp(addSat(cur, 1))
				out.add(cur, 1)
			}
		case 3: // step forward
			d := []int64{1, 2, 7, 1000, 86400000, 31536000000}[r.Intn(6)]
			cur = clamp(addSat(cur, d))
			out.add(cur, 1)
		case 4, 5: // step back
			d := []int64{1, 1, 2, 7, 1000, 86400000, 31536000000 * 60}[r.Intn(7)]
			cur = addSat(cur, -d)
			out.add(cur, 1)
		case 6: // alternate between two readings
			k = 2 + r.Intn(6)
			if k > left {
				k = left
			}
			a, b := cur, addSat(cur, int64(r.Intn(5))-2)
			for i := 0; i < k; i++ {
				if i%2 == 0 {
					out.add(clamp(a), 1)
				} else {
					out.add(clamp(b), 1)
				}
			}
		case 7: // jitter
			k = 1 + r.Intn(10)
			if k > left {
				k = left
			}
			for i := 0; i < k; i++ {
				out.add(clamp(addSat(cur, int64(r.Intn(7))-3)), 1)
			}
		default: // single reading at the current value
			out.add(cur, 1)
		}
		left = n - out.count()
	}
	return out
}

var epochs = []int64{1609430400000, 0, 1305072000000, -1000000000000, 9000000000000, 1, 4102444800000}

func pickLayout(r *rand.Rand) (int64, uint8, bool) {
	ep := epochs[r.Intn(len(epochs))]
	if r.Intn(4) == 0 {
		ep = r.Int63n(4000000000000)
	}
	return ep, uint8(8 + r.Intn(3)), r.Intn(2) == 0
}

func pickNode(r *rand.Rand, nb uint8) int64 {
	max := int64(1)<<nb - 1
	switch r.Intn(5) {
	case 0:
		return 0
	case 1:
		return max
	case 2:
		return 1
	}
	return r.Int63n(max + 1)
}

// compose an id as this layout would (harness side, for seeding restarts at chosen (time, step))
func compose(nb uint8, lowest bool, t, node, step int64) int64 {
	if lowest {
		return t<<(uint(nb)+12) | step<<uint(nb) | node
	}
	return t<<(uint(nb)+12) | node<<12 | step
}

func genHard(e *vh.Env, st *stats, boost int) {
	r := e.Rnd
	emit := func(sp hardSpec) []int64 {
		c, ids := runHard(sp, st)
		sink(c)
		return ids
	}
	// relative starting points (ms after the epoch) the code branches on
	relBase := func(nb uint8) int64 {
		lim := limitOf(nb)
		switch r.Intn(8) {
		case 0:
			return 0
		case 1:
			return int64(r.Intn(1000))
		case 2:
			return -int64(r.Intn(1000)) - 1 // clock before the epoch
		case 3:
			return lim - 1 - int64(r.Intn(2000)) - 70*31536000000/100 // far, still inside
		case 4:
			return lim/2 + r.Int63n(lim/4)
		}
		return 150000000000 + r.Int63n(100000000000) // a few years after the epoch
	}

	// (0) deterministic: the node numbers around the top of every width, both node positions.  Whatever NewNode accepts is
	// driven through a stalled and then ticking clock starting at an even millisecond (an extra node bit would collide
	// with bit 0 of the time field or of the step field) and checked like any other node
	for _, nb := range []uint8{8, 9, 10} {
		for _, low := range []bool{false, true} {
			top := int64(1)<<nb - 1
			for _, node := range []int64{top - 1, top, top + 1, top + 2} {
				ep := int64(1609430400000)
				t := ep + 180000000000
				var clk rle
				clk.add(t, 6)
				for i := int64(1); i <= 8; i++ {
					clk.add(t+i, 1)
				}
				clk.add(t+8, 3)
				emit(hardSpec{Class: "hard/node-boundary", Epoch: ep, NB: nb, Lowest: low, Node: node, Min: 0, Clock: clk})
			}
		}
	}

	// (1) sequential trajectories, all six layouts
	n1 := e.Scale(140, 900) * boost
	for i := 0; i < n1; i++ {
		ep, nb, low := pickLayout(r)
		node := pickNode(r, nb)
		rel := relBase(nb)
		n := 2 + r.Intn(e.Scale(260, 400))
		hi := addSat(ep, limitOf(nb)-int64(n/4096)-2)
		clk := genClock(r, addSat(ep, rel), n, hi)
		cls := "hard/seq"
		if low {
			cls = "hard/seq-lowest"
		}
		emit(hardSpec{Class: cls, Epoch: ep, NB: nb, Lowest: low, Node: node, Min: 0, Clock: clk})
	}

	// (2) step wrap: seeded just below the wrap (an id this node could have issued) with the clock at or behind it
	n2 := e.Scale(60, 400) * boost
	for i := 0; i < n2; i++ {
		ep, nb, low := pickLayout(r)
		node := pickNode(r, nb)
		t := 1 + r.Int63n(limitOf(nb)/2)
		step := int64(4095 - r.Intn(6))
		min := compose(nb, low, t, node, step)
		n := 8 + r.Intn(40)
		var clk rle
		switch r.Intn(4) {
		case 0: // stalled exactly at the seeded millisecond
			clk.add(ep+t, n)
		case 1: // behind
			clk.add(ep+t-1-int64(r.Intn(5000)), n)
		case 2: // trajectory around it
			clk = genClock(r, ep+t-int64(r.Intn(3)), n, addSat(ep, limitOf(nb)-2))
		default: // catches up in the middle of the wrap
			clk.add(ep+t, n/2)
			clk.add(ep+t+1, 1)
			clk.add(ep+t, n-n/2-1)
		}
		emit(hardSpec{Class: "hard/wrap-seeded", Epoch: ep, NB: nb, Lowest: low, Node: node, Min: min, Clock: clk})
	}
	// full stalls crossing 4096 (and 8192) from a fresh node
	n3 := e.Scale(2, 12) * boost
	for i := 0; i < n3; i++ {
		ep, nb, low := pickLayout(r)
		node := pickNode(r, nb)
		rel := 1000 + r.Int63n(1000000)
		var clk rle
		switch i % 3 {
		case 0:
			clk.add(ep+rel, 4096+5+r.Intn(50))
		case 1: // step back once, then stall across the wrap
			clk.add(ep+rel, 3)
			clk.add(ep+rel-1000, 4096+20)
		default: // two wraps in a row, then the clock catches up by one ms only
			clk.add(ep+rel, 8192+7)
			clk.add(ep+rel+1, 5)
			clk.add(ep+rel+3, 5)
		}
		emit(hardSpec{Class: "hard/wrap-stall", Epoch: ep, NB: nb, Lowest: low, Node: node, Min: 0, Clock: clk})
	}

	// (3) restart chains: NewNode(node, last id issued), with the clock continuing, stalled, or set back
	n4 := e.Scale(50, 300) * boost
	for i := 0; i < n4; i++ {
		ep, nb, low := pickLayout(r)
		node := pickNode(r, nb)
		rel := relBase(nb)
		if rel < 0 {
			rel = 5
		}
		cur := addSat(ep, rel)
		hi := addSat(ep, limitOf(nb)-4)
		var min int64
		depth := 2 + r.Intn(3)
		for d := 0; d < depth; d++ {
			n := 1 + r.Intn(40)
			var clk rle
			switch r.Intn(4) {
			case 0: // stalled where the previous incarnation stopped
				clk.add(cur, n)
			case 1: // the wall clock was set back before the restart
				cur = addSat(cur, -1-int64(r.Intn(100000)))
				clk = genClock(r, cur, n, hi)
			default:
				clk = genClock(r, cur, n, hi)
			}
			ids := emit(hardSpec{Class: "hard/restart", Epoch: ep, NB: nb, Lowest: low, Node: node, Min: min, Clock: clk})
			if len(ids) == 0 {
				break
			}
			min = ids[len(ids)-1]
			cur = clk[len(clk)-1][0]
		}
	}

	// (4) far future: instants after 2262 (int64 nanoseconds overflow) that the layout can still represent
	n5 := e.Scale(30, 200) * boost
	for i := 0; i < n5; i++ {
		_, nb, low := pickLayout(r)
		node := pickNode(r, nb)
		var ep, abs int64
		if i%2 == 0 {
			// 8-bit layout, early epoch, clock between 2262 and the end of the 43-bit range
			nb = 8
			ep = []int64{1305072000000, 1609430400000, 946684800000}[r.Intn(3)]
			abs = 9223372036855 + r.Int63n(ep+limitOf(nb)-9223372036855-1000)
		} else {
			// any layout with an epoch beyond 2262
			ep = 9223372036855 + r.Int63n(3000000000000)
			abs = ep + r.Int63n(limitOf(nb)-1000)
		}
		n := 2 + r.Intn(30)
		clk := genClock(r, abs, n, addSat(ep, limitOf(nb)-2))
		emit(hardSpec{Class: "hard/after-2262", Epoch: ep, NB: nb, Lowest: low, Node: node, Min: 0, Clock: clk})
	}

	// (5) malformed stream: node out of range, arbitrary restart ids, readings outside the representable range
	n6 := e.Scale(40, 300) * boost
	for i := 0; i < n6; i++ {
		ep, nb, low := pickLayout(r)
		max := int64(1)<<nb - 1
		switch i % 4 {
		case 0: // invalid node numbers
			node := []int64{-1, max + 1, math.MinInt64, math.MaxInt64, -max, 1 << 20}[r.Intn(6)]
			var clk rle
			clk.add(ep+1000, 3)
			emit(hardSpec{Class: "hard/bad-node", Epoch: ep, NB: nb, Lowest: low, Node: node, Min: 0, Clock: clk})
		case 1: // arbitrary int64 as restart id (other node's id, negative, extreme)
			node := pickNode(r, nb)
			min := []int64{r.Int63(), -r.Int63(), math.MaxInt64, math.MinInt64, -1, 1, r.Int63n(1 << 40)}[r.Intn(7)]
			t := min >> (uint(nb) + 12)
			n := 2 + r.Intn(30)
			base := addSat(ep, t+int64(r.Intn(5))-2)
			clk := genClock(r, base, n, math.MaxInt64)
			emit(hardSpec{Class: "hard/any-restart-id", Epoch: ep, NB: nb, Lowest: low, Node: node, Min: min, Clock: clk})
		case 2: // beyond the timestamp width: the id overflows into the sign bit (out of the claimed range)
			node := pickNode(r, nb)
			rel := limitOf(nb) - 3 + int64(r.Intn(6))
			if r.Intn(3) == 0 {
				rel = limitOf(nb)*2 + r.Int63n(1<<40)
			}
			n := 2 + r.Intn(20)
			clk := genClock(r, addSat(ep, rel), n, math.MaxInt64)
			emit(hardSpec{Class: "hard/beyond-range", Epoch: ep, NB: nb, Lowest: low, Node: node, Min: 0, Clock: clk})
		default: // extreme readings / epochs: clk - epoch wraps in int64
			node := pickNode(r, nb)
			ep = []int64{math.MinInt64 + 5, math.MaxInt64 - 5, -4611686018427387904, 4611686018427387904}[r.Intn(4)]
			var clk rle
			for j := 0; j < 2+r.Intn(6); j++ {
				clk.add([]int64{math.MaxInt64, math.MinInt64, 0, -1, 1, r.Int63(), -r.Int63(), 4611686018427387904}[r.Intn(8)], 1+r.Intn(3))
			}
			emit(hardSpec{Class: "hard/extreme", Epoch: ep, NB: nb, Lowest: low, Node: node, Min: 0, Clock: clk})
		}
	}

	// (6) concurrent callers: the clock hook hands out the script in lock order
	n7 := e.Scale(24, 200) * boost
	for i := 0; i < n7; i++ {
		ep, nb, low := pickLayout(r)
		node := pickNode(r, nb)
		g := []int{2, 3, 4, 8, 16}[r.Intn(5)]
		if e.Thorough || e.Search {
			g = []int{2, 4, 8, 16, 32, 64}[r.Intn(6)]
		}
		n := g * (10 + r.Intn(e.Scale(40, 120)))
		rel := 150000000000 + r.Int63n(100000000000)
		var clk rle
		if i%3 == 0 {
			clk.add(ep+rel, n) // one frozen millisecond: every id differs only in the step
		} else {
			clk = genClock(r, ep+rel, n, addSat(ep, limitOf(nb)-2))
		}
		var min int64
		if i%4 == 1 {
			min = compose(nb, low, rel, node, int64(4095-r.Intn(40)))
		}
		emit(hardSpec{Class: fmt.Sprintf("hard/concurrent-%d", g), Epoch: ep, NB: nb, Lowest: low, Node: node, Min: min, Clock: clk, G: g})
	}
}
