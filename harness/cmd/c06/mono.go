package main

import (
	"fmt"
	"math"
	"runtime"
	"sync"
	"time"

	"github.com/pinealctx/neptune/idgen/snowflake"
	"verifharness/vh"
)

// ---- MonoNode: the clock is Go's monotonic clock and cannot be scripted.  The harness only chooses the layout,
// the distance between the epoch and now, the number of callers and the calling pattern; Coq accepts the observed
// ids iff they are a run of mono_generate for the readings the ids themselves carry. ----

type monoSpec struct {
	Class  string `json:"class"`
	Back   int64  `json:"epoch_ms_before_now"`
	NB     uint8  `json:"nb"`
	Lowest bool   `json:"lowest"`
	Node   int64  `json:"node"`
	N      int    `json:"n"`    // calls per caller
	G      int    `json:"g"`    // callers
	Mode   string `json:"mode"` // tight | yield | nap
}

func runMono(sp monoSpec, st *stats) vh.Case {
	epoch := time.Now().UnixMilli() - sp.Back
	restoreCfg := snowflake.VerifSetConfig(epoch, sp.NB, sp.Lowest)
	defer restoreCfg()
	node, err := snowflake.NewMonoNode(sp.Node)
	g := sp.G
	if g < 1 {
		g = 1
	}
	per := make([][]int64, g)
	panicked := ""
	var pmu sync.Mutex
	if err == nil {
		var wg sync.WaitGroup
		start := make(chan struct{})
		for w := 0; w < g; w++ {
			wg.Add(1)
			go func(w int) {
				defer wg.Done()
				out := make([]int64, 0, sp.N)
				defer func() {
					if r := recover(); r != nil {
						pmu.Lock()
						panicked = fmt.Sprint(r)
						pmu.Unlock()
					}
					per[w] = out
				}()
				<-start
				for i := 0; i < sp.N; i++ {
					out = append(out, node.Generate())
					switch sp.Mode {
					case "yield":
						runtime.Gosched()
					case "nap":
						if i%7 == 6 {
							time.Sleep(300 * time.Microsecond) // only lets the clock advance; nothing is inferred from it
						}
					}
				}
			}(w)
		}
		close(start)
		wg.Wait()
	}
	perObs := make([][]obs, g)
	total := 0
	var all []int64
	for w := range per {
		perObs[w] = make([]obs, len(per[w]))
		for i, id := range per[w] {
			t, n, s := snowflake.IDFields(id)
			perObs[w][i] = obs{id, t, n, s}
		}
		total += len(per[w])
		all = append(all, per[w]...)
	}
	owners := ownersOf(per)
	// measured: how often the real node went through the spin (step 4095 -> 0 in consecutive ids of the lock order)
	if err == nil {
		flat := make([]obs, 0, total)
		if g == 1 {
			flat = perObs[0]
		} else {
			idx := make([]int, g)
			for _, o := range owners {
				flat = append(flat, perObs[o][idx[o]])
				idx[o]++
			}
		}
		for i := 1; i < len(flat); i++ {
			if flat[i-1].S == 4095 && flat[i].S == 0 {
				st.add("mono_step_wraps_observed", 1)
			}
			if flat[i].T == flat[i-1].T {
				st.add("mono_same_ms_pairs", 1)
			}
		}
		st.add("mono_ids", int64(total))
	}
	note := ""
	if err == nil && g == 1 {
		for i := 1; i < len(perObs[0]); i++ {
			if perObs[0][i].ID <= perObs[0][i-1].ID {
				note = fmt.Sprintf("call %d: id %d (time %d, step %d) is not above the previous id %d (time %d, step %d)", i,
					perObs[0][i].ID, perObs[0][i].T, perObs[0][i].S, perObs[0][i-1].ID, perObs[0][i-1].T, perObs[0][i-1].S)
				break
			}
		}
	}
	if panicked != "" {
		note = "Generate panicked: " + panicked
	}
	coq := fmt.Sprintf("(CMono %s %s %s %s %s)%%Z", coqCfg(epoch, sp.NB, sp.Lowest), z(sp.Node),
		vh.CoqBool(err != nil), coqOwners(owners), coqObsLists(perObs))
	if err != nil {
		coq = fmt.Sprintf("(CMono %s %s true [] [])%%Z", coqCfg(epoch, sp.NB, sp.Lowest), z(sp.Node))
	}
	desc := map[string]interface{}{
		"generator": "MonoNode", "epoch_ms": epoch, "node_bits": sp.NB, "node_at_lowest": sp.Lowest, "node": sp.Node,
		"callers": g, "calls_per_caller": sp.N, "mode": sp.Mode, "ids_first": head(all, 6), "ids_last": tail(all, 3),
		"newnode_error": err != nil,
	}
	if note != "" {
		desc["note"] = note
	}
	return vh.Case{Coq: coq, Desc: desc, Class: sp.Class, Nontrivial: err == nil && total >= 2,
		Replay: replayArg(replaySpec{Kind: "mono", Mono: &sp})}
}

func genMono(e *vh.Env, st *stats, boost int) {
	r := e.Rnd
	back := func(nb uint8) int64 {
		lim := limitOf(nb)
		switch r.Intn(5) {
		case 0:
			return int64(r.Intn(3)) // time fields start at 0
		case 1:
			return lim - 1 - 600000 - int64(r.Intn(1000000)) // ten minutes below the end of the timestamp range
		case 2:
			return lim/2 + r.Int63n(lim/4)
		}
		return 150000000000 + r.Int63n(50000000000)
	}
	// small histories in every layout, three calling patterns
	n1 := e.Scale(36, 300) * boost
	for i := 0; i < n1; i++ {
		_, nb, low := pickLayout(r)
		node := pickNode(r, nb)
		mode := []string{"tight", "yield", "nap"}[i%3]
		n := 20 + r.Intn(e.Scale(120, 300))
		cls := "mono/seq-" + mode
		sink(runMono(monoSpec{Class: cls, Back: back(nb), NB: nb, Lowest: low, Node: node, N: n, G: 1, Mode: mode}, st))
	}
	// long tight loops: more than 4096 calls inside one millisecond send the real node through the spin
	n2 := e.Scale(3, 12) * boost
	for i := 0; i < n2; i++ {
		_, nb, low := pickLayout(r)
		node := pickNode(r, nb)
		sink(runMono(monoSpec{Class: "mono/seq-long", Back: back(nb), NB: nb, Lowest: low, Node: node, N: e.Scale(9000, 14000), G: 1, Mode: "tight"}, st))
	}
	// concurrent callers
	n3 := e.Scale(12, 100) * boost
	for i := 0; i < n3; i++ {
		_, nb, low := pickLayout(r)
		node := pickNode(r, nb)
		g := []int{2, 4, 8, 16}[r.Intn(4)]
		if e.Thorough || e.Search {
			g = []int{2, 4, 8, 16, 32, 64}[r.Intn(6)]
		}
		mode := []string{"tight", "yield"}[i%2]
		sink(runMono(monoSpec{Class: fmt.Sprintf("mono/concurrent-%d", g), Back: back(nb), NB: nb, Lowest: low, Node: node,
			N: 20 + r.Intn(e.Scale(60, 150)), G: g, Mode: mode}, st))
	}
	// invalid node numbers
	for i := 0; i < 6*boost; i++ {
		_, nb, low := pickLayout(r)
		max := int64(1)<<nb - 1
		node := []int64{-1, max + 1, math.MinInt64, math.MaxInt64, -max, 1 << 20}[i%6]
		sink(runMono(monoSpec{Class: "mono/bad-node", Back: back(nb), NB: nb, Lowest: low, Node: node, N: 3, G: 1, Mode: "tight"}, st))
	}
}
