package main

import (
	"fmt"
	"go/ast"
	"go/parser"
	"go/token"
	"math"
	"os"
	"path/filepath"
	"sort"
	"strings"
	"sync"
	"time"

	"github.com/pinealctx/neptune/idgen/nano"
	"github.com/pinealctx/neptune/idgen/snowflake"
	"verifharness/vh"
)

// ---- stress runs: every public generating entry point of every generator, many callers released from a barrier,
// tens of thousands of calls.  Nothing about the lock order can be forced here (GenID reads the clock itself), so the
// monitor is order free: all returned ids pairwise distinct, every caller's ids strictly increasing, all above the
// restart point.  The harness scans the whole run; what goes to Coq is a sample (a subset of a correct run is
// correct) that always contains the neighbourhood of the first offending ids, so a violating run is a concrete
// failing case. ----

type stressSpec struct {
	Class  string `json:"class"`
	Target string `json:"target"` // nano-genid | nano-byts | nano-byts-frozen | hard-frozen | hard-real | mono
	G      int    `json:"g"`
	N      int    `json:"n"`     // calls per caller
	Ahead  bool   `json:"ahead"` // restart point ahead of the clock (every call takes the increment path) or behind it
	NB     uint8  `json:"nb"`
	Lowest bool   `json:"lowest"`
	Node   int64  `json:"node"`
}

func runStress(sp stressSpec, st *stats) vh.Case {
	var call func(w int) int64
	floor := int64(math.MinInt64)
	descGen := ""
	switch sp.Target {
	case "nano-genid", "nano-byts", "nano-byts-frozen":
		cur := int64(0)
		if sp.Ahead {
			cur = time.Now().UnixNano() + 3600e9
		}
		floor = cur
		g := nano.NewUnixNanoID(cur)
		frozen := time.Now().UnixNano()
		switch sp.Target {
		case "nano-genid":
			descGen = "UnixNanoID.GenID"
			call = func(int) int64 { return g.GenID() }
		case "nano-byts":
			descGen = "UnixNanoID.GenIDByTS(time.Now().UnixNano())"
			call = func(int) int64 { return g.GenIDByTS(time.Now().UnixNano()) }
		default:
			descGen = "UnixNanoID.GenIDByTS(frozen ts)"
			call = func(int) int64 { return g.GenIDByTS(frozen) }
		}
	case "hard-frozen", "hard-real":
		epoch := int64(1609430400000)
		restoreCfg := snowflake.VerifSetConfig(epoch, sp.NB, sp.Lowest)
		defer restoreCfg()
		now := time.Now()
		if sp.Target == "hard-frozen" {
			restoreNow := snowflake.VerifSetNow(func() time.Time { return now })
			defer restoreNow()
			descGen = "HardNode.Generate (frozen wall clock)"
		} else {
			descGen = "HardNode.Generate (real wall clock)"
		}
		min := int64(0)
		floor = -1
		if sp.Ahead {
			// restart id one hour ahead of the clock, a few steps below the wrap
			min = compose(sp.NB, sp.Lowest, now.UnixMilli()-epoch+3600000, sp.Node, 4090)
			floor = min
		}
		node, err := snowflake.NewNode(sp.Node, min)
		if err != nil {
			panic(err)
		}
		call = func(int) int64 { return node.Generate() }
	default:
		restoreCfg := snowflake.VerifSetConfig(time.Now().UnixMilli()-150000000000, sp.NB, sp.Lowest)
		defer restoreCfg()
		node, err := snowflake.NewMonoNode(sp.Node)
		if err != nil {
			panic(err)
		}
		floor = -1
		descGen = "MonoNode.Generate"
		call = func(int) int64 { return node.Generate() }
	}

	per := make([][]int64, sp.G)
	var wg sync.WaitGroup
	start := make(chan struct{})
	panicked := ""
	var pmu sync.Mutex
	for w := 0; w < sp.G; w++ {
		wg.Add(1)
		go func(w int) {
			defer wg.Done()
			out := make([]int64, 0, sp.N)
			defer func() {
				if r := recover(); r != nil {
					pmu.Lock()
					panicked = fmt.Sprint(r)
					pmu.Unlock()
				}
				per[w] = out
			}()
			<-start
			for i := 0; i < sp.N; i++ {
				out = append(out, call(w))
			}
		}(w)
	}
	close(start)
	wg.Wait()

	// ---- scan the whole run (untrusted, only chooses what is shown to Coq)
	type ref struct{ g, pos int }
	var bad []ref
	notes := []string{}
	regress, dups, below := 0, 0, 0
	for g, l := range per {
		for i, id := range l {
			if id <= floor {
				below++
				if below <= 2 {
					bad = append(bad, ref{g, i})
					notes = append(notes, fmt.Sprintf("caller %d call %d: id %d is not above the restart point %d", g, i, id, floor))
				}
			}
			if i > 0 && id <= l[i-1] {
				regress++
				if regress <= 3 {
					bad = append(bad, ref{g, i - 1}, ref{g, i})
					notes = append(notes, fmt.Sprintf("caller %d: call %d returned %d after call %d returned %d", g, i, id, i-1, l[i-1]))
				}
			}
		}
	}
	var all []tagged
	for g, l := range per {
		for p, id := range l {
			all = append(all, tagged{id, g, p})
		}
	}
	sort.Slice(all, func(i, j int) bool { return all[i].id < all[j].id })
	for i := 1; i < len(all); i++ {
		if all[i].id == all[i-1].id {
			dups++
			if dups <= 3 {
				bad = append(bad, ref{all[i-1].g, all[i-1].pos}, ref{all[i].g, all[i].pos})
				notes = append(notes, fmt.Sprintf("id %d handed out twice: caller %d call %d and caller %d call %d",
					all[i].id, all[i-1].g, all[i-1].pos, all[i].g, all[i].pos))
			}
		}
	}
	// ---- the sample: head and tail of every caller, evenly spaced probes, and the neighbourhood of every offender
	keep := make([]map[int]bool, sp.G)
	budget := 2400 / sp.G
	for g, l := range per {
		keep[g] = map[int]bool{}
		for i := 0; i < len(l) && i < budget/2; i++ {
			keep[g][i] = true
		}
		for i := len(l) - 1; i >= 0 && i >= len(l)-budget/4; i-- {
			keep[g][i] = true
		}
		if len(l) > 0 {
			stepi := len(l)/(budget/4+1) + 1
			for i := 0; i < len(l); i += stepi {
				keep[g][i] = true
			}
		}
	}
	for _, b := range bad {
		for i := b.pos - 2; i <= b.pos+2; i++ {
			if i >= 0 && i < len(per[b.g]) {
				keep[b.g][i] = true
			}
		}
	}
	sample := make([][]int64, sp.G)
	total := 0
	for g, l := range per {
		idx := make([]int, 0, len(keep[g]))
		for i := range keep[g] {
			idx = append(idx, i)
		}
		sort.Ints(idx)
		for _, i := range idx {
			sample[g] = append(sample[g], l[i])
		}
		total += len(l)
	}
	owners := ownersOf(sample)
	if len(sample) == 1 {
		owners = nil
	}
	lists := make([]string, sp.G)
	shown := 0
	for g, l := range sample {
		lists[g] = coqDeltas(l)
		shown += len(l)
	}
	st.add("stress_calls", int64(total))
	st.add("stress_ids_shown_to_coq", int64(shown))
	st.add("stress_duplicates_seen", int64(dups))
	st.add("stress_regressions_seen", int64(regress))
	coq := fmt.Sprintf("(CStress %s %s [%s])%%Z", z(floor), coqOwners(owners), strings.Join(lists, ";"))
	desc := map[string]interface{}{
		"generator": descGen, "callers": sp.G, "calls_per_caller": sp.N, "total_calls": total, "restart_point": floor,
		"restart_point_ahead_of_clock": sp.Ahead, "duplicates_in_run": dups, "per_caller_regressions_in_run": regress,
		"ids_not_above_restart_point": below, "ids_shown_to_coq": shown,
	}
	if len(notes) > 0 {
		desc["note"] = strings.Join(notes, "; ")
	}
	if panicked != "" {
		desc["panic"] = panicked
	}
	return vh.Case{Coq: coq, Desc: desc, Class: sp.Class, Nontrivial: total >= 2,
		Replay: replayArg(replaySpec{Kind: "stress", Stress: &sp})}
}

func genStress(e *vh.Env, st *stats, boost int) {
	r := e.Rnd
	reps := e.Scale(2, 8) * boost
	for rep := 0; rep < reps; rep++ {
		for _, target := range []string{"nano-genid", "nano-byts", "nano-byts-frozen", "hard-frozen", "hard-real", "mono"} {
			for _, ahead := range []bool{true, false} {
				if target == "mono" && ahead {
					continue // a MonoNode has no restart point
				}
				g := []int{8, 16, 32}[r.Intn(3)]
				n := e.Scale(160000, 400000) / g
				if target == "nano-genid" {
					n = e.Scale(320000, 800000) / g
				}
				_, nb, low := pickLayout(r)
				where := "behind"
				if ahead {
					where = "ahead"
				}
				if target == "mono" {
					where = "real"
				}
				sink(runStress(stressSpec{Class: "stress/" + target + "-" + where, Target: target, G: g, N: n, Ahead: ahead,
					NB: nb, Lowest: low, Node: pickNode(r, nb)}, st))
			}
		}
	}
}

// ---- source audit of the entry points the lock-discipline lint cannot express: UnixNanoID.GenID does not lock
// itself, it reads the clock and hands over to GenIDByTS (which the lint checks).  That is only sound while GenID is
// declared on UnixNanoID itself and calls the receiver's own GenIDByTS; a GenID promoted from an embedded type
// would bind to the embedded type's (lock-free) GenIDByTS. ----

func auditNano() (bool, []string) {
	repo := os.Getenv("VERIF_REPO")
	if repo == "" {
		repo = "/repo"
	}
	file := filepath.Join(repo, "idgen", "nano", "nano.go")
	fset := token.NewFileSet()
	f, err := parser.ParseFile(fset, file, nil, 0)
	if err != nil {
		return false, []string{"cannot parse " + file + ": " + err.Error()}
	}
	var findings []string
	found := map[string]*ast.FuncDecl{}
	for _, d := range f.Decls {
		switch x := d.(type) {
		case *ast.FuncDecl:
			if x.Recv == nil || len(x.Recv.List) == 0 {
				continue
			}
			t := x.Recv.List[0].Type
			if s, ok := t.(*ast.StarExpr); ok {
				t = s.X
			}
			if id, ok := t.(*ast.Ident); ok && id.Name == "UnixNanoID" {
				found[x.Name.Name] = x
			}
		case *ast.GenDecl:
			for _, sp := range x.Specs {
				ts, ok := sp.(*ast.TypeSpec)
				if !ok || ts.Name.Name != "UnixNanoID" {
					continue
				}
				if stt, ok := ts.Type.(*ast.StructType); ok {
					for _, fld := range stt.Fields.List {
						if len(fld.Names) == 0 { // embedded
							name := ""
							switch y := fld.Type.(type) {
							case *ast.SelectorExpr:
								name = y.Sel.Name
							case *ast.Ident:
								name = y.Name
							case *ast.StarExpr:
								name = "*"
							}
							if name != "Mutex" {
								findings = append(findings, "UnixNanoID embeds "+name+": its methods are promoted and bind to the embedded value, not to the locked wrappers")
							}
						}
					}
				}
			}
		}
	}
	for _, m := range []string{"GenID", "GenIDByTS"} {
		if found[m] == nil {
			findings = append(findings, "method (*UnixNanoID)."+m+" is not declared in idgen/nano/nano.go (a promoted method would not go through the mutex)")
		}
	}
	if fd := found["GenID"]; fd != nil && len(fd.Recv.List[0].Names) > 0 {
		recv := fd.Recv.List[0].Names[0].Name
		delegates := false
		ast.Inspect(fd.Body, func(n ast.Node) bool {
			if c, ok := n.(*ast.CallExpr); ok {
				if sel, ok := c.Fun.(*ast.SelectorExpr); ok {
					if id, ok := sel.X.(*ast.Ident); ok && id.Name == recv && (sel.Sel.Name == "GenIDByTS" || sel.Sel.Name == "Lock") {
						delegates = true
					}
				}
			}
			return true
		})
		if !delegates {
			findings = append(findings, "(*UnixNanoID).GenID neither locks nor hands over to the receiver's GenIDByTS")
		}
	}
	return len(findings) == 0, findings
}

func genAudit(e *vh.Env) {
	ok, findings := auditNano()
	sink(vh.Case{Coq: fmt.Sprintf("(CAudit %s)", vh.CoqBool(ok)), Class: "audit/nano-entry-points", Nontrivial: true,
		Desc: map[string]interface{}{"audit": "idgen/nano/nano.go: UnixNanoID.GenID and GenIDByTS are declared on UnixNanoID and GenID hands over to the locked GenIDByTS",
			"ok": ok, "findings": findings}})
}
