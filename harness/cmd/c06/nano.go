package main

import (
	"fmt"
	"math"
	"math/big"
	"sync"

	"github.com/pinealctx/neptune/idgen/nano"
	"verifharness/vh"
)

// ---- UnixNanoID / UnixNanoNoLockID ----

type nanoSpec struct {
	Class   string    `json:"class"`
	Variant string    `json:"variant"` // lock | nolock | genid | genid-nolock
	Cur     int64     `json:"cur"`
	TS      [][]int64 `json:"ts"` // supplied timestamps per caller (variants lock / nolock)
	N       int       `json:"n"`  // calls per caller for the genid variants (real clock)
	G       int       `json:"g"`
}

func nanoInDomain(cur int64, pairs [][][2]int64) bool {
	b := big.NewInt(cur)
	n := 0
	for _, l := range pairs {
		for _, p := range l {
			if t := big.NewInt(p[0]); t.Cmp(b) > 0 {
				b = t
			}
			n++
		}
	}
	b.Add(b, big.NewInt(int64(n)))
	return b.Cmp(new(big.Int).Lsh(big.NewInt(1), 63)) < 0
}

func runNano(sp nanoSpec, st *stats) vh.Case {
	g := sp.G
	if g < 1 {
		g = 1
	}
	per := make([][][2]int64, g) // (ts, id)
	var locked *nano.UnixNanoID
	var free *nano.UnixNanoNoLockID
	switch sp.Variant {
	case "lock", "genid":
		locked = nano.NewUnixNanoID(sp.Cur)
	default:
		free = nano.NewUnixNanoNoLockID(sp.Cur)
		g = 1
	}
	panicked := ""
	var pmu sync.Mutex
	var wg sync.WaitGroup
	start := make(chan struct{})
	for w := 0; w < g; w++ {
		wg.Add(1)
		go func(w int) {
			defer wg.Done()
			var out [][2]int64
			defer func() {
				if r := recover(); r != nil {
					pmu.Lock()
					panicked = fmt.Sprint(r)
					pmu.Unlock()
				}
				per[w] = out
			}()
			<-start
			switch sp.Variant {
			case "lock":
				for _, ts := range sp.TS[w] {
					out = append(out, [2]int64{ts, locked.GenIDByTS(ts)})
				}
			case "nolock":
				for _, ts := range sp.TS[w] {
					out = append(out, [2]int64{ts, free.GenIDByTS(ts)})
				}
			case "genid":
				// the timestamp GenID read is not visible; the witness handed to Coq is the id itself
				// (GenIDByTS(id) = id exactly when id is above everything issued before)
				for i := 0; i < sp.N; i++ {
					id := locked.GenID()
					out = append(out, [2]int64{id, id})
				}
			default:
				for i := 0; i < sp.N; i++ {
					id := free.GenID()
					out = append(out, [2]int64{id, id})
				}
			}
		}(w)
	}
	close(start)
	wg.Wait()

	ids := make([][]int64, g)
	total := 0
	var all []int64
	for w := range per {
		for _, p := range per[w] {
			ids[w] = append(ids[w], p[1])
			all = append(all, p[1])
		}
		total += len(per[w])
	}
	owners := ownersOf(ids)
	inDom := nanoInDomain(sp.Cur, per)
	st.add("nano_ids", int64(total))
	note := ""
	if g == 1 && inDom {
		prev := sp.Cur
		for i, p := range per[0] {
			if p[1] <= prev {
				note = fmt.Sprintf("call %d (ts %d): id %d is not above the previous value %d", i, p[0], p[1], prev)
				break
			}
			prev = p[1]
		}
	}
	if panicked != "" {
		note = "GenIDByTS panicked: " + panicked
	}
	coq := fmt.Sprintf("(CNano %s %s %s)%%Z", z(sp.Cur), coqOwners(owners), coqPairLists(per))
	var tsShow interface{}
	if len(sp.TS) > 0 {
		tsShow = head(sp.TS[0], 12)
	}
	desc := map[string]interface{}{
		"generator": "UnixNanoID", "variant": sp.Variant, "start_value": sp.Cur, "callers": g, "calls": total,
		"ts_first_caller": tsShow, "ids_first": head(all, 6), "ids_last": tail(all, 3), "in_representable_range": inDom,
	}
	if note != "" {
		desc["note"] = note
	}
	return vh.Case{Coq: coq, Desc: desc, Class: sp.Class, Nontrivial: inDom && total >= 2,
		Replay: replayArg(replaySpec{Kind: "nano", Nano: &sp})}
}

func genNano(e *vh.Env, st *stats, boost int) {
	r := e.Rnd
	base := func() int64 {
		switch r.Intn(6) {
		case 0:
			return int64(r.Intn(100))
		case 1:
			return -int64(r.Intn(1000000))
		case 2:
			return math.MaxInt64 - 100000 - int64(r.Intn(100000))
		}
		return 1790000000000000000 + r.Int63n(1000000000000000)
	}
	n1 := e.Scale(70, 700) * boost
	for i := 0; i < n1; i++ {
		b := base()
		n := 2 + r.Intn(e.Scale(150, 400))
		ts := genClock(r, b, n, math.MaxInt64).expand()
		var cur int64
		switch r.Intn(6) {
		case 0:
			cur = 0
		case 1:
			cur = b // first timestamp equals the starting value
		case 2:
			cur = addSat(b, int64(r.Intn(2000))) // generator ahead of the clock
		case 3:
			cur = addSat(b, -int64(r.Intn(2000)))
		case 4:
			cur = -r.Int63()
		default:
			cur = r.Int63n(1 << 62)
		}
		v := "lock"
		if i%2 == 1 {
			v = "nolock"
		}
		sink(runNano(nanoSpec{Class: "nano/seq-" + v, Variant: v, Cur: cur, TS: [][]int64{ts}, G: 1}, st))
	}
	// beyond the int64 range: current+1 overflows (out of the claimed range; compared exactly all the same)
	n2 := e.Scale(10, 60) * boost
	for i := 0; i < n2; i++ {
		cur := math.MaxInt64 - int64(r.Intn(4))
		var ts []int64
		for j := 0; j < 2+r.Intn(8); j++ {
			ts = append(ts, []int64{math.MaxInt64, math.MinInt64, 0, cur, r.Int63(), -r.Int63()}[r.Intn(6)])
		}
		sink(runNano(nanoSpec{Class: "nano/beyond-range", Variant: []string{"lock", "nolock"}[i%2], Cur: cur, TS: [][]int64{ts}, G: 1}, st))
	}
	// GenID on the real clock
	n3 := e.Scale(8, 40) * boost
	for i := 0; i < n3; i++ {
		v := []string{"genid", "genid-nolock"}[i%2]
		cur := []int64{0, 1790000000000000000, 4000000000000000000}[r.Intn(3)]
		sink(runNano(nanoSpec{Class: "nano/" + v, Variant: v, Cur: cur, N: 20 + r.Intn(200), G: 1}, st))
	}
	// concurrent callers of the locked generator
	n4 := e.Scale(20, 150) * boost
	for i := 0; i < n4; i++ {
		g := []int{2, 4, 8, 16}[r.Intn(4)]
		if e.Thorough || e.Search {
			g = []int{2, 4, 8, 16, 32, 64}[r.Intn(6)]
		}
		b := 1790000000000000000 + r.Int63n(1000000000000000)
		if i%3 == 0 {
			n := 10 + r.Intn(60)
			sink(runNano(nanoSpec{Class: fmt.Sprintf("nano/concurrent-genid-%d", g), Variant: "genid", Cur: 0, N: n, G: g}, st))
			continue
		}
		ts := make([][]int64, g)
		for w := range ts {
			if i%3 == 1 {
				// every caller passes the same frozen timestamp
				for j := 0; j < 10+r.Intn(60); j++ {
					ts[w] = append(ts[w], b)
				}
			} else {
				ts[w] = genClock(r, b+int64(r.Intn(50)), 10+r.Intn(60), math.MaxInt64).expand()
			}
		}
		sink(runNano(nanoSpec{Class: fmt.Sprintf("nano/concurrent-%d", g), Variant: "lock", Cur: b - int64(r.Intn(100)), TS: ts, G: g}, st))
	}
}
