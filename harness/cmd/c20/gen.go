package main

import (
	"encoding/base64"
	"encoding/hex"
	"math"
	"math/big"
	"strconv"
	"strings"
	"time"

	"verifharness/vh"
)

// Generators.  Two streams per wrapper: (1) fixed boundary inputs (every branch of the anchored code and every
// class named by the property's quantifier), (2) grammar-driven random inputs, mostly valid and biased to the
// boundaries (2^63, 2^64, 255/256, unit changes of durations, digit/letter range ends), plus a malformed stream.

type gen struct {
	e   *vh.Env
	out []input
}

func (g *gen) intn(n int) int { return g.e.Rnd.Intn(n) }
func (g *gen) pick(xs []string) string { return xs[g.intn(len(xs))] }
func (g *gen) chance(pct int) bool { return g.intn(100) < pct }

func hexs(b []byte) string { return hex.EncodeToString(b) }

func (g *gen) dec(t, class string, tok []byte) {
	g.out = append(g.out, input{Op: "dec", T: t, Tok: hexs(tok), Class: class})
}
func (g *gen) enc(t, class string, v val) {
	j := toJV(v)
	g.out = append(g.out, input{Op: "enc", T: t, V: &j, Class: class})
}

// volume of the random stream of one wrapper: quick / thorough, multiplied when the violation search focuses on it
func (g *gen) vol(op, t string, quick int) int {
	n := g.e.Scale(quick, quick*12)
	if g.e.Search && g.e.Focus != "" {
		p := strings.Split(g.e.Focus, "/")
		if len(p) >= 2 && p[0] == op && p[1] == t {
			return n * 4
		}
		return g.e.Scale(quick, quick)
	}
	return n
}

// ---------------------------------------------------------------- number pools

const yearOne = -62135596800 // Unix seconds of the zero time.Time

var timeLocs = []string{"", "utc", "+08:00", "zero"}

var two63 = new(big.Int).Lsh(big.NewInt(1), 63)
var two64 = new(big.Int).Lsh(big.NewInt(1), 64)

var i64Pool = []int64{0, 1, -1, 2, 7, 9, 10, -10, 11, 99, 100, 101, 127, 128, 255, 256, -255, -256, 999, 1000, 32767, 32768, 65535, 65536,
	math.MaxInt32, math.MaxInt32 + 1, math.MinInt32, math.MinInt32 - 1, math.MaxUint32, math.MaxUint32 + 1,
	999999999, 1000000000, 1000000001, -999999999, -1000000000, -1000000001, 60000000000, 3600000000000, 1e18, 1e18 - 1, -1e18,
	9223372036, 9223372037, -9223372036, -9223372037, 1700000000, 1700000000123456789,
	yearOne, yearOne + 1, yearOne - 1, yearOne + 86400, yearOne - 86400, // 0001-01-01T00:00:00Z = the zero time.Time, and neighbours
	253402300799, 253402300800, -62167219200, // 9999-12-31T23:59:59Z and the next second; 0000-01-01T00:00:00Z
	math.MaxInt64 + yearOne, math.MaxInt64 + yearOne + 1, math.MinInt64 - yearOne, math.MinInt64 - yearOne - 1, // ends of time.Time's internal second counter (wrap points)
	-6795364579, 2147483648 * 1000, // an instant before 1800; 2^31 ms
	math.MaxInt64, math.MaxInt64 - 1, math.MinInt64, math.MinInt64 + 1}
var u64Pool = []uint64{0, 1, 9, 10, 255, 256, 1 << 32, 1<<63 - 1, 1 << 63, 1<<63 + 1, math.MaxUint64, math.MaxUint64 - 1, 1e19, 9999999999999999999, 1e18}

func (g *gen) randI64() int64 {
	switch g.intn(10) {
	case 0:
		return i64Pool[g.intn(len(i64Pool))]
	case 1:
		return math.MaxInt64 - int64(g.intn(1000))
	case 2:
		return math.MinInt64 + int64(g.intn(1000))
	}
	bits := g.intn(64)
	v := int64(g.e.Rnd.Uint64() & (1<<uint(bits) - 1))
	if g.chance(45) {
		v = -v
	}
	return v
}
func (g *gen) randU64() uint64 {
	switch g.intn(8) {
	case 0:
		return u64Pool[g.intn(len(u64Pool))]
	case 1:
		return math.MaxUint64 - uint64(g.intn(1000))
	}
	bits := g.intn(65)
	if bits == 64 {
		return g.e.Rnd.Uint64()
	}
	return g.e.Rnd.Uint64() & (1<<uint(bits) - 1)
}

// a decimal numeral (no sign) near one of the cut-offs the code has, or of random length
func (g *gen) numText() string {
	switch g.intn(8) {
	case 0:
		return new(big.Int).Add(two63, big.NewInt(int64(g.intn(7)-3))).String()
	case 1:
		return new(big.Int).Add(two64, big.NewInt(int64(g.intn(7)-3))).String()
	case 2:
		k := g.intn(26)
		z := new(big.Int).Exp(big.NewInt(10), big.NewInt(int64(k)), nil)
		return z.Add(z, big.NewInt(int64(g.intn(3)-1))).Abs(z).String()
	case 3:
		n := 1 + g.intn(45)
		b := make([]byte, n)
		for i := range b {
			b[i] = byte('0' + g.intn(10))
		}
		if b[0] == '0' && n > 1 {
			b[0] = '1'
		}
		return string(b)
	case 4:
		return strconv.Itoa(g.intn(1000))
	case 5:
		return strconv.FormatUint(g.randU64(), 10)
	}
	v := g.randI64()
	if v < 0 {
		return strconv.FormatUint(uint64(-(v+1))+1, 10)
	}
	return strconv.FormatInt(v, 10)
}
func q(s string) []byte { return []byte(`"` + s + `"`) }

// ---------------------------------------------------------------- tokens for the five quoted-integer wrappers

type tokc struct {
	class string
	tok   []byte
}

func fixedIntTokens() []tokc {
	var out []tokc
	add := func(class string, toks ...string) {
		for _, t := range toks {
			out = append(out, tokc{class, []byte(t)})
		}
	}
	add("q-canon", `"0"`, `"1"`, `"7"`, `"12"`, `"123"`, `"1234"`, `"-1"`, `"-12"`, `"-123"`,
		`"9223372036854775807"`, `"9223372036854775808"`, `"9223372036854775809"`, `"-9223372036854775808"`, `"-9223372036854775809"`, `"-9223372036854775807"`,
		`"18446744073709551615"`, `"18446744073709551616"`, `"18446744073709551617"`, `"-18446744073709551615"`,
		`"99999999999999999999"`, `"100000000000000000000"`, `"340282366920938463463374607431768211456"`, `"1000000000"`, `"999999999"`, `"-999999999"`, `"-1000000001"`)
	add("q-signed", `"+1"`, `"+0"`, `"-0"`, `"+"`, `"-"`, `"+-1"`, `"--1"`, `"-+1"`, `"++1"`, `"+9223372036854775807"`, `"+9223372036854775808"`, `"+18446744073709551615"`, `"1-"`, `"1+"`)
	add("q-zeros", `"00"`, `"01"`, `"007"`, `"-007"`, `"+007"`, `"0000000000000000000000001"`, `"00000000000000000000009223372036854775807"`,
		`"00000000000000000000009223372036854775808"`, `"000000000000000000000018446744073709551615"`, `"000000000000000000000018446744073709551616"`, `"-00000000000000000000009223372036854775808"`)
	add("q-blank", `" 12"`, `"12 "`, `" 12 "`, `"1 2"`, `" "`, `"  "`, `"- 1"`, `" -1"`)
	add("q-junk", `"12a"`, `"a12"`, `"1a2"`, `"1_000"`, `"1_0"`, `"_1"`, `"0x1f"`, `"0b1"`, `"0o7"`, `"1e3"`, `"1E3"`, `"1.0"`, `"1."`, `".1"`, `"1,000"`,
		`"12/"`, `"12:"`, `"/12"`, `":12"`, `"1/2"`, `"1"`, `"12"`, `"１２"`, `"١٢"`, `"12\n"`, `"\"12\""`, `"\\12"`, `"null"`, `"true"`, `"NaN"`, `"abc"`, `"ff"`)
	add("q-empty", `""`, ` ""`, `"" `, "\n\"\"\t", " \"\" ", "\r\n\"\"")
	add("bare-int", `0`, `1`, `5`, `9`, `10`, `12`, `99`, `100`, `101`, `123`, `1234`, `12345`, `-0`, `-1`, `-5`, `-12`, `-123`, `-1234`, `1000000000`,
		`9223372036854775807`, `9223372036854775808`, `-9223372036854775808`, `-9223372036854775809`, `18446744073709551615`, `18446744073709551616`,
		`100000000000000000000`, `1234567890123456789012345678901234567890`)
	add("bare-frac-exp", `1.5`, `0.0`, `-0.0`, `1.0`, `12.0`, `123.456`, `1e3`, `1E3`, `1e+3`, `1e-3`, `12e0`, `1.5e3`, `-1e3`, `0e0`, `1e400`, `123e`, `1.`)
	add("literal", `null`, `true`, `false`)
	add("malformed", ``, `"`, `"1`, `1"`, `"12`, `12"`, `'12'`, `"1""`, `"1"2"`, `""12""`, `+5`, `+12`, `007`, `-007`, `01`, ` 12`, `12 `, ` "12" `, "\t\"12\"\n", `[1]`, `{}`, `["1"]`, `nul`, `NULL`, `0x10`, `1_000`, `--1`, `-`, `+`, `.5`, `"\x"`, "\"1\x00\"", "\"\xff\"", "\xff\xfe")
	return out
}

func (g *gen) insertAt(s, ins string) string {
	p := g.intn(len(s) + 1)
	return s[:p] + ins + s[p:]
}

var junkChars = []string{"a", "f", "z", "A", "_", "e", "E", ".", ",", "-", "+", "/", ":", "x", " ", "\\u0031", "é", "٣", "@", "`", "{", "["}

func (g *gen) randIntToken() tokc {
	n := g.numText()
	switch g.intn(20) {
	case 0, 1, 2, 3:
		if g.chance(40) {
			return tokc{"q-canon", q("-" + n)}
		}
		return tokc{"q-canon", q(n)}
	case 4:
		return tokc{"q-signed", q(g.pick([]string{"+", "-", "+", "--", "+-", "-+"}) + n)}
	case 5, 6:
		return tokc{"q-zeros", q(g.pick([]string{"", "-", "+"}) + strings.Repeat("0", 1+g.intn(25)) + n)}
	case 7:
		return tokc{"q-blank", q(g.insertAt(n, g.pick([]string{" ", "  ", "\\t", "\\n", " "})))}
	case 8, 9:
		return tokc{"q-junk", q(g.insertAt(n, g.pick(junkChars)))}
	case 10, 11, 12, 13, 14:
		if g.chance(40) {
			return tokc{"bare-int", []byte("-" + n)}
		}
		return tokc{"bare-int", []byte(n)}
	case 15:
		// short bare integers: 1 to 4 characters, where the unconditional slice bites hardest
		return tokc{"bare-int", []byte(g.pick([]string{"", "-"}) + strconv.Itoa(g.intn(10000)))}
	case 16:
		f := n + "." + strconv.Itoa(g.intn(1000))
		if g.chance(50) {
			f = n + g.pick([]string{"e", "E", "e+", "e-"}) + strconv.Itoa(g.intn(30))
		}
		return tokc{"bare-frac-exp", []byte(f)}
	case 17:
		if g.chance(40) {
			return tokc{"q-empty", []byte(g.pick([]string{`""`, ` ""`, `"" `, ` "" `, "\t\"\"\n"}))}
		}
		return tokc{"literal", []byte(g.pick([]string{"null", "true", "false"}))}
	case 18:
		// one side quoted, stray quotes, blanks outside the token
		return tokc{"malformed", []byte(g.pick([]string{`"` + n, n + `"`, `'` + n + `'`, ` ` + n, n + ` `, `+` + n, `0` + n, ` "` + n + `" `, `"` + n + `""`}))}
	}
	b := make([]byte, g.intn(6))
	for i := range b {
		b[i] = byte(g.pick([]string{"\"", "0", "1", "9", "-", "+", " ", "a", "\\", "/", ":"})[0])
	}
	return tokc{"malformed", b}
}

// ---------------------------------------------------------------- JsByte

var byteElemOdd = []string{"256", "257", "300", "511", "512", "999", "1000", "65535", "65536", "-1", "-2", "-128", "-255", "-256", "-257", "+5", "+255", "+256", "007", "0255", "0256", "00", "-0", "+0",
	"", " 1", "1 ", "a", "1.0", "1e2", "0x1", "1_0", "9223372036854775807", "9223372036854775808", "-9223372036854775808", "-9223372036854775809", "18446744073709551616", "4294967296", "4294967297", "-4294967295"}

func (g *gen) byteElem() string {
	switch g.intn(10) {
	case 0, 1:
		return g.pick(byteElemOdd)
	case 2:
		return g.pick([]string{"0", "1", "9", "10", "99", "100", "127", "128", "254", "255"})
	}
	return strconv.Itoa(g.intn(256))
}
func (g *gen) byteListText() (string, string) {
	n := g.intn(7)
	el := make([]string, n)
	odd := false
	for i := range el {
		el[i] = g.byteElem()
		if v, err := strconv.Atoi(el[i]); err != nil || v < 0 || v > 255 || strconv.Itoa(v) != el[i] {
			odd = true
		}
	}
	s := strings.Join(el, "/")
	class := "list"
	if odd {
		class = "list-odd-element"
	}
	switch g.intn(14) {
	case 0:
		s, class = s+"/", "list-separators"
	case 1:
		s, class = "/"+s, "list-separators"
	case 2:
		s, class = strings.Replace(s, "/", "//", 1), "list-separators"
	case 3:
		s, class = strings.Replace(s, "/", g.pick([]string{",", " ", "\\\\", ":", "."}), 1), "list-separators"
	}
	return s, class
}
func fixedByteInner() []string {
	return []string{"", "0", "7", "255", "256", "-1", "256/-1/7", "1/2/3", "0/0", "255/255/255/255", "/", "1/", "/1", "1//2", "1,2", " ", "1 /2", "1/ 2", "12", "123", "1234",
		"+1/+2", "001/002", "-0/0", "1/a", "a", "1/256", "1/-1", "300/1", "9223372036854775808/1", "1/9223372036854775808", "-9223372036854775809", "4294967296", "4294967297/1", "1/2/3/4/5/6/7/8/9/10/11/12"}
}

// ---------------------------------------------------------------- Duration

var durUnits = []string{"ns", "us", "µs", "μs", "ms", "s", "m", "h"}

func (g *gen) durText() (string, string) {
	switch g.intn(12) {
	case 0, 1, 2, 3:
		return time.Duration(g.randI64()).String(), "q-canon"
	case 4:
		// number + unit
		return g.pick([]string{"", "-", "+"}) + strconv.Itoa(g.intn(100000)) + g.pick(durUnits), "q-unit"
	case 5:
		return g.pick([]string{"", "-"}) + strconv.Itoa(g.intn(1000)) + "." + strconv.Itoa(g.intn(1000000)) + g.pick(durUnits), "q-fraction"
	case 6:
		return strconv.Itoa(g.intn(100)) + "h" + strconv.Itoa(g.intn(100)) + "m" + strconv.Itoa(g.intn(100)) + g.pick([]string{"s", ".5s", "s1ms", ""}), "q-compound"
	case 7:
		return g.numText() + g.pick(durUnits), "q-big"
	case 8:
		if g.chance(50) { // a day part, alone or in front of a well-formed remainder
			rest, _ := g.durTextSimple()
			return g.pick([]string{"", "-", "+"}) + g.pick([]string{strconv.Itoa(g.intn(400)), "106751", "106752", "213504", g.numText()}) + "d" + g.pick([]string{"", rest, "-" + rest, "12h", "30m"}), "q-day-unit"
		}
		return g.pick([]string{"1", "10", "0", "00", "1.5", "-1", "+0", "-0"}) + g.pick([]string{"", " ", "d", "S", "sec", "w", "y", "n", "u"}), "q-bad-unit"
	case 9:
		d, _ := g.durTextSimple()
		return g.insertAt(d, g.pick([]string{" ", "_", "e", "-", "+", ".", ",", "\\u0073"})), "q-junk"
	case 10:
		return g.pick([]string{".5s", "1.s", ".s", ".", "1..5s", "0.000000001s", "0.0000000001s", "1.0000000001s", "0.9999999999999999999999s", "1.00000000000000000000000000000000001h"}), "q-fraction"
	}
	return g.durTextSimple()
}
func (g *gen) durTextSimple() (string, string) {
	return strconv.Itoa(g.intn(1000)) + g.pick(durUnits), "q-unit"
}
func fixedDurInner() []string {
	return []string{"", "0", "+0", "-0", "00", "0s", "1ns", "1us", "1µs", "1μs", "1ms", "1s", "1m", "1h", "-1h", "+1h", "1h30m", "1.5h", "90m", "1h1h", "1m1h", "1d", "1", "100", "1 s", " 1s", "1s ", "1S",
		"9223372036854775807ns", "9223372036854775808ns", "-9223372036854775808ns", "-9223372036854775809ns", "2562047h47m16.854775807s", "2562047h47m16.854775808s", "-2562047h47m16.854775808s", "-2562047h47m16.854775809s",
		"2562047h", "2562048h", "1000000h", "3000000h", "9223372036s", "9223372037s", "153722867m", "153722868m", "9223372036854ms", "9223372036855ms", "9223372036854775us", "9223372036854776us",
		"1d", "7d", "0d", "-1d", "+1d", "1d12h", "-1d12h", "-2d30m", "1d-12h", "12h1d", "1d1d", "1.5d", "d", "-d", "1dd", "1d 1h", "106751d", "106752d", "-106752d", "213504d", "9223372036854775807d", "9223372036854775808d",
		"1w", "1y", "1mo", "1day", "1D", "1h30", "30m1", "1h30m15", "1m30s500", "1h,30m", "1h 30m", "1hr", "1min", "1sec", "PT1H", "01:30:00", "1:30",
		"0.5ns", "1.9ns", "0.0000000000001h", "1e3s", "0x1s", "1_0s", "s", "h", "-", "+", "--1s", "1.5", ".5", "1h-1m", "1h+1m", "١s", "1µs", "1μs", "1µ", "µs"}
}

// ---------------------------------------------------------------- hex / base 32

func fixedHexTokens() []string {
	return []string{"", "0", "1", "9", "a", "f", "g", "v", "w", "z", "A", "F", "G", "V", "W", "Z", "10", "ff", "FF", "fF", "-ff", "+ff", "-0", "+0", "-", "+", "--1", "+-1", "0x10", "0X10", "x10", "1_0", " 1", "1 ", "1.0",
		"/", ":", "@", "[", "`", "{", "1/", "1:", "1@", "1[", "1`", "1{", "\xff", "1\x80", "é",
		"7fffffffffffffff", "8000000000000000", "8000000000000001", "-7fffffffffffffff", "-8000000000000000", "-8000000000000001", "ffffffffffffffff", "10000000000000000", "10000000000000001", "-ffffffffffffffff",
		"000000000000000000007fffffffffffffff", "0000000000000000000010000000000000000", "fffffffffffffffff", "7FFFFFFFFFFFFFFF", "FFFFFFFFFFFFFFFF",
		"7vvvvvvvvvvvv", "8000000000000", "8000000000001", "-7vvvvvvvvvvvv", "-8000000000000", "-8000000000001", "fvvvvvvvvvvvv", "g000000000000", "g000000000001", "FVVVVVVVVVVVV", "vvvvvvvvvvvvv", "1000000000000000000000"}
}
func (g *gen) hexToken(base int) (string, string) {
	digits := "0123456789abcdefghijklmnopqrstuvwxyz"
	body := func() string {
		switch g.intn(6) {
		case 0:
			return strconv.FormatUint(g.randU64(), base)
		case 1:
			v := g.randI64()
			if v < 0 {
				return strconv.FormatUint(uint64(-(v+1))+1, base)
			}
			return strconv.FormatInt(v, base)
		case 2:
			// around 2^63 and 2^64
			z := new(big.Int).Add([]*big.Int{two63, two64}[g.intn(2)], big.NewInt(int64(g.intn(5)-2)))
			return z.Text(base)
		case 3:
			n := 1 + g.intn(20)
			b := make([]byte, n)
			for i := range b {
				b[i] = digits[g.intn(base)]
			}
			return string(b)
		}
		return strconv.FormatInt(int64(g.intn(100000)), base)
	}()
	switch g.intn(12) {
	case 0:
		return strings.ToUpper(body), "upper"
	case 1:
		return "-" + body, "signed"
	case 2:
		return "+" + body, "signed"
	case 3:
		return strings.Repeat("0", 1+g.intn(20)) + body, "zeros"
	case 4:
		// a character just outside the digit range of this base, or of the letter ranges
		c := []string{string(digits[base%36]), strings.ToUpper(string(digits[base%36])), "/", ":", "@", "[", "`", "{", "_", " ", "x", "\xc3\xa9", "\x80"}
		return g.insertAt(body, g.pick(c)), "junk"
	case 5:
		b := []byte(body)
		for i := range b {
			if g.chance(50) {
				b[i] = strings.ToUpper(string(b[i]))[0]
			}
		}
		return string(b), "upper"
	}
	return body, "canon"
}

// ---------------------------------------------------------------- everything

var sentI = vz(7777)

func (g *gen) all() []input {
	// ---- the five quoted-integer JSON wrappers
	intTypes := []string{"JI64", "JU64", "JUnixTime", "JNanoTime", "JStamp"}
	fixed := fixedIntTokens()
	for _, t := range intTypes {
		for _, tc := range fixed {
			g.dec(t, tc.class, tc.tok)
		}
		for i, n := 0, g.vol("dec", t, 160); i < n; i++ {
			tc := g.randIntToken()
			g.dec(t, tc.class, tc.tok)
		}
	}
	// ---- JsByte: JSON and plain string form
	for _, s := range fixedByteInner() {
		g.dec("JByte", "q-fixed", q(s))
		g.dec("JByte", "bare-fixed", []byte(s))
		g.dec("XByteStr", "fixed", []byte(s))
	}
	for _, tc := range fixed {
		if tc.class == "literal" || tc.class == "malformed" || tc.class == "bare-int" || tc.class == "bare-frac-exp" || tc.class == "q-empty" {
			g.dec("JByte", tc.class, tc.tok)
		}
	}
	for i, n := 0, g.vol("dec", "JByte", 220); i < n; i++ {
		s, class := g.byteListText()
		switch g.intn(10) {
		case 0:
			g.dec("JByte", "bare-"+class, []byte(s))
		case 1:
			g.dec("JByte", "bare-int", []byte(strconv.Itoa(g.intn(100000))))
		default:
			g.dec("JByte", "q-"+class, q(s))
		}
	}
	for i, n := 0, g.vol("dec", "XByteStr", 120); i < n; i++ {
		s, class := g.byteListText()
		g.dec("XByteStr", class, []byte(s))
	}
	// ---- Duration
	for _, s := range fixedDurInner() {
		g.dec("JDur", "q-fixed", q(s))
		if s != "" && !strings.ContainsAny(s, " ") {
			g.dec("JDur", "bare-fixed", []byte(s))
		}
	}
	for _, tc := range fixed {
		if tc.class == "literal" || tc.class == "malformed" || tc.class == "bare-int" || tc.class == "bare-frac-exp" || tc.class == "q-empty" || tc.class == "q-canon" {
			g.dec("JDur", tc.class, tc.tok)
		}
	}
	for d1 := 1; d1 <= 9; d1 += 2 { // bare numbers whose middle is "0": the one unit-less text ParseDuration accepts
		for d2 := 0; d2 <= 9; d2 += 3 {
			g.dec("JDur", "bare-int", []byte(strconv.Itoa(d1*100+d2)))
		}
	}
	for i, n := 0, g.vol("dec", "JDur", 200); i < n; i++ {
		s, class := g.durText()
		switch g.intn(12) {
		case 0:
			g.dec("JDur", "bare-"+class, []byte(s))
		case 1:
			g.dec("JDur", "bare-int", []byte(g.pick([]string{"", "-"})+strconv.Itoa(1+g.intn(9))+g.pick([]string{"0", "00", "0s", "1s", "5m"})+strconv.Itoa(g.intn(10))))
		default:
			g.dec("JDur", class, q(s))
		}
	}
	// ---- hex.go
	for _, t := range []string{"XHex:s:16", "XHex:u:16", "XHex:s:32", "XHex:u:32"} {
		base := 16
		if strings.HasSuffix(t, "32") {
			base = 32
		}
		for _, s := range fixedHexTokens() {
			g.dec(t, "fixed", []byte(s))
		}
		for i, n := 0, g.vol("dec", t, 110); i < n; i++ {
			s, class := g.hexToken(base)
			g.dec(t, class, []byte(s))
		}
		signed := strings.Contains(t, ":s:")
		for _, v := range i64Pool {
			if signed {
				g.enc(t, "pool", vz(v))
			}
		}
		for _, v := range u64Pool {
			if !signed {
				g.enc(t, "pool", vu(v))
			}
		}
		for i, n := 0, g.vol("enc", t, 40); i < n; i++ {
			if signed {
				g.enc(t, "random", vz(g.randI64()))
			} else {
				g.enc(t, "random", vu(g.randU64()))
			}
		}
	}
	// ---- round trips of the JSON wrappers
	for _, v := range i64Pool {
		g.enc("JI64", "pool", vz(v))
		g.enc("JStamp", "pool", vz(v))
		g.enc("JDur", "pool", vz(v))
	}
	for _, v := range []int64{999, 1000, 1001, 999999, 1000000, 1000001, 59999999999, 60000000000, 3599999999999, 3600000000001, 1500000000, 1500000, 1500, -1500, 90 * 60e9, 100 * 3600e9} {
		g.enc("JDur", "unit-boundary", vz(v))
		g.enc("JDur", "unit-boundary", vz(-v))
	}
	for _, v := range u64Pool {
		g.enc("JU64", "pool", vu(v))
	}
	for i, n := 0, g.vol("enc", "JI64", 50); i < n; i++ {
		g.enc("JI64", "random", vz(g.randI64()))
	}
	for i, n := 0, g.vol("enc", "JU64", 50); i < n; i++ {
		g.enc("JU64", "random", vu(g.randU64()))
	}
	for i, n := 0, g.vol("enc", "JStamp", 40); i < n; i++ {
		g.enc("JStamp", "random", vz(g.randI64()))
	}
	for i, n := 0, g.vol("enc", "JDur", 90); i < n; i++ {
		g.enc("JDur", "random", vz(g.randI64()))
	}
	// instants: seconds over all of int64, nanosecond part 0 / 1 / 999999999 / random
	nsecs := []int64{0, 1, 999999999, 500000000}
	for _, s := range i64Pool {
		g.enc("JUnixTime", "pool", val{K: 't', S: s, N: nsecs[g.intn(len(nsecs))], Loc: timeLocs[g.intn(3)]})
	}
	for _, loc := range timeLocs { // the zero time.Time, in every location, and its neighbours
		for _, d := range []int64{0, 1, -1, 86400, -86400} {
			g.enc("JUnixTime", "year-one", val{K: 't', S: yearOne + d, N: 0, Loc: loc})
			g.enc("JNanoTime", "year-one-outside-int64-ns", val{K: 't', S: yearOne + d, N: 0, Loc: loc})
		}
	}
	for i, n := 0, g.vol("enc", "JUnixTime", 40); i < n; i++ {
		g.enc("JUnixTime", "random", val{K: 't', S: g.randI64(), N: int64(g.intn(1000000000))})
	}
	// nanosecond instants: those representable in int64 nanoseconds (the domain), the two ends, and some outside
	for _, ns := range i64Pool {
		t := time.Unix(0, ns)
		g.enc("JNanoTime", "pool", vt(t))
	}
	for i, n := 0, g.vol("enc", "JNanoTime", 50); i < n; i++ {
		if g.chance(12) {
			g.enc("JNanoTime", "outside-int64-ns", val{K: 't', S: 9223372037 + int64(g.intn(1000000)), N: int64(g.intn(1000000000))})
			continue
		}
		g.enc("JNanoTime", "random", vt(time.Unix(0, g.randI64())))
	}
	// byte lists
	byteLists := [][]byte{{}, {0}, {7}, {255}, {0, 0}, {255, 255}, {1, 2, 3}, {0, 255, 0, 255}, {10, 100, 9, 99}, {47}, {47, 47, 34}, {128, 127}}
	for _, l := range byteLists {
		g.enc("JByte", "pool", vl(l))
		g.enc("XByteStr", "pool", vl(l))
	}
	for i, n := 0, g.vol("enc", "JByte", 60); i < n; i++ {
		l := make([]byte, g.intn(9))
		for j := range l {
			l[j] = byte([]int{0, 1, 9, 10, 99, 100, 255, g.intn(256), g.intn(256)}[g.intn(9)])
		}
		g.enc([]string{"JByte", "XByteStr"}[g.intn(2)], "random", vl(l))
	}
	// ---- Duration.UnmarshalTOML
	toml := func(class string, a sqlArg) {
		g.out = append(g.out, input{Op: "toml", T: "JDur", Arg: &a, Class: class})
	}
	for _, s := range fixedDurInner() {
		toml("string-fixed", sqlArg{Ty: "string", Hex: hexs([]byte(s))})
	}
	for i, n := 0, g.vol("toml", "JDur", 40); i < n; i++ {
		s, class := g.durText()
		toml("string-"+class, sqlArg{Ty: "string", Hex: hexs([]byte(s))})
	}
	for _, ty := range []string{"nil", "int64", "int", "float64", "bool", "bytes", "duration", "time"} {
		toml("other-type", sqlArg{Ty: ty, Int: "1000000000", Hex: hexs([]byte("1s"))})
	}
	// ---- SQL forms
	scan := func(k, class string, old val, a sqlArg) {
		o := toJV(old)
		g.out = append(g.out, input{Op: "scan", T: k, Old: &o, Arg: &a, Class: class})
	}
	value := func(k, class string, v, old val) {
		j, o := toJV(v), toJV(old)
		g.out = append(g.out, input{Op: "value", T: k, V: &j, Old: &o, Class: class})
	}
	oldT := val{K: 't', S: 7777, N: 7}
	intArg := func(ty string) sqlArg {
		switch ty {
		case "int32":
			return sqlArg{Ty: ty, Int: strconv.FormatInt(int64(int32(g.randI64())), 10)}
		case "uint32":
			return sqlArg{Ty: ty, Int: strconv.FormatUint(uint64(uint32(g.randU64())), 10)}
		case "int64", "int":
			return sqlArg{Ty: ty, Int: strconv.FormatInt(g.randI64(), 10)}
		case "int8":
			return sqlArg{Ty: ty, Int: strconv.FormatInt(int64(int8(g.randI64())), 10)}
		case "int16":
			return sqlArg{Ty: ty, Int: strconv.FormatInt(int64(int16(g.randI64())), 10)}
		case "uint8":
			return sqlArg{Ty: ty, Int: strconv.FormatUint(uint64(uint8(g.randU64())), 10)}
		}
		return sqlArg{Ty: ty, Int: strconv.FormatUint(g.randU64(), 10)}
	}
	for _, k := range []string{"KUnix2Time", "KNano2Time"} {
		for _, ty := range []string{"int32", "uint32", "int64", "uint64", "int", "uint"} {
			for _, v := range []string{"0", "1", "2147483647", "1700000000"} {
				scan(k, "int-"+ty, oldT, sqlArg{Ty: ty, Int: v})
			}
			for i, n := 0, g.vol("scan", k, 12); i < n; i++ {
				scan(k, "int-"+ty, oldT, intArg(ty))
			}
		}
		scan(k, "int-int32", oldT, sqlArg{Ty: "int32", Int: "-2147483648"})
		scan(k, "int-uint32", oldT, sqlArg{Ty: "uint32", Int: "4294967295"})
		scan(k, "int-int64", oldT, sqlArg{Ty: "int64", Int: "9223372036854775807"})
		scan(k, "int-int64", oldT, sqlArg{Ty: "int64", Int: "-9223372036854775808"})
		scan(k, "int-uint64-wraps", oldT, sqlArg{Ty: "uint64", Int: "9223372036854775808"})
		scan(k, "int-uint64-wraps", oldT, sqlArg{Ty: "uint64", Int: "18446744073709551615"})
		scan(k, "int-uint64", oldT, sqlArg{Ty: "uint64", Int: "9223372036854775807"})
		scan(k, "int-uint-wraps", oldT, sqlArg{Ty: "uint", Int: "18446744073709551615"})
		for _, ty := range []string{"nil", "float64", "bool", "int8", "int16", "uint8", "string", "bytes", "time"} {
			a := intArg("int8")
			a.Ty, a.Hex, a.Unix = ty, hexs([]byte("1700000000")), 1700000000
			scan(k, "other-type", oldT, a)
		}
		for _, s := range i64Pool {
			if k == "KUnix2Time" {
				value(k, "pool", val{K: 't', S: s, N: nsecs[g.intn(len(nsecs))], Loc: timeLocs[g.intn(3)]}, oldT)
			} else {
				value(k, "pool", vt(time.Unix(0, s)), oldT)
			}
		}
		for _, loc := range timeLocs {
			for _, d := range []int64{0, 1, -1, 86400, -86400} {
				value(k, "year-one", val{K: 't', S: yearOne + d, N: 0, Loc: loc}, oldT)
			}
			scan(k, "other-type", oldT, sqlArg{Ty: "time", Unix: yearOne, Loc: loc})
		}
		for i, n := 0, g.vol("value", k, 30); i < n; i++ {
			if k == "KUnix2Time" {
				value(k, "random", val{K: 't', S: g.randI64(), N: int64(g.intn(1000000000))}, oldT)
			} else if g.chance(10) {
				value(k, "outside-int64-ns", val{K: 't', S: -9223372038 - int64(g.intn(1000000)), N: int64(g.intn(1000000000))}, oldT)
			} else {
				value(k, "random", vt(time.Unix(0, g.randI64())), oldT)
			}
		}
	}
	for _, k := range []string{"KStamp", "KSqlTime2Unix"} {
		for _, s := range i64Pool {
			scan(k, "time", sentI, sqlArg{Ty: "time", Unix: s, Nsec: nsecs[g.intn(len(nsecs))], Loc: timeLocs[g.intn(3)]})
			value(k, "pool", vz(s), sentI)
		}
		for _, loc := range timeLocs { // the zero time.Time (Value() of the stamp -62135596800) in every location, and its neighbours
			for _, d := range []int64{0, 1, -1, 86400, -86400} {
				scan(k, "time-year-one", sentI, sqlArg{Ty: "time", Unix: yearOne + d, Loc: loc})
				scan(k, "time-year-one", vz(-1), sqlArg{Ty: "time", Unix: yearOne + d, Nsec: 1, Loc: loc})
				value(k, "year-one", vz(yearOne+d), vz(int64(g.intn(3))-1))
			}
		}
		for i, n := 0, g.vol("scan", k, 25); i < n; i++ {
			scan(k, "time", vz(g.randI64()), sqlArg{Ty: "time", Unix: g.randI64(), Nsec: int64(g.intn(1000000000))})
			value(k, "random", vz(g.randI64()), vz(g.randI64()))
		}
		for _, ty := range []string{"nil", "int64", "int", "uint64", "float64", "string", "bytes", "bool"} {
			scan(k, "other-type", vz(g.randI64()), sqlArg{Ty: ty, Int: "1700000000", Hex: hexs([]byte("1700000000"))})
		}
	}
	// base64
	oldB := vl([]byte{77, 77})
	b64Texts := []string{"", "QQ", "QUI", "QUJD", "QUJDRA", "QQ==", "QUI=", "QUJD=", "Q", "QUJDR", "QR", "QUJ", "QQ\n", "Q\nQ", "QU\r\nJD", " QQ", "QQ ", "Q-_Q", "Q+/Q", "+/+/", "-_-_", "@@@@", "QUJD\x00", "\xff\xff", "é", "////", "AAAA", "AA", "AAA", "A", "/w", "/x", "_w"}
	for _, s := range b64Texts {
		scan("KBase64", "string-fixed", oldB, sqlArg{Ty: "string", Hex: hexs([]byte(s))})
		scan("KBase64", "bytes-fixed", oldB, sqlArg{Ty: "bytes", Hex: hexs([]byte(s))})
	}
	for i, n := 0, g.vol("scan", "KBase64", 60); i < n; i++ {
		l := make([]byte, g.intn(10))
		g.e.Rnd.Read(l)
		s := base64.RawStdEncoding.EncodeToString(l)
		class := "canon"
		switch g.intn(8) {
		case 0:
			s, class = g.insertAt(s, g.pick([]string{"=", "\n", "\r", " ", "-", "_", "*", "\x80"})), "junk"
		case 1:
			s, class = base64.StdEncoding.EncodeToString(l), "padded"
		case 2:
			s, class = base64.RawURLEncoding.EncodeToString(l), "url-alphabet"
		case 3:
			if len(s) > 0 {
				s, class = s[:len(s)-1], "truncated"
			}
		}
		scan("KBase64", []string{"string-", "bytes-"}[i%2]+class, oldB, sqlArg{Ty: []string{"string", "bytes"}[i%2], Hex: hexs([]byte(s))})
	}
	for _, ty := range []string{"nil", "int64", "float64", "bool", "time", "uint8"} {
		scan("KBase64", "other-type", oldB, sqlArg{Ty: ty, Int: "65", Unix: 65})
	}
	for _, l := range [][]byte{{}, {0}, {255}, {0, 0}, {1, 2, 3}, {255, 255, 255}, {251, 255}, {0, 16, 131, 16, 81, 135, 32, 146, 139, 48, 211, 143, 65, 20, 147}, {1, 2, 3, 4}, {1, 2, 3, 4, 5}} {
		value("KBase64", "pool", vl(l), oldB)
	}
	for i, n := 0, g.vol("value", "KBase64", 50); i < n; i++ {
		l := make([]byte, g.intn(12))
		g.e.Rnd.Read(l)
		value("KBase64", "random", vl(l), oldB)
	}
	g.histories()
	g.parallels()
	g.zones()
	return g.out
}

// zone classes: the time-carrying round trips under several process zones (time.Local), swept across DST transitions.
// The model is zone-free (stamp -> instant -> stamp): the instant must survive whatever the zone of the process.
var procZones = []string{"UTC", "America/New_York", "Europe/Berlin", "Australia/Lord_Howe", "Asia/Shanghai"}

// the zone transitions (Unix seconds) of zone z within year y
func transitionsIn(z string, y int) []int64 {
	loc, err := time.LoadLocation(z)
	if err != nil {
		panic(err)
	}
	var out []int64
	t := time.Date(y, 1, 1, 0, 0, 0, 0, time.UTC).In(loc)
	end := time.Date(y+1, 1, 1, 0, 0, 0, 0, time.UTC)
	for {
		_, e := t.ZoneBounds()
		if e.IsZero() || !e.Before(end) {
			return out
		}
		out = append(out, e.Unix())
		t = e
	}
}

func (g *gen) zones() {
	valueIn := func(z, k, class string, v val) {
		j, o := toJV(v), toJV(sentI)
		if k == "KUnix2Time" || k == "KNano2Time" {
			o = toJV(val{K: 't', S: 7777, N: 7})
		}
		g.out = append(g.out, input{Op: "value", T: k, V: &j, Old: &o, Class: class, Zone: z})
	}
	stampVal := func(k string, sec int64) val {
		if k == "KUnix2Time" {
			return val{K: 't', S: sec, N: 0}
		}
		if k == "KNano2Time" {
			return vt(time.Unix(sec, 0))
		}
		return vz(sec)
	}
	usual := []int64{0, 1, -1, 86399, 86400, yearOne, 1700000000, math.MaxInt32, math.MaxInt32 + 1, 253402300799, math.MaxInt64, math.MinInt64}
	kinds := []string{"KStamp", "KSqlTime2Unix", "KUnix2Time", "KNano2Time"}
	for _, z := range procZones {
		// the usual boundaries under this zone
		for _, sec := range usual {
			for _, k := range kinds {
				if k == "KNano2Time" && (sec > 9223372036 || sec < -9223372036) {
					continue
				}
				valueIn(z, k, "zone-boundary", stampVal(k, sec))
			}
			a := sqlArg{Ty: "time", Unix: sec, Nsec: 0}
			o := toJV(sentI)
			g.out = append(g.out, input{Op: "scan", T: "KStamp", Old: &o, Arg: &a, Class: "zone-boundary", Zone: z})
		}
		years := []int{2021, 2024, 1970 + g.intn(68)}
		if g.e.Thorough || g.e.Search {
			years = append(years, 1986, 1991, 2007, 2011, 2019, 2025, 2030, 2037)
		}
		for _, y := range years {
			for _, tr := range transitionsIn(z, y) {
				// every second stamp kind, one by one, right at the fold / gap
				for _, d := range []int64{-3600, -3599, -1800, -600, -1, 0, 1, 600, 1800, 3599, 3600} {
					valueIn(z, "KStamp", "zone-transition", vz(tr+d))
					valueIn(z, "KSqlTime2Unix", "zone-transition", vz(tr+d))
				}
				// sweep every 10 minutes over +-3 h, as one history per kind (results kept, read at the end)
				for _, k := range kinds {
					var steps []hstep
					for d := int64(-10800); d <= 10800; d += 600 {
						steps = append(steps, hstep{E: "Value", V: toJV(stampVal(k, tr+d+int64(g.intn(600)))), Keep: true})
					}
					g.out = append(g.out, input{Op: "hist", T: k, Hist: steps, Class: "zone-sweep", Zone: z})
				}
				// the JSON time wrappers across the same transition
				for _, t := range []string{"JUnixTime", "JNanoTime"} {
					var steps []hstep
					for d := int64(-7200); d <= 7200; d += 1200 {
						steps = append(steps, hstep{E: g.pick(jsonEntries), V: toJV(val{K: 't', S: tr + d, N: int64(g.intn(1000000000))}), Keep: true})
					}
					g.out = append(g.out, input{Op: "hist", T: t, Hist: steps, Class: "zone-sweep", Zone: z})
				}
			}
		}
	}
}

// pure functions in parallel: 8 goroutines, each with its own few inputs (texts distinct between goroutines), tight loops;
// and the same items interleaved on one goroutine (decode A, decode B, decode A again)
func (g *gen) parallels() {
	const N = 8
	used := map[string]bool{}
	uniq := func(mk func() string) string {
		for {
			s := mk()
			if !used[s] {
				used[s] = true
				return s
			}
		}
	}
	decItem := func(t string, tok []byte) pitem { return pitem{Op: "dec", T: t, Tok: hexs(tok)} }
	encItem := func(t string, v val) pitem { j := toJV(v); return pitem{Op: "enc", T: t, V: &j} }
	type plan struct {
		t     string
		loops int // calls per goroutine in the quick tier
		runs  int
		items func(gi int) []pitem
	}
	durText := func() string {
		return uniq(func() string {
			if g.chance(25) {
				return strconv.Itoa(1+g.intn(5000)) + g.pick([]string{"ns", "us", "ms", "s", "m", "h"})
			}
			return time.Duration(g.randI64()).String()
		})
	}
	numText := func() string { return uniq(func() string { return g.pick([]string{"", "-"}) + g.numText() }) }
	plans := []plan{
		{"JDur", 150000, 2, func(int) []pitem {
			return []pitem{decItem("JDur", q(durText())), decItem("JDur", q(durText())), decItem("JDur", q(durText())),
				{Op: "toml", T: "JDur", Tok: hexs([]byte(durText()))}, decItem("JDur", q(durText()+"x")), encItem("JDur", vz(g.randI64()))}
		}},
		{"JI64", 30000, 1, func(int) []pitem {
			return []pitem{decItem("JI64", q(numText())), decItem("JI64", []byte(numText())), decItem("JI64", q(numText())), encItem("JI64", vz(g.randI64()))}
		}},
		{"JU64", 30000, 1, func(int) []pitem {
			return []pitem{decItem("JU64", q(numText())), decItem("JU64", q(numText())), decItem("JU64", []byte(numText())), encItem("JU64", vu(g.randU64()))}
		}},
		{"JUnixTime", 30000, 1, func(int) []pitem {
			return []pitem{decItem("JUnixTime", q(numText())), decItem("JUnixTime", q(numText())), encItem("JUnixTime", g.valueFor("JUnixTime"))}
		}},
		{"JNanoTime", 30000, 1, func(int) []pitem {
			return []pitem{decItem("JNanoTime", q(numText())), decItem("JNanoTime", q(numText())), encItem("JNanoTime", g.valueFor("JNanoTime"))}
		}},
		{"JStamp", 30000, 1, func(int) []pitem {
			return []pitem{decItem("JStamp", q(numText())), decItem("JStamp", q(numText())), encItem("JStamp", vz(g.randI64()))}
		}},
		{"JByte", 30000, 1, func(int) []pitem {
			s1, _ := g.byteListText()
			s2, _ := g.byteListText()
			return []pitem{decItem("JByte", q(s1)), decItem("XByteStr", []byte(s2)), encItem("JByte", g.valueFor("JByte")), encItem("XByteStr", g.valueFor("JByte"))}
		}},
		{"XHex", 30000, 1, func(gi int) []pitem {
			t := []string{"XHex:s:16", "XHex:u:16", "XHex:s:32", "XHex:u:32"}[gi%4]
			base := 16
			if strings.HasSuffix(t, "32") {
				base = 32
			}
			s1, _ := g.hexToken(base)
			s2, _ := g.hexToken(base)
			v := vu(g.randU64())
			if strings.Contains(t, ":s:") {
				v = vz(g.randI64())
			}
			return []pitem{decItem(t, []byte(s1)), decItem(t, []byte(s2)), encItem(t, v)}
		}},
	}
	for _, p := range plans {
		for run := 0; run < p.runs; run++ {
			streams := make([]pstream, N)
			for gi := range streams {
				streams[gi] = pstream{Items: p.items(gi)}
			}
			g.out = append(g.out, input{Op: "par", T: p.t, Par: streams, Loops: g.vol("par", p.t, p.loops) / map[bool]int{true: 3, false: 1}[g.e.Thorough || g.e.Search], Class: "parallel"})
			if run == 0 {
				g.out = append(g.out, input{Op: "seq", T: p.t, Par: streams, Loops: 3, Class: "interleaved"})
			}
		}
	}
}

// a value of the type t (codec or SQL kind)
func (g *gen) valueFor(t string) val {
	switch t {
	case "JI64", "JStamp", "JDur", "XHex:s:16", "XHex:s:32", "KStamp", "KSqlTime2Unix":
		return vz(g.randI64())
	case "JU64", "XHex:u:16", "XHex:u:32":
		return vu(g.randU64())
	case "JUnixTime", "KUnix2Time":
		return val{K: 't', S: g.randI64(), N: int64(g.intn(1000000000))}
	case "JNanoTime", "KNano2Time":
		return vt(time.Unix(0, g.randI64()))
	}
	l := make([]byte, g.intn(10))
	for j := range l {
		l[j] = byte([]int{0, 9, 10, 99, 100, 255, g.intn(256), g.intn(256), g.intn(256)}[g.intn(9)])
	}
	return vl(l)
}
func entriesOf(t string) []string {
	switch {
	case t == "JByte":
		return append([]string{"ToJS", "ToJS", "ToString"}, jsonEntries...)
	case jtypes[t] != nil:
		return jsonEntries
	case strings.HasPrefix(t, "XHex"):
		return []string{"format"}
	}
	return []string{"Value"}
}

// encode many, keep, encode more, decode at the end - sequentially and from several goroutines at once
func (g *gen) histories() {
	types := append(append([]string{}, jorder...), "XHex:s:16", "XHex:u:16", "XHex:s:32", "XHex:u:32", "KUnix2Time", "KNano2Time", "KStamp", "KSqlTime2Unix", "KBase64")
	for _, t := range types {
		es := entriesOf(t)
		quick := 4
		if t == "JByte" {
			quick = 14
		}
		for i, n := 0, g.vol("hist", t, quick); i < n; i++ {
			var steps []hstep
			for k, nk := 0, 2+g.intn(7); k < nk; k++ {
				steps = append(steps, hstep{E: g.pick(es), V: toJV(g.valueFor(t)), Keep: true})
			}
			for k, nk := 0, 1+g.intn(4); k < nk; k++ {
				steps = append(steps, hstep{E: g.pick(es), V: toJV(g.valueFor(t))})
			}
			g.out = append(g.out, input{Op: "hist", T: t, Hist: steps, Class: "sequential"})
		}
		quickC := 1
		if t == "JByte" {
			quickC = 4
		}
		for i, n := 0, g.vol("conc", t, quickC); i < n; i++ {
			var steps []hstep
			for k, nk := 0, 4+g.intn(5); k < nk; k++ {
				steps = append(steps, hstep{E: g.pick(es), V: toJV(g.valueFor(t)), Keep: true, G: k + 1})
			}
			g.out = append(g.out, input{Op: "conc", T: t, Hist: steps, Loops: 200, Class: "concurrent"})
		}
	}
}

var _ = vh.CoqBool
