package main

// "Pure functions in parallel" and "decode A, decode B, decode A again".
//
// Every decoder / encoder of C20 is specified as a pure function of its input (the model in C20_Model.v has no
// state).  So whatever the schedule, every call must return the model's result for ITS OWN input.  Op "par": N
// goroutines, released together by a spin barrier, each run a tight loop over their own small set of inputs (texts
// distinct between goroutines); op "seq": the same items on one goroutine in an interleaved order (A, B, A, C, A ...).
// Per input, the set of DISTINCT observed results is emitted as an ordinary CDec / CEnc / CToml case, so Coq decides
// (case_accept: every observed result is the model's; case_holds: every decoded value is the one the text denotes).
// Sound under every schedule: nothing is inferred from timing, a case only states "this call, with this input,
// returned that".

import (
	"encoding/hex"
	"fmt"
	"runtime"
	"sort"
	"sync"
	"sync/atomic"

	"github.com/pinealctx/neptune/tex"
	"verifharness/vh"
)

// one input of a stream
type pitem struct {
	Op  string `json:"op"`            // dec | enc | toml
	T   string `json:"t"`             // codec
	Tok string `json:"tok,omitempty"` // dec / toml: the text, hex
	V   *jv    `json:"v,omitempty"`   // enc: the value
}
type pstream struct {
	Items []pitem `json:"items"`
}

// observation of one call
type pobs struct {
	r   res
	out string // enc: the text produced
}

func (o pobs) key() string { return o.out + "\x00" + cres(o.r) }

// call runs the real code once for the item
func (it *pitem) call(tok []byte, v val) pobs {
	switch it.Op {
	case "dec":
		if jt := jtypes[it.T]; jt != nil {
			return pobs{r: jt.decode(0, tok)}
		}
		return pobs{r: textDecode(it.T, tok)}
	case "toml":
		return pobs{r: guard(func() res {
			x := tex.Duration(7777)
			err := x.UnmarshalTOML(string(tok))
			return rOf(vz(int64(x)), err)
		})}
	}
	// enc: encode, then decode what was produced
	var out []byte
	var back res
	if jt := jtypes[it.T]; jt != nil {
		o, err := jt.encode(v)
		if err != nil {
			o = []byte("MarshalJSON error: " + err.Error())
		}
		out, back = o, jt.decode(0, o)
	} else {
		out = textEncode(it.T, v)
		back = textDecode(it.T, out)
	}
	return pobs{r: back, out: string(out)}
}

type pcount struct {
	obs   pobs
	calls int
	who   int // goroutine that saw it first
}

func (r *runner) parallel(in input) {
	type slot struct {
		it   *pitem
		tok  []byte
		v    val
		seen map[string]*pcount
	}
	streams := make([][]*slot, len(in.Par))
	for g, st := range in.Par {
		for i := range st.Items {
			it := &in.Par[g].Items[i]
			s := &slot{it: it, seen: map[string]*pcount{}}
			s.tok, _ = hex.DecodeString(it.Tok)
			if it.V != nil {
				s.v = it.V.val()
			}
			streams[g] = append(streams[g], s)
		}
	}
	record := func(g int, s *slot, o pobs) {
		k := o.key()
		c := s.seen[k]
		if c == nil {
			c = &pcount{obs: o, who: g + 1}
			s.seen[k] = c
		}
		c.calls++
	}
	loops := in.Loops
	if loops <= 0 {
		loops = 1
	}
	if in.Op == "par" {
		var ready int32
		n := int32(len(streams))
		var wg sync.WaitGroup
		for g := range streams {
			wg.Add(1)
			go func(g int) {
				defer wg.Done()
				mine := streams[g]
				if len(mine) == 0 {
					return
				}
				x := uint32(2463534242 + 977*uint32(g)) // xorshift: which of its inputs the goroutine takes next (repeats are wanted)
				atomic.AddInt32(&ready, 1)
				for atomic.LoadInt32(&ready) < n { // spin barrier: all goroutines enter their loops together
					runtime.Gosched()
				}
				for i := 0; i < loops; i++ {
					x ^= x << 13
					x ^= x >> 17
					x ^= x << 5
					s := mine[int(x%uint32(len(mine)))]
					record(g, s, s.it.call(s.tok, s.v)) // s.seen is only touched by this goroutine
				}
			}(g)
		}
		wg.Wait()
	} else {
		// seq: A B A C A ... over all items of all streams, `loops` rounds
		var all []*slot
		for _, st := range streams {
			all = append(all, st...)
		}
		for round := 0; round < loops; round++ {
			for i := range all {
				a := all[(i+round)%len(all)]
				record(0, a, a.it.call(a.tok, a.v))
				b := all[i]
				record(0, b, b.it.call(b.tok, b.v))
				record(0, a, a.it.call(a.tok, a.v))
			}
		}
	}
	// one case per input: the distinct results it ever produced
	total := 0
	for g, st := range streams {
		for _, s := range st {
			var cs []string
			var js []interface{}
			calls := 0
			for _, c := range s.seen {
				calls += c.calls
			}
			// most frequent first; at most five distinct results go into the case(s) of one input
			var seen []*pcount
			for _, c := range s.seen {
				seen = append(seen, c)
			}
			sort.Slice(seen, func(i, j int) bool {
				if seen[i].calls != seen[j].calls {
					return seen[i].calls > seen[j].calls
				}
				return seen[i].obs.key() < seen[j].obs.key()
			})
			if len(seen) > 5 {
				seen = seen[:5]
			}
			total += calls
			d := map[string]interface{}{"item_op": s.it.Op, "item_type": s.it.T, "calls": calls, "distinct_results": len(s.seen)}
			if in.Op == "par" {
				d["goroutine"] = g + 1
				d["goroutines"] = len(streams)
			}
			sub := input{Op: in.Op, T: in.T, Class: in.Class, Par: in.Par, Loops: in.Loops}
			switch s.it.Op {
			case "dec":
				orc := "O0"
				if s.it.T == "JDur" && len(s.tok) >= 2 {
					innerB := s.tok[1 : len(s.tok)-1]
					pr := durParseOracle(innerB)
					orc = oracleP(innerB, pr)
					d["stdlib"] = map[string]interface{}{"time.ParseDuration": tokDesc(innerB), "gives": jres(pr)}
				}
				for _, c := range seen {
					cs = append(cs, cres(c.obs.r))
					js = append(js, map[string]interface{}{"result": jres(c.obs.r), "times": c.calls, "first_seen_by_goroutine": c.who})
				}
				d["text"] = tokDesc(s.tok)
				d["results"] = js
				r.emit(sub, fmt.Sprintf("CDec %s %s %s %s", ctyCoq(s.it.T), cbytes(s.tok), orc, vh.CoqList(cs)), true, d)
			case "toml":
				pr := durParseOracle(s.tok)
				d["text"] = tokDesc(s.tok)
				d["stdlib"] = map[string]interface{}{"time.ParseDuration": jres(pr)}
				for _, c := range seen {
					dd := map[string]interface{}{}
					for k, v := range d {
						dd[k] = v
					}
					dd["result"] = jres(c.obs.r)
					dd["times"] = c.calls
					r.emit(sub, fmt.Sprintf("CToml (Some %s) %s %s", cbytes(s.tok), oracleP(s.tok, pr), cres(c.obs.r)), true, dd)
				}
			default:
				orc := "O0"
				if s.it.T == "JDur" {
					show := []byte(timeDurString(s.v))
					orc = oracleSP(s.v, show, durParseOracle(show))
				}
				for _, c := range seen {
					dd := map[string]interface{}{}
					for k, v := range d {
						dd[k] = v
					}
					dd["value"] = jval(s.v)
					dd["encoded"] = tokDesc([]byte(c.obs.out))
					dd["decoded_back"] = jres(c.obs.r)
					dd["times"] = c.calls
					r.emit(sub, fmt.Sprintf("CEnc %s %s %s %s %s", ctyCoq(s.it.T), cval(s.v), orc, cbytes([]byte(c.obs.out)), cres(c.obs.r)), true, dd)
				}
			}
		}
	}
	r.parCalls[in.Op] += total
}
