// Command c20: correspondence harness for C20 (tex scalar wrappers).
//
// Every case is one input (a token, a value, an SQL argument) run through the REAL wrappers of
// github.com/pinealctx/neptune/tex: directly (the public UnmarshalJSON / FromString / HexI64 / Scan ... methods)
// and, for the JSON wrappers, through encoding/json and jsoniter (top level and as a struct field) so that what
// reaches UnmarshalJSON is what those libraries really pass.  The observation is printed as a Coq term of type
// `case` (C20_Spec.v); Coq decides `case_accept` (= the model's output) and `case_holds` (= the property).
package main

import (
	"encoding/base64"
	"encoding/hex"
	"encoding/json"
	"fmt"
	"math"
	"math/big"
	"runtime"
	"strconv"
	"strings"
	"sync"
	"time"
	_ "time/tzdata" // zone data embedded: time.LoadLocation works offline

	jsoniter "github.com/json-iterator/go"
	"github.com/pinealctx/neptune/tex"
	"verifharness/vh"
)

// ---------------------------------------------------------------- values and outcomes

type val struct {
	K    byte     // 'z' integer, 'l' byte list, 't' instant
	Z    *big.Int // K == 'z'
	L    []byte   // K == 'l'
	S, N int64    // K == 't': Unix(), Nanosecond()
	Loc  string   // K == 't': "" (Local, as time.Unix gives it) | "utc" | "+08:00" | "zero" (the zero time.Time literal)
}

// inLoc builds the instant in the requested location; "zero" is the literal time.Time{} (only for Unix() = -62135596800, nsec 0)
func inLoc(sec, nsec int64, loc string) time.Time {
	t := time.Unix(sec, nsec)
	switch loc {
	case "utc":
		return t.UTC()
	case "+08:00":
		return t.In(time.FixedZone("+08:00", 8*3600))
	case "zero":
		if sec == -62135596800 && nsec == 0 {
			return time.Time{}
		}
	}
	return t
}

func vz(i int64) val      { return val{K: 'z', Z: big.NewInt(i)} }
func vu(u uint64) val     { return val{K: 'z', Z: new(big.Int).SetUint64(u)} }
func vl(b []byte) val     { return val{K: 'l', L: append([]byte{}, b...)} }
func vt(t time.Time) val  { return val{K: 't', S: t.Unix(), N: int64(t.Nanosecond())} }
func (v val) time() time.Time { return inLoc(v.S, v.N, v.Loc) }

type res struct {
	Kind int // 0 ok, 1 err, 2 panic
	V    val
	Text string
}

func rOk(v val) res { return res{Kind: 0, V: v} }
func rOf(v val, err error) res {
	if err != nil {
		return res{Kind: 1, Text: err.Error()}
	}
	return rOk(v)
}

// guard runs f and turns a panic of the implementation into the observed outcome Panic
func guard(f func() res) (r res) {
	defer func() {
		if p := recover(); p != nil {
			r = res{Kind: 2, Text: fmt.Sprint(p)}
		}
	}()
	return f()
}

// ---------------------------------------------------------------- Coq printing

func cz(z *big.Int) string {
	if z.Sign() < 0 {
		return "(" + z.String() + ")%Z"
	}
	return z.String() + "%Z"
}
func cbytes(b []byte) string { return vh.CoqBytes(b) }
func cval(v val) string {
	switch v.K {
	case 'z':
		return "(VZ " + cz(v.Z) + ")"
	case 'l':
		return "(VL " + cbytes(v.L) + ")"
	}
	return "(VT " + vh.CoqZ(v.S) + " " + vh.CoqZ(v.N) + ")"
}
func cres(r res) string {
	switch r.Kind {
	case 0:
		return "(Ok " + cval(r.V) + ")"
	case 1:
		return "Err"
	}
	return "Panic"
}
func jval(v val) interface{} {
	switch v.K {
	case 'z':
		return map[string]interface{}{"int": v.Z.String()}
	case 'l':
		l := make([]int, len(v.L))
		for i, x := range v.L {
			l[i] = int(x)
		}
		return map[string]interface{}{"bytes": l}
	}
	if v.Loc != "" {
		return map[string]interface{}{"unix": v.S, "nsec": v.N, "location": v.Loc}
	}
	return map[string]interface{}{"unix": v.S, "nsec": v.N}
}
func jres(r res) interface{} {
	switch r.Kind {
	case 0:
		return map[string]interface{}{"ok": jval(r.V)}
	case 1:
		return map[string]interface{}{"err": r.Text}
	}
	return map[string]interface{}{"panic": r.Text}
}

// ---------------------------------------------------------------- the JSON wrappers, generically

type holder[T any] struct {
	V T `json:"v"`
}

var jiter = jsoniter.ConfigCompatibleWithStandardLibrary

// the five ways a token reaches UnmarshalJSON
// (paths 5..9 are the same five with the receiver holding a second, different non-zero value beforehand)
var pathNames = []string{"direct", "std-top", "std-field", "iter-top", "iter-field",
	"direct/receiver2", "std-top/receiver2", "std-field/receiver2", "iter-top/receiver2", "iter-field/receiver2"}

type jtype struct {
	coq    string
	decode func(path int, tok []byte) res // run the real wrapper on one path
	encode func(v val) ([]byte, error)    // MarshalJSON
	viaLib func(v val) (string, string)   // json.Marshal / jsoniter.Marshal of the value (advisory)
	// entry marshals v through one encoder entry point and returns exactly what the API returned (no copy)
	entry func(name string, v val) ([]byte, error)
}

// encoder entry points every JSON wrapper has
var jsonEntries = []string{"MarshalJSON", "json.Marshal", "jsoniter.Marshal", "json.Marshal(struct)", "jsoniter.Marshal(struct)"}

func mkJ[T any, PT interface {
	*T
	json.Unmarshaler
}](coq string, sentinel T, sentinel2 T, toVal func(T) val, fromVal func(val) T, marshal func(T) ([]byte, error)) *jtype {
	field := func(tok []byte) []byte { return []byte(`{"v":` + string(tok) + `}`) }
	return &jtype{
		coq: coq,
		decode: func(path int, tok []byte) res {
			return guard(func() res {
				x := sentinel
				if path >= 5 {
					x = sentinel2
				}
				h := holder[T]{V: x}
				var err error
				switch path % 5 {
				case 0:
					err = PT(&x).UnmarshalJSON(append([]byte{}, tok...))
				case 1:
					err = json.Unmarshal(tok, &x)
				case 2:
					err = json.Unmarshal(field(tok), &h)
					x = h.V
				case 3:
					err = jiter.Unmarshal(tok, &x)
				case 4:
					err = jiter.Unmarshal(field(tok), &h)
					x = h.V
				}
				return rOf(toVal(x), err)
			})
		},
		encode: func(v val) ([]byte, error) { return marshal(fromVal(v)) },
		viaLib: func(v val) (string, string) {
			a, _ := json.Marshal(fromVal(v))
			b, _ := jiter.Marshal(fromVal(v))
			return string(a), string(b)
		},
		entry: func(name string, v val) ([]byte, error) {
			x := fromVal(v)
			switch name {
			case "MarshalJSON":
				return marshal(x)
			case "json.Marshal":
				return json.Marshal(x)
			case "jsoniter.Marshal":
				return jiter.Marshal(x)
			case "json.Marshal(struct)":
				return json.Marshal(&holder[T]{V: x})
			case "jsoniter.Marshal(struct)":
				return jiter.Marshal(&holder[T]{V: x})
			}
			panic("harness: unknown entry point " + name)
		},
	}
}

// probe records what a library hands to UnmarshalJSON
type probe struct{ got [][]byte }

func (p *probe) UnmarshalJSON(b []byte) error {
	p.got = append(p.got, append([]byte{}, b...))
	return nil
}

// delivered returns, for the four library paths, the bytes UnmarshalJSON receives for this token
// (nil when the library rejects the text, does not call the method, or calls it more than once)
func delivered(tok []byte) [5][]byte {
	var out [5][]byte
	out[0] = tok
	for path := 1; path <= 4; path++ {
		func() {
			defer func() { _ = recover() }()
			var p probe
			var h holder[probe]
			var err error
			got := &p.got
			switch path {
			case 1:
				err = json.Unmarshal(tok, &p)
			case 2:
				err = json.Unmarshal([]byte(`{"v":`+string(tok)+`}`), &h)
				got = &h.V.got
			case 3:
				err = jiter.Unmarshal(tok, &p)
			case 4:
				err = jiter.Unmarshal([]byte(`{"v":`+string(tok)+`}`), &h)
				got = &h.V.got
			}
			if err == nil && len(*got) == 1 {
				out[path] = (*got)[0]
			}
		}()
	}
	return out
}

var jtypes = map[string]*jtype{
	"JI64": mkJ[tex.JsInt64]("JI64", 7777, math.MinInt64, func(x tex.JsInt64) val { return vz(int64(x)) },
		func(v val) tex.JsInt64 { return tex.JsInt64(v.Z.Int64()) }, func(x tex.JsInt64) ([]byte, error) { return x.MarshalJSON() }),
	"JU64": mkJ[tex.JsUInt64]("JU64", 7777, math.MaxUint64, func(x tex.JsUInt64) val { return vu(uint64(x)) },
		func(v val) tex.JsUInt64 { return tex.JsUInt64(v.Z.Uint64()) }, func(x tex.JsUInt64) ([]byte, error) { return x.MarshalJSON() }),
	"JUnixTime": mkJ[tex.JsUnixTime]("JUnixTime", tex.JsUnixTime(time.Unix(7777, 7)), tex.JsUnixTime(time.Unix(-5, 5).UTC()), func(x tex.JsUnixTime) val { return vt(time.Time(x)) },
		func(v val) tex.JsUnixTime { return tex.JsUnixTime(v.time()) }, func(x tex.JsUnixTime) ([]byte, error) { return x.MarshalJSON() }),
	"JNanoTime": mkJ[tex.JsNanoTime]("JNanoTime", tex.JsNanoTime(time.Unix(7777, 7)), tex.JsNanoTime(time.Unix(-5, 5).UTC()), func(x tex.JsNanoTime) val { return vt(time.Time(x)) },
		func(v val) tex.JsNanoTime { return tex.JsNanoTime(v.time()) }, func(x tex.JsNanoTime) ([]byte, error) { return x.MarshalJSON() }),
	"JStamp": mkJ[tex.UnixStamp]("JStamp", 7777, -1, func(x tex.UnixStamp) val { return vz(int64(x)) },
		func(v val) tex.UnixStamp { return tex.UnixStamp(v.Z.Int64()) }, func(x tex.UnixStamp) ([]byte, error) { return x.MarshalJSON() }),
	"JDur": mkJ[tex.Duration]("JDur", 7777, -1, func(x tex.Duration) val { return vz(int64(x)) },
		func(v val) tex.Duration { return tex.Duration(v.Z.Int64()) }, func(x tex.Duration) ([]byte, error) { return x.MarshalJSON() }),
	"JByte": mkJ[tex.JsByte]("JByte", tex.JsByte{77, 77}, tex.JsByte{1}, func(x tex.JsByte) val { return vl(x) },
		func(v val) tex.JsByte { return tex.JsByte(append([]byte{}, v.L...)) }, func(x tex.JsByte) ([]byte, error) { return x.MarshalJSON() }),
}
var jorder = []string{"JI64", "JU64", "JUnixTime", "JNanoTime", "JStamp", "JDur", "JByte"}

// ---------------------------------------------------------------- the stdlib codecs as oracles

func durParseOracle(s []byte) res {
	d, err := time.ParseDuration(string(s))
	return rOf(vz(int64(d)), err)
}
func b64DecOracle(s []byte) res {
	b, err := base64.RawStdEncoding.DecodeString(string(s))
	return rOf(vl(b), err)
}
func oracleP(s []byte, r res) string { return "(OP " + cbytes(s) + " " + cres(r) + ")" }
func oracleSP(v val, s []byte, r res) string {
	return "(OSP " + cval(v) + " " + cbytes(s) + " " + cres(r) + ")"
}

// ---------------------------------------------------------------- inputs (JSON-able, so that every case can be replayed)

type jv struct {
	Int   string `json:"int,omitempty"`
	Bytes []int  `json:"bytes,omitempty"`
	IsL   bool   `json:"isl,omitempty"`
	Unix  int64  `json:"unix,omitempty"`
	Nsec  int64  `json:"nsec,omitempty"`
	IsT   bool   `json:"ist,omitempty"`
	Loc   string `json:"loc,omitempty"`
}

func toJV(v val) jv {
	switch v.K {
	case 'z':
		return jv{Int: v.Z.String()}
	case 'l':
		l := make([]int, len(v.L))
		for i, x := range v.L {
			l[i] = int(x)
		}
		return jv{Bytes: l, IsL: true}
	}
	return jv{Unix: v.S, Nsec: v.N, IsT: true, Loc: v.Loc}
}
func (j jv) val() val {
	switch {
	case j.IsL:
		b := make([]byte, len(j.Bytes))
		for i, x := range j.Bytes {
			b[i] = byte(x)
		}
		return val{K: 'l', L: b}
	case j.IsT:
		return val{K: 't', S: j.Unix, N: j.Nsec, Loc: j.Loc}
	}
	z, _ := new(big.Int).SetString(j.Int, 10)
	if z == nil {
		z = big.NewInt(0)
	}
	return val{K: 'z', Z: z}
}

// SQL / TOML argument: a dynamic Go type name plus its value
type sqlArg struct {
	Ty   string `json:"ty"`            // int32 uint32 int64 uint64 int uint time bytes string nil float64 bool int8 int16 uint8 duration
	Int  string `json:"int,omitempty"` // integer types
	Hex  string `json:"hex,omitempty"` // bytes / string
	Unix int64  `json:"unix,omitempty"`
	Nsec int64  `json:"nsec,omitempty"`
	Loc  string `json:"loc,omitempty"` // time: location, see inLoc
}

func (a sqlArg) goValue() interface{} {
	z, _ := new(big.Int).SetString(a.Int, 10)
	if z == nil {
		z = big.NewInt(0)
	}
	b, _ := hex.DecodeString(a.Hex)
	switch a.Ty {
	case "int32":
		return int32(z.Int64())
	case "uint32":
		return uint32(z.Uint64())
	case "int64":
		return z.Int64()
	case "uint64":
		return z.Uint64()
	case "int":
		return int(z.Int64())
	case "uint":
		return uint(z.Uint64())
	case "int8":
		return int8(z.Int64())
	case "int16":
		return int16(z.Int64())
	case "uint8":
		return uint8(z.Uint64())
	case "duration":
		return time.Duration(z.Int64())
	case "float64":
		return float64(z.Int64())
	case "bool":
		return z.Sign() != 0
	case "time":
		return inLoc(a.Unix, a.Nsec, a.Loc)
	case "bytes":
		return b
	case "string":
		return string(b)
	}
	return nil
}
func (a sqlArg) coq() string {
	z, _ := new(big.Int).SetString(a.Int, 10)
	if z == nil {
		z = big.NewInt(0)
	}
	b, _ := hex.DecodeString(a.Hex)
	switch a.Ty {
	case "int32":
		return "(SI32 " + cz(z) + ")"
	case "uint32":
		return "(SU32 " + cz(z) + ")"
	case "int64":
		return "(SI64 " + cz(z) + ")"
	case "uint64":
		return "(SU64 " + cz(z) + ")"
	case "int":
		return "(SInt " + cz(z) + ")"
	case "uint":
		return "(SUint " + cz(z) + ")"
	case "time":
 		t := inLoc(a.Unix, a.Nsec, a.Loc)
		return "(STime " + vh.CoqZ(t.Unix()) + " " + vh.CoqZ(int64(t.Nanosecond())) + ")"
	case "bytes":
		return "(SBytes " + cbytes(b) + ")"
	case "string":
		return "(SStr " + cbytes(b) + ")"
	}
	return "SOther"
}

// what Value() returned, as an sqlArg
func argOf(x interface{}) sqlArg {
	switch v := x.(type) {
	case int64:
		return sqlArg{Ty: "int64", Int: strconv.FormatInt(v, 10)}
	case time.Time:
		return sqlArg{Ty: "time", Unix: v.Unix(), Nsec: int64(v.Nanosecond())}
	case string:
		return sqlArg{Ty: "string", Hex: hex.EncodeToString([]byte(v))}
	case []byte:
		return sqlArg{Ty: "bytes", Hex: hex.EncodeToString(v)}
	}
	return sqlArg{Ty: "nil"}
}

type input struct {
	Op    string  `json:"op"`            // dec enc toml scan value
	T     string  `json:"t"`             // codec (cty) or SQL kind (sqlk)
	Tok   string  `json:"tok,omitempty"` // dec: the token, hex
	V     *jv     `json:"v,omitempty"`   // enc / value: the value; scan / value: the receiver's old content in Old
	Old   *jv     `json:"old,omitempty"`
	Arg   *sqlArg `json:"arg,omitempty"` // scan / toml
	Class string  `json:"class"`
	Hist  []hstep `json:"hist,omitempty"`  // hist / conc: the encoder calls, in order (conc: G = goroutine)
	Loops int     `json:"loops,omitempty"` // conc: how often every goroutine repeats its call; par: calls per goroutine; seq: rounds
	Par   []pstream `json:"par,omitempty"` // par / seq: one stream of inputs per goroutine
	Zone  string    `json:"zone,omitempty"` // run this input with time.Local set to this zone (embedded time/tzdata)
}

// one encoder call of a history
type hstep struct {
	E    string `json:"e"`              // entry point
	V    jv     `json:"v"`              // the value encoded
	Keep bool   `json:"keep,omitempty"` // the result is kept and read at the end
	G    int    `json:"g,omitempty"`    // conc: goroutine number
}

// ---------------------------------------------------------------- non-JSON text codecs

// XByteStr, XHex:<s|u>:<base>
func textDecode(t string, s []byte) res {
	return guard(func() res {
		switch {
		case t == "XByteStr":
			x := tex.JsByte{77, 77}
			err := x.FromString(string(s))
			return rOf(vl(x), err)
		case t == "XHex:s:16":
			v, err := tex.HexI64(string(s))
			return rOf(vz(v), err)
		case t == "XHex:u:16":
			v, err := tex.HexU64(string(s))
			return rOf(vu(v), err)
		case t == "XHex:s:32":
			v, err := tex.HexI64V2(string(s))
			return rOf(vz(v), err)
		case t == "XHex:u:32":
			v, err := tex.HexU64V2(string(s))
			return rOf(vu(v), err)
		}
		panic("harness: unknown text codec " + t)
	})
}
func textEncode(t string, v val) []byte {
	switch t {
	case "XByteStr":
		s := tex.JsByte(v.L).ToString()
		if js := string(tex.JsByte(v.L).ToJS()); js != s {
			return []byte("ToJS/ToString differ: " + js + " vs " + s)
		}
		return []byte(s)
	case "XHex:s:16":
		return []byte(tex.I64Hex(v.Z.Int64()))
	case "XHex:u:16":
		return []byte(tex.U64Hex(v.Z.Uint64()))
	case "XHex:s:32":
		return []byte(tex.I64HexV2(v.Z.Int64()))
	case "XHex:u:32":
		return []byte(tex.U64HexV2(v.Z.Uint64()))
	}
	panic("harness: unknown text codec " + t)
}
func ctyCoq(t string) string {
	switch t {
	case "XHex:s:16":
		return "(XHex true 16%Z)"
	case "XHex:u:16":
		return "(XHex false 16%Z)"
	case "XHex:s:32":
		return "(XHex true 32%Z)"
	case "XHex:u:32":
		return "(XHex false 32%Z)"
	}
	return t
}

// ---------------------------------------------------------------- SQL forms

func sqlScan(k string, old val, arg interface{}) res {
	return guard(func() res {
		switch k {
		case "KUnix2Time":
			x := tex.Unix2Time(old.time())
			err := x.Scan(arg)
			return rOf(vt(time.Time(x)), err)
		case "KNano2Time":
			x := tex.UnixNano2Time(old.time())
			err := x.Scan(arg)
			return rOf(vt(time.Time(x)), err)
		case "KStamp":
			x := tex.UnixStamp(old.Z.Int64())
			err := x.Scan(arg)
			return rOf(vz(int64(x)), err)
		case "KSqlTime2Unix":
			x := tex.SQLTime2Unix(old.Z.Int64())
			err := x.Scan(arg)
			return rOf(vz(int64(x)), err)
		case "KBase64":
			x := tex.Base64Bytes(append([]byte{}, old.L...))
			err := x.Scan(arg)
			return rOf(vl(x), err)
		}
		panic("harness: unknown sql kind " + k)
	})
}
func sqlValue(k string, v val) (interface{}, error) {
	switch k {
	case "KUnix2Time":
		return tex.Unix2Time(v.time()).Value()
	case "KNano2Time":
		return tex.UnixNano2Time(v.time()).Value()
	case "KStamp":
		return tex.UnixStamp(v.Z.Int64()).Value()
	case "KSqlTime2Unix":
		return tex.SQLTime2Unix(v.Z.Int64()).Value()
	case "KBase64":
		return tex.Base64Bytes(v.L).Value()
	}
	panic("harness: unknown sql kind " + k)
}

// ---------------------------------------------------------------- running one input

type runner struct {
	e        *vh.Env
	libSkips map[string]int
	paths    map[string]int
	parCalls map[string]int
}

// tokDesc shows a byte string as it is when it is printable ASCII, Go-quoted otherwise
func tokDesc(b []byte) string {
	for _, c := range b {
		if c < 0x20 || c > 0x7e {
			return "go-quoted:" + strconv.QuoteToASCII(string(b))
		}
	}
	return string(b)
}

func (r *runner) emit(in input, coq string, nontrivial bool, desc map[string]interface{}) {
	rb, _ := json.Marshal(in)
	desc["op"] = in.Op
	desc["type"] = in.T
	if in.Zone != "" {
		desc["process_zone_time.Local"] = in.Zone
	}
	r.e.Emit(vh.Case{Coq: coq, Desc: desc, Class: in.Op + "/" + in.T + "/" + in.Class, Nontrivial: nontrivial, Replay: string(rb)})
}

func (r *runner) run(in input) {
	if in.Zone != "" {
		// the process zone is global: inputs run one after the other, and the parallel classes never carry a zone
		loc, err := time.LoadLocation(in.Zone)
		if err != nil {
			panic("harness: cannot load zone " + in.Zone + ": " + err.Error())
		}
		saved := time.Local
		time.Local = loc
		defer func() { time.Local = saved }()
	}
	switch in.Op {
	case "dec":
		tok, _ := hex.DecodeString(in.Tok)
		jt := jtypes[in.T]
		if jt == nil { // plain text codec: one path
			o := textDecode(in.T, tok)
			coq := fmt.Sprintf("CDec %s %s O0 [%s]", ctyCoq(in.T), cbytes(tok), cres(o))
			r.emit(in, coq, len(tok) > 0, map[string]interface{}{"text": tokDesc(tok), "result": jres(o)})
			return
		}
		del := delivered(tok)
		// group the paths by what reached UnmarshalJSON
		type grp struct {
			b     []byte
			obs   []res
			names []string
		}
		var groups []*grp
		for path := 0; path <= 9; path++ {
			if del[path%5] == nil {
				r.libSkips[pathNames[path]]++
				continue
			}
			o := jt.decode(path, tok)
			r.paths[pathNames[path]]++
			var g *grp
			for _, x := range groups {
				if string(x.b) == string(del[path%5]) {
					g = x
				}
			}
			if g == nil {
				g = &grp{b: del[path%5]}
				groups = append(groups, g)
			}
			g.obs = append(g.obs, o)
			g.names = append(g.names, pathNames[path])
		}
		for _, g := range groups {
			orc := "O0"
			var od interface{}
			if in.T == "JDur" && len(g.b) >= 2 {
				innerB := g.b[1 : len(g.b)-1]
				pr := durParseOracle(innerB)
				orc = oracleP(innerB, pr)
				od = map[string]interface{}{"time.ParseDuration": tokDesc(innerB), "gives": jres(pr)}
			}
			// the case carries the distinct observations (all paths normally agree); the per-path detail stays in desc
			var cs []string
			js := map[string]interface{}{}
			for i, o := range g.obs {
				c := cres(o)
				dup := false
				for _, x := range cs {
					dup = dup || x == c
				}
				if !dup {
					cs = append(cs, c)
				}
				js[g.names[i]] = jres(o)
			}
			coq := fmt.Sprintf("CDec %s %s %s %s", jt.coq, cbytes(g.b), orc, vh.CoqList(cs))
			d := map[string]interface{}{"json_text": tokDesc(tok), "reaches_UnmarshalJSON_as": tokDesc(g.b), "results": js}
			if od != nil {
				d["stdlib"] = od
			}
			r.emit(in, coq, len(g.obs) > 1 || g.obs[0].Kind == 0, d)
		}
	case "enc":
		v := in.V.val()
		jt := jtypes[in.T]
		var out []byte
		orc := "O0"
		d := map[string]interface{}{"value": jval(v)}
		if jt != nil {
			var err error
			out, err = jt.encode(v)
			if err != nil {
				out = []byte("MarshalJSON error: " + err.Error())
			}
			a, b := jt.viaLib(v)
			if a != string(out) || b != string(out) { // advisory: the libraries emit what MarshalJSON returns
				d["advisory_lib_encoding"] = []string{a, b}
			}
		} else {
			out = textEncode(in.T, v)
		}
		var back res
		if jt != nil {
			back = jt.decode(0, out)
		} else {
			back = textDecode(in.T, out)
		}
		if in.T == "JDur" {
			show := []byte(time.Duration(v.Z.Int64()).String())
			pr := durParseOracle(show)
			orc = oracleSP(v, show, pr)
			d["stdlib"] = map[string]interface{}{"Duration.String": string(show), "time.ParseDuration": jres(pr)}
		}
		coq := fmt.Sprintf("CEnc %s %s %s %s %s", ctyCoq(in.T), cval(v), orc, cbytes(out), cres(back))
		d["encoded"] = tokDesc(out)
		d["decoded_back"] = jres(back)
		r.emit(in, coq, true, d)
	case "toml":
		arg := in.Arg.goValue()
		o := guard(func() res {
			x := tex.Duration(7777)
			err := x.UnmarshalTOML(arg)
			return rOf(vz(int64(x)), err)
		})
		orc, v := "O0", "None"
		d := map[string]interface{}{"arg_type": in.Arg.Ty, "result": jres(o)}
		if in.Arg.Ty == "string" {
			s, _ := hex.DecodeString(in.Arg.Hex)
			pr := durParseOracle(s)
			orc = oracleP(s, pr)
			v = "(Some " + cbytes(s) + ")"
			d["arg"] = tokDesc(s)
			d["stdlib"] = map[string]interface{}{"time.ParseDuration": jres(pr)}
		}
		r.emit(in, fmt.Sprintf("CToml %s %s %s", v, orc, cres(o)), in.Arg.Ty == "string", d)
	case "scan":
		old := in.Old.val()
		arg := in.Arg.goValue()
		o := sqlScan(in.T, old, arg)
		orc := "O0"
		d := map[string]interface{}{"receiver_before": jval(old), "arg_type": in.Arg.Ty, "arg": in.Arg, "result": jres(o)}
		if in.T == "KBase64" && (in.Arg.Ty == "bytes" || in.Arg.Ty == "string") {
			s, _ := hex.DecodeString(in.Arg.Hex)
			pr := b64DecOracle(s)
			orc = oracleP(s, pr)
			d["arg"] = tokDesc(s)
			d["stdlib"] = map[string]interface{}{"RawStdEncoding.DecodeString": jres(pr)}
		}
		r.emit(in, fmt.Sprintf("CScan %s %s %s %s %s", in.T, cval(old), in.Arg.coq(), orc, cres(o)), true, d)
	case "value":
		v, old := in.V.val(), in.Old.val()
		x, err := sqlValue(in.T, v)
		a := argOf(x)
		if err != nil {
			a = sqlArg{Ty: "nil"}
		}
		back := sqlScan(in.T, old, x)
		orc := "O0"
		d := map[string]interface{}{"value": jval(v), "Value()": a, "receiver_before": jval(old), "scanned_back": jres(back)}
		if in.T == "KBase64" {
			s := []byte(base64.RawStdEncoding.EncodeToString(v.L))
			pr := b64DecOracle(s)
			orc = oracleSP(v, s, pr)
			d["stdlib"] = map[string]interface{}{"RawStdEncoding.EncodeToString": string(s), "DecodeString": jres(pr)}
		}
		r.emit(in, fmt.Sprintf("CValue %s %s %s %s %s %s", in.T, cval(v), cval(old), orc, a.coq(), cres(back)), true, d)
	case "hist", "conc":
		r.history(in)
	case "par", "seq":
		r.parallel(in)
	default:
		panic("harness: unknown op " + in.Op)
	}
}

func main() {
	vh.Main("c20", func(e *vh.Env) {
		r := &runner{e: e, libSkips: map[string]int{}, paths: map[string]int{}, parCalls: map[string]int{}}
		if e.Replay != "" {
			var in input
			if err := json.Unmarshal([]byte(e.Replay), &in); err != nil {
				panic(err)
			}
			r.run(in)
			return
		}
		g := &gen{e: e}
		for _, in := range g.all() {
			r.run(in)
		}
		e.Meta["paths_reaching_UnmarshalJSON"] = r.paths
		e.Meta["paths_where_library_did_not_deliver_the_token"] = r.libSkips
		e.Meta["calls_in_parallel_and_interleaved_classes"] = r.parCalls
		e.Meta["gomaxprocs"] = runtime.GOMAXPROCS(0)
		e.Meta["generator"] = "c20 v1: fixed boundary tokens + grammar-driven random tokens per wrapper; values from boundary pools + random bit lengths"
		e.Meta["focus"] = strings.TrimSpace(e.Focus)
	})
}

// ---------------------------------------------------------------- histories of encoder calls

// encodeVia calls one encoder entry point of type t and returns what the API returned, untouched:
// []byte, string, or the driver.Value of an SQL kind; codec = the model codec that describes that text
func encodeVia(t, e string, v val) (kept interface{}, codec string) {
	if jt := jtypes[t]; jt != nil {
		switch e {
		case "ToJS":
			return tex.JsByte(v.L).ToJS(), "XByteStr"
		case "ToString":
			return tex.JsByte(v.L).ToString(), "XByteStr"
		}
		b, err := jt.entry(e, v)
		if err != nil {
			return []byte("encoder error: " + err.Error()), t
		}
		return b, t
	}
	if strings.HasPrefix(t, "XHex") {
		return string(textEncode(t, v)), t
	}
	x, err := sqlValue(t, v)
	if err != nil {
		return nil, t
	}
	return x, t
}

type keptResult struct {
	step  hstep
	kept  interface{}
	codec string
	panic string
}

// readKept turns one kept result, as it reads NOW, into an item
func readKept(t string, k keptResult) (string, map[string]interface{}) {
	v := k.step.V.val()
	d := map[string]interface{}{"entry": k.step.E, "value": jval(v)}
	if k.step.G > 0 {
		d["goroutine"] = k.step.G
	}
	if k.panic != "" {
		d["panic"] = k.panic
	}
	if _, isSQL := map[string]bool{"KUnix2Time": true, "KNano2Time": true, "KStamp": true, "KSqlTime2Unix": true, "KBase64": true}[t]; isSQL {
		old := sentI
		if t == "KUnix2Time" || t == "KNano2Time" {
			old = val{K: 't', S: 7777, N: 7}
		} else if t == "KBase64" {
			old = vl([]byte{77, 77})
		}
		a := argOf(k.kept)
		back := sqlScan(t, old, k.kept)
		if k.panic != "" {
			back = res{Kind: 2, Text: k.panic}
		}
		orc := "O0"
		if t == "KBase64" {
			s := []byte(base64.RawStdEncoding.EncodeToString(v.L))
			orc = oracleSP(v, s, b64DecOracle(s))
		}
		d["Value()"] = a
		d["scanned_back_at_end"] = jres(back)
		return fmt.Sprintf("IValue %s %s %s %s %s %s", t, cval(v), cval(old), orc, a.coq(), cres(back)), d
	}
	var out []byte
	switch x := k.kept.(type) {
	case []byte:
		out = x
	case string:
		out = []byte(x)
	}
	if strings.HasSuffix(k.step.E, "(struct)") && len(out) >= 6 && string(out[:5]) == `{"v":` && out[len(out)-1] == '}' {
		out = out[5 : len(out)-1] // a sub-slice of the same memory
	}
	var back res
	if jt := jtypes[k.codec]; jt != nil {
		back = jt.decode(0, out)
	} else {
		back = textDecode(k.codec, out)
	}
	if k.panic != "" {
		back = res{Kind: 2, Text: k.panic}
	}
	orc := "O0"
	if k.codec == "JDur" {
		show := []byte(time.Duration(v.Z.Int64()).String())
		orc = oracleSP(v, show, durParseOracle(show))
	}
	d["text_at_end"] = tokDesc(out)
	d["decoded_at_end"] = jres(back)
	return fmt.Sprintf("IEnc %s %s %s %s %s", ctyCoq(k.codec), cval(v), orc, cbytes(out), cres(back)), d
}

// history runs the encoder calls of in.Hist (op hist: in order on this goroutine; op conc: the calls of goroutine g
// in a loop on their own goroutine, all started together), keeps the results marked Keep exactly as the API
// returned them, and only when every call has returned reads and decodes each kept result.
func (r *runner) history(in input) {
	var kept []keptResult
	if in.Op == "hist" {
		for _, st := range in.Hist {
			k := keptResult{step: st}
			func() {
				defer func() {
					if p := recover(); p != nil {
						k.panic = fmt.Sprint(p)
					}
				}()
				k.kept, k.codec = encodeVia(in.T, st.E, st.V.val())
			}()
			if k.codec == "" {
				k.codec = in.T
			}
			if st.Keep {
				kept = append(kept, k)
			}
		}
	} else {
		results := make([][]keptResult, len(in.Hist))
		start := make(chan struct{})
		var wg sync.WaitGroup
		for gi, st := range in.Hist {
			wg.Add(1)
			go func(gi int, st hstep) {
				defer wg.Done()
				v := st.V.val()
				<-start
				for n := 0; n < in.Loops; n++ {
					k := keptResult{step: st}
					func() {
						defer func() {
							if p := recover(); p != nil {
								k.panic = fmt.Sprint(p)
							}
						}()
						k.kept, k.codec = encodeVia(in.T, st.E, v)
					}()
					if k.codec == "" {
						k.codec = in.T
					}
					// keep the first, the last and any result that panicked; the rest is dropped unread
					if n == 0 || n == in.Loops-1 || k.panic != "" {
						results[gi] = append(results[gi], k)
					}
				}
			}(gi, st)
		}
		close(start)
		wg.Wait() // the barrier: every encoder call has returned
		for _, rs := range results {
			kept = append(kept, rs...)
		}
	}
	items := make([]string, len(kept))
	descs := make([]interface{}, len(kept))
	for i, k := range kept {
		items[i], descs[i] = readKept(in.T, k)
	}
	d := map[string]interface{}{"calls": len(in.Hist), "kept_results_read_after_all_calls": descs}
	if in.Op == "conc" {
		d["goroutines"] = len(in.Hist)
		d["loops"] = in.Loops
	}
	r.emit(in, "CHist "+vh.CoqList(items), true, d)
}

func timeDurString(v val) string { return time.Duration(v.Z.Int64()).String() }
