// Command vh is the correspondence harness: it runs the implementation under
// /repo (module replace) on generated inputs / histories / forced schedules and
// writes one JSON line per observed case.  Each line carries the case as a Coq
// term (field "coq") which the driver pastes into a case file evaluated by
// accept / holds inside Coq.
package main

import (
	"bufio"
	"encoding/json"
	"flag"
	"fmt"
	"math/rand"
	"os"
	"sort"
	"strings"

	"github.com/pinealctx/neptune/ulog"
	"go.uber.org/zap/zapcore"
)

// Case is one observed case.
type Case struct {
	Coq        string      `json:"coq"`        // Coq term of the property's `case` type
	Desc       interface{} `json:"desc"`       // human-readable form (goes to replays / evidence samples)
	Class      string      `json:"class"`      // generator class (histogram key)
	Nontrivial bool        `json:"nontrivial"` // by the property's stated rule
	Key        string      `json:"key"`        // identity for distinct counting (default: Coq term)
	Replay     string      `json:"replay"`     // argument string that makes `vh <prop> -replay` re-run this case
}

// Env is what a property runner gets.
type Env struct {
	Rnd      *rand.Rand
	Seed     int64
	Thorough bool
	Search   bool   // violation search mode: wider generator
	Focus    string // class to concentrate on in search mode
	Replay   string
	N        int // requested volume multiplier (0 = default)
	out      *bufio.Writer
	count    int
	Meta     map[string]interface{}
}

func (e *Env) Emit(c Case) {
	if c.Key == "" {
		c.Key = c.Coq
	}
	b, err := json.Marshal(c)
	if err != nil {
		panic(err)
	}
	e.out.Write(b)
	e.out.WriteByte('\n')
	e.count++
}

// Scale returns quick or thorough volume.
func (e *Env) Scale(quick, thorough int) int {
	n := quick
	if e.Thorough || e.Search {
		n = thorough
	}
	if e.N > 0 {
		n = n * e.N
	}
	return n
}

type runner struct {
	fn   func(*Env)
	help string
}

var runners = map[string]runner{}

func register(id string, help string, fn func(*Env)) { runners[id] = runner{fn, help} }

func main() {
	ulog.SetLogLevel(zapcore.FatalLevel)
	if len(os.Args) < 2 {
		ids := []string{}
		for k := range runners {
			ids = append(ids, k)
		}
		sort.Strings(ids)
		fmt.Println("usage: vh <prop> [-seed n] [-tier quick|thorough] [-search] [-focus class] [-replay arg] -out file; props:", strings.Join(ids, " "))
		os.Exit(2)
	}
	id := os.Args[1]
	fs := flag.NewFlagSet(id, flag.ExitOnError)
	seed := fs.Int64("seed", 1, "seed")
	tier := fs.String("tier", "quick", "tier")
	search := fs.Bool("search", false, "violation search mode")
	focus := fs.String("focus", "", "focus class")
	replay := fs.String("replay", "", "replay argument")
	n := fs.Int("n", 0, "volume multiplier")
	out := fs.String("out", "", "output file (jsonl)")
	fs.Parse(os.Args[2:])
	r, ok := runners[id]
	if !ok {
		fmt.Fprintln(os.Stderr, "unknown property", id)
		os.Exit(2)
	}
	f := os.Stdout
	if *out != "" {
		var err error
		f, err = os.Create(*out)
		if err != nil {
			panic(err)
		}
	}
	w := bufio.NewWriterSize(f, 1<<20)
	env := &Env{Rnd: rand.New(rand.NewSource(*seed)), Seed: *seed, Thorough: *tier == "thorough", Search: *search, Focus: *focus, Replay: *replay, N: *n, out: w, Meta: map[string]interface{}{}}
	r.fn(env)
	// trailing meta line
	mb, _ := json.Marshal(map[string]interface{}{"meta": env.Meta, "cases": env.count})
	w.Write(mb)
	w.WriteByte('\n')
	w.Flush()
	f.Close()
}

// ---- small helpers for printing Coq terms ----

func coqBool(b bool) string {
	if b {
		return "true"
	}
	return "false"
}
func coqZ(v int64) string {
	if v < 0 {
		return fmt.Sprintf("(%d)%%Z", v)
	}
	return fmt.Sprintf("%d%%Z", v)
}
func coqZu(v uint64) string { return fmt.Sprintf("%d%%Z", v) }
func coqNat(v int) string   { return fmt.Sprintf("%d%%nat", v) }
func coqList(xs []string) string {
	return "[" + strings.Join(xs, "; ") + "]"
}
func coqZList(xs []int64) string {
	s := make([]string, len(xs))
	for i, x := range xs {
		s[i] = coqZ(x)
	}
	return coqList(s)
}
func coqBytes(bs []byte) string {
	s := make([]string, len(bs))
	for i, x := range bs {
		s[i] = fmt.Sprintf("%d", x)
	}
	return "[" + strings.Join(s, ";") + "]%Z"
}
func coqOpt(s string, ok bool) string {
	if ok {
		return "(Some " + s + ")"
	}
	return "None"
}
