package main

// Hand-written histories replayed first on every run (class "corpus-eq" / "corpus-tex"): the witness of the repaired
// WriteRune defect, one visit of every grow path, every Unread* situation, the ReWrite addressing cases, the
// constructor edge cases and the misbehaving reader / writer answers.

func seq(n int, start byte) []byte {
	p := make([]byte, n)
	for i := range p {
		p[i] = start + byte(i%200)
	}
	return p
}

func fixed(class string, two bool, ini initSpec, ops ...*gop) *hist {
	r := newRunner(class, nil, ini, two)
	if !r.construct() {
		return r.h
	}
	for i, o := range ops {
		r.do(o, i == len(ops)-1 || i%3 == 2 || o.k == kReWrite || o.k == kUnreadByte || o.k == kUnreadRune)
	}
	return r.h
}

func corpus() []*hist {
	W := func(p []byte) *gop { return &gop{k: kWrite, p: p} }
	WS := func(p []byte) *gop { return &gop{k: kWriteString, p: p} }
	WB := func(c byte) *gop { return &gop{k: kWriteByte, c: c} }
	WR := func(r rune) *gop { return &gop{k: kWriteRune, r: r} }
	R := func(n int) *gop { return &gop{k: kRead, n: n} }
	N := func(n int) *gop { return &gop{k: kNext, n: n} }
	T := func(n int) *gop { return &gop{k: kTruncate, n: n} }
	G := func(n int) *gop { return &gop{k: kGrow, n: n} }
	RW := func(pos int, p ...byte) *gop { return &gop{k: kReWrite, pos: pos, p: p} }
	K := func(k kind) *gop { return &gop{k: k} }
	RB, RR, UB, UR := K(kReadByte), K(kReadRune), K(kUnreadByte), K(kUnreadRune)
	zero := initSpec{k: iZero}
	// many small writes, then Grow: the capacity bound that decides which Grow sizes are in scope must not double per
	// write (minimised from replays/C11-76c7b44e8409: thorough seed 1, eq-io 872 - a false alarm of the model's bound)
	var manyWrites []*gop
	for i := 0; i < 60; i++ {
		switch i % 4 {
		case 0:
			manyWrites = append(manyWrites, WB(byte(i)))
		case 1:
			manyWrites = append(manyWrites, WR(rune(0x100+i)))
		case 2:
			manyWrites = append(manyWrites, &gop{k: kReadFrom, sc: []chunk{{seq(2, byte(i)), 0}, {nil, 0}, {seq(1, 7), 1}}})
		default:
			manyWrites = append(manyWrites, G(0))
		}
	}
	manyWrites = append(manyWrites, G(6), G(1<<49), G(240), R(3), UB, K(kBytes))
	return []*hist{
		fixed("corpus-eq", true, initSpec{k: iNew, data: seq(10, 1), cp: 18}, manyWrites...),
		// the defect repaired by commit 6078bb8: negative runes
		fixed("corpus-eq", true, zero, WR(-1), WR(-191), WR(-2147483648), WR(-128), K(kBytes), RR, UR, RB, RR, RR, RR),
		// reset-if-empty, small allocation, reslice, reallocation, with a legal Unread* after each kind of read
		fixed("corpus-eq", true, zero, W(seq(40, 7)), R(30), WS(seq(20, 8)), G(10), RB, UB, W(seq(100, 9)), R(200), G(1), WB(1), RB, UB,
			R(5), W(seq(3, 1)), R(1), UB, N(2), UB, K(kReset), WB(200), RR, UR, RR, UB),
		// the slide path (n <= cap/2 - len after reads), then what was slid
		fixed("corpus-eq", true, initSpec{k: iNew, data: seq(60, 1), cp: 64}, R(50), W(seq(20, 100)), K(kBytes), RB, UB, R(29), W(seq(33, 50)), K(kBytes),
			R(10), G(20), K(kLen), W(seq(5, 0)), K(kString)),
		// Unread* bookkeeping
		fixed("corpus-eq", true, zero, W([]byte{'a', 0xe2, 0x82, 0xac, 0xf0, 0x9f, 0x98, 0x80, 0xff, 'z'}), RB, UB, UB, RR, UR, UR, RR, RR, UB, RR, UR, RR, RR, UR, UB, RR, RR, UR, RR, RR, RR, UR),
		fixed("corpus-eq", true, zero, W(seq(6, 1)), RB, R(0), UB, N(0), UB, N(2), UR, UB, UB, T(3), UB, RB, G(0), K(kLen), RB, WB(9), UB),
		// Truncate / Next / Grow with invalid arguments
		fixed("corpus-eq", true, zero, W(seq(10, 1)), R(3), T(7), T(8), T(-1), T(3), K(kBytes), N(-1), G(-1), N(9), T(0), T(1), R(1), R(0)),
		// ReadFrom / WriteTo with every kind of answer
		fixed("corpus-eq", true, zero, &gop{k: kReadFrom, sc: []chunk{{seq(512, 1), 0}, {seq(3, 9), 1}}}, R(500), &gop{k: kWriteTo, m: 5, e: 0},
			&gop{k: kWriteTo, m: 100, e: 0}, &gop{k: kWriteTo, m: 3, e: 4}, &gop{k: kReadFrom, sc: []chunk{{seq(2, 1), 0}, {nil, -1}}},
			&gop{k: kReadFrom, sc: []chunk{{seq(2, 5), 3}}}, &gop{k: kReadFrom, sc: nil}, &gop{k: kWriteTo, m: 11, e: 0}, &gop{k: kWriteTo, m: 0, e: 0}),
		// ReWrite addresses the storage from its start: consumed prefix, unread part, clipping, both panics
		fixed("corpus-tex", false, initSpec{k: iNew, data: seq(8, 1), cp: 8}, N(3), RW(4, 99, 98), K(kBytes), UB, RW(0, 77, 76, 75), UB, RB, RB, RB,
			RW(8), RW(9, 1), RW(-1, 1), RW(6, 1, 2, 3, 4), K(kBytes), RW(2, 55), UB, RB),
		fixed("corpus-tex", false, zero, W(seq(5, 1)), RW(1, 9, 9), RB, RW(0, 8), UB, RB, RW(5), RW(6), R(9), R(1), RW(0), RW(1, 1), WB(3), RW(0, 4, 4)),
		fixed("corpus-tex", false, initSpec{k: iNewSized, size: 16}, K(kBytes), K(kLen), W(seq(8, 1)), RW(4, 0xaa, 0xbb, 0xcc, 0xdd), RW(6, 1, 2, 3), RR, RW(0, 0xe2), UR, RR),
		// sizes that cannot be allocated: ErrTooLarge through makeSlice (no capacity yet / 2c+n fits an int) and through
		// the overflow guard (maxInt with capacity), never a bare runtime error; negative: the negative-count panic
		fixed("corpus-eq", true, zero, G(maxInt), K(kLen), G(1<<50), G(maxInt/2), W(seq(5, 1)), G(maxInt), G(maxInt-1), G(1<<49), G(maxInt/2), K(kBytes),
			RB, G(1<<60), K(kLen), RB, UB, G(-1), R(9), G(maxInt), WB(7), K(kBytes)),
		fixed("corpus-eq", true, initSpec{k: iNew, data: seq(8, 1), cp: 8}, R(8), G(1<<52), K(kBytes), WB(1), R(1), G(maxInt/2+1), K(kLen)),
		fixed("corpus-tex", false, initSpec{k: iNewSized, size: 4}, K(kBytes), K(kLen), G(1<<49), W(seq(4, 1)), G(maxInt), RW(0, 9), G(-5), K(kBytes)),
		// the state a recovered panic leaves behind: a panicking call in the middle of a history, right after a read, then Unread*
		fixed("corpus-eq", true, zero, W(seq(12, 1)), RB, T(99), UB, RB, T(-1), UB, W([]byte{0xe2, 0x82, 0xac}), RR, T(50), UR, RB, N(-1), UB, RB, G(-1), UB,
			RB, &gop{k: kWriteTo, m: 99, e: 0}, UB, RB, &gop{k: kReadFrom, sc: []chunk{{nil, -1}}}, UB, RR, G(-3), UR, RR, N(-2), UR),
		fixed("corpus-tex", false, zero, W(seq(6, 1)), RB, RW(-1, 1), UB, RB, RB, RW(99, 1), UB, RR, RW(7, 1), UR, RB, T(9), UB),
		// a method on a nil receiver: String answers "<nil>", Len is a nil dereference - on both types
		fixed("corpus-eq", true, zero, &gop{k: kNil, n: 0}, &gop{k: kNil, n: 1}, WB(1), &gop{k: kNil, n: 0}, RB, &gop{k: kNil, n: 0}, UB),
		fixed("corpus-tex", false, zero, &gop{k: kNil, n: 0}, &gop{k: kNil, n: 1}, K(kString)),
		// error identity through ReadFrom / WriteTo: wrapping io.EOF is not io.EOF; (0, nil) reads; EOF together with bytes
		fixed("corpus-eq", true, zero, &gop{k: kReadFrom, sc: []chunk{{seq(3, 1), 50}}}, &gop{k: kReadFrom, sc: []chunk{{seq(2, 9), 0}, {nil, 52}}},
			&gop{k: kReadFrom, sc: []chunk{{seq(1, 7), 51}}}, &gop{k: kReadFrom, sc: []chunk{{nil, 0}, {nil, 0}, {seq(2, 4), 1}}}, &gop{k: kReadFrom, sc: []chunk{{seq(1, 3), 53}}},
			&gop{k: kReadFrom, sc: []chunk{{nil, 55}}}, &gop{k: kReadFrom, sc: []chunk{{nil, 50}}}, K(kBytes),
			&gop{k: kWriteTo, m: 3, e: 50}, &gop{k: kWriteTo, m: 2, e: 0}, &gop{k: kWriteTo, m: 1, e: 1}, &gop{k: kWriteTo, m: 0, e: 52}, &gop{k: kWriteTo, m: 99, e: 51},
			&gop{k: kWriteTo, m: 1, e: 53}, K(kBytes), &gop{k: kWriteTo, m: 2, e: 55}, &gop{k: kWriteTo, m: 9, e: 0}),
		// every malformed UTF-8 shape once, read back rune by rune with UnreadRune in between, a truncated sequence last
		fixed("corpus-eq", true, zero, W([]byte{0xed, 0xa0, 0x80, 0xed, 0xbf, 0xbf, 0xed, 0xb0, 0x95, 0xc0, 0x80, 0xc1, 0xbf, 0xe0, 0x80, 0x80, 0xe0, 0x9f, 0xbf,
			0xf0, 0x80, 0x80, 0x80, 0xf0, 0x8f, 0xbf, 0xbf, 0xf4, 0x90, 0x80, 0x80, 0xf5, 0x80, 0x80, 0x80, 0xff, 0x80, 0xbf, 0xc2, 0x41, 0xe2, 0x82, 0x41,
			0xf0, 0x9f, 0x98, 0x41, 0xed, 0x9f, 0xbf, 0xee, 0x80, 0x80, 0xf4, 0x8f, 0xbf, 0xbf, 0xe2, 0x82}),
			RR, UR, RR, RR, RR, RR, UR, RR, RR, RR, RR, RR, UB, RR, RR, RR, RR, RR, RR, RR, UR, RR, RR, RR, RR, RR, RR, RR, RR, RR, RR, RR, RR, RR, RR, RR, RR, RR, RR,
			RR, RR, RR, RR, RR, RR, RR, UR, RR, RR, RR, RR, RR, RR, RR, RR, RR, RR, RR, RR),
		// NewSizedBuffer
		fixed("corpus-tex", false, initSpec{k: iNewSized, size: -1}),
		fixed("corpus-tex", false, initSpec{k: iNewSized, size: 0}, K(kBytes), K(kLen), K(kCap), WB(1), RB, UB),
		fixed("corpus-tex", false, initSpec{k: iNewSized, size: 64}, K(kBytes), K(kLen), W(seq(64, 1)), WB(1), R(70)),
		fixed("corpus-eq", true, initSpec{k: iNewSized, size: 5}, K(kBytes), K(kLen), W(seq(5, 1)), W(seq(1, 9)), R(3), UB),
	}
}
