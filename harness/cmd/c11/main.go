// Command c11: correspondence harness of property C11 (tex.Buffer is observationally identical to bytes.Buffer;
// ReWrite overwrites exactly the addressed bytes; NewSizedBuffer yields an empty buffer of at least the requested
// capacity).
//
// Every case is one history.  Class names starting with "eq-" run the same history on tex.Buffer (from /repo) and on
// the bytes.Buffer of the installed Go and record what each of them showed after every call (result, Len, and
// Bytes at sampled steps and at the end).  Class names starting with "tex-" run tex.Buffer alone (ReWrite and
// NewSizedBuffer have no counterpart in bytes.Buffer).  The histories are generated adaptively: the next operation
// and its sizes are drawn knowing Len() and Cap() of the running tex.Buffer, so that the boundaries the code
// branches on (free space +-1, 64, cap/2 - len +-1, len +-1) are hit all the time.
package main

import (
	"bytes"
	"fmt"
	"hash/fnv"
	"math/rand"
	"strconv"
	"strings"

	"github.com/pinealctx/neptune/tex"
	"verifharness/vh"
)

// ---- case construction ----

type hist struct {
	class    string
	twoSided bool
	ini      initSpec
	ops      []*gop
	texObs   []seen
	refObs   []seen
	// statistics
	changed    int // operations that moved bytes (wrote or consumed at least one)
	rewrites   int
	capDiffers int
}

func (h *hist) coq() string {
	var sb strings.Builder
	if h.twoSided {
		sb.WriteString("CEq ")
	} else {
		sb.WriteString("CTex ")
	}
	sb.WriteString(h.ini.coq())
	sb.WriteString(" [")
	for i, o := range h.ops {
		if i > 0 {
			sb.WriteString("; ")
		}
		sb.WriteString("(")
		sb.WriteString(o.coq())
		sb.WriteString(", ")
		sb.WriteString(h.texObs[i].coq())
		if h.twoSided {
			sb.WriteString(", ")
			sb.WriteString(h.refObs[i].coq())
		}
		sb.WriteString(")")
	}
	sb.WriteString("]")
	return sb.String()
}

func (h *hist) desc() map[string]interface{} {
	steps := make([]map[string]interface{}, len(h.ops))
	for i, o := range h.ops {
		m := map[string]interface{}{"op": o.String(), "tex": h.texObs[i].String()}
		if h.twoSided {
			m["bytes.Buffer"] = h.refObs[i].String()
		}
		steps[i] = m
	}
	return map[string]interface{}{"class": h.class, "init": h.ini.String(), "steps": steps}
}

func (h *hist) emit(e *vh.Env, replay string) {
	e.Emit(vh.Case{Coq: h.coq(), Desc: h.desc(), Class: h.class, Nontrivial: h.changed >= 2, Replay: replay})
}

// runner executes a history step by step on one or two buffers
type runner struct {
	h   *hist
	tb  *tex.Buffer
	rb  *bytes.Buffer // nil for tex-only histories
	rnd *rand.Rand
	// what the generator knows
	g        bool // the nearest non-query predecessor was a Grow
	lastRead bool // the previous operation was a read that consumed something
	consumed int  // bytes consumed since the storage was last known to start at the unread data (a guess)
}

func newRunner(class string, rnd *rand.Rand, ini initSpec, twoSided bool) *runner {
	r := &runner{h: &hist{class: class, twoSided: twoSided, ini: ini}, rnd: rnd}
	return r
}

// construct builds the buffers; false when the constructor panicked (tex only)
func (r *runner) construct() bool {
	tb, rb, ok := r.h.ini.build(r.h.twoSided)
	r.h.ini.done = true
	if !ok {
		r.h.ini.panicked = true
		return false
	}
	r.tb, r.rb = tb, rb
	r.h.ini.capSeen = tb.Cap()
	r.h.ini.nilSeen = tb.Bytes() == nil
	return true
}

func (r *runner) do(o *gop, sample bool) {
	if o.alias { // the VALUE the aliased argument has when the call is made
		own := safeBytes(r.tb)
		k := o.skip
		if k > len(own) {
			k = len(own)
		}
		o.p = own[k:]
	}
	st, data := apply(r.tb, o)
	so := seen{st: st, data: data, ln: safeLen(r.tb)}
	if sample {
		so.bytes, so.has = safeBytes(r.tb), true
	}
	r.h.ops = append(r.h.ops, o)
	r.h.texObs = append(r.h.texObs, so)
	if r.rb != nil {
		st2, data2 := apply(r.rb, o)
		so2 := seen{st: st2, data: data2, ln: safeLen(r.rb)}
		if sample {
			so2.bytes, so2.has = safeBytes(r.rb), true
		}
		r.h.refObs = append(r.h.refObs, so2)
		if r.rb.Cap() != r.tb.Cap() {
			r.h.capDiffers++
		}
	}
	// generator knowledge
	switch o.k {
	case kLen, kBytes, kString, kCap, kReWrite, kNil:
	case kGrow:
		if o.n >= 0 {
			r.g = true
		}
	default:
		r.g = false
	}
	wasRead := r.lastRead
	r.lastRead = false
	if st >= 900 && st < 1000 && wasRead { // a recovered panic right after a read: the Unread* that follows is the interesting one
		r.lastRead = true
	}
	if o.k == kNil && wasRead {
		r.lastRead = true
	}
	switch o.k {
	case kRead, kNext, kReadByte, kReadRune:
		if st == 0 && ((o.k == kRead && data[0] > 0) || (o.k == kNext && len(data) > 0) || o.k == kReadByte || o.k == kReadRune) {
			r.lastRead = true
			r.h.changed++
			switch o.k {
			case kRead:
				r.consumed += int(data[0])
			case kNext:
				r.consumed += len(data)
			case kReadByte:
				r.consumed++
			case kReadRune:
				r.consumed += int(data[1])
			}
		}
	case kWrite, kWriteString, kWriteByte, kWriteRune, kReadFrom:
		r.h.changed++
	case kWriteTo:
		if len(data) > 0 && data[0] > 0 {
			r.h.changed++
			r.consumed += int(data[0])
		}
	case kUnreadByte:
		if st == 0 && r.consumed > 0 {
			r.consumed--
		}
	case kReWrite:
		r.h.rewrites++
	}
	if r.tlen() == 0 && (o.k == kReset || o.k == kTruncate) {
		r.consumed = 0
	}
}

// A broken implementation may leave the buffer in a state where even Len() or Bytes() misbehave (negative length,
// offset beyond the storage): that is an observation (-1 / the marker 999), never a crash of the harness.
func safeLen(b bufAPI) (n int) {
	defer func() {
		if recover() != nil {
			n = -1
		}
	}()
	return b.Len()
}

func safeBytes(b bufAPI) (p []byte) {
	defer func() {
		if recover() != nil {
			p = []byte{9, 9, 9}
		}
	}()
	return append([]byte{}, b.Bytes()...)
}

// tlen is Len() of the running tex.Buffer as the generator uses it (never negative)
func (r *runner) tlen() int {
	n := safeLen(r.tb)
	if n < 0 {
		return 0
	}
	return n
}

// ---- generator ----

func pick(rnd *rand.Rand, w []int) int {
	t := 0
	for _, x := range w {
		t += x
	}
	v := rnd.Intn(t)
	for i, x := range w {
		if v < x {
			return i
		}
		v -= x
	}
	return len(w) - 1
}

// a size biased to the boundaries grow() branches on
func (r *runner) size(max int) int {
	ln, cp := r.tlen(), r.tb.Cap()
	var v int
	switch r.rnd.Intn(14) {
	case 0:
		v = 0
	case 1:
		v = 1
	case 2, 3:
		v = 2 + r.rnd.Intn(7)
	case 4:
		v = cp - ln - r.consumed + r.rnd.Intn(3) - 1 // free space behind len(buf), +-1
	case 5:
		v = cp - ln + r.rnd.Intn(3) - 1
	case 6:
		v = cp/2 - ln + r.rnd.Intn(3) - 1 // the slide condition
	case 7:
		v = 64 - ln + r.rnd.Intn(3) - 1 // smallBufferSize
	case 8:
		v = ln + r.rnd.Intn(3) - 1
	case 9:
		v = 63 + r.rnd.Intn(3)
	case 10, 11:
		v = 1 + r.rnd.Intn(40)
	case 12:
		v = 40 + r.rnd.Intn(120)
	default:
		v = 2*cp + r.rnd.Intn(5) // forces a reallocation
	}
	if v < 0 {
		v = 0
	}
	if v > max {
		v = max
	}
	return v
}

func (r *runner) payload(n int) []byte {
	p := make([]byte, n)
	switch r.rnd.Intn(3) {
	case 0:
		for i := range p {
			p[i] = byte(r.rnd.Intn(256))
		}
	case 1:
		for i := range p {
			p[i] = byte('a' + r.rnd.Intn(26))
		}
	default:
		c := byte(1 + r.rnd.Intn(250))
		for i := range p {
			p[i] = c + byte(i%5)
		}
	}
	return p
}

var boundaryRunes = []rune{0, 'A', 0x7f, 0x80, 0xe9, 0x7ff, 0x800, 0x20ac, 0xd7ff, 0xd800, 0xdbff, 0xdfff, 0xe000, 0xfffd, 0xffff,
	0x10000, 0x1f600, 0x10ffff, 0x110000, 0x7fffffff, -1, -128, -191, -2147483648}

func (r *runner) aRune() rune {
	switch r.rnd.Intn(4) {
	case 0:
		return boundaryRunes[r.rnd.Intn(len(boundaryRunes))]
	case 1:
		return rune(r.rnd.Intn(128))
	case 2:
		return rune(r.rnd.Intn(0x3000))
	default:
		return rune(r.rnd.Int63n(0x120000)) - 0x800
	}
}

// byte strings around every branch of utf8.DecodeRune
var utf8Frags = [][]byte{
	{0x80}, {0xbf}, {0xc0, 0x80}, {0xc1, 0xbf}, {0xc2}, {0xc2, 0x7f}, {0xc2, 0x80}, {0xdf, 0xbf}, {0xdf, 0xc0},
	{0xe0, 0x9f, 0x80}, {0xe0, 0xa0, 0x80}, {0xe0, 0xa0}, {0xe1, 0x80, 0x7f}, {0xe2, 0x82, 0xac}, {0xe2, 0x82}, {0xec, 0xbf, 0xbf},
	{0xed, 0x9f, 0xbf}, {0xed, 0xa0, 0x80}, {0xee, 0x80, 0x80}, {0xef, 0xbf, 0xbd}, {0xef, 0xbf, 0xc0},
	{0xf0, 0x8f, 0x80, 0x80}, {0xf0, 0x90, 0x80, 0x80}, {0xf0, 0x9f, 0x98, 0x80}, {0xf0, 0x9f, 0x98}, {0xf0, 0x9f}, {0xf0},
	{0xf1, 0x80, 0x80, 0x80}, {0xf3, 0xbf, 0xbf, 0xbf}, {0xf4, 0x8f, 0xbf, 0xbf}, {0xf4, 0x90, 0x80, 0x80}, {0xf4, 0x80, 0x80, 0xc0},
	{0xf5, 0x80, 0x80, 0x80}, {0xf8}, {0xff}, {0xfe, 0xff}, {'a'}, {'z', 0x7f}, {0},
}

// one member of a family of malformed (or boundary) UTF-8 shapes, parameters drawn at random
const utf8Families = 14

func (r *runner) badUTF8() []byte { return r.utf8Family(r.rnd.Intn(utf8Families)) }

func (r *runner) utf8Family(fam int) []byte {
	c := func() byte { return byte(0x80 + r.rnd.Intn(0x40)) } // a continuation byte
	switch fam {
	case 0: // a surrogate half, ED A0..BF 80..BF
		return []byte{0xed, byte(0xa0 + r.rnd.Intn(0x20)), c()}
	case 1: // overlong two-byte form C0/C1 xx
		return []byte{byte(0xc0 + r.rnd.Intn(2)), c()}
	case 2: // overlong three-byte form E0 80..9F xx
		return []byte{0xe0, byte(0x80 + r.rnd.Intn(0x20)), c()}
	case 3: // overlong four-byte form F0 80..8F xx xx
		return []byte{0xf0, byte(0x80 + r.rnd.Intn(0x10)), c(), c()}
	case 4: // beyond U+10FFFF: F4 90..BF xx xx
		return []byte{0xf4, byte(0x90 + r.rnd.Intn(0x30)), c(), c()}
	case 5: // F5..FF lead
		return []byte{byte(0xf5 + r.rnd.Intn(11)), c(), c(), c()}
	case 6: // lone continuation bytes
		return []byte{c(), c()}[:1+r.rnd.Intn(2)]
	case 7: // a valid lead whose second byte is not a continuation
		return []byte{[]byte{0xc2, 0xdf, 0xe1, 0xec, 0xee, 0xf1, 0xf3}[r.rnd.Intn(7)], []byte{0x00, 0x7f, 0xc0, 0xff, 'a'}[r.rnd.Intn(5)], c()}
	case 8: // a valid three/four-byte start whose third / fourth byte is wrong
		p := []byte{0xe2, 0x82, 0x7f}
		if r.rnd.Intn(2) == 0 {
			p = []byte{0xf0, 0x9f, 0x98, 0xc0}
		}
		return p
	case 9: // truncated three-byte sequence
		return []byte{byte(0xe1 + r.rnd.Intn(12)), c()}[:1+r.rnd.Intn(2)]
	case 10: // truncated four-byte sequence
		return []byte{byte(0xf1 + r.rnd.Intn(3)), c(), c()}[:1+r.rnd.Intn(3)]
	case 11: // the last valid / first invalid second byte after E0, ED, F0, F4
		return [][]byte{{0xe0, 0xa0, 0x80}, {0xe0, 0x9f, 0xbf}, {0xed, 0x9f, 0xbf}, {0xed, 0xa0, 0x80}, {0xf0, 0x90, 0x80, 0x80}, {0xf0, 0x8f, 0xbf, 0xbf},
			{0xf4, 0x8f, 0xbf, 0xbf}, {0xf4, 0x90, 0x80, 0x80}}[r.rnd.Intn(8)]
	case 12: // a valid rune of random width
		return []byte(string(rune([]int{0x80, 0x7ff, 0x800, 0xffff, 0x10000, 0x10ffff}[r.rnd.Intn(6)])))
	default:
		return []byte{0xef, 0xbf, 0xbd} // U+FFFD itself
	}
}

func (r *runner) runeBytes() []byte {
	var p []byte
	for n := 1 + r.rnd.Intn(4); n > 0; n-- {
		if r.rnd.Intn(2) == 0 {
			p = append(p, r.badUTF8()...)
		} else if r.rnd.Intn(5) == 0 {
			p = append(p, byte(0x80+r.rnd.Intn(0x80)))
		} else {
			p = append(p, utf8Frags[r.rnd.Intn(len(utf8Frags))]...)
		}
	}
	return p
}

func (r *runner) script() []chunk {
	var sc []chunk
	n := r.rnd.Intn(4)
	for i := 0; i < n; i++ {
		var l int
		switch r.rnd.Intn(12) {
		case 0:
			l = 0
		case 1:
			l = 512
		case 2:
			l = 511
		case 3:
			l = 100 + r.rnd.Intn(100)
		default:
			l = 1 + r.rnd.Intn(24)
		}
		e := 0
		switch r.rnd.Intn(12) {
		case 0:
			e = 1
		case 1:
			e = 2 + r.rnd.Intn(5)
		case 3, 4: // an error that must keep its identity: wraps io.EOF / ErrUnexpectedEOF, Is(io.EOF), joined
			e = identityErrs[r.rnd.Intn(len(identityErrs))]
		case 5: // (0, nil): the loop just reads again
			l = 0
		case 2:
			if r.rnd.Intn(3) == 0 {
				e = -1
				l = 0
			}
		}
		sc = append(sc, chunk{data: r.payload(l), e: e})
		if e != 0 {
			break
		}
	}
	return sc
}

// Grow sizes beyond anything make([]byte, n) can deliver (maxAlloc is 2^48 on linux/amd64): 2c+n either trips
// grow's overflow guard (maxInt, maxInt-1 on a buffer with capacity) or makeSlice fails (the rest, and maxInt on
// a buffer without capacity)
const maxInt = int(^uint(0) >> 1)

var hostileSizes = []int{1 << 49, 1<<49 + 1, 1 << 55, 1 << 61, maxInt / 2, maxInt/2 - 1, maxInt/2 + 1, maxInt - 1, maxInt, maxInt - 64, maxInt - 1000}

type weights struct {
	write, writeString, writeByte, writeRune, writeRuneBytes int
	read, readByte, readRune, next                           int
	unreadByte, unreadRune                                   int
	truncate, reset, grow, readFrom, writeTo                 int
	qLen, qBytes, qString, qCap                              int
	rewrite                                                  int
	invalid                                                  int // out of 100: how often an argument is made invalid
	maxPayload                                               int
}

var (
	wMixed   = weights{12, 6, 5, 5, 2, 12, 6, 5, 6, 7, 4, 4, 2, 7, 2, 3, 2, 2, 1, 1, 0, 6, 200}
	wRune    = weights{3, 2, 3, 12, 10, 4, 4, 18, 2, 8, 12, 2, 1, 3, 1, 1, 1, 1, 1, 0, 0, 3, 40}
	wGrow    = weights{14, 4, 6, 2, 0, 12, 6, 2, 5, 9, 2, 4, 2, 14, 1, 1, 1, 1, 0, 1, 0, 3, 300}
	wIO      = weights{8, 3, 3, 2, 1, 8, 3, 2, 3, 4, 2, 3, 1, 4, 10, 12, 1, 1, 1, 1, 0, 8, 120}
	wInvalid = weights{6, 2, 2, 2, 1, 6, 3, 2, 6, 8, 6, 10, 2, 8, 3, 5, 1, 1, 0, 0, 0, 45, 60}
	wRewrite = weights{10, 3, 4, 3, 1, 8, 5, 3, 5, 6, 3, 2, 1, 4, 0, 1, 1, 1, 0, 0, 22, 5, 60}
	wRwAny   = weights{10, 4, 4, 3, 1, 10, 5, 3, 5, 5, 3, 3, 2, 6, 1, 2, 1, 1, 1, 1, 12, 5, 120}
)

func (r *runner) next(w *weights) *gop {
	ln := r.tlen()
	inv := r.rnd.Intn(100) < w.invalid
	ws := []int{w.write, w.writeString, w.writeByte, w.writeRune, w.writeRuneBytes, w.read, w.readByte, w.readRune, w.next,
		w.unreadByte, w.unreadRune, w.truncate, w.reset, w.grow, w.readFrom, w.writeTo, w.qLen, w.qBytes, w.qString, w.qCap, w.rewrite}
	if r.g { // the property's exception: no Unread* while the nearest non-query predecessor is a Grow
		ws[9], ws[10] = 0, 0
	} else if r.lastRead { // an Unread* right after a successful read is the interesting one
		ws[9] *= 4
		ws[10] *= 4
	} else { // most Unread* in a state where they must fail are wasted
		ws[9] = (ws[9] + 2) / 3
		ws[10] = (ws[10] + 2) / 3
	}
	if ln == 0 { // keep the buffer populated: write more, read less while it is empty
		for i := 0; i <= 4; i++ {
			ws[i] *= 3
		}
		for i := 5; i <= 8; i++ {
			ws[i] = (ws[i] + 2) / 3
		}
	}
	if r.rnd.Intn(60) == 0 { // a method on a nil receiver
		return &gop{k: kNil, n: r.rnd.Intn(3) / 2}
	}
	if r.lastRead && r.rnd.Intn(7) == 0 { // an operation that panics on its argument, right after a successful read
		switch r.rnd.Intn(5) {
		case 0:
			return &gop{k: kTruncate, n: ln + 1 + r.rnd.Intn(3)}
		case 1:
			return &gop{k: kTruncate, n: -1 - r.rnd.Intn(3)}
		case 2:
			return &gop{k: kNext, n: -1 - r.rnd.Intn(3)}
		case 3:
			return &gop{k: kGrow, n: -1 - r.rnd.Intn(3)}
		default:
			if ln > 0 {
				return &gop{k: kWriteTo, m: ln + 1 + r.rnd.Intn(3), e: 0}
			}
			return &gop{k: kTruncate, n: ln + 1}
		}
	}
	switch pick(r.rnd, ws) {
	case 0:
		return &gop{k: kWrite, p: r.payload(r.size(w.maxPayload))}
	case 1:
		return &gop{k: kWriteString, p: r.payload(r.size(w.maxPayload))}
	case 2:
		return &gop{k: kWriteByte, c: byte(r.rnd.Intn(256))}
	case 3:
		return &gop{k: kWriteRune, r: r.aRune()}
	case 4:
		return &gop{k: kWrite, p: r.runeBytes()}
	case 5:
		n := r.size(w.maxPayload + 40)
		if r.rnd.Intn(5) < 3 && ln > 1 { // a partial read
			n = 1 + r.rnd.Intn(ln-1)
			if r.rnd.Intn(2) == 0 && n > 8 {
				n = 1 + r.rnd.Intn(8)
			}
		}
		return &gop{k: kRead, n: n}
	case 6:
		return &gop{k: kReadByte}
	case 7:
		return &gop{k: kReadRune}
	case 8:
		n := r.rnd.Intn(ln + 3)
		if r.rnd.Intn(2) == 0 && ln > 4 {
			n = 1 + r.rnd.Intn(4)
		}
		if inv {
			n = -1 - r.rnd.Intn(3)
		}
		return &gop{k: kNext, n: n}
	case 9:
		return &gop{k: kUnreadByte}
	case 10:
		return &gop{k: kUnreadRune}
	case 11:
		n := r.rnd.Intn(ln + 1)
		if inv {
			n = []int{-1, ln + 1, ln + 1 + r.rnd.Intn(50), -1 - r.rnd.Intn(100)}[r.rnd.Intn(4)]
		}
		return &gop{k: kTruncate, n: n}
	case 12:
		return &gop{k: kReset}
	case 13:
		n := r.size(w.maxPayload * 2)
		if inv {
			n = -1 - r.rnd.Intn(5)
			if r.rnd.Intn(2) == 0 { // a size that certainly cannot be allocated (nothing is allocated: make fails first)
				n = hostileSizes[r.rnd.Intn(len(hostileSizes))]
				if r.rnd.Intn(3) == 0 {
					n = 1<<49 + r.rnd.Intn(1<<40)
				}
			}
		}
		return &gop{k: kGrow, n: n}
	case 14:
		return &gop{k: kReadFrom, sc: r.script()}
	case 15:
		m := ln
		e := 0
		switch r.rnd.Intn(6) {
		case 0:
			m = r.rnd.Intn(ln + 1)
		case 1:
			if ln > 0 {
				m = ln - 1
			}
		case 2:
			m = 0
		}
		if r.rnd.Intn(4) == 0 {
			e = 2 + r.rnd.Intn(5)
			if r.rnd.Intn(2) == 0 {
				e = append([]int{1}, identityErrs...)[r.rnd.Intn(1+len(identityErrs))]
			}
		}
		if inv {
			m = ln + 1 + r.rnd.Intn(3)
		}
		return &gop{k: kWriteTo, m: m, e: e}
	case 16:
		return &gop{k: kLen}
	case 17:
		return &gop{k: kBytes}
	case 18:
		return &gop{k: kString}
	case 19:
		return &gop{k: kCap}
	default:
		return r.aReWrite(inv)
	}
}

// a ReWrite whose position sits on the edges of the storage and of the unread part
func (r *runner) aReWrite(inv bool) *gop {
	ln := r.tlen()
	sto := r.consumed + ln
	var pos int
	switch r.rnd.Intn(10) {
	case 0:
		pos = 0
	case 1:
		pos = r.consumed
	case 2:
		pos = r.consumed - 1
	case 3:
		pos = sto
	case 4:
		pos = sto - 1
	case 5:
		pos = sto + 1
	case 6:
		pos = -1
	default:
		pos = r.rnd.Intn(sto + 1)
	}
	if inv {
		pos = []int{-1, sto + 1, sto + 2 + r.rnd.Intn(20), -2 - r.rnd.Intn(9)}[r.rnd.Intn(4)]
	}
	n := []int{0, 1, 1, 2, 3, 4, 4, 8, 1 + r.rnd.Intn(12), sto - pos, sto - pos + 1, sto - pos - 1}[r.rnd.Intn(12)]
	if n < 0 {
		n = 0
	}
	if n > 64 {
		n = 64
	}
	p := make([]byte, n)
	for i := range p {
		p[i] = byte(200 + r.rnd.Intn(56))
	}
	return &gop{k: kReWrite, pos: pos, p: p}
}

func (r *runner) anInit(kinds []int) initSpec {
	switch kinds[r.rnd.Intn(len(kinds))] {
	case 0:
		return initSpec{k: iZero}
	case 1: // NewBuffer(data), cap == len
		d := r.payload([]int{0, 1, 5, 30, 63, 64, 65, 100}[r.rnd.Intn(8)])
		return initSpec{k: iNew, data: d, cp: len(d)}
	case 2: // NewBuffer(data[:l]) with spare capacity
		l := []int{0, 1, 10, 40}[r.rnd.Intn(4)]
		return initSpec{k: iNew, data: r.payload(l), cp: l + []int{1, 8, 64, 100}[r.rnd.Intn(4)]}
	case 3:
		return initSpec{k: iNew, isNil: true}
	case 4:
		var d []byte
		if r.rnd.Intn(2) == 0 {
			d = r.runeBytes()
		} else {
			d = r.payload([]int{0, 3, 31, 33, 70}[r.rnd.Intn(5)])
		}
		return initSpec{k: iNewString, data: d}
	default:
		return initSpec{k: iNewSized, size: []int{0, 1, 8, 63, 64, 65, 100, 300}[r.rnd.Intn(8)]}
	}
}

func genHistory(class string, idx int, rnd *rand.Rand, thorough bool) *hist {
	nOps := 12 + rnd.Intn(22)
	if thorough {
		nOps = 12 + rnd.Intn(40)
	}
	var r *runner
	var w *weights
	two := strings.HasPrefix(class, "eq-")
	r = newRunner(class, rnd, initSpec{}, two)
	allInits := []int{0, 0, 1, 2, 3, 4, 5}
	switch class {
	case "eq-mixed":
		w = &wMixed
	case "eq-rune":
		w = &wRune
	case "eq-grow":
		w = &wGrow
	case "eq-io":
		w = &wIO
	case "eq-invalid":
		w = &wInvalid
	case "tex-rewrite":
		w = &wRewrite
		allInits = []int{0, 1, 2, 5, 5}
	case "tex-rewrite-any":
		w = &wRwAny
	case "tex-newsized":
		w = &wRewrite
	case "eq-utf8":
		return utf8History(idx, rnd)
	default:
		panic("unknown class " + class)
	}
	r.h.ini = r.anInit(allInits)
	if class == "tex-newsized" {
		sizes := []int{-1, -2, -1000, 0, 1, 2, 7, 63, 64, 65, 100, 511, 512, 1000}
		r.h.ini = initSpec{k: iNewSized, size: sizes[rnd.Intn(len(sizes))]}
	}
	if !r.construct() {
		return r.h
	}
	if class == "tex-newsized" || r.h.ini.k == iNewSized {
		// "yields an empty buffer": look at it before anything else
		r.do(&gop{k: kBytes}, true)
		r.do(&gop{k: kLen}, false)
	}
	for i := 0; i < nOps; i++ {
		o := r.next(w)
		r.do(o, i == nOps-1 || rnd.Intn(9) == 0 || o.k == kReWrite)
	}
	return r.h
}

// class eq-utf8: every family of malformed / boundary UTF-8 shapes, placed where ReadRune starts decoding, drained rune
// by rune with Unread* in between; history idx starts its j-th write with family (idx+5j) mod 14, so every family is
// the first thing decoded in at least four histories of the quick tier
func utf8History(idx int, rnd *rand.Rand) *hist {
	r := newRunner("eq-utf8", rnd, initSpec{k: iZero}, true)
	r.construct()
	for j := 0; j < 3; j++ {
		p := r.utf8Family((idx + 5*j) % utf8Families)
		for k := rnd.Intn(3); k > 0; k-- {
			p = append(p, r.badUTF8()...)
		}
		if j == 2 && rnd.Intn(2) == 0 { // end the buffer inside a sequence
			p = append(p, r.utf8Family(9+rnd.Intn(2))...)
		}
		r.do(&gop{k: kWrite, p: p}, false)
		for k := 0; k < 14 && r.tlen() > 0; k++ {
			r.do(&gop{k: kReadRune}, false)
			switch rnd.Intn(8) {
			case 0:
				r.do(&gop{k: kUnreadRune}, true)
				r.do(&gop{k: kReadRune}, false)
			case 1:
				r.do(&gop{k: kUnreadByte}, true)
			case 2:
				r.do(&gop{k: kReadByte}, false)
			}
		}
	}
	r.do(&gop{k: kReadRune}, true)
	return r.h
}

var classes = []struct {
	name  string
	quick int // histories in the quick tier
}{
	{"eq-mixed", 220}, {"eq-rune", 140}, {"eq-grow", 160}, {"eq-io", 90}, {"eq-invalid", 100},
	{"tex-rewrite", 130}, {"tex-rewrite-any", 50}, {"tex-newsized", 40}, {"eq-utf8", 56},
}

func parRounds(thorough bool) int {
	if thorough {
		return 100000
	}
	return 25000
}

func caseRnd(seed int64, class string, idx int) *rand.Rand {
	h := fnv.New64a()
	fmt.Fprintf(h, "%d/%s/%d", seed, class, idx)
	return rand.New(rand.NewSource(int64(h.Sum64() >> 1)))
}

func main() {
	vh.Main("c11", func(e *vh.Env) {
		if e.Replay != "" { // "<seed>/<class>/<idx>/<thorough 0|1>"
			f := strings.Split(e.Replay, "/")
			if len(f) != 4 {
				panic("bad replay argument " + e.Replay)
			}
			seed, _ := strconv.ParseInt(f[0], 10, 64)
			idx, _ := strconv.Atoi(f[2])
			if f[1] == "corpus" {
				corpus()[idx].emit(e, e.Replay)
				return
			}
			if f[1] == "alias" {
				aliasHistories(e)[idx].emit(e, e.Replay)
				return
			}
			if f[1] == "selfalias" {
				selfAliasHistories()[idx].emit(e, e.Replay)
				return
			}
			if f[1] == "par" { // a parallel run cannot be repeated step for step: run the class again and show its rounds
				e.Seed = seed
				ph, _, _ := runParallel(e, parRounds(f[3] == "1"))
				for _, h := range ph {
					h.emit(e, e.Replay)
				}
				return
			}
			h := genHistory(f[1], idx, caseRnd(seed, f[1], idx), f[3] == "1")
			h.emit(e, e.Replay)
			return
		}
		thorough := e.Thorough || e.Search
		stats := map[string]int{}
		opHist := map[string]int{}
		stHist := map[string]int{}
		count := func(h *hist) {
			stats["histories"]++
			stats["operations"] += len(h.ops)
			stats["rewrite_steps"] += h.rewrites
			stats["steps_where_Cap_differs_from_bytes.Buffer(advisory)"] += h.capDiffers
			for j, o := range h.ops {
				opHist[o.k.String()]++
				stHist[statusName(h.texObs[j].st)]++
			}
		}
		for i, h := range corpus() {
			h.emit(e, fmt.Sprintf("%d/corpus/%d/0", e.Seed, i))
			count(h)
		}
		ph, tot, ns := runParallel(e, parRounds(thorough))
		for _, h := range ph {
			t := "0"
			if thorough {
				t = "1"
			}
			h.emit(e, fmt.Sprintf("%d/par/0/%s", e.Seed, t))
			count(h)
		}
		for i, h := range aliasHistories(e) {
			h.emit(e, fmt.Sprintf("%d/alias/%d/0", e.Seed, i))
			count(h)
		}
		stats["parallel_rounds_run"] = tot
		stats["parallel_rounds_where_tex_differs_from_bytes.Buffer(go filter, untrusted)"] = ns
		for _, c := range classes {
			n := e.Scale(c.quick, c.quick*10)
			if e.Search { // violation search: the budget goes to the class that diverged
				n = c.quick
				if e.Focus == "" || c.name == e.Focus || strings.HasPrefix(e.Focus, "corpus") {
					n = c.quick * 6
				}
			}
			for i := 0; i < n; i++ {
				h := genHistory(c.name, i, caseRnd(e.Seed, c.name, i), thorough)
				t := "0"
				if thorough {
					t = "1"
				}
				h.emit(e, fmt.Sprintf("%d/%s/%d/%s", e.Seed, c.name, i, t))
				count(h)
			}
		}
		// deterministic, seed-independent, after every other class (nothing else shifts)
		for i, h := range selfAliasHistories() {
			h.emit(e, fmt.Sprintf("%d/selfalias/%d/0", e.Seed, i))
			count(h)
		}
		e.Meta["stats"] = stats
		e.Meta["op_histogram"] = opHist
		e.Meta["tex_status_histogram"] = stHist
	})
}
