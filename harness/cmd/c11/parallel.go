package main

// Class "par-eq": private instances in parallel.
//
// G goroutines run really in parallel (started behind a spin barrier).  Each owns its OWN tex.Buffer and its own
// bytes.Buffer - no buffer is ever shared - and drives them through many short histories ("rounds") that are heavy in
// multi-byte WriteRune of all three widths, with runes, payload bytes and reader chunks that are distinct per
// goroutine.  Instances share nothing by contract, so under EVERY schedule each goroutine's observations must be
// exactly what the sequential model of its own history says; a package-level scratch area in any operation shows
// up as foreign bytes or a foreign byte count.
//
// Only a few rounds per goroutine are emitted (the first two, the last one, and up to six "suspect" rounds in which
// tex.Buffer and bytes.Buffer disagreed).  The suspect filter is a plain comparison in Go and is not trusted: it
// only decides what is shown to Coq; the verdict on every emitted round is Coq's (case_accept / case_holds), and each
// emitted round is a genuine single-goroutine history with what was really observed.

import (
	"math/rand"
	"runtime"
	"sync"
	"sync/atomic"

	"verifharness/vh"
)

const parGoroutines = 8

func parRune(g int, rnd *rand.Rand) rune {
	switch rnd.Intn(3) {
	case 0: // two bytes
		return rune(0x80 + g*0x40 + rnd.Intn(0x40))
	case 1: // three bytes
		return rune(0x1000 + g*0x1000 + rnd.Intn(0x1000))
	default: // four bytes
		return rune(0x10000 + g*0x10000 + rnd.Intn(0x10000))
	}
}

func parPayload(g int, rnd *rand.Rand, n int) []byte {
	p := make([]byte, n)
	for i := range p {
		p[i] = byte(g*32 + rnd.Intn(32))
	}
	return p
}

func parRound(g int, rnd *rand.Rand) *hist {
	ini := initSpec{k: iZero}
	if rnd.Intn(4) == 0 {
		ini = initSpec{k: iNewSized, size: []int{0, 4, 16, 64}[rnd.Intn(4)]}
	}
	r := newRunner("par-eq", rnd, ini, true)
	if !r.construct() {
		return r.h
	}
	n := 12 + rnd.Intn(10)
	for i := 0; i < n; i++ {
		var o *gop
		switch v := rnd.Intn(20); {
		case v < 12:
			o = &gop{k: kWriteRune, r: parRune(g, rnd)}
		case v < 14:
			o = &gop{k: kWrite, p: parPayload(g, rnd, 1+rnd.Intn(6))}
		case v < 16:
			o = &gop{k: kWriteString, p: parPayload(g, rnd, 1+rnd.Intn(6))}
		case v < 17:
			o = &gop{k: kReadFrom, sc: []chunk{{data: parPayload(g, rnd, 1+rnd.Intn(5)), e: 0}, {data: parPayload(g, rnd, rnd.Intn(4)), e: 1}}}
		case v < 18:
			o = &gop{k: kWriteByte, c: byte(g*32 + rnd.Intn(32))}
		case v < 19:
			o = &gop{k: kReadRune}
		default:
			o = &gop{k: kRead, n: 1 + rnd.Intn(5)}
		}
		r.do(o, i == n-1)
	}
	return r.h
}

func sameSeen(a, b seen) bool {
	if a.st != b.st || a.ln != b.ln || a.has != b.has || len(a.data) != len(b.data) || len(a.bytes) != len(b.bytes) {
		return false
	}
	for i := range a.data {
		if a.data[i] != b.data[i] {
			return false
		}
	}
	for i := range a.bytes {
		if a.bytes[i] != b.bytes[i] {
			return false
		}
	}
	return true
}

func suspect(h *hist) bool {
	for i := range h.texObs {
		if !sameSeen(h.texObs[i], h.refObs[i]) {
			return true
		}
	}
	return false
}

// runParallel returns the rounds to show to Coq, suspects first
func runParallel(e *vh.Env, rounds int) (out []*hist, total int, suspects int) {
	if runtime.GOMAXPROCS(0) < 4 {
		defer runtime.GOMAXPROCS(runtime.GOMAXPROCS(4))
	}
	kept := make([][]*hist, parGoroutines)
	sus := make([][]*hist, parGoroutines)
	nsus := make([]int, parGoroutines)
	var ready int32
	var wg sync.WaitGroup
	for g := 0; g < parGoroutines; g++ {
		wg.Add(1)
		go func(g int) {
			defer wg.Done()
			rnd := caseRnd(e.Seed, "par-eq", g)
			atomic.AddInt32(&ready, 1)
			for atomic.LoadInt32(&ready) < parGoroutines { // spin barrier: everybody starts together
				runtime.Gosched()
			}
			for i := 0; i < rounds; i++ {
				h := parRound(g, rnd)
				if suspect(h) {
					nsus[g]++
					if len(sus[g]) < 6 {
						sus[g] = append(sus[g], h)
					}
				} else if i < 2 || i == rounds-1 {
					kept[g] = append(kept[g], h)
				}
			}
		}(g)
	}
	wg.Wait()
	for g := 0; g < parGoroutines; g++ {
		out = append(out, sus[g]...)
		suspects += nsus[g]
	}
	for g := 0; g < parGoroutines; g++ {
		out = append(out, kept[g]...)
	}
	return out, rounds * parGoroutines, suspects
}
