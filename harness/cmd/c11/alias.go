package main

// Classes "alias-tex" / "alias-eq": constructor inputs are not retained beyond what bytes.Buffer documents.
//
// String variant: TWO buffers (A, B) are built from the SAME run-time-built string s.  A then performs the in-place
// write paths (ReWrite, drain-then-Write, the slide-down copy of grow, Truncate(0)+Write).  Afterwards B - which was
// never touched - is observed, and a third buffer C is built from s again: both must still show the original bytes
// (NewBufferString must not alias the string; bytes.NewBufferString copies).  Every buffer is emitted as an ordinary
// case: A tex-only (it uses ReWrite), B and C two-sided with the kept copy of the bytes as the constructor input.
//
// Slice variant: NewBuffer DOES alias its argument by contract, on both types.  A and B share one slice per side; A
// writes in place; B's case is emitted with the CURRENT contents of the shared slice as its constructor input
// (that is what "takes ownership of buf" means), so a NewBuffer that copied would be caught just as well.

import (
	"math/rand"

	"verifharness/vh"
)

func aliasInPlace(r *runner, rnd *rand.Rand, allowReWrite bool) {
	for n := 2 + rnd.Intn(3); n > 0; n-- {
		ln := r.tlen()
		switch rnd.Intn(5) {
		case 0:
			if allowReWrite {
				p := make([]byte, 1+rnd.Intn(4))
				for i := range p {
					p[i] = byte(200 + rnd.Intn(50))
				}
				r.do(&gop{k: kReWrite, pos: rnd.Intn(ln + r.consumed + 1), p: p}, true)
				continue
			}
			fallthrough
		case 1: // drain, let the next read reset, write again into the same storage
			r.do(&gop{k: kRead, n: ln + 1}, false)
			r.do(&gop{k: kRead, n: 1}, false)
			r.do(&gop{k: kWrite, p: r.payload(1 + rnd.Intn(ln+1))}, true)
		case 2: // consume a prefix, then a write that has to slide the rest down
			if ln > 2 {
				r.do(&gop{k: kNext, n: ln/2 + 1}, false)
			}
			r.do(&gop{k: kWrite, p: r.payload(1 + rnd.Intn(3))}, true)
		case 3:
			r.do(&gop{k: kTruncate, n: 0}, false)
			r.do(&gop{k: kWriteString, p: r.payload(1 + rnd.Intn(ln+1))}, true)
		default:
			r.do(&gop{k: kReset}, false)
			r.do(&gop{k: kWriteByte, c: byte(rnd.Intn(256))}, true)
		}
	}
}

func aliasObserve(r *runner, rnd *rand.Rand) {
	r.do(&gop{k: kBytes}, true)
	r.do(&gop{k: kString}, false)
	r.do(&gop{k: kRead, n: 1 + rnd.Intn(4)}, false)
	r.do(&gop{k: kLen}, true)
}

func aliasHistories(e *vh.Env) []*hist {
	var out []*hist
	for idx := 0; idx < 24; idx++ {
		rnd := caseRnd(e.Seed, "alias", idx)
		n := []int{1, 2, 5, 8, 16, 33, 64, 70}[rnd.Intn(8)]
		data := make([]byte, n)
		for i := range data {
			data[i] = byte('a' + rnd.Intn(26))
		}
		keep := append([]byte{}, data...)
		if idx%3 != 2 { // ---- one string, two (then three) buffers
			s := string(data) // built at run time: lives on the heap, never a literal
			a := newRunner("alias-tex", rnd, initSpec{k: iNewString, data: keep, shareStr: &s}, false)
			b := newRunner("alias-eq", rnd, initSpec{k: iNewString, data: keep, shareStr: &s}, true)
			if !a.construct() || !b.construct() {
				continue
			}
			aliasInPlace(a, rnd, true)
			aliasObserve(b, rnd)
			c := newRunner("alias-eq", rnd, initSpec{k: iNewString, data: keep, shareStr: &s}, true)
			if !c.construct() {
				continue
			}
			aliasObserve(c, rnd)
			out = append(out, a.h, b.h, c.h)
			continue
		}
		// ---- one slice per side, two buffers per side: aliasing is the documented behaviour of NewBuffer
		cp := n + []int{0, 0, 3, 16}[rnd.Intn(4)]
		x := make([]byte, n, cp)
		y := make([]byte, n, cp)
		copy(x, data)
		copy(y, data)
		a := newRunner("alias-eq", rnd, initSpec{k: iNew, data: keep, cp: cp, shareSlice: x, shareSliceRef: y}, true)
		b := newRunner("alias-eq", rnd, initSpec{k: iNew, data: keep, cp: cp, shareSlice: x, shareSliceRef: y}, true)
		if !a.construct() || !b.construct() {
			continue
		}
		aliasInPlace(a, rnd, false)
		b.h.ini.data = append([]byte{}, x[:n]...) // what the slice B owns holds NOW
		aliasObserve(b, rnd)
		out = append(out, a.h, b.h)
	}
	return out
}
