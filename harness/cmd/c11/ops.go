package main

import (
	"bytes"
	"errors"
	"fmt"
	"io"
	"runtime"
	"strings"

	"github.com/pinealctx/neptune/tex"
	"verifharness/vh"
)

// the operations both buffers offer
type bufAPI interface {
	Write(p []byte) (int, error)
	WriteString(s string) (int, error)
	WriteByte(c byte) error
	WriteRune(r rune) (int, error)
	Read(p []byte) (int, error)
	ReadByte() (byte, error)
	ReadRune() (rune, int, error)
	UnreadByte() error
	UnreadRune() error
	Next(n int) []byte
	Truncate(n int)
	Reset()
	Grow(n int)
	ReadFrom(r io.Reader) (int64, error)
	WriteTo(w io.Writer) (int64, error)
	Len() int
	Bytes() []byte
	String() string
	Cap() int
}

var _ bufAPI = (*tex.Buffer)(nil)
var _ bufAPI = (*bytes.Buffer)(nil)

type kind int

const (
	kWrite kind = iota
	kWriteString
	kWriteByte
	kWriteRune
	kRead
	kReadByte
	kReadRune
	kUnreadByte
	kUnreadRune
	kNext
	kTruncate
	kReset
	kGrow
	kReadFrom
	kWriteTo
	kLen
	kBytes
	kString
	kCap
	kReWrite
	kNil
)

var kindNames = []string{"Write", "WriteString", "WriteByte", "WriteRune", "Read", "ReadByte", "ReadRune", "UnreadByte", "UnreadRune",
	"Next", "Truncate", "Reset", "Grow", "ReadFrom", "WriteTo", "Len", "Bytes", "String", "Cap", "ReWrite", "NilReceiver"}

func (k kind) String() string { return kindNames[k] }

type chunk struct {
	data []byte
	e    int // 0 nil, 1 io.EOF, -1 negative count, other: userErr(e)
}

type gop struct {
	k    kind
	p    []byte
	c    byte
	r    rune
	n    int
	sc   []chunk
	m, e int
	pos  int
	// class eq-selfalias: Write(b.Bytes()[skip:]) - the argument IS the buffer's own unread window; p is filled in
	// by the runner with a copy of those bytes taken before the call (that is what the Coq term carries)
	alias bool
	skip  int
}

func (o *gop) coq() string {
	switch o.k {
	case kWrite:
		return "Write " + vh.CoqBytes(o.p)
	case kWriteString:
		return "WriteString " + vh.CoqBytes(o.p)
	case kWriteByte:
		return fmt.Sprintf("WriteByte %d%%Z", o.c)
	case kWriteRune:
		return "WriteRune " + vh.CoqZ(int64(o.r))
	case kRead:
		return "Read " + vh.CoqNat(o.n)
	case kReadByte:
		return "ReadByte"
	case kReadRune:
		return "ReadRune"
	case kUnreadByte:
		return "UnreadByte"
	case kUnreadRune:
		return "UnreadRune"
	case kNext:
		return "Next " + vh.CoqZ(int64(o.n))
	case kTruncate:
		return "Truncate " + vh.CoqZ(int64(o.n))
	case kReset:
		return "Reset"
	case kGrow:
		return "Grow " + vh.CoqZ(int64(o.n))
	case kReadFrom:
		xs := make([]string, len(o.sc))
		for i, c := range o.sc {
			xs[i] = "(" + vh.CoqBytes(c.data) + ", " + vh.CoqZ(int64(c.e)) + ")"
		}
		return "ReadFrom " + vh.CoqList(xs)
	case kWriteTo:
		return "WriteTo " + vh.CoqZ(int64(o.m)) + " " + vh.CoqZ(int64(o.e))
	case kLen:
		return "OLen"
	case kBytes:
		return "OBytes"
	case kString:
		return "OString"
	case kCap:
		return "OCap"
	case kReWrite:
		return "ReWrite " + vh.CoqZ(int64(o.pos)) + " " + vh.CoqBytes(o.p)
	case kNil:
		return "ONil " + vh.CoqZ(int64(o.n))
	}
	panic("kind")
}

func (o *gop) String() string {
	switch o.k {
	case kWrite, kWriteString:
		if o.alias {
			return fmt.Sprintf("Write(b.Bytes()[%d:]) (the argument aliases the buffer's own unread bytes, which were %v)", o.skip, o.p)
		}
		return fmt.Sprintf("%s(%v)", o.k, o.p)
	case kWriteByte:
		return fmt.Sprintf("WriteByte(%d)", o.c)
	case kWriteRune:
		return fmt.Sprintf("WriteRune(%d)", o.r)
	case kRead:
		return fmt.Sprintf("Read(len %d)", o.n)
	case kNext, kTruncate, kGrow:
		return fmt.Sprintf("%s(%d)", o.k, o.n)
	case kReadFrom:
		xs := make([]string, len(o.sc))
		for i, c := range o.sc {
			xs[i] = fmt.Sprintf("(%v,%s)", c.data, errName(c.e))
		}
		return "ReadFrom(reader answering " + strings.Join(xs, " ") + " then (0,EOF))"
	case kWriteTo:
		return fmt.Sprintf("WriteTo(writer answering (%d,%s))", o.m, errName(o.e))
	case kReWrite:
		return fmt.Sprintf("ReWrite(%d,%v)", o.pos, o.p)
	case kNil:
		if o.n == 0 {
			return "(*Buffer)(nil).String()"
		}
		return "(*Buffer)(nil).Len()"
	}
	return o.k.String() + "()"
}

func errName(e int) string {
	switch e {
	case 0:
		return "nil"
	case 1:
		return "EOF"
	case -1:
		return "negative-count"
	case 50:
		return "error wrapping io.EOF"
	case 51:
		return "error wrapping io.ErrUnexpectedEOF"
	case 52:
		return "custom error with Is(io.EOF)"
	case 53:
		return "io.ErrUnexpectedEOF"
	case 55:
		return "errors.Join(io.EOF, x)"
	}
	return fmt.Sprintf("err%d", e)
}

// ---- scripted reader / writer ----

type userErr int

func (u userErr) Error() string { return fmt.Sprintf("user error %d", int(u)) }

// error values that must keep their IDENTITY through ReadFrom / WriteTo (the model knows them as the caller's errors
// number 50..55): only io.EOF itself ends ReadFrom without error, an error that merely wraps it does not
type isEOFErr struct{}

func (isEOFErr) Error() string        { return "custom error whose Is(io.EOF) is true" }
func (isEOFErr) Is(target error) bool { return target == io.EOF }

var (
	errWrapEOF        = fmt.Errorf("scripted: read failed: %w", io.EOF)
	errWrapUnexpected = fmt.Errorf("scripted: read failed: %w", io.ErrUnexpectedEOF)
	errJoinedEOF      = errors.Join(io.EOF, errors.New("scripted: and something else"))
)

func errOf(e int) error {
	switch e {
	case 0:
		return nil
	case 1:
		return io.EOF
	case 50:
		return errWrapEOF
	case 51:
		return errWrapUnexpected
	case 52:
		return isEOFErr{}
	case 53:
		return io.ErrUnexpectedEOF
	case 55:
		return errJoinedEOF
	}
	return userErr(e)
}

var identityErrs = []int{50, 51, 52, 53, 55}

type sreader struct {
	sc []chunk
	i  int
}

func (r *sreader) Read(p []byte) (int, error) {
	if r.i >= len(r.sc) {
		return 0, io.EOF
	}
	c := r.sc[r.i]
	r.i++
	if c.e == -1 {
		return -1, nil
	}
	return copy(p, c.data), errOf(c.e)
}

type swriter struct {
	m, e   int
	got    []byte
	called bool
}

func (w *swriter) Write(p []byte) (int, error) {
	w.called = true
	w.got = append([]byte{}, p...)
	return w.m, errOf(w.e)
}

func errStatus(err error) int64 {
	switch {
	case err == nil:
		return 0
	case err == io.EOF:
		return 901
	case err == io.ErrShortWrite:
		return 903
	case err == errWrapEOF:
		return 1050
	case err == errWrapUnexpected:
		return 1051
	case err == io.ErrUnexpectedEOF:
		return 1053
	case err == errJoinedEOF:
		return 1055
	}
	if _, ok := err.(isEOFErr); ok {
		return 1052
	}
	if u, ok := err.(userErr); ok {
		return 1000 + int64(u)
	}
	return 1999
}

// panicClass maps the VALUE a call panicked with to the status the model uses:
// 900 runtime index / slice-bounds error, 904 ErrTooLarge (each package has its own variable with the same text),
// 905 Grow's negative count, 906 truncation out of range, 907 errNegativeRead, 908 invalid Write count,
// 909 any other runtime error (e.g. makeslice: len out of range), 910 anything else.
func panicClass(r interface{}) int64 {
	msg := ""
	switch v := r.(type) {
	case runtime.Error:
		m := v.Error()
		if strings.Contains(m, "slice bounds out of range") || strings.Contains(m, "index out of range") {
			return 900
		}
		return 909
	case error:
		if errors.Is(v, tex.ErrTooLarge) || errors.Is(v, bytes.ErrTooLarge) {
			return 904
		}
		msg = v.Error()
	case string:
		msg = v
	default:
		return 910
	}
	switch msg {
	case "bytes.Buffer: too large":
		return 904
	case "bytes.Buffer.Grow: negative count":
		return 905
	case "bytes.Buffer: truncation out of range":
		return 906
	case "bytes.Buffer: reader returned negative count from Read":
		return 907
	case "bytes.Buffer.WriteTo: invalid Write count":
		return 908
	}
	return 910
}

func statusName(st int64) string {
	switch st {
	case 0:
		return "ok"
	case 900:
		return "panic(index/slice bounds)"
	case 904:
		return "panic(ErrTooLarge)"
	case 905:
		return "panic(negative count)"
	case 906:
		return "panic(truncation out of range)"
	case 907:
		return "panic(errNegativeRead)"
	case 908:
		return "panic(invalid Write count)"
	case 909:
		return "panic(other runtime error)"
	case 910:
		return "panic(other)"
	case 901:
		return "EOF"
	case 902:
		return "unread-error"
	case 903:
		return "ErrShortWrite"
	}
	return "user-error"
}

func coqZs(xs []int64) string {
	ss := make([]string, len(xs))
	for i, x := range xs {
		if x < 0 {
			ss[i] = fmt.Sprintf("(%d)", x)
		} else {
			ss[i] = fmt.Sprintf("%d", x)
		}
	}
	return "[" + strings.Join(ss, ";") + "]%Z"
}

func i64s(b []byte) []int64 {
	r := make([]int64, len(b))
	for i, x := range b {
		r[i] = int64(x)
	}
	return r
}

type rewriter interface{ ReWrite(pos int, p []byte) }

// apply runs one operation and returns its observable result; a panic of the implementation is an outcome
func apply(b bufAPI, o *gop) (st int64, data []int64) {
	var w *swriter
	defer func() {
		if r := recover(); r != nil {
			st, data = panicClass(r), []int64{}
			if w != nil && w.called {
				data = append([]int64{-1}, i64s(w.got)...)
			}
		}
	}()
	data = []int64{}
	switch o.k {
	case kWrite:
		if o.alias { // no copy: the callee sees its own storage as the argument
			own := b.Bytes()
			k := o.skip
			if k > len(own) {
				k = len(own)
			}
			n, err := b.Write(own[k:])
			return errStatus(err), []int64{int64(n)}
		}
		n, err := b.Write(append([]byte{}, o.p...))
		return errStatus(err), []int64{int64(n)}
	case kWriteString:
		n, err := b.WriteString(string(o.p))
		return errStatus(err), []int64{int64(n)}
	case kWriteByte:
		return errStatus(b.WriteByte(o.c)), data
	case kWriteRune:
		n, err := b.WriteRune(o.r)
		return errStatus(err), []int64{int64(n)}
	case kRead:
		p := make([]byte, o.n)
		n, err := b.Read(p)
		if n < 0 || n > len(p) {
			return 1998, []int64{int64(n)}
		}
		return errStatus(err), append([]int64{int64(n)}, i64s(p[:n])...)
	case kReadByte:
		c, err := b.ReadByte()
		return errStatus(err), []int64{int64(c)}
	case kReadRune:
		r, n, err := b.ReadRune()
		return errStatus(err), []int64{int64(r), int64(n)}
	case kUnreadByte:
		if err := b.UnreadByte(); err != nil {
			return 902, data
		}
		return 0, data
	case kUnreadRune:
		if err := b.UnreadRune(); err != nil {
			return 902, data
		}
		return 0, data
	case kNext:
		return 0, i64s(b.Next(o.n))
	case kTruncate:
		b.Truncate(o.n)
		return 0, data
	case kReset:
		b.Reset()
		return 0, data
	case kGrow:
		b.Grow(o.n)
		return 0, data
	case kReadFrom:
		n, err := b.ReadFrom(&sreader{sc: o.sc})
		return errStatus(err), []int64{n}
	case kWriteTo:
		w = &swriter{m: o.m, e: o.e}
		n, err := b.WriteTo(w)
		d := []int64{n}
		if w.called {
			d = append(d, i64s(w.got)...)
		}
		if err == io.EOF { // a writer's io.EOF is just the caller's error number 1 for WriteTo
			return 1001, d
		}
		return errStatus(err), d
	case kLen:
		return 0, []int64{int64(b.Len())}
	case kBytes:
		return 0, i64s(b.Bytes())
	case kString:
		return 0, i64s([]byte(b.String()))
	case kCap:
		_ = b.Cap()
		return 0, data
	case kReWrite:
		b.(rewriter).ReWrite(o.pos, append([]byte{}, o.p...))
		return 0, data
	case kNil: // the same method on a nil pointer of the same type; the buffer under test is not touched
		var nb bufAPI
		switch b.(type) {
		case *tex.Buffer:
			nb = (*tex.Buffer)(nil)
		default:
			nb = (*bytes.Buffer)(nil)
		}
		if o.n == 0 {
			return 0, i64s([]byte(nb.String()))
		}
		return 0, []int64{int64(nb.Len())}
	}
	panic("kind")
}

// ---- observations ----

type seen struct {
	st    int64
	data  []int64
	ln    int
	bytes []byte
	has   bool
}

func (s seen) coq() string {
	b := "None"
	if s.has {
		b = "Some " + vh.CoqBytes(s.bytes)
	}
	return fmt.Sprintf("((%s, %s), (%s, %s))", vh.CoqZ(s.st), coqZs(s.data), vh.CoqZ(int64(s.ln)), b)
}

func (s seen) String() string {
	r := fmt.Sprintf("%s %v Len=%d", statusName(s.st), s.data, s.ln)
	if s.has {
		r += fmt.Sprintf(" Bytes=%v", s.bytes)
	}
	return r
}

// ---- construction ----

type initKind int

const (
	iZero initKind = iota
	iNew
	iNewString
	iNewSized
)

type initSpec struct {
	k        initKind
	data     []byte
	cp       int  // capacity of the slice handed to NewBuffer
	isNil    bool // NewBuffer(nil)
	size     int  // NewSizedBuffer
	capSeen  int  // Cap() right after construction
	nilSeen  bool // Bytes() == nil right after construction
	panicked bool
	done     bool
	// constructor arguments shared with another buffer (class alias-*)
	shareStr      *string // NewBufferString(*shareStr) on both sides
	shareSlice    []byte  // tex.NewBuffer(shareSlice)
	shareSliceRef []byte  // bytes.NewBuffer(shareSliceRef)
}

func (i *initSpec) build(twoSided bool) (tb *tex.Buffer, rb *bytes.Buffer, ok bool) {
	defer func() {
		if r := recover(); r != nil {
			tb, rb, ok = nil, nil, false
		}
	}()
	mk := func() []byte {
		if i.isNil {
			return nil
		}
		s := make([]byte, len(i.data), i.cp)
		copy(s, i.data)
		return s
	}
	switch i.k {
	case iZero:
		tb = new(tex.Buffer)
		if twoSided {
			rb = new(bytes.Buffer)
		}
	case iNew:
		if i.shareSlice != nil {
			tb = tex.NewBuffer(i.shareSlice)
			if twoSided {
				rb = bytes.NewBuffer(i.shareSliceRef)
			}
			break
		}
		tb = tex.NewBuffer(mk())
		if twoSided {
			rb = bytes.NewBuffer(mk())
		}
	case iNewString:
		if i.shareStr != nil {
			tb = tex.NewBufferString(*i.shareStr)
			if twoSided {
				rb = bytes.NewBufferString(*i.shareStr)
			}
			break
		}
		tb = tex.NewBufferString(string(i.data))
		if twoSided {
			rb = bytes.NewBufferString(string(i.data))
		}
	case iNewSized:
		tb = tex.NewSizedBuffer(i.size)
		if twoSided {
			rb = bytes.NewBuffer(make([]byte, 0, i.size))
		}
	}
	return tb, rb, true
}

func (i *initSpec) coq() string {
	switch i.k {
	case iZero:
		return "IZero"
	case iNew:
		return fmt.Sprintf("(INew %s %s %s)", vh.CoqBytes(i.data), vh.CoqNat(i.cp), vh.CoqBool(i.isNil))
	case iNewString:
		return fmt.Sprintf("(INewString %s %s %s)", vh.CoqBytes(i.data), vh.CoqNat(i.capSeen), vh.CoqBool(i.nilSeen))
	default:
		c := "None"
		if !i.panicked {
			c = "(Some " + vh.CoqNat(i.capSeen) + ")"
		}
		return fmt.Sprintf("(INewSized %s %s)", vh.CoqZ(int64(i.size)), c)
	}
}

func (i *initSpec) String() string {
	switch i.k {
	case iZero:
		return "zero value"
	case iNew:
		if i.isNil {
			return "NewBuffer(nil)"
		}
		return fmt.Sprintf("NewBuffer(%v with cap %d)", i.data, i.cp)
	case iNewString:
		return fmt.Sprintf("NewBufferString(%v) Cap()=%d", i.data, i.capSeen)
	default:
		if i.panicked {
			return fmt.Sprintf("NewSizedBuffer(%d) panicked", i.size)
		}
		return fmt.Sprintf("NewSizedBuffer(%d) Cap()=%d", i.size, i.capSeen)
	}
}
