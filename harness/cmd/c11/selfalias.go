package main

// Class "eq-selfalias" (deterministic, the same on every seed): Write(b.Bytes()[k:]) - the argument aliases the
// buffer's own unread window - after reads, on every path of grow (reslice, slide-down, reallocate, reset-if-empty).
// bytes.Buffer run on the same aliased sequence defines the expected result (self-append: the unread contents
// followed by their own tail); tex.Buffer must show the same.  The Coq term carries the bytes the argument held when
// the call was made, so the value-semantics model / contract say what a correct self-append yields.
//
// Why that is sound on the unchanged code (tex.Buffer and the installed bytes.Buffer): the argument window is
// [off+k, off+m).  Reslice: nothing moves, the destination [off+m, ..) is disjoint.  Slide (n <= cap/2 - m, reslice
// failed, hence off > cap - m - n >= cap/2 >= m+n): neither the slide destination [0,m) nor the write destination
// [m,m+n) reaches off.  Reallocate: the argument stays in the old array.  Empty buffer: the argument is empty.
// Only Bytes() is used as the aliasing argument (never the result of Next, whose storage a later slide may reuse).

func selfAliasHistories() []*hist {
	WA := func(skip int) *gop { return &gop{k: kWrite, alias: true, skip: skip} }
	var out []*hist
	seenKey := map[[4]int]bool{}
	type start struct {
		l, cp int // cp 0: zero value + Write(seq(l)); otherwise NewBuffer(seq(l) with capacity cp)
	}
	starts := []start{{20, 0}, {40, 0}, {60, 0}, {64, 0}, {100, 0}, {40, 64}, {80, 128}, {100, 128}, {30, 30}}
	for _, s := range starts {
		for _, r := range []int{0, 1, 5, 10, s.l / 2, s.l - 10, s.l - 1, s.l} {
			if r < 0 || r > s.l {
				continue
			}
			m := s.l - r
			for _, skip := range []int{0, 1, 5, m / 2, m - 1, m} {
				if skip < 0 || skip > m {
					continue
				}
				key := [4]int{s.l, s.cp, r, skip}
				if seenKey[key] {
					continue
				}
				seenKey[key] = true
				ini := initSpec{k: iZero}
				var ops []*gop
				if s.cp == 0 {
					ops = append(ops, &gop{k: kWrite, p: seq(s.l, 10)})
				} else {
					ini = initSpec{k: iNew, data: seq(s.l, 10), cp: s.cp}
				}
				ops = append(ops, &gop{k: kNext, n: r}, WA(skip), &gop{k: kBytes},
					&gop{k: kRead, n: 3}, WA(skip/2), &gop{k: kString}, &gop{k: kReadByte}, &gop{k: kUnreadByte},
					WA(0), &gop{k: kBytes}, &gop{k: kRead, n: 1000}, WA(0), &gop{k: kLen})
				out = append(out, fixed("eq-selfalias", true, ini, ops...))
			}
		}
	}
	return out
}
