package main

// Two classes that look at the codec as what the property says it is - a family of pure functions:
//
//   held : render a whole batch of ids first, keep the strings, and only then look at each kept string again
//          (its bytes as they read AFTER the batch) and decode it.  A string is a value: what CnStyle returned for
//          id A is CnStyle(A) for ever, whatever was rendered afterwards.
//   par  : several goroutines behind a spin barrier convert their own streams of ids (each goroutine its own
//          seconds) in tight loops; every single result must be the function's value, under every schedule, so any
//          observation that differs is a violation no matter how the goroutines interleaved.  Only the first
//          observation per id and every differing one are emitted.

import (
	"errors"
	"fmt"
	"math/rand"
	"runtime"
	"strconv"
	"strings"
	"sync"
	"sync/atomic"

	"github.com/pinealctx/neptune/idgen/snowflake"
	"verifharness/vh"
)

// FromChStyle without touching the configuration (the caller holds it), panics recovered
func rawFrom(s string) (coq, desc string) {
	defer func() {
		if r := recover(); r != nil {
			coq, desc = "Other", fmt.Sprintf("panic: %v", r)
		}
	}()
	v, err := snowflake.FromChStyle(s)
	switch {
	case err == nil:
		return fmt.Sprintf("(Ok %s)", vh.CoqZ(v)), fmt.Sprintf("%d", v)
	case errors.Is(err, strconv.ErrSyntax):
		return "ErrSyntax", "error(syntax): " + err.Error()
	case strings.HasPrefix(err.Error(), "unspported.id.cn.len"):
		return "ErrLen", "error(len): " + err.Error()
	}
	return "Other", "error(other): " + err.Error()
}

func rawCn(id int64) (s string, pan interface{}) {
	defer func() {
		if r := recover(); r != nil {
			pan, s = r, ""
		}
	}()
	return snowflake.CnStyle(id), nil
}

func rawFields(id int64) (f, p, x f3) {
	f, p, x = bad3, bad3, bad3
	defer func() {
		if r := recover(); r != nil {
			f, p, x = bad3, bad3, bad3
		}
	}()
	a, b, d := snowflake.IDFields(id)
	f = f3{a, b, d}
	a, b, d = snowflake.IDParse(id)
	p = f3{a, b, d}
	t, n, s := snowflake.IDParseEx(id)
	x = f3{t.UnixMilli(), n, s}
	return
}

func idsRep(ids []int64) string {
	r := make([]string, len(ids))
	for i, v := range ids {
		r[i] = fmt.Sprint(v)
	}
	return strings.Join(r, ",")
}

func cnNontrivial(c cfgT, id int64) bool {
	return c.valid() && inDom(id) && (id>>c.shift())+c.epoch+offMs < y10k
}

// ---------------------------------------------------------------- held

// heldBatch: all CnStyle calls first, then every kept string is read again and decoded
func heldBatch(e *vh.Env, c cfgT, ids []int64, cls string) {
	kept := make([]string, len(ids))
	first := make([]string, len(ids)) // a private copy taken at once, only shown in the description
	pans := make([]interface{}, len(ids))
	type obs struct{ now, rc, rd string }
	res := make([]obs, len(ids))
	withCfg(c, func() {
		for i, id := range ids {
			kept[i], pans[i] = rawCn(id)
			first[i] = string(append([]byte(nil), kept[i]...))
		}
		// a second pass over the same ids in another order: whatever is reused inside gets reused
		for i := len(ids) - 1; i >= 0; i -= 2 {
			_, _ = rawCn(ids[i])
		}
		for i := range ids {
			now := string(append([]byte(nil), kept[i]...)) // the kept string as it reads after the whole batch
			var rc, rd string
			if pans[i] != nil {
				rc, rd = "Other", fmt.Sprintf("CnStyle panic: %v", pans[i])
			} else {
				rc, rd = rawFrom(kept[i])
			}
			res[i] = obs{now, rc, rd}
		}
	})
	for i, id := range ids {
		d := map[string]interface{}{"kind": "cn-held", "cfg": c.desc(), "id": id, "batch": ids, "position": i,
			"CnStyle_when_returned": first[i], "CnStyle_kept_read_after_batch": res[i].now, "FromChStyle_of_kept": res[i].rd}
		e.Emit(vh.Case{
			Coq:        fmt.Sprintf("CCn %s %s %s %s", c.coq(), vh.CoqZ(id), vh.CoqBytes([]byte(res[i].now)), res[i].rc),
			Class:      "held/" + cls,
			Nontrivial: cnNontrivial(c, id),
			Key:        fmt.Sprintf("held %s %d %d %s %s", c.rep(), i, id, res[i].now, res[i].rc),
			Desc:       d,
			Replay:     fmt.Sprintf("held|%s|%s", c.rep(), idsRep(ids)),
		})
	}
}

// ---------------------------------------------------------------- par

const parG = 8

type parKey struct {
	id   int64
	s    string
	rc   string
	kind byte
}

type parRec struct {
	g, iter int
	id      int64
	s       string // CnStyle result used
	rc, rd  string // FromChStyle(s)
	f, p, x f3
	kind    byte // 'c' date form, 'f' fields
	first   bool
}

// parRound: parG goroutines, each with its own seconds, iters conversions each.  Returns (#conversions, #differing).
func parRound(e *vh.Env, c cfgT, seed int64, iters int, cls string) (int64, int64) {
	rnd := rand.New(rand.NewSource(seed))
	max := int64(1)<<c.width() - 1
	mask := int64(1)<<c.shift() - 1
	// absolute seconds: goroutine g owns seconds base+3g, base+3g+1, base+3g+2 (+ a far one), all distinct
	span := (max - 10000000) / 1000
	if span < 1000 {
		span = 1000
	}
	baseSec := (c.epoch+999)/1000 + 1 + rnd.Int63n(span)
	const perSec = 4
	type stream struct {
		ids []int64 // 3 seconds x perSec ids, second-major
	}
	streams := make([]stream, parG)
	for g := 0; g < parG; g++ {
		for j := 0; j < 3; j++ {
			sec := baseSec + int64(3*g+j)
			if j == 2 {
				sec = baseSec + 1000 + int64(g)*86400*31 + rnd.Int63n(3600) // another month
			}
			for k := 0; k < perSec; k++ {
				ts := sec*1000 + rnd.Int63n(1000) - c.epoch
				if ts < 0 || ts > max {
					ts = (baseSec+int64(3*g+j))*1000 + rnd.Int63n(1000) - c.epoch
				}
				streams[g].ids = append(streams[g].ids, ts<<c.shift()|rnd.Int63n(mask+1))
			}
		}
	}
	recs := make([][]parRec, parG)
	var total, differing int64
	withCfg(c, func() {
		var ready int32
		var wg sync.WaitGroup
		for g := 0; g < parG; g++ {
			wg.Add(1)
			go func(g int) {
				defer wg.Done()
				ids := streams[g].ids
				firstC := map[int64]parRec{}
				firstF := map[int64]parRec{}
				seen := map[parKey]bool{}
				strs := make([]string, len(ids))
				var mine []parRec
				var n, diff int64
				atomic.AddInt32(&ready, 1)
				for atomic.LoadInt32(&ready) < parG {
					runtime.Gosched()
				}
				for it := 0; it < iters; it++ {
					// runs of 1..8 ids of one second, then the next second
					j := (it >> uint(g%4)) % 3
					k := it % perSec
					ix := j*perSec + k
					id := ids[ix]
					if strs[ix] == "" || it%16 == 0 {
						s, pan := rawCn(id)
						if pan != nil {
							s = ""
						}
						strs[ix] = s
					}
					s := strs[ix]
					rc, rd := rawFrom(s)
					n++
					r := parRec{g: g, iter: it, id: id, s: s, rc: rc, rd: rd, kind: 'c'}
					if f0, ok := firstC[id]; !ok {
						r.first = true
						firstC[id] = r
						mine = append(mine, r)
					} else if f0.s != s || f0.rc != rc {
						diff++
						key := parKey{id, s, rc, 'c'}
						if !seen[key] && len(seen) < 12 {
							seen[key] = true
							mine = append(mine, r)
						}
					}
					if it%32 == 5 {
						f, p, x := rawFields(id)
						n++
						r := parRec{g: g, iter: it, id: id, f: f, p: p, x: x, kind: 'f'}
						if f0, ok := firstF[id]; !ok {
							r.first = true
							firstF[id] = r
							mine = append(mine, r)
						} else if f0.f != f || f0.p != p || f0.x != x {
							diff++
							key := parKey{id, f.coq() + p.coq() + x.coq(), "", 'f'}
							if !seen[key] && len(seen) < 12 {
								seen[key] = true
								mine = append(mine, r)
							}
						}
					}
				}
				recs[g] = mine
				atomic.AddInt64(&total, n)
				atomic.AddInt64(&differing, diff)
			}(g)
		}
		wg.Wait()
	})
	for g := 0; g < parG; g++ {
		for _, r := range recs[g] {
			what := "first observation of this id by its goroutine"
			if !r.first {
				what = "an observation that differs from the first one of the same id"
			}
			d := map[string]interface{}{"cfg": c.desc(), "id": r.id, "goroutine": r.g, "iteration": r.iter, "goroutines": parG,
				"iterations_each": iters, "what": what}
			rep := fmt.Sprintf("par|%s|%d|%d", c.rep(), seed, iters)
			if r.kind == 'c' {
				d["kind"], d["CnStyle"], d["FromChStyle"] = "cn-parallel", r.s, r.rd
				e.Emit(vh.Case{
					Coq:        fmt.Sprintf("CCn %s %s %s %s", c.coq(), vh.CoqZ(r.id), vh.CoqBytes([]byte(r.s)), r.rc),
					Class:      "par/" + cls,
					Nontrivial: cnNontrivial(c, r.id),
					Key:        fmt.Sprintf("par cn %s %d %d %s %s", c.rep(), r.g, r.id, r.s, r.rc),
					Desc:       d, Replay: rep,
				})
			} else {
				d["kind"], d["IDFields"], d["IDParse"], d["IDParseEx(unixmilli,node,step)"] = "fields-parallel", r.f, r.p, r.x
				e.Emit(vh.Case{
					Coq:        fmt.Sprintf("CFields %s %s %s %s %s", c.coq(), vh.CoqZ(r.id), r.f.coq(), r.p.coq(), r.x.coq()),
					Class:      "par/" + cls,
					Nontrivial: c.valid() && inDom(r.id),
					Key:        fmt.Sprintf("par fields %s %d %d %s", c.rep(), r.g, r.id, r.f.coq()+r.p.coq()+r.x.coq()),
					Desc:       d, Replay: rep,
				})
			}
		}
	}
	return total, differing
}
