package main

// Deterministic calendar members of every run (Asia/Shanghai wall clock, the zone the code uses): the days around the
// end of February in 2000 (divisible by 400), 2004, 2100 (a common year), 2400; year ends; every month end of those
// years; always with the last millisecond 23:59:59.999 and the first one 00:00:00.000 - under the epochs 2000-01-01,
// 2000-02-01 and later ones that put the instant inside the timestamp width.

import (
	"time"

	"verifharness/vh"
)

type calMember struct {
	c  cfgT
	id int64
}

func calendarInstants() []int64 {
	var out []int64
	for _, y := range []int{2000, 2004, 2100, 2400} {
		out = append(out,
			msOfDate(y, 2, 28, 0, 0, 0, 0),
			msOfDate(y, 2, 28, 23, 59, 59, 999),
			msOfDate(y, 2, 29, 0, 0, 0, 0), // March 1 in a common year (time.Date normalises)
			msOfDate(y, 2, 29, 12, 34, 56, 789),
			msOfDate(y, 2, 29, 23, 59, 59, 999),
			msOfDate(y, 3, 1, 0, 0, 0, 0),
			msOfDate(y, 3, 1, 23, 59, 59, 999),
			msOfDate(y, 12, 31, 23, 59, 59, 999),
			msOfDate(y+1, 1, 1, 0, 0, 0, 0),
			msOfDate(y, 1, 1, 0, 0, 0, 0),
			msOfDate(y, 1, 1, 0, 0, 0, 1),
		)
		for m := time.Month(1); m <= 12; m++ {
			first := msOfDate(y, m, 1, 0, 0, 0, 0)
			out = append(out, first, first-1) // first ms of the month, last ms of the previous one
		}
	}
	return out
}

func calendarCorpus(e *vh.Env) []calMember {
	epochs := []int64{
		y2000,                            // 2000-01-01 00:00 +08
		msOfDate(2000, 2, 1, 0, 0, 0, 0), // 2000-02-01
		msOfDate(2000, 2, 28, 23, 59, 59, 999),
		defEpoch,
		msOfDate(2080, 1, 1, 0, 0, 0, 0),
		msOfDate(2380, 1, 1, 0, 0, 0, 0),
		msOfDate(2399, 6, 1, 0, 0, 0, 0),
	}
	layouts := []cfgT{{0, 10, false, nil}, {0, 8, true, nil}, {0, 9, false, nil}, {0, 10, true, nil}, {0, 8, false, nil}, {0, 9, true, nil}}
	var out []calMember
	k := 0
	for _, t := range calendarInstants() {
		for _, ep := range epochs {
			// two layouts per (instant, epoch), rotating through all six
			for j := 0; j < 2; j++ {
				l := layouts[k%len(layouts)]
				k++
				c := cfgT{ep, l.nb, l.low, nil}
				ts := t - ep
				if ts < 0 || ts > int64(1)<<c.width()-1 {
					continue
				}
				if k%2 == 0 {
					c = viaSetup(e, c)
				}
				n, s, _ := genLow(e, c)
				out = append(out, calMember{c, mkID(c, ts, n, s)})
			}
		}
	}
	return out
}
