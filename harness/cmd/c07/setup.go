package main

// Configurations reached through the public API: Setup(UseEpoch(t), UseNodeMode(m), NodeAtLowest()).
// The verif hook only puts the three globals into a start state; the case carries (start, options) and Coq
// computes the configuration with C07_Model.setup_from, so every class compares the behaviour Setup really
// produced with the model of Setup.

import (
	"fmt"
	"strings"
	"time"

	"github.com/pinealctx/neptune/idgen/snowflake"
	"verifharness/vh"
)

type optT struct {
	kind byte  // 'E' UseEpoch, 'M' UseNodeMode, 'L' NodeAtLowest
	t    tmT   // E
	m    uint8 // M
}

type setupT struct {
	sEpoch int64
	sNb    uint8
	sLow   bool
	opts   []optT
}

func (o optT) rep() string {
	switch o.kind {
	case 'E':
		return "E" + o.t.rep()
	case 'M':
		return fmt.Sprintf("M%d", o.m)
	}
	return "L"
}
func (o optT) coq() string {
	switch o.kind {
	case 'E':
		return "OEpoch " + o.t.coq()
	case 'M':
		return fmt.Sprintf("OMode %d%%Z", o.m)
	}
	return "OLowest"
}
func (o optT) desc() string {
	switch o.kind {
	case 'E':
		return "UseEpoch(" + o.t.desc() + ")"
	case 'M':
		return fmt.Sprintf("UseNodeMode(%d)", o.m)
	}
	return "NodeAtLowest()"
}
func (v *setupT) optsCoq() string {
	xs := make([]string, len(v.opts))
	for i, o := range v.opts {
		xs[i] = o.coq()
	}
	return vh.CoqList(xs)
}
func (v *setupT) optsDesc() string {
	xs := make([]string, len(v.opts))
	for i, o := range v.opts {
		xs[i] = o.desc()
	}
	return strings.Join(xs, ", ")
}
func (v *setupT) goOpts() []snowflake.Option {
	var r []snowflake.Option
	for _, o := range v.opts {
		switch o.kind {
		case 'E':
			r = append(r, snowflake.UseEpoch(o.t.time()))
		case 'M':
			r = append(r, snowflake.UseNodeMode(snowflake.NodeBitsMode(o.m)))
		default:
			r = append(r, snowflake.NodeAtLowest())
		}
	}
	return r
}

// what the generator expects Setup to make of the options (only used to aim the inputs; the verdict is Coq's)
func (v *setupT) expected() (int64, uint8, bool) {
	ep, nb, low := v.sEpoch, v.sNb, v.sLow
	for _, o := range v.opts {
		switch o.kind {
		case 'E':
			ep = o.t.sec*1000 + o.t.nsec/1000000
		case 'M':
			if o.m == 8 || o.m == 9 {
				nb = o.m
			} else {
				nb = 10
			}
		default:
			low = true
		}
	}
	return ep, nb, low
}

func mkVia(v *setupT) cfgT {
	ep, nb, low := v.expected()
	return cfgT{ep, nb, low, v}
}

var notAMode = []uint8{10, 10, 0, 1, 7, 11, 12, 22, 255}

// viaSetup: the same configuration c, reached through Setup from some start state
func viaSetup(e *vh.Env, c cfgT) cfgT {
	v := &setupT{sEpoch: defEpoch, sNb: 10, sLow: false}
	if e.Rnd.Intn(10) < 3 {
		// Setup is cumulative: start from an earlier configuration (the flag can only be switched on)
		v.sEpoch = y2000 + e.Rnd.Int63n(1<<40)
		v.sNb = uint8(8 + e.Rnd.Intn(3))
		v.sLow = c.low && e.Rnd.Intn(2) == 0
	}
	sub := func() int64 { return pick(e, 0, 0, 1, 999999, e.Rnd.Int63n(1000000)) }
	var blocks [][]optT
	if v.sEpoch != c.epoch || e.Rnd.Intn(3) == 0 {
		var b []optT
		if e.Rnd.Intn(4) == 0 {
			b = append(b, optT{kind: 'E', t: tmOfMs(y2000+e.Rnd.Int63n(1<<41), sub())}) // overridden by the next one
		}
		blocks = append(blocks, append(b, optT{kind: 'E', t: tmOfMs(c.epoch, sub())}))
	}
	if v.sNb != c.nb || e.Rnd.Intn(3) == 0 {
		var b []optT
		if e.Rnd.Intn(4) == 0 {
			b = append(b, optT{kind: 'M', m: uint8(pick(e, 8, 9, 10, 0, 255))})
		}
		m := c.nb
		if c.nb == 10 {
			m = notAMode[e.Rnd.Intn(len(notAMode))] // every value that is no mode means Node1024
		}
		blocks = append(blocks, append(b, optT{kind: 'M', m: m}))
	}
	if c.low && (!v.sLow || e.Rnd.Intn(3) == 0) {
		blocks = append(blocks, []optT{{kind: 'L'}})
	}
	e.Rnd.Shuffle(len(blocks), func(i, j int) { blocks[i], blocks[j] = blocks[j], blocks[i] })
	for _, b := range blocks {
		v.opts = append(v.opts, b...)
	}
	r := mkVia(v)
	if r.epoch != c.epoch || r.nb != c.nb || r.low != c.low {
		panic(fmt.Sprintf("harness: viaSetup aims at %v, expects %v", c, r))
	}
	return r
}

// emitSetup: read the configuration back through behaviour: IDParse(0) = (epoch, 0, 0), IDFields(-1) = (-1, 2^nodeBits-1,
// 4095), IDFields(1) tells the node position
func emitSetup(e *vh.Env, c cfgT, cls string) {
	if c.via == nil {
		return
	}
	_, p0, _, pan0 := obsFields(c, 0)
	fm, _, _, pan1 := obsFields(c, -1)
	f1, _, _, pan2 := obsFields(c, 1)
	d := map[string]interface{}{"kind": "setup", "cfg": c.desc(), "IDParse(0)": p0, "IDFields(-1)": fm, "IDFields(1)": f1}
	if pan0 != nil || pan1 != nil || pan2 != nil {
		d["panic"] = fmt.Sprint(pan0, pan1, pan2)
	}
	v := c.via
	e.Emit(vh.Case{
		Coq:        fmt.Sprintf("CSetup %s %s %s %s %s", mkcfgCoq(v.sEpoch, v.sNb, v.sLow), v.optsCoq(), p0.coq(), fm.coq(), f1.coq()),
		Class:      "setup/" + cls,
		Nontrivial: v.sNb == 8 || v.sNb == 9 || v.sNb == 10,
		Desc:       d,
		Replay:     "setup|" + c.rep(),
	})
}

// option values outside what the property quantifies over: Setup takes them as they are
func setupOddities(e *vh.Env) []cfgT {
	var out []cfgT
	def := func(opts ...optT) cfgT { return mkVia(&setupT{sEpoch: defEpoch, sNb: 10, sLow: false, opts: opts}) }
	out = append(out, def())                                                 // Setup() with no option
	out = append(out, def(optT{kind: 'E', t: tmT{0, 0, ""}}))                // epoch 1970
	out = append(out, def(optT{kind: 'E', t: tmT{-1, 999999999, ""}}))       // 1 ns before 1970: floor, -1 ms
	out = append(out, def(optT{kind: 'E', t: tmT{-1, 999000000, ""}}))       // exactly -1 ms
	out = append(out, def(optT{kind: 'E', t: tmT{-2208988800, 500000, ""}})) // 1900
	out = append(out, def(optT{kind: 'E', t: tmOfMs(y2000-1, 999999)}))      // last ms before the year 2000
	out = append(out, def(optT{kind: 'E', t: tmT{time.Date(2021, 1, 1, 0, 0, 0, 0, shanghai).Unix(), 0, ""}}))
	for m := 0; m < 256; m += 1 + e.Rnd.Intn(e.Scale(24, 3)) {
		out = append(out, def(optT{kind: 'M', m: uint8(m)}))
	}
	for _, m := range []uint8{7, 8, 9, 10, 11, 255} {
		out = append(out, def(optT{kind: 'M', m: m}), def(optT{kind: 'L'}, optT{kind: 'M', m: m}))
	}
	// cumulative: from a state with the flag on, from 8 bits without a mode option
	out = append(out, mkVia(&setupT{sEpoch: y2000, sNb: 8, sLow: true}))
	out = append(out, mkVia(&setupT{sEpoch: y2000, sNb: 9, sLow: true, opts: []optT{{kind: 'M', m: 8}, {kind: 'M', m: 3}}}))
	out = append(out, mkVia(&setupT{sEpoch: y2000, sNb: 9, sLow: false, opts: []optT{{kind: 'L'}, {kind: 'L'}}}))
	return out
}
