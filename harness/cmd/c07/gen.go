package main

import (
	"fmt"
	"math"
	"runtime"
	"strings"
	"time"

	"verifharness/vh"
)

// ---------------------------------------------------------------- configurations

// a fixed "present" (2026-10-01T00:00:00Z): runs are reproducible from the seed alone, the wall clock is never read
const refNow int64 = 1790812800000

func msOfDate(y int, m time.Month, d, hh, mi, ss, ms int) int64 {
	return time.Date(y, m, d, hh, mi, ss, ms*1000000, shanghai).UnixMilli()
}

func genCfgs(e *vh.Env) []cfgT {
	var out []cfgT
	special := []int64{
		1305072000000,                    // 2011-05-11: the epoch of the repaired UnixNano defect's witness
		nanoLimit - 86400000*365,         // ids cross 2262-04-11 within the first year
		msOfDate(9725, 1, 1, 0, 0, 0, 0), // ids reach the five-digit years under every layout
		refNow,
		msOfDate(2000, 1, 1, 0, 0, 0, 0) + 1,
		msOfDate(2261, 12, 31, 23, 59, 59, 999),
	}
	k := 0
	rounds := e.Scale(1, 6)
	for r := 0; r < rounds; r++ {
		for _, nb := range []uint8{10, 9, 8} {
			for _, low := range []bool{false, true} {
				eps := []int64{
					defEpoch,
					y2000,
					y2000 + e.Rnd.Int63n(msOfDate(2300, 1, 1, 0, 0, 0, 0)-y2000),
					msOfDate(2300, 1, 1, 0, 0, 0, 0) + e.Rnd.Int63n(msOfDate(9600, 1, 1, 0, 0, 0, 0)-msOfDate(2300, 1, 1, 0, 0, 0, 0)),
					special[k%len(special)],
				}
				k++
				if r > 0 {
					eps = eps[2:]
				}
				for i, ep := range eps {
					c := cfgT{ep, nb, low, nil}
					// the default, year-2000 and special epochs always, the random ones half of the time:
					// configured through the public Setup(UseEpoch, UseNodeMode, NodeAtLowest)
					boundary := (r == 0 && i != 2 && i != 3) || (r > 0 && i == 2)
					if boundary || e.Rnd.Intn(2) == 0 {
						c = viaSetup(e, c)
					}
					out = append(out, c)
				}
			}
		}
	}
	return out
}

// ---------------------------------------------------------------- ids

func pick(e *vh.Env, xs ...int64) int64 { return xs[e.Rnd.Intn(len(xs))] }

// a calendar boundary instant (ms since 1970) with the local year between ylo and yhi
func calBoundary(e *vh.Env, ylo, yhi int) int64 {
	y := ylo + e.Rnd.Intn(yhi-ylo+1)
	mo := time.Month(1 + e.Rnd.Intn(12))
	d := 1 + e.Rnd.Intn(28)
	hh, mi, ss := e.Rnd.Intn(24), e.Rnd.Intn(60), e.Rnd.Intn(60)
	end := e.Rnd.Intn(2) == 0 // last millisecond before the boundary, or the boundary itself
	var t int64
	switch e.Rnd.Intn(8) {
	case 0: // year
		if end {
			t = msOfDate(y, 12, 31, 23, 59, 59, 999)
		} else {
			t = msOfDate(y, 1, 1, 0, 0, 0, 0)
		}
	case 1: // end of February, leap and century years
		y4 := y - y%4
		if e.Rnd.Intn(3) == 0 {
			y4 = y - y%100
		}
		if y4 < ylo {
			y4 = y
		}
		switch e.Rnd.Intn(4) {
		case 0:
			t = msOfDate(y4, 2, 28, 23, 59, 59, 999)
		case 1:
			t = msOfDate(y4, 2, 29, 0, 0, 0, 0) // normalised by Date to March 1 in a common year
		case 2:
			t = msOfDate(y4, 2, 29, 23, 59, 59, 999)
		default:
			t = msOfDate(y4, 3, 1, 0, 0, 0, 0)
		}
	case 2: // month
		if end {
			t = msOfDate(y, mo+1, 1, 0, 0, 0, 0) - 1
		} else {
			t = msOfDate(y, mo, 1, 0, 0, 0, 0)
		}
	case 3: // day (local midnight)
		if end {
			t = msOfDate(y, mo, d, 23, 59, 59, 999)
		} else {
			t = msOfDate(y, mo, d, 0, 0, 0, 0)
		}
	case 4: // UTC midnight = 08:00 local
		if end {
			t = msOfDate(y, mo, d, 7, 59, 59, 999)
		} else {
			t = msOfDate(y, mo, d, 8, 0, 0, 0)
		}
	case 5: // hour
		if end {
			t = msOfDate(y, mo, d, hh, 59, 59, 999)
		} else {
			t = msOfDate(y, mo, d, hh, 0, 0, 0)
		}
	case 6: // minute
		if end {
			t = msOfDate(y, mo, d, hh, mi, 59, 999)
		} else {
			t = msOfDate(y, mo, d, hh, mi, 0, 0)
		}
	default: // second
		if end {
			t = msOfDate(y, mo, d, hh, mi, ss, 999)
		} else {
			t = msOfDate(y, mo, d, hh, mi, ss, 0)
		}
	}
	return t + pick(e, 0, 0, -1, 1)
}

func yearOf(ms int64) int { return time.UnixMilli(ms).In(shanghai).Year() }

// timestamp field for the layout, with its class
func genTs(e *vh.Env, c cfgT) (int64, string) {
	max := int64(1)<<c.width() - 1
	ts, cls := int64(-1), ""
	switch e.Rnd.Intn(14) {
	case 0:
		ts, cls = int64(e.Rnd.Intn(3)), "ts-min"
	case 1:
		ts, cls = max-int64(e.Rnd.Intn(3)), "ts-max"
	case 2, 3:
		ts, cls = e.Rnd.Int63n(max+1), "ts-uniform"
	case 4:
		ts, cls = e.Rnd.Int63n(1<<36), "ts-near-epoch"
	case 5, 6, 7, 8:
		yhi := yearOf(c.epoch + max)
		if yhi > 10050 {
			yhi = 10050
		}
		ylo := yearOf(c.epoch)
		if ylo > yhi {
			ylo = yhi
		}
		ts, cls = calBoundary(e, ylo, yhi)-c.epoch, "ts-calendar"
	case 9:
		ts, cls = nanoLimit+pick(e, -1000, -1, 0, 1, 2, 1000, 86400000)-c.epoch, "ts-2262-boundary"
	case 10:
		lo := nanoLimit + 1 - c.epoch
		if lo < 0 {
			lo = 0
		}
		if lo <= max {
			ts, cls = lo+e.Rnd.Int63n(max-lo+1), "ts-after-2262"
		}
	case 11:
		ts, cls = y10k-offMs-c.epoch+pick(e, -1000, -2, -1, 0, 1, 1000), "ts-year-10000"
	case 12:
		ts, cls = refNow-c.epoch+e.Rnd.Int63n(86400000*365), "ts-now"
	default:
		ts, cls = int64(1)<<uint(e.Rnd.Intn(int(c.width())))-int64(e.Rnd.Intn(2)), "ts-pow2"
	}
	if ts < 0 || ts > max {
		ts, cls = e.Rnd.Int63n(max+1), "ts-uniform"
	}
	return ts, cls
}

// bits below the timestamp: (node, step) with the extremes the masks branch on
func genLow(e *vh.Env, c cfgT) (node, step int64, cls string) {
	nmax := int64(1)<<c.nb - 1
	if e.Rnd.Intn(5) == 0 {
		// chosen as a number: the seven-digit decimal field
		mask := int64(1)<<c.shift() - 1
		low := pick(e, 0, 9, 10, 99999, 100000, 999999, 1000000, 1000001, mask, mask-1, e.Rnd.Int63n(1000000), e.Rnd.Int63n(mask+1))
		if low > mask {
			low = mask
		}
		node = (low >> c.nodeShift()) & nmax
		step = (low >> c.stepShift()) & 4095
		return node, step, "low-decimal"
	}
	node = pick(e, 0, 1, nmax, nmax-1, e.Rnd.Int63n(nmax+1), e.Rnd.Int63n(nmax+1), nmax/2+1)
	step = pick(e, 0, 1, 4095, 4094, e.Rnd.Int63n(4096), e.Rnd.Int63n(4096), 1024+e.Rnd.Int63n(3072), 2048, 1024, 512, 256)
	return node, step, "low-fields"
}

func mkID(c cfgT, ts, node, step int64) int64 {
	return ts<<c.shift() | node<<c.nodeShift() | step<<c.stepShift()
}

func genID(e *vh.Env, c cfgT) (int64, string) {
	if e.Rnd.Intn(16) == 0 {
		return pick(e, -1, math.MinInt64, -e.Rnd.Int63()-1, -int64(e.Rnd.Intn(1<<20))-1, math.MinInt64+int64(e.Rnd.Intn(1<<20))), "negative-id"
	}
	ts, tc := genTs(e, c)
	n, s, lc := genLow(e, c)
	return mkID(c, ts, n, s), tc + "/" + lc
}

func genPartner(e *vh.Env, c cfgT, id int64) (int64, string) {
	sh := c.shift()
	mask := int64(1)<<sh - 1
	ts := id >> sh
	tmax := int64(1)<<c.width() - 1
	switch e.Rnd.Intn(9) {
	case 0:
		return id, "equal"
	case 1:
		if id < math.MaxInt64 {
			return id + 1, "succ"
		}
	case 2:
		if id > math.MinInt64 {
			return id - 1, "pred"
		}
	case 3:
		return ts<<sh | e.Rnd.Int63n(mask+1), "same-ts"
	case 4:
		if ts < tmax {
			return (ts + 1) << sh, "next-ts-low0"
		}
	case 5:
		if ts > 0 {
			return (ts-1)<<sh | mask, "prev-ts-lowmax"
		}
	case 6:
		if ts < tmax {
			return (ts+1)<<sh | (id & mask), "next-ts-same-low"
		}
	case 7:
		// node and step values exchanged (when they fit)
		n := (id >> c.nodeShift()) & (int64(1)<<c.nb - 1)
		s := (id >> c.stepShift()) & 4095
		if s < int64(1)<<c.nb {
			return mkID(c, ts, s, n), "node-step-exchanged"
		}
	}
	p, _ := genID(e, c)
	return p, "independent"
}

// ---------------------------------------------------------------- date strings for FromChStyle

func dateString(y, mo, d, hh, mi, ss, ms int, left int64) string {
	return fmt.Sprintf("%04d%02d%02d%02d%02d%02d%03d%07d", y, mo, d, hh, mi, ss, ms, left)
}

// the year stays in 1994..9999 so that every instant Date builds lies after 1991 (constant zone offset)
func genString(e *vh.Env, c cfgT) (string, string) {
	y := 1994 + e.Rnd.Intn(9999-1994+1)
	if e.Rnd.Intn(2) == 0 {
		y = yearOf(c.epoch) + e.Rnd.Intn(70)
		if y > 9999 {
			y = 9999
		}
	}
	mo, d := 1+e.Rnd.Intn(12), 1+e.Rnd.Intn(28)
	hh, mi, ss, ms := e.Rnd.Intn(24), e.Rnd.Intn(60), e.Rnd.Intn(60), e.Rnd.Intn(1000)
	mask := int64(1)<<c.shift() - 1
	left := e.Rnd.Int63n(mask + 1)
	put := func(s string, at int, f string) string { return s[:at] + f + s[at+len(f):] }
	s := dateString(y, mo, d, hh, mi, ss, ms, left)
	two := []string{"00", "13", "14", "15", "24", "25", "31", "32", "59", "60", "61", "99", "+1", "-1", "-0", "+0", "-9", "+9"}
	switch e.Rnd.Intn(16) {
	case 0:
		return s[:23], "len23"
	case 1:
		return s + string(rune('0'+e.Rnd.Intn(10))), "len25"
	case 2:
		return pickS(e, "", "2", s[:8], s+s), "len-other"
	case 3:
		bad := []byte(" +-_xa:/.\x00\xff9")
		b := []byte(s)
		at, ch := e.Rnd.Intn(24), bad[e.Rnd.Intn(len(bad))]
		if at == 0 && (ch == '+' || ch == '-') {
			at = 4 // a signed year would leave the years in which the zone offset is constant
		}
		b[at] = ch
		return string(b), "bad-char"
	case 4:
		return put(s, 4, two[e.Rnd.Intn(len(two))]), "month-field"
	case 5:
		return put(s, 6, two[e.Rnd.Intn(len(two))]), "day-field"
	case 6:
		return put(s, 8, two[e.Rnd.Intn(len(two))]), "hour-field"
	case 7:
		return put(s, 10+2*e.Rnd.Intn(2), two[e.Rnd.Intn(len(two))]), "minsec-field"
	case 8:
		return put(s, 14, pickS(e, "-01", "+99", "-99", "999", "000", "-00", "1+1", "+-1")), "ms-field"
	case 9:
		return put(s, 17, pickS(e, "-000001", "+123456", "9999999", "0000000", "-999999", "+000000", "12345-6", "-", "+")), "left-field"
	case 10:
		// several fields out of range at once
		s = put(s, 4, two[e.Rnd.Intn(12)])
		s = put(s, 6, two[e.Rnd.Intn(12)])
		s = put(s, 8, two[e.Rnd.Intn(12)])
		return s, "multi-field"
	case 11:
		// leap day in any year: Date normalises Feb 29..31
		return put(put(s, 4, "02"), 6, pickS(e, "29", "30", "31")), "feb-overflow"
	case 12:
		// month lengths: day 31 in every month
		return put(s, 6, "31"), "day31"
	}
	return s, "well-formed"
}

func pickS(e *vh.Env, xs ...string) string { return xs[e.Rnd.Intn(len(xs))] }

// ---------------------------------------------------------------- instants for the range functions

// offset from the epoch in ms, with its class; ok=false when epoch+off leaves int64
func genOff(e *vh.Env, c cfgT) (int64, string) {
	lim := int64(1) << c.width()
	switch e.Rnd.Intn(13) {
	case 0:
		return pick(e, 0, 1, 999, 1000, 1001, 1999, 2000), "off-min"
	case 1, 2:
		return e.Rnd.Int63n(lim), "off-uniform"
	case 3:
		return lim - 1 - int64(e.Rnd.Intn(3000)), "off-top"
	case 4:
		return lim + int64(e.Rnd.Intn(5000)), "off-overflow"
	case 5:
		return -1 - int64(e.Rnd.Intn(3000)), "off-before-epoch"
	case 6:
		return -e.Rnd.Int63n(lim), "off-before-epoch"
	case 7:
		return -lim - int64(e.Rnd.Intn(5000)) + 2000, "off-underflow"
	case 8:
		return refNow - c.epoch + e.Rnd.Int63n(86400000*365), "off-now"
	case 9:
		return nanoLimit - c.epoch + pick(e, -1000, 0, 1000, 5000), "off-2262"
	case 10:
		return e.Rnd.Int63n(1 << 36), "off-near-epoch"
	case 11:
		return lim*int64(2+e.Rnd.Intn(1000)) + e.Rnd.Int63n(lim), "off-wrap"
	}
	return e.Rnd.Int63n(lim) / 1000 * 1000, "off-second"
}

func genProbes(e *vh.Env, c cfgT, b, en tmT) []int64 {
	max := int64(1)<<c.width() - 1
	mask := int64(1)<<c.shift() - 1
	var out []int64
	add := func(abs int64, low int64) {
		ts := abs - c.epoch
		if ts >= 0 && ts <= max && (abs >= c.epoch) {
			out = append(out, ts<<c.shift()|low)
		}
	}
	if b.sec > math.MaxInt64/2000 || b.sec < -math.MaxInt64/2000 || en.sec > math.MaxInt64/2000 || en.sec < -math.MaxInt64/2000 {
		return nil
	}
	bs, es := b.sec*1000, en.sec*1000
	add(bs-1, mask)
	add(bs, 0)
	add(es, mask)
	add(es+1, 0)
	cands := []int64{bs - 1000, bs - 1, bs, bs + 1, bs + 999, bs + 1000, es - 1000, es - 1, es, es + 1, es + 999, es + 1000, es + 1001}
	if es > bs {
		cands = append(cands, bs+e.Rnd.Int63n(es-bs))
	}
	for i := 0; i < 5; i++ {
		add(cands[e.Rnd.Intn(len(cands))], pick(e, 0, mask, e.Rnd.Int63n(mask+1), 1, mask-1))
	}
	return out
}

func genInterval(e *vh.Env, c cfgT) (b, en tmT, cls string) {
	sub := func() int64 { return pick(e, 0, 0, 1, 999999, e.Rnd.Int63n(1000000)) }
	if e.Rnd.Intn(40) == 0 {
		// seconds so large that ts*1000 itself wraps in int64
		s := pick(e, 1, -1) * (9300000000000000 + e.Rnd.Int63n(1<<50))
		return tmT{s, sub(), ""}, tmT{s + int64(e.Rnd.Intn(3)), sub(), ""}, "sec-wrap/huge"
	}
	off, oc := genOff(e, c)
	bms := c.epoch + off
	if (off > 0 && bms < c.epoch) || bms > math.MaxInt64-(1<<41) {
		bms = c.epoch
		oc = "off-min"
	}
	b = tmOfMs(bms, sub())
	var d int64
	var dc string
	switch e.Rnd.Intn(10) {
	case 0:
		d, dc = 0, "same-instant"
	case 1:
		d, dc = pick(e, 1, 500, 999), "sub-second"
	case 2:
		d, dc = pick(e, 1000, 1001, 1999, 2000), "next-second"
	case 3, 4:
		d, dc = e.Rnd.Int63n(86400000), "within-day"
	case 5, 6:
		d, dc = e.Rnd.Int63n(1<<40), "long"
	case 7:
		d, dc = -1-int64(e.Rnd.Intn(5000)), "end-before-begin"
	case 8:
		d, dc = int64(1)<<c.width()-off-1-int64(e.Rnd.Intn(2000)), "end-at-top"
		if d < 0 || off < 0 {
			d, dc = 1000, "next-second"
		}
	default:
		d, dc = e.Rnd.Int63n(100000), "seconds"
	}
	en = tmOfMs(bms+d, sub())
	return b, en, oc + "/" + dc
}

// ---------------------------------------------------------------- the run

func generate(e *vh.Env) {
	focus := ""
	if e.Search && e.Focus != "" {
		focus = strings.SplitN(e.Focus, "/", 2)[0]
	}
	want := func(k string) bool { return focus == "" || focus == k }
	cfgs := genCfgs(e)
	nIDs := e.Scale(20, 70)
	nFrom := e.Scale(8, 30)
	nRange := e.Scale(4, 14)
	nBetween := e.Scale(9, 30)
	nFold := e.Scale(3, 10)
	if focus != "" {
		nIDs, nFrom, nRange, nBetween, nFold = nIDs*3, nFrom*3, nRange*3, nBetween*3, nFold*3
	}
	// fixed cases replayed first on every run: the witness of the repaired UnixNano defect (DESIGN section 7, fix 15)
	// and the extreme ids of every layout
	{
		w := cfgT{1305072000000, 8, false, nil}
		if want("cn") {
			emitCn(e, w, 8731190989962813788, "corpus")
		}
		for _, nb := range []uint8{8, 9, 10} {
			for _, low := range []bool{false, true} {
				c := cfgT{defEpoch, nb, low, nil}
				if nb != 9 {
					c = viaSetup(e, c)
				}
				for _, id := range []int64{0, 1, math.MaxInt64, math.MaxInt64 - 1, int64(1) << c.shift(), int64(1)<<c.shift() - 1} {
					if want("fields") {
						emitFields(e, c, id, "corpus")
					}
					if want("cn") {
						emitCn(e, c, id, "corpus")
					}
				}
				if want("order") {
					emitOrder(e, c, math.MaxInt64-1, math.MaxInt64, "corpus")
					emitOrder(e, c, int64(1)<<c.shift()-1, int64(1)<<c.shift(), "corpus")
				}
			}
		}
	}
	// deterministic calendar members (end of February of 2000/2004/2100/2400, year and month ends)
	nCal := 0
	for _, m := range calendarCorpus(e) {
		if want("cn") {
			emitCn(e, m.c, m.id, "calendar-corpus")
			nCal++
		}
		if want("fields") && nCal%3 == 0 {
			emitFields(e, m.c, m.id, "calendar-corpus")
		}
	}
	e.Meta["calendar_corpus_ids"] = nCal
	if want("setup") {
		for _, c := range setupOddities(e) {
			emitSetup(e, c, "option-values")
		}
	}
	nVia := 0
	for _, c := range cfgs {
		if c.via != nil {
			nVia++
			if want("setup") {
				emitSetup(e, c, "generated")
			}
		}
		for i := 0; i < nIDs; i++ {
			id, cls := genID(e, c)
			if want("fields") {
				emitFields(e, c, id, cls)
			}
			if want("order") {
				p, pc := genPartner(e, c, id)
				if e.Rnd.Intn(2) == 0 {
					emitOrder(e, c, p, id, pc)
				} else {
					emitOrder(e, c, id, p, pc)
				}
			}
			if want("cn") && (id >= 0 || (id>>c.shift())+c.epoch >= zoneFrom) {
				emitCn(e, c, id, cls)
			}
		}
		if want("held") {
			// hold results, then re-check: the whole batch is rendered before any kept string is looked at again
			nb := 5 + e.Rnd.Intn(6)
			var ids []int64
			for len(ids) < nb {
				id, _ := genID(e, c)
				if id >= 0 || (id>>c.shift())+c.epoch >= zoneFrom {
					ids = append(ids, id)
				}
			}
			heldBatch(e, c, ids, fmt.Sprintf("batch-of-%d", nb))
		}
		if want("from") {
			for i := 0; i < nFrom; i++ {
				s, cls := genString(e, c)
				emitFrom(e, c, s, cls)
			}
		}
		if want("range") {
			for i := 0; i < nRange; i++ {
				b, _, cls := genInterval(e, c)
				b = anyZone(e, b)
				emitRange(e, c, b, genProbes(e, c, b, b), strings.SplitN(cls, "/", 2)[0])
			}
			// the instant, not the wall clock: endpoints carried in zones with DST, inside folds and next to gaps
			for i := 0; i < nFold; i++ {
				if b, _, cls, ok := genFoldInterval(e, c); ok {
					emitRange(e, c, b, genProbes(e, c, b, b), cls)
				}
			}
		}
		if want("between") {
			for i := 0; i < nBetween; i++ {
				b, en, cls := genInterval(e, c)
				b, en = anyZone(e, b), anyZone(e, en)
				emitBetween(e, c, b, en, genProbes(e, c, b, en), cls)
			}
			for i := 0; i < 2*nFold; i++ {
				if b, en, cls, ok := genFoldInterval(e, c); ok {
					emitBetween(e, c, b, en, genProbes(e, c, b, en), cls)
				}
			}
		}
	}
	// pure functions in parallel: every observation must be the function's value under every schedule
	if want("par") {
		rounds, iters := e.Scale(3, 12), e.Scale(150000, 400000)
		var total, differing int64
		for r := 0; r < rounds; r++ {
			c := cfgs[e.Rnd.Intn(len(cfgs))]
			if r == 0 {
				c = viaSetup(e, cfgT{defEpoch, 10, false, nil})
			}
			t, d := parRound(e, c, e.Rnd.Int63(), iters, fmt.Sprintf("%d-goroutines", parG))
			total, differing = total+t, differing+d
		}
		e.Meta["parallel"] = map[string]interface{}{"rounds": rounds, "goroutines": parG, "iterations_each": iters,
			"conversions": total, "differing_observations": differing, "gomaxprocs": runtime.GOMAXPROCS(0)}
	}
	// the zone assumption, sampled on Go's tzdata: constant +8 h from 1991-09-16 on
	if want("zone") {
		nz := e.Scale(120, 1500)
		emitZone(e, zoneFrom)
		emitZone(e, y2000)
		for i := 0; i < nz; i++ {
			emitZone(e, zoneFrom+e.Rnd.Int63n(y10k+86400000*366*100-zoneFrom))
		}
		for y := 1992; y <= 2100; y += e.Scale(9, 1) {
			emitZone(e, msOfDate(y, time.Month(1+e.Rnd.Intn(12)), 1+e.Rnd.Intn(28), e.Rnd.Intn(24), 0, 0, 0))
		}
	}
	e.Meta["configs"] = len(cfgs)
	e.Meta["configs_through_Setup"] = nVia
	e.Meta["layouts"] = "node bits 8/9/10 x node-at-lowest on/off; epochs: default, 2000-01-01, random 2000..2300, random 2300..9600, special (2011-05-11, one year before 2262-04-11, 9725, now)"
	e.Meta["zone_assumption_checked"] = "time.LoadLocation(Asia/Shanghai) offset sampled from 1991-09-16 to year 10100 (CZone cases)"
}
