// Command c07: correspondence harness of property C07 (snowflake id codec).
//
// It runs the real idgen/snowflake functions (IDFields, IDParse, IDParseEx, CnStyle, FromChStyle, TimeIDRange,
// TimeBetweenID) under layouts set through the verif hook VerifSetConfig and emits one case per observation as a
// Coq term of type C07_Mon.case.
package main

import (
	"errors"
	"fmt"
	"math/big"
	"strconv"
	"strings"
	"time"

	"github.com/pinealctx/neptune/idgen/snowflake"
	"verifharness/vh"
)

// ---------------------------------------------------------------- configuration

type cfgT struct {
	epoch int64
	nb    uint8
	low   bool
	via   *setupT // nil: the three globals are set by the verif hook; else by the public Setup(options...)
}

func mkcfgCoq(epoch int64, nb uint8, low bool) string {
	return fmt.Sprintf("(mkcfg %s %d%%Z %s)", vh.CoqZ(epoch), nb, vh.CoqBool(low))
}
func (c cfgT) coq() string {
	if c.via != nil {
		// the case carries the start globals and the option list; Coq computes the configuration with setup_from
		return fmt.Sprintf("(setup_from %s %s)", mkcfgCoq(c.via.sEpoch, c.via.sNb, c.via.sLow), c.via.optsCoq())
	}
	return mkcfgCoq(c.epoch, c.nb, c.low)
}
func (c cfgT) shift() uint { return uint(c.nb) + 12 }
func (c cfgT) width() uint { return 63 - c.shift() }
func (c cfgT) tag() string { return fmt.Sprintf("nb%d-low%v", c.nb, c.low) }
func (c cfgT) desc() interface{} {
	d := map[string]interface{}{"epoch_ms": c.epoch, "node_bits": c.nb, "node_at_lowest": c.low}
	if c.via != nil {
		d["configured_by"] = "Setup(" + c.via.optsDesc() + ") on globals " + fmt.Sprintf("epoch=%d nodeBits=%d nodeAtLowest=%v", c.via.sEpoch, c.via.sNb, c.via.sLow)
	} else {
		d["configured_by"] = "VerifSetConfig"
	}
	return d
}
func (c cfgT) rep() string {
	r := fmt.Sprintf("%d,%d,%v", c.epoch, c.nb, c.low)
	if c.via != nil {
		r += fmt.Sprintf(",S,%d,%d,%v", c.via.sEpoch, c.via.sNb, c.via.sLow)
		for _, o := range c.via.opts {
			r += "," + o.rep()
		}
	}
	return r
}
func (c cfgT) valid() bool {
	return (c.nb == 8 || c.nb == 9 || c.nb == 10) && c.epoch >= y2000 && c.epoch < 1<<62
}
func (c cfgT) nodeShift() uint {
	if c.low {
		return 0
	}
	return 12
}
func (c cfgT) stepShift() uint {
	if c.low {
		return uint(c.nb)
	}
	return 0
}

const (
	y2000     int64 = 946656000000    // 2000-01-01 00:00 +08
	y10k      int64 = 253402300800000 // 10000-01-01 00:00 of the local clock
	offMs     int64 = 28800000
	zoneFrom  int64 = 684979200000
	defEpoch  int64 = 1609430400000
	nanoLimit int64 = 9223372036854 // ms: beyond it time.Time.UnixNano wraps (2262-04-11)
)

var shanghai *time.Location

func withCfg(c cfgT, f func()) {
	if c.via == nil {
		restore := snowflake.VerifSetConfig(c.epoch, c.nb, c.low)
		defer restore()
		f()
		return
	}
	// the hook only puts the globals into the start state (and restores them afterwards); the configuration
	// under test is what the public Setup makes of the options
	restore := snowflake.VerifSetConfig(c.via.sEpoch, c.via.sNb, c.via.sLow)
	defer restore()
	snowflake.Setup(c.via.goOpts()...)
	f()
}

// ---------------------------------------------------------------- observers (panics recovered)

type f3 [3]int64

func (f f3) coq() string {
	return fmt.Sprintf("(%s, %s, %s)", vh.CoqZ(f[0]), vh.CoqZ(f[1]), vh.CoqZ(f[2]))
}

var bad3 = f3{-1, -1, -1}

func obsFields(c cfgT, id int64) (f, p, x f3, pan interface{}) {
	f, p, x = bad3, bad3, bad3
	defer func() {
		if r := recover(); r != nil {
			pan = r
			f, p, x = bad3, bad3, bad3
		}
	}()
	withCfg(c, func() {
		a, b, d := snowflake.IDFields(id)
		f = f3{a, b, d}
		a, b, d = snowflake.IDParse(id)
		p = f3{a, b, d}
		t, n, s := snowflake.IDParseEx(id)
		x = f3{t.UnixMilli(), n, s}
	})
	return
}

func obsCn(c cfgT, id int64) (s string, pan interface{}) {
	defer func() {
		if r := recover(); r != nil {
			pan = r
			s = ""
		}
	}()
	withCfg(c, func() { s = snowflake.CnStyle(id) })
	return
}

// result of FromChStyle as a term of type res
func obsFrom(c cfgT, s string) (coq string, desc string) {
	defer func() {
		if r := recover(); r != nil {
			coq, desc = "Other", fmt.Sprintf("panic: %v", r)
		}
	}()
	var v int64
	var err error
	withCfg(c, func() { v, err = snowflake.FromChStyle(s) })
	switch {
	case err == nil:
		return fmt.Sprintf("(Ok %s)", vh.CoqZ(v)), fmt.Sprintf("%d", v)
	case errors.Is(err, strconv.ErrSyntax):
		return "ErrSyntax", "error(syntax): " + err.Error()
	case strings.HasPrefix(err.Error(), "unspported.id.cn.len"):
		return "ErrLen", "error(len): " + err.Error()
	}
	return "Other", "error(other): " + err.Error()
}

// an instant handed to the range functions: sec, nsec (0 <= nsec < 1e9)
type tmT struct {
	sec, nsec int64
	loc       string // Location the time.Time carries ("" = what time.Unix gives: Local); never part of the model: the
	// range functions are functions of the instant
}

func (t tmT) time() time.Time {
	r := time.Unix(t.sec, t.nsec)
	if t.loc != "" {
		r = r.In(zoneOf(t.loc))
	}
	return r
}
func (t tmT) ns() *big.Int {
	r := new(big.Int).Mul(big.NewInt(t.sec), big.NewInt(1000000000))
	return r.Add(r, big.NewInt(t.nsec))
}
func (t tmT) coq() string {
	n := t.ns()
	if n.Sign() < 0 {
		return "(" + n.String() + ")%Z"
	}
	return n.String() + "%Z"
}
func (t tmT) rep() string {
	if t.loc != "" {
		return fmt.Sprintf("%d:%d:%s", t.sec, t.nsec, t.loc)
	}
	return fmt.Sprintf("%d:%d", t.sec, t.nsec)
}
func (t tmT) desc() string {
	if t.sec > 250000000000 || t.sec < -60000000000 {
		return fmt.Sprintf("unix %d s + %d ns", t.sec, t.nsec)
	}
	if t.loc != "" {
		return fmt.Sprintf("unix %d s + %d ns (%s) carried as a time.Time in %s: %s", t.sec, t.nsec, t.time().UTC().Format(time.RFC3339Nano), t.loc, t.time().Format("2006-01-02 15:04:05.999999999 -0700 MST"))
	}
	return fmt.Sprintf("unix %d s + %d ns (%s)", t.sec, t.nsec, t.time().UTC().Format(time.RFC3339Nano))
}
func tmOfMs(ms int64, subNs int64) tmT {
	sec := ms / 1000
	rem := ms % 1000
	if rem < 0 {
		rem += 1000
		sec--
	}
	return tmT{sec, rem*1000000 + subNs, ""}
}
func (t tmT) le(u tmT) bool { return t.sec < u.sec || (t.sec == u.sec && t.nsec <= u.nsec) }

func obsRange(c cfgT, t tmT) (mn, mx int64, pan interface{}) {
	defer func() {
		if r := recover(); r != nil {
			pan = r
			mn, mx = 1, 0
		}
	}()
	withCfg(c, func() { mn, mx = snowflake.TimeIDRange(t.time()) })
	return
}
func obsBetween(c cfgT, b, e tmT) (mn, mx int64, pan interface{}) {
	defer func() {
		if r := recover(); r != nil {
			pan = r
			mn, mx = 1, 0
		}
	}()
	withCfg(c, func() { mn, mx = snowflake.TimeBetweenID(b.time(), e.time()) })
	return
}

// ---------------------------------------------------------------- emitters

func inDom(id int64) bool { return id >= 0 }

func emitFields(e *vh.Env, c cfgT, id int64, cls string) {
	f, p, x, pan := obsFields(c, id)
	d := map[string]interface{}{"kind": "fields", "cfg": c.desc(), "id": id, "IDFields": f, "IDParse": p, "IDParseEx(unixmilli,node,step)": x}
	if pan != nil {
		d["panic"] = fmt.Sprint(pan)
	}
	e.Emit(vh.Case{
		Coq:        fmt.Sprintf("CFields %s %s %s %s %s", c.coq(), vh.CoqZ(id), f.coq(), p.coq(), x.coq()),
		Class:      "fields/" + cls,
		Nontrivial: c.valid() && inDom(id),
		Desc:       d,
		Replay:     fmt.Sprintf("fields|%s|%d", c.rep(), id),
	})
}

func emitOrder(e *vh.Env, c cfgT, id1, id2 int64, cls string) {
	f1, _, _, pan1 := obsFields(c, id1)
	f2, _, _, pan2 := obsFields(c, id2)
	d := map[string]interface{}{"kind": "order", "cfg": c.desc(), "id1": id1, "id2": id2, "IDFields1": f1, "IDFields2": f2}
	if pan1 != nil || pan2 != nil {
		d["panic"] = fmt.Sprint(pan1, pan2)
	}
	e.Emit(vh.Case{
		Coq:        fmt.Sprintf("COrder %s %s %s %s %s", c.coq(), vh.CoqZ(id1), vh.CoqZ(id2), f1.coq(), f2.coq()),
		Class:      "order/" + cls,
		Nontrivial: c.valid() && inDom(id1) && inDom(id2),
		Desc:       d,
		Replay:     fmt.Sprintf("order|%s|%d|%d", c.rep(), id1, id2),
	})
}

func emitCn(e *vh.Env, c cfgT, id int64, cls string) {
	s, pan := obsCn(c, id)
	var rc, rd string
	if pan != nil {
		rc, rd = "Other", fmt.Sprintf("CnStyle panic: %v", pan)
	} else {
		rc, rd = obsFrom(c, s)
	}
	local := (id >> c.shift()) + c.epoch + offMs
	e.Emit(vh.Case{
		Coq:        fmt.Sprintf("CCn %s %s %s %s", c.coq(), vh.CoqZ(id), vh.CoqBytes([]byte(s)), rc),
		Class:      "cn/" + cls,
		Nontrivial: c.valid() && inDom(id) && local < y10k,
		Desc:       map[string]interface{}{"kind": "cn", "cfg": c.desc(), "id": id, "CnStyle": s, "FromChStyle": rd},
		Replay:     fmt.Sprintf("cn|%s|%d", c.rep(), id),
	})
}

func emitFrom(e *vh.Env, c cfgT, s string, cls string) {
	rc, rd := obsFrom(c, s)
	e.Emit(vh.Case{
		Coq:        fmt.Sprintf("CFrom %s %s %s", c.coq(), vh.CoqBytes([]byte(s)), rc),
		Class:      "from/" + cls,
		Nontrivial: false,
		Desc:       map[string]interface{}{"kind": "from", "cfg": c.desc(), "string": s, "FromChStyle": rd},
		Replay:     fmt.Sprintf("from|%s|%x", c.rep(), s),
	})
}

func probesOf(c cfgT, ids []int64) (coq string, desc []interface{}, rep string) {
	ps := []string{}
	rs := []string{}
	for _, id := range ids {
		_, p, _, _ := obsFields(c, id)
		ps = append(ps, fmt.Sprintf("(%s, %s)", vh.CoqZ(id), vh.CoqZ(p[0])))
		desc = append(desc, map[string]interface{}{"id": id, "IDParse.timeMs": p[0]})
		rs = append(rs, fmt.Sprint(id))
	}
	return vh.CoqList(ps), desc, strings.Join(rs, ",")
}

// the offset of a second-truncated instant from the epoch is a value of the (unsigned) timestamp field
func fitsOff(c cfgT, off *big.Int) bool {
	lim := new(big.Int).Lsh(big.NewInt(1), c.width())
	return off.Sign() >= 0 && off.Cmp(lim) < 0
}
func offOf(c cfgT, t tmT) *big.Int {
	r := new(big.Int).Mul(big.NewInt(t.sec), big.NewInt(1000))
	return r.Sub(r, big.NewInt(c.epoch))
}

func emitRange(e *vh.Env, c cfgT, t tmT, probes []int64, cls string) {
	mn, mx, pan := obsRange(c, t)
	pc, pd, pr := probesOf(c, probes)
	d := map[string]interface{}{"kind": "range", "cfg": c.desc(), "t": t.desc(), "min": mn, "max": mx, "probes": pd}
	if pan != nil {
		d["panic"] = fmt.Sprint(pan)
	}
	e.Emit(vh.Case{
		Coq:        fmt.Sprintf("CRange %s %s %s %s %s", c.coq(), t.coq(), vh.CoqZ(mn), vh.CoqZ(mx), pc),
		Class:      "range/" + cls,
		Nontrivial: c.valid() && fitsOff(c, offOf(c, t)),
		Desc:       d,
		Replay:     fmt.Sprintf("range|%s|%s|%s", c.rep(), t.rep(), pr),
	})
}

func emitBetween(e *vh.Env, c cfgT, b, en tmT, probes []int64, cls string) {
	mn, mx, pan := obsBetween(c, b, en)
	pc, pd, pr := probesOf(c, probes)
	d := map[string]interface{}{"kind": "between", "cfg": c.desc(), "begin": b.desc(), "end": en.desc(), "min": mn, "max": mx, "probes": pd}
	if pan != nil {
		d["panic"] = fmt.Sprint(pan)
	}
	e.Emit(vh.Case{
		Coq:        fmt.Sprintf("CBetween %s %s %s %s %s %s", c.coq(), b.coq(), en.coq(), vh.CoqZ(mn), vh.CoqZ(mx), pc),
		Class:      "between/" + cls,
		Nontrivial: c.valid() && b.le(en) && fitsOff(c, offOf(c, b)) && fitsOff(c, offOf(c, en)),
		Desc:       d,
		Replay:     fmt.Sprintf("between|%s|%s|%s|%s", c.rep(), b.rep(), en.rep(), pr),
	})
}

func emitZone(e *vh.Env, ms int64) {
	_, off := time.UnixMilli(ms).In(shanghai).Zone()
	e.Emit(vh.Case{
		Coq:        fmt.Sprintf("CZone %s %s", vh.CoqZ(ms), vh.CoqZ(int64(off))),
		Class:      "zone",
		Nontrivial: false,
		Desc:       map[string]interface{}{"kind": "zone", "instant_ms": ms, "utc": time.UnixMilli(ms).UTC().Format(time.RFC3339), "offset_s": off},
		Replay:     fmt.Sprintf("zone|%d", ms),
	})
}

// ---------------------------------------------------------------- main

func main() {
	vh.Main("c07", func(e *vh.Env) {
		var err error
		shanghai, err = time.LoadLocation("Asia/Shanghai")
		if err != nil {
			panic(err)
		}
		if e.Replay != "" {
			replay(e, e.Replay)
			return
		}
		generate(e)
	})
}

func parseCfg(s string) cfgT {
	p := strings.Split(s, ",")
	ep, _ := strconv.ParseInt(p[0], 10, 64)
	nb, _ := strconv.ParseUint(p[1], 10, 8)
	c := cfgT{ep, uint8(nb), p[2] == "true", nil}
	if len(p) > 3 && p[3] == "S" {
		se, _ := strconv.ParseInt(p[4], 10, 64)
		sn, _ := strconv.ParseUint(p[5], 10, 8)
		v := &setupT{sEpoch: se, sNb: uint8(sn), sLow: p[6] == "true"}
		for _, o := range p[7:] {
			switch o[0] {
			case 'E':
				v.opts = append(v.opts, optT{kind: 'E', t: parseTm(o[1:])})
			case 'M':
				m, _ := strconv.ParseUint(o[1:], 10, 8)
				v.opts = append(v.opts, optT{kind: 'M', m: uint8(m)})
			case 'L':
				v.opts = append(v.opts, optT{kind: 'L'})
			}
		}
		c.via = v
	}
	return c
}
func parseTm(s string) tmT {
	p := strings.Split(s, ":")
	a, _ := strconv.ParseInt(p[0], 10, 64)
	b, _ := strconv.ParseInt(p[1], 10, 64)
	t := tmT{a, b, ""}
	if len(p) > 2 {
		t.loc = p[2]
	}
	return t
}
func parseIds(s string) []int64 {
	if s == "" {
		return nil
	}
	var r []int64
	for _, x := range strings.Split(s, ",") {
		v, _ := strconv.ParseInt(x, 10, 64)
		r = append(r, v)
	}
	return r
}
func pi(s string) int64 { v, _ := strconv.ParseInt(s, 10, 64); return v }

func replay(e *vh.Env, arg string) {
	p := strings.Split(arg, "|")
	switch p[0] {
	case "fields":
		emitFields(e, parseCfg(p[1]), pi(p[2]), "replay")
	case "order":
		emitOrder(e, parseCfg(p[1]), pi(p[2]), pi(p[3]), "replay")
	case "cn":
		emitCn(e, parseCfg(p[1]), pi(p[2]), "replay")
	case "from":
		var b []byte
		fmt.Sscanf(p[2], "%x", &b)
		emitFrom(e, parseCfg(p[1]), string(b), "replay")
	case "range":
		emitRange(e, parseCfg(p[1]), parseTm(p[2]), parseIds(p[3]), "replay")
	case "between":
		emitBetween(e, parseCfg(p[1]), parseTm(p[2]), parseTm(p[3]), parseIds(p[4]), "replay")
	case "zone":
		emitZone(e, pi(p[1]))
	case "setup":
		emitSetup(e, parseCfg(p[1]), "replay")
	case "held":
		heldBatch(e, parseCfg(p[1]), parseIds(p[2]), "replay")
	case "par":
		parRound(e, parseCfg(p[1]), pi(p[2]), int(pi(p[3])), "replay")
	}
}
