package main

// The range functions take time.Time values; the property quantifies over instants ("all begin <= end instants"), so
// the Location a time.Time carries must not matter.  The endpoints of the range classes are therefore handed over in
// several Locations, including instants inside the repeated hour of a DST fall-back (both passes) and next to the
// skipped hour of a spring-forward.  The model stays a function of the instant; the Location is only in the
// description and the replay argument.

import (
	"fmt"
	"sort"
	"time"
	_ "time/tzdata" // embedded zone database: the same zones wherever the check runs

	"verifharness/vh"
)

var zoneNames = []string{"UTC", "Asia/Shanghai", "America/New_York", "Europe/Berlin", "Australia/Lord_Howe", "America/St_Johns", "Asia/Kathmandu"}
var dstZones = []string{"America/New_York", "Europe/Berlin", "Australia/Lord_Howe", "America/St_Johns"}

var zoneCache = map[string]*time.Location{}

func zoneOf(name string) *time.Location {
	if l, ok := zoneCache[name]; ok {
		return l
	}
	l, err := time.LoadLocation(name)
	if err != nil {
		panic(fmt.Sprintf("harness: zone %s: %v", name, err))
	}
	zoneCache[name] = l
	return l
}

type transT struct {
	at     int64 // unix second of the transition: first second with the new offset
	before int   // offset before, seconds
	after  int   // offset after
}

var transCache = map[string][]transT{}

// offset changes of the zone in [year, year+span): found by scanning days and bisecting to the second
func transitionsOf(name string, year, span int) []transT {
	key := fmt.Sprintf("%s/%d/%d", name, year, span)
	if r, ok := transCache[key]; ok {
		return r
	}
	loc := zoneOf(name)
	off := func(s int64) int { _, o := time.Unix(s, 0).In(loc).Zone(); return o }
	lo := time.Date(year, 1, 1, 0, 0, 0, 0, time.UTC).Unix()
	hi := time.Date(year+span, 1, 1, 0, 0, 0, 0, time.UTC).Unix()
	var out []transT
	for s := lo; s < hi; s += 86400 {
		a, b := s, s+86400
		if off(a) == off(b) {
			continue
		}
		oa := off(a)
		for b-a > 1 {
			m := (a + b) / 2
			if off(m) == oa {
				a = m
			} else {
				b = m
			}
		}
		out = append(out, transT{b, oa, off(b)})
	}
	sort.Slice(out, func(i, j int) bool { return out[i].at < out[j].at })
	transCache[key] = out
	return out
}

// an interval with an endpoint in or next to a DST fold / gap, inside the timestamp width of c; ok=false when the
// configuration's reach has no transition of that zone
func genFoldInterval(e *vh.Env, c cfgT) (b, en tmT, cls string, ok bool) {
	name := dstZones[e.Rnd.Intn(len(dstZones))]
	max := int64(1)<<c.width() - 1
	y0 := yearOf(c.epoch) + 1
	if y0 > 9000 {
		return b, en, "", false
	}
	span := 6
	tr := transitionsOf(name, y0+e.Rnd.Intn(3)*20, span)
	if len(tr) == 0 {
		return b, en, "", false
	}
	t := tr[e.Rnd.Intn(len(tr))]
	d := int64(t.before - t.after) // > 0: fall back (fold of d seconds), < 0: spring forward (gap)
	kind := "gap"
	if d > 0 {
		kind = "fold"
	} else {
		d = -d
	}
	// seconds relative to the transition: first pass of the repeated hour is [-d, 0), second pass [0, d)
	rel := []int64{-d - 1, -d, -d + 1, -d / 2, -1, 0, 1, d / 2, d - 1, d, d + 1, -d/2 - 1800, d/2 + 1800}
	pickRel := func() int64 { return rel[e.Rnd.Intn(len(rel))] }
	sub := func() int64 { return pick(e, 0, 0, 1, 999999999, e.Rnd.Int63n(1000000000)) }
	r1, r2 := pickRel(), pickRel()
	if r1 > r2 && e.Rnd.Intn(8) != 0 {
		r1, r2 = r2, r1
	}
	b = tmT{t.at + r1, sub(), name}
	en = tmT{t.at + r2, sub(), name}
	if e.Rnd.Intn(3) == 0 {
		en.loc = zoneNames[e.Rnd.Intn(len(zoneNames))]
	}
	if e.Rnd.Intn(6) == 0 {
		b.loc = zoneNames[e.Rnd.Intn(len(zoneNames))]
	}
	for _, x := range []tmT{b, en} {
		if off := x.sec*1000 - c.epoch; off < 0 || off > max {
			return b, en, "", false
		}
	}
	return b, en, "dst-" + kind, true
}

// any Location for an ordinary endpoint
func anyZone(e *vh.Env, t tmT) tmT {
	if t.sec > 250000000000 || t.sec < -60000000000 {
		return t
	}
	switch e.Rnd.Intn(3) {
	case 0:
		return t // time.Unix: Local
	default:
		t.loc = zoneNames[e.Rnd.Intn(len(zoneNames))]
		return t
	}
}
