package main

import (
	"context"
	"fmt"
	"math"
	"runtime"
	"strings"
	"sync"
	"sync/atomic"

	"github.com/pinealctx/neptune/syncx/semap"
	"verifharness/vh"
)

// ---------------------------------------------------------------- configurations

func primesFor(v int) []uint64 {
	if v == 0 {
		return []uint64{0}
	}
	return []uint64{1, 2, 0} // 0 = the package default (73 shards)
}

func shardCount(p uint64) int {
	if p == 0 {
		return 73
	}
	return int(p)
}

// keyPool: keys whose routing is interesting for the variant: same shard / different shards, integers (modulo
// routing) and strings (always hashed)
func keyPool(v int, prime uint64) []interface{} {
	p := shardCount(prime)
	var pool []interface{}
	switch v {
	case 1:
		pool = []interface{}{0, p, 1, 2*p + 1, "k", -1, uint64(p) * 3, 5}
	case 2:
		pool = []interface{}{"a", "b", 0, 1, "key-2", uint64(7), "c"}
	default:
		pool = []interface{}{0, "a", 1, "b", -5, uint64(9), "c"}
	}
	// distinct model keys must be distinct Go keys
	seen := map[interface{}]bool{}
	var out []interface{}
	for _, k := range pool {
		if !seen[k] {
			seen[k] = true
			out = append(out, k)
		}
	}
	return out
}

func pickKeys(v int, prime uint64, n int, e *vh.Env) []interface{} {
	pool := keyPool(v, prime)
	perm := e.Rnd.Perm(len(pool))
	keys := make([]interface{}, n)
	for i := 0; i < n; i++ {
		keys[i] = pool[perm[i]]
	}
	return keys
}

func scriptCfg(v, ratio int, prime uint64, e *vh.Env) cfg {
	pool := keyPool(v, prime)
	return cfg{variant: v, ratio: ratio, prime: prime, keys: []interface{}{pool[0], pool[1]}}
}

// rwRatio at the edge of Go's int ("any number of readers, one writer"): the code computes size-cur and cur+n in int
var bigRatios = []int{math.MaxInt, math.MaxInt - 1, math.MaxInt32, 1 << 62}

func randomCfg(v int, e *vh.Env) cfg {
	ratios := []int{1, 2, 2, 3, 3, 3, 10}
	cf := cfg{variant: v, ratio: ratios[e.Rnd.Intn(len(ratios))]}
	if e.Rnd.Intn(8) == 0 {
		cf.ratio = bigRatios[e.Rnd.Intn(len(bigRatios))]
	} else if e.Rnd.Intn(8) == 0 {
		cf.noRatio, cf.viaOptions, cf.ratio = true, true, defaultRWRatio // no WithRwRatio: built after many differently configured maps
	}
	if v != 0 {
		ps := []uint64{1, 2, 2, 73, 0, 5}
		cf.prime = ps[e.Rnd.Intn(len(ps))]
	}
	nk := []int{1, 1, 1, 2, 2, 2, 3, 3, 4}[e.Rnd.Intn(9)]
	cf.keys = pickKeys(v, cf.prime, nk, e)
	return cf
}

// ---------------------------------------------------------------- scripted boundary schedules

type sop struct {
	kind  byte // 'a', 'c', 'r', 'x'
	who   int  // caller number within the script (1-based = tid)
	key   int
	write bool
	who2  int // race: the queued caller that is cancelled
}

func aR(who, key int) sop { return sop{'a', who, key, false, 0} }
func aW(who, key int) sop { return sop{'a', who, key, true, 0} }
func cc(who int) sop      { return sop{'c', who, 0, false, 0} }
func rr(who int) sop      { return sop{'r', who, 0, false, 0} }
func xx(h, w int) sop     { return sop{'x', h, 0, false, w} } // release of h racing with the cancellation of w

// every script is a function of rwRatio
var scripts = []func(ratio int) []sop{
	// two readers, one releases, a writer arrives: it must wait for the other reader (defect 1 of the pinned tree)
	func(int) []sop { return []sop{aR(1, 0), aR(2, 0), rr(1), aW(3, 0), rr(2), rr(3)} },
	// readers arriving behind a waiting writer queue behind it
	func(int) []sop { return []sop{aR(1, 0), aW(2, 0), aR(3, 0), aR(4, 0), rr(1), rr(2), rr(3), rr(4)} },
	// the head of the queue is cancelled: the readers behind it fit and are admitted at once
	func(int) []sop { return []sop{aR(1, 0), aW(2, 0), aR(3, 0), aR(4, 0), cc(2), rr(1), rr(3), rr(4)} },
	// a waiter that is not the head is cancelled: nobody is admitted
	func(int) []sop { return []sop{aW(1, 0), aR(2, 0), aR(3, 0), cc(3), rr(1), rr(2)} },
	// release hands over in queue order: reader, then the writer behind it only after that reader released
	func(int) []sop { return []sop{aW(1, 0), aR(2, 0), aW(3, 0), aR(4, 0), rr(1), rr(2), rr(3), rr(4)} },
	// exactly rwRatio readers fit; the next one queues; a writer queues behind it; one release admits the reader only
	func(ratio int) []sop {
		n := ratio
		if n > 10 {
			n = 10
		}
		var s []sop
		for i := 1; i <= n; i++ {
			s = append(s, aR(i, 0))
		}
		s = append(s, aR(n+1, 0), aW(n+2, 0), rr(1), rr(2))
		for i := 3; i <= n+1; i++ {
			s = append(s, rr(i))
		}
		return append(s, rr(n+2))
	},
	// the context of a holder ends: it keeps holding until its own release
	func(int) []sop { return []sop{aR(1, 0), cc(1), aW(2, 0), rr(1), rr(2)} },
	// two keys do not interfere
	func(int) []sop { return []sop{aW(1, 0), aW(2, 1), aR(3, 0), aR(4, 1), rr(1), rr(3), rr(2), rr(4)} },
	// the head is cancelled but the next waiter still does not fit
	func(int) []sop { return []sop{aR(1, 0), aW(2, 0), aW(3, 0), aR(4, 0), cc(2), rr(1), rr(3), rr(4)} },
	// the only waiter is cancelled, then the holder releases: nothing is left
	func(int) []sop { return []sop{aW(1, 0), aW(2, 0), cc(2), rr(1)} },
	// a writer waits for rwRatio readers and is admitted by the last release only
	func(ratio int) []sop {
		n := ratio
		if n > 4 {
			n = 4
		}
		var s []sop
		for i := 1; i <= n; i++ {
			s = append(s, aR(i, 0))
		}
		s = append(s, aW(n+1, 0))
		for i := 1; i <= n; i++ {
			s = append(s, rr(i))
		}
		return append(s, rr(n+1))
	},
	// cancelled head with a reader and a writer behind it: the reader is admitted, the writer is not
	func(int) []sop { return []sop{aR(1, 0), aW(2, 0), aR(3, 0), aW(4, 0), cc(2), rr(1), rr(3), rr(4)} },
	// the race of the cancel path: the only waiter would be admitted by the release that races with its cancellation;
	// whatever it returns, in the end nothing may be left (3 = still holding if it was admitted)
	func(int) []sop { return []sop{aW(1, 0), aW(2, 0), xx(1, 2), rr(2)} },
	func(int) []sop { return []sop{aW(1, 0), aR(2, 0), aR(3, 0), xx(1, 2), rr(2), rr(3)} },
	func(int) []sop { return []sop{aR(1, 0), aW(2, 0), aR(3, 0), xx(1, 2), rr(2), rr(3)} },
	// the cancelled waiter is not the head: the release admits the head, the cancelled one leaves
	func(int) []sop { return []sop{aW(1, 0), aW(2, 0), aR(3, 0), xx(1, 3), rr(2)} },
}

func runScript(r *runner, mk func(int) []sop, ratio int) {
	for _, o := range mk(ratio) {
		// a label that is not enabled in the observed state (the implementation did something else than the script
		// expects) is skipped: the schedule continues with what can be issued
		r.step(label{kind: o.kind, tid: o.who, key: o.key, write: o.write, tid2: o.who2, relFirst: r.raceFlip()})
	}
}

// raceFlip alternates the order in which the two calls of a race are issued
func (r *runner) raceFlip() bool { r.flip = !r.flip; return r.flip }

// ---------------------------------------------------------------- random schedules

func randomSchedule(r *runner, e *vh.Env) {
	n := 8 + e.Rnd.Intn(33)      // 8..40 labels
	maxLive := 2 + e.Rnd.Intn(7) // 2..8 callers alive at a time
	pWrite := []float64{0.15, 0.35, 0.6}[e.Rnd.Intn(3)]
	for i := 0; i < n && !r.dead; i++ {
		pend := r.inState(stPending)
		hold := r.inState(stHolding)
		type choice struct {
			w float64
			l label
		}
		var cs []choice
		if len(pend)+len(hold) < maxLive {
			k := 0
			if len(r.cf.keys) > 1 && e.Rnd.Float64() < 0.45 {
				k = e.Rnd.Intn(len(r.cf.keys))
			}
			cs = append(cs, choice{5, label{kind: 'a', tid: r.nextTid, key: k, write: e.Rnd.Float64() < pWrite}})
		}
		if len(pend) > 0 {
			// the head of a queue is the interesting one to cancel: pend is in arrival order
			c := pend[e.Rnd.Intn(len(pend))]
			if e.Rnd.Float64() < 0.5 {
				c = pend[0]
			}
			cs = append(cs, choice{2, label{kind: 'c', tid: c.tid}})
		}
		if len(hold) > 0 {
			cs = append(cs, choice{3.5, label{kind: 'r', tid: hold[e.Rnd.Intn(len(hold))].tid}})
			cs = append(cs, choice{0.3, label{kind: 'c', tid: hold[e.Rnd.Intn(len(hold))].tid}})
		}
		for _, h := range hold {
			var ws []*caller
			for _, w := range pend {
				if w.key == h.key {
					ws = append(ws, w)
				}
			}
			if len(ws) > 0 {
				w := ws[0] // the head of the queue is the one a release may admit
				if e.Rnd.Float64() < 0.3 {
					w = ws[e.Rnd.Intn(len(ws))]
				}
				cs = append(cs, choice{2.0 / float64(len(hold)), label{kind: 'x', tid: h.tid, tid2: w.tid, relFirst: e.Rnd.Intn(3) == 0}})
			}
		}
		if len(cs) == 0 {
			break
		}
		tot := 0.0
		for _, c := range cs {
			tot += c.w
		}
		x := e.Rnd.Float64() * tot
		pick := cs[len(cs)-1].l
		for _, c := range cs {
			if x < c.w {
				pick = c.l
				break
			}
			x -= c.w
		}
		r.step(pick)
	}
	// drain: everybody leaves, in random order; at the end nothing may be left in the container
	if e.Rnd.Float64() < 0.7 {
		for !r.dead {
			pend := r.inState(stPending)
			hold := r.inState(stHolding)
			if len(pend)+len(hold) == 0 {
				break
			}
			i := e.Rnd.Intn(len(pend) + len(hold))
			if i < len(pend) {
				r.step(label{kind: 'c', tid: pend[i].tid})
			} else {
				r.step(label{kind: 'r', tid: hold[i-len(pend)].tid})
			}
		}
	}
}

// ---------------------------------------------------------------- all label sequences of small programs

// exhaustive enumerates every maximal label sequence of at most `callers` callers, each of which acquires (read or
// write, on one of <= 2 keys; a new key index may exceed the largest used one by at most one: key symmetry) and is
// then cancelled while queued or releases while holding (with two callers also: is cancelled while holding).
func exhaustive(e *vh.Env, v, ratio, callers int, class string) int {
	count := 0
	late := callers <= 2
	var prime uint64
	if v != 0 {
		prime = 2
	}
	pool := keyPool(v, prime)
	cf := cfg{variant: v, ratio: ratio, prime: prime, keys: []interface{}{pool[0], pool[1]}}
	var explore func(prefix []label)
	explore = func(prefix []label) {
		r := newRunner(cf)
		for _, l := range prefix {
			r.step(l)
		}
		var next []label
		if !r.dead {
			if len(r.order) < callers {
				maxKey := -1
				for _, c := range r.order {
					if c.key > maxKey {
						maxKey = c.key
					}
				}
				for k := 0; k <= maxKey+1 && k < len(cf.keys); k++ {
					next = append(next, label{kind: 'a', tid: r.nextTid, key: k, write: false}, label{kind: 'a', tid: r.nextTid, key: k, write: true})
				}
			}
			for _, c := range r.order {
				switch c.state {
				case stPending:
					next = append(next, label{kind: 'c', tid: c.tid})
				case stHolding:
					next = append(next, label{kind: 'r', tid: c.tid})
					if late && !c.lateCancelled() {
						next = append(next, label{kind: 'c', tid: c.tid})
					}
					for _, w := range r.order {
						if w.state == stPending && w.key == c.key {
							next = append(next, label{kind: 'x', tid: c.tid, tid2: w.tid})
						}
					}
				}
			}
		}
		if len(next) == 0 {
			r.finish()
			emitSched(e, r, class)
			count++
			return
		}
		r.finish()
		for _, l := range next {
			explore(append(append([]label{}, prefix...), l))
		}
	}
	explore(nil)
	return count
}

func (c *caller) lateCancelled() bool { return c.ctx.Err() != nil }

// ---------------------------------------------------------------- free-running stress

// emitStress lets goroutines acquire / release freely (with cancellations racing against grants) and watches the
// critical sections from inside: a counter per key and kind is incremented right after Acquire* returned nil and
// decremented right before Release*.
func emitStress(e *vh.Env, cf cfg, iters int) {
	m := cf.newMap()
	nk := len(cf.keys)
	readers := make([]int64, nk)
	writers := make([]int64, nk)
	var maxR, maxW, mixed, bad int64
	var badMsg atomic.Value
	upd := func(p *int64, v int64) {
		for {
			o := atomic.LoadInt64(p)
			if v <= o || atomic.CompareAndSwapInt64(p, o, v) {
				return
			}
		}
	}
	const G = 6
	seeds := make([]int64, G)
	for i := range seeds {
		seeds[i] = e.Rnd.Int63()
	}
	var wg sync.WaitGroup
	for g := 0; g < G; g++ {
		wg.Add(1)
		go func(seed int64) {
			defer wg.Done()
			defer func() {
				if p := recover(); p != nil {
					atomic.StoreInt64(&bad, 1)
					badMsg.Store(fmt.Sprintf("panic: %v", p))
				}
			}()
			x := uint64(seed) | 1
			rnd := func(n int) int { // xorshift: cheap private generator
				x ^= x << 13
				x ^= x >> 7
				x ^= x << 17
				return int(x % uint64(n))
			}
			for i := 0; i < iters; i++ {
				k := rnd(nk)
				write := rnd(100) < 30
				ctx, cancel := context.WithCancel(context.Background())
				switch rnd(10) {
				case 0:
					cancel() // already ended
				case 1, 2, 3:
					d := rnd(4)
					go func() { // ends while the call may be queued or may just have been granted
						for j := 0; j < d; j++ {
							runtime.Gosched()
						}
						cancel()
					}()
				}
				var w *semap.Weighted
				var err error
				if write {
					w, err = m.AcquireWrite(ctx, cf.keys[k])
				} else {
					w, err = m.AcquireRead(ctx, cf.keys[k])
				}
				if err != nil {
					if w != nil || ctx.Err() == nil {
						atomic.StoreInt64(&bad, 1)
						badMsg.Store(fmt.Sprintf("acquire returned (%v, %v) with live context", w, err))
					}
					cancel()
					continue
				}
				if w == nil {
					atomic.StoreInt64(&bad, 1)
					badMsg.Store("acquire returned (nil, nil)")
					cancel()
					continue
				}
				// ---- inside the critical section
				if write {
					nw := atomic.AddInt64(&writers[k], 1)
					nr := atomic.LoadInt64(&readers[k])
					upd(&maxW, nw)
					if nr > 0 {
						atomic.StoreInt64(&mixed, 1)
					}
				} else {
					nr := atomic.AddInt64(&readers[k], 1)
					nw := atomic.LoadInt64(&writers[k])
					upd(&maxR, nr)
					if nw > 0 {
						atomic.StoreInt64(&mixed, 1)
					}
				}
				for j := rnd(3); j > 0; j-- {
					runtime.Gosched()
				}
				if write {
					atomic.AddInt64(&writers[k], -1)
					m.ReleaseWrite(cf.keys[k], w)
				} else {
					atomic.AddInt64(&readers[k], -1)
					m.ReleaseRead(cf.keys[k], w)
				}
				cancel()
			}
		}(seeds[g])
	}
	done := make(chan struct{})
	go func() { wg.Wait(); close(done) }()
	// every goroutine releases what it acquired, so the run must end; the bound can expire only on a real hang
	hung := false
	t := newTimer()
	select {
	case <-done:
	case <-t:
		hung = true
		hangs++
		bad = 1
		badMsg.Store("stress run did not end\n" + stacks())
	}
	entries := -1
	if !hung {
		entries = semap.VerifEntries(m)
	}
	ks := make([]string, nk)
	for i, k := range cf.keys {
		ks[i] = keyStr(k)
	}
	desc := map[string]interface{}{"container": variantNames[cf.variant], "rwRatio": cf.ratio, "shards": cf.prime, "keys": ks,
		"goroutines": G, "iterations": iters, "max_readers_inside": maxR, "max_writers_inside": maxW, "reader_and_writer_inside": mixed != 0,
		"entries_at_end": entries}
	if s, ok := badMsg.Load().(string); ok {
		desc["irregular"] = s
	}
	e.Emit(vh.Case{
		Coq: fmt.Sprintf("Stress %d %d %d %s %s %s (* free-running stress on the %s container (rwRatio %d, shards %d, keys %s): %d goroutines x %d iterations of AcquireRead/AcquireWrite (30%% writes; 10%% with a context that has already ended, 30%% with a context cancelled concurrently), monitor counters inside the critical sections: at most %d readers and %d writers were inside together on one key, reader and writer inside together: %v; entries left at the end: %d; irregular: %v *)",
			cf.ratio, maxR, maxW, vh.CoqBool(mixed != 0), zlit(entries), vh.CoqBool(bad != 0),
			variantNames[cf.variant], cf.ratio, cf.prime, strings.Join(ks, ";"), G, iters, maxR, maxW, mixed != 0, entries, bad != 0),
		Class:      variantNames[cf.variant] + "/stress",
		Nontrivial: maxR > 1 || maxW > 0,
		Key:        fmt.Sprintf("stress %v %d %d %s", cf.variant, cf.ratio, cf.prime, strings.Join(ks, ";")),
		Replay:     fmt.Sprintf("stress:%d,%d,%d|%s|", cf.variant, cf.ratio, cf.prime, strings.Join(ks, ";")),
		Desc:       desc,
	})
}

// ---------------------------------------------------------------- constructor histories

// ctorHistory builds several maps ONE AFTER ANOTHER with different option sets - explicit ratio, then defaults, then
// another explicit ratio, then WithPrime only, ... through all three constructors - and runs each against the model of
// ITS OWN options (no WithRwRatio => DefaultRWRatio = 10, computed in Coq by `options`).  On every map: rwRatio readers
// fill the key, the next reader must park, a writer parks behind it, ... (script "fill"), and the writer-behind-readers
// history.  A default-built map that admits an 11th reader (or parks the 4th) took its ratio from somewhere else.
func ctorHistory(e *vh.Env, v int, class string) int {
	n := 0
	pre := 0
	explicit := []int{30, 3, 64, 2, 12, 7}
	steps := e.Scale(8, 24)
	for i := 0; i < steps; i++ {
		cf := cfg{variant: v, viaOptions: true, preRatio: pre}
		if i%2 == 1 || e.Rnd.Intn(5) == 0 {
			cf.noRatio, cf.ratio = true, defaultRWRatio // built on the defaults, AFTER a differently configured map
		} else {
			cf.ratio = explicit[e.Rnd.Intn(len(explicit))]
		}
		if i%4 >= 2 {
			cf.variant = e.Rnd.Intn(3) // the other constructors share RangeOption
		}
		if cf.variant != 0 && e.Rnd.Intn(2) == 0 {
			cf.prime = []uint64{1, 2, 7}[e.Rnd.Intn(3)] // WithPrime only / with a ratio
		}
		pool := keyPool(cf.variant, cf.prime)
		cf.keys = []interface{}{pool[0], pool[1]}
		for _, si := range []int{5, 1, 10} { // fill; readers behind a waiting writer; writer admitted by the last of rwRatio readers
			r := newRunner(cf)
			runScript(r, scripts[si], cf.ratio)
			r.finish()
			emitSched(e, r, class)
			n++
		}
		if !cf.noRatio {
			pre = cf.ratio
		}
	}
	return n
}
