package main

import (
	"context"
	"fmt"
	"runtime"
	"sync"
	"sync/atomic"
	"time"

	"github.com/pinealctx/neptune/syncx/semap"
	"verifharness/vh"
)

// fresh-key-burst: the first use of a key.  SemMap.acquire looks the key up, creates the entry and enters
// Weighted.acquire in ONE critical section; the forced schedules issue one call at a time and so never put two callers
// between the look-up and the store.  Here every round takes a key nobody has used, lets N goroutines loose on it at
// the same instant (spin barrier), and watches the critical sections from inside: a counter per kind is incremented
// right after Acquire* returned nil and decremented right before Release*.  Exclusion is violated iff more than one
// writer, a writer beside a reader, or more than rwRatio readers are inside together.  After the round everybody has
// released: VerifEntries must be 0.
type burstRound struct {
	round, callers, writersN int
	key                      interface{}
	maxR, maxW               int64
	mixed                    bool
	entries                  int
	bad                      string
}

func burstKey(v, round int) interface{} {
	switch round % 3 {
	case 1:
		return uint64(round)
	case 2:
		return fmt.Sprintf("fresh-%d", round)
	}
	return round
}

func runBurstRound(m semap.SemMapper, cf cfg, round int, seed uint64) burstRound {
	x := seed | 1
	rnd := func(n int) int {
		x ^= x << 13
		x ^= x >> 7
		x ^= x << 17
		return int(x % uint64(n))
	}
	n := 8 + rnd(9) // 8..16 callers
	pw := []int{100, 60, 30}[rnd(3)]
	key := burstKey(cf.variant, round)
	br := burstRound{round: round, callers: n, key: key}
	var readers, writers, maxR, maxW, mixed, ready, goFlag int64
	var badMsg atomic.Value
	kinds := make([]bool, n)
	for i := range kinds {
		kinds[i] = rnd(100) < pw
		if kinds[i] {
			br.writersN++
		}
	}
	upd := func(p *int64, v int64) {
		for {
			o := atomic.LoadInt64(p)
			if v <= o || atomic.CompareAndSwapInt64(p, o, v) {
				return
			}
		}
	}
	var wg sync.WaitGroup
	wg.Add(n)
	for g := 0; g < n; g++ {
		write := kinds[g]
		go func() {
			defer wg.Done()
			defer func() {
				if p := recover(); p != nil {
					badMsg.Store(fmt.Sprintf("panic: %v", p))
				}
			}()
			atomic.AddInt64(&ready, 1)
			for spin := 0; atomic.LoadInt64(&goFlag) == 0; spin++ {
				if spin&63 == 63 {
					runtime.Gosched()
				}
			}
			for rep := 0; rep < 2; rep++ {
				var w *semap.Weighted
				var err error
				if write {
					w, err = m.AcquireWrite(context.Background(), key)
				} else {
					w, err = m.AcquireRead(context.Background(), key)
				}
				if err != nil || w == nil {
					badMsg.Store(fmt.Sprintf("acquire with a live context returned (%v, %v)", w, err))
					return
				}
				if write {
					nw := atomic.AddInt64(&writers, 1)
					nr := atomic.LoadInt64(&readers)
					upd(&maxW, nw)
					if nr > 0 {
						atomic.StoreInt64(&mixed, 1)
					}
				} else {
					nr := atomic.AddInt64(&readers, 1)
					nw := atomic.LoadInt64(&writers)
					upd(&maxR, nr)
					if nw > 0 {
						atomic.StoreInt64(&mixed, 1)
					}
				}
				for i := 0; i < 40; i++ { // stay inside for a moment
					_ = atomic.LoadInt64(&writers)
				}
				if write {
					atomic.AddInt64(&writers, -1)
					m.ReleaseWrite(key, w)
				} else {
					atomic.AddInt64(&readers, -1)
					m.ReleaseRead(key, w)
				}
			}
		}()
	}
	for spin := 0; atomic.LoadInt64(&ready) < int64(n); spin++ {
		runtime.Gosched()
	}
	atomic.StoreInt64(&goFlag, 1)
	done := make(chan struct{})
	go func() { wg.Wait(); close(done) }()
	select {
	case <-done:
		br.entries = semap.VerifEntries(m)
	case <-newTimer(): // every holder releases, so the round must end; expires only on a real hang
		hangs++
		br.entries = -1
		br.bad = "round did not end\n" + stacks()
	}
	if s, ok := badMsg.Load().(string); ok && br.bad == "" {
		br.bad = s
	}
	br.maxR, br.maxW, br.mixed = atomic.LoadInt64(&maxR), atomic.LoadInt64(&maxW), atomic.LoadInt64(&mixed) != 0
	return br
}

func (b burstRound) violates(ratio int) bool {
	return b.maxW > 1 || b.mixed || b.maxR > int64(ratio) || b.entries != 0 || b.bad != ""
}

// emitBurst runs rounds on one container until the budget is used up or a round violates the property; it emits one
// Stress case: the violating round, or the summary of all rounds.
func emitBurst(e *vh.Env, v int, maxRounds int, budget time.Duration) {
	cf := cfg{variant: v, ratio: []int{2, 3, 4, 10, 1}[e.Rnd.Intn(5)]}
	if v != 0 {
		cf.prime = []uint64{1, 2, 7, 0}[e.Rnd.Intn(4)]
	}
	m := cf.newMap()
	seed := uint64(e.Rnd.Int63())
	stop := time.Now().Add(budget) // bounds the amount of generation only; nothing is inferred from it
	var agg burstRound
	rounds := 0
	var hit *burstRound
	for rounds < maxRounds && time.Now().Before(stop) {
		br := runBurstRound(m, cf, rounds, seed+uint64(rounds)*0x9E3779B97F4A7C15)
		rounds++
		if br.maxR > agg.maxR {
			agg.maxR = br.maxR
		}
		if br.maxW > agg.maxW {
			agg.maxW = br.maxW
		}
		if br.violates(cf.ratio) {
			hit = &br
			break
		}
	}
	class := variantNames[v] + "/fresh-key-burst"
	if hit != nil {
		desc := map[string]interface{}{"container": variantNames[v], "rwRatio": cf.ratio, "shards": cf.prime, "round": hit.round,
			"key": keyStr(hit.key), "callers": hit.callers, "of_them_writers": hit.writersN, "acquires_per_caller": 2,
			"max_writers_inside": hit.maxW, "max_readers_inside": hit.maxR, "reader_and_writer_inside": hit.mixed,
			"entries_after_all_released": hit.entries, "what": "callers released from a barrier at the same instant on a key that had never been used"}
		if hit.bad != "" {
			desc["irregular"] = hit.bad
		}
		e.Emit(vh.Case{
			Coq: fmt.Sprintf("Stress %d %d %d %s %s %s (* fresh-key-burst on the %s container (rwRatio %d, shards %d): round %d, never-used key %s, %d callers (%d writers) let loose together, 2 acquires each: %d writers and %d readers inside together, reader beside writer: %v, entries left after all released: %d *)",
				cf.ratio, hit.maxR, hit.maxW, vh.CoqBool(hit.mixed), zlit(hit.entries), vh.CoqBool(hit.bad != ""),
				variantNames[v], cf.ratio, cf.prime, hit.round, keyStr(hit.key), hit.callers, hit.writersN, hit.maxW, hit.maxR, hit.mixed, hit.entries),
			Class: class, Nontrivial: true, Key: fmt.Sprintf("burst-violation %d %d %d round %d", v, cf.ratio, cf.prime, hit.round),
			Replay: fmt.Sprintf("burst:%d,%d,%d|i0|", v, cf.ratio, cf.prime), Desc: desc,
		})
		return
	}
	e.Emit(vh.Case{
		Coq: fmt.Sprintf("Stress %d %d %d false 0 false (* fresh-key-burst on the %s container (rwRatio %d, shards %d): %d rounds, each on a never-used key with 8..16 callers let loose together, 2 acquires each; never more than %d readers / %d writers inside together, never a reader beside a writer, no entry left after any round *)",
			cf.ratio, agg.maxR, agg.maxW, variantNames[v], cf.ratio, cf.prime, rounds, agg.maxR, agg.maxW),
		Class: class, Nontrivial: rounds > 0, Key: fmt.Sprintf("burst %d %d %d", v, cf.ratio, cf.prime),
		Replay: fmt.Sprintf("burst:%d,%d,%d|i0|", v, cf.ratio, cf.prime),
		Desc: map[string]interface{}{"container": variantNames[v], "rwRatio": cf.ratio, "shards": cf.prime, "rounds": rounds,
			"max_writers_inside": agg.maxW, "max_readers_inside": agg.maxR, "violations": 0},
	})
	if n, ok := e.Meta["burst_rounds"].(int); ok {
		e.Meta["burst_rounds"] = n + rounds
	} else {
		e.Meta["burst_rounds"] = rounds
	}
}
