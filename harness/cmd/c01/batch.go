package main

import (
	"context"
	"errors"
	"fmt"
	"runtime"
	"sync/atomic"
	"time"

	"github.com/pinealctx/neptune/syncx/semap"
	"verifharness/vh"
)

// batch-cancel: a big hand-off racing with cancellations.  Per round, on a never-used key and rwRatio 16..64: a writer
// holds; R readers (mostly > 8, always <= rwRatio) call AcquireRead with their own contexts and are POSITIVELY observed
// parked (VerifKeyState.waiters == R); then, released from a spin barrier at the same instant, one goroutine calls
// ReleaseWrite (which admits the whole queue in one hand-off) and another cancels the contexts of all / half of the
// readers.  Every reader's Acquire* must return (it was cancelled, or it fits once the writer has left).  Then:
//
//	returned nil   => it holds: it is counted inside and releases;
//	returned error => the error is its context's error and it must hold nothing.
//
// Whatever the interleaving was, once every successful reader has released the key must be empty: VerifKeyState =
// (0, 0, absent), VerifEntries = 0, and a fresh writer is admitted at once.  Only those end-state facts (true under
// EVERY legal schedule) are reported.
type batchRound struct {
	round, readers, cancelled int
	ratio                     int
	key                       interface{}
	okN, errN                 int
	held, waiters             int
	present                   bool
	entries                   int
	bad                       string
}

type batchReader struct {
	ctx    context.Context
	cancel context.CancelFunc
	done   chan struct{}
	w      *semap.Weighted
	err    error
	pan    interface{}
}

func waitDone(ch <-chan struct{}) bool {
	select {
	case <-ch:
		return true
	default:
	}
	t := time.NewTimer(stepTimeout())
	defer t.Stop()
	select {
	case <-ch:
		return true
	case <-t.C: // a step that must complete did not: a real hang
		hangs++
		return false
	}
}

func runBatchRound(m semap.SemMapper, ratio int, key interface{}, round int, seed uint64) batchRound {
	x := seed | 1
	rnd := func(n int) int {
		x ^= x << 13
		x ^= x >> 7
		x ^= x << 17
		return int(x % uint64(n))
	}
	br := batchRound{round: round, ratio: ratio, key: key}
	// readers: mostly a big batch, sometimes a small one
	R := 9 + rnd(ratio-8)
	if R > 40 {
		R = 40
	}
	if rnd(8) == 0 {
		R = 1 + rnd(8)
	}
	br.readers = R
	bg := context.Background()
	ww, err := m.AcquireWrite(bg, key) // never-used key: returns at once
	if err != nil || ww == nil {
		br.bad = fmt.Sprintf("AcquireWrite on a never-used key returned (%v, %v)", ww, err)
		return br
	}
	rs := make([]*batchReader, R)
	for i := range rs {
		ctx, cancel := context.WithCancel(bg)
		r := &batchReader{ctx: ctx, cancel: cancel, done: make(chan struct{})}
		rs[i] = r
		go func() {
			defer close(r.done)
			defer func() {
				if p := recover(); p != nil {
					r.pan = p
				}
			}()
			r.w, r.err = m.AcquireRead(ctx, key)
		}()
	}
	cleanup := func() {
		for _, r := range rs {
			r.cancel()
		}
	}
	// positively observe all readers parked behind the writer
	deadline := time.Now().Add(stepTimeout())
	for spin := 0; ; spin++ {
		_, w, _ := semap.VerifKeyState(m, key)
		if w == R {
			break
		}
		if time.Now().After(deadline) {
			hangs++
			br.bad = fmt.Sprintf("only %d of %d readers were observed queued behind the writer", w, R)
			cleanup()
			return br
		}
		runtime.Gosched()
	}
	// who is cancelled: all, or every other one, or the second half of the queue; in queue order or reversed
	var victims []*batchReader
	switch rnd(3) {
	case 0:
		victims = append(victims, rs...)
	case 1:
		for i := rnd(2); i < R; i += 2 {
			victims = append(victims, rs[i])
		}
	default:
		victims = append(victims, rs[R/2:]...)
	}
	if rnd(2) == 0 {
		for i, j := 0, len(victims)-1; i < j; i, j = i+1, j-1 {
			victims[i], victims[j] = victims[j], victims[i]
		}
	}
	br.cancelled = len(victims)
	delay := rnd(4) * rnd(60) // the cancellations start a little later ...
	relDelay := 0
	if rnd(3) == 0 { // ... or the release does
		relDelay, delay = rnd(400), 0
	}
	var ready, goFlag int64
	relDone := make(chan struct{})
	canDone := make(chan struct{})
	var relPanic interface{}
	go func() {
		defer close(relDone)
		defer func() { relPanic = recover() }()
		atomic.AddInt64(&ready, 1)
		for atomic.LoadInt64(&goFlag) == 0 {
		}
		for i := 0; i < relDelay; i++ {
			_ = atomic.LoadInt64(&ready)
		}
		m.ReleaseWrite(key, ww)
	}()
	go func() {
		defer close(canDone)
		atomic.AddInt64(&ready, 1)
		for atomic.LoadInt64(&goFlag) == 0 {
		}
		for i := 0; i < delay; i++ {
			_ = atomic.LoadInt64(&ready)
		}
		for _, v := range victims {
			v.cancel()
		}
	}()
	for atomic.LoadInt64(&ready) < 2 {
		runtime.Gosched()
	}
	atomic.StoreInt64(&goFlag, 1)
	if !waitDone(relDone) || !waitDone(canDone) {
		br.bad = "ReleaseWrite / the cancellations did not return\n" + stacks()
		cleanup()
		return br
	}
	if relPanic != nil {
		br.bad = fmt.Sprintf("ReleaseWrite panicked: %v", relPanic)
	}
	// every reader returns: it was cancelled, or the departing writer's hand-off admitted it (R <= rwRatio)
	for i, r := range rs {
		if !waitDone(r.done) {
			br.bad = fmt.Sprintf("AcquireRead of reader %d did not return after the writer left\n%s", i, stacks())
			cleanup()
			return br
		}
	}
	var inside int64
	for i, r := range rs {
		switch {
		case r.pan != nil:
			br.bad = fmt.Sprintf("AcquireRead of reader %d panicked: %v", i, r.pan)
		case r.err == nil && r.w != nil:
			br.okN++
			inside++
		case r.err != nil && r.w == nil && r.ctx.Err() != nil && errors.Is(r.err, context.Canceled):
			br.errN++ // holds nothing: nothing to release
		default:
			br.bad = fmt.Sprintf("AcquireRead of reader %d returned (%v, %v), its context: %v", i, r.w, r.err, r.ctx.Err())
		}
	}
	if h, _, _ := semap.VerifKeyState(m, key); br.bad == "" && int64(h) != inside {
		// every call has returned: the tokens booked are exactly those of the callers that were told they hold
		br.bad = fmt.Sprintf("%d readers returned nil (the writer has released, %d readers returned the context error) but %d tokens are booked", inside, br.errN, h)
	}
	for _, r := range rs {
		if r.err == nil && r.w != nil {
			func() {
				defer func() {
					if p := recover(); p != nil && br.bad == "" {
						br.bad = fmt.Sprintf("ReleaseRead panicked: %v", p)
					}
				}()
				m.ReleaseRead(key, r.w)
			}()
		}
	}
	cleanup()
	// everybody who held has released, nobody waits
	br.held, br.waiters, br.present = semap.VerifKeyState(m, key)
	br.entries = semap.VerifEntries(m)
	if br.bad == "" && br.held == 0 && br.waiters == 0 && !br.present && br.entries == 0 {
		// a fresh writer is admitted at once
		ctx, cancel := context.WithCancel(bg)
		fin := &batchReader{done: make(chan struct{})}
		go func() {
			defer close(fin.done)
			fin.w, fin.err = m.AcquireWrite(ctx, key)
		}()
		if !waitDone(fin.done) {
			br.bad = "a fresh AcquireWrite on the emptied key did not return\n" + stacks()
			cancel()
			return br
		}
		cancel()
		if fin.err != nil || fin.w == nil {
			br.bad = fmt.Sprintf("a fresh AcquireWrite on the emptied key returned (%v, %v)", fin.w, fin.err)
		} else {
			m.ReleaseWrite(key, fin.w)
			br.entries = semap.VerifEntries(m)
		}
	}
	return br
}

func (b batchRound) violates() bool {
	return b.bad != "" || b.held != 0 || b.waiters != 0 || b.present || b.entries != 0
}

func emitBatch(e *vh.Env, v int, maxRounds int, budget time.Duration) {
	cf := cfg{variant: v}
	if v != 0 {
		cf.prime = []uint64{1, 2, 7, 0}[e.Rnd.Intn(4)]
	}
	seed := uint64(e.Rnd.Int63())
	stop := time.Now().Add(budget) // bounds the amount of generation only
	class := variantNames[v] + "/batch-cancel"
	rounds, okTot, errTot, mixedRounds := 0, 0, 0, 0
	var hit *batchRound
	var m semap.SemMapper
	for rounds < maxRounds && time.Now().Before(stop) {
		if rounds%256 == 0 { // a new container (and ratio) now and then
			cf.ratio = 16 + e.Rnd.Intn(49)
			m = cf.newMap()
		}
		br := runBatchRound(m, cf.ratio, burstKey(v, rounds), rounds, seed+uint64(rounds)*0x9E3779B97F4A7C15)
		rounds++
		okTot += br.okN
		errTot += br.errN
		if br.okN > 0 && br.errN > 0 {
			mixedRounds++
		}
		if br.violates() {
			hit = &br
			break
		}
	}
	replay := fmt.Sprintf("batch:%d,%d,%d|i0|", v, 16, cf.prime)
	if hit != nil {
		desc := map[string]interface{}{"container": variantNames[v], "rwRatio": hit.ratio, "shards": cf.prime, "round": hit.round,
			"key": keyStr(hit.key), "readers_parked_behind_the_writer": hit.readers, "contexts_cancelled_while_the_writer_released": hit.cancelled,
			"readers_returned_nil_and_released": hit.okN, "readers_returned_context_error": hit.errN,
			"after_all_released": fmt.Sprintf("held=%d waiters=%d present=%v entries=%d", hit.held, hit.waiters, hit.present, hit.entries),
			"what":               "ReleaseWrite (handing over to the whole queue) and the cancellations were let loose together; every reader that returned nil has released, yet the key is not empty"}
		if hit.bad != "" {
			desc["irregular"] = hit.bad
		}
		ent := hit.entries
		if ent == 0 && (hit.held != 0 || hit.waiters != 0 || hit.present) {
			ent = 1
		}
		e.Emit(vh.Case{
			Coq: fmt.Sprintf("Stress %d %d 1 false %s %s (* batch-cancel on the %s container (rwRatio %d, shards %d): round %d, key %s: a writer held, %d readers parked, ReleaseWrite raced with the cancellation of %d of them: %d returned nil (and released), %d returned the context error; afterwards held=%d waiters=%d present=%v entries=%d *)",
				hit.ratio, hit.okN, zlit(ent), vh.CoqBool(hit.bad != ""), variantNames[v], hit.ratio, cf.prime, hit.round, keyStr(hit.key),
				hit.readers, hit.cancelled, hit.okN, hit.errN, hit.held, hit.waiters, hit.present, hit.entries),
			Class: class, Nontrivial: true, Key: fmt.Sprintf("batch-violation %d %d round %d", v, cf.prime, hit.round), Replay: replay, Desc: desc,
		})
		return
	}
	e.Emit(vh.Case{
		Coq: fmt.Sprintf("Stress 16 16 1 false 0 false (* batch-cancel on the %s container (rwRatio 16..64, shards %d): %d rounds (writer holds, 1..40 readers parked, ReleaseWrite raced with cancellations): %d acquires returned nil, %d the context error, %d rounds saw both; after every round the key was empty and a fresh writer was admitted at once *)",
			variantNames[v], cf.prime, rounds, okTot, errTot, mixedRounds),
		Class: class, Nontrivial: mixedRounds > 0, Key: fmt.Sprintf("batch %d %d", v, cf.prime), Replay: replay,
		Desc: map[string]interface{}{"container": variantNames[v], "shards": cf.prime, "rounds": rounds, "returned_nil": okTot,
			"returned_context_error": errTot, "rounds_with_both_outcomes": mixedRounds, "violations": 0},
	})
	if n, ok := e.Meta["batch_rounds"].(int); ok {
		e.Meta["batch_rounds"] = n + rounds
	} else {
		e.Meta["batch_rounds"] = rounds
	}
}
