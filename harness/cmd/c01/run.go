package main

import (
	"context"
	"errors"
	"fmt"
	"runtime"
	"strconv"
	"strings"
	"time"

	"github.com/pinealctx/neptune/syncx/semap"
	"verifharness/vh"
)

// ---------------------------------------------------------------- configuration

type cfg struct {
	variant int // 0 single, 1 modulo, 2 xxhash
	ratio   int
	prime   uint64        // shard count of the sharded variants (0 = package default)
	keys    []interface{} // model key i = keys[i]
	// constructor histories: noRatio = the constructor gets NO WithRwRatio (the map must then have DefaultRWRatio, which is
	// what ratio is set to); viaOptions = the case term computes its rwRatio in Coq from the option list actually passed;
	// preRatio = the rwRatio given explicitly to the constructor call before this one (0: none) - only for the replay
	noRatio, viaOptions bool
	preRatio            int
}

const defaultRWRatio = 10 // the documented semap.DefaultRWRatio; deliberately NOT read from the package

// optsCoq is the option list passed to the constructor, as a Coq term of type list opt
func (c cfg) optsCoq() string {
	var o []string
	if !c.noRatio {
		o = append(o, fmt.Sprintf("WithRwRatio %d", c.ratio))
	}
	if c.prime > 0 {
		o = append(o, fmt.Sprintf("WithPrime %d", c.prime))
	}
	return "[" + strings.Join(o, "; ") + "]"
}

func (c cfg) sizeCoq() string {
	if c.viaOptions {
		return "(o_ratio (options " + c.optsCoq() + "))"
	}
	return strconv.Itoa(c.ratio)
}

// lastExplicit is the rwRatio most recently given explicitly to a constructor in this process (for replays of
// default-built maps)
var lastExplicit int

func (c cfg) newMap() semap.SemMapper {
	var opts []semap.Option
	if !c.noRatio {
		lastExplicit = c.ratio
		opts = append(opts, semap.WithRwRatio(c.ratio))
	}
	if c.prime > 0 {
		opts = append(opts, semap.WithPrime(c.prime))
	}
	switch c.variant {
	case 1:
		return semap.NewWideSemMap(opts...)
	case 2:
		return semap.NewWideXHashSemMap(opts...)
	}
	return semap.NewSemMap(opts...)
}

func keyStr(k interface{}) string {
	switch v := k.(type) {
	case int:
		return "i" + strconv.Itoa(v)
	case uint64:
		return "u" + strconv.FormatUint(v, 10)
	case string:
		return "s" + v
	}
	panic("unsupported key")
}
func parseKey(s string) (interface{}, error) {
	if s == "" {
		return nil, errors.New("empty key")
	}
	switch s[0] {
	case 'i':
		v, err := strconv.Atoi(s[1:])
		return v, err
	case 'u':
		v, err := strconv.ParseUint(s[1:], 10, 64)
		return v, err
	case 's':
		return s[1:], nil
	}
	return nil, errors.New("bad key " + s)
}

// ---------------------------------------------------------------- labels

type label struct {
	kind                byte // 'a' acquire, 'c' cancel, 'r' release, 'x' release of tid racing with the cancellation of tid2
	tid                 int
	key                 int  // acquire only (the others act on the caller's key)
	write               bool // acquire only
	tid2                int  // race only: the queued caller whose context is cancelled
	relFirst            bool // race only: call Release* before cancel() (otherwise cancel() first); no waiting in between
	cancelFirstResolved bool // race only, filled in after the step: the waiter returned the context error
}

func (l label) String() string {
	switch l.kind {
	case 'a':
		k := "r"
		if l.write {
			k = "w"
		}
		return fmt.Sprintf("a%d.%d.%s", l.tid, l.key, k)
	}
	if l.kind == 'x' {
		o := "c"
		if l.relFirst {
			o = "r"
		}
		return fmt.Sprintf("x%d.%d.%s", l.tid, l.tid2, o)
	}
	return fmt.Sprintf("%c%d", l.kind, l.tid)
}

const (
	stPending  = iota // Acquire* has not returned (as far as the harness has seen)
	stHolding         // returned nil, not released
	stFailed          // returned an error
	stReleased        // released
)

type caller struct {
	tid    int
	key    int
	write  bool
	ctx    context.Context
	cancel context.CancelFunc
	done   chan struct{} // closed by the wrapper goroutine after Acquire* returned (or panicked)
	w      *semap.Weighted
	err    error
	pan    interface{}
	state  int
}

type keyState struct {
	held, waiters int
	present       bool
}

type stepObs struct {
	l       label
	ok, er  []int
	bad     string // "" or what was irregular
	keys    []keyState
	entries int
}

type runner struct {
	cf      cfg
	m       semap.SemMapper
	callers map[int]*caller
	order   []*caller // arrival (issue) order
	trace   []stepObs
	nextTid int
	dead    bool // an irregular step was seen: the schedule stops there
	flip    bool
}

func newRunner(cf cfg) *runner {
	if cf.noRatio && cf.preRatio == 0 {
		cf.preRatio = lastExplicit
	}
	return &runner{cf: cf, m: cf.newMap(), callers: map[int]*caller{}, nextTid: 1}
}

// generous upper bound on a step that must complete; it can expire only on a real hang.  Once a real hang has been
// seen the run is a failure whatever happens next, so later steps get a short bound (keeps a broken tree from taking
// hours).
var hangs int

func stepTimeout() time.Duration {
	if hangs > 0 {
		return 300 * time.Millisecond
	}
	return 10 * time.Second
}

// enabled reports whether the harness may issue the label in the observed state
func (r *runner) enabled(l label) bool {
	if r.dead {
		return false
	}
	c := r.callers[l.tid]
	switch l.kind {
	case 'a':
		return c == nil && l.key >= 0 && l.key < len(r.cf.keys)
	case 'c':
		return c != nil && (c.state == stPending || c.state == stHolding)
	case 'r':
		return c != nil && c.state == stHolding
	case 'x':
		w := r.callers[l.tid2]
		return c != nil && c.state == stHolding && w != nil && w.state == stPending && w.key == c.key
	}
	return false
}

// step issues one label, waits for quiescence and records the observation; false = not enabled (nothing done)
func (r *runner) step(l label) bool {
	if !r.enabled(l) {
		return false
	}
	bad := ""
	var waitFor *caller
	switch l.kind {
	case 'a':
		ctx, cancel := context.WithCancel(context.Background())
		c := &caller{tid: l.tid, key: l.key, write: l.write, ctx: ctx, cancel: cancel, done: make(chan struct{}), state: stPending}
		r.callers[l.tid] = c
		r.order = append(r.order, c)
		if l.tid >= r.nextTid {
			r.nextTid = l.tid + 1
		}
		key := r.cf.keys[l.key]
		go func() {
			defer close(c.done)
			defer func() {
				if p := recover(); p != nil {
					c.pan = p
				}
			}()
			if c.write {
				c.w, c.err = r.m.AcquireWrite(ctx, key)
			} else {
				c.w, c.err = r.m.AcquireRead(ctx, key)
			}
		}()
	case 'c':
		c := r.callers[l.tid]
		l.key, l.write = c.key, c.write
		if c.state == stPending {
			waitFor = c // observed queued: after the cancellation its Acquire* must return
		}
		c.cancel()
	case 'x':
		// ReleaseX(holder) and cancel(waiter) back to back, nothing awaited in between: the waiter may notice the
		// cancellation before or after it was granted
		c, w := r.callers[l.tid], r.callers[l.tid2]
		l.key, l.write = c.key, c.write
		key := r.cf.keys[c.key]
		rel := func() {
			defer func() {
				if p := recover(); p != nil {
					bad = fmt.Sprintf("release panicked: %v", p)
				}
			}()
			if c.write {
				r.m.ReleaseWrite(key, c.w)
			} else {
				r.m.ReleaseRead(key, c.w)
			}
		}
		if l.relFirst {
			rel()
			w.cancel()
		} else {
			w.cancel()
			rel()
		}
		c.state = stReleased
		waitFor = w
	case 'r':
		c := r.callers[l.tid]
		l.key, l.write = c.key, c.write
		key := r.cf.keys[c.key]
		func() {
			defer func() {
				if p := recover(); p != nil {
					bad = fmt.Sprintf("release panicked: %v", p)
				}
			}()
			if c.write {
				r.m.ReleaseWrite(key, c.w)
			} else {
				r.m.ReleaseRead(key, c.w)
			}
		}()
		c.state = stReleased
	}
	if !r.settle(waitFor) && bad == "" {
		hangs++
		bad = "step did not become quiescent within " + stepTimeout().String() + "\n" + stacks()
	}
	o := stepObs{l: l, bad: bad}
	for _, c := range r.order {
		if c.state != stPending {
			continue
		}
		select {
		case <-c.done:
		default:
			continue
		}
		switch {
		case c.pan != nil:
			o.bad = fmt.Sprintf("acquire of caller %d panicked: %v", c.tid, c.pan)
			c.state = stFailed
		case c.err == nil && c.w != nil:
			o.ok = append(o.ok, c.tid)
			c.state = stHolding
		case c.err == nil:
			o.bad = fmt.Sprintf("acquire of caller %d returned (nil, nil)", c.tid)
			c.state = stFailed
		case errors.Is(c.err, context.Canceled) && c.w == nil && c.ctx.Err() != nil:
			o.er = append(o.er, c.tid)
			c.state = stFailed
		default:
			o.bad = fmt.Sprintf("acquire of caller %d returned (%v, %v)", c.tid, c.w, c.err)
			c.state = stFailed
		}
	}
	if l.kind == 'x' {
		switch r.callers[l.tid2].state {
		case stFailed:
			o.l.cancelFirstResolved = true
		case stHolding:
			o.l.cancelFirstResolved = false
		default:
			if o.bad == "" {
				o.bad = fmt.Sprintf("caller %d has not returned although its context was cancelled", l.tid2)
			}
		}
	}
	for _, k := range r.cf.keys {
		h, w, p := semap.VerifKeyState(r.m, k)
		o.keys = append(o.keys, keyState{h, w, p})
	}
	o.entries = semap.VerifEntries(r.m)
	r.trace = append(r.trace, o)
	if o.bad != "" {
		r.dead = true
	}
	return true
}

// quiescent: every caller whose Acquire* has not returned sits in the wait queue of its key.
// The not-returned callers are counted first (a caller only ever leaves that set), the queue length is read
// afterwards under the container's lock: equality can only be observed at an instant at which it really holds.
func (r *runner) quiescent() bool {
	pend := make([]int, len(r.cf.keys))
	for _, c := range r.order {
		if c.state != stPending {
			continue
		}
		select {
		case <-c.done:
		default:
			pend[c.key]++
		}
	}
	for i, k := range r.cf.keys {
		_, w, _ := semap.VerifKeyState(r.m, k)
		if w != pend[i] {
			return false
		}
	}
	return true
}

func (r *runner) settle(waitFor *caller) bool {
	deadline := time.Now().Add(stepTimeout())
	if waitFor != nil {
		t := time.NewTimer(stepTimeout())
		select {
		case <-waitFor.done:
			t.Stop()
		case <-t.C:
			return false
		}
	}
	for spin := 0; ; spin++ {
		if r.quiescent() {
			return true
		}
		if time.Now().After(deadline) {
			return false
		}
		if spin < 20000 {
			runtime.Gosched()
		} else {
			time.Sleep(50 * time.Microsecond) // polling back-off only; nothing is inferred from the time that passed
		}
	}
}

func stacks() string {
	buf := make([]byte, 1<<16)
	n := runtime.Stack(buf, true)
	s := string(buf[:n])
	if len(s) > 6000 {
		s = s[:6000]
	}
	return s
}

// finish lets every goroutine of the schedule end (outside the recorded trace)
func (r *runner) finish() {
	for _, c := range r.order {
		c.cancel()
	}
	for _, c := range r.order {
		t := time.NewTimer(stepTimeout())
		select {
		case <-c.done:
		case <-t.C:
		}
		t.Stop()
	}
}

func (r *runner) pendingOn(k int) (n int) {
	for _, c := range r.order {
		if c.state == stPending && c.key == k {
			n++
		}
	}
	return
}
func (r *runner) inState(st int) []*caller {
	var out []*caller
	for _, c := range r.order {
		if c.state == st {
			out = append(out, c)
		}
	}
	return out
}

// ---------------------------------------------------------------- emission

func natList(xs []int) string {
	s := make([]string, len(xs))
	for i, x := range xs {
		s[i] = strconv.Itoa(x)
	}
	if len(s) == 0 {
		return "[]"
	}
	return "[" + strings.Join(s, ";") + "]%nat"
}

func (o stepObs) coq() string {
	var lab string
	switch o.l.kind {
	case 'a':
		lab = fmt.Sprintf("LAcq %d %d %s", o.l.tid, o.l.key, vh.CoqBool(o.l.write))
	case 'c':
		lab = fmt.Sprintf("LCancel %d %d", o.l.tid, o.l.key)
	case 'r':
		lab = fmt.Sprintf("LRel %d %d", o.l.tid, o.l.key)
	}
	ks := make([]string, len(o.keys))
	for i, k := range o.keys {
		ks[i] = fmt.Sprintf("(%d,%d,%s)", k.held, k.waiters, vh.CoqBool(k.present))
	}
	fn := "ob"
	if o.bad != "" {
		fn = "obx"
	}
	obs := fmt.Sprintf("(%s %s %s [%s]%%Z %d)", fn, natList(o.ok), natList(o.er), strings.Join(ks, ";"), o.entries)
	if o.l.kind == 'x' {
		return fmt.Sprintf("Race %s %d %d %d %s", vh.CoqBool(o.l.cancelFirstResolved), o.l.tid, o.l.tid2, o.l.key, obs)
	}
	return fmt.Sprintf("Ev (%s) %s", lab, obs)
}

func (r *runner) replayArg() string {
	ks := make([]string, len(r.cf.keys))
	for i, k := range r.cf.keys {
		ks[i] = keyStr(k)
	}
	ls := make([]string, len(r.trace))
	for i, o := range r.trace {
		ls[i] = o.l.String()
	}
	ratio := r.cf.ratio
	pre := ""
	if r.cf.noRatio {
		ratio = 0 // 0 = built without WithRwRatio
	}
	if r.cf.preRatio > 0 {
		pre = fmt.Sprintf("pre%d!", r.cf.preRatio) // a map with this explicit ratio is constructed first
	}
	return fmt.Sprintf("%s%d,%d,%d|%s|%s", pre, r.cf.variant, ratio, r.cf.prime, strings.Join(ks, ";"), strings.Join(ls, ","))
}

func parseCfg(head, keys string) (cfg, error) {
	var cf cfg
	if i := strings.Index(head, "!"); i >= 0 && strings.HasPrefix(head, "pre") {
		cf.preRatio, _ = strconv.Atoi(head[3:i])
		head = head[i+1:]
		semap.NewSemMap(semap.WithRwRatio(cf.preRatio)) // the earlier, differently configured constructor call
	}
	if _, err := fmt.Sscanf(head, "%d,%d,%d", &cf.variant, &cf.ratio, &cf.prime); err != nil {
		return cf, err
	}
	if cf.ratio == 0 {
		cf.noRatio, cf.viaOptions, cf.ratio = true, true, defaultRWRatio
	}
	for _, s := range strings.Split(keys, ";") {
		k, err := parseKey(s)
		if err != nil {
			return cf, err
		}
		cf.keys = append(cf.keys, k)
	}
	return cf, nil
}

func parseReplay(arg string) (cfg, []label, error) {
	arg = strings.TrimPrefix(strings.TrimPrefix(strings.TrimPrefix(arg, "stress:"), "burst:"), "batch:")
	parts := strings.Split(arg, "|")
	if len(parts) != 3 {
		return cfg{}, nil, errors.New("replay argument: want variant,ratio,prime|keys|labels")
	}
	cf, err := parseCfg(parts[0], parts[1])
	if err != nil {
		return cf, nil, err
	}
	var labels []label
	for _, s := range strings.Split(parts[2], ",") {
		if s == "" {
			continue
		}
		l := label{kind: s[0]}
		switch s[0] {
		case 'a':
			var kd string
			f := strings.Split(s[1:], ".")
			if len(f) != 3 {
				return cf, nil, errors.New("bad label " + s)
			}
			l.tid, _ = strconv.Atoi(f[0])
			l.key, _ = strconv.Atoi(f[1])
			kd = f[2]
			l.write = kd == "w"
		case 'x':
			f := strings.Split(s[1:], ".")
			if len(f) != 3 {
				return cf, nil, errors.New("bad label " + s)
			}
			l.tid, _ = strconv.Atoi(f[0])
			l.tid2, _ = strconv.Atoi(f[1])
			l.relFirst = f[2] == "r"
		case 'c', 'r':
			l.tid, _ = strconv.Atoi(s[1:])
		default:
			return cf, nil, errors.New("bad label " + s)
		}
		labels = append(labels, l)
	}
	return cf, labels, nil
}

func emitSched(e *vh.Env, r *runner, class string) {
	steps := make([]string, len(r.trace))
	desc := make([]interface{}, len(r.trace))
	contended := false
	for i, o := range r.trace {
		steps[i] = o.coq()
		d := map[string]interface{}{"label": o.l.String(), "returned_ok": o.ok, "returned_cancelled": o.er, "entries": o.entries}
		if o.l.kind == 'x' {
			d["race_resolved"] = map[bool]string{true: "cancel section first (waiter returned the context error)", false: "release first (waiter returned nil)"}[o.l.cancelFirstResolved]
		}
		ks := make([]string, len(o.keys))
		for j, k := range o.keys {
			ks[j] = fmt.Sprintf("held=%d waiters=%d present=%v", k.held, k.waiters, k.present)
			if k.waiters > 0 {
				contended = true
			}
		}
		d["keys"] = ks
		if o.bad != "" {
			d["irregular"] = o.bad
		}
		desc[i] = d
	}
	ks := make([]string, len(r.cf.keys))
	for i, k := range r.cf.keys {
		ks[i] = keyStr(k)
	}
	e.Emit(vh.Case{
		Coq:        fmt.Sprintf("Sched %s %d [%s]", r.cf.sizeCoq(), len(r.cf.keys), strings.Join(steps, ";\n ")),
		Class:      class,
		Nontrivial: contended,
		Replay:     r.replayArg(),
		Desc: map[string]interface{}{"container": variantNames[r.cf.variant], "rwRatio": r.cf.ratio, "shards": r.cf.prime,
			"constructor_options": r.cf.optsCoq(), "explicit_ratio_of_the_previous_constructor_call": r.cf.preRatio, "keys": ks, "steps": desc},
	})
}

func newTimer() <-chan time.Time {
	if hangs > 0 {
		return time.After(3 * time.Second)
	}
	return time.After(60 * time.Second)
}

func zlit(v int) string {
	if v < 0 {
		return fmt.Sprintf("(%d)", v)
	}
	return fmt.Sprintf("%d", v)
}
