// Command c01: correspondence harness for property C01 (semap: per-key reader/writer exclusion, FIFO hand-off,
// no residue).
//
// Forced schedules: the harness issues ONE label at a time through the public API of the three containers
// (SemMap, WideSemMap with modulo routing, WideSemMap with xxhash routing):
//
//	a<t>.<k>.<r|w>  a new caller t calls AcquireRead / AcquireWrite(ctx_t, key k) in its own goroutine
//	c<t>            the harness cancels ctx_t (only for a caller observed queued, or for one that already holds)
//	r<t>            the harness calls ReleaseRead / ReleaseWrite for caller t (only for one whose acquire returned nil)
//
// and after each label waits until the container is quiescent, by positive observation only (see run.go), then
// records who has returned with what, VerifKeyState of every key and VerifEntries.  Coq replays the labels in the
// model (case_accept) and runs the property's monitor on the observations (case_holds).
package main

import (
	"fmt"
	"strings"
	"time"

	"verifharness/vh"
)

var variantNames = []string{"single", "modulo", "xxhash"}

// which generator classes to run; in search mode with a focus only the class that diverged
func want(e *vh.Env, class string) bool {
	if !e.Search || e.Focus == "" {
		return true
	}
	return e.Focus == class
}

func main() {
	vh.Main("c01", func(e *vh.Env) {
		if e.Replay != "" {
			cf, labels, err := parseReplay(e.Replay)
			if err != nil {
				panic(err)
			}
			if strings.HasPrefix(e.Replay, "batch:") {
				emitBatch(e, cf.variant, 400000, 20*time.Second)
				return
			}
			if strings.HasPrefix(e.Replay, "burst:") {
				emitBurst(e, cf.variant, 200000, 20*time.Second)
				return
			}
			if strings.HasPrefix(e.Replay, "stress:") {
				emitStress(e, cf, 400)
				return
			}
			r := newRunner(cf)
			for _, l := range labels {
				if !r.step(l) {
					break
				}
			}
			r.finish()
			emitSched(e, r, "replay")
			return
		}
		nRandom := e.Scale(120, 4000)    // per variant
		nStress := e.Scale(2, 12)        // per variant
		stressIters := e.Scale(150, 600) // per goroutine
		exCallers := 2
		if e.Thorough || e.Search {
			exCallers = 3
		}
		schedules := 0
		for v := 0; v < 3; v++ {
			vn := variantNames[v]
			// 1. scripted boundary schedules (the histories the property's clauses are about), every ratio
			if want(e, vn+"/scripted") {
				for _, ratio := range append([]int{1, 2, 3, 10}, bigRatios...) {
					for _, prime := range primesFor(v) {
						for si := range scripts {
							cf := scriptCfg(v, ratio, prime, e)
							r := newRunner(cf)
							runScript(r, scripts[si], ratio)
							r.finish()
							emitSched(e, r, vn+"/scripted")
							schedules++
						}
					}
				}
			}
			// 1b. constructor histories: maps built one after another with different option sets
			if want(e, vn+"/ctor-history") {
				schedules += ctorHistory(e, v, vn+"/ctor-history")
			}
			// 2. random schedules
			if want(e, vn+"/random") {
				for i := 0; i < nRandom; i++ {
					cf := randomCfg(v, e)
					r := newRunner(cf)
					randomSchedule(r, e)
					r.finish()
					emitSched(e, r, vn+"/random")
					schedules++
				}
			}
			// 3. all label sequences of small programs
			if want(e, vn+"/exhaustive") {
				ratios := []int{1, 2, 3}
				if v != 0 && exCallers >= 3 {
					ratios = []int{2}
				}
				for _, ratio := range ratios {
					schedules += exhaustive(e, v, ratio, exCallers, vn+"/exhaustive")
				}
			}
			// 4. free-running stress with in-section monitors
			if want(e, vn+"/stress") {
				for i := 0; i < nStress; i++ {
					cf := randomCfg(v, e)
					if len(cf.keys) > 2 {
						cf.keys = cf.keys[:2]
					}
					emitStress(e, cf, stressIters)
				}
			}
			// 5. first use of a key under real concurrency
			if want(e, vn+"/fresh-key-burst") {
				if e.Thorough || e.Search {
					emitBurst(e, v, 200000, 20*time.Second)
				} else {
					emitBurst(e, v, 20000, 1500*time.Millisecond)
				}
			}
			// 6. a big hand-off racing with the cancellation of the readers it admits
			if want(e, vn+"/batch-cancel") {
				if e.Thorough || e.Search {
					emitBatch(e, v, 400000, 20*time.Second)
				} else {
					emitBatch(e, v, 20000, 2*time.Second)
				}
			}
		}
		e.Meta["schedules"] = schedules
		e.Meta["exhaustive_callers"] = exCallers
		e.Meta["space"] = fmt.Sprintf("class */exhaustive: every maximal label sequence of <= %d callers, each acquiring (read or write, <= 2 keys, up to key symmetry) and then being cancelled while queued / releasing while holding / releasing in a race with the cancellation of a caller queued on the same key (with 2 callers also: cancelled while holding); rwRatio in {1,2,3} (with 3 callers the sharded variants use rwRatio 2 only)", exCallers)
	})
}
