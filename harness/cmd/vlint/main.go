// Command vlint is the lock-discipline lint of DESIGN.md section 3.3.
//
// stdin: JSON list of rules {file, recv, methods, lock, mode}; mode is "lock",
// "rlock" or "any".  For every listed method of the receiver type in the file
// the body must start with  x.<lock>.Lock(); defer x.<lock>.Unlock()  (or the
// RLock/RUnlock pair), or be bracketed by Lock ... Unlock with no return, go
// statement or channel operation in between.  methods == ["*"] means every
// exported method of the receiver declared in that file, minus "except".
// stdout: {"checked": n, "failures": [...]}.
package main

import (
	"encoding/json"
	"fmt"
	"go/ast"
	"go/parser"
	"go/token"
	"os"
	"strings"
)

type rule struct {
	File    string   `json:"file"`
	Recv    string   `json:"recv"`
	Methods []string `json:"methods"`
	Except  []string `json:"except"`
	Lock    string   `json:"lock"`
	Mode    string   `json:"mode"`
}

func recvName(fd *ast.FuncDecl) (typ string, name string) {
	if fd.Recv == nil || len(fd.Recv.List) == 0 {
		return "", ""
	}
	f := fd.Recv.List[0]
	t := f.Type
	if s, ok := t.(*ast.StarExpr); ok {
		t = s.X
	}
	switch x := t.(type) {
	case *ast.Ident:
		typ = x.Name
	case *ast.IndexExpr:
		if id, ok := x.X.(*ast.Ident); ok {
			typ = id.Name
		}
	case *ast.IndexListExpr:
		if id, ok := x.X.(*ast.Ident); ok {
			typ = id.Name
		}
	}
	if len(f.Names) > 0 {
		name = f.Names[0].Name
	}
	return
}

// isCall reports whether e is  recv.lock.fn()  (lock may be a dotted path, or empty for an embedded mutex)
func isCall(e ast.Expr, recv, lock, fn string) bool {
	c, ok := e.(*ast.CallExpr)
	if !ok || len(c.Args) != 0 {
		return false
	}
	sel, ok := c.Fun.(*ast.SelectorExpr)
	if !ok || sel.Sel.Name != fn {
		return false
	}
	want := recv
	if lock != "" {
		want += "." + lock
	}
	return exprString(sel.X) == want
}

func exprString(e ast.Expr) string {
	switch x := e.(type) {
	case *ast.Ident:
		return x.Name
	case *ast.SelectorExpr:
		return exprString(x.X) + "." + x.Sel.Name
	}
	return "?"
}

func check(fd *ast.FuncDecl, recv string, r rule) string {
	if fd.Body == nil || len(fd.Body.List) == 0 {
		return "empty body"
	}
	if r.Mode == "handoff" {
		// leading statements that do not touch the receiver (plain declarations) are allowed before the Lock
		start := -1
		for i, st := range fd.Body.List {
			if es, ok := st.(*ast.ExprStmt); ok && isCall(es.X, recv, r.Lock, "Lock") {
				start = i
				break
			}
			touches := false
			ast.Inspect(st, func(n ast.Node) bool {
				if id, ok := n.(*ast.Ident); ok && id.Name == recv {
					touches = true
				}
				return true
			})
			if touches {
				return "the receiver is used before " + recv + "." + r.Lock + ".Lock()"
			}
		}
		if start < 0 {
			return "no " + recv + "." + r.Lock + ".Lock() statement"
		}
		bad := ""
		for _, st := range fd.Body.List[start+1:] {
			ast.Inspect(st, func(n ast.Node) bool {
				if e, ok := n.(ast.Expr); ok && (isCall(e, recv, r.Lock, "Unlock") || isCall(e, recv, r.Lock, "Lock")) {
					bad = "the mutex is released or re-taken inside the body (the critical section must be handed to the callee unbroken)"
				}
				return true
			})
		}
		return bad
	}
	pairs := [][2]string{}
	switch r.Mode {
	case "lock":
		pairs = append(pairs, [2]string{"Lock", "Unlock"})
	case "rlock":
		pairs = append(pairs, [2]string{"RLock", "RUnlock"})
	default:
		pairs = append(pairs, [2]string{"Lock", "Unlock"}, [2]string{"RLock", "RUnlock"})
	}
	first, ok := fd.Body.List[0].(*ast.ExprStmt)
	if !ok {
		return "first statement is not a lock call"
	}
	for _, p := range pairs {
		if !isCall(first.X, recv, r.Lock, p[0]) {
			continue
		}
		// form 1: defer unlock as second statement
		if len(fd.Body.List) >= 2 {
			if d, ok := fd.Body.List[1].(*ast.DeferStmt); ok && isCall(d.Call, recv, r.Lock, p[1]) {
				return ""
			}
		}
		// form 2: bracket; the matching unlock must be a top-level statement, nothing escapes in between,
		// and nothing but a return of plain values follows it
		for i := 1; i < len(fd.Body.List); i++ {
			if es, ok := fd.Body.List[i].(*ast.ExprStmt); ok && isCall(es.X, recv, r.Lock, p[1]) {
				bad := ""
				for _, st := range fd.Body.List[1:i] {
					ast.Inspect(st, func(n ast.Node) bool {
						switch n.(type) {
						case *ast.ReturnStmt:
							bad = "return inside the Lock/Unlock bracket"
						case *ast.GoStmt:
							bad = "go statement inside the bracket"
						case *ast.SendStmt:
							bad = "channel send inside the bracket"
						case *ast.FuncLit:
							return false
						}
						return true
					})
				}
				for _, st := range fd.Body.List[i+1:] {
					if _, ok := st.(*ast.ReturnStmt); !ok {
						// allow trailing statements that do not touch the receiver
						touches := false
						ast.Inspect(st, func(n ast.Node) bool {
							if id, ok := n.(*ast.Ident); ok && id.Name == recv {
								touches = true
							}
							return true
						})
						if touches {
							bad = "receiver used after the Unlock"
						}
					}
				}
				return bad
			}
		}
		return "lock taken but no deferred / bracketing unlock found"
	}
	return "first statement is not " + recv + "." + r.Lock + ".Lock()/RLock()"
}

func main() {
	var rules []rule
	if err := json.NewDecoder(os.Stdin).Decode(&rules); err != nil {
		fmt.Println(`{"checked":0,"failures":["bad lint spec"]}`)
		return
	}
	checked := 0
	failures := []string{}
	for _, r := range rules {
		fset := token.NewFileSet()
		f, err := parser.ParseFile(fset, r.File, nil, 0)
		if err != nil {
			failures = append(failures, fmt.Sprintf("%s: %v", r.File, err))
			continue
		}
		want := map[string]bool{}
		all := false
		for _, m := range r.Methods {
			if m == "*" {
				all = true
			}
			want[m] = true
		}
		except := map[string]bool{}
		for _, m := range r.Except {
			except[m] = true
		}
		seen := map[string]bool{}
		for _, d := range f.Decls {
			fd, ok := d.(*ast.FuncDecl)
			if !ok {
				continue
			}
			typ, rn := recvName(fd)
			if typ != r.Recv {
				continue
			}
			name := fd.Name.Name
			if except[name] {
				continue
			}
			if !(want[name] || (all && ast.IsExported(name))) {
				continue
			}
			seen[name] = true
			checked++
			if msg := check(fd, rn, r); msg != "" {
				failures = append(failures, fmt.Sprintf("%s: (%s).%s: %s", strings.TrimPrefix(r.File, "/repo/"), r.Recv, name, msg))
			}
		}
		for m := range want {
			if m != "*" && !seen[m] {
				failures = append(failures, fmt.Sprintf("%s: method (%s).%s not found", r.File, r.Recv, m))
			}
		}
	}
	out, _ := json.Marshal(map[string]interface{}{"checked": checked, "failures": failures})
	fmt.Println(string(out))
}
