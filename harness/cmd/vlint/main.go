// Command vlint is the lock-discipline lint of DESIGN.md section 3.3.
//
// stdin: JSON list of rules {file, recv, methods, lock, mode}; mode is "lock",
// "rlock" or "any".  For every listed method of the receiver type in the file
// the body must start with  x.<lock>.Lock(); defer x.<lock>.Unlock()  (or the
// RLock/RUnlock pair), or be bracketed by Lock ... Unlock with no return, go
// statement or channel operation in between.  methods == ["*"] means every
// exported method of the receiver declared in that file, minus "except".
//
// Two harmless shapes are accepted besides the literal ones (a rule that is a
// superset of the strict rule, so nothing that passed before fails now):
//   - a preamble before the Lock that does not use the receiver at all, or reads
//     only fields of a basic type (int64, string, bool ...) that no method of the
//     type ever assigns (configuration fixed at construction);
//   - after such a preamble, a body that is one call of another method of the same
//     receiver (return x.helper(...) / x.helper(...)), when that helper satisfies
//     the rule itself (up to three levels).
// stdout: {"checked": n, "failures": [...]}.
package main

import (
	"encoding/json"
	"fmt"
	"go/ast"
	"go/parser"
	"go/token"
	"os"
	"path/filepath"
	"strings"
)

type rule struct {
	File    string   `json:"file"`
	Recv    string   `json:"recv"`
	Methods []string `json:"methods"`
	Except  []string `json:"except"`
	Lock    string   `json:"lock"`
	Mode    string   `json:"mode"`
}

func recvName(fd *ast.FuncDecl) (typ string, name string) {
	if fd.Recv == nil || len(fd.Recv.List) == 0 {
		return "", ""
	}
	f := fd.Recv.List[0]
	t := f.Type
	if s, ok := t.(*ast.StarExpr); ok {
		t = s.X
	}
	switch x := t.(type) {
	case *ast.Ident:
		typ = x.Name
	case *ast.IndexExpr:
		if id, ok := x.X.(*ast.Ident); ok {
			typ = id.Name
		}
	case *ast.IndexListExpr:
		if id, ok := x.X.(*ast.Ident); ok {
			typ = id.Name
		}
	}
	if len(f.Names) > 0 {
		name = f.Names[0].Name
	}
	return
}

// isCall reports whether e is  recv.lock.fn()  (lock may be a dotted path, or empty for an embedded mutex)
func isCall(e ast.Expr, recv, lock, fn string) bool {
	c, ok := e.(*ast.CallExpr)
	if !ok || len(c.Args) != 0 {
		return false
	}
	sel, ok := c.Fun.(*ast.SelectorExpr)
	if !ok || sel.Sel.Name != fn {
		return false
	}
	want := recv
	if lock != "" {
		want += "." + lock
	}
	return exprString(sel.X) == want
}

func exprString(e ast.Expr) string {
	switch x := e.(type) {
	case *ast.Ident:
		return x.Name
	case *ast.SelectorExpr:
		return exprString(x.X) + "." + x.Sel.Name
	}
	return "?"
}


// tctx is what the relaxed shapes need to know about the receiver type: its methods (over the whole
// package directory, test and verif-tagged files excluded), the fields some method assigns, and the
// fields declared with a basic type.
type tctx struct {
	methods  map[string]*ast.FuncDecl
	assigned map[string]bool
	basic    map[string]bool
}

var basicTypes = map[string]bool{"bool": true, "string": true, "int": true, "int8": true, "int16": true, "int32": true, "int64": true,
	"uint": true, "uint8": true, "uint16": true, "uint32": true, "uint64": true, "uintptr": true, "byte": true, "rune": true,
	"float32": true, "float64": true}

// rootField returns f when e is  recv.f , recv.f[...] , recv.f.g ...  (the field of the receiver an lvalue is rooted at)
func rootField(e ast.Expr, recv string) string {
	for {
		switch x := e.(type) {
		case *ast.SelectorExpr:
			if id, ok := x.X.(*ast.Ident); ok && id.Name == recv {
				return x.Sel.Name
			}
			e = x.X
		case *ast.IndexExpr:
			e = x.X
		case *ast.StarExpr:
			e = x.X
		case *ast.ParenExpr:
			e = x.X
		default:
			return ""
		}
	}
}

func buildCtx(dir string, typ string) *tctx {
	c := &tctx{methods: map[string]*ast.FuncDecl{}, assigned: map[string]bool{}, basic: map[string]bool{}}
	fset := token.NewFileSet()
	pkgs, err := parser.ParseDir(fset, dir, func(fi os.FileInfo) bool {
		return !strings.HasSuffix(fi.Name(), "_test.go") && !strings.HasSuffix(fi.Name(), "_verif.go")
	}, 0)
	if err != nil {
		return c
	}
	for _, pk := range pkgs {
		for _, f := range pk.Files {
			for _, d := range f.Decls {
				switch x := d.(type) {
				case *ast.GenDecl:
					for _, sp := range x.Specs {
						ts, ok := sp.(*ast.TypeSpec)
						if !ok || ts.Name.Name != typ {
							continue
						}
						st, ok := ts.Type.(*ast.StructType)
						if !ok {
							continue
						}
						for _, fl := range st.Fields.List {
							if id, ok := fl.Type.(*ast.Ident); ok && basicTypes[id.Name] {
								for _, n := range fl.Names {
									c.basic[n.Name] = true
								}
							}
						}
					}
				case *ast.FuncDecl:
					t, rn := recvName(x)
					if t != typ || x.Body == nil {
						continue
					}
					c.methods[x.Name.Name] = x
					if rn == "" {
						continue
					}
					mark := func(e ast.Expr) {
						if f := rootField(e, rn); f != "" {
							c.assigned[f] = true
						}
					}
					ast.Inspect(x.Body, func(n ast.Node) bool {
						switch y := n.(type) {
						case *ast.AssignStmt:
							for _, l := range y.Lhs {
								mark(l)
							}
						case *ast.IncDecStmt:
							mark(y.X)
						case *ast.RangeStmt:
							if y.Key != nil {
								mark(y.Key)
							}
							if y.Value != nil {
								mark(y.Value)
							}
						case *ast.UnaryExpr:
							if y.Op == token.AND {
								mark(y.X)
							}
						}
						return true
					})
				}
			}
		}
	}
	return c
}

// harmless reports whether a node uses the receiver only by reading never-assigned fields of a basic type
func harmless(n ast.Node, recv string, c *tctx) bool {
	ok := true
	ast.Inspect(n, func(m ast.Node) bool {
		switch x := m.(type) {
		case *ast.SelectorExpr:
			if id, isID := x.X.(*ast.Ident); isID && id.Name == recv {
				if c == nil || !c.basic[x.Sel.Name] || c.assigned[x.Sel.Name] {
					ok = false
				}
				return false
			}
		case *ast.Ident:
			if x.Name == recv {
				ok = false
			}
		}
		return ok
	})
	return ok
}

func isLockStmt(st ast.Stmt, recv string, lock string) bool {
	es, ok := st.(*ast.ExprStmt)
	return ok && (isCall(es.X, recv, lock, "Lock") || isCall(es.X, recv, lock, "RLock"))
}

// delegate returns the helper method when the statements are exactly one call of a method of the receiver
// (possibly as the operand of a return, possibly followed by a bare return) with harmless arguments
func delegate(stmts []ast.Stmt, recv string, c *tctx) *ast.FuncDecl {
	if c == nil || len(stmts) == 0 || len(stmts) > 2 {
		return nil
	}
	if len(stmts) == 2 {
		r, ok := stmts[1].(*ast.ReturnStmt)
		if !ok || len(r.Results) != 0 {
			return nil
		}
	}
	var call *ast.CallExpr
	switch x := stmts[0].(type) {
	case *ast.ExprStmt:
		call, _ = x.X.(*ast.CallExpr)
	case *ast.ReturnStmt:
		if len(x.Results) == 1 {
			call, _ = x.Results[0].(*ast.CallExpr)
		}
	}
	if call == nil {
		return nil
	}
	sel, ok := call.Fun.(*ast.SelectorExpr)
	if !ok {
		return nil
	}
	if id, isID := sel.X.(*ast.Ident); !isID || id.Name != recv {
		return nil
	}
	for _, a := range call.Args {
		// an argument may also be a plain field  recv.f  of any type that no method ever assigns: evaluating it
		// reads a fixed reference, the helper uses what it refers to under the lock
		if as, ok := a.(*ast.SelectorExpr); ok {
			if id, isID := as.X.(*ast.Ident); isID && id.Name == recv && !c.assigned[as.Sel.Name] {
				continue
			}
		}
		if !harmless(a, recv, c) {
			return nil
		}
	}
	return c.methods[sel.Sel.Name]
}

func check(fd *ast.FuncDecl, recv string, r rule, c *tctx) string {
	return checkDepth(fd, recv, r, c, 0)
}

func checkDepth(fd *ast.FuncDecl, recv string, r rule, c *tctx, depth int) string {
	if fd.Body == nil || len(fd.Body.List) == 0 {
		return "empty body"
	}
	if r.Mode == "handoff" {
		return checkStrict(fd.Body.List, recv, r)
	}
	stmts := fd.Body.List
	i := 0
	for i < len(stmts) && !isLockStmt(stmts[i], recv, r.Lock) && harmless(stmts[i], recv, c) {
		i++
	}
	rest := stmts[i:]
	if len(rest) == 0 {
		return "" // never touches mutable state of the receiver
	}
	if depth < 3 {
		if h := delegate(rest, recv, c); h != nil {
			_, hn := recvName(h)
			if msg := checkDepth(h, hn, r, c, depth+1); msg != "" {
				return "delegates to " + h.Name.Name + ": " + msg
			}
			return ""
		}
	}
	return checkStrict(rest, recv, r)
}

// innerBad inspects the statements between the Lock and the closing top-level Unlock.  A return is allowed only
// directly after an Unlock of the same mutex in the same statement list, with results that do not use the receiver
// (unlock-then-return on an early exit); an Unlock is allowed only directly before such a return; the mutex is not
// re-taken; no go statement or channel send.  So on every path the mutex is released exactly once, at the exit.
func innerBad(stmts []ast.Stmt, recv, lock, unlock string) string {
	okRet := map[*ast.ReturnStmt]bool{}
	okUnl := map[ast.Stmt]bool{}
	var lists func(l []ast.Stmt)
	lists = func(l []ast.Stmt) {
		for k, st := range l {
			if es, ok := st.(*ast.ExprStmt); ok && isCall(es.X, recv, lock, unlock) && k+1 < len(l) {
				if rt, ok := l[k+1].(*ast.ReturnStmt); ok {
					clean := true
					for _, e := range rt.Results {
						if !harmless(e, recv, nil) {
							clean = false
						}
					}
					if clean {
						okRet[rt] = true
						okUnl[st] = true
					}
				}
			}
		}
	}
	bad := ""
	lists(stmts)
	for _, st := range stmts {
		ast.Inspect(st, func(n ast.Node) bool {
			switch x := n.(type) {
			case *ast.BlockStmt:
				lists(x.List)
			case *ast.CaseClause:
				lists(x.Body)
			case *ast.CommClause:
				lists(x.Body)
			case *ast.FuncLit:
				return false
			}
			return true
		})
	}
	for _, st := range stmts {
		ast.Inspect(st, func(n ast.Node) bool {
			switch x := n.(type) {
			case *ast.ReturnStmt:
				if !okRet[x] {
					bad = "return inside the Lock/Unlock bracket"
				}
			case *ast.ExprStmt:
				if isCall(x.X, recv, lock, unlock) && !okUnl[x] {
					bad = "the mutex is released inside the bracket without leaving the method"
				}
				if isCall(x.X, recv, lock, "Lock") || isCall(x.X, recv, lock, "RLock") {
					bad = "the mutex is re-taken inside the bracket"
				}
			case *ast.GoStmt:
				bad = "go statement inside the bracket"
			case *ast.SendStmt:
				bad = "channel send inside the bracket"
			case *ast.FuncLit:
				return false
			}
			return true
		})
	}
	return bad
}

func checkStrict(list []ast.Stmt, recv string, r rule) string {
	if r.Mode == "handoff" {
		// leading statements that do not touch the receiver (plain declarations) are allowed before the Lock
		start := -1
		for i, st := range list {
			if es, ok := st.(*ast.ExprStmt); ok && isCall(es.X, recv, r.Lock, "Lock") {
				start = i
				break
			}
			touches := false
			ast.Inspect(st, func(n ast.Node) bool {
				if id, ok := n.(*ast.Ident); ok && id.Name == recv {
					touches = true
				}
				return true
			})
			if touches {
				return "the receiver is used before " + recv + "." + r.Lock + ".Lock()"
			}
		}
		if start < 0 {
			return "no " + recv + "." + r.Lock + ".Lock() statement"
		}
		bad := ""
		for _, st := range list[start+1:] {
			ast.Inspect(st, func(n ast.Node) bool {
				if e, ok := n.(ast.Expr); ok && (isCall(e, recv, r.Lock, "Unlock") || isCall(e, recv, r.Lock, "Lock")) {
					bad = "the mutex is released or re-taken inside the body (the critical section must be handed to the callee unbroken)"
				}
				return true
			})
		}
		return bad
	}
	pairs := [][2]string{}
	switch r.Mode {
	case "lock":
		pairs = append(pairs, [2]string{"Lock", "Unlock"})
	case "rlock":
		pairs = append(pairs, [2]string{"RLock", "RUnlock"})
	default:
		pairs = append(pairs, [2]string{"Lock", "Unlock"}, [2]string{"RLock", "RUnlock"})
	}
	first, ok := list[0].(*ast.ExprStmt)
	if !ok {
		return "first statement is not a lock call"
	}
	for _, p := range pairs {
		if !isCall(first.X, recv, r.Lock, p[0]) {
			continue
		}
		// form 1: defer unlock as second statement
		if len(list) >= 2 {
			if d, ok := list[1].(*ast.DeferStmt); ok && isCall(d.Call, recv, r.Lock, p[1]) {
				return ""
			}
		}
		// form 2: bracket; the matching unlock must be a top-level statement, nothing escapes in between,
		// and nothing but a return of plain values follows it
		for i := 1; i < len(list); i++ {
			if es, ok := list[i].(*ast.ExprStmt); ok && isCall(es.X, recv, r.Lock, p[1]) {
				bad := innerBad(list[1:i], recv, r.Lock, p[1])
				for _, st := range list[i+1:] {
					if _, ok := st.(*ast.ReturnStmt); !ok {
						// allow trailing statements that do not touch the receiver
						touches := false
						ast.Inspect(st, func(n ast.Node) bool {
							if id, ok := n.(*ast.Ident); ok && id.Name == recv {
								touches = true
							}
							return true
						})
						if touches {
							bad = "receiver used after the Unlock"
						}
					}
				}
				return bad
			}
		}
		return "lock taken but no deferred / bracketing unlock found"
	}
	return "first statement is not " + recv + "." + r.Lock + ".Lock()/RLock()"
}

func main() {
	var rules []rule
	if err := json.NewDecoder(os.Stdin).Decode(&rules); err != nil {
		fmt.Println(`{"checked":0,"failures":["bad lint spec"]}`)
		return
	}
	checked := 0
	failures := []string{}
	for _, r := range rules {
		fset := token.NewFileSet()
		f, err := parser.ParseFile(fset, r.File, nil, 0)
		if err != nil {
			failures = append(failures, fmt.Sprintf("%s: %v", r.File, err))
			continue
		}
		want := map[string]bool{}
		all := false
		for _, m := range r.Methods {
			if m == "*" {
				all = true
			}
			want[m] = true
		}
		except := map[string]bool{}
		for _, m := range r.Except {
			except[m] = true
		}
		seen := map[string]bool{}
		tc := buildCtx(filepath.Dir(r.File), r.Recv)
		for _, d := range f.Decls {
			fd, ok := d.(*ast.FuncDecl)
			if !ok {
				continue
			}
			typ, rn := recvName(fd)
			if typ != r.Recv {
				continue
			}
			name := fd.Name.Name
			if except[name] {
				continue
			}
			if !(want[name] || (all && ast.IsExported(name))) {
				continue
			}
			seen[name] = true
			checked++
			if msg := check(fd, rn, r, tc); msg != "" {
				failures = append(failures, fmt.Sprintf("%s: (%s).%s: %s", strings.TrimPrefix(r.File, "/repo/"), r.Recv, name, msg))
			}
		}
		for m := range want {
			if m != "*" && !seen[m] {
				failures = append(failures, fmt.Sprintf("%s: method (%s).%s not found", r.File, r.Recv, m))
			}
		}
	}
	out, _ := json.Marshal(map[string]interface{}{"checked": checked, "failures": failures})
	fmt.Println(string(out))
}
